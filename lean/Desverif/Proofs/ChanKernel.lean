/-
Kernel-order invariant: the channel's pending kernel events are its undelivered exit events in
scheduling order followed by the pending unbusy notification; with zero jitter the undelivered
exit events are sorted in the kernel's dispatch order, so the kernel hands messages out in the
order their transmissions started.  Joint preservation with `SInv` by every step.
-/
import Desverif.Proofs.ChanInvRun
namespace ChanInv
open Chan (Msg Metrics DropB Eff Fate Err)
open ChanSrv (Srv bytes drain exitOf)
open ChanRun

/-! ### `kmin` -/

theorem kmin_mem : ∀ {l : List KEv} {m : KEv}, kmin l = some m → m ∈ l
  | [], m, h => by simp [kmin] at h
  | e :: l, m, h => by
    simp only [kmin] at h
    cases hk : kmin l with
    | none => simp only [hk, Option.some.injEq] at h; subst h; simp
    | some x =>
      simp only [hk] at h
      by_cases hb : x.before e
      · simp only [hb, if_true, Option.some.injEq] at h; subst h
        exact List.mem_cons_of_mem _ (kmin_mem hk)
      · simp only [hb, if_false, Option.some.injEq] at h; subst h; simp

/-- nothing pending goes before the kernel's choice -/
theorem kmin_le : ∀ {l : List KEv} {m : KEv}, kmin l = some m → ∀ x ∈ l, ¬ x.before m
  | [], m, h => by simp [kmin] at h
  | e :: l, m, h => by
    simp only [kmin] at h
    intro x hx
    cases hk : kmin l with
    | none =>
      simp only [hk, Option.some.injEq] at h; subst h
      have : l = [] := by
        cases l with
        | nil => rfl
        | cons a l =>
          simp only [kmin] at hk
          cases h2 : kmin l <;> simp only [h2] at hk
          · cases hk
          · split at hk <;> cases hk
      subst this
      simp only [List.mem_singleton] at hx; subst hx
      simp only [KEv.before]; omega
    | some y =>
      simp only [hk] at h
      have ih := kmin_le hk
      by_cases hb : y.before e
      · simp only [hb, if_true, Option.some.injEq] at h; subst h
        rcases List.mem_cons.mp hx with rfl | hx'
        · simp only [KEv.before] at hb ⊢; omega
        · exact ih x hx'
      · simp only [hb, if_false, Option.some.injEq] at h; subst h
        rcases List.mem_cons.mp hx with rfl | hx'
        · simp only [KEv.before]; omega
        · have := ih x hx'
          simp only [KEv.before] at hb this ⊢; omega

/-! ### the full state invariant: `SInv0` plus "the unbusy notifications among the pending kernel
events are exactly the pending unbusy notifications" -/

theorem count_kevs (now : Nat) (effs : List Eff) (u : Nat) :
    (kevs now effs).count (KEv.unbusy u) = (unbusyTimes effs).count u := by
  induction effs with
  | nil => simp [kevs, unbusyTimes]
  | cons e effs ih =>
    simp only [kevs, unbusyTimes] at ih ⊢
    cases e with
    | unbusyAt t =>
      simp only [List.map_cons, List.filterMap_cons, List.count_cons, ih, beq_iff_eq, KEv.unbusy.injEq]
    | exitAt t id =>
      simp only [List.map_cons, List.filterMap_cons, List.count_cons, ih, beq_iff_eq, reduceCtorEq,
        if_false, Nat.add_zero]

structure SInv (mt : Metrics) (w : World Srv) : Prop extends SInv0 mt w where
  kqpend : ∀ u, w.kq.count (KEv.unbusy u) = w.pend.count u

theorem init_SInv (mt : Metrics) : SInv mt (World.init spec) :=
  ⟨init_SInv0 mt, by simp [World.init]⟩

theorem offer_SInv (mt : Metrics) {w w' : World Srv} (hI : SInv mt w) (t : Nat) (m : Msg)
    (h : step spec mt w (.offer t m) = .ok w') : SInv mt w' := by
  refine ⟨offer_SInv0 mt hI.toSInv0 t m h, ?_⟩
  simp only [step] at h
  split at h
  · cases h
  · split at h
    · cases h
    · split at h
      · cases h
      · simp only [Except.ok.injEq] at h; subst h
        intro u
        simp only [advance, List.count_append, count_kevs, hI.kqpend u]

theorem unbusy_SInv (mt : Metrics) {w w' : World Srv} (hI : SInv mt w)
    (h : step spec mt w .unbusy = .ok w') : SInv mt w' := by
  refine ⟨unbusy_SInv0 mt hI.toSInv0 h, ?_⟩
  obtain ⟨f, hs, hp, hkm, rfl⟩ := unbusy_shape mt hI.toSInv0 h
  intro u
  simp only [advance, List.count_append, count_kevs, List.count_nil, Nat.zero_add]
  have := hI.kqpend u
  rw [hp] at this
  by_cases huf : u = f
  · subst huf
    rw [List.count_erase_self, this]; simp
  · rw [List.count_erase_of_ne (by simpa using huf), this]
    simp [List.count_cons]
    intro h; exact absurd h.symm huf

theorem deliver_SInv (mt : Metrics) {w w' : World Srv} (hI : SInv mt w)
    (h : step spec mt w .deliver = .ok w') :
    SInv mt w' ∧ ∃ e, kmin w.kq = some (.exit e) ∧
      w' = { w with clock := e.time, kq := w.kq.erase (.exit e), delivered := w.delivered ++ [e.id] } := by
  obtain ⟨e, hkm, _, hw', hbusy, hidle⟩ := deliver_SInv0 mt hI.toSInv0 h
  have h0 : SInv0 mt w' := by
    cases hs : w.chan.serving with
    | none => exact hidle hs
    | some f =>
      apply hbusy f hs
      have hmem : KEv.unbusy f ∈ w.kq := by
        have := hI.kqpend f
        rw [(hI.busy f hs).1] at this
        simp only [List.count_cons_self, List.count_nil] at this
        exact List.count_pos_iff.mp (by omega)
      have := kmin_le hkm _ hmem
      simp only [KEv.before, KEv.time, KEv.rank] at this
      split at this <;> omega
  refine ⟨⟨h0, ?_⟩, e, hkm, hw'⟩
  subst hw'
  intro u
  show (w.kq.erase (KEv.exit e)).count (KEv.unbusy u) = w.pend.count u
  rw [List.count_erase_of_ne (by simp)]
  exact hI.kqpend u

theorem step_SInv (mt : Metrics) {w w' : World Srv} (hI : SInv mt w) (op : Op)
    (h : step spec mt w op = .ok w') : SInv mt w' := by
  cases op with
  | offer t m => exact offer_SInv mt hI t m h
  | unbusy => exact unbusy_SInv mt hI h
  | deliver => exact (deliver_SInv mt hI h).1

theorem runFrom_SInv (mt : Metrics) (ops : List Op) :
    ∀ {w w' : World Srv}, SInv mt w → runFrom spec mt w ops = .ok w' → SInv mt w' := by
  induction ops with
  | nil => intro w w' hI h; simp only [runFrom, Except.ok.injEq] at h; exact h ▸ hI
  | cons op ops ih =>
    intro w w' hI h
    simp only [runFrom] at h
    cases hst : step spec mt w op with
    | error e => simp [hst] at h
    | ok w1 =>
      simp only [hst] at h
      exact ih (step_SInv mt hI op hst) h

/-- the invariant holds after every script the abstract server accepts -/
theorem srun_SInv {mt : Metrics} {ops : List Op} {w : World Srv} (h : srun mt ops = .ok w) :
    SInv mt w := runFrom_SInv mt ops (init_SInv mt) h

/-- if the kernel takes the unbusy notification, which was scheduled after every pending exit
    event, all of them are due strictly later -/
theorem kmin_unbusy_last (f : Nat) : ∀ (P : List Exit),
    kmin (P.map KEv.exit ++ [KEv.unbusy f]) = some (KEv.unbusy f) → ∀ a ∈ P, f < a.time
  | [], _ => by simp
  | a :: P, h => by
    simp only [List.map_cons, List.cons_append, kmin] at h
    cases hk : kmin (P.map KEv.exit ++ [KEv.unbusy f]) with
    | none => simp [hk] at h
    | some y =>
      simp only [hk] at h
      by_cases hb : y.before (KEv.exit a)
      · simp only [hb, if_true, Option.some.injEq] at h; subst h
        intro x hx
        rcases List.mem_cons.mp hx with rfl | hx'
        · simp only [KEv.before, KEv.time, KEv.rank] at hb
          split at hb <;> omega
        · exact kmin_unbusy_last f P hk x hx'
      · simp [hb] at h

/-- the kernel's dispatch order on two exit events, the first scheduled earlier -/
def klt (a b : Exit) : Prop :=
  a.time < b.time ∨ (a.time = b.time ∧ (b.sched ≠ b.time ∨ a.sched = a.time))

/-- if the pending exit events are sorted and the kernel takes an exit event, it is the first -/
theorem kmin_exit_head {P : List Exit} {U : List Nat} {e : Exit} (hs : P.Pairwise klt)
    (h : kmin (P.map KEv.exit ++ U.map KEv.unbusy) = some (KEv.exit e)) :
    ∃ rest, P = e :: rest := by
  cases P with
  | nil =>
    have := kmin_mem h
    simp at this
  | cons a rest =>
    refine ⟨rest, ?_⟩
    simp only [List.map_cons, List.cons_append, kmin] at h
    cases hk : kmin (rest.map KEv.exit ++ U.map KEv.unbusy) with
    | none => simp only [hk, Option.some.injEq, KEv.exit.injEq] at h; rw [h]
    | some y =>
      simp only [hk] at h
      by_cases hb : y.before (KEv.exit a)
      · simp only [hb, if_true, Option.some.injEq] at h; subst h
        have hm := kmin_mem hk
        simp only [List.mem_append, List.mem_map, KEv.exit.injEq, reduceCtorEq, and_false,
          exists_false, or_false, exists_eq_right] at hm
        have := (List.pairwise_cons.mp hs).1 e hm
        simp only [KEv.before, KEv.time, KEv.rank] at hb
        simp only [klt] at this
        split at hb <;> split at hb <;> omega
      · simp only [hb, if_false, Option.some.injEq, KEv.exit.injEq] at h; rw [h]

/-! ### effects are exit events first, then the unbusy notification -/

theorem drain_kevs (mt : Metrics) (now : Nat) (q : List Msg) :
    kevs now (drain mt now q).2.1 =
      ((drained mt now q).map (fun m => exitFor mt (now, m))).map KEv.exit ++
        (drain mt now q).1.serving.toList.map KEv.unbusy := by
  induction q with
  | nil => simp [drain, drained, kevs]
  | cons m q ih =>
    by_cases htx : m.tx = 0
    · simp only [drained, kevs] at ih ⊢
      simp only [drain, htx, if_true, List.map_cons, exitOf, ih, List.cons_append]
      simp [exitFor, htx]
    · simp [drain, drained, htx, kevs, exitOf, exitFor]

theorem drained_sub (mt : Metrics) (now : Nat) (q : List Msg) : ∀ x ∈ drained mt now q, x ∈ q := by
  intro x hx
  have := drain_split mt now q
  rw [← this]
  exact List.mem_append_left _ hx

theorem drain_sorted (mt : Metrics) (now : Nat) (q : List Msg) (hj : ∀ m ∈ q, m.j = 0) :
    ((drained mt now q).map (fun m => exitFor mt (now, m))).Pairwise klt := by
  induction q with
  | nil => simp [drain, drained]
  | cons m q ih =>
    have hjq : ∀ x ∈ q, x.j = 0 := fun x hx => hj x (List.mem_cons_of_mem _ hx)
    by_cases htx : m.tx = 0
    · have ih' := ih hjq
      have hsub := drained_sub mt now q
      simp only [drained] at ih' hsub ⊢
      simp only [drain, htx, if_true, List.map_cons, List.pairwise_cons]
      refine ⟨?_, ih'⟩
      intro b hb
      simp only [List.mem_map] at hb
      obtain ⟨x, ⟨p, hp, rfl⟩, rfl⟩ := hb
      have hx := hjq p.1 (hsub p.1 (List.mem_map.mpr ⟨p, hp, rfl⟩))
      have hm := hj m (by simp)
      simp only [klt, exitFor]
      omega
    · simp [drain, drained, htx]

theorem drain_posdelay (mt : Metrics) (now : Nat) (q : List Msg) :
    ∀ x ∈ drained mt now q, x.tx ≠ 0 → (drain mt now q).1.serving = some (now + x.tx) := by
  induction q with
  | nil => simp [drain, drained]
  | cons m q ih =>
    by_cases htx : m.tx = 0
    · simp only [drained] at ih ⊢
      simp only [drain, htx, if_true, List.map_cons, List.mem_cons]
      intro x hx hxtx
      rcases hx with rfl | hx
      · exact absurd htx hxtx
      · exact ih x hx hxtx
    · simp [drain, drained, htx]

/-! ### the invariant -/

/-- undelivered exit events, in scheduling order -/
def pexits (w : World Srv) : List Exit := w.exits.drop w.delivered.length

structure KInv (mt : Metrics) (w : World Srv) : Prop where
  kq : w.kq = (pexits w).map KEv.exit ++ w.pend.map KEv.unbusy
  delivered : w.delivered = (w.exits.take w.delivered.length).map (·.id)
  sorted : (∀ m ∈ w.offered, m.j = 0) → (pexits w).Pairwise klt
  posdelay : (∀ m ∈ w.offered, m.j = 0) → mt.latency = 0 →
    ∀ a ∈ pexits w, a.sched ≠ a.time → w.chan.serving = some a.time

theorem init_KInv (mt : Metrics) : KInv mt (World.init spec) := by
  refine ⟨?_, ?_, ?_, ?_⟩ <;> simp [World.init, spec, ChanSrv.init, pexits]

theorem delivered_le {mt : Metrics} {w : World Srv} (hK : KInv mt w) :
    w.delivered.length ≤ w.exits.length := by
  have := congrArg List.length hK.delivered
  simp only [List.length_map, List.length_take] at this
  omega

theorem pexits_append {mt : Metrics} {w : World Srv} (hK : KInv mt w) (ne : List Exit) :
    (w.exits ++ ne).drop w.delivered.length = pexits w ++ ne := by
  simp only [pexits]
  exact List.drop_append_of_le_length (delivered_le hK)

theorem take_append' {mt : Metrics} {w : World Srv} (hK : KInv mt w) (ne : List Exit) :
    (w.exits ++ ne).take w.delivered.length = w.exits.take w.delivered.length :=
  List.take_append_of_le_length (delivered_le hK)

theorem pexits_mem {mt : Metrics} {w : World Srv} (hI : SInv mt w) {a : Exit} (ha : a ∈ pexits w) :
    ∃ p ∈ w.started, a = exitFor mt p := by
  have : a ∈ w.exits := List.mem_of_mem_drop ha
  rw [hI.exits, List.mem_map] at this
  obtain ⟨p, hp, rfl⟩ := this
  exact ⟨p, hp, rfl⟩

theorem started_offered {mt : Metrics} {w : World Srv} (hI : SInv mt w) {p : Nat × Msg}
    (hp : p ∈ w.started) : p.2 ∈ w.offered := by
  rw [hI.perm.mem_iff]
  simp only [List.mem_append, List.mem_map]
  exact Or.inl (Or.inl (Or.inl ⟨p, hp, rfl⟩))

theorem queue_offered {mt : Metrics} {w : World Srv} (hI : SInv mt w) {m : Msg}
    (hm : m ∈ w.chan.queue) : m ∈ w.offered := by
  rw [hI.perm.mem_iff]
  simp only [List.mem_append]
  exact Or.inl (Or.inl (Or.inr hm))

/-- appending new exit events / a new unbusy notification (exit events first) -/
theorem KInv_advance (mt : Metrics) {w : World Srv} (hK : KInv mt w) (now : Nat) (c : Srv)
    (pend0 : List Nat) (kq0 : List KEv) (effs : List Eff) (l : List (Msg × Fate)) (off : List Msg)
    (ne : List Exit) (nu : List Nat)
    (hkq0 : kq0 = (pexits w).map KEv.exit ++ pend0.map KEv.unbusy)
    (hne : exitsOf now effs = ne) (hnu : unbusyTimes effs = nu)
    (hkev : kevs now effs = ne.map KEv.exit ++ nu.map KEv.unbusy)
    (hor : pend0 = [] ∨ ne = [])
    (hsorted : (∀ m ∈ w.offered ++ off, m.j = 0) → ((pexits w) ++ ne).Pairwise klt)
    (hpos : (∀ m ∈ w.offered ++ off, m.j = 0) → mt.latency = 0 →
      ∀ a ∈ pexits w ++ ne, a.sched ≠ a.time → c.serving = some a.time) :
    KInv mt (advance w now c pend0 kq0 effs l off) := by
  have hpe : pexits (advance w now c pend0 kq0 effs l off) = pexits w ++ ne := by
    simp only [pexits, advance, hne]
    exact pexits_append hK ne
  refine ⟨?_, ?_, ?_, ?_⟩
  · rw [hpe]
    simp only [advance, hkev, hkq0, hnu, List.map_append]
    rcases hor with h | h <;> subst h <;> simp
  · simp only [advance, hne]
    rw [take_append' hK]
    exact hK.delivered
  · intro hj; rw [hpe]; exact hsorted hj
  · intro hj hl; rw [hpe]; exact hpos hj hl

/-- an offer preserves the kernel-order invariant -/
theorem offer_KInv (mt : Metrics) {w w' : World Srv} (hI : SInv mt w) (hK : KInv mt w)
    (t : Nat) (m : Msg) (h : step spec mt w (.offer t m) = .ok w') : KInv mt w' := by
  simp only [step] at h
  by_cases h1 : t < w.clock
  · simp [h1] at h
  simp only [h1, if_false] at h
  by_cases h2 : w.pend.any (· < t) = true
  · simp [h2] at h
  simp only [h2, Bool.false_eq_true, if_false] at h
  by_cases h3 : w.kq.any (·.time < t) = true
  · simp [h3] at h
  simp only [h3, Bool.false_eq_true, if_false, Except.ok.injEq] at h
  have hclock : w.clock ≤ t := by omega
  subst h
  cases hs : w.chan.serving with
  | some f =>
    -- busy: nothing is scheduled
    have hoff : (spec.offer mt w.chan t m).2.1 = [] ∧ (spec.offer mt w.chan t m).1.serving = some f := by
      simp only [spec, ChanSrv.offer, hs]
      cases mt.db with
      | drop => exact ⟨rfl, hs⟩
      | queue limit =>
        simp only []
        split
        · exact ⟨rfl, rfl⟩
        · exact ⟨rfl, hs⟩
    apply KInv_advance mt hK t _ w.pend w.kq _ _ _ [] [] hK.kq
    · rw [hoff.1]; rfl
    · rw [hoff.1]; rfl
    · rw [hoff.1]; rfl
    · exact Or.inr rfl
    · intro hj
      rw [List.append_nil]
      exact hK.sorted (fun x hx => hj x (List.mem_append_left _ hx))
    · intro hj hl a ha hne
      rw [List.append_nil] at ha
      rw [hoff.2, ← hs]
      exact hK.posdelay (fun x hx => hj x (List.mem_append_left _ hx)) hl a ha hne
  | none =>
    obtain ⟨hp, hq⟩ := hI.idle hs
    -- idle: the message starts now
    have hhor : ∀ p ∈ w.started, p.1 + p.2.tx ≤ t := by
      intro p hp'
      have := hI.horizon p hp'
      rw [hs] at this
      simp only [Option.getD_none] at this
      omega
    have hkq : w.kq = (pexits w).map KEv.exit ++ w.pend.map KEv.unbusy := hK.kq
    have hcross : (∀ x ∈ w.offered ++ [m], x.j = 0) → ∀ a ∈ pexits w,
        klt a (exitFor mt (t, m)) := by
      intro hj a ha
      obtain ⟨p, hp', rfl⟩ := pexits_mem hI ha
      have h1 := hhor p hp'
      have h2 := hj p.2 (List.mem_append_left _ (started_offered hI hp'))
      have h3 := hj m (by simp)
      by_cases hz : mt.latency = 0 ∧ m.tx = 0
      · -- the new exit event is due now: an older one due now must be a current-instant event too
        by_cases hsch : (exitFor mt p).sched = (exitFor mt p).time
        · simp only [klt, exitFor] at hsch ⊢; omega
        · have := hK.posdelay (fun x hx => hj x (List.mem_append_left _ hx)) hz.1 _ ha hsch
          rw [hs] at this; cases this
      · simp only [klt, exitFor]; omega
    by_cases htx : m.tx = 0
    · have hoff : spec.offer mt w.chan t m = (w.chan, [exitOf mt t m], .started) := by
        simp [spec, ChanSrv.offer, hs, htx]
      rw [hoff]
      apply KInv_advance mt hK t _ w.pend w.kq _ _ _ [exitFor mt (t, m)] [] hkq
      · simp [exitsOf, exitOf, exitFor]
      · simp [unbusyTimes, exitOf]
      · simp [kevs, exitOf, exitFor]
      · exact Or.inl hp
      · intro hj
        rw [List.pairwise_append]
        refine ⟨hK.sorted (fun x hx => hj x (List.mem_append_left _ hx)), by simp, ?_⟩
        intro a ha b hb
        simp only [List.mem_singleton] at hb; subst hb
        exact hcross hj a ha
      · intro hj hl a ha hne
        rcases List.mem_append.mp ha with ha | ha
        · have := hK.posdelay (fun x hx => hj x (List.mem_append_left _ hx)) hl a ha hne
          rw [hs] at this; cases this
        · simp only [List.mem_singleton] at ha; subst ha
          have := hj m (by simp)
          simp only [exitFor] at hne
          omega
    · have hoff : spec.offer mt w.chan t m =
          ({ w.chan with serving := some (t + m.tx) },
           [exitOf mt t m, .unbusyAt (t + m.tx)], .started) := by
        simp [spec, ChanSrv.offer, hs, htx]
      rw [hoff]
      apply KInv_advance mt hK t _ w.pend w.kq _ _ _ [exitFor mt (t, m)] [t + m.tx] hkq
      · simp [exitsOf, exitOf, exitFor]
      · simp [unbusyTimes, exitOf]
      · simp [kevs, exitOf, exitFor]
      · exact Or.inl hp
      · intro hj
        rw [List.pairwise_append]
        refine ⟨hK.sorted (fun x hx => hj x (List.mem_append_left _ hx)), by simp, ?_⟩
        intro a ha b hb
        simp only [List.mem_singleton] at hb; subst hb
        exact hcross hj a ha
      · intro hj hl a ha hne
        rcases List.mem_append.mp ha with ha | ha
        · have := hK.posdelay (fun x hx => hj x (List.mem_append_left _ hx)) hl a ha hne
          rw [hs] at this; cases this
        · simp only [List.mem_singleton] at ha; subst ha
          have := hj m (by simp)
          simp only [exitFor]
          show some (t + m.tx) = some (t + (mt.latency + m.tx + m.j))
          rw [hl, this]; simp

/-- an unbusy dispatch preserves the kernel-order invariant -/
theorem unbusy_KInv (mt : Metrics) {w w' : World Srv} (hI : SInv mt w) (hK : KInv mt w)
    (h : step spec mt w .unbusy = .ok w') : KInv mt w' := by
  obtain ⟨f, hs, hp, hkm, rfl⟩ := unbusy_shape mt hI.toSInv0 h
  have hkq : w.kq = (pexits w).map KEv.exit ++ [KEv.unbusy f] := by
    rw [hK.kq, hp]; rfl
  have hlate := kmin_unbusy_last f (pexits w) (by rw [← hkq]; exact hkm)
  have herase : w.kq.erase (KEv.unbusy f) = (pexits w).map KEv.exit ++ ([] : List Nat).map KEv.unbusy := by
    rw [hkq, List.erase_append_right]
    · simp
    · simp
  have hhor : ∀ p ∈ w.started, p.1 + p.2.tx ≤ f := by
    intro p hp'
    have := hI.horizon p hp'
    rw [hs] at this
    exact this
  apply KInv_advance mt hK f _ [] _ _ _ []
    ((drained mt f w.chan.queue).map (fun m => exitFor mt (f, m)))
    (drain mt f w.chan.queue).1.serving.toList herase
  · exact drain_exits mt f w.chan.queue
  · exact drain_unbusy mt f w.chan.queue
  · exact drain_kevs mt f w.chan.queue
  · exact Or.inl rfl
  · intro hj
    rw [List.append_nil] at hj
    rw [List.pairwise_append]
    refine ⟨hK.sorted hj, drain_sorted mt f _ (fun x hx => hj x (queue_offered hI hx)), ?_⟩
    intro a ha b hb
    simp only [List.mem_map] at hb
    obtain ⟨x, hx, rfl⟩ := hb
    have hxj := hj x (queue_offered hI (drained_sub mt f _ x hx))
    have hfa := hlate a ha
    obtain ⟨p, hp', rfl⟩ := pexits_mem hI ha
    have h1 := hhor p hp'
    have h2 := hj p.2 (started_offered hI hp')
    simp only [klt, exitFor] at hfa ⊢
    omega
  · intro hj hl a ha hne
    rw [List.append_nil] at hj
    rcases List.mem_append.mp ha with ha | ha
    · have := hK.posdelay hj hl a ha hne
      rw [hs] at this
      have hfa := hlate a ha
      simp only [Option.some.injEq] at this
      omega
    · simp only [List.mem_map] at ha
      obtain ⟨x, hx, rfl⟩ := ha
      have hxj := hj x (queue_offered hI (drained_sub mt f _ x hx))
      have htx : x.tx ≠ 0 := by
        simp only [exitFor] at hne
        omega
      rw [drain_posdelay mt f _ x hx htx]
      simp only [exitFor]
      rw [hl, hxj]; simp

/-- dispatching an exit event preserves both invariants, and it is the oldest undelivered one -/
theorem deliver_Inv (mt : Metrics) {w w' : World Srv} (hI : SInv mt w) (hK : KInv mt w)
    (hj : ∀ m ∈ w.offered, m.j = 0) (h : step spec mt w .deliver = .ok w') :
    SInv mt w' ∧ KInv mt w' := by
  obtain ⟨hSI, e, hkm, hw'⟩ := deliver_SInv mt hI h
  have hsorted := hK.sorted hj
  obtain ⟨rest, hrest⟩ := kmin_exit_head hsorted (by rw [← hK.kq]; exact hkm)
  refine ⟨hSI, ?_⟩
  have hdrop : w.exits.drop w.delivered.length = e :: rest := hrest
  have hlen : w.delivered.length < w.exits.length := by
    have := congrArg List.length hdrop
    simp only [List.length_drop, List.length_cons] at this
    omega
  have hget : w.exits[w.delivered.length]? = some e := by
    have := List.head?_drop (l := w.exits) (i := w.delivered.length)
    rw [hdrop] at this
    simpa using this.symm
  have hpe : pexits w' = rest := by
    subst hw'
    simp only [pexits, List.length_append, List.length_singleton]
    rw [← List.drop_drop, hdrop]
    rfl
  refine ⟨?_, ?_, ?_, ?_⟩
  · rw [hpe]
    subst hw'
    show w.kq.erase (KEv.exit e) = _
    rw [hK.kq]
    show (List.map KEv.exit (pexits w) ++ _).erase _ = _
    rw [hrest]
    simp
  · subst hw'
    simp only [List.length_append, List.length_singleton]
    rw [List.take_add_one, hget]
    simp only [Option.toList_some, List.map_append, List.map_cons, List.map_nil]
    rw [← hK.delivered]
  · intro _
    rw [hpe]
    rw [hrest] at hsorted
    exact (List.pairwise_cons.mp hsorted).2
  · intro hj' hl a ha hne
    rw [hpe] at ha
    have := hK.posdelay hj hl a (by rw [hrest]; exact List.mem_cons_of_mem _ ha) hne
    subst hw'
    exact this

/-! ### every script -/

theorem step_offered (mt : Metrics) {w w' : World Srv} (op : Op) (h : step spec mt w op = .ok w') :
    ∀ m ∈ w.offered, m ∈ w'.offered := by
  intro m hm
  cases op with
  | offer t x =>
    simp only [step] at h
    split at h
    · cases h
    · split at h
      · cases h
      · split at h
        · cases h
        · simp only [Except.ok.injEq] at h; subst h
          exact List.mem_append_left _ hm
  | unbusy =>
    simp only [step] at h
    split at h
    · cases h
    · split at h
      · cases h
      · split at h
        · cases h
        · simp only [spec, Except.ok.injEq] at h; subst h
          exact List.mem_append_left _ hm
  | deliver =>
    simp only [step] at h
    split at h
    · split at h
      · cases h
      · simp only [Except.ok.injEq] at h; subst h; exact hm
    · cases h
    · cases h

theorem runFrom_offered (mt : Metrics) (ops : List Op) :
    ∀ {w w' : World Srv}, runFrom spec mt w ops = .ok w' → ∀ m ∈ w.offered, m ∈ w'.offered := by
  induction ops with
  | nil => intro w w' h; simp only [runFrom, Except.ok.injEq] at h; subst h; exact fun _ hm => hm
  | cons op ops ih =>
    intro w w' h m hm
    simp only [runFrom] at h
    cases hst : step spec mt w op with
    | error e => simp [hst] at h
    | ok w1 =>
      simp only [hst] at h
      exact ih h m (step_offered mt op hst m hm)

theorem step_Inv (mt : Metrics) {w w' : World Srv} (hI : SInv mt w) (hK : KInv mt w) (op : Op)
    (hj : ∀ m ∈ w'.offered, m.j = 0) (h : step spec mt w op = .ok w') : SInv mt w' ∧ KInv mt w' := by
  cases op with
  | offer t m => exact ⟨offer_SInv mt hI t m h, offer_KInv mt hI hK t m h⟩
  | unbusy => exact ⟨unbusy_SInv mt hI h, unbusy_KInv mt hI hK h⟩
  | deliver =>
    exact deliver_Inv mt hI hK (fun m hm => hj m (step_offered mt .deliver h m hm)) h

theorem runFrom_Inv (mt : Metrics) (ops : List Op) :
    ∀ {w w' : World Srv}, SInv mt w → KInv mt w → runFrom spec mt w ops = .ok w' →
      (∀ m ∈ w'.offered, m.j = 0) → SInv mt w' ∧ KInv mt w' := by
  induction ops with
  | nil => intro w w' hI hK h _; simp only [runFrom, Except.ok.injEq] at h; exact h ▸ ⟨hI, hK⟩
  | cons op ops ih =>
    intro w w' hI hK h hj
    simp only [runFrom] at h
    cases hst : step spec mt w op with
    | error e => simp [hst] at h
    | ok w1 =>
      simp only [hst] at h
      have hj1 : ∀ m ∈ w1.offered, m.j = 0 := fun m hm => hj m (runFrom_offered mt ops h m hm)
      obtain ⟨hI1, hK1⟩ := step_Inv mt hI hK op hj1 hst
      exact ih hI1 hK1 h hj

end ChanInv

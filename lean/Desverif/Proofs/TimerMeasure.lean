/-
A measure on script terms / tasks that bounds the number of slot-creating queue operations
(`register`, `reset`) the interpreter can still emit: every poll pays for what it emits.
Used for the termination proof of the scripted simulation (Proofs/TimerTerm.lean).
-/
import Desverif.Model.TimerSim
namespace Timer

/-- number of slot-creating operations -/
def cnt (ops : List Op) : Nat := (ops.filter (fun o => !o.isRemove)).length

theorem cnt_nil : cnt [] = 0 := rfl
theorem cnt_append (a b : List Op) : cnt (a ++ b) = cnt a + cnt b := by
  simp [cnt, List.filter_append]

def wO : Option Fut → Nat
  | none => 0
  | some f => w f

theorem sleep_poll_u (s : Sleep) (tid now : Nat) :
    (s.poll tid now).1.u + cnt (s.poll tid now).2.1 ≤ s.u + (if (s.poll tid now).2.2 then 1 else 0) := by
  unfold Sleep.poll
  split
  · cases h : s.handle <;> simp [Sleep.u, h, cnt, Op.isRemove]
  · simp [Sleep.u, cnt]

theorem sleep_reset_u (s : Sleep) (d' : Nat) : (s.reset d').1.u + cnt (s.reset d').2 ≤ s.u + 2 := by
  unfold Sleep.reset
  cases h : s.handle <;> simp [Sleep.u, h, cnt, Op.isRemove]

theorem sleep_drop_cnt (s : Sleep) : cnt s.drop = 0 := by
  unfold Sleep.drop
  cases s.handle <;> simp [cnt, Op.isRemove]

theorem named_dropOps_cnt (v : Named) : cnt v.dropOps = 0 := by
  cases v with
  | sl s => exact sleep_drop_cnt s
  | iv i => exact sleep_drop_cnt i.delay

theorem dropFut_cnt (f : Fut) : cnt (dropFut f) = 0 := by
  induction f with
  | sleeping s => exact sleep_drop_cnt s
  | timeoutRun s e ih => simp only [dropFut, cnt_append, ih, sleep_drop_cnt]
  | select a b iha ihb => simp only [dropFut, cnt_append, iha, ihb]
  | seq a b iha _ => exact iha
  | _ => rfl

theorem envDropOps_cnt (env : List (String × Named)) : cnt (envDropOps env) = 0 := by
  induction env with
  | nil => rfl
  | cons a rest ih =>
    simp only [envDropOps, List.flatMap_cons, cnt_append] at ih ⊢
    rw [named_dropOps_cnt, ih]

theorem envU_set_le (env : List (String × Named)) (x : String) (v : Named) :
    envU (envSet env x v) ≤ envU env + v.u := by
  induction env with
  | nil => simp [envSet, envU]
  | cons a rest ih =>
    obtain ⟨y, wv⟩ := a
    simp only [envSet]
    split
    · simp only [envU]; omega
    · simp only [envU]; omega

theorem envU_set_get {env : List (String × Named)} {x : String} {old : Named} (h : envGet env x = some old)
    (v : Named) : envU (envSet env x v) + old.u = envU env + v.u := by
  induction env with
  | nil => simp [envGet] at h
  | cons a rest ih =>
    obtain ⟨y, wv⟩ := a
    simp only [envGet, List.find?_cons] at h
    simp only [envSet]
    by_cases hy : (y == x) = true
    · simp only [hy, Option.map_some, Option.some.injEq] at h
      subst h
      simp only [hy, if_true, envU]; omega
    · simp only [hy] at h
      have := ih (by simpa [envGet] using h)
      have hy' : (y == x) = false := by simpa using hy
      simp only [hy', Bool.false_eq_true, if_false, envU]; omega

theorem envU_del_le (env : List (String × Named)) (x : String) : envU (envDel env x) ≤ envU env := by
  induction env with
  | nil => simp [envDel, envU]
  | cons a rest ih =>
    obtain ⟨y, wv⟩ := a
    simp only [envDel, List.filter_cons] at ih ⊢
    split
    · simp only [envU]; omega
    · simp only [envU]; omega

theorem sleep_poll_ready_ops {s : Sleep} {tid now : Nat} (h : (s.poll tid now).2.2 = true) :
    (s.poll tid now).2.1 = [] := by
  unfold Sleep.poll at h ⊢
  split
  · rename_i hlt
    rw [if_pos hlt] at h
    cases hh : s.handle <;> simp [hh] at h
  · rfl

theorem sleep_poll_pending_u {s : Sleep} {tid now : Nat} (h : (s.poll tid now).2.2 = false) :
    (s.poll tid now).1.u + cnt (s.poll tid now).2.1 ≤ s.u := by
  have := sleep_poll_u s tid now
  rw [h] at this
  simpa using this

theorem sleep_u_le_one (s : Sleep) : s.u ≤ 1 := by
  unfold Sleep.u; split <;> omega

@[simp] theorem emit_env (c : Ctx) (ops : List Op) : (c.emit ops).env = c.env := rfl
@[simp] theorem emit_cnt (c : Ctx) (ops : List Op) : cnt (c.emit ops).ops = cnt c.ops + cnt ops := cnt_append _ _
@[simp] theorem obs_env (c : Ctx) (k : String) : (c.obs k).env = c.env := rfl
@[simp] theorem obs_ops (c : Ctx) (k : String) : (c.obs k).ops = c.ops := rfl
@[simp] theorem fin_env (c : Ctx) (k : String) (a b : Nat) (o : Bool) : (c.fin k a b o).env = c.env := rfl
@[simp] theorem fin_ops (c : Ctx) (k : String) (a b : Nat) (o : Bool) : (c.fin k a b o).ops = c.ops := rfl

theorem bind_measure (c : Ctx) (x : String) (v : Named) :
    envU (c.bind x v).env + cnt (c.bind x v).ops ≤ envU c.env + cnt c.ops + v.u := by
  unfold Ctx.bind
  simp only [cnt_append]
  have h1 := envU_set_le c.env x v
  split
  · rw [named_dropOps_cnt]; omega
  · rw [cnt_nil]; omega

/-- measure of a poll result -/
def MS (r : Option Fut × Ctx) : Nat := wO r.1 + envU r.2.env + cnt r.2.ops

theorem measure_pollSleep (s : Sleep) (c : Ctx) (k : String) :
    MS (pollSleep s c k) ≤ s.u + envU c.env + cnt c.ops := by
  unfold pollSleep MS
  have h1 := @sleep_poll_ready_ops s c.tid c.now
  have h2 := @sleep_poll_pending_u s c.tid c.now
  rcases hp : s.poll c.tid c.now with ⟨s', ops, r⟩
  rw [hp] at h1 h2
  simp only at h1 h2 ⊢
  cases r with
  | true =>
    simp only [if_true, wO, fin_env, fin_ops, emit_env, emit_cnt, h1 rfl, cnt_nil]
    omega
  | false =>
    have := h2 rfl
    simp only [Bool.false_eq_true, if_false, wO, w, emit_env, emit_cnt]
    omega

theorem pollTick_u (i : Interval) (tid now : Nat) :
    (i.pollTick tid now).1.delay.u + cnt (i.pollTick tid now).2.1 ≤
      i.delay.u + (if (i.pollTick tid now).2.2.isSome then 1 else 0) := by
  unfold Interval.pollTick
  have h1 := @sleep_poll_ready_ops i.delay tid now
  have h2 := @sleep_poll_pending_u i.delay tid now
  rcases hps : Sleep.poll i.delay tid now with ⟨s', ops, r⟩
  rw [hps] at h1 h2
  simp only at h1 h2 ⊢
  cases r with
  | true =>
    have h3 := sleep_reset_u s' (i.nextDeadline s'.deadline now)
    have h4 : s'.handle = none := by
      have : s' = (Sleep.poll i.delay tid now).1 := by rw [hps]
      rw [this]; unfold Sleep.poll; split
      · rename_i hlt
        exfalso
        have hr : (Sleep.poll i.delay tid now).2.2 = true := by rw [hps]
        unfold Sleep.poll at hr; rw [if_pos hlt] at hr
        cases hh : i.delay.handle <;> simp [hh] at hr
      · rfl
    simp only [if_true, h1 rfl, cnt_append, cnt_nil, Sleep.reset, h4, Sleep.u]
    simp
  | false =>
    have := h2 rfl
    simp only [Bool.false_eq_true, if_false]
    omega

end Timer

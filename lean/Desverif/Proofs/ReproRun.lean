/-
C04: the kernel (`schedLoop`, `activate`/`deactivate`, `moduleEvent`, `step`, `loop`, start/end phases, `init`)
commutes with the renaming of ambient identifiers; hence the whole run under an injective ambient `a` is the
renaming of the run under the canonical ambient.
-/
import Desverif.Proofs.ReproStep
namespace Repro

variable (a : Ambient)

theorem schedLoop_ren (h : a.Inj) (net : Net) (mi : Nat) (path : String) (fuel : Nat) :
    ∀ s : Sim, schedLoop net a mi path fuel (renSim a s) = renSim a (schedLoop net Ambient.canon mi path fuel s) := by
  induction fuel with
  | zero => intro s; rfl
  | succ n ih =>
    intro s
    simp only [schedLoop, renSim_mods, List.getElem?_map]
    cases hm : s.mods[mi]? with
    | none => rfl
    | some m =>
      simp only [Option.map, renMod_tick, renMod_localq, renMod_inject, renMod_deferq]
      cases hn : nextTask (m.tick + 1) m.localq m.inject with
      | none =>
        simp only []
        cases m.deferq with
        | nil => exact updMod_ren a s mi _ _ (fun m => by simp [renMod])
        | cons x r =>
          simp only []
          rw [updMod_ren a s mi _ (fun m => { m with tick := m.tick + 1, localq := m.deferq.reverse, deferq := [] })
            (fun m => by simp [renMod])]
          exact ih _
      | some r =>
        obtain ⟨t, l, i⟩ := r
        simp only []
        rw [updMod_ren a s mi _ (fun m => { m with tick := m.tick + 1, localq := l, inject := i }) (fun m => by simp [renMod])]
        rw [pollTask_ren a h]
        exact ih _

theorem activate_ren (now : Nat) (m : ModRt) : activate now (renMod a m) = renMod a (activate now m) := by
  simp only [activate, Timer.bump, renMod_pending, takeWhile_ren, dropWhile_ren, firedTids_ren,
    renMod_nextWakeup, renMod_inject]
  simp [renMod]

theorem wakeTime_ren (b : Bool) (m : ModRt) : wakeTime b (renMod a m) = wakeTime b m := by
  simp [wakeTime, timerNext_ren]

theorem runCallback_ren (h : a.Inj) (net : Net) (s : Sim) (mi : Nat) (m : ModRt) (cb : Callback) :
    runCallback net (renSim a s) mi (renMod a m)
        (match cb with
         | .message msg => .message (renMsg a msg)
         | c => c) =
      renSim a (runCallback net s mi m cb) := by
  cases cb with
  | start => simp only [runCallback, renMod_path, renMod_ttl0, log_ren]; exact runHandler_ren a net mi _ _ _ _
  | message msg =>
    simp only [runCallback, renMod_path, renMsg, renSim_mods, senderPath_ren a h, log_ren]
    exact runHandler_ren a net mi _ _ _ _
  | wakeup => rfl
  | end_ => simp only [runCallback, renMod_path, renMod_ttl0, log_ren]; exact runHandler_ren a net mi _ _ _ _
  | restart => simp only [runCallback, renMod_path, renMod_ttl0, log_ren]; exact runHandler_ren a net mi _ _ _ _

theorem flush_ren (s : Sim) : (renSim a s).flush = renSim a s.flush := by
  unfold Sim.flush
  have e : ({ renSim a s with buf := [] } : Sim) = renSim a { s with buf := [] } := rfl
  rw [e]
  simp only [renSim_buf]
  generalize ({ s with buf := [] } : Sim) = s0
  generalize s.buf = l
  induction l generalizing s0 with
  | nil => rfl
  | cons p r ih =>
    simp only [List.map_cons, List.foldl_cons, schedule_ren]
    exact ih _

/-- the callback of an event, renamed -/
def renCb : Callback → Callback
  | .message msg => .message (renMsg a msg)
  | c => c

@[simp] theorem recordSeed_ren (s b : Sim) (p : String) :
    (renSim a s).recordSeed p (renSim a b) = renSim a (s.recordSeed p b) := rfl

theorem seedStage_ren (s : Sim) (mi : Nat) (p : String) (b : Bool) :
    seedStage (renSim a s) mi p b = renSim a (seedStage s mi p b) := by
  unfold seedStage
  cases b
  · simp only [Bool.false_eq_true, if_false, pop_ren_snd, recordSeed_ren]
    exact updMod_ren a _ mi _ _ (fun m => by simp [renMod])
  · rfl

theorem execFuel_ren (s : Sim) (mi : Nat) : execFuel (renSim a s) mi = execFuel s mi := by
  unfold execFuel
  simp only [renSim_mods, List.getElem?_map]
  cases s.mods[mi]? with
  | none => rfl
  | some m =>
    simp only [Option.map, renMod_localq, renMod_inject, renMod_deferq, renMod_tasks, List.map_map]
    have : ((fun t => (t.prog.map Step.weight).sum) ∘ renTask a) = (fun t : TaskRt => (t.prog.map Step.weight).sum) := rfl
    rw [this]

theorem deactivate_ren (b : Bool) (s : Sim) (mi : Nat) : deactivate b (renSim a s) mi = renSim a (deactivate b s mi) := by
  unfold deactivate
  simp only [renSim_mods, List.getElem?_map]
  cases s.mods[mi]? with
  | none => rfl
  | some m =>
    simp only [Option.map, wakeTime_ren]
    cases wakeTime b m with
    | none => rfl
    | some t =>
      simp only []
      rw [updMod_ren a s mi _ (fun m => { m with nextWakeup := some t }) (fun m => by simp [renMod])]
      exact schedule_ren a _ (.wakeup mi) t

theorem runCallback_ren' (h : a.Inj) (net : Net) (s : Sim) (mi : Nat) (m : ModRt) (cb : Callback) :
    runCallback net (renSim a s) mi (renMod a m) (renCb a cb) = renSim a (runCallback net s mi m cb) := by
  have := runCallback_ren a h net s mi m cb
  cases cb <;> exact this

theorem finished_ren (t : TaskRt) : (renTask a t).finished = t.finished := by
  unfold TaskRt.finished
  simp only [renTask_prog, renTask_wait]
  cases t.prog <;> cases t.wait <;> rfl

theorem filterUnfinished_ren (p : String) (ts : List TaskRt) :
    ((ts.map (renTask a)).filter (fun t => !t.finished)).map (fun t => (p, t.tag)) =
      (ts.filter (fun t => !t.finished)).map (fun t => (p, t.tag)) := by
  induction ts with
  | nil => rfl
  | cons t r ih =>
    simp only [List.map_cons, List.filter_cons, finished_ren]
    cases t.finished <;> simp [ih]

theorem unfinishedTags_ren (m : ModRt) : unfinishedTags (renMod a m) = unfinishedTags m := by
  simp only [unfinishedTags, renMod_tasks, renMod_path, filterUnfinished_ren]

theorem foldRemove_ren (h : a.Inj) (ss : List Sl) :
    ∀ p : List Timer.Slot,
      (ss.map (renSl a)).foldl (fun p sl => if sl.reg then Timer.removeEntry p sl.deadline sl.id else p) (p.map (renSlot a)) =
        (ss.foldl (fun p sl => if sl.reg then Timer.removeEntry p sl.deadline sl.id else p) p).map (renSlot a) := by
  induction ss with
  | nil => intro p; rfl
  | cons sl r ih =>
    intro p
    simp only [List.map_cons, List.foldl_cons, renSl_reg, renSl_deadline, renSl_id]
    by_cases hr : sl.reg = true
    · simp only [hr, if_true]; rw [removeEntry_ren a h]; exact ih _
    · simp only [hr]; exact ih p

theorem dropWait_ren (h : a.Inj) (p : List Timer.Slot) (w : Wait) :
    dropWait (p.map (renSlot a)) (renWait a w) = (dropWait p w).map (renSlot a) := by
  cases w with
  | run => rfl
  | sleeping sl =>
    simp only [renWait, dropWait, renSl_reg, renSl_deadline, renSl_id]
    by_cases hr : sl.reg = true
    · simp only [hr, if_true]; exact removeEntry_ren a h p _ _
    · simp [hr]
  | selecting ss => simp only [renWait, dropWait]; exact foldRemove_ren a h ss p
  | waiting n g => rfl

theorem foldDropWait_ren (h : a.Inj) (ts : List TaskRt) :
    ∀ p : List Timer.Slot,
      (ts.map (renTask a)).foldl (fun p t => dropWait p t.wait) (p.map (renSlot a)) =
        (ts.foldl (fun p t => dropWait p t.wait) p).map (renSlot a) := by
  induction ts with
  | nil => intro p; rfl
  | cons t r ih =>
    intro p
    simp only [List.map_cons, List.foldl_cons, renTask_wait, dropWait_ren a h]
    exact ih _

theorem killTasks_ren (h : a.Inj) (m : ModRt) : killTasks (renMod a m) = renMod a (killTasks m) := by
  simp only [killTasks, renMod_tasks, renMod_pending, foldDropWait_ren a h]
  simp [renMod, renTask, renWait]

@[simp] theorem addDropped_ren (s : Sim) (l : List (String × String)) :
    (renSim a s).addDropped l = renSim a (s.addDropped l) := rfl

theorem shutMod_ren (h : a.Inj) (now : Nat) (m : ModRt) : shutMod now (renMod a m) = renMod a (shutMod now m) := by
  unfold shutMod
  rw [← activate_ren, killTasks_ren a h]
  rfl

theorem resetStage_ren (h : a.Inj) (net : Net) (s : Sim) (mi : Nat) (path : String) :
    resetStage net a (renSim a s) mi path = renSim a (resetStage net Ambient.canon s mi path) := by
  unfold resetStage
  simp only [pop_ren_snd, recordSeed_ren, log_ren, execFuel_ren]
  rw [schedLoop_ren a h, deactivate_ren]

theorem processShutdown_ren (h : a.Inj) (net : Net) (s : Sim) (mi : Nat) :
    processShutdown net a (renSim a s) mi = renSim a (processShutdown net Ambient.canon s mi) := by
  unfold processShutdown
  simp only [renSim_mods, List.getElem?_map]
  cases s.mods[mi]? with
  | none => rfl
  | some m =>
    simp only [Option.map, renMod_shutdownReq, renMod_path]
    cases m.shutdownReq with
    | none => rfl
    | some restart =>
      simp only [unfinishedTags_ren, addDropped_ren, renSim_now]
      rw [updMod_ren a _ mi _ (shutMod s.now) (fun m => shutMod_ren a h s.now m), resetStage_ren a h]
      cases restart with
      | none => rfl
      | some t => exact schedule_ren a _ (.restart mi) t

theorem wakeStage_ren (s : Sim) (mi : Nat) (cb : Callback) :
    wakeStage (renSim a s) mi (renCb a cb) = renSim a (wakeStage s mi cb) := by
  have hA := updMod_ren a s mi _ (activate s.now) (fun m => activate_ren a s.now m)
  cases cb with
  | restart =>
    simp only [renCb, wakeStage, renSim_now, hA]
    exact updMod_ren a _ mi _ _ (fun m => by simp [renMod])
  | start => exact hA
  | message m => exact hA
  | wakeup => exact hA
  | end_ => exact hA

theorem execStage_ren (h : a.Inj) (net : Net) (s : Sim) (mi : Nat) (m0 : ModRt) (cb : Callback) :
    execStage net a (renSim a s) mi (renMod a m0) (renCb a cb) = renSim a (execStage net Ambient.canon s mi m0 cb) := by
  unfold execStage
  have hruns : (renCb a cb).runs m0.active = cb.runs m0.active := by cases cb <;> rfl
  simp only [renMod_active, renMod_path, renMod_seeded, hruns]
  cases cb.runs m0.active
  · rfl
  · simp only [if_true]
    rw [seedStage_ren, runCallback_ren' a h, execFuel_ren, schedLoop_ren a h]

theorem moduleEvent_ren (h : a.Inj) (net : Net) (s : Sim) (mi : Nat) (cb : Callback) (flush : Bool) :
    moduleEvent net a (renSim a s) mi (renCb a cb) flush =
      renSim a (moduleEvent net Ambient.canon s mi cb flush) := by
  unfold moduleEvent
  simp only [renSim_mods, List.getElem?_map]
  cases hm : s.mods[mi]? with
  | none => rfl
  | some m0 =>
    simp only [Option.map]
    rw [wakeStage_ren, execStage_ren a h, deactivate_ren]
    cases flush
    · rfl
    · simp only [if_true]; rw [flush_ren, processShutdown_ren a h]

theorem drain_ren (net : Net) (li : Nat) (fuel : Nat) :
    ∀ s : Sim, drain net li fuel (renSim a s) = renSim a (drain net li fuel s) := by
  induction fuel with
  | zero => intro s; rfl
  | succ n ih =>
    intro s
    simp only [drain, renSim_chans, List.getElem?_map]
    cases s.chans[li]? with
    | none => rfl
    | some c =>
      simp only [Option.map, renChan_busy]
      by_cases hb : c.busy = true
      · simp only [hb, if_true]
      · simp only [hb]
        cases hq : c.queue with
        | nil => simp [renChan, hq]
        | cons x r =>
          obtain ⟨m, di⟩ := x
          simp only [renChan, hq, List.map_cons]
          rw [updChan_ren a s li _ (fun c => { c with queue := r }) (fun c => by simp [renChan]), transmit_ren]
          exact ih _

theorem unbusy_ren (net : Net) (s : Sim) (li : Nat) : unbusy net (renSim a s) li = renSim a (unbusy net s li) := by
  unfold unbusy
  have hlen : (((renSim a s).chans[li]?).map (·.queue.length)).getD 0 = ((s.chans[li]?).map (·.queue.length)).getD 0 := by
    simp only [renSim_chans, List.getElem?_map]
    cases s.chans[li]? <;> simp [renChan]
  rw [hlen, updChan_ren a s li _ (fun c => { c with busy := false }) (fun c => by simp [renChan])]
  exact drain_ren a net li _ _

theorem dispatch_ren (h : a.Inj) (net : Net) (s : Sim) (ev : Option KEvent) :
    dispatch net a (renSim a s) (ev.map (renEv a)) = renSim a (dispatch net Ambient.canon s ev) := by
  cases ev with
  | none => rfl
  | some ev =>
    cases ev with
    | deliver mi m => exact moduleEvent_ren a h net s mi (.message m) true
    | wakeup mi => exact moduleEvent_ren a h net s mi .wakeup true
    | restart mi => exact moduleEvent_ren a h net s mi .restart true
    | exitConn mi m => exact schedule_ren a s (.deliver mi m) s.now
    | leave mi li m => exact sendVia_ren a net s mi li m true
    | unbusy li => exact unbusy_ren a net s li

theorem step_ren (h : a.Inj) (net : Net) (s : Sim) :
    step net a (renSim a s) = (step net Ambient.canon s).map (renSim a) := by
  unfold step
  simp only [renSim_fes]
  cases FES.fetch s.fes with
  | error e => rfl
  | ok r =>
    obtain ⟨e, f⟩ := r
    simp only [renSim_evs, List.getElem?_map]
    have e1 : (renSim a s).setFes f = renSim a (s.setFes f) := rfl
    rw [e1, dispatch_ren a h]
    rfl

theorem loop_ren (h : a.Inj) (net : Net) (fuel : Nat) :
    ∀ (s : Sim) (n : Nat), loop net a fuel (renSim a s) n =
      (renSim a (loop net Ambient.canon fuel s n).1, (loop net Ambient.canon fuel s n).2) := by
  induction fuel with
  | zero =>
    intro s n
    simp only [loop, renSim_fes]
    by_cases h0 : FES.len s.fes = 0
    · simp [h0]
    · simp only [h0, if_false]; rfl
  | succ k ih =>
    intro s n
    simp only [loop, renSim_fault]
    cases s.fault with
    | some f => rfl
    | none =>
      simp only [step_ren a h]
      cases step net Ambient.canon s with
      | none => rfl
      | some s' => simp only [Option.map]; exact ih s' (n + 1)

theorem foldEvents_ren (h : a.Inj) (net : Net) (cb : Callback) (hcb : renCb a cb = cb) (flush : Bool) (l : List Nat) :
    ∀ s : Sim, l.foldl (fun s mi => moduleEvent net a s mi cb flush) (renSim a s) =
      renSim a (l.foldl (fun s mi => moduleEvent net Ambient.canon s mi cb flush) s) := by
  induction l with
  | nil => intro s; rfl
  | cons mi r ih =>
    intro s
    simp only [List.foldl_cons]
    have := moduleEvent_ren a h net s mi cb flush
    rw [hcb] at this
    rw [this]
    exact ih _

theorem simStart_ren (h : a.Inj) (net : Net) (s : Sim) :
    simStart net a (renSim a s) = renSim a (simStart net Ambient.canon s) := by
  simp only [simStart, renSim_mods, List.length_map]
  exact foldEvents_ren a h net .start rfl true _ s

theorem simEnd_ren (h : a.Inj) (net : Net) (s : Sim) :
    simEnd net a (renSim a s) = renSim a (simEnd net Ambient.canon s) := by
  simp only [simEnd, renSim_mods, List.length_map]
  exact foldEvents_ren a h net .end_ rfl false _ s

theorem init_ren (net : Net) (stream : List Nat) : init net a stream = renSim a (init net Ambient.canon stream) := by
  simp [init, renSim, renMod, Ambient.canon, renChan, Function.comp]

/-- the run from `renSim a s0` under ambient `a` is the renaming of the canonical run from `s0` -/
theorem finalSimFrom_ren (h : a.Inj) (net : Net) (fuel : Nat) (s0 : Sim) :
    finalSimFrom net a fuel (renSim a s0) =
      (renSim a (finalSimFrom net Ambient.canon fuel s0).1, (finalSimFrom net Ambient.canon fuel s0).2) := by
  unfold finalSimFrom
  simp only [simStart_ren a h, loop_ren a h, renSim_fault]
  generalize loop net Ambient.canon fuel (simStart net Ambient.canon s0) 0 = r
  cases r.1.fault with
  | some f => rfl
  | none => simp only [simEnd_ren a h]

/-- the run under ambient `a` is the renaming of the canonical run -/
theorem finalSim_ren (h : a.Inj) (net : Net) (stream : List Nat) (fuel : Nat) :
    finalSim net a stream fuel =
      (renSim a (finalSim net Ambient.canon stream fuel).1, (finalSim net Ambient.canon stream fuel).2) := by
  unfold finalSim
  rw [init_ren a, finalSimFrom_ren a h]

theorem unfinishedOf_ren (ms : List ModRt) : unfinishedOf (ms.map (renMod a)) = unfinishedOf ms := by
  unfold unfinishedOf
  induction ms with
  | nil => rfl
  | cons m r ih =>
    simp only [List.map_cons, List.flatMap_cons, ih, renMod_tasks, renMod_path, filterUnfinished_ren]

theorem resultOf_ren (r : Sim × Nat) : resultOf (renSim a r.1, r.2) = resultOf r := by
  simp [resultOf, unfinishedOf_ren]

theorem run_ren (h : a.Inj) (net : Net) (stream : List Nat) (fuel : Nat) :
    run net a stream fuel = run net Ambient.canon stream fuel := by
  unfold run
  rw [finalSim_ren a h]
  exact resultOf_ren a _

/-- whatever the previous simulation of the process left behind, the next one starts as `init` does: `buf_drop`
    emptied the emission buffer, `buf_init` / `Builder::build` reset clock and generator; only the id counters
    carry on -/
theorem initFrom_eq (g : Globals) (net : Net) (a : Ambient) (stream : List Nat) :
    initFrom g net a stream = init net (a.after g.modIds g.sleepIds) stream := rfl

end Repro

/-
Identity bookkeeping of the script interpreter: which `Sleep` ids live in a future tree / in a
task's named-timer environment, that ids are never duplicated (fresh ids come from the counter),
and that the queue operations a poll emits only name ids of the polled term, of the environment,
or fresh ones.  Basis of the registration invariant (Proofs/TimerReg*.lean).
-/
import Desverif.Proofs.TimerPrecise
namespace Timer

def opSid : Op → Nat
  | .register _ s _ => s
  | .remove _ s => s
  | .reset _ s _ => s

/-- ids of the `Sleep`s stored in the future -/
def ids (f : Fut) : List Nat := (own f).map (·.id)

def idsO : Option Fut → List Nat
  | none => []
  | some f => ids f

def Named.sid : Named → Nat
  | .sl s => s.id
  | .iv i => i.delay.id

def envIds (env : List (String × Named)) : List Nat := env.map (·.2.sid)

@[simp] theorem ids_sleeping (s : Sleep) : ids (.sleeping s) = [s.id] := rfl
@[simp] theorem ids_timeout (d : Nat) (e : Fut) : ids (.timeout d e) = ids e := rfl
@[simp] theorem ids_timeoutRun (s : Sleep) (e : Fut) : ids (.timeoutRun s e) = s.id :: ids e := rfl
@[simp] theorem ids_select (a b : Fut) : ids (.select a b) = ids a ++ ids b := by simp [ids, own]
@[simp] theorem ids_seq (a b : Fut) : ids (.seq a b) = ids a ++ ids b := by simp [ids, own]

theorem mem_of_count_pos {l : List Nat} {x : Nat} (h : 0 < l.count x) : x ∈ l := List.count_pos_iff.mp h
theorem count_pos_of_mem {l : List Nat} {x : Nat} (h : x ∈ l) : 0 < l.count x := List.count_pos_iff.mpr h

/-! ### environment -/

theorem envIds_count_set_le (env : List (String × Named)) (k : String) (v : Named) (x : Nat) :
    (envIds (envSet env k v)).count x ≤ (envIds env).count x + (if v.sid = x then 1 else 0) := by
  induction env with
  | nil => simp [envSet, envIds, List.count_cons]
  | cons a rest ih =>
    obtain ⟨y, wv⟩ := a
    simp only [envSet]
    split
    · simp only [envIds, List.map_cons, List.count_cons, beq_iff_eq] at ih ⊢
      split <;> split <;> omega
    · simp only [envIds, List.map_cons, List.count_cons, beq_iff_eq] at ih ⊢
      omega

theorem envIds_count_set_same {env : List (String × Named)} {k : String} {old : Named}
    (h : envGet env k = some old) (v : Named) (hv : v.sid = old.sid) (x : Nat) :
    (envIds (envSet env k v)).count x = (envIds env).count x := by
  induction env with
  | nil => simp [envGet] at h
  | cons a rest ih =>
    obtain ⟨y, wv⟩ := a
    simp only [envGet, List.find?_cons] at h
    simp only [envSet]
    by_cases hy : (y == k) = true
    · simp only [hy, Option.map_some, Option.some.injEq] at h
      subst h
      simp only [hy, if_true, envIds, List.map_cons, List.count_cons, hv]
    · have hy' : (y == k) = false := by simpa using hy
      simp only [hy'] at h
      have := ih (by simpa [envGet] using h)
      simp only [hy', Bool.false_eq_true, if_false, envIds, List.map_cons, List.count_cons] at this ⊢
      omega

theorem envIds_count_del_le (env : List (String × Named)) (k : String) (x : Nat) :
    (envIds (envDel env k)).count x ≤ (envIds env).count x := by
  induction env with
  | nil => simp [envDel, envIds]
  | cons a rest ih =>
    obtain ⟨y, wv⟩ := a
    simp only [envDel, List.filter_cons] at ih ⊢
    split
    · simp only [envIds, List.map_cons, List.count_cons] at ih ⊢; omega
    · simp only [envIds, List.map_cons, List.count_cons] at ih ⊢; omega

theorem envGet_mem_ids {env : List (String × Named)} {k : String} {v : Named} (h : envGet env k = some v) :
    v.sid ∈ envIds env := by
  simp only [envGet, Option.map_eq_some_iff] at h
  obtain ⟨p, hp, hv⟩ := h
  have := List.mem_of_find?_eq_some hp
  rw [← hv]
  exact List.mem_map.mpr ⟨p, this, rfl⟩

/-! ### ids are kept by the `Sleep` operations; sids of the emitted operations -/

theorem sleep_reset_id (s : Sleep) (d' : Nat) : (s.reset d').1.id = s.id := by
  unfold Sleep.reset; cases s.handle <;> rfl

theorem sleep_poll_sids (s : Sleep) (tid now : Nat) : ∀ o ∈ (s.poll tid now).2.1, opSid o = s.id := by
  unfold Sleep.poll
  split
  · cases s.handle with
    | none => intro o ho; simp at ho; subst ho; rfl
    | some _ => intro o ho; simp at ho
  · intro o ho; simp at ho

theorem sleep_reset_sids (s : Sleep) (d' : Nat) : ∀ o ∈ (s.reset d').2, opSid o = s.id := by
  unfold Sleep.reset
  cases s.handle with
  | none => intro o ho; simp at ho
  | some _ => intro o ho; simp at ho; subst ho; rfl

theorem sleep_drop_sids (s : Sleep) : ∀ o ∈ s.drop, opSid o = s.id := by
  unfold Sleep.drop
  cases s.handle with
  | none => intro o ho; simp at ho
  | some _ => intro o ho; simp at ho; subst ho; rfl

theorem named_dropOps_sids (v : Named) : ∀ o ∈ v.dropOps, opSid o = v.sid := by
  cases v with
  | sl s => exact sleep_drop_sids s
  | iv i => exact sleep_drop_sids i.delay

theorem dropFut_sids (f : Fut) : ∀ o ∈ dropFut f, opSid o ∈ ids f := by
  induction f with
  | sleeping s => intro o ho; simp [sleep_drop_sids s o ho]
  | timeoutRun s e ih =>
    intro o ho
    simp only [dropFut, List.mem_append] at ho
    rcases ho with ho | ho
    · simp [ih o ho]
    · simp [sleep_drop_sids s o ho]
  | select a b iha ihb =>
    intro o ho
    simp only [dropFut, List.mem_append] at ho
    rcases ho with ho | ho
    · simp [iha o ho]
    · simp [ihb o ho]
  | seq a b iha _ => intro o ho; simp [iha o ho]
  | _ => intro o ho; cases ho

theorem pollTick_id (i : Interval) (tid now : Nat) : (i.pollTick tid now).1.delay.id = i.delay.id := by
  unfold Interval.pollTick
  simp only
  split
  · simp [sleep_reset_id, sleep_poll_id]
  · exact sleep_poll_id _ _ _

theorem pollTick_sids (i : Interval) (tid now : Nat) : ∀ o ∈ (i.pollTick tid now).2.1, opSid o = i.delay.id := by
  unfold Interval.pollTick
  simp only
  split
  · intro o ho
    rcases List.mem_append.mp ho with ho | ho
    · exact sleep_poll_sids _ _ _ o ho
    · rw [sleep_reset_sids _ _ o ho, sleep_poll_id]
  · exact sleep_poll_sids _ _ _

end Timer

/-
The measure of Proofs/TimerMeasure.lean is respected by every poll of every script term.
-/
import Desverif.Proofs.TimerMeasure
namespace Timer

/-- **every poll pays for the slot-creating operations it emits** -/
theorem measure_poll (f : Fut) : ∀ c : Ctx, MS (poll f c) ≤ w f + envU c.env + cnt c.ops := by
  induction f with
  | nop => intro c; simp [poll, MS, wO, w]
  | sleep d =>
    intro c
    have := measure_pollSleep { id := c.nextId, deadline := c.now + d } { c with nextId := c.nextId + 1 } "s"
    simpa [poll, w, Sleep.u, Nat.add_comm] using this
  | until_ t =>
    intro c
    have := measure_pollSleep { id := c.nextId, deadline := t } { c with nextId := c.nextId + 1 } "s"
    simpa [poll, w, Sleep.u, Nat.add_comm] using this
  | sleeping s =>
    intro c
    have := measure_pollSleep s c "s"
    simpa [poll, w] using this
  | timeout d e ih =>
    intro c
    simp only [poll]
    have ihe := ih { c with nextId := c.nextId + 1 }
    rcases hpe : poll e { c with nextId := c.nextId + 1 } with ⟨re, c1⟩
    rw [hpe] at ihe
    simp only [MS] at ihe ⊢
    cases re with
    | none =>
      simp only [timeoutStep, Timeout.poll, if_true, wO, obs_env, obs_ops, emit_env, emit_cnt, cnt_nil, sleep_drop_cnt] at ihe ⊢
      simp only [w, Sleep.u]
      omega
    | some e' =>
      simp only [timeoutStep, Timeout.poll] at ihe ⊢
      have h1 := @sleep_poll_ready_ops { id := c.nextId, deadline := c.now + d } c1.tid c1.now
      have h2 := @sleep_poll_pending_u { id := c.nextId, deadline := c.now + d } c1.tid c1.now
      rcases hps : Sleep.poll { id := c.nextId, deadline := c.now + d } c1.tid c1.now with ⟨s', ops, r⟩
      rw [hps] at h1 h2
      simp only [Bool.false_eq_true, if_false] at h1 h2 ⊢
      cases r with
      | true =>
        simp only [if_true, wO, fin_env, fin_ops, emit_env, emit_cnt, h1 rfl, cnt_nil, dropFut_cnt, sleep_drop_cnt] at ihe ⊢
        simp only [w, Sleep.u]
        omega
      | false =>
        have := h2 rfl
        simp only [Bool.false_eq_true, if_false, wO, w, emit_env, emit_cnt] at ihe ⊢
        simp only [Sleep.u, Option.isSome_none, Bool.false_eq_true, if_false] at this ⊢
        omega
  | timeoutRun s e ih =>
    intro c
    simp only [poll]
    have ihe := ih c
    rcases hpe : poll e c with ⟨re, c1⟩
    rw [hpe] at ihe
    simp only [MS] at ihe ⊢
    cases re with
    | none =>
      simp only [timeoutStep, Timeout.poll, if_true, wO, obs_env, obs_ops, emit_env, emit_cnt, cnt_nil, sleep_drop_cnt] at ihe ⊢
      simp only [w, Nat.add_zero]
      omega
    | some e' =>
      simp only [timeoutStep, Timeout.poll] at ihe ⊢
      have h1 := @sleep_poll_ready_ops s c1.tid c1.now
      have h2 := @sleep_poll_pending_u s c1.tid c1.now
      rcases hps : Sleep.poll s c1.tid c1.now with ⟨s', ops, r⟩
      rw [hps] at h1 h2
      simp only [Bool.false_eq_true, if_false] at h1 h2 ⊢
      cases r with
      | true =>
        simp only [if_true, wO, fin_env, fin_ops, emit_env, emit_cnt, h1 rfl, cnt_nil, dropFut_cnt, sleep_drop_cnt] at ihe ⊢
        simp only [w, Nat.add_zero]
        omega
      | false =>
        have := h2 rfl
        simp only [Bool.false_eq_true, if_false, wO, w, emit_env, emit_cnt] at ihe ⊢
        simp only [Sleep.u, Option.isSome_none, Bool.false_eq_true, if_false] at this ⊢
        omega
  | select a b iha ihb =>
    intro c
    simp only [poll]
    have h1 := iha c
    rcases hpa : poll a c with ⟨ra, c1⟩
    rw [hpa] at h1
    simp only [MS] at h1 ⊢
    cases ra with
    | none =>
      simp only [wO, w, obs_env, obs_ops, emit_env, emit_cnt, dropFut_cnt] at h1 ⊢
      omega
    | some a' =>
      simp only at h1 ⊢
      have h2 := ihb c1
      rcases hpb : poll b c1 with ⟨rb, c2⟩
      rw [hpb] at h2
      simp only [MS] at h2 ⊢
      cases rb with
      | none =>
        simp only [wO, w, obs_env, obs_ops, emit_env, emit_cnt, dropFut_cnt] at h1 h2 ⊢
        omega
      | some b' =>
        simp only [wO, w] at h1 h2 ⊢
        omega
  | seq a b iha ihb =>
    intro c
    simp only [poll]
    have h1 := iha c
    rcases hpa : poll a c with ⟨ra, c1⟩
    rw [hpa] at h1
    simp only [MS] at h1 ⊢
    cases ra with
    | none =>
      have h2 := ihb c1
      simp only [MS, wO, w] at h1 h2 ⊢
      omega
    | some a' =>
      simp only [wO, w] at h1 ⊢
      omega
  | new x d =>
    intro c
    have := bind_measure { c with nextId := c.nextId + 1 } x (.sl { id := c.nextId, deadline := c.now + d })
    simp only [poll, MS, wO, w, Named.u, Sleep.u] at this ⊢
    simp at this ⊢
    omega
  | newu x t =>
    intro c
    have := bind_measure { c with nextId := c.nextId + 1 } x (.sl { id := c.nextId, deadline := t })
    simp only [poll, MS, wO, w, Named.u, Sleep.u] at this ⊢
    simp at this ⊢
    omega
  | pollOnce x =>
    intro c
    simp only [poll]
    split
    · rename_i s hget
      have h0 := envU_set_get hget
      have h1 := @sleep_poll_ready_ops s c.tid c.now
      have h2 := @sleep_poll_pending_u s c.tid c.now
      have h3 := sleep_u_le_one
      rcases hps : Sleep.poll s c.tid c.now with ⟨s', ops, r⟩
      rw [hps] at h1 h2
      simp only at h1 h2 ⊢
      have h0' := h0 (.sl s')
      have h3' := h3 s'
      simp only [Named.u] at h0'
      cases r with
      | true =>
        simp only [MS, if_true, wO, w, fin_env, fin_ops, obs_env, obs_ops, emit_env, emit_cnt, h1 rfl, cnt_nil]
        omega
      | false =>
        have := h2 rfl
        simp only [MS, Bool.false_eq_true, if_false, wO, w, fin_env, fin_ops, obs_env, obs_ops, emit_env, emit_cnt]
        omega
    · simp only [MS, wO, w, obs_env, obs_ops]; omega
  | reset x d =>
    intro c
    simp only [poll]
    split
    · rename_i s hget
      have h0 := envU_set_get hget (.sl (s.reset (c.now + d)).1)
      have h1 := sleep_reset_u s (c.now + d)
      simp only [Named.u] at h0
      simp only [MS, wO, w, emit_env, emit_cnt]
      omega
    · simp only [MS, wO, w]; omega
  | resetu x t =>
    intro c
    simp only [poll]
    split
    · rename_i s hget
      have h0 := envU_set_get hget (.sl (s.reset t).1)
      have h1 := sleep_reset_u s t
      simp only [Named.u] at h0
      simp only [MS, wO, w, emit_env, emit_cnt]
      omega
    · simp only [MS, wO, w]; omega
  | drop x =>
    intro c
    simp only [poll]
    split
    · rename_i v _
      have := envU_del_le c.env x
      simp only [MS, wO, w, emit_env, emit_cnt, named_dropOps_cnt]
      omega
    · simp only [MS, wO, w]; omega
  | await x =>
    intro c
    simp only [poll]
    split
    · rename_i s hget
      have h0 := envU_set_get hget
      have h1 := @sleep_poll_ready_ops s c.tid c.now
      have h2 := @sleep_poll_pending_u s c.tid c.now
      have h3 := sleep_u_le_one
      rcases hps : Sleep.poll s c.tid c.now with ⟨s', ops, r⟩
      rw [hps] at h1 h2
      simp only at h1 h2 ⊢
      have h0' := h0 (.sl s')
      have h3' := h3 s'
      simp only [Named.u] at h0'
      cases r with
      | true =>
        simp only [MS, if_true, wO, w, fin_env, fin_ops, obs_env, obs_ops, emit_env, emit_cnt, h1 rfl, cnt_nil]
        omega
      | false =>
        have := h2 rfl
        simp only [MS, Bool.false_eq_true, if_false, wO, w, fin_env, fin_ops, obs_env, obs_ops, emit_env, emit_cnt]
        omega
    · simp only [MS, wO, w, obs_env, obs_ops]; omega
  | inew x p m d =>
    intro c
    have := bind_measure { c with nextId := c.nextId + 1 } x
      (.iv { delay := { id := c.nextId, deadline := c.now + d }, period := p, mode := m })
    simp only [poll, MS, wO, w, Named.u, Sleep.u] at this ⊢
    simp at this ⊢
    omega
  | tick x =>
    intro c
    simp only [poll]
    split
    · rename_i i hget
      have h1 := pollTick_u i c.tid c.now
      rcases hpt : i.pollTick c.tid c.now with ⟨i', ops, r⟩
      rw [hpt] at h1
      have h0 := envU_set_get hget (.iv i')
      simp only [Named.u] at h0 h1 ⊢
      cases r with
      | some t => simp only [Option.isSome_some, if_true] at h1; simp only [MS, wO, w, fin_env, fin_ops, emit_env, emit_cnt]; omega
      | none => simp only [Option.isSome_none, Bool.false_eq_true, if_false] at h1; simp only [MS, wO, w, emit_env, emit_cnt]; omega
    · simp only [MS, wO, w, obs_env, obs_ops]; omega
  | ireset x =>
    intro c
    simp only [poll]
    split
    · rename_i i hget
      have h0 := envU_set_get hget (.iv (i.reset c.now).1)
      have h1 := sleep_reset_u i.delay (c.now + i.period)
      simp only [Named.u, Interval.reset] at h0 ⊢
      simp only [MS, wO, w, emit_env, emit_cnt]
      omega
    · simp only [MS, wO, w]; omega
  | restart d =>
    intro c
    simp only [poll]
    split <;> simp [MS, wO, w]
  | halt => intro c; simp [poll, MS, wO, w]

theorem measure_pollLines (ls : List (Nat × Fut)) : ∀ c : Ctx,
    W (pollLines ls c).1 + envU (pollLines ls c).2.env + cnt (pollLines ls c).2.ops ≤ W ls + envU c.env + cnt c.ops := by
  induction ls with
  | nil => intro c; simp [pollLines]
  | cons a rest ih =>
    intro c
    obtain ⟨ln, f⟩ := a
    simp only [pollLines]
    have h1 := measure_poll f { c with line := ln }
    rcases hp : poll f { c with line := ln } with ⟨r, c1⟩
    rw [hp] at h1
    simp only [MS] at h1
    cases r with
    | none =>
      have h2 := ih c1
      simp only [wO, W] at h1 h2 ⊢
      omega
    | some f' =>
      simp only [wO, W] at h1 ⊢
      omega

theorem measure_task_poll (t : Task) (tid now inc : Nat) (a : Acc) :
    taskW (t.poll tid now inc a).1 + cnt (t.poll tid now inc a).2.ops ≤ taskW t + cnt a.ops := by
  unfold Task.poll
  split
  · exact Nat.le_refl _
  · simp only
    have h := measure_pollLines t.lines ⟨now, tid, inc, 0, a.nextId, t.env, a.log, a.ops, a.shut⟩
    rcases hp : pollLines t.lines ⟨now, tid, inc, 0, a.nextId, t.env, a.log, a.ops, a.shut⟩ with ⟨ls, c'⟩
    rw [hp] at h
    simp only at h ⊢
    cases ls with
    | nil =>
      simp only [taskW, W, envU, cnt_append, envDropOps_cnt] at h ⊢
      omega
    | cons x xs =>
      simp only [taskW] at h ⊢
      omega

theorem measure_pollTasks (tasks : List Task) (idx : Nat) (run : Nat → Bool) (now inc : Nat) (a : Acc) :
    tasksW (pollTasks tasks idx run now inc a).1 + cnt (pollTasks tasks idx run now inc a).2.ops ≤
      tasksW tasks + cnt a.ops := by
  induction tasks generalizing idx a with
  | nil => simp [pollTasks]
  | cons t rest ih =>
    simp only [pollTasks]
    split
    · have h1 := measure_task_poll t idx now inc a
      have h2 := ih (idx + 1) (t.poll idx now inc a).2
      simp only [tasksW] at h1 h2 ⊢
      omega
    · have h2 := ih (idx + 1) a
      simp only [tasksW] at h2 ⊢
      omega

theorem pollTasks_norun (tasks : List Task) (idx : Nat) (run : Nat → Bool) (now inc : Nat) (a : Acc)
    (h : ∀ i, run i = false) : pollTasks tasks idx run now inc a = (tasks, a) := by
  induction tasks generalizing idx with
  | nil => rfl
  | cons t rest ih => simp only [pollTasks, h idx, Bool.false_eq_true, if_false, ih]

theorem tasksW_spawnAll (progs : List (List (Nat × Fut))) :
    tasksW (spawnAll progs) = (progs.map W).sum := by
  induction progs with
  | nil => rfl
  | cons p rest ih =>
    simp only [spawnAll, List.map_cons, tasksW, List.sum_cons] at ih ⊢
    rw [ih]; simp [taskW, envU]

end Timer

/-
Consequences of the invariant `R` for walks, mirror images and message delivery; the simple
well-formedness invariant (`Sym`, `Fill`) behind the symmetry of `connect`.
-/
import Desverif.Proofs.GateConnect
namespace Gate

theorem kind_ne_transit (net : Net) (g : Nat) : kind net g ≠ .transit ↔ (net g).len < 2 := by
  unfold kind
  generalize net g = s
  cases s with
  | mk s0 s1 => cases s0 <;> cases s1 <;> simp [Slots.len]

theorem getLast?_peer : ∀ (hops : List Conn) (g : Nat), hops ≠ [] →
    hops.getLast?.map (·.peer) = some (lastGate g hops) := by
  intro hops
  induction hops with
  | nil => intro g h; exact absurd rfl h
  | cons k r ih =>
    intro g _
    cases r with
    | nil => rfl
    | cons k2 r2 =>
      rw [List.getLast?_cons_cons]
      exact ih k.peer (by simp)

theorem length_le_flatten (p : List Nat) : ∀ (L : List (List Nat)), p ∈ L → p.length ≤ L.flatten.length := by
  intro L
  induction L with
  | nil => intro h; simp at h
  | cons q L ih =>
    intro h
    rcases List.mem_cons.mp h with h | h
    · subst h; simp only [List.flatten_cons, List.length_append]; omega
    · have := ih h; simp only [List.flatten_cons, List.length_append]; omega

theorem path_length_le (n : Nat) (net : Net) (sp : Paths.State) (hR : R n net sp) (p : List Nat)
    (hp : p ∈ sp.paths) : p.length ≤ n := by
  have h1 := length_le_flatten p _ hp
  have h2 := hR.perm.length_eq
  rw [List.length_append, List.length_range] at h2
  omega

/-- every gate with a free slot is the first gate of a complete chain, which is its abstract path
    read from that gate -/
theorem endpoint_chain (n : Nat) (net : Net) (sp : Paths.State) (hR : R n net sp) (g : Nat)
    (hg : g < n) (hl : (net g).len < 2) :
    ∃ p ∈ sp.paths, ∃ h2, PathOK net g h2 ∧ Paths.pathOf sp g = some p ∧
      Paths.startingAt p g = some (gatesOf g h2) ∧ h2.length < n ∧ ∀ x ∈ gatesOf g h2, x < n := by
  have hnd : (sp.paths.flatten ++ sp.closed).Nodup := hR.perm.nodup_iff.mpr List.nodup_range
  have hmem : g ∈ sp.paths.flatten ++ sp.closed := hR.perm.mem_iff.mpr (List.mem_range.mpr hg)
  rcases List.mem_append.mp hmem with h | h
  · obtain ⟨p, hp, hgp⟩ := List.mem_flatten.mp h
    obtain ⟨g0, hops, hpe, ok⟩ := hR.paths p hp
    have hend := pathOK_free_end net g0 hops ok g (hpe ▸ hgp) hl
    obtain ⟨h2, ok2, hstart, hperm⟩ := starting_orient net g0 hops ok g hend
    refine ⟨p, hp, h2, ok2, find_path g _ (List.nodup_append.mp hnd).1 p hp hgp, hpe ▸ hstart, ?_, ?_⟩
    rotate_left
    · intro x hx
      have hxp : x ∈ p := hpe ▸ hperm.mem_iff.mp hx
      exact List.mem_range.mp (hR.perm.mem_iff.mp (List.mem_append_left _ (List.mem_flatten.mpr ⟨p, hp, hxp⟩)))
    have h3 := path_length_le n net sp hR p hp
    have h4 := hperm.length_eq
    rw [← hpe] at h4
    simp [gatesOf] at h4
    omega
  · have := len_full _ (hR.rings g h); omega

/-- a gate with both slots occupied is not the end of any abstract path -/
theorem transit_no_walk (n : Nat) (net : Net) (sp : Paths.State) (hR : R n net sp) (g : Nat)
    (hl : ¬ (net g).len < 2) : Paths.walkFrom sp g = none := by
  unfold Paths.walkFrom
  cases hf : Paths.pathOf sp g with
  | none => rfl
  | some p =>
    have hp : p ∈ sp.paths := List.mem_of_find?_eq_some hf
    obtain ⟨g0, hops, hpe, ok⟩ := hR.paths p hp
    have hfirst := pathOK_first_slots net g0 hops ok
    have hlast := pathOK_last_slots net g0 hops ok
    have hlen : ∀ x, (net x).s1 = none → (net x).len < 2 := by
      intro x hx; simp [Slots.len, hx]; split <;> omega
    have h1 : g0 ≠ g := fun e => hl (e ▸ hlen g0 hfirst.1)
    have h2 : lastGate g0 hops ≠ g := fun e => hl (e ▸ hlen _ hlast.1)
    have e1 : p.head? = some g0 := by rw [hpe]; rfl
    have e2 : p.getLast? = some (lastGate g0 hops) := by rw [hpe]; exact getLast?_gatesOf _ _
    simp [Paths.startingAt, e1, e2, h1, h2]

/-! ### well-formedness: links are stored symmetrically, slot 0 is filled first -/

structure WF (net : Net) : Prop where
  sym : ∀ g i c, (net g).get i = some c → (net c.peer).get c.peerSlot = some ⟨g, i, c.chan⟩
  fill : ∀ g, (net g).s1.isSome → (net g).s0.isSome

theorem wf_empty : WF Net.empty := ⟨by intro g i c h; cases i <;> simp [Net.empty, Slots.get] at h,
  by intro g h; simp [Net.empty] at h⟩

/-- `put` with the fill-order invariant: the slot used is the one `len` announced -/
theorem put_fill (s : Slots) (hf : s.s1.isSome → s.s0.isSome) (hl : s.len < 2) (c : Conn) :
    ∃ s', s.put c = some s' ∧ s'.get (decide (s.len = 1)) = some c ∧ s.get (decide (s.len = 1)) = none ∧
      (∀ i, i ≠ decide (s.len = 1) → s'.get i = s.get i) ∧ (s'.s1.isSome → s'.s0.isSome) := by
  cases s with
  | mk s0 s1 =>
    cases s0 with
    | none =>
      cases s1 with
      | none =>
        refine ⟨⟨some c, none⟩, rfl, by simp [Slots.len, Slots.get], by simp [Slots.len, Slots.get], ?_, by simp⟩
        intro i hi; cases i <;> simp [Slots.len, Slots.get] at hi ⊢
      | some k => simp at hf
    | some k0 =>
      cases s1 with
      | none =>
        refine ⟨⟨some k0, some c⟩, rfl, by simp [Slots.len, Slots.get], by simp [Slots.len, Slots.get], ?_, by simp⟩
        intro i hi; cases i <;> simp [Slots.len, Slots.get] at hi ⊢
      | some k1 => simp [Slots.len] at hl

theorem connect_WF (net net' : Net) (a b : Nat) (ch : Option Nat) (hw : WF net)
    (h : connect net a b ch = .ok net') : WF net' := by
  rcases connect_cases net net' a b ch h with rfl | ⟨hab, _, hla, hlb, sa, sb, e1, e2, hnet⟩
  · exact hw
  obtain ⟨sa', ea, hga, hfa, hoa, hfilla⟩ := put_fill (net a) (hw.fill a) hla ⟨b, decide ((net b).len = 1), ch⟩
  rw [e1] at ea; cases ea
  obtain ⟨sb', eb, hgb, hfb, hob, hfillb⟩ := put_fill (net b) (hw.fill b) hlb ⟨a, decide ((net a).len = 1), ch⟩
  rw [e2] at eb; cases eb
  have hna : net' a = sa := by subst hnet; simp [Net.set, hab]
  have hnb : net' b = sb := by subst hnet; simp [Net.set]
  have hframe : ∀ x, x ≠ a → x ≠ b → net' x = net x := by
    intro x hxa hxb; subst hnet; simp [Net.set, hxa, hxb]
  have hmono := connect_mono net net' a b ch h
  -- every entry of net' is an old entry or one of the two new ones
  have hsplit : ∀ g i c, (net' g).get i = some c → (net g).get i = some c ∨
      (g = a ∧ i = decide ((net a).len = 1) ∧ c = ⟨b, decide ((net b).len = 1), ch⟩) ∨
      (g = b ∧ i = decide ((net b).len = 1) ∧ c = ⟨a, decide ((net a).len = 1), ch⟩) := by
    intro g i c hc
    by_cases hga' : g = a
    · subst hga'
      rw [hna] at hc
      by_cases hi : i = decide ((net g).len = 1)
      · subst hi; rw [hga] at hc; cases hc; right; left; exact ⟨rfl, rfl, rfl⟩
      · rw [hoa i hi] at hc; left; exact hc
    · by_cases hgb' : g = b
      · subst hgb'
        rw [hnb] at hc
        by_cases hi : i = decide ((net g).len = 1)
        · subst hi; rw [hgb] at hc; cases hc; right; right; exact ⟨rfl, rfl, rfl⟩
        · rw [hob i hi] at hc; left; exact hc
      · rw [hframe g hga' hgb'] at hc; left; exact hc
  refine ⟨?_, ?_⟩
  · intro g i c hc
    rcases hsplit g i c hc with hold | ⟨rfl, rfl, rfl⟩ | ⟨rfl, rfl, rfl⟩
    · exact hmono _ _ _ (hw.sym g i c hold)
    · show (net' b).get _ = _; rw [hnb]; exact hgb
    · show (net' a).get _ = _; rw [hna]; exact hga
  · intro g
    by_cases hga' : g = a
    · subst hga'; rw [hna]; exact hfilla
    · by_cases hgb' : g = b
      · subst hgb'; rw [hnb]; exact hfillb
      · rw [hframe g hga' hgb']; exact hw.fill g

theorem connectAll_WF : ∀ (ops : List (Nat × Nat × Option Nat)) (net : Net), WF net → WF (connectAll net ops) := by
  intro ops
  induction ops with
  | nil => intro net h; exact h
  | cons op ops ih =>
    intro net hw
    obtain ⟨a, b, ch⟩ := op
    simp only [connectAll]
    cases hc : connect net a b ch with
    | ok net' => exact ih net' (connect_WF net net' a b ch hw hc)
    | error e => exact ih net hw

theorem hasPeer_iff (s : Slots) (b : Nat) : s.hasPeer b = true ↔ ∃ i c, s.get i = some c ∧ c.peer = b := by
  cases s with
  | mk s0 s1 =>
    constructor
    · intro h
      simp only [Slots.hasPeer, Bool.or_eq_true] at h
      rcases h with h | h
      · cases s0 with
        | none => simp at h
        | some c => exact ⟨false, c, rfl, by simpa using h⟩
      · cases s1 with
        | none => simp at h
        | some c => exact ⟨true, c, rfl, by simpa using h⟩
    · rintro ⟨i, c, hc, rfl⟩
      cases i <;> simp [Slots.get] at hc <;> simp [Slots.hasPeer, hc]

/-- in a well-formed net "is a peer of" is symmetric -/
theorem hasPeer_symm (net : Net) (hw : WF net) (a b : Nat) (h : (net a).hasPeer b = true) :
    (net b).hasPeer a = true := by
  obtain ⟨i, c, hc, rfl⟩ := (hasPeer_iff _ _).mp h
  exact (hasPeer_iff _ _).mpr ⟨c.peerSlot, _, hw.sym a i c hc, rfl⟩

theorem put_hasPeer (s s' : Slots) (c : Conn) (h : s.put c = some s') : s'.hasPeer c.peer = true := by
  cases s with
  | mk s0 s1 =>
    cases s0 with
    | none => simp [Slots.put] at h; subst h; simp [Slots.hasPeer]
    | some k0 =>
      cases s1 with
      | none => simp [Slots.put] at h; subst h; simp [Slots.hasPeer]
      | some k1 => simp [Slots.put] at h

/-- the invariant `R` along a whole builder script -/
theorem connectAll_R (n : Nat) : ∀ (ops : List (Nat × Nat × Option Nat)) (net : Net) (sp : Paths.State),
    (∀ op ∈ ops, op.1 < n ∧ op.2.1 < n) → Paths.Reach n sp → R n net sp →
    ∃ sp', Paths.Reach n sp' ∧ R n (connectAll net ops) sp' := by
  intro ops
  induction ops with
  | nil => intro net sp _ hr hR; exact ⟨sp, hr, hR⟩
  | cons op ops ih =>
    intro net sp hv hr hR
    obtain ⟨a, b, ch⟩ := op
    have hab := hv (a, b, ch) List.mem_cons_self
    have hv' : ∀ op ∈ ops, op.1 < n ∧ op.2.1 < n := fun op h => hv op (List.mem_cons_of_mem _ h)
    simp only [connectAll]
    cases hc : connect net a b ch with
    | error e => exact ih net sp hv' hr hR
    | ok net' =>
      rcases connect_R n net net' sp a b ch hR hab.1 hab.2 hc with rfl | ⟨sp', hl, hR'⟩
      · exact ih _ sp hv' hr hR
      · exact ih net' sp' hv' (Paths.Reach.link hr hl) hR'

end Gate

/-
The representation invariant tying the gate slots to the abstract path set, and its preservation
by every `connect` (any gates, any order, any orientation, any outcome).
-/
import Desverif.Proofs.GateSeg
import Desverif.Spec.Paths
namespace Gate

/-- `g :: hops.map peer` is a complete chain: nothing behind `g`, symmetric links along `hops`,
    nothing beyond the last gate; both end gates use slot 0 for their only link -/
def PathOK (net : Net) (g : Nat) (hops : List Conn) : Prop :=
  (net g).s1 = none ∧ Seg net g true hops hops.isEmpty ∧
    (net (lastGate g hops)).get (!hops.isEmpty) = none

structure R (n : Nat) (net : Net) (sp : Paths.State) : Prop where
  paths : ∀ p ∈ sp.paths, ∃ g hops, p = gatesOf g hops ∧ PathOK net g hops
  rings : ∀ g ∈ sp.closed, (net g).s0.isSome ∧ (net g).s1.isSome
  perm : (sp.paths.flatten ++ sp.closed).Perm (List.range n)

theorem flatten_singletons (l : List Nat) : (l.map fun g => [g]).flatten = l := by
  induction l with
  | nil => rfl
  | cons x xs ih => simp [ih]

theorem init_R (n : Nat) : R n Net.empty (Paths.init n) where
  paths := by
    intro p hp
    simp only [Paths.init, List.mem_map] at hp
    obtain ⟨g, _, rfl⟩ := hp
    exact ⟨g, [], rfl, rfl, rfl, rfl⟩
  rings := by intro g hg; simp [Paths.init, Paths.State.closed] at hg
  perm := by
    simp only [Paths.init, Paths.State.closed, List.flatten_nil, List.append_nil]
    rw [flatten_singletons]

theorem lastGate_mem_hops (g : Nat) (hops : List Conn) (h : hops ≠ []) :
    lastGate g hops ∈ hops.map (·.peer) := by
  cases hops with
  | nil => exact absurd rfl h
  | cons k rest =>
    have := lastGate_mem k.peer rest
    simpa [gatesOf, lastGate] using this

/-- reading a complete chain from its other end gives a complete chain: the mirror image -/
theorem pathOK_mirror (net : Net) (g : Nat) (hops : List Conn) (h : PathOK net g hops) :
    PathOK net (lastGate g hops) (mirror g true hops []) ∧
    lastGate (lastGate g hops) (mirror g true hops []) = g ∧
    gatesOf (lastGate g hops) (mirror g true hops []) = (gatesOf g hops).reverse := by
  obtain ⟨h1, h2, h3⟩ := h
  have hl : lastGate (lastGate g hops) (mirror g true hops []) = g := by
    rw [lastGate_mirror]; rfl
  have hg : gatesOf (lastGate g hops) (mirror g true hops []) = (gatesOf g hops).reverse := by
    have hm := mirror_gates hops g true []
    simp only [List.map_nil, List.append_nil] at hm
    have hlast := getLast?_gatesOf g hops
    rw [← List.head?_reverse] at hlast
    show lastGate g hops :: (mirror g true hops []).map (·.peer) = _
    rw [hm]
    cases hr : (gatesOf g hops).reverse with
    | nil => rw [hr] at hlast; simp at hlast
    | cons x xs => rw [hr] at hlast; simp at hlast; simp [hlast]
  refine ⟨?_, hl, hg⟩
  cases hops with
  | nil => exact ⟨h1, rfl, by simpa [lastGate, mirror] using h3⟩
  | cons k rest =>
    have hne : (mirror g true (k :: rest) []).isEmpty = false := by
      have := mirror_length (k :: rest) g true []
      cases hm : mirror g true (k :: rest) [] with
      | nil => rw [hm] at this; simp at this
      | cons _ _ => rfl
    simp only [List.isEmpty_cons, Bool.not_false] at h2 h3
    refine ⟨by simpa using h3, ?_, ?_⟩
    · rw [hne]
      have := seg_mirror net (k :: rest) g true false [] false h2 rfl
      simpa using this
    · rw [hl, hne]; simpa using h1

/-! ### `connect` -/

theorem connect_cases (net net' : Net) (a b : Nat) (ch : Option Nat)
    (h : connect net a b ch = .ok net') :
    net' = net ∨ (a ≠ b ∧ (net a).hasPeer b = false ∧ (net a).len < 2 ∧ (net b).len < 2 ∧
      ∃ sa sb, (net a).put ⟨b, decide ((net b).len = 1), ch⟩ = some sa ∧
        (net b).put ⟨a, decide ((net a).len = 1), ch⟩ = some sb ∧ net' = (net.set a sa).set b sb) := by
  unfold connect at h
  split at h
  · cases h
  · split at h
    · left; cases h; rfl
    · rename_i hab hp
      simp only at h
      split at h
      · rename_i hl
        split at h
        · rename_i sa sb e1 e2
          right
          cases h
          exact ⟨hab, by simpa using hp, hl.1, hl.2, sa, sb, e1, e2, rfl⟩
        · cases h
      · cases h

/-- `Connections::put` on a gate whose slot 1 is free -/
theorem put_end (s : Slots) (h1 : s.s1 = none) (c : Conn) :
    ∃ s', s.put c = some s' ∧ decide (s.len = 1) = s.s0.isSome ∧ s'.get s.s0.isSome = some c ∧
      (∀ i k, s.get i = some k → s'.get i = some k) ∧ (s.s0 = none → s'.s1 = none) ∧
      (s.s0.isSome → s'.s0.isSome ∧ s'.s1.isSome) := by
  cases s with
  | mk s0 s1 =>
    simp only at h1
    subst h1
    cases s0 with
    | none =>
      refine ⟨⟨some c, none⟩, rfl, by simp [Slots.len], by simp [Slots.get], ?_, by simp, by simp⟩
      intro i k h
      cases i <;> simp [Slots.get] at h
    | some k0 =>
      refine ⟨⟨some k0, some c⟩, rfl, by simp [Slots.len], by simp [Slots.get], ?_, by simp, by simp⟩
      intro i k h
      cases i <;> simp [Slots.get] at h ⊢ <;> exact h

theorem put_mono (s s' : Slots) (c : Conn) (h : s.put c = some s') :
    ∀ i k, s.get i = some k → s'.get i = some k := by
  cases s with
  | mk s0 s1 =>
    cases s0 with
    | none =>
      simp [Slots.put] at h; subst h
      intro i k hk; cases i <;> simp [Slots.get] at hk ⊢; exact hk
    | some k0 =>
      cases s1 with
      | none =>
        simp [Slots.put] at h; subst h
        intro i k hk; cases i <;> simp [Slots.get] at hk ⊢; exact hk
      | some k1 => simp [Slots.put] at h

theorem connect_mono (net net' : Net) (a b : Nat) (ch : Option Nat)
    (h : connect net a b ch = .ok net') :
    ∀ g i c, (net g).get i = some c → (net' g).get i = some c := by
  rcases connect_cases net net' a b ch h with rfl | ⟨hab, _, _, _, sa, sb, e1, e2, rfl⟩
  · intro g i c h; exact h
  · intro g i c hg
    simp only [Net.set]
    by_cases hgb : g = b
    · subst hgb; simp; exact put_mono _ _ _ e2 i c hg
    · by_cases hga : g = a
      · subst hga; simp [hgb]; exact put_mono _ _ _ e1 i c hg
      · simp [hgb, hga]; exact hg

theorem full_of_get (s : Slots) (h0 : (s.get false).isSome) (h1 : (s.get true).isSome) :
    s.s0.isSome ∧ s.s1.isSome := ⟨h0, h1⟩

theorem len_full (s : Slots) (h : s.s0.isSome ∧ s.s1.isSome) : s.len = 2 := by
  simp [Slots.len, h.1, h.2]

theorem full_mono (net net' : Net) (hm : ∀ g i c, (net g).get i = some c → (net' g).get i = some c)
    (x : Nat) (h : (net x).s0.isSome ∧ (net x).s1.isSome) : (net' x).s0.isSome ∧ (net' x).s1.isSome := by
  obtain ⟨h0, h1⟩ := h
  obtain ⟨c0, hc0⟩ := Option.isSome_iff_exists.mp h0
  obtain ⟨c1, hc1⟩ := Option.isSome_iff_exists.mp h1
  have a0 := hm x false c0 (by simpa using hc0)
  have a1 := hm x true c1 (by simpa using hc1)
  simp at a0 a1
  simp [a0, a1]

/-- a gate of a complete chain with a free slot is one of its two ends -/
theorem pathOK_free_end (net : Net) (g : Nat) (hops : List Conn) (h : PathOK net g hops) (x : Nat)
    (hx : x ∈ gatesOf g hops) (hl : (net x).len < 2) : x = g ∨ x = lastGate g hops := by
  simp only [gatesOf, List.mem_cons] at hx
  rcases hx with rfl | hx
  · left; rfl
  · by_cases hxl : x = lastGate g hops
    · right; exact hxl
    · have := len_full _ (seg_inner_full net hops g true _ x h.2.1 hx hxl)
      omega

end Gate

/-
`Topology::spanned` with a first-in first-out work-list: the node index predicted for a module
that is still waiting in the work-list is exact.  Invariant: every stored `dst` is the position of
the edge's destination module in `nodes ++ queue`; popping from the front moves the head of
`queue` to the end of `nodes` and leaves that list unchanged; pushing appends to it.
-/
import Desverif.Model.Topo
namespace Topo
open Gate

theorem indexOf_some {l : List Nat} {x i : Nat} (h : indexOf l x = some i) : l[i]? = some x := by
  unfold indexOf at h
  obtain ⟨hi, hp, _⟩ := List.findIdx?_eq_some_iff_getElem.mp h
  rw [List.getElem?_eq_getElem hi]
  simp at hp
  rw [hp]

theorem indexOf_none {l : List Nat} {x : Nat} (h : indexOf l x = none) : x ∉ l := by
  unfold indexOf at h
  intro hx
  have := List.findIdx?_eq_none_iff.mp h x hx
  simp at this

theorem indexOf_mem {l : List Nat} {x : Nat} (hx : x ∈ l) : ∃ i, indexOf l x = some i := by
  cases h : indexOf l x with
  | none => exact absurd hx (indexOf_none h)
  | some i => exact ⟨i, rfl⟩

/-- the prediction: `dst` is the position of the owner of the far end in `nodes ++ queue` -/
def Pred (w : World) (all : List Nat) (e : Edge) : Prop := all[e.dst]? = some (w.owner e.stop)

theorem pred_append (w : World) (all ext : List Nat) (e : Edge) (h : Pred w all e) :
    Pred w (all ++ ext) e := by
  unfold Pred at h ⊢
  have hlt : e.dst < all.length := by
    by_cases hh : e.dst < all.length
    · exact hh
    · rw [List.getElem?_eq_none (by omega)] at h; cases h
  rw [List.getElem?_append_left hlt]; exact h

/-- labels (start gate, end gate) of a list of edges -/
def labels (es : List Edge) : List (Nat × Nat) := es.map fun e => (e.start, e.stop)

/-- the labels `spanned` must produce for the gates `gs` of one module -/
def wantLabels (w : World) (gs : List Nat) : List (Nat × Nat) :=
  (gs.filter fun g => kind w.net g = .endpoint).map fun g => (g, chainEnd w none g)

theorem spanGates_inv (w : World) (nodes : List Nat) (srcIdx : Nat) (hsrc : srcIdx + 1 = nodes.length) :
    ∀ (gs queue : List Nat) (acc : List Edge),
    (nodes ++ queue).Nodup → (∀ e ∈ acc, Pred w (nodes ++ queue) e) →
    (∃ ext, (spanGates w nodes srcIdx gs queue acc).1 = queue ++ ext ∧
      (∀ x ∈ ext, ∃ g ∈ gs, kind w.net g = .endpoint ∧ x = w.owner (chainEnd w none g))) ∧
    (nodes ++ (spanGates w nodes srcIdx gs queue acc).1).Nodup ∧
    (∀ e ∈ (spanGates w nodes srcIdx gs queue acc).2, Pred w (nodes ++ (spanGates w nodes srcIdx gs queue acc).1) e) ∧
    labels (spanGates w nodes srcIdx gs queue acc).2 = labels acc ++ wantLabels w gs := by
  intro gs
  induction gs with
  | nil =>
    intro queue acc hnd hp
    simp only [spanGates]
    exact ⟨⟨[], by simp, by simp⟩, hnd, hp, by simp [wantLabels]⟩
  | cons g gs ih =>
    intro queue acc hnd hp
    simp only [spanGates]
    by_cases hk : kind w.net g = .endpoint
    · simp only [hk, if_true]
      have hwant : wantLabels w (g :: gs) = (g, chainEnd w none g) :: wantLabels w gs := by
        simp [wantLabels, hk]
      cases h1 : indexOf nodes (w.owner (chainEnd w none g)) with
      | some i =>
        simp only []
        have hp' : ∀ e ∈ acc ++ [⟨i, g, chainEnd w none g⟩], Pred w (nodes ++ queue) e := by
          intro e he
          rcases List.mem_append.mp he with he | he
          · exact hp e he
          · simp at he; subst he
            have := indexOf_some h1
            have hlt : i < nodes.length := by
              by_cases hh : i < nodes.length
              · exact hh
              · rw [List.getElem?_eq_none (by omega)] at this; cases this
            show (nodes ++ queue)[i]? = _
            rw [List.getElem?_append_left hlt]; exact this
        obtain ⟨⟨ext, he1, he2⟩, h2, h3, h4⟩ := ih queue _ hnd hp'
        refine ⟨⟨ext, he1, ?_⟩, h2, h3, ?_⟩
        · intro x hx; obtain ⟨g', hg', e'⟩ := he2 x hx; exact ⟨g', List.mem_cons_of_mem _ hg', e'⟩
        · rw [h4, hwant]; simp [labels]
      | none =>
        simp only []
        cases h2 : indexOf queue (w.owner (chainEnd w none g)) with
        | some off =>
          simp only []
          have hp' : ∀ e ∈ acc ++ [⟨srcIdx + 1 + off, g, chainEnd w none g⟩], Pred w (nodes ++ queue) e := by
            intro e he
            rcases List.mem_append.mp he with he | he
            · exact hp e he
            · simp at he; subst he
              have := indexOf_some h2
              show (nodes ++ queue)[srcIdx + 1 + off]? = _
              rw [hsrc, List.getElem?_append_right (by omega)]
              simpa using this
          obtain ⟨⟨ext, he1, he2⟩, h2', h3, h4⟩ := ih queue _ hnd hp'
          refine ⟨⟨ext, he1, ?_⟩, h2', h3, ?_⟩
          · intro x hx; obtain ⟨g', hg', e'⟩ := he2 x hx; exact ⟨g', List.mem_cons_of_mem _ hg', e'⟩
          · rw [h4, hwant]; simp [labels]
        | none =>
          simp only []
          have hn1 := indexOf_none h1
          have hn2 := indexOf_none h2
          have hnd' : (nodes ++ (queue ++ [w.owner (chainEnd w none g)])).Nodup := by
            rw [← List.append_assoc]
            rw [List.nodup_append]
            refine ⟨hnd, by simp, ?_⟩
            intro a ha b hb
            simp at hb; subst hb
            intro e; subst e
            rcases List.mem_append.mp ha with h | h
            · exact hn1 h
            · exact hn2 h
          have hp' : ∀ e ∈ acc ++ [⟨srcIdx + (queue ++ [w.owner (chainEnd w none g)]).length, g, chainEnd w none g⟩],
              Pred w (nodes ++ (queue ++ [w.owner (chainEnd w none g)])) e := by
            intro e he
            rcases List.mem_append.mp he with he | he
            · rw [← List.append_assoc]; exact pred_append w _ _ e (hp e he)
            · simp at he; subst he
              unfold Pred
              simp only []
              rw [← List.append_assoc]
              have : srcIdx + (queue.length + 1) = (nodes ++ queue).length := by
                simp; omega
              rw [this, List.getElem?_concat_length]
          obtain ⟨⟨ext, he1, he2⟩, h2', h3, h4⟩ := ih _ _ hnd' hp'
          refine ⟨⟨w.owner (chainEnd w none g) :: ext, by rw [he1]; simp, ?_⟩, h2', h3, ?_⟩
          · intro x hx
            rcases List.mem_cons.mp hx with hx | hx
            · exact ⟨g, List.mem_cons_self, hk, hx⟩
            · obtain ⟨g', hg', e'⟩ := he2 x hx; exact ⟨g', List.mem_cons_of_mem _ hg', e'⟩
          · rw [h4, hwant]; simp [labels]
    · simp only [hk, if_false]
      have hwant : wantLabels w (g :: gs) = wantLabels w gs := by simp [wantLabels, hk]
      obtain ⟨⟨ext, he1, he2⟩, h2, h3, h4⟩ := ih queue acc hnd hp
      refine ⟨⟨ext, he1, ?_⟩, h2, h3, by rw [h4, hwant]⟩
      intro x hx; obtain ⟨g', hg', e'⟩ := he2 x hx; exact ⟨g', List.mem_cons_of_mem _ hg', e'⟩

/-- one edge of the module graph as `spanned` sees it -/
def Step (w : World) (a b : Nat) : Prop :=
  ∃ g ∈ w.gates a, kind w.net g = .endpoint ∧ b = w.owner (chainEnd w none g)

/-- reachability in the module graph -/
inductive Reach (w : World) (r : Nat) : Nat → Prop
  | refl : Reach w r r
  | step {a b : Nat} : Reach w r a → Step w a b → Reach w r b

/-- invariant of the outer loop -/
structure SpanInv (w : World) (root : Nat) (t : T) (queue : List Nat) : Prop where
  first : (t.nodes ++ queue).head? = some root
  reach : ∀ x ∈ t.nodes ++ queue, Reach w root x
  len : t.edges.length = t.nodes.length
  nodup : (t.nodes ++ queue).Nodup
  pred : ∀ es ∈ t.edges, ∀ e ∈ es, Pred w (t.nodes ++ queue) e
  labels : ∀ i m, t.nodes[i]? = some m → labels (t.edgesAt i) = wantLabels w (w.gates m)

theorem spanLoop_inv (w : World) (root : Nat) : ∀ (fuel : Nat) (t : T) (queue : List Nat) (t' : T),
    SpanInv w root t queue → spanLoop w .front fuel t queue = some t' → SpanInv w root t' [] := by
  intro fuel
  induction fuel with
  | zero => intro t queue t' _ h; simp [spanLoop] at h
  | succ fuel ih =>
    intro t queue t' hinv h
    cases queue with
    | nil =>
      simp [spanLoop, popFrom] at h
      subst h; exact hinv
    | cons m q =>
      simp only [spanLoop, popFrom] at h
      have hsrc : (t.nodes ++ [m]).length - 1 + 1 = (t.nodes ++ [m]).length := by simp
      have hall : t.nodes ++ [m] ++ q = t.nodes ++ m :: q := by simp
      have hg := spanGates_inv w (t.nodes ++ [m]) ((t.nodes ++ [m]).length - 1) hsrc (w.gates m) q []
        (by rw [hall]; exact hinv.nodup) (by simp)
      generalize hres : spanGates w (t.nodes ++ [m]) ((t.nodes ++ [m]).length - 1) (w.gates m) q [] = res at h hg
      obtain ⟨q', es⟩ := res
      obtain ⟨⟨ext, he1, he2⟩, h2, h3, h4⟩ := hg
      simp only at he1 h2 h3 h4 h
      apply ih _ _ t' _ h
      refine ⟨?_, ?_, by simp [hinv.len], h2, ?_, ?_⟩
      · have := hinv.first
        rw [he1, ← List.append_assoc, hall]
        cases hn : t.nodes ++ m :: q with
        | nil => simp at hn
        | cons x xs => rw [hn] at this; simpa using this
      · intro x hx
        rw [he1, ← List.append_assoc, hall] at hx
        rcases List.mem_append.mp hx with hx | hx
        · exact hinv.reach x hx
        · obtain ⟨g, hg1, hg2, hg3⟩ := he2 x hx
          exact Reach.step (hinv.reach m (by simp)) ⟨g, hg1, hg2, hg3⟩
      · intro bundle hb e he
        rcases List.mem_append.mp hb with hb | hb
        · have := hinv.pred bundle hb e he
          rw [he1, ← List.append_assoc, hall]
          exact pred_append w _ _ e this
        · simp at hb; subst hb; exact h3 e he
      · intro i m' hi
        simp only [T.edgesAt]
        by_cases hlt : i < t.nodes.length
        · rw [List.getElem?_append_left hlt] at hi
          have := hinv.labels i m' hi
          simp only [T.edgesAt] at this
          rw [List.getD_eq_getElem?_getD, List.getElem?_append_left (by rw [hinv.len]; exact hlt)]
          rw [List.getD_eq_getElem?_getD] at this
          exact this
        · have hil : i = t.nodes.length := by
            by_cases hh : i = t.nodes.length
            · exact hh
            · rw [List.getElem?_eq_none (by simp; omega)] at hi; cases hi
          subst hil
          rw [List.getElem?_concat_length] at hi
          cases hi
          rw [List.getD_eq_getElem?_getD, ← hinv.len, List.getElem?_concat_length]
          simpa [labels] using h4

/-- the loop never runs out of fuel: every module enters the work-list at most once -/
theorem spanLoop_total (w : World) (root : Nat) (hown : ∀ g, w.owner g ∈ w.mods) :
    ∀ (fuel : Nat) (t : T) (queue : List Nat), SpanInv w root t queue →
    (∀ x ∈ t.nodes ++ queue, x ∈ w.mods) → w.mods.length + 1 ≤ fuel + t.nodes.length →
    ∃ t', spanLoop w .front fuel t queue = some t' := by
  intro fuel
  induction fuel with
  | zero =>
    intro t queue hinv hsub hf
    have h1 : (t.nodes ++ queue).length ≤ w.mods.length :=
      List.Nodup.length_le_of_subset hinv.nodup (fun x hx => hsub x hx)
    simp at h1 hf; omega
  | succ fuel ih =>
    intro t queue hinv hsub hf
    cases queue with
    | nil => exact ⟨t, by simp [spanLoop, popFrom]⟩
    | cons m q =>
      simp only [spanLoop, popFrom]
      have hsrc : (t.nodes ++ [m]).length - 1 + 1 = (t.nodes ++ [m]).length := by simp
      have hall : t.nodes ++ [m] ++ q = t.nodes ++ m :: q := by simp
      have hg := spanGates_inv w (t.nodes ++ [m]) ((t.nodes ++ [m]).length - 1) hsrc (w.gates m) q []
        (by rw [hall]; exact hinv.nodup) (by simp)
      generalize hres : spanGates w (t.nodes ++ [m]) ((t.nodes ++ [m]).length - 1) (w.gates m) q [] = res at hg
      obtain ⟨q', es⟩ := res
      obtain ⟨⟨ext, he1, he2⟩, h2, h3, h4⟩ := hg
      simp only at he1 h2 h3 h4
      simp only []
      apply ih
      · refine ⟨?_, ?_, by simp [hinv.len], h2, ?_, ?_⟩
        · have := hinv.first
          rw [he1, ← List.append_assoc, hall]
          cases hn : t.nodes ++ m :: q with
          | nil => simp at hn
          | cons x xs => rw [hn] at this; simpa using this
        · intro x hx
          rw [he1, ← List.append_assoc, hall] at hx
          rcases List.mem_append.mp hx with hx | hx
          · exact hinv.reach x hx
          · obtain ⟨g, hg1, hg2, hg3⟩ := he2 x hx
            exact Reach.step (hinv.reach m (by simp)) ⟨g, hg1, hg2, hg3⟩
        · intro bundle hb e he
          rcases List.mem_append.mp hb with hb | hb
          · have := hinv.pred bundle hb e he
            rw [he1, ← List.append_assoc, hall]
            exact pred_append w _ _ e this
          · simp at hb; subst hb; exact h3 e he
        · intro i m' hi
          simp only [T.edgesAt]
          by_cases hlt : i < t.nodes.length
          · rw [List.getElem?_append_left hlt] at hi
            have := hinv.labels i m' hi
            simp only [T.edgesAt] at this
            rw [List.getD_eq_getElem?_getD, List.getElem?_append_left (by rw [hinv.len]; exact hlt)]
            rw [List.getD_eq_getElem?_getD] at this
            exact this
          · have hil : i = t.nodes.length := by
              by_cases hh : i = t.nodes.length
              · exact hh
              · rw [List.getElem?_eq_none (by simp; omega)] at hi; cases hi
            subst hil
            rw [List.getElem?_concat_length] at hi
            cases hi
            rw [List.getD_eq_getElem?_getD, ← hinv.len, List.getElem?_concat_length]
            simpa [labels] using h4
      · intro x hx
        rw [he1, ← List.append_assoc, hall] at hx
        rcases List.mem_append.mp hx with hx | hx
        · exact hsub x hx
        · obtain ⟨g, _, _, hg3⟩ := he2 x hx
          rw [hg3]; exact hown _
      · simp; omega

/-- the invariant holds when `spanned` returns -/
theorem spanned_inv (w : World) (root : Nat) (t : T) (h : spanned w .front root = some t) :
    SpanInv w root t [] := by
  apply spanLoop_inv w root _ _ _ t _ h
  exact ⟨rfl, by intro x hx; simp at hx; subst hx; exact Reach.refl, rfl, by simp, by simp,
    by intro i m h; simp at h⟩


end Topo

/-
`Evo` holds for one poll of every script term.
-/
import Desverif.Proofs.TimerEvo
namespace Timer

@[simp] theorem ev_emit_env (c : Ctx) (ops : List Op) : (c.emit ops).env = c.env := rfl
@[simp] theorem ev_emit_nid (c : Ctx) (ops : List Op) : (c.emit ops).nextId = c.nextId := rfl
@[simp] theorem ev_emit_ops (c : Ctx) (ops : List Op) : (c.emit ops).ops = c.ops ++ ops := rfl
@[simp] theorem ev_obs_env (c : Ctx) (k : String) : (c.obs k).env = c.env := rfl
@[simp] theorem ev_obs_nid (c : Ctx) (k : String) : (c.obs k).nextId = c.nextId := rfl
@[simp] theorem ev_obs_ops (c : Ctx) (k : String) : (c.obs k).ops = c.ops := rfl
@[simp] theorem ev_fin_env (c : Ctx) (k : String) (a b : Nat) (o : Bool) : (c.fin k a b o).env = c.env := rfl
@[simp] theorem ev_fin_nid (c : Ctx) (k : String) (a b : Nat) (o : Bool) : (c.fin k a b o).nextId = c.nextId := rfl
@[simp] theorem ev_fin_ops (c : Ctx) (k : String) (a b : Nat) (o : Bool) : (c.fin k a b o).ops = c.ops := rfl

theorem bd_left {a b : Fut} {c : Ctx} (h : ∀ x, c.nextId ≤ x → (ids a ++ ids b).count x = 0 ∧ (envIds c.env).count x = 0) :
    Bd a c ∧ (∀ x, c.nextId ≤ x → (ids b).count x = 0) := by
  constructor
  · intro x hx
    have := h x hx
    simp only [List.count_append] at this
    exact ⟨by omega, this.2⟩
  · intro x hx
    have := (h x hx).1
    simp only [List.count_append] at this
    omega

theorem timeout_poll_id (ir : Bool) (s : Sleep) (tid now : Nat) : (Timeout.poll ir s tid now).1.id = s.id := by
  unfold Timeout.poll
  cases ir with
  | true => rfl
  | false => exact sleep_poll_id s tid now

theorem timeout_poll_sids (ir : Bool) (s : Sleep) (tid now : Nat) :
    ∀ o ∈ (Timeout.poll ir s tid now).2.1, opSid o = s.id := by
  unfold Timeout.poll
  cases ir with
  | true => intro o ho; cases ho
  | false => exact sleep_poll_sids s tid now

theorem timeoutStep_shape (s : Sleep) (r : Option Fut × Ctx) :
    (timeoutStep s r).2.env = r.2.env ∧ (timeoutStep s r).2.nextId = r.2.nextId ∧
    (∃ ops, (timeoutStep s r).2.ops = r.2.ops ++ ops ∧ ∀ o ∈ ops, opSid o = s.id ∨ opSid o ∈ idsO r.1) ∧
    (∀ x, (idsO (timeoutStep s r).1).count x ≤ (idsO r.1).count x + (if s.id = x then 1 else 0)) := by
  obtain ⟨re, c1⟩ := r
  cases re with
  | none =>
    simp only [timeoutStep, Timeout.poll, if_true]
    refine ⟨rfl, rfl, ⟨[] ++ s.drop, by simp, ?_⟩, ?_⟩
    · intro o ho
      exact Or.inl (sleep_drop_sids s o (by simpa using ho))
    · intro x; simp [idsO]
  | some e' =>
    have hid := timeout_poll_id false s c1.tid c1.now
    have hs := timeout_poll_sids false s c1.tid c1.now
    simp only [timeoutStep]
    rcases hp : Timeout.poll false s c1.tid c1.now with ⟨s', ops, rr⟩
    rw [hp] at hid hs
    simp only at hid hs ⊢
    cases rr with
    | some v =>
      simp only
      refine ⟨rfl, rfl, ⟨ops ++ dropFut e' ++ s'.drop, by simp [List.append_assoc], ?_⟩, ?_⟩
      · intro o ho
        rcases List.mem_append.mp ho with ho | ho
        · rcases List.mem_append.mp ho with ho | ho
          · exact Or.inl (hs o ho)
          · exact Or.inr (dropFut_sids e' o ho)
        · exact Or.inl (by rw [sleep_drop_sids _ o ho, hid])
      · intro x; simp [idsO]
    | none =>
      simp only
      refine ⟨rfl, rfl, ⟨ops, rfl, fun o ho => Or.inl (hs o ho)⟩, ?_⟩
      intro x
      simp only [idsO, ids_timeoutRun, hid, List.count_cons, beq_iff_eq]
      omega

theorem evo_timeoutRun (s : Sleep) (e : Fut) (c : Ctx) (r : Option Fut × Ctx) (hb : Bd (.timeoutRun s e) c)
    (Ee : Evo e c r.1 r.2) : Evo (.timeoutRun s e) c (timeoutStep s r).1 (timeoutStep s r).2 := by
  obtain ⟨henv, hnid, ⟨ops, hops, hsid⟩, hcnt⟩ := timeoutStep_shape s r
  have hs : s.id < c.nextId := by
    apply Nat.lt_of_not_le
    intro hle
    have := (hb s.id hle).1
    simp at this
  obtain ⟨δe, hδe, hse⟩ := Ee.frame
  refine ⟨by rw [hnid]; exact Ee.nid, ?_, ?_, ?_, ⟨δe ++ ops, by rw [hops, hδe, List.append_assoc], ?_⟩⟩
  · intro x hx
    have h1 := Ee.old x hx
    have h2 := hcnt x
    rw [henv]
    simp only [ids_timeoutRun, List.count_cons, beq_iff_eq]
    exact ⟨by omega, h1.2⟩
  · intro x h1 h2
    rw [hnid] at h2
    have h3 := Ee.mid x h1 h2
    have h4 := hcnt x
    rw [if_neg (by omega)] at h4
    rw [henv]; omega
  · intro x hx
    rw [hnid] at hx
    have h3 := Ee.hi x hx
    have h4 := hcnt x
    have := Ee.nid
    rw [if_neg (by omega)] at h4
    rw [henv]; exact ⟨by omega, h3.2⟩
  · intro o ho
    rw [hnid]
    rcases List.mem_append.mp ho with ho | ho
    · rcases hse o ho with h | h | h
      · exact Or.inl (by simp [h])
      · exact Or.inr (Or.inl h)
      · exact Or.inr (Or.inr h)
    · rcases hsid o ho with h | h
      · exact Or.inl (by simp [h])
      · rcases Ee.ids_back h with h | h
        · exact Or.inl (by simp [h])
        · exact Or.inr (Or.inr h)

theorem evo_timeout (d : Nat) (e : Fut) (c : Ctx) (dl : Nat) (r : Option Fut × Ctx) (hb : Bd (.timeout d e) c)
    (Ee : Evo e { c with nextId := c.nextId + 1 } r.1 r.2) :
    Evo (.timeout d e) c (timeoutStep { id := c.nextId, deadline := dl } r).1
      (timeoutStep { id := c.nextId, deadline := dl } r).2 := by
  obtain ⟨henv, hnid, ⟨ops, hops, hsid⟩, hcnt⟩ := timeoutStep_shape { id := c.nextId, deadline := dl } r
  obtain ⟨δe, hδe, hse⟩ := Ee.frame
  have hn := Ee.nid
  simp only at hn hδe hse hcnt hsid
  refine ⟨by rw [hnid]; omega, ?_, ?_, ?_, ⟨δe ++ ops, by rw [hops, hδe, List.append_assoc], ?_⟩⟩
  · intro x hx
    have h1 := Ee.old x (by simp only; omega)
    have h2 := hcnt x
    rw [if_neg (by omega)] at h2
    rw [henv]
    simp only [ids_timeout] at h1 ⊢
    exact ⟨by omega, h1.2⟩
  · intro x h1 h2
    rw [hnid] at h2
    rw [henv]
    have h4 := hcnt x
    by_cases hx : x = c.nextId
    · have h3 := Ee.old x (by simp only; omega)
      have h5 := hb x h1
      simp only [ids_timeout] at h3 h5
      rw [if_pos hx.symm] at h4
      omega
    · have h3 := Ee.mid x (by simp only; omega) h2
      rw [if_neg (by omega)] at h4
      omega
  · intro x hx
    rw [hnid] at hx
    have h3 := Ee.hi x hx
    have h4 := hcnt x
    rw [if_neg (by omega)] at h4
    rw [henv]; exact ⟨by omega, h3.2⟩
  · intro o ho
    rw [hnid]
    rcases List.mem_append.mp ho with ho | ho
    · rcases hse o ho with h | h | h
      · exact Or.inl (by simpa using h)
      · exact Or.inr (Or.inl h)
      · exact Or.inr (Or.inr ⟨by omega, h.2⟩)
    · rcases hsid o ho with h | h
      · exact Or.inr (Or.inr ⟨by omega, by omega⟩)
      · rcases Ee.ids_back h with h | h
        · exact Or.inl (by simpa using h)
        · simp only at h; exact Or.inr (Or.inr ⟨by omega, h.2⟩)

theorem bd_of_nil {f : Fut} {c : Ctx} (hf : ids f = []) (h : ∀ x, c.nextId ≤ x → (envIds c.env).count x = 0) :
    Bd f c := fun x hx => ⟨by rw [hf]; rfl, h x hx⟩

/-- **ids and emitted operations of one poll of any script term** -/
theorem evo_poll (f : Fut) : ∀ c : Ctx, Bd f c → Evo f c (poll f c).1 (poll f c).2 := by
  induction f with
  | nop => intro c hb; exact evo_same _ rfl c c none rfl rfl rfl rfl hb
  | sleep d => intro c hb; exact evo_fresh _ rfl c _ "s" hb
  | until_ t => intro c hb; exact evo_fresh _ rfl c _ "s" hb
  | sleeping s => intro c hb; exact evo_sleeping s c "s" hb
  | timeout d e ih =>
    intro c hb
    simp only [poll]
    refine evo_timeout d e c _ _ hb (ih _ ?_)
    intro x hx
    have := hb x (by simp only at hx; omega)
    simpa using this
  | timeoutRun s e ih =>
    intro c hb
    simp only [poll]
    refine evo_timeoutRun s e c _ hb (ih c ?_)
    intro x hx
    have := hb x hx
    simp only [ids_timeoutRun, List.count_cons, beq_iff_eq] at this
    exact ⟨by omega, this.2⟩
  | select a b iha ihb =>
    intro c hb
    simp only [ids_select, Bd] at hb
    obtain ⟨hba, hbb⟩ := bd_left hb
    have Ea := iha c hba
    simp only [poll]
    rcases hpa : poll a c with ⟨ra, c1⟩
    rw [hpa] at Ea
    simp only at Ea
    obtain ⟨δa, hδa, hsa⟩ := Ea.frame
    cases ra with
    | none =>
      simp only
      refine ⟨Ea.nid, ?_, ?_, ?_, ⟨δa ++ dropFut b, by simp [hδa, List.append_assoc], ?_⟩⟩
      · intro x hx
        have := Ea.old x hx
        simp only [idsO, List.count_nil, ev_obs_env, ev_emit_env] at this ⊢
        exact ⟨Nat.zero_le _, this.2⟩
      · intro x h1 h2
        have := Ea.mid x h1 h2
        simpa [idsO] using this
      · intro x hx
        have := Ea.hi x hx
        simpa [idsO] using this
      · intro o ho
        rcases List.mem_append.mp ho with ho | ho
        · rcases hsa o ho with h | h | h
          · exact Or.inl (by simp [h])
          · exact Or.inr (Or.inl h)
          · exact Or.inr (Or.inr h)
        · exact Or.inl (by simp [dropFut_sids b o ho])
    | some a' =>
      simp only
      have Eb := ihb c1 (Ea.bd_next hbb)
      rcases hpb : poll b c1 with ⟨rb, c2⟩
      rw [hpb] at Eb
      simp only at Eb
      obtain ⟨δb, hδb, hsb⟩ := Eb.frame
      have hn1 := Ea.nid
      have hn2 := Eb.nid
      have hframe : ∀ o ∈ δa ++ δb, opSid o ∈ ids (.select a b) ∨ opSid o ∈ envIds c.env ∨
          (c.nextId ≤ opSid o ∧ opSid o < c2.nextId) := by
        intro o ho
        rcases List.mem_append.mp ho with ho | ho
        · rcases hsa o ho with h | h | h
          · exact Or.inl (by simp [h])
          · exact Or.inr (Or.inl h)
          · exact Or.inr (Or.inr ⟨h.1, by omega⟩)
        · rcases hsb o ho with h | h | h
          · exact Or.inl (by simp [h])
          · rcases Ea.env_back h with h | h
            · exact Or.inr (Or.inl h)
            · exact Or.inr (Or.inr ⟨h.1, by omega⟩)
          · exact Or.inr (Or.inr ⟨by omega, h.2⟩)
      cases rb with
      | none =>
        simp only
        refine ⟨by simp only [ev_obs_nid, ev_emit_nid]; omega, ?_, ?_, ?_,
          ⟨δa ++ δb ++ dropFut a', by simp [hδb, hδa, List.append_assoc], ?_⟩⟩
        · intro x hx
          have h1 := Ea.old x hx
          have h2 := Eb.old x (by omega)
          simp only [idsO, List.count_nil, ev_obs_env, ev_emit_env] at h1 h2 ⊢
          exact ⟨Nat.zero_le _, by omega⟩
        · intro x h1 h2
          simp only [idsO, List.count_nil, ev_obs_env, ev_emit_env, ev_obs_nid, ev_emit_nid] at h2 ⊢
          by_cases hx : x < c1.nextId
          · have := Ea.mid x h1 hx
            have := Eb.old x hx
            simp only [idsO] at *
            omega
          · have := Eb.mid x (by omega) h2
            simp only [idsO, List.count_nil] at this
            omega
        · intro x hx
          simp only [idsO, List.count_nil, ev_obs_env, ev_emit_env, ev_obs_nid, ev_emit_nid] at hx ⊢
          exact ⟨trivial, (Eb.hi x hx).2⟩
        · intro o ho
          simp only [ev_obs_nid, ev_emit_nid]
          rcases List.mem_append.mp ho with ho | ho
          · exact hframe o ho
          · rcases Ea.ids_back (r := some a') (dropFut_sids a' o ho) with h | h
            · exact Or.inl (by simp [h])
            · exact Or.inr (Or.inr ⟨h.1, by omega⟩)
      | some b' =>
        simp only
        refine ⟨by omega, ?_, ?_, ?_, ⟨δa ++ δb, by simp [hδb, hδa, List.append_assoc], hframe⟩⟩
        · intro x hx
          have h1 := Ea.old x hx
          have h2 := Eb.old x (by omega)
          simp only [idsO, ids_select, List.count_append] at h1 h2 ⊢
          exact ⟨by omega, by omega⟩
        · intro x h1 h2
          simp only [idsO, ids_select, List.count_append]
          by_cases hx : x < c1.nextId
          · have := Ea.mid x h1 hx
            have := Eb.old x hx
            have := hbb x h1
            simp only [idsO] at *
            omega
          · have := Ea.hi x (by omega)
            have := Eb.mid x (by omega) h2
            simp only [idsO] at *
            omega
        · intro x hx
          have := Ea.hi x (by omega)
          have := Eb.hi x hx
          simp only [idsO, ids_select, List.count_append] at *
          exact ⟨by omega, by omega⟩
  | seq a b iha ihb =>
    intro c hb
    simp only [ids_seq, Bd] at hb
    obtain ⟨hba, hbb⟩ := bd_left hb
    have Ea := iha c hba
    simp only [poll]
    rcases hpa : poll a c with ⟨ra, c1⟩
    rw [hpa] at Ea
    simp only at Ea
    obtain ⟨δa, hδa, hsa⟩ := Ea.frame
    cases ra with
    | none =>
      simp only
      have Eb := ihb c1 (Ea.bd_next hbb)
      obtain ⟨δb, hδb, hsb⟩ := Eb.frame
      have hn1 := Ea.nid
      have hn2 := Eb.nid
      refine ⟨by omega, ?_, ?_, ?_, ⟨δa ++ δb, by rw [hδb, hδa, List.append_assoc], ?_⟩⟩
      · intro x hx
        have h1 := Ea.old x hx
        have h2 := Eb.old x (by omega)
        simp only [idsO, ids_seq, List.count_append, List.count_nil] at h1 h2 ⊢
        exact ⟨by omega, by omega⟩
      · intro x h1 h2
        by_cases hx : x < c1.nextId
        · have := Ea.mid x h1 hx
          have := Eb.old x hx
          have := hbb x h1
          simp only [idsO, List.count_nil] at *
          omega
        · exact Eb.mid x (by omega) h2
      · intro x hx; exact Eb.hi x hx
      · intro o ho
        rcases List.mem_append.mp ho with ho | ho
        · rcases hsa o ho with h | h | h
          · exact Or.inl (by simp [h])
          · exact Or.inr (Or.inl h)
          · exact Or.inr (Or.inr ⟨h.1, by omega⟩)
        · rcases hsb o ho with h | h | h
          · exact Or.inl (by simp [h])
          · rcases Ea.env_back h with h | h
            · exact Or.inr (Or.inl h)
            · exact Or.inr (Or.inr ⟨h.1, by omega⟩)
          · exact Or.inr (Or.inr ⟨by omega, h.2⟩)
    | some a' =>
      simp only
      refine ⟨Ea.nid, ?_, ?_, ?_, ⟨δa, hδa, ?_⟩⟩
      · intro x hx
        have h1 := Ea.old x hx
        simp only [idsO, ids_seq, List.count_append] at h1 ⊢
        exact ⟨by omega, h1.2⟩
      · intro x h1 h2
        have := Ea.mid x h1 h2
        have := hbb x h1
        simp only [idsO, ids_seq, List.count_append] at *
        omega
      · intro x hx
        have := Ea.hi x hx
        have := hbb x (by have := Ea.nid; omega)
        simp only [idsO, ids_seq, List.count_append] at *
        exact ⟨by omega, by omega⟩
      · intro o ho
        rcases hsa o ho with h | h | h
        · exact Or.inl (by simp [h])
        · exact Or.inr (Or.inl h)
        · exact Or.inr (Or.inr h)
  | new x d => intro c hb; exact evo_bind _ rfl c x _ rfl hb
  | newu x t => intro c hb; exact evo_bind _ rfl c x _ rfl hb
  | pollOnce x =>
    intro c hb
    simp only [poll]
    split
    · rename_i s hget
      split
      · exact evo_named _ rfl c _ none rfl x _ (.sl (s.poll c.tid c.now).1) hget (sleep_poll_id _ _ _) rfl rfl _ rfl
          (sleep_poll_sids s _ _) hb
      · exact evo_named _ rfl c _ none rfl x _ (.sl (s.poll c.tid c.now).1) hget (sleep_poll_id _ _ _) rfl rfl _ rfl
          (sleep_poll_sids s _ _) hb
    · exact evo_same _ rfl c _ none rfl rfl rfl rfl hb
  | reset x d =>
    intro c hb
    simp only [poll]
    split
    · rename_i s hget
      exact evo_named _ rfl c _ none rfl x _ (.sl (s.reset (c.now + d)).1) hget (sleep_reset_id _ _) rfl rfl _ rfl
        (sleep_reset_sids s _) hb
    · exact evo_same _ rfl c _ none rfl rfl rfl rfl hb
  | resetu x t =>
    intro c hb
    simp only [poll]
    split
    · rename_i s hget
      exact evo_named _ rfl c _ none rfl x _ (.sl (s.reset t).1) hget (sleep_reset_id _ _) rfl rfl _ rfl
        (sleep_reset_sids s _) hb
    · exact evo_same _ rfl c _ none rfl rfl rfl rfl hb
  | drop x =>
    intro c hb
    simp only [poll]
    split
    · rename_i v hget
      apply evo_leaf (.drop x) rfl c (({ c with env := envDel c.env x } : Ctx).emit v.dropOps) none rfl (Nat.le_refl _)
      · intro y
        have := envIds_count_del_le c.env x y
        simp only [ev_emit_env]; omega
      · exact ⟨v.dropOps, rfl, fun o ho => Or.inl (by rw [named_dropOps_sids v o ho]; exact envGet_mem_ids hget)⟩
      · exact hb
    · exact evo_same _ rfl c _ none rfl rfl rfl rfl hb
  | await x =>
    intro c hb
    simp only [poll]
    split
    · rename_i s hget
      split
      · exact evo_named _ rfl c _ none rfl x _ (.sl (s.poll c.tid c.now).1) hget (sleep_poll_id _ _ _) rfl rfl _ rfl
          (sleep_poll_sids s _ _) hb
      · exact evo_named _ rfl c _ (some (.await x)) rfl x _ (.sl (s.poll c.tid c.now).1) hget (sleep_poll_id _ _ _)
          rfl rfl _ rfl (sleep_poll_sids s _ _) hb
    · exact evo_same _ rfl c _ none rfl rfl rfl rfl hb
  | inew x p m d => intro c hb; exact evo_bind _ rfl c x _ rfl hb
  | tick x =>
    intro c hb
    simp only [poll]
    split
    · rename_i i hget
      split
      · exact evo_named _ rfl c _ none rfl x _ (.iv (i.pollTick c.tid c.now).1) hget (pollTick_id _ _ _) rfl rfl _ rfl
          (pollTick_sids i _ _) hb
      · exact evo_named _ rfl c _ (some (.tick x)) rfl x _ (.iv (i.pollTick c.tid c.now).1) hget (pollTick_id _ _ _)
          rfl rfl _ rfl (pollTick_sids i _ _) hb
    · exact evo_same _ rfl c _ none rfl rfl rfl rfl hb
  | ireset x =>
    intro c hb
    simp only [poll]
    split
    · rename_i i hget
      exact evo_named _ rfl c _ none rfl x _ (.iv (i.reset c.now).1) hget (sleep_reset_id _ _) rfl rfl _ rfl
        (sleep_reset_sids _ _) hb
    · exact evo_same _ rfl c _ none rfl rfl rfl rfl hb
  | restart d =>
    intro c hb
    simp only [poll]
    split
    · exact evo_same _ rfl c _ none rfl rfl rfl rfl hb
    · exact evo_same _ rfl c _ none rfl rfl rfl rfl hb
  | halt => intro c hb; exact evo_same _ rfl c _ none rfl rfl rfl rfl hb

end Timer

/-
Budget lemmas for `Exec.runQ` (independent of what a poll does) and the effect of `Exec.flush`.
-/
import Desverif.Model.Exec
namespace Exec

/-- `n` is exactly the number of polls queue `q` needs from state `s` until it is empty -/
def Need (P : Params) (q : Kind) (s : St) (n : Nat) : Prop :=
  queue q (runQ P q n s) = [] ∧ ∀ m, m < n → queue q (runQ P q m s) ≠ []

theorem runQ_of_empty (P : Params) (q : Kind) (b : Nat) (s : St) (h : queue q s = []) :
    runQ P q b s = s := by
  cases b with
  | zero => rfl
  | succ b => simp [runQ, h]

theorem runQ_cons (P : Params) (q : Kind) (b : Nat) (s : St) (e : Entry) (r : List Entry)
    (h : queue q s = e :: r) : runQ P q (b + 1) s = runQ P q b (step P q s) := by
  simp [runQ, h]

theorem polls_cons (P : Params) (q : Kind) (b : Nat) (s : St) (e : Entry) (r : List Entry)
    (h : queue q s = e :: r) : polls P q (b + 1) s = polls P q b (step P q s) + 1 := by
  simp [polls, h]

/-- once the queue is empty within `n` polls, a larger budget changes nothing -/
theorem drains_mono (P : Params) (q : Kind) :
    ∀ (n : Nat) (s : St) (m : Nat), queue q (runQ P q n s) = [] → n ≤ m → runQ P q m s = runQ P q n s := by
  intro n
  induction n with
  | zero =>
    intro s m h _
    have h' : queue q s = [] := h
    rw [runQ_of_empty P q m s h']; rfl
  | succ n ih =>
    intro s m h hm
    cases hq : queue q s with
    | nil => rw [runQ_of_empty P q m s hq, runQ_of_empty P q (n + 1) s hq]
    | cons e r =>
      obtain ⟨m', rfl⟩ : ∃ m', m = m' + 1 := ⟨m - 1, by omega⟩
      rw [runQ_cons P q m' s e r hq, runQ_cons P q n s e r hq]
      rw [runQ_cons P q n s e r hq] at h
      exact ih (step P q s) m' h (by omega)

theorem need_iff (P : Params) (q : Kind) (s : St) (n b : Nat) (hn : Need P q s n) :
    queue q (runQ P q b s) = [] ↔ n ≤ b := by
  constructor
  · intro h
    refine Nat.le_of_not_lt fun hlt => hn.2 b hlt h
  · intro h
    rw [drains_mono P q n s b hn.1 h]; exact hn.1

/-- if the queue drains within the budget, the number of polls made is the number needed -/
theorem need_polls (P : Params) (q : Kind) :
    ∀ (b : Nat) (s : St), queue q (runQ P q b s) = [] → Need P q s (polls P q b s) := by
  intro b
  induction b with
  | zero =>
    intro s h
    exact ⟨h, fun m hm => by simp [polls] at hm⟩
  | succ b ih =>
    intro s h
    cases hq : queue q s with
    | nil =>
      have : polls P q (b + 1) s = 0 := by simp [polls, hq]
      rw [this]
      exact ⟨by simpa [runQ] using hq, fun m hm => by omega⟩
    | cons e r =>
      rw [polls_cons P q b s e r hq]
      rw [runQ_cons P q b s e r hq] at h
      have ih' := ih (step P q s) h
      refine ⟨?_, ?_⟩
      · rw [runQ_cons P q _ s e r hq]; exact ih'.1
      · intro m hm
        cases m with
        | zero => simp [runQ, hq]
        | succ m =>
          rw [runQ_cons P q m s e r hq]
          exact ih'.2 m (by omega)

theorem need_unique (P : Params) (q : Kind) (s : St) (n m : Nat) (hn : Need P q s n) (hm : Need P q s m) :
    n = m := by
  have h1 := (need_iff P q s n m hn).1 hm.1
  have h2 := (need_iff P q s m n hm).1 hn.1
  omega

/-! ### flush -/

theorem foldl_push_dq (l : List Entry) (f : Entry → Entry) :
    ∀ s : St, (l.foldl (fun s e => pushEntry s (f e)) s).dq = s.dq := by
  induction l with
  | nil => intro s; rfl
  | cons a l ih =>
    intro s
    simp only [List.foldl_cons]
    rw [ih]
    unfold pushEntry
    cases (f a).kind <;> rfl

theorem foldl_push_len (l : List Entry) (f : Entry → Entry) :
    ∀ s : St, (l.foldl (fun s e => pushEntry s (f e)) s).rq.length
        + (l.foldl (fun s e => pushEntry s (f e)) s).lq.length = s.rq.length + s.lq.length + l.length := by
  induction l with
  | nil => intro s; simp
  | cons a l ih =>
    intro s
    simp only [List.foldl_cons, List.length_cons]
    rw [ih]
    unfold pushEntry
    cases (f a).kind <;> simp <;> omega

theorem flush_dq (s : St) : (flush s).dq = [] := by
  unfold flush
  rw [foldl_push_dq]

theorem flush_len (s : St) :
    (flush s).rq.length + (flush s).lq.length = s.rq.length + s.lq.length + s.dq.length := by
  unfold flush
  rw [foldl_push_len]
  simp

theorem quiet_flush_iff (s : St) : Quiet (flush s) ↔ Quiet s := by
  have h := flush_len s
  have hd := flush_dq s
  unfold Quiet
  constructor
  · rintro ⟨h1, h2, _⟩
    rw [h1, h2] at h
    simp only [List.length_nil] at h
    refine ⟨List.eq_nil_of_length_eq_zero (by omega), List.eq_nil_of_length_eq_zero (by omega),
      List.eq_nil_of_length_eq_zero (by omega)⟩
  · rintro ⟨h1, h2, h3⟩
    rw [h1, h2, h3] at h
    simp only [List.length_nil] at h
    exact ⟨List.eq_nil_of_length_eq_zero (by omega), List.eq_nil_of_length_eq_zero (by omega), hd⟩

end Exec

/-
Budget lemmas for `Exec.runQ` (independent of what a poll does), what `Exec.pop` does, and the effect of
`Exec.flush`.
-/
import Desverif.Model.Exec
namespace Exec

/-- `n` is exactly the number of polls queue `q` needs from state `s` until `next_task()` finds nothing -/
def Need (P : Params) (q : Kind) (s : St) (n : Nat) : Prop :=
  pop P q (runQ P q n s) = none ∧ ∀ m, m < n → pop P q (runQ P q m s) ≠ none

theorem runQ_of_empty (P : Params) (q : Kind) (b : Nat) (s : St) (h : pop P q s = none) :
    runQ P q b s = s := by
  cases b with
  | zero => rfl
  | succ b => simp [runQ, h]

theorem runQ_cons (P : Params) (q : Kind) (b : Nat) (s : St) (x : Entry × St)
    (h : pop P q s = some x) : runQ P q (b + 1) s = runQ P q b (step P q s) := by
  simp [runQ, h]

theorem polls_cons (P : Params) (q : Kind) (b : Nat) (s : St) (x : Entry × St)
    (h : pop P q s = some x) : polls P q (b + 1) s = polls P q b (step P q s) + 1 := by
  simp [polls, h]

theorem polls_of_empty (P : Params) (q : Kind) (b : Nat) (s : St) (h : pop P q s = none) :
    polls P q b s = 0 := by
  cases b with
  | zero => rfl
  | succ b => simp [polls, h]

theorem runQn_eq (P : Params) (q : Kind) :
    ∀ (b : Nat) (s : St), runQn P q b s = (runQ P q b s, polls P q b s) := by
  intro b
  induction b with
  | zero => intro s; rfl
  | succ b ih =>
    intro s
    cases h : pop P q s with
    | none => simp [runQn, runQ, polls, h]
    | some x => simp [runQn, runQ, polls, h, ih]

theorem polls_le (P : Params) (q : Kind) : ∀ (b : Nat) (s : St), polls P q b s ≤ b := by
  intro b
  induction b with
  | zero => intro s; simp [polls]
  | succ b ih =>
    intro s
    cases h : pop P q s with
    | none => simp [polls, h]
    | some x => rw [polls_cons P q b s x h]; have := ih (step P q s); omega

/-- a loop that did not use its whole budget ended because `next_task()` found nothing -/
theorem idle_of_polls_lt (P : Params) (q : Kind) :
    ∀ (b : Nat) (s : St), polls P q b s < b → pop P q (runQ P q b s) = none := by
  intro b
  induction b with
  | zero => intro s h; simp at h
  | succ b ih =>
    intro s h
    cases hq : pop P q s with
    | none => rw [runQ_of_empty P q _ s hq]; exact hq
    | some x =>
      rw [runQ_cons P q b s x hq]
      rw [polls_cons P q b s x hq] at h
      exact ih _ (by omega)

/-- once `next_task()` finds nothing within `n` polls, a larger budget changes nothing -/
theorem drains_mono (P : Params) (q : Kind) :
    ∀ (n : Nat) (s : St) (m : Nat), pop P q (runQ P q n s) = none → n ≤ m → runQ P q m s = runQ P q n s := by
  intro n
  induction n with
  | zero =>
    intro s m h _
    have h' : pop P q s = none := h
    rw [runQ_of_empty P q m s h']; rfl
  | succ n ih =>
    intro s m h hm
    cases hq : pop P q s with
    | none => rw [runQ_of_empty P q m s hq, runQ_of_empty P q (n + 1) s hq]
    | some x =>
      obtain ⟨m', rfl⟩ : ∃ m', m = m' + 1 := ⟨m - 1, by omega⟩
      rw [runQ_cons P q m' s x hq, runQ_cons P q n s x hq]
      rw [runQ_cons P q n s x hq] at h
      exact ih (step P q s) m' h (by omega)

theorem need_iff (P : Params) (q : Kind) (s : St) (n b : Nat) (hn : Need P q s n) :
    pop P q (runQ P q b s) = none ↔ n ≤ b := by
  constructor
  · intro h
    refine Nat.le_of_not_lt fun hlt => hn.2 b hlt h
  · intro h
    rw [drains_mono P q n s b hn.1 h]; exact hn.1

/-- if the queue drains within the budget, the number of polls made is the number needed -/
theorem need_polls (P : Params) (q : Kind) :
    ∀ (b : Nat) (s : St), pop P q (runQ P q b s) = none → Need P q s (polls P q b s) := by
  intro b
  induction b with
  | zero =>
    intro s h
    exact ⟨h, fun m hm => by simp [polls] at hm⟩
  | succ b ih =>
    intro s h
    cases hq : pop P q s with
    | none =>
      rw [polls_of_empty P q _ s hq]
      exact ⟨by simpa [runQ] using hq, fun m hm => by omega⟩
    | some x =>
      rw [polls_cons P q b s x hq]
      rw [runQ_cons P q b s x hq] at h
      have ih' := ih (step P q s) h
      refine ⟨?_, ?_⟩
      · rw [runQ_cons P q _ s x hq]; exact ih'.1
      · intro m hm
        cases m with
        | zero => simp [runQ, hq]
        | succ m =>
          rw [runQ_cons P q m s x hq]
          exact ih'.2 m (by omega)

theorem need_unique (P : Params) (q : Kind) (s : St) (n m : Nat) (hn : Need P q s n) (hm : Need P q s m) :
    n = m := by
  have h1 := (need_iff P q s n m hn).1 hm.1
  have h2 := (need_iff P q s m n hm).1 hn.1
  omega

/-- the ghost counter is the only thing `noteSilent` touches -/
theorem noteSilent_eq (b r : St) : noteSilent b r = r ∨ noteSilent b r = { r with silent := r.silent + 1 } := by
  unfold noteSilent; split
  · exact Or.inr rfl
  · exact Or.inl rfl

/-! ### what `pop` does -/

theorem pop_none_loc (P : Params) (s : St) : pop P .loc s = none ↔ s.lq = [] := by
  unfold pop
  cases s.lq <;> simp

theorem pop_none_rt (P : Params) (s : St) : pop P .rt s = none ↔ s.rq = [] ∧ s.iq = [] := by
  unfold pop
  cases s.rq <;> cases s.iq <;> simp <;> split <;> simp

/-- a successful `pop` removes the head `e` of one of the three queues, ticks (runtime only) and changes nothing
else -/
theorem pop_some (P : Params) (q : Kind) (s s' : St) (e : Entry) (h : pop P q s = some (e, s')) :
    (∃ r, s.rq = e :: r ∧ s' = { s with rq := r, tick := s.tick + 1 }) ∨
    (∃ r, s.iq = e :: r ∧ s' = { s with iq := r, tick := s.tick + 1 }) ∨
    (∃ r, s.lq = e :: r ∧ s' = { s with lq := r }) := by
  unfold pop at h
  cases q with
  | loc =>
    cases hl : s.lq with
    | nil => simp [hl] at h
    | cons a r =>
      simp [hl] at h
      exact Or.inr (Or.inr ⟨r, by rw [h.1], h.2.symm⟩)
  | rt =>
    simp only at h
    cases hr : s.rq with
    | nil =>
      cases hi : s.iq with
      | nil => simp [hr, hi] at h
      | cons a r =>
        simp [hr, hi] at h
        exact Or.inr (Or.inl ⟨r, by rw [h.1], h.2.symm⟩)
    | cons a r =>
      cases hi : s.iq with
      | nil =>
        simp [hr, hi] at h
        exact Or.inl ⟨r, by rw [h.1], h.2.symm⟩
      | cons a' r' =>
        simp [hr, hi] at h
        split at h
        · simp only [Option.some.injEq, Prod.mk.injEq] at h
          exact Or.inr (Or.inl ⟨r', by rw [h.1], by rw [← h.2, ← hr]⟩)
        · simp only [Option.some.injEq, Prod.mk.injEq] at h
          exact Or.inl ⟨r, by rw [h.1], by rw [← h.2, ← hi]⟩

/-! ### flush -/

theorem foldl_push_dq (l : List Entry) (f : Entry → Entry) :
    ∀ s : St, (l.foldl (fun s e => pushEntry s (f e)) s).dq = s.dq := by
  induction l with
  | nil => intro s; rfl
  | cons a l ih =>
    intro s
    simp only [List.foldl_cons]
    rw [ih]
    unfold pushEntry
    cases (f a).kind <;> simp only <;> split <;> rfl

theorem qlen_pushEntry (s : St) (e : Entry) :
    (pushEntry s e).rq.length + (pushEntry s e).iq.length + (pushEntry s e).lq.length
      = s.rq.length + s.iq.length + s.lq.length + 1 := by
  unfold pushEntry
  cases e.kind <;> simp only <;> split <;> simp <;> omega

theorem foldl_push_len (l : List Entry) (f : Entry → Entry) :
    ∀ s : St, (l.foldl (fun s e => pushEntry s (f e)) s).rq.length
        + (l.foldl (fun s e => pushEntry s (f e)) s).iq.length
        + (l.foldl (fun s e => pushEntry s (f e)) s).lq.length
        = s.rq.length + s.iq.length + s.lq.length + l.length := by
  induction l with
  | nil => intro s; simp
  | cons a l ih =>
    intro s
    simp only [List.foldl_cons, List.length_cons]
    rw [ih, qlen_pushEntry]
    omega

theorem flush_dq (s : St) : (flush s).dq = [] := by
  unfold flush
  rw [foldl_push_dq]

theorem flush_len (s : St) :
    (flush s).rq.length + (flush s).iq.length + (flush s).lq.length
      = s.rq.length + s.iq.length + s.lq.length + s.dq.length := by
  unfold flush
  rw [foldl_push_len]
  simp

theorem quiet_flush_iff (s : St) : Quiet (flush s) ↔ Quiet s := by
  have h := flush_len s
  have hd := flush_dq s
  unfold Quiet
  constructor
  · rintro ⟨h1, h2, h3, _⟩
    rw [h1, h2, h3] at h
    simp only [List.length_nil] at h
    refine ⟨List.eq_nil_of_length_eq_zero (by omega), List.eq_nil_of_length_eq_zero (by omega),
      List.eq_nil_of_length_eq_zero (by omega), List.eq_nil_of_length_eq_zero (by omega)⟩
  · rintro ⟨h1, h2, h3, h4⟩
    rw [h1, h2, h3, h4] at h
    simp only [List.length_nil] at h
    exact ⟨List.eq_nil_of_length_eq_zero (by omega), List.eq_nil_of_length_eq_zero (by omega),
      List.eq_nil_of_length_eq_zero (by omega), hd⟩

end Exec

/-
Scripted allocator runs: the invariant holds in every reachable state; termination of
`find_region`.
-/
import Desverif.Proofs.AllocStep
namespace Alloc

structure RInv (orc : Nat → Nat) (P : Nat) (rs : RState) : Prop where
  inv : Inv orc P rs.st rs.live
  keys : ∀ e ∈ rs.live, e.key < rs.next

theorem start_inv {orc P} (ho : OracleOk orc P) (hp : PageOk P) :
    ∃ rs, start orc P = some rs ∧ RInv orc P rs ∧ rs.st.free = [⟨orc 0, P⟩] ∧ rs.live = [] := by
  have h0 : Inv orc P { free := [], pages := [], pageSize := P, allocated := 0 } [] :=
    ⟨rfl, by simp, by simp, by simp, by simp, by simp⟩
  obtain ⟨s', hs', hinv, hfree, _, _⟩ := addPage_inv ho hp h0
  refine ⟨{ st := s', live := [], next := 0 }, ?_, ⟨hinv, by simp⟩, by simpa using hfree, rfl⟩
  simp [start, init, hs']

/-- unfolding of one `alloc` step -/
theorem step_alloc_cases (orc : Nat → Nat) (rs : RState) (lsize k : Nat) :
    (∃ e, allocate orc rs.st lsize (2 ^ k) = .error e ∧
        step orc rs (.alloc lsize k) = (rs, errOut e)) ∨
    (∃ s', allocate orc rs.st lsize (2 ^ k) = .ok (s', none) ∧
        step orc rs (.alloc lsize k) = ({ rs with st := s' }, .failed)) ∨
    (∃ s' a, allocate orc rs.st lsize (2 ^ k) = .ok (s', some a) ∧
        step orc rs (.alloc lsize k) =
          ({ st := s', live := ⟨rs.next, a, lsize, 2 ^ k⟩ :: rs.live, next := rs.next + 1 },
           .allocated a)) := by
  cases h : allocate orc rs.st lsize (2 ^ k) with
  | error e => left; exact ⟨e, rfl, by simp [step, h]⟩
  | ok t =>
    obtain ⟨s', o⟩ := t
    cases o with
    | none => right; left; exact ⟨s', rfl, by simp [step, h]⟩
    | some a => right; right; exact ⟨s', a, rfl, by simp [step, h]⟩

theorem step_alloc_allocated {orc rs lsize k rs' a}
    (h : step orc rs (.alloc lsize k) = (rs', .allocated a)) :
    ∃ s', allocate orc rs.st lsize (2 ^ k) = .ok (s', some a) ∧
      rs' = { st := s', live := ⟨rs.next, a, lsize, 2 ^ k⟩ :: rs.live, next := rs.next + 1 } := by
  rcases step_alloc_cases orc rs lsize k with ⟨e, _, h2⟩ | ⟨s', _, h2⟩ | ⟨s', a', h1, h2⟩
  · rw [h2] at h; cases e <;> simp [errOut] at h
  · rw [h2] at h; simp at h
  · rw [h2] at h
    simp only [Prod.mk.injEq, Out.allocated.injEq] at h
    obtain ⟨h3, rfl⟩ := h
    exact ⟨s', h1, h3.symm⟩

theorem step_inv {orc P rs} (ho : OracleOk orc P) (hp : PageOk P) (h : RInv orc P rs) (op : Op) :
    RInv orc P (step orc rs op).1 := by
  cases op with
  | alloc lsize k =>
    rcases step_alloc_cases orc rs lsize k with ⟨e, _, h2⟩ | ⟨s', h1, h2⟩ | ⟨s', a, h1, h2⟩
    · rw [h2]; exact h
    · rw [h2]
      obtain ⟨rfl, _⟩ := allocate_none h1
      exact h
    · rw [h2]
      refine ⟨(allocate_some ho hp h.inv h1 rs.next).inv, ?_⟩
      intro e he
      simp only at he ⊢
      rcases List.mem_cons.mp he with rfl | he
      · simp
      · have := h.keys e he; omega
  | free k =>
    simp only [step]
    cases hf : rs.live.find? (·.key = k) with
    | none => exact h
    | some e =>
      simp only
      have he := List.mem_of_find?_eq_some hf
      obtain ⟨s', hs', hinv, _⟩ := deallocate_live h.inv he
      simp only [hs']
      exact ⟨hinv, fun x hx => h.keys x ((List.erase_sublist).subset hx)⟩

theorem runFrom_inv {orc P} (ho : OracleOk orc P) (hp : PageOk P) :
    ∀ (ops : List Op) {rs}, RInv orc P rs → RInv orc P (runFrom orc rs ops).1 := by
  intro ops
  induction ops with
  | nil => intro rs h; exact h
  | cons op ops ih =>
    intro rs h
    simp only [runFrom]
    exact ih (step_inv ho hp h op)

theorem runFrom_append (orc : Nat → Nat) (a b : List Op) (rs : RState) :
    runFrom orc rs (a ++ b) =
      ((runFrom orc (runFrom orc rs a).1 b).1, (runFrom orc rs a).2 ++ (runFrom orc (runFrom orc rs a).1 b).2) := by
  induction a generalizing rs with
  | nil => simp [runFrom]
  | cons op ops ih => simp only [List.cons_append, runFrom, ih, List.cons_append]

/-- a step never reports an assertion failure / counter underflow -/
theorem step_not_internal {orc P rs} (ho : OracleOk orc P) (hp : PageOk P) (h : RInv orc P rs)
    (op : Op) : (step orc rs op).2 ≠ .internal := by
  cases op with
  | alloc lsize k =>
    rcases step_alloc_cases orc rs lsize k with ⟨e, h1, h2⟩ | ⟨s', _, h2⟩ | ⟨s', a, _, h2⟩
    · rw [h2, allocate_err ho hp h.inv h1]; simp [errOut]
    · rw [h2]; simp
    · rw [h2]; simp
  | free k =>
    simp only [step]
    cases hf : rs.live.find? (·.key = k) with
    | none => simp
    | some e =>
      have he := List.mem_of_find?_eq_some hf
      obtain ⟨s', hs', _⟩ := deallocate_live h.inv he
      simp [hs']

theorem runFrom_not_internal {orc P} (ho : OracleOk orc P) (hp : PageOk P) :
    ∀ (ops : List Op) {rs}, RInv orc P rs → Out.internal ∉ (runFrom orc rs ops).2 := by
  intro ops
  induction ops with
  | nil => intro rs _; simp [runFrom]
  | cons op ops ih =>
    intro rs h
    simp only [runFrom, List.mem_cons, not_or]
    exact ⟨(step_not_internal ho hp h op).symm, ih (step_inv ho hp h op)⟩

/-- a live block stays live (same address, same layout) until a `free` names it -/
theorem live_persists {orc} : ∀ (ops : List Op) {rs : RState} {e : Live}, e ∈ rs.live →
    Op.free e.key ∉ ops → e ∈ (runFrom orc rs ops).1.live := by
  intro ops
  induction ops with
  | nil => intro rs e he _; exact he
  | cons op ops ih =>
    intro rs e he hno
    simp only [runFrom]
    apply ih
    · cases op with
      | alloc lsize k =>
        rcases step_alloc_cases orc rs lsize k with ⟨_, _, h2⟩ | ⟨s', _, h2⟩ | ⟨s', a, _, h2⟩
        · rw [h2]; exact he
        · rw [h2]; exact he
        · rw [h2]; exact List.mem_cons_of_mem _ he
      | free k =>
        simp only [step]
        cases hf : rs.live.find? (·.key = k) with
        | none => exact he
        | some x =>
          simp only
          cases hd : deallocate rs.st x.addr x.lsize x.lalign with
          | error _ => exact he
          | ok s' =>
            simp only
            have hk := List.find?_some hf
            simp only [decide_eq_true_eq] at hk
            have hne : e ≠ x := by
              intro heq
              apply hno
              rw [heq, hk]; simp
            exact (List.mem_erase_of_ne hne).mpr he
    · intro hm; exact hno (List.mem_cons_of_mem _ hm)

/-! ### termination of `find_region` -/

/-- a fresh page serves the request when the alignment divides the page size and the request is a
    whole page or leaves room for a `ListNode` -/
theorem fresh_page_fits {orc P} (ho : OracleOk orc P) {n size align : Nat} (hal : align ∣ P)
    (hpos : 0 < align) (hsz : size = P ∨ size + 16 ≤ P) :
    allocFromRegion ⟨orc n, P⟩ size align = some (orc n) := by
  have e16 : NODE_SIZE = 16 := rfl
  have h1 : alignUp (orc n) align = orc n :=
    alignUp_of_mod _ _ hpos (mod_of_dvd_mod hal (ho.aligned n))
  unfold allocFromRegion
  simp only [h1, Region.stop]
  rw [if_neg (by omega), if_neg (by omega)]

/-- a fresh page does *not* serve a request that would leave 1‥15 bytes behind it -/
theorem fresh_page_unfit {orc P} (ho : OracleOk orc P) {n size align : Nat} (hal : align ∣ P)
    (hpos : 0 < align) (h1 : P < size + 16) (h2 : size < P) :
    allocFromRegion ⟨orc n, P⟩ size align = none := by
  have h3 : alignUp (orc n) align = orc n :=
    alignUp_of_mod _ _ hpos (mod_of_dvd_mod hal (ho.aligned n))
  rw [allocFromRegion_none_iff]
  simp only [h3, Region.stop]
  omega

theorem scan_cons_none {r : Region} {rs : List Region} {size align : Nat}
    (h1 : allocFromRegion r size align = none) (h2 : scan rs size align = none) :
    scan (r :: rs) size align = none := by
  simp [scan, h1, h2]

/-- **Non-termination.** When no free region serves a request whose size lies strictly between
    `page - 16` and `page`, `find_region` adds pages forever: it fails for every fuel. -/
theorem findRegion_diverges {orc P} (ho : OracleOk orc P) (hp : PageOk P) {size align : Nat}
    (hal : align ∣ P) (hpos : 0 < align) (h1 : P < size + 16) (h2 : size < P) :
    ∀ fuel {s L}, Inv orc P s L → scan s.free size align = none →
      findRegion orc fuel s size align = .error .diverge := by
  intro fuel
  induction fuel with
  | zero => intro s L _ hs; unfold findRegion; simp [hs]
  | succ fuel ih =>
    intro s L h hs
    unfold findRegion
    obtain ⟨s', hs', hinv, hfree, _, _⟩ := addPage_inv ho hp h
    simp only [hs, hs']
    apply ih hinv
    rw [hfree]
    exact scan_cons_none (fresh_page_unfit ho hal hpos h1 h2) hs

/-- **Termination.** Otherwise one fresh page is enough (`FUEL = 1`). -/
theorem findRegion_terminates {orc P} (ho : OracleOk orc P) (hp : PageOk P) {size align : Nat}
    (hal : align ∣ P) (hpos : 0 < align) (hsz : size = P ∨ size + 16 ≤ P) {s L}
    (h : Inv orc P s L) : ∃ t, findRegion orc FUEL s size align = .ok t := by
  unfold FUEL findRegion
  cases hs : scan s.free size align with
  | some t => obtain ⟨a, b, c⟩ := t; exact ⟨_, rfl⟩
  | none =>
    obtain ⟨s', hs', _, hfree, _, _⟩ := addPage_inv ho hp h
    simp only [hs']
    unfold findRegion
    have : scan s'.free size align = some (s.free, ⟨orc s.pages.length, P⟩, orc s.pages.length) := by
      rw [hfree]
      simp [scan, fresh_page_fits ho hal hpos hsz]
    simp only [this]
    exact ⟨_, rfl⟩

end Alloc

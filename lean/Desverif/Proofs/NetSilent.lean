/-
The program of an inactive module is irrelevant: replacing it (`State.withProg`) commutes with
every dispatched event that is not the module's restart.
-/
import Desverif.Proofs.NetRun
namespace Net

def ModRt.withProg (x : ModRt) (p : Prog) : ModRt := { x with prog := p }

/-- the same state, except that module `m` runs program `p` -/
def State.withProg (s : State) (m : Nat) (p : Prog) : State :=
  { s with mods := s.mods.modify m (·.withProg p) }

theorem modify_set_ne {α : Type} (l : List α) (f : α → α) {i m : Nat} (h : i ≠ m) (a : α) :
    (l.modify m f).set i a = (l.set i a).modify m f := by
  apply List.ext_getElem?
  intro j
  simp only [List.getElem?_set, List.getElem?_modify, List.length_modify]
  by_cases hij : i = j
  · subst hij
    have : ¬ m = i := fun x => h x.symm
    simp only [if_true, this, if_false]
    split <;> simp
  · simp only [hij, if_false]

theorem modify_set_eq {α : Type} (l : List α) (f : α → α) (m : Nat) (a : α) :
    (l.modify m f).set m (f a) = (l.set m a).modify m f := by
  apply List.ext_getElem?
  intro j
  simp only [List.getElem?_set, List.getElem?_modify, List.length_modify]
  by_cases hij : m = j
  · subst hij
    simp only [if_true]
    split
    · simp
    · simp
  · simp only [hij, if_false]

theorem withProg_actives (s : State) (m : Nat) (p : Prog) : (s.withProg m p).actives = s.actives := by
  apply List.ext_getElem?
  intro j
  simp only [State.actives, State.withProg, List.getElem?_map, List.getElem?_modify]
  cases s.mods[j]? with
  | none => rfl
  | some x => by_cases h : m = j <;> simp [h, ModRt.withProg]

theorem withProg_inc (s : State) (m : Nat) (p : Prog) (i : Nat) :
    ((s.withProg m p).mods[i]?).map (·.incarnation) = (s.mods[i]?).map (·.incarnation) := by
  simp only [State.withProg, List.getElem?_modify]
  cases s.mods[i]? with
  | none => rfl
  | some x => by_cases h : m = i <;> simp [h, ModRt.withProg]

theorem withProg_env (s : State) (m : Nat) (p : Prog) (i : Nat) : (s.withProg m p).env i = s.env i := by
  simp only [State.env, withProg_actives, withProg_inc]
  rfl

theorem withProg_schedule (s : State) (m : Nat) (p : Prog) (ev : KEvent) (t : Nat) :
    (s.withProg m p).schedule ev t = (s.schedule ev t).withProg m p := by
  unfold State.schedule
  show (match FES.add s.fes t s.evs.size with | .ok (f, _) => _ | .error _ => _) = _
  cases FES.add s.fes t s.evs.size with
  | ok x => rfl
  | error x => rfl

theorem withProg_scheduleAll (m : Nat) (p : Prog) (l : List (KEvent × Nat)) : ∀ (s : State),
    (s.withProg m p).scheduleAll l = (s.scheduleAll l).withProg m p := by
  induction l with
  | nil => intro s; rfl
  | cons a l ih =>
    intro s
    simp only [State.scheduleAll, List.foldl_cons]
    rw [withProg_schedule]
    exact ih _

theorem withProg_consumeShutdown_ne (s : State) (m : Nat) (p : Prog) (mi : Nat) (y : ModRt) (h : mi ≠ m) :
    (s.withProg m p).consumeShutdown mi y = (s.consumeShutdown mi y).withProg m p := by
  unfold State.consumeShutdown
  cases y.shutdownReq with
  | none => rfl
  | some r =>
    simp only
    cases r with
    | none => simp only [State.withProg, modify_set_ne _ _ h]; rfl
    | some t =>
      simp only
      rw [← withProg_schedule]
      simp only [State.withProg, modify_set_ne _ _ h]
      rfl

theorem withProg_getElem_ne (s : State) (m : Nat) (p : Prog) {mi : Nat} (h : mi ≠ m) :
    (s.withProg m p).mods[mi]? = s.mods[mi]? := by
  simp only [State.withProg]
  exact List.getElem?_modify_ne _ _ (fun x => h x.symm)

/-- the state right after the callback and `deactivate` (before the wake-up is scheduled) -/
def State.afterCb (s : State) (mi : Nat) (r : CbResult) : State :=
  { s with mods := s.mods.set mi r.mod.wakeDecision.1, chans := r.es.chans, trace := s.trace ++ r.es.obs,
           errors := s.errors ++ r.errs, buf := s.buf ++ r.es.buf, cur := none }

def State.clearBuf (s : State) : State := { s with buf := [] }

/-- everything of `beforeShutdown` after the callback -/
def State.finishCb (s : State) (mi : Nat) (r : CbResult) : State :=
  let s3 := match r.mod.wakeDecision.2 with
    | some t => (s.afterCb mi r).schedule (.wakeup mi) t
    | none => s.afterCb mi r
  (s3.scheduleAll s3.buf).clearBuf

theorem beforeShutdown_eq (s : State) (mi : Nat) (y : ModRt) (kind : Kind) :
    s.beforeShutdown mi y kind =
      (s.finishCb mi (s.cbResult mi y kind), (s.cbResult mi y kind).mod.wakeDecision.1, s.cbResult mi y kind) := rfl

theorem withProg_afterCb_ne (s : State) (m : Nat) (p : Prog) (mi : Nat) (r : CbResult) (h : mi ≠ m) :
    (s.withProg m p).afterCb mi r = (s.afterCb mi r).withProg m p := by
  simp only [State.afterCb, State.withProg, modify_set_ne _ _ h]

theorem withProg_buf (s : State) (m : Nat) (p : Prog) : (s.withProg m p).buf = s.buf := rfl

theorem withProg_finishCb_ne (s : State) (m : Nat) (p : Prog) (mi : Nat) (r : CbResult) (h : mi ≠ m) :
    (s.withProg m p).finishCb mi r = (s.finishCb mi r).withProg m p := by
  unfold State.finishCb
  rw [withProg_afterCb_ne s m p mi r h]
  cases r.mod.wakeDecision.2 with
  | none => simp only [withProg_buf, withProg_scheduleAll]; rfl
  | some t => simp only [withProg_schedule, withProg_buf, withProg_scheduleAll]; rfl

theorem withProg_cbResult_ne (s : State) (m : Nat) (p : Prog) (mi : Nat) (y : ModRt) (kind : Kind) :
    (s.withProg m p).cbResult mi y kind = s.cbResult mi y kind := by
  simp only [State.cbResult, withProg_env]
  rfl

theorem withProg_beforeShutdown_ne (s : State) (m : Nat) (p : Prog) (mi : Nat) (y : ModRt) (kind : Kind) (h : mi ≠ m) :
    (s.withProg m p).beforeShutdown mi y kind =
      ((s.beforeShutdown mi y kind).1.withProg m p, (s.beforeShutdown mi y kind).2) := by
  rw [beforeShutdown_eq, beforeShutdown_eq, withProg_cbResult_ne, withProg_finishCb_ne s m p mi _ h]

theorem withProg_moduleEvent_ne (s : State) (m : Nat) (p : Prog) (mi : Nat) (kind : Kind) (h : mi ≠ m) :
    (s.withProg m p).moduleEvent mi kind = (s.moduleEvent mi kind).withProg m p := by
  cases hm : s.mods[mi]? with
  | none =>
    rw [moduleEvent_none s mi kind hm, moduleEvent_none _ mi kind (by rw [withProg_getElem_ne s m p h]; exact hm)]
    rfl
  | some y =>
    rw [moduleEvent_eq s mi kind y hm, moduleEvent_eq _ mi kind y (by rw [withProg_getElem_ne s m p h]; exact hm),
      withProg_beforeShutdown_ne s m p mi y kind h, withProg_consumeShutdown_ne _ m p mi _ h]

theorem withProg_wakeDecision (y : ModRt) (p : Prog) :
    (y.withProg p).wakeDecision = (y.wakeDecision.1.withProg p, y.wakeDecision.2) := by
  unfold ModRt.wakeDecision
  simp only [ModRt.withProg]
  split
  · split
    · split <;> rfl
    · rfl
  · rfl

theorem withProg_getElem_self (s : State) (m : Nat) (p : Prog) (x : ModRt) (hm : s.mods[m]? = some x) :
    (s.withProg m p).mods[m]? = some (x.withProg p) := by
  simp [State.withProg, hm]

/-- the callback of an inactive module does nothing (message / wake-up) -/
theorem cbResult_inactive (s : State) (m : Nat) (x : ModRt) (kind : Kind) (ha : x.active = false)
    (hk : kind ≠ .restart ∧ ∀ st, kind ≠ .simStart st) :
    s.cbResult m x kind =
      { mod := x.bump s.fes.cur, es := ES.start (x.bump s.fes.cur) s.chans, errs := [] } := by
  cases kind with
  | message msg => simp [State.cbResult, callback, bump_active, ha]
  | wakeup => simp [State.cbResult, callback, bump_active, ha]
  | simStart st => exact absurd rfl (hk.2 st)
  | restart => exact absurd rfl hk.1

theorem withProg_moduleEvent_self (s : State) (m : Nat) (p : Prog) (kind : Kind) (x : ModRt)
    (hm : s.mods[m]? = some x) (ha : x.active = false) (hreq : x.shutdownReq = none)
    (hk : kind ≠ .restart ∧ ∀ st, kind ≠ .simStart st) :
    (s.withProg m p).moduleEvent m kind = (s.moduleEvent m kind).withProg m p := by
  rw [moduleEvent_eq s m kind x hm, moduleEvent_eq _ m kind _ (withProg_getElem_self s m p x hm),
    beforeShutdown_eq, beforeShutdown_eq, cbResult_inactive s m x kind ha hk,
    cbResult_inactive (s.withProg m p) m (x.withProg p) kind ha hk]
  have h1 : ((x.bump s.fes.cur).wakeDecision.1).shutdownReq = none := by rw [wakeDecision_req]; exact hreq
  have h2 : (((x.withProg p).bump (s.withProg m p).fes.cur).wakeDecision.1).shutdownReq = none := by
    rw [wakeDecision_req]; exact hreq
  rw [consumeShutdown_none _ _ _ h1, consumeShutdown_none _ _ _ h2]
  -- the two `finishCb`s
  have hb : (x.withProg p).bump (s.withProg m p).fes.cur = (x.bump s.fes.cur).withProg p := rfl
  unfold State.finishCb
  simp only [hb, withProg_wakeDecision]
  have ha : ∀ (es : ES), (s.withProg m p).afterCb m ⟨(x.bump s.fes.cur).withProg p, es, []⟩ =
      (s.afterCb m ⟨x.bump s.fes.cur, es, []⟩).withProg m p := by
    intro es
    simp only [State.afterCb, State.withProg, withProg_wakeDecision]
    rw [modify_set_eq]
  have hes : ES.start ((x.bump s.fes.cur).withProg p) (s.withProg m p).chans = ES.start (x.bump s.fes.cur) s.chans := rfl
  rw [hes, ha]
  cases (x.bump s.fes.cur).wakeDecision.2 with
  | none => simp only [withProg_buf, withProg_scheduleAll]; rfl
  | some t => simp only [withProg_schedule, withProg_buf, withProg_scheduleAll]; rfl

theorem withProg_pop (s : State) (m : Nat) (p : Prog) (f : FES.State) :
    (s.withProg m p).pop f = (s.pop f).withProg m p := rfl

/-- **the program of an inactive module is irrelevant** for one dispatched event that is not the
    module's restart: the successor states differ in that program only -/
theorem withProg_step {s : State} (hq : Quiet s) (m : Nat) (p : Prog)
    (hdown : (s.mods[m]?).map (·.active) = some false) (hne : s.nextEvent ≠ some (.restart m)) :
    (s.withProg m p).step = (s.step).map (·.withProg m p) := by
  obtain ⟨x, hm, ha⟩ : ∃ x, s.mods[m]? = some x ∧ x.active = false := by
    cases h : s.mods[m]? with
    | none => rw [h] at hdown; cases hdown
    | some x => exact ⟨x, rfl, by rw [h] at hdown; simpa using hdown⟩
  have hreq : x.shutdownReq = none := hq.req x (List.mem_of_getElem? hm)
  cases hf : FES.fetch s.fes with
  | error e =>
    have h1 : s.step = none := by simp [State.step, hf]
    have h2 : (s.withProg m p).step = none := by
      have : FES.fetch (s.withProg m p).fes = .error e := hf
      simp [State.step, this]
    rw [h1, h2]; rfl
  | ok pr =>
    obtain ⟨e, f⟩ := pr
    have hf' : FES.fetch (s.withProg m p).fes = .ok (e, f) := hf
    have hne' : (s.evs[e.val]? : Option KEvent) ≠ some (.restart m) := by
      simpa [State.nextEvent, hf] using hne
    rw [step_eq s e f hf, step_eq (s.withProg m p) e f hf']
    have hevs : (s.withProg m p).evs = s.evs := rfl
    have hlinks : (s.withProg m p).links = s.links := rfl
    have hchans : (s.withProg m p).chans = s.chans := rfl
    rw [hevs, hlinks, hchans]
    have hself : ∀ kind, (kind ≠ .restart ∧ ∀ st, kind ≠ .simStart st) →
        ((s.pop f).withProg m p).moduleEvent m kind = ((s.pop f).moduleEvent m kind).withProg m p :=
      fun kind hk => withProg_moduleEvent_self (s.pop f) m p kind x hm ha hreq hk
    cases hev : (s.evs[e.val]? : Option KEvent) with
    | none => rfl
    | some ev =>
      cases ev with
      | deliver mi msg =>
        simp only [Option.map_some, withProg_pop]
        by_cases h : mi = m
        · subst h; rw [hself _ ⟨by simp, by simp⟩]
        · rw [withProg_moduleEvent_ne _ m p mi _ h]
      | wakeup mi =>
        simp only [Option.map_some, withProg_pop]
        by_cases h : mi = m
        · subst h; rw [hself _ ⟨by simp, by simp⟩]
        · rw [withProg_moduleEvent_ne _ m p mi _ h]
      | restart mi =>
        simp only [Option.map_some, withProg_pop]
        have h : mi ≠ m := by
          intro h; subst h; exact hne' hev
        rw [withProg_moduleEvent_ne _ m p mi _ h]
      | exitConn li pos msg =>
        simp only
        cases s.links[li]? with
        | none => rfl
        | some l =>
          cases s.chans[li]? with
          | none => rfl
          | some c =>
            simp only [Option.map_some, withProg_pop, withProg_env]
            have : ∀ (ch : List ChanSt), ({ (s.pop f).withProg m p with chans := ch } : State) =
                ({ s.pop f with chans := ch } : State).withProg m p := fun _ => rfl
            rw [this, withProg_scheduleAll]
      | unbusy li =>
        simp only
        cases s.links[li]? with
        | none => rfl
        | some l =>
          cases s.chans[li]? with
          | none => rfl
          | some c =>
            simp only
            cases l.chan with
            | none => rfl
            | some cfg =>
              simp only [Option.map_some, withProg_pop]
              have : ∀ (ch : List ChanSt), ({ (s.pop f).withProg m p with chans := ch } : State) =
                  ({ s.pop f with chans := ch } : State).withProg m p := fun _ => rfl
              rw [this, withProg_scheduleAll]
      | bad => rfl

/-- the same for any number of events before the restart -/
theorem withProg_steps (n : Nat) : ∀ {s : State}, Quiet s → ∀ (m : Nat) (p : Prog),
    (s.mods[m]?).map (·.active) = some false → s.noRestart m n →
    (s.withProg m p).steps n = (s.steps n).withProg m p := by
  induction n with
  | zero => intro s _ m p _ _; rfl
  | succ n ih =>
    intro s hq m p hd hn
    unfold State.noRestart at hn
    unfold State.steps
    rw [withProg_step hq m p hd hn.1]
    cases hs : s.step with
    | none => rfl
    | some s' =>
      simp only [Option.map_some]
      simp only [hs] at hn
      obtain ⟨_, _, _, c1⟩ := step_inert hq hs m hd hn.1
      exact ih (step_quiet hq hs) m p c1 hn.2

end Net

import Desverif.Proofs.CQRunRefine
namespace CQRun
open CQ (Ev)
open FES (evLt eraseId minEv)

/-! History (ghost) view of a scripted run of the abstract event set. -/

/-- events created by this operation -/
def ghostAdd (s : FES.State) : Op → List Ev
  | .add time val => if time < s.cur then [] else [⟨time, s.nextId, val⟩]
  | _ => []

/-- events handed out by this operation -/
def ghostFetch (s : FES.State) : Op → List Ev
  | .fetch => match FES.fetch s with
    | .ok (e, _) => [e]
    | .error _ => []
  | _ => []

/-- pending events removed by this operation's cancel -/
def ghostCancel (s : FES.State) (hs : Handles) : Op → List Ev
  | .cancel k => match hs[k]? with
    | some (id, _) => (spending s).filter (fun e => e.id = id)
    | none => []
  | _ => []

structure Hist where
  added : List Ev := []
  fetched : List Ev := []
  cancelled : List Ev := []

def histFrom : (FES.State × Handles) → Hist → List Op → (FES.State × Handles) × Hist
  | st, h, [] => (st, h)
  | st, h, op :: ops =>
    histFrom (sstep st op).1
      { added := h.added ++ ghostAdd st.1 op, fetched := h.fetched ++ ghostFetch st.1 op,
        cancelled := h.cancelled ++ ghostCancel st.1 st.2 op } ops

def hist (ops : List Op) : (FES.State × Handles) × Hist := histFrom (FES.init, []) {} ops

structure GInv (s : FES.State) (h : Hist) : Prop where
  perm : h.added.Perm (spending s ++ h.fetched ++ h.cancelled)
  nodup : (h.added.map (·.id)).Nodup
  idsLt : ∀ e ∈ h.added, e.id < s.nextId
  zeroT : ∀ e ∈ s.zero, e.time = s.cur
  pendT : ∀ e ∈ s.pend, s.cur ≤ e.time
  mono : h.fetched.Pairwise (fun a b => a.time ≤ b.time)
  fetLe : ∀ e ∈ h.fetched, e.time ≤ s.cur

theorem ginv_init : GInv FES.init {} := by
  refine ⟨?_, ?_, ?_, ?_, ?_, ?_, ?_⟩ <;> simp [FES.init, spending]

theorem filter_split (l : List Ev) (id : Nat) :
    l.Perm (eraseId l id ++ l.filter (fun e => e.id = id)) := by
  unfold eraseId
  have := List.filter_append_perm (fun e : Ev => decide (e.id ≠ id)) l
  refine this.symm.trans ?_
  apply List.Perm.append_left
  apply List.Perm.of_eq
  apply List.filter_congr
  intro x _; simp

theorem minEv_le {l : List Ev} {e : Ev} (h : minEv l = some e) : ∀ x ∈ l, e.time ≤ x.time := by
  cases l with
  | nil => simp [minEv] at h
  | cons a as =>
    simp only [minEv, Option.some.injEq] at h
    have key : ∀ (l : List Ev) (m0 : Ev),
        (l.foldl (fun m x => if evLt x m then x else m) m0).time ≤ m0.time ∧
        ∀ x ∈ l, (l.foldl (fun m x => if evLt x m then x else m) m0).time ≤ x.time := by
      intro l
      induction l with
      | nil => intro m0; simp
      | cons y ys ih =>
        intro m0
        simp only [List.foldl_cons]
        obtain ⟨h1, h2⟩ := ih (if evLt y m0 then y else m0)
        have h3 : (if evLt y m0 then y else m0).time ≤ m0.time ∧
            (if evLt y m0 then y else m0).time ≤ y.time := by
          by_cases hy : evLt y m0
          · rw [if_pos hy]; exact ⟨CQ.evLt_time_le hy, Nat.le_refl _⟩
          · rw [if_neg hy]; unfold evLt at hy; constructor <;> omega
        refine ⟨Nat.le_trans h1 h3.1, ?_⟩
        intro x hx
        rcases List.mem_cons.mp hx with rfl | hx
        · exact Nat.le_trans h1 h3.2
        · exact h2 x hx
    obtain ⟨k1, k2⟩ := key as a
    intro x hx
    rw [← h]
    rcases List.mem_cons.mp hx with rfl | hx
    · exact k1
    · exact k2 x hx

theorem ginv_step {st : FES.State × Handles} {h : Hist} (g : GInv st.1 h) (op : Op) :
    GInv (sstep st op).1.1
      { added := h.added ++ ghostAdd st.1 op, fetched := h.fetched ++ ghostFetch st.1 op,
        cancelled := h.cancelled ++ ghostCancel st.1 st.2 op } := by
  obtain ⟨s, hs⟩ := st
  have g : GInv s h := g
  cases op with
  | add time val =>
    simp only [sstep, ghostAdd, ghostFetch, ghostCancel, List.append_nil]
    by_cases hlt : time < s.cur
    · simp only [FES.add, hlt, if_true, List.append_nil]
      exact g
    · simp only [FES.add, hlt, if_false]
      have hnd : ((h.added ++ [(⟨time, s.nextId, val⟩ : Ev)]).map (·.id)).Nodup := by
        rw [List.map_append, List.nodup_append]
        refine ⟨g.nodup, by simp, ?_⟩
        intro a ha b hb
        obtain ⟨x, hx, rfl⟩ := List.mem_map.mp ha
        simp at hb; subst hb
        have := g.idsLt x hx; omega
      have hids : ∀ e ∈ h.added ++ [(⟨time, s.nextId, val⟩ : Ev)], e.id < s.nextId + 1 := by
        intro e he
        rcases List.mem_append.mp he with he | he
        · have := g.idsLt e he; omega
        · simp at he; subst he; simp
      by_cases heq : time = s.cur
      · simp only [heq, if_true]
        refine ⟨?_, by simpa [heq] using hnd, by simpa [heq] using hids, ?_, g.pendT, g.mono, g.fetLe⟩
        · have gp := g.perm
          rw [List.perm_iff_count] at gp ⊢
          intro a; have := gp a
          simp only [spending, List.count_append, List.count_cons, List.count_nil] at this ⊢
          omega
        · intro e he
          rcases List.mem_append.mp he with he | he
          · exact g.zeroT e he
          · simp at he; subst he; rfl
      · simp only [heq, if_false]
        refine ⟨?_, hnd, hids, g.zeroT, ?_, g.mono, g.fetLe⟩
        · have gp := g.perm
          rw [List.perm_iff_count] at gp ⊢
          intro a; have := gp a
          simp only [spending, List.count_append, List.count_cons, List.count_nil] at this ⊢
          omega
        · intro e he
          rcases List.mem_append.mp he with he | he
          · exact g.pendT e he
          · simp at he; subst he; show s.cur ≤ time; omega
  | cancel k =>
    simp only [sstep, ghostAdd, ghostFetch, ghostCancel, List.append_nil]
    cases hk : hs[k]? with
    | none => simpa using g
    | some p =>
      obtain ⟨id, time⟩ := p
      simp only
      refine ⟨?_, g.nodup, g.idsLt, ?_, ?_, g.mono, g.fetLe⟩
      · have gp := g.perm
        have hz := filter_split s.zero id
        have hp := filter_split s.pend id
        rw [List.perm_iff_count] at gp hz hp ⊢
        intro a; have := gp a; have := hz a; have := hp a
        simp only [spending, FES.cancel, List.filter_append, List.count_append] at *
        omega
      · intro e he; exact g.zeroT e (List.mem_filter.mp he).1
      · intro e he; exact g.pendT e (List.mem_filter.mp he).1
  | fetch =>
    simp only [sstep, ghostAdd, ghostFetch, ghostCancel, List.append_nil]
    cases hf : FES.fetch s with
    | error e => cases e <;> simpa using g
    | ok p =>
      obtain ⟨e, s'⟩ := p
      simp only
      unfold FES.fetch at hf
      split at hf
      · rename_i e' z hz
        simp only [Except.ok.injEq, Prod.mk.injEq] at hf
        obtain ⟨rfl, rfl⟩ := hf
        have het : e'.time = s.cur := g.zeroT e' (hz ▸ List.mem_cons_self)
        refine ⟨?_, g.nodup, g.idsLt, ?_, g.pendT, ?_, ?_⟩
        · have gp := g.perm
          rw [List.perm_iff_count] at gp ⊢
          intro a; have := gp a
          simp only [spending, hz, List.count_append, List.count_cons, List.count_nil] at this ⊢
          omega
        · intro x hx; exact g.zeroT x (hz ▸ List.mem_cons_of_mem _ hx)
        · rw [List.pairwise_append]
          refine ⟨g.mono, by simp, ?_⟩
          intro a ha b hb
          simp at hb; subst hb
          have := g.fetLe a ha; omega
        · intro x hx
          show x.time ≤ s.cur
          rcases List.mem_append.mp hx with hx | hx
          · exact g.fetLe x hx
          · simp at hx; subst hx; omega
      · split at hf
        · cases hf
        · rename_i _ hz _ e' hm
          simp only [Except.ok.injEq, Prod.mk.injEq] at hf
          obtain ⟨rfl, rfl⟩ := hf
          have hmem : e' ∈ s.pend := by
            have := (fetch_mem (s := s) (s' := { s with pend := eraseId s.pend e'.id, cur := e'.time })
              (e := e') (by simp [FES.fetch, hz, hm])).2.1
            simpa [spending, hz] using this
          have hle := minEv_le hm
          -- ids are unique among pending events, so erasing e'.id removes exactly e'
          have hsub : (spending s).Sublist h.added ∨ True := Or.inr trivial
          have hndp : (s.pend.map (·.id)).Nodup := by
            have h1 : ((spending s ++ h.fetched ++ h.cancelled).map (·.id)).Nodup :=
              (g.perm.map (·.id)).nodup_iff.mp g.nodup
            have h2 : (s.pend).Sublist (spending s ++ h.fetched ++ h.cancelled) := by
              simp only [spending, List.append_assoc]
              exact (List.sublist_append_left _ _).trans (List.sublist_append_right _ _)
            exact (h2.map _).nodup h1
          have hsplit : s.pend.Perm (eraseId s.pend e'.id ++ [e']) := by
            refine (filter_split s.pend e'.id).trans ?_
            apply List.Perm.append_left
            apply List.Perm.of_eq
            -- the only element with that id is e'
            have : ∀ (l : List Ev), (l.map (·.id)).Nodup → e' ∈ l →
                l.filter (fun x => x.id = e'.id) = [e'] := by
              intro l
              induction l with
              | nil => intro _ h; cases h
              | cons a as ih =>
                intro hnd hmem
                rw [List.map_cons] at hnd
                have hnd' := List.nodup_cons.mp hnd
                rcases List.mem_cons.mp hmem with rfl | hmem
                · simp only [List.filter_cons, decide_true, if_true]
                  congr 1
                  apply List.filter_eq_nil_iff.mpr
                  intro x hx hxid
                  simp at hxid
                  exact hnd'.1 (hxid ▸ List.mem_map_of_mem hx)
                · have hne : a.id ≠ e'.id := fun h => hnd'.1 (h ▸ List.mem_map_of_mem hmem)
                  simp only [List.filter_cons, hne, decide_false]
                  exact ih hnd'.2 hmem
            exact this s.pend hndp hmem
          refine ⟨?_, g.nodup, g.idsLt, ?_, ?_, ?_, ?_⟩
          · have gp := g.perm
            rw [List.perm_iff_count] at gp hsplit ⊢
            intro a; have := gp a; have := hsplit a
            simp only [spending, hz, List.count_append, List.count_cons, List.count_nil] at *
            omega
          · intro x hx; rw [hz] at hx; cases hx
          · intro x hx; exact hle x (List.mem_filter.mp hx).1
          · rw [List.pairwise_append]
            refine ⟨g.mono, by simp, ?_⟩
            intro a ha b hb
            simp at hb; subst hb
            exact Nat.le_trans (g.fetLe a ha) (g.pendT _ hmem)
          · intro x hx
            rcases List.mem_append.mp hx with hx | hx
            · exact Nat.le_trans (g.fetLe x hx) (g.pendT _ hmem)
            · simp at hx; subst hx; exact Nat.le_refl _
  | peek =>
    simp only [sstep, ghostAdd, ghostFetch, ghostCancel, List.append_nil]
    exact g

theorem ginv_histFrom (ops : List Op) : ∀ (st : FES.State × Handles) (h : Hist), GInv st.1 h →
    GInv (histFrom st h ops).1.1 (histFrom st h ops).2 := by
  induction ops with
  | nil => intro st h g; exact g
  | cons op ops ih =>
    intro st h g
    simp only [histFrom]
    exact ih _ _ (ginv_step g op)

theorem ginv_hist (ops : List Op) : GInv (hist ops).1.1 (hist ops).2 :=
  ginv_histFrom ops _ _ ginv_init

/-- the ghost run follows the same states as the plain run -/
theorem histFrom_state (ops : List Op) : ∀ (st : FES.State × Handles) (h : Hist),
    (histFrom st h ops).1 = (runWith sstep st ops).1 := by
  induction ops with
  | nil => intro st h; rfl
  | cons op ops ih => intro st h; simp only [histFrom, runWith]; exact ih _ _

def fetchedOuts (os : List Out) : List (Nat × Nat) :=
  os.filterMap (fun o => match o with | .fetched v t => some (v, t) | _ => none)

/-- the `fetched` history is exactly what the fetch operations returned -/
theorem histFrom_fetched (ops : List Op) : ∀ (st : FES.State × Handles) (h : Hist),
    (histFrom st h ops).2.fetched.map (fun e => (e.val, e.time)) =
      h.fetched.map (fun e => (e.val, e.time)) ++ fetchedOuts (runWith sstep st ops).2 := by
  induction ops with
  | nil => intro st h; simp [histFrom, runWith, fetchedOuts]
  | cons op ops ih =>
    intro st h
    simp only [histFrom, runWith]
    rw [ih]
    simp only [List.map_append, List.append_assoc]
    congr 1
    cases op with
    | add time val =>
      simp only [ghostFetch, sstep, List.map_nil, List.nil_append]
      cases FES.add st.1 time val <;> simp [fetchedOuts]
    | cancel k =>
      simp only [ghostFetch, sstep, List.map_nil, List.nil_append]
      cases st.2[k]? <;> simp [fetchedOuts]
    | fetch =>
      simp only [ghostFetch, sstep]
      cases hf : FES.fetch st.1 with
      | error e => simp [fetchedOuts]
      | ok p => simp [fetchedOuts]
    | peek => simp [ghostFetch, sstep, fetchedOuts]

end CQRun

/-
`Topology::filter_nodes`: the in-place compaction loop (`remove(running_index)` for dropped
nodes, `node_id_mapping[index] = running_index` for kept ones) keeps exactly the selected entries
in order, and the mapping sends a kept index to the number of kept indices before it.
-/
import Desverif.Proofs.TopoGraph
namespace Topo

/-- entries of `S` (which sit at original indices `k, k+1, …`) whose `keep` flag is set -/
def keepFrom {α : Type} (keep : List Bool) : Nat → List α → List α
  | _, [] => []
  | k, x :: xs => if keep.getD k false then x :: keepFrom keep (k + 1) xs else keepFrom keep (k + 1) xs

/-- the id mapping for original indices `k … k+m-1` when `r` entries were kept before `k` -/
def mapFrom (keep : List Bool) : Nat → Nat → Nat → List (Option Nat)
  | _, _, 0 => []
  | k, r, m + 1 =>
    if keep.getD k false then some r :: mapFrom keep (k + 1) (r + 1) m
    else none :: mapFrom keep (k + 1) r m

/-- number of kept indices among `k … k+j-1` -/
def countK (keep : List Bool) : Nat → Nat → Nat
  | _, 0 => 0
  | k, j + 1 => (if keep.getD k false then 1 else 0) + countK keep (k + 1) j

theorem filterLoop_spec (keep : List Bool) : ∀ (m k r : Nat) (P S : List Nat) (PE SE : List (List Edge))
    (mapping : List (Option Nat)), P.length = r → PE.length = r → S.length = m → SE.length = m →
    filterLoop keep (List.range' k m) r (P ++ S) (PE ++ SE) mapping =
      (P ++ keepFrom keep k S, PE ++ keepFrom keep k SE, mapping ++ mapFrom keep k r m) := by
  intro m
  induction m with
  | zero =>
    intro k r P S PE SE mapping _ _ hS hSE
    have : S = [] := List.eq_nil_of_length_eq_zero hS
    have : SE = [] := List.eq_nil_of_length_eq_zero hSE
    subst_vars
    simp [filterLoop, keepFrom, mapFrom]
  | succ m ih =>
    intro k r P S PE SE mapping hP hPE hS hSE
    cases S with
    | nil => simp at hS
    | cons x xs =>
      cases SE with
      | nil => simp at hSE
      | cons y ys =>
        rw [List.range'_succ]
        simp only [filterLoop]
        cases hk : keep.getD k false
        rotate_left
        · simp only [if_true, keepFrom, mapFrom, hk]
          have := ih (k + 1) (r + 1) (P ++ [x]) xs (PE ++ [y]) ys (mapping ++ [some r])
            (by simp [hP]) (by simp [hPE]) (by simpa using hS) (by simpa using hSE)
          simp only [List.append_assoc, List.singleton_append] at this
          rw [this]
        · simp only [Bool.false_eq_true, if_false, keepFrom, mapFrom, hk]
          have e1 : (P ++ x :: xs).eraseIdx r = P ++ xs := by
            rw [List.eraseIdx_append_of_length_le (by omega)]; simp [hP]
          have e2 : (PE ++ y :: ys).eraseIdx r = PE ++ ys := by
            rw [List.eraseIdx_append_of_length_le (by omega)]; simp [hPE]
          rw [e1, e2]
          have := ih (k + 1) r P xs PE ys (mapping ++ [none]) hP hPE (by simpa using hS) (by simpa using hSE)
          simp only [List.append_assoc, List.singleton_append] at this
          rw [this]

theorem keepFrom_getElem {α : Type} (keep : List Bool) : ∀ (S : List α) (k j : Nat) (x : α),
    S[j]? = some x → keep.getD (k + j) false = true →
    (keepFrom keep k S)[countK keep k j]? = some x := by
  intro S
  induction S with
  | nil => intro k j x h; simp at h
  | cons y ys ih =>
    intro k j x h hk
    cases j with
    | zero =>
      simp at h; subst h
      simp at hk
      simp [keepFrom, hk, countK]
    | succ j =>
      simp at h
      have := ih (k + 1) j x h (by rw [← hk]; congr 1; omega)
      simp only [keepFrom, countK]
      cases hy : keep.getD k false
      · simp only [Bool.false_eq_true, if_false, Nat.zero_add]; exact this
      · simp only [if_true]
        rw [Nat.add_comm 1, List.getElem?_cons_succ]; exact this

theorem keepFrom_length {α : Type} (keep : List Bool) : ∀ (S : List α) (k : Nat),
    (keepFrom keep k S).length = countK keep k S.length := by
  intro S
  induction S with
  | nil => intro k; rfl
  | cons y ys ih =>
    intro k
    simp only [keepFrom, countK, List.length_cons]
    cases hy : keep.getD k false
    · simp [ih]
    · simp [ih]; omega

theorem mapFrom_getD (keep : List Bool) : ∀ (m k r j : Nat), j < m →
    (mapFrom keep k r m).getD j none =
      if keep.getD (k + j) false then some (r + countK keep k j) else none := by
  intro m
  induction m with
  | zero => intro k r j h; omega
  | succ m ih =>
    intro k r j hj
    cases j with
    | zero =>
      cases hk : keep.getD k false <;>
        simp only [mapFrom, Nat.add_zero, hk, countK, Bool.false_eq_true, if_false, if_true] <;> rfl
    | succ j =>
      have e : k + (j + 1) = k + 1 + j := by omega
      cases hk : keep.getD k false
      · simp only [mapFrom, hk, Bool.false_eq_true, if_false, List.getD_cons_succ, countK]
        rw [ih (k + 1) r j (by omega), e]
        split <;> simp
      · simp only [mapFrom, hk, if_true, List.getD_cons_succ, countK]
        rw [ih (k + 1) (r + 1) j (by omega), e]
        split <;> simp <;> omega

/-- with `keep = nodes.map f` the kept entries are `filter f` -/
theorem keepFrom_map_filter (f : Nat → Bool) : ∀ (S pre : List Nat),
    keepFrom ((pre ++ S).map f) pre.length S = S.filter f := by
  intro S
  induction S with
  | nil => intro pre; rfl
  | cons x xs ih =>
    intro pre
    have hget : ((pre ++ x :: xs).map f).getD pre.length false = f x := by
      simp [List.getD_eq_getElem?_getD]
    have := ih (pre ++ [x])
    simp only [List.append_assoc, List.singleton_append, List.length_append, List.length_singleton] at this
    simp only [keepFrom, hget, List.filter_cons]
    rw [this]

theorem countK_map_filter (f : Nat → Bool) : ∀ (j : Nat) (S pre : List Nat), j ≤ S.length →
    countK ((pre ++ S).map f) pre.length j = ((S.take j).filter f).length := by
  intro j
  induction j with
  | zero => intro S pre _; simp [countK]
  | succ j ih =>
    intro S pre hj
    cases S with
    | nil => simp at hj
    | cons x xs =>
      have hget : ((pre ++ x :: xs).map f).getD pre.length false = f x := by
        simp [List.getD_eq_getElem?_getD]
      have := ih xs (pre ++ [x]) (by simpa using hj)
      simp only [List.append_assoc, List.singleton_append, List.length_append, List.length_singleton] at this
      simp only [countK, hget, List.take_succ_cons, List.filter_cons]
      rw [this]
      cases f x <;> simp <;> omega

theorem keepFrom_subset {α : Type} (keep : List Bool) : ∀ (S : List α) (k : Nat),
    ∀ b ∈ keepFrom keep k S, b ∈ S := by
  intro S
  induction S with
  | nil => intro k b hb; simp [keepFrom] at hb
  | cons y ys ih =>
    intro k b hb
    simp only [keepFrom] at hb
    split at hb
    · rcases List.mem_cons.mp hb with h | h
      · exact h ▸ List.mem_cons_self
      · exact List.mem_cons_of_mem _ (ih _ b h)
    · exact List.mem_cons_of_mem _ (ih _ b hb)

theorem filterMap_congr' {α β : Type} {g h : α → Option β} : ∀ {l : List α},
    (∀ x ∈ l, g x = h x) → l.filterMap g = l.filterMap h := by
  intro l
  induction l with
  | nil => intro _; rfl
  | cons x xs ih =>
    intro hx
    simp only [List.filterMap_cons, hx x List.mem_cons_self]
    rw [ih (fun y hy => hx y (List.mem_cons_of_mem _ hy))]

/-- new index of old node `j`: the number of selected nodes before it -/
def rank (t : T) (f : Nat → Bool) (j : Nat) : Nat := ((t.nodes.take j).filter f).length

/-- an edge after filtering: dropped if its destination is dropped, re-indexed otherwise -/
def remap (t : T) (f : Nat → Bool) (e : Edge) : Option Edge :=
  if f (t.nodes.getD e.dst 0) then some { e with dst := rank t f e.dst } else none

theorem keep_getD (t : T) (f : Nat → Bool) (j : Nat) (hj : j < t.nodes.length) :
    (t.nodes.map f).getD j false = f (t.nodes.getD j 0) := by
  simp [List.getD_eq_getElem?_getD, List.getElem?_eq_getElem hj]

theorem countK_rank (t : T) (f : Nat → Bool) (j : Nat) (hj : j ≤ t.nodes.length) :
    countK (t.nodes.map f) 0 j = rank t f j := by
  have := countK_map_filter f j t.nodes [] hj
  simpa [rank] using this

theorem filterNodes_eq (t : T) (hwf : t.WF) (f : Nat → Bool) :
    filterNodes t f =
      { nodes := t.nodes.filter f
        edges := (keepFrom (t.nodes.map f) 0 t.edges).map fun bundle => bundle.filterMap (remap t f) } := by
  have hloop := filterLoop_spec (t.nodes.map f) t.nodes.length 0 0 [] t.nodes [] t.edges [] rfl rfl rfl hwf.1
  simp only [List.nil_append] at hloop
  have hk := keepFrom_map_filter f t.nodes []
  simp only [List.nil_append, List.length_nil] at hk
  unfold filterNodes
  simp only [List.range_eq_range', hloop, hk]
  congr 1
  -- the bundles that survive are bundles of `t`, whose destinations are in range
  apply List.map_congr_left
  intro bundle hb
  apply filterMap_congr'
  intro e he
  have hlt : e.dst < t.nodes.length := hwf.2 bundle (keepFrom_subset _ _ _ bundle hb) e he
  have hm := mapFrom_getD (t.nodes.map f) t.nodes.length 0 0 e.dst hlt
  simp only [Nat.zero_add] at hm
  rw [hm, keep_getD t f e.dst hlt, countK_rank t f e.dst (by omega)]
  unfold remap
  cases f (t.nodes.getD e.dst 0) <;> rfl

theorem rank_surj (f : Nat → Bool) : ∀ (S : List Nat) (i' : Nat), i' < (S.filter f).length →
    ∃ i x, S[i]? = some x ∧ f x = true ∧ ((S.take i).filter f).length = i' := by
  intro S
  induction S with
  | nil => intro i' h; simp at h
  | cons y ys ih =>
    intro i' h
    cases hy : f y
    · simp only [List.filter_cons, hy, Bool.false_eq_true, if_false] at h
      obtain ⟨i, x, h1, h2, h3⟩ := ih i' h
      exact ⟨i + 1, x, by simpa using h1, h2, by simp [List.take_succ_cons, hy, h3]⟩
    · cases i' with
      | zero => exact ⟨0, y, by simp, hy, by simp⟩
      | succ k =>
        simp only [List.filter_cons, hy, if_true, List.length_cons] at h
        obtain ⟨i, x, h1, h2, h3⟩ := ih k (by omega)
        exact ⟨i + 1, x, by simpa using h1, h2, by simp [List.take_succ_cons, hy, h3]⟩

theorem filterNodes_node (t : T) (f : Nat → Bool) (i m : Nat) (hi : t.nodes[i]? = some m)
    (hm : f m = true) : (t.nodes.filter f)[rank t f i]? = some m := by
  have hlt : i < t.nodes.length := by
    by_cases h : i < t.nodes.length
    · exact h
    · rw [List.getElem?_eq_none (by omega)] at hi; cases hi
  have hk : (t.nodes.map f).getD (0 + i) false = true := by
    rw [Nat.zero_add, keep_getD t f i hlt]
    simp [List.getD_eq_getElem?_getD, hi, hm]
  have := keepFrom_getElem (t.nodes.map f) t.nodes 0 i m hi hk
  rw [countK_rank t f i (by omega)] at this
  have hkf := keepFrom_map_filter f t.nodes []
  simp only [List.nil_append, List.length_nil] at hkf
  rw [hkf] at this
  exact this

theorem filterNodes_bundle (t : T) (hwf : t.WF) (f : Nat → Bool) (i m : Nat) (hi : t.nodes[i]? = some m)
    (hm : f m = true) :
    (filterNodes t f).edgesAt (rank t f i) = (t.edgesAt i).filterMap (remap t f) := by
  have hlt : i < t.nodes.length := by
    by_cases h : i < t.nodes.length
    · exact h
    · rw [List.getElem?_eq_none (by omega)] at hi; cases hi
  have hk : (t.nodes.map f).getD (0 + i) false = true := by
    rw [Nat.zero_add, keep_getD t f i hlt]
    simp [List.getD_eq_getElem?_getD, hi, hm]
  have hes : t.edges[i]? = some (t.edges[i]'(by rw [hwf.1]; exact hlt)) := List.getElem?_eq_getElem _
  have := keepFrom_getElem (t.nodes.map f) t.edges 0 i _ hes hk
  rw [countK_rank t f i (by omega)] at this
  rw [filterNodes_eq t hwf f]
  simp only [T.edgesAt, List.getD_eq_getElem?_getD, List.getElem?_map, this, hes, Option.map_some,
    Option.getD_some]

theorem filterNodes_wf (t : T) (hwf : t.WF) (f : Nat → Bool) : (filterNodes t f).WF := by
  rw [filterNodes_eq t hwf f]
  have hkf := keepFrom_map_filter f t.nodes []
  simp only [List.nil_append, List.length_nil] at hkf
  constructor
  · simp only [List.length_map]
    rw [keepFrom_length, ← hkf, keepFrom_length, hwf.1]
  · intro es hes e he
    simp only [List.mem_map] at hes
    obtain ⟨bundle, hbk, rfl⟩ := hes
    obtain ⟨e0, he0, hr⟩ := List.mem_filterMap.mp he
    unfold remap at hr
    split at hr
    · rename_i hf
      cases hr
      simp only
      -- destination in range: it is the position of a selected node
      have hb : bundle ∈ t.edges := keepFrom_subset _ _ _ bundle hbk
      have hlt := hwf.2 bundle hb e0 he0
      have hget : t.nodes[e0.dst]? = some (t.nodes.getD e0.dst 0) := by
        simp [List.getD_eq_getElem?_getD, List.getElem?_eq_getElem hlt]
      have := filterNodes_node t f e0.dst _ hget hf
      by_cases h : rank t f e0.dst < (t.nodes.filter f).length
      · exact h
      · rw [List.getElem?_eq_none (by omega)] at this; cases this
    · cases hr

end Topo

/-
`as_parent_str` and gate paths (`appended_gate`) on representable paths.
-/
import Desverif.Proofs.ObjPathOps
namespace ObjPath

/-- the path of gate `g` on the module at `segs` -/
def gateOf (segs : List (List Nat)) (g : List Nat) : Path := { reprOf (segs ++ [g]) with isGate := true }

theorem parent_setGate (p : Path) (g : Bool) : parent { p with isGate := g } = parent p := rfl
theorem name_setGate (p : Path) (g : Bool) : name { p with isGate := g } = name p := rfl
theorem asParentStr_setGate (p : Path) (g : Bool) :
    asParentStr { p with isGate := g } = asParentStr p := rfl

/-- `as_parent_str` of an appended path is the dotted string of the path it was appended to -/
theorem asParentStr_reprOf_snoc (s : List (List Nat)) (n : List Nat) :
    asParentStr (reprOf (s ++ [n])) = .ok (render s) := by
  by_cases hnil : s = []
  · subst hnil
    simp [reprOf_single, asParentStr, sliceTo, isBoundary, render]
  · rw [reprOf_snoc_cons s n hnil]
    have hb : isBoundary (render s ++ DOT :: n) (render s).length = true := by
      unfold isBoundary
      split
      · rfl
      · simp [isCont_dot]
    unfold asParentStr sliceTo
    simp only [Nat.add_sub_cancel, hb, Bool.and_true]
    simp

theorem asParentStr_root : asParentStr root = .ok [] := rfl

/-- `appended_gate` never fails on a module path and yields the gate path -/
theorem appendedGate_reprOf (s : List (List Nat)) (g : List Nat) (hg : g ≠ []) :
    appendedGate (reprOf s) g = .ok (gateOf s g) := by
  unfold appendedGate
  rw [appended_reprOf s g hg]
  rfl

/-- nothing can be appended to a gate path (the `assert!` in `appended`) -/
theorem appended_gateOf (s : List (List Nat)) (g x : List Nat) :
    appended (gateOf s g) x = .error .gateAppend := by
  simp [appended, gateOf]

theorem appendedGate_gateOf (s : List (List Nat)) (g x : List Nat) :
    appendedGate (gateOf s g) x = .error .gateAppend := by
  simp [appendedGate, appended_gateOf]

end ObjPath

/-
The wake-up invariant of the timer driver model and its preservation by every event.
-/
import Desverif.Proofs.TimerList
namespace Timer

/-- **WakeInv**: holds between the events of a module (`now` = time of its last event). -/
structure WakeInv (now : Nat) (t : State) : Prop where
  sorted : Sorted t.pending
  /-- J0: every slot that still has an entry is later than `now` (nothing is overdue) -/
  j0 : ∀ s ∈ t.pending, s.entries ≠ [] → now < s.time
  /-- J1: a recorded `next_wakeup` is a wake-up event that really is in the event set, in the future -/
  j1 : t.nextWakeup < tMax → t.nextWakeup ∈ t.wakeups ∧ now < t.nextWakeup
  /-- J2: every non-empty slot is covered by the recorded wake-up -/
  j2 : ∀ s ∈ t.pending, s.entries ≠ [] → t.nextWakeup ≤ s.time
  /-- the module's wake-up events are not in the past (the event set delivers in time order) -/
  jw : ∀ w ∈ t.wakeups, now ≤ w

/-- the invariant that holds inside an event (between `activate` and `deactivate`) -/
structure Mid (now : Nat) (t : State) : Prop where
  sorted : Sorted t.pending
  m0 : ∀ s ∈ t.pending, s.entries ≠ [] → now < s.time
  m1 : t.nextWakeup < tMax → t.nextWakeup ∈ t.wakeups ∧ now < t.nextWakeup
  mw : ∀ w ∈ t.wakeups, now ≤ w

/-- the part of `Mid` that concerns the queue -/
def Pend (now : Nat) (p : List Slot) : Prop := Sorted p ∧ ∀ s ∈ p, s.entries ≠ [] → now < s.time

theorem pend_add {now : Nat} {p : List Slot} (e : Entry) {d : Nat} (hd : now < d) (h : Pend now p) :
    Pend now (add p e d) := by
  refine ⟨sorted_add p e d h.1, ?_⟩
  intro s' hs' hne
  rcases mem_add p e d s' hs' with hm | ⟨ht, _⟩
  · exact h.2 s' hm hne
  · omega

theorem pend_removeEntry {now : Nat} {p : List Slot} (hh sid : Nat) (h : Pend now p) :
    Pend now (removeEntry p hh sid) := by
  refine ⟨sorted_removeEntry hh sid h.1, ?_⟩
  intro s' hs' hne
  obtain ⟨s, hs, ht, hsub, _⟩ := mem_removeEntry hs'
  rw [ht]
  refine h.2 s hs ?_
  intro hnil
  cases hx : s'.entries with
  | nil => exact hne hx
  | cons x xs =>
    have := hsub x (by rw [hx]; exact List.mem_cons_self)
    rw [hnil] at this
    cases this

/-- `Sleep::reset` may name any new deadline (even a past one): the slot it leaves behind holds
    no entry that was not there before -/
theorem pend_resetEntry {now : Nat} {p : List Slot} (hh sid d' : Nat) (h : Pend now p) :
    Pend now (resetEntry p hh sid d') := by
  unfold resetEntry
  split
  · exact h
  · rename_i e hf
    have hsid := findEntry_sid hf
    have hq := pend_removeEntry hh sid h
    refine ⟨sorted_removeEntry _ _ (sorted_add _ _ _ hq.1), ?_⟩
    intro s' hs' hne
    obtain ⟨s1, hs1, ht, hsub, hcase⟩ := mem_removeEntry hs'
    rw [ht]
    rcases mem_add _ e d' s1 hs1 with hm | ⟨ht1, old, hold, hsrc⟩
    · refine hq.2 s1 hm ?_
      intro hnil
      cases hx : s'.entries with
      | nil => exact hne hx
      | cons x xs =>
        have := hsub x (by rw [hx]; exact List.mem_cons_self)
        rw [hnil] at this
        cases this
    · -- the slot the entry was moved to
      have herase : s'.entries = eraseSid sid s1.entries := by
        rw [hcase, if_pos ht1]
      rw [herase, hold] at hne
      have hold_ne := eraseSid_append_ne_nil hsid hne
      rcases hsrc with hnil | ⟨s0, hs0, ht0, he0⟩
      · exact absurd hnil hold_ne
      · rw [ht1, ← ht0]
        exact hq.2 s0 hs0 (by rw [he0]; exact hold_ne)

/-! ### ops inside an event -/

theorem applyOp_nextWakeup (t : State) (o : Op) : (applyOp t o).nextWakeup = t.nextWakeup := by
  cases o <;> rfl
theorem applyOp_wakeups (t : State) (o : Op) : (applyOp t o).wakeups = t.wakeups := by
  cases o <;> rfl

theorem applyOps_nextWakeup (t : State) (ops : List Op) : (applyOps t ops).nextWakeup = t.nextWakeup := by
  induction ops generalizing t with
  | nil => rfl
  | cons o r ih => simp only [applyOps, List.foldl_cons] at ih ⊢; rw [ih, applyOp_nextWakeup]
theorem applyOps_wakeups (t : State) (ops : List Op) : (applyOps t ops).wakeups = t.wakeups := by
  induction ops generalizing t with
  | nil => rfl
  | cons o r ih => simp only [applyOps, List.foldl_cons] at ih ⊢; rw [ih, applyOp_wakeups]

theorem pend_applyOp {now : Nat} {t : State} {o : Op} (ho : o.ok now) (h : Pend now t.pending) :
    Pend now (applyOp t o).pending := by
  cases o with
  | register d sid tid => exact pend_add _ ho h
  | remove hh sid => exact pend_removeEntry _ _ h
  | reset hh sid d' => exact pend_resetEntry _ _ _ h

theorem sorted_applyOp {t : State} (o : Op) (h : Sorted t.pending) : Sorted (applyOp t o).pending := by
  cases o with
  | register d sid tid => exact sorted_add _ _ _ h
  | remove hh sid => exact sorted_removeEntry _ _ h
  | reset hh sid d' =>
    simp only [applyOp, resetEntry]
    split
    · exact h
    · exact sorted_removeEntry _ _ (sorted_add _ _ _ (sorted_removeEntry _ _ h))

theorem sorted_applyOps {t : State} (ops : List Op) (h : Sorted t.pending) : Sorted (applyOps t ops).pending := by
  induction ops generalizing t with
  | nil => exact h
  | cons o r ih => simp only [applyOps, List.foldl_cons] at ih ⊢; exact ih (sorted_applyOp o h)

theorem mid_applyOp {now : Nat} {t : State} {o : Op} (ho : o.ok now) (h : Mid now t) : Mid now (applyOp t o) := by
  have hp := pend_applyOp ho ⟨h.sorted, h.m0⟩
  refine ⟨hp.1, hp.2, ?_, ?_⟩
  · rw [applyOp_nextWakeup, applyOp_wakeups]; exact h.m1
  · rw [applyOp_wakeups]; exact h.mw

theorem mid_applyOps {now : Nat} {t : State} {ops : List Op} (ho : ∀ o ∈ ops, o.ok now) (h : Mid now t) :
    Mid now (applyOps t ops) := by
  induction ops generalizing t with
  | nil => exact h
  | cons o r ih =>
    simp only [applyOps, List.foldl_cons] at ih ⊢
    exact ih (fun o' ho' => ho o' (List.mem_cons_of_mem _ ho')) (mid_applyOp (ho o List.mem_cons_self) h)

/-! ### activate / deactivate -/

/-- `activate` at a time the event set can deliver (`now' ≤` every wake-up of the module)
    establishes `Mid`: it needs only sortedness and J1 of the state before. -/
theorem mid_activate {now' : Nat} {t : State} (wake : Bool) (hs : Sorted t.pending)
    (hj1 : t.nextWakeup < tMax → t.nextWakeup ∈ t.wakeups)
    (hw : ∀ w ∈ t.wakeups, now' ≤ w) :
    Mid now' (activate now' (if wake then { t with wakeups := t.wakeups.erase now' } else t)).1 := by
  have hpend : (activate now' (if wake then { t with wakeups := t.wakeups.erase now' } else t)).1.pending
      = t.pending.dropWhile (fun s => s.time ≤ now') := by
    cases wake <;> rfl
  have hnw : (activate now' (if wake then { t with wakeups := t.wakeups.erase now' } else t)).1.nextWakeup
      = if t.nextWakeup ≤ now' then tMax else t.nextWakeup := by
    cases wake <;> rfl
  have hwk : (activate now' (if wake then { t with wakeups := t.wakeups.erase now' } else t)).1.wakeups
      = if wake then t.wakeups.erase now' else t.wakeups := by
    cases wake <;> rfl
  refine ⟨?_, ?_, ?_, ?_⟩
  · rw [hpend]; exact sorted_dropWhile now' hs
  · rw [hpend]; intro s hs' _; exact dropWhile_gt hs s hs'
  · rw [hnw, hwk]
    split
    · intro h; exact absurd h (Nat.lt_irrefl _)
    · rename_i hgt
      intro hlt
      refine ⟨?_, by omega⟩
      cases wake with
      | false => exact hj1 hlt
      | true =>
        simp only [if_true]
        exact (List.mem_erase_of_ne (by omega)).mpr (hj1 hlt)
  · rw [hwk]
    intro w hw'
    cases wake with
    | false => exact hw w hw'
    | true => exact hw w (List.mem_of_mem_erase hw')

theorem deactivateWith_pending (nx : List Slot → Option Nat) (t : State) :
    (deactivateWith nx t).pending = t.pending := by
  unfold deactivateWith
  split
  · split <;> rfl
  · rfl

/-- `deactivate` (with the repaired `next`) turns `Mid` into `WakeInv` -/
theorem wakeinv_deactivate {now : Nat} {t : State} (h : Mid now t) : WakeInv now (deactivate t) := by
  unfold deactivate deactivateWith
  split
  · rename_i n hn
    obtain ⟨⟨s, hs, hst, hsne⟩, hmin⟩ := next_some h.sorted hn
    have hnow : now < n := by rw [← hst]; exact h.m0 s hs hsne
    split
    · rename_i hlt
      refine ⟨h.sorted, h.m0, ?_, ?_, ?_⟩
      · intro _; exact ⟨List.mem_append_right _ (List.mem_singleton.mpr rfl), hnow⟩
      · exact hmin
      · intro w hw
        rcases List.mem_append.mp hw with hw | hw
        · exact h.mw w hw
        · have := List.mem_singleton.mp hw; omega
    · rename_i hge
      refine ⟨h.sorted, h.m0, h.m1, ?_, h.mw⟩
      intro s' hs' hne
      have := hmin s' hs' hne
      omega
  · rename_i hn
    have hall := next_none hn
    refine ⟨h.sorted, h.m0, h.m1, ?_, h.mw⟩
    intro s hs hne
    exact absurd (hall s hs) hne

/-- what the event set guarantees about the time of a module's next event, and what
    `Sleep::poll` guarantees about the deadlines it registers -/
def EvOk (t : State) (e : Ev) : Prop :=
  (∀ w ∈ t.wakeups, e.time ≤ w) ∧ (∀ o ∈ e.ops, o.ok e.time)

theorem stepEv_fst (t : State) (e : Ev) :
    (stepEv t e).1 = deactivate (applyOps (activate e.time
      (if e.wake then { applyOps t e.pre with wakeups := (applyOps t e.pre).wakeups.erase e.time }
       else applyOps t e.pre)).1 e.ops) := rfl

theorem stepEv_snd (t : State) (e : Ev) :
    (stepEv t e).2 = ((applyOps t e.pre).pending.takeWhile (fun s => s.time ≤ e.time)).flatMap (·.entries) := by
  simp only [stepEv, stepWith, activate, bump]
  cases e.wake <;> rfl

/-- **WakeInv is preserved by every event** (any handler/task behaviour `ops`, any drops `pre`). -/
theorem wakeinv_step {now : Nat} {t : State} (h : WakeInv now t) {e : Ev} (he : EvOk t e) :
    WakeInv e.time (stepEv t e).1 := by
  rw [stepEv_fst]
  apply wakeinv_deactivate
  apply mid_applyOps he.2
  apply mid_activate
  · exact sorted_applyOps _ h.sorted
  · rw [applyOps_nextWakeup, applyOps_wakeups]; exact fun hlt => (h.j1 hlt).1
  · rw [applyOps_wakeups]; exact he.1

def Consistent : State → List Ev → Prop
  | _, [] => True
  | t, e :: es => EvOk t e ∧ Consistent (stepEv t e).1 es

def lastTime (now : Nat) : List Ev → Nat
  | [] => now
  | e :: es => lastTime e.time es

theorem runEvs_cons (t : State) (e : Ev) (es : List Ev) :
    runEvs t (e :: es) = ((runEvs (stepEv t e).1 es).1, (e.time, (stepEv t e).2) :: (runEvs (stepEv t e).1 es).2) := rfl

theorem wakeinv_run {now : Nat} {t : State} (h : WakeInv now t) (evs : List Ev) (hc : Consistent t evs) :
    WakeInv (lastTime now evs) (runEvs t evs).1 := by
  induction evs generalizing now t with
  | nil => exact h
  | cons e es ih =>
    rw [runEvs_cons]
    exact ih (wakeinv_step h hc.1) hc.2

theorem wakeinv_init : WakeInv 0 {} := by
  refine ⟨List.Pairwise.nil, ?_, ?_, ?_, ?_⟩
  · intro s hs; cases hs
  · intro h; exact absurd h (Nat.lt_irrefl _)
  · intro s hs; cases hs
  · intro w hw; cases hw

/-! ### a registered entry stays registered until it fires -/

theorem hasEntry_applyOp {t : State} {o : Op} {d : Nat} {e : Entry} (hno : o.touches e.sid = false)
    (h : HasEntry t.pending d e) : HasEntry (applyOp t o).pending d e := by
  obtain ⟨s, hs, ht, he⟩ := h
  cases o with
  | register d' sid tid =>
    obtain ⟨s', hs', ht', hsub⟩ := add_keeps t.pending ⟨sid, tid⟩ d' s hs
    exact ⟨s', hs', by omega, hsub e he⟩
  | remove hh sid =>
    have hne : e.sid ≠ sid := by
      intro heq; simp [Op.touches, heq] at hno
    obtain ⟨s', hs', ht', hsub⟩ := removeEntry_keeps (h := hh) (sid := sid) hs
    exact ⟨s', hs', by omega, hsub e he hne⟩
  | reset hh sid d' =>
    have hne : e.sid ≠ sid := by
      intro heq; simp [Op.touches, heq] at hno
    simp only [applyOp, resetEntry]
    split
    · exact ⟨s, hs, ht, he⟩
    · rename_i e' _
      obtain ⟨s1, hs1, ht1, hsub1⟩ := removeEntry_keeps (h := hh) (sid := sid) hs
      obtain ⟨s2, hs2, ht2, hsub2⟩ := add_keeps _ e' d' s1 hs1
      obtain ⟨s3, hs3, ht3, hsub3⟩ := removeEntry_keeps (h := d') (sid := sid) hs2
      exact ⟨s3, hs3, by omega, hsub3 e (hsub2 e (hsub1 e he hne)) hne⟩

theorem hasEntry_applyOps {t : State} {ops : List Op} {d : Nat} {e : Entry}
    (hno : ∀ o ∈ ops, o.touches e.sid = false) (h : HasEntry t.pending d e) :
    HasEntry (applyOps t ops).pending d e := by
  induction ops generalizing t with
  | nil => exact h
  | cons o r ih =>
    simp only [applyOps, List.foldl_cons] at ih ⊢
    exact ih (fun o' ho' => hno o' (List.mem_cons_of_mem _ ho')) (hasEntry_applyOp (hno o List.mem_cons_self) h)

/-- a live entry is covered by a wake-up event of the module that is in the event set -/
theorem live_has_wakeup {now : Nat} {t : State} (h : WakeInv now t) {d : Nat} {e : Entry}
    (hl : HasEntry t.pending d e) (hd : d < tMax) :
    now < d ∧ t.nextWakeup ∈ t.wakeups ∧ now < t.nextWakeup ∧ t.nextWakeup ≤ d := by
  obtain ⟨s, hs, ht, he⟩ := hl
  have hne : s.entries ≠ [] := by intro hn; rw [hn] at he; cases he
  have h0 := h.j0 s hs hne
  have h2 := h.j2 s hs hne
  have h1 := h.j1 (by omega)
  exact ⟨by omega, h1.1, h1.2, by omega⟩

end Timer

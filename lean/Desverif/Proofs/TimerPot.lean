/-
Potential of one module's timer driver: (number of scheduled wake-up events) + (number of slots).
An event that is one of the wake-ups lowers it by one, up to twice the number of slot-creating
operations performed in the event.  Basis of the termination proof (Proofs/TimerTerm.lean).
-/
import Desverif.Proofs.TimerFire
import Desverif.Proofs.TimerMeasure
import Desverif.Model.TimerSim
namespace Timer

/-- a recorded `next_wakeup` is the deadline of a slot that is still in the queue -/
def SlotInv (t : State) : Prop := t.nextWakeup < tMax → ∃ s ∈ t.pending, s.time = t.nextWakeup

theorem length_add_le (p : List Slot) (e : Entry) (d : Nat) : (add p e d).length ≤ p.length + 1 := by
  induction p with
  | nil => simp [add]
  | cons a rest ih =>
    simp only [add]
    split
    · simp
    · split
      · simp
      · simp only [List.length_cons]; omega

theorem length_removeEntry (p : List Slot) (h sid : Nat) : (removeEntry p h sid).length = p.length := by
  simp [removeEntry]

theorem length_resetEntry_le (p : List Slot) (h sid d' : Nat) : (resetEntry p h sid d').length ≤ p.length + 1 := by
  unfold resetEntry
  split
  · omega
  · rw [length_removeEntry]
    have := length_add_le (removeEntry p h sid) ‹Entry› d'
    rw [length_removeEntry] at this
    exact this

theorem length_applyOp_le (t : State) (o : Op) :
    (applyOp t o).pending.length ≤ t.pending.length + cnt [o] := by
  cases o with
  | register d sid tid => simpa [applyOp, cnt, Op.isRemove] using length_add_le _ _ _
  | remove h sid => simp [applyOp, cnt, Op.isRemove, length_removeEntry]
  | reset h sid d' => simpa [applyOp, cnt, Op.isRemove] using length_resetEntry_le _ _ _ _

theorem length_applyOps_le (t : State) (ops : List Op) :
    (applyOps t ops).pending.length ≤ t.pending.length + cnt ops := by
  induction ops generalizing t with
  | nil => simp [applyOps, cnt]
  | cons o r ih =>
    have h1 := length_applyOp_le t o
    have h2 := ih (applyOp t o)
    have h3 : cnt (o :: r) = cnt [o] + cnt r := cnt_append [o] r
    simp only [applyOps, List.foldl_cons] at h2 ⊢
    omega

theorem cnt_zero_removes {ops : List Op} (h : cnt ops = 0) : ∀ o ∈ ops, o.isRemove = true := by
  intro o ho
  cases hr : o.isRemove with
  | true => rfl
  | false =>
    have : o ∈ ops.filter (fun o => !o.isRemove) := List.mem_filter.mpr ⟨ho, by simp [hr]⟩
    unfold cnt at h
    rw [List.length_eq_zero_iff.mp h] at this
    cases this

theorem removes_cnt_zero {ops : List Op} (h : ∀ o ∈ ops, o.isRemove = true) : cnt ops = 0 := by
  unfold cnt
  rw [List.length_eq_zero_iff, List.filter_eq_nil_iff]
  intro o ho
  simp [h o ho]

theorem length_dropWhile_le (p : List Slot) (now : Nat) :
    (p.dropWhile (fun s => s.time ≤ now)).length ≤ p.length :=
  (List.dropWhile_sublist _).length_le

theorem length_dropWhile_lt {p : List Slot} {now : Nat} (hp : Sorted p) {s : Slot} (hs : s ∈ p)
    (hle : s.time ≤ now) : (p.dropWhile (fun s => s.time ≤ now)).length < p.length := by
  cases p with
  | nil => cases hs
  | cons a rest =>
    have ha := List.pairwise_cons.mp hp
    have hat : a.time ≤ now := by
      rcases List.mem_cons.mp hs with h | h
      · subst h; exact hle
      · have := ha.1 s h; omega
    simp only [List.dropWhile_cons, hat, decide_true, if_true, List.length_cons]
    have := length_dropWhile_le rest now
    omega

/-- slots are never removed by operations -/
theorem slot_kept_applyOp (t : State) (o : Op) {s : Slot} (hs : s ∈ t.pending) :
    ∃ s' ∈ (applyOp t o).pending, s'.time = s.time := by
  cases o with
  | register d sid tid =>
    obtain ⟨s', h1, h2, _⟩ := add_keeps t.pending ⟨sid, tid⟩ d s hs
    exact ⟨s', h1, h2⟩
  | remove h sid =>
    obtain ⟨s', h1, h2, _⟩ := removeEntry_keeps (h := h) (sid := sid) hs
    exact ⟨s', h1, h2⟩
  | reset h sid d' =>
    simp only [applyOp, resetEntry]
    split
    · exact ⟨s, hs, rfl⟩
    · rename_i e' _
      obtain ⟨s1, hs1, ht1, _⟩ := removeEntry_keeps (h := h) (sid := sid) hs
      obtain ⟨s2, hs2, ht2, _⟩ := add_keeps _ e' d' s1 hs1
      obtain ⟨s3, hs3, ht3, _⟩ := removeEntry_keeps (h := d') (sid := sid) hs2
      exact ⟨s3, hs3, by omega⟩

theorem slot_kept_applyOps (t : State) (ops : List Op) {s : Slot} (hs : s ∈ t.pending) :
    ∃ s' ∈ (applyOps t ops).pending, s'.time = s.time := by
  induction ops generalizing t s with
  | nil => exact ⟨s, hs, rfl⟩
  | cons o r ih =>
    obtain ⟨s1, h1, t1⟩ := slot_kept_applyOp t o hs
    obtain ⟨s2, h2, t2⟩ := ih (applyOp t o) h1
    exact ⟨s2, h2, by omega⟩

theorem slotinv_applyOps {t : State} (h : SlotInv t) (ops : List Op) : SlotInv (applyOps t ops) := by
  intro hlt
  rw [applyOps_nextWakeup] at hlt ⊢
  obtain ⟨s, hs, ht⟩ := h hlt
  obtain ⟨s', hs', ht'⟩ := slot_kept_applyOps t ops hs
  exact ⟨s', hs', by omega⟩

theorem next_some_mem {p : List Slot} {n : Nat} (h : next p = some n) :
    ∃ s ∈ p, s.time = n ∧ s.entries ≠ [] := by
  simp only [next, Option.map_eq_some_iff] at h
  obtain ⟨s, hs, ht⟩ := h
  refine ⟨s, List.mem_of_find?_eq_some hs, ht, ?_⟩
  have := List.find?_some hs
  simpa using this

theorem slotinv_deactivate {t : State} (h : SlotInv t) : SlotInv (deactivate t) := by
  unfold deactivate deactivateWith
  split
  · rename_i n hn
    split
    · intro _
      obtain ⟨s, hs, ht, _⟩ := next_some_mem hn
      exact ⟨s, hs, ht⟩
    · exact h
  · exact h

theorem slotinv_step {t : State} (h : SlotInv t) (e : Ev) : SlotInv (stepEv t e).1 := by
  have h0 := slotinv_applyOps h e.pre
  rw [stepEv_fst]
  -- after activate
  have h2 : SlotInv (activate e.time
      (if e.wake then { applyOps t e.pre with wakeups := (applyOps t e.pre).wakeups.erase e.time }
       else applyOps t e.pre)).1 := by
    have hp : (activate e.time
      (if e.wake then { applyOps t e.pre with wakeups := (applyOps t e.pre).wakeups.erase e.time }
       else applyOps t e.pre)).1.pending = (applyOps t e.pre).pending.dropWhile (fun s => s.time ≤ e.time) := by
      cases e.wake <;> rfl
    have hn : (activate e.time
      (if e.wake then { applyOps t e.pre with wakeups := (applyOps t e.pre).wakeups.erase e.time }
       else applyOps t e.pre)).1.nextWakeup =
        if (applyOps t e.pre).nextWakeup ≤ e.time then tMax else (applyOps t e.pre).nextWakeup := by
      cases e.wake <;> rfl
    intro hlt
    rw [hn] at hlt ⊢
    rw [hp]
    split at hlt
    · exact absurd hlt (Nat.lt_irrefl _)
    · rename_i hgt
      rw [if_neg hgt]
      obtain ⟨s, hs, ht⟩ := h0 hlt
      exact ⟨s, mem_dropWhile_of_gt hs (by omega), ht⟩
  exact slotinv_deactivate (slotinv_applyOps h2 e.ops)

theorem wakeinv_removes {now : Nat} {t : State} (h : WakeInv now t) {ops : List Op}
    (hr : ∀ o ∈ ops, o.isRemove = true) : WakeInv now (applyOps t ops) := by
  refine ⟨sorted_applyOps _ h.sorted, ?_, ?_, ?_, ?_⟩
  · intro s hs hne
    obtain ⟨s0, hs0, ht0, hne0⟩ := nonempty_after_removes hr s hs hne
    rw [← ht0]; exact h.j0 s0 hs0 hne0
  · rw [applyOps_nextWakeup, applyOps_wakeups]; exact h.j1
  · intro s hs hne
    obtain ⟨s0, hs0, ht0, hne0⟩ := nonempty_after_removes hr s hs hne
    rw [applyOps_nextWakeup, ← ht0]; exact h.j2 s0 hs0 hne0
  · rw [applyOps_wakeups]; exact h.jw

/-- potential change of an event without drops in front -/
theorem tPhi_step0 {now : Nat} {t : State} (hinv : WakeInv now t) (hs : SlotInv t) (time : Nat) (wake : Bool)
    (ops : List Op) (hw : wake = true → time ∈ t.wakeups) :
    tPhi (stepEv t { time := time, wake := wake, ops := ops }).1 + (if wake then 1 else 0) ≤ tPhi t + 2 * cnt ops := by
  rw [stepEv_fst]
  simp only [applyOps, List.foldl_nil]
  -- the state after activate
  have hdl := length_dropWhile_le t.pending time
  generalize hA : (activate time (if wake = true then { t with wakeups := t.wakeups.erase time } else t)).1 = A
  have hAp : A.pending = t.pending.dropWhile (fun s => s.time ≤ time) := by
    rw [← hA]; cases wake <;> rfl
  have hAn : A.nextWakeup = if t.nextWakeup ≤ time then tMax else t.nextWakeup := by
    rw [← hA]; cases wake <;> rfl
  have hAw : A.wakeups.length + (if wake then 1 else 0) = t.wakeups.length := by
    rw [← hA]
    cases wake with
    | false => rfl
    | true =>
      have := List.length_erase_of_mem (hw rfl)
      have hpos : 0 < t.wakeups.length := List.length_pos_of_mem (hw rfl)
      show (t.wakeups.erase time).length + 1 = _
      omega
  have hlen := length_applyOps_le A ops
  have hB : (List.foldl applyOp A ops) = applyOps A ops := rfl
  rw [hB]
  unfold deactivate deactivateWith
  split
  · rename_i n hn
    split
    · rename_i hlt
      simp only [tPhi, List.length_append, List.length_singleton]
      rw [applyOps_wakeups]
      by_cases hc : cnt ops = 0
      · -- only drops happened: the new wake-up replaces one whose slot was just popped
        have hrem := cnt_zero_removes hc
        obtain ⟨s3, hs3, ht3, hne3⟩ := next_some_mem hn
        obtain ⟨s2, hs2, ht2, hne2⟩ := nonempty_after_removes hrem s3 hs3 hne3
        rw [hAp] at hs2
        have hs2p : s2 ∈ t.pending := (List.dropWhile_sublist _).subset hs2
        have hj2 := hinv.j2 s2 hs2p hne2
        rw [applyOps_nextWakeup, hAn] at hlt
        have hcl : t.nextWakeup ≤ time := by
          by_cases hc' : t.nextWakeup ≤ time
          · exact hc'
          · rw [if_neg hc'] at hlt; omega
        rw [if_pos hcl] at hlt
        obtain ⟨s0, hs0, ht0⟩ := hs (by omega)
        have hle0 : s0.time ≤ time := by omega
        have hstrict := length_dropWhile_lt hinv.sorted hs0 hle0
        rw [hAp] at hlen
        omega
      · rw [hAp] at hlen; omega
    · simp only [tPhi]
      rw [applyOps_wakeups]
      rw [hAp] at hlen; omega
  · simp only [tPhi]
    rw [applyOps_wakeups]
    rw [hAp] at hlen; omega

/-- **potential change of any admissible event** -/
theorem tPhi_step {now : Nat} {t : State} (hinv : WakeInv now t) (hs : SlotInv t) (e : Ev)
    (hpre : ∀ o ∈ e.pre, o.isRemove = true) (hw : e.wake = true → e.time ∈ t.wakeups) :
    tPhi (stepEv t e).1 + (if e.wake then 1 else 0) ≤ tPhi t + 2 * cnt e.ops := by
  have h0 := tPhi_step0 (wakeinv_removes hinv hpre) (slotinv_applyOps hs e.pre) e.time e.wake e.ops
    (by rw [applyOps_wakeups]; exact hw)
  have hl := length_applyOps_le t e.pre
  rw [removes_cnt_zero hpre] at hl
  have heq : stepEv (applyOps t e.pre) { time := e.time, wake := e.wake, ops := e.ops } = stepEv t e := rfl
  rw [heq] at h0
  have : tPhi (applyOps t e.pre) ≤ tPhi t := by
    simp only [tPhi, applyOps_wakeups]; omega
  omega

end Timer

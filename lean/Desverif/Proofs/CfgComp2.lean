/-
One iteration of the `compartmentalize_map` loop, the loop, and the function on flat
configurations.
-/
import Desverif.Proofs.CfgComp
namespace Cfg

theorem flatOf_nil {k : Key} {x : String} : ¬ FlatOf [] k x := by
  intro h
  cases h with
  | leaf hm => simp at hm
  | node hm _ => simp at hm

/-- flat reading after replacing the pending entry `key` by a sub-mapping below `K0` -/
theorem replace_flat {cur cur1 cur' : Entries} {key K0 rk : Key} {s : String} {sub0 sub0' : Entries}
    (m1 : ∀ e, e ∈ cur ↔ e = (key, Val.scalar s) ∨ e ∈ cur1)
    (m2 : ∀ e, e ∈ cur' ↔ e = (K0, Val.map sub0') ∨ (e ∈ cur1 ∧ e.1 ≠ K0))
    (oldA : ∀ v, (K0, v) ∈ cur1 → v = .map sub0)
    (oldB : ∀ k x, FlatOf sub0 k x → (K0, Val.map sub0) ∈ cur1)
    (hkey : key = K0 ++ rk)
    (new : ∀ k x, FlatOf sub0' k x ↔ FlatOf sub0 k x ∨ (k = rk ∧ x = s)) :
    ∀ K x, FlatOf cur' K x ↔ FlatOf cur K x := by
  intro K x
  constructor
  · intro h
    cases h with
    | leaf hm =>
      rcases (m2 _).mp hm with hm | hm
      · simp at hm
      · exact FlatOf.leaf ((m1 _).mpr (Or.inr hm.1))
    | @node _ k1 m k' _ hm hf =>
      rcases (m2 _).mp hm with hm | hm
      · simp only [Prod.mk.injEq, Val.map.injEq] at hm
        obtain ⟨h1, h2⟩ := hm
        subst h1 h2
        rcases (new _ _).mp hf with h | ⟨h1, h2⟩
        · exact FlatOf.node ((m1 _).mpr (Or.inr (oldB _ _ h))) h
        · subst h1 h2
          rw [← hkey]
          exact FlatOf.leaf ((m1 _).mpr (Or.inl rfl))
      · exact FlatOf.node ((m1 _).mpr (Or.inr hm.1)) hf
  · intro h
    cases h with
    | leaf hm =>
      rcases (m1 _).mp hm with hm | hm
      · simp only [Prod.mk.injEq, Val.scalar.injEq] at hm
        obtain ⟨h1, h2⟩ := hm
        subst h2
        rw [h1, hkey]
        exact FlatOf.node ((m2 _).mpr (Or.inl rfl)) ((new _ _).mpr (Or.inr ⟨rfl, rfl⟩))
      · by_cases hk : K = K0
        · subst hk; have := oldA _ hm; simp at this
        · exact FlatOf.leaf ((m2 _).mpr (Or.inr ⟨hm, hk⟩))
    | @node _ k1 m k' _ hm hf =>
      rcases (m1 _).mp hm with hm | hm
      · simp at hm
      · by_cases hk : k1 = K0
        · subst hk
          have := oldA _ hm
          simp only [Val.map.injEq] at this
          subst this
          exact FlatOf.node ((m2 _).mpr (Or.inl rfl)) ((new _ _).mpr (Or.inl hf))
        · exact FlatOf.node ((m2 _).mpr (Or.inr ⟨hm, hk⟩)) hf

/-- loop-state invariant and pending-key bookkeeping after such a replacement -/
theorem replace_semi {cur cur1 cur' : Entries} {key K0 : Key} {s : String} {sub0' : Entries}
    (hs : Semi cur)
    (m1 : ∀ e, e ∈ cur ↔ e = (key, Val.scalar s) ∨ e ∈ cur1)
    (m2 : ∀ e, e ∈ cur' ↔ e = (K0, Val.map sub0') ∨ (e ∈ cur1 ∧ e.1 ≠ K0))
    (nd' : (keysOf cur').Nodup) (hK : ENF K0 (.map sub0')) (hkey1 : key ∉ keysOf cur1) :
    Semi cur' ∧ (∀ k v, (k, v) ∈ cur' → Pending k → (k, v) ∈ cur ∧ k ≠ key) ∧
      (∀ k v, (k, v) ∈ cur → Pending k → k ≠ key → (k, v) ∈ cur') := by
  refine ⟨⟨nd', ?_⟩, ?_, ?_⟩
  · intro k v hm
    rcases (m2 _).mp hm with hm | hm
    · simp only [Prod.mk.injEq] at hm
      obtain ⟨h1, h2⟩ := hm
      subst h1 h2
      exact Or.inl hK
    · exact hs.ent k v ((m1 _).mpr (Or.inr hm.1))
  · intro k v hm hp
    rcases (m2 _).mp hm with hm | hm
    · simp only [Prod.mk.injEq] at hm
      rw [hm.1] at hp
      exact absurd hp hK.not_pending
    · exact ⟨(m1 _).mpr (Or.inr hm.1), fun hk => hkey1 (hk ▸ mem_keysOf hm.1)⟩
  · intro k v hm hp hk
    rcases (m1 _).mp hm with hm | hm
    · simp only [Prod.mk.injEq] at hm; exact absurd hm.1 hk
    · refine (m2 _).mpr (Or.inr ⟨hm, ?_⟩)
      intro hk0
      have hk0' : k = K0 := hk0
      rw [hk0'] at hp
      exact hK.not_pending hp

/-- **one loop iteration** on a pending scalar entry -/
theorem step_spec (rec : Entries → Except Err Entries) (g : Nat) (hrec : HRec rec g)
    (cur : Entries) (key : Key) (s : String)
    (hs : Semi cur) (hg : Good cur) (hm : (key, Val.scalar s) ∈ cur) (hp : Pending key)
    (hl : key.length ≤ g + 1) :
    ∃ cur', step rec cur key = .ok cur' ∧ Semi cur' ∧ (∀ K x, FlatOf cur' K x ↔ FlatOf cur K x) ∧
      (∀ k v, (k, v) ∈ cur' → Pending k → (k, v) ∈ cur ∧ k ≠ key) ∧
      (∀ k v, (k, v) ∈ cur → Pending k → k ≠ key → (k, v) ∈ cur') := by
  obtain ⟨top, bot, hsp, hkey, htop⟩ := splitAny_spec hp.1
  have hb := pending_bot (hkey ▸ hp)
  obtain ⟨cur1, hsr, m1, nd1, hk1⟩ := swapRemove_spec hs.nodup hm
  have hlen : bot.length ≤ g := by
    have := congrArg List.length hkey
    simp only [List.length_append, List.length_cons] at this
    omega
  have hsub : ∀ e, e ∈ cur1 → e ∈ cur := fun e he => (m1 e).mpr (Or.inr he)
  unfold step
  simp only [hsp, hsr]
  by_cases ht : top = []
  · -- the key starts with the wildcard: the `<any>` slot of the mapping itself
    subst ht
    simp only [if_true]
    have hkey' : key = [ANY] ++ bot := by simpa using hkey
    obtain ⟨w, hwNF, hget, oldA, oldB⟩ : ∃ w, NF w ∧
        (get cur1 [ANY] = some (.map w) ∨ (get cur1 [ANY] = none ∧ w = [])) ∧
        (∀ v, ([ANY], v) ∈ cur1 → v = .map w) ∧
        (∀ k x, FlatOf w k x → ([ANY], Val.map w) ∈ cur1) := by
      cases hg1 : get cur1 [ANY] with
      | none =>
        refine ⟨[], NF.nil, Or.inr ⟨rfl, rfl⟩, ?_, fun k x h => absurd h flatOf_nil⟩
        intro v hv
        exact absurd (mem_keysOf hv) (get_none_iff.mp hg1)
      | some v =>
        have hv := get_some_mem hg1
        have henf : ENF [ANY] v :=
          (hs.ent _ _ (hsub _ hv)).resolve_right (fun h => not_pending_any h.1)
        obtain ⟨w, hvw, hw, _⟩ := henf.key_any
        subst hvw
        refine ⟨w, hw, Or.inl rfl, ?_, fun _ _ _ => hv⟩
        intro v' hv'
        have := mem_get nd1 hv'
        rw [hg1] at this
        exact (Option.some.inj this).symm
    have hemb : ∀ k x, FlatOf w k x → FlatOf cur ([ANY] ++ k) x :=
      fun k x h => FlatOf.node (hsub _ (oldB k x h)) h
    have hembBot : FlatOf cur ([ANY] ++ bot) s := hkey' ▸ FlatOf.leaf hm
    obtain ⟨sub', ha, hnf, hfl⟩ := anyInsert_spec rec g hrec cur1 w bot s ⟨hwNF, hget⟩ hb hlen
      cur [ANY] hg hemb hembBot
    simp only [ha]
    refine ⟨_, rfl, ?_⟩
    have m2 : ∀ e, e ∈ replace (orInsertEmpty cur1 [ANY]) [ANY] (.map sub') ↔
        e = ([ANY], Val.map sub') ∨ (e ∈ cur1 ∧ e.1 ≠ [ANY]) := fun e => mem_replace_orInsert
    have hK : ENF [ANY] (.map sub') :=
      ENF.any hnf ⟨bot, s, (hfl _ _).mpr (Or.inr ⟨rfl, rfl⟩)⟩
    obtain ⟨r1, r2, r3⟩ := replace_semi hs m1 m2 (nodup_replace_orInsert nd1) hK hk1
    exact ⟨r1, replace_flat m1 m2 oldA oldB hkey' hfl, r2, r3⟩
  · -- a literal prefix `top` leads to the wildcard
    simp only [ht, if_false]
    have hkey' : key = top ++ ([ANY] ++ bot) := by simpa using hkey
    -- common tail, given the mapping `ent` found (or created) under `top`
    have tail : ∀ (ent w : Entries), NF w →
        get (orInsertEmpty cur1 top) top = some (.map ent) →
        (get ent [ANY] = some (.map w) ∨ (get ent [ANY] = none ∧ w = [])) →
        (∀ V, replace (orInsertEmpty ent [ANY]) [ANY] V = [([ANY], V)]) →
        (∀ v, (top, v) ∈ cur1 → v = .map ent) →
        (∀ k x, FlatOf ent k x → (top, Val.map ent) ∈ cur1) →
        (∀ k x, FlatOf ent k x ↔ ∃ k', k = ANY :: k' ∧ FlatOf w k' x) →
        ∃ cur', (match get (orInsertEmpty cur1 top) top with
            | some (.map ent) =>
              match anyInsert rec ent bot (.scalar s) with
              | .ok (some ent') => Except.ok (replace (orInsertEmpty cur1 top) top (.map ent'))
              | .ok none => .ok (orInsertEmpty cur1 top)
              | .error e => .error e
            | _ => .ok (orInsertEmpty cur1 top)) = .ok cur' ∧ Semi cur' ∧
          (∀ K x, FlatOf cur' K x ↔ FlatOf cur K x) ∧
          (∀ k v, (k, v) ∈ cur' → Pending k → (k, v) ∈ cur ∧ k ≠ key) ∧
          (∀ k v, (k, v) ∈ cur → Pending k → k ≠ key → (k, v) ∈ cur') := by
      intro ent w hwNF hget2 hgetE hrepl oldA oldB hflE
      have hemb : ∀ k x, FlatOf w k x → FlatOf cur ((top ++ [ANY]) ++ k) x := by
        intro k x h
        have h1 : FlatOf ent (ANY :: k) x := (hflE _ _).mpr ⟨k, rfl, h⟩
        have := FlatOf.node (hsub _ (oldB _ _ h1)) h1
        simpa using this
      have hembBot : FlatOf cur ((top ++ [ANY]) ++ bot) s := by
        have := FlatOf.leaf hm
        rw [hkey] at this
        simpa using this
      obtain ⟨sub', ha, hnf, hfl⟩ := anyInsert_spec rec g hrec ent w bot s ⟨hwNF, hgetE⟩ hb hlen
        cur (top ++ [ANY]) hg hemb hembBot
      simp only [hget2, ha, hrepl]
      refine ⟨_, rfl, ?_⟩
      have m2 : ∀ e, e ∈ replace (orInsertEmpty cur1 top) top (.map [([ANY], .map sub')]) ↔
          e = (top, Val.map [([ANY], .map sub')]) ∨ (e ∈ cur1 ∧ e.1 ≠ top) :=
        fun e => mem_replace_orInsert
      have hK : ENF top (.map [([ANY], .map sub')]) :=
        ENF.top htop ht hnf ⟨bot, s, (hfl _ _).mpr (Or.inr ⟨rfl, rfl⟩)⟩
      obtain ⟨r1, r2, r3⟩ := replace_semi hs m1 m2 (nodup_replace_orInsert nd1) hK hk1
      refine ⟨r1, replace_flat m1 m2 oldA oldB hkey' ?_, r2, r3⟩
      intro k x
      constructor
      · intro h
        obtain ⟨k', hk', hf'⟩ := h.single_inv
        subst hk'
        rcases (hfl _ _).mp hf' with h1 | ⟨h1, h2⟩
        · exact Or.inl ((hflE _ _).mpr ⟨k', rfl, h1⟩)
        · subst h1 h2; exact Or.inr ⟨rfl, rfl⟩
      · rintro (h | ⟨h1, h2⟩)
        · obtain ⟨k', hk', hf'⟩ := (hflE _ _).mp h
          subst hk'
          exact FlatOf.node (k := [ANY]) (List.mem_singleton.mpr rfl) ((hfl _ _).mpr (Or.inl hf'))
        · subst h1 h2
          exact FlatOf.node (k := [ANY]) (List.mem_singleton.mpr rfl)
            ((hfl _ _).mpr (Or.inr ⟨rfl, rfl⟩))
    cases hg1 : get cur1 top with
    | none =>
      refine tail [] [] NF.nil ?_ (Or.inr ⟨rfl, rfl⟩) ?_ ?_ (fun k x h => absurd h flatOf_nil) ?_
      · rw [get_orInsertEmpty, hg1]
      · intro V; simp [orInsertEmpty, get, replace]
      · intro v hv; exact absurd (mem_keysOf hv) (get_none_iff.mp hg1)
      · intro k x
        constructor
        · intro h; exact absurd h flatOf_nil
        · rintro ⟨_, _, h⟩; exact absurd h flatOf_nil
    | some v =>
      have hv := get_some_mem hg1
      have henf : ENF top v := (hs.ent _ _ (hsub _ hv)).resolve_right (fun h => htop h.1.1)
      have hv' : ∀ v', (top, v') ∈ cur1 → v' = v := by
        intro v' h'
        have := mem_get nd1 h'
        rw [hg1] at this
        exact (Option.some.inj this).symm
      cases henf with
      | any _ _ => simp at htop
      | @top _ w _ _ hw _ =>
        refine tail [([ANY], .map w)] w hw ?_ (Or.inl (by simp [get])) ?_ hv' (fun _ _ _ => hv) ?_
        · rw [get_orInsertEmpty, hg1]
        · intro V; simp [orInsertEmpty, get, replace]
        · intro k x
          constructor
          · intro h; exact h.single_inv
          · rintro ⟨k', hk', h⟩
            subst hk'
            exact FlatOf.node (k := [ANY]) (List.mem_singleton.mpr rfl) h
      | @leaf _ s' _ _ =>
        -- F11b: a scalar entry equals the literal prefix; excluded by `Good`
        exfalso
        refine hg.2 top s' key s (FlatOf.leaf (hsub _ hv)) (FlatOf.leaf hm) ⟨bot, ?_⟩
        rw [hkey]; simp

/-- the `for key in keys` loop -/
theorem loop_spec (rec : Entries → Except Err Entries) (g : Nat) (hrec : HRec rec g) :
    ∀ (todo : List Key) (cur : Entries), Semi cur → Good cur → todo.Nodup →
      (∀ k ∈ todo, ∃ s, (k, Val.scalar s) ∈ cur ∧ Pending k ∧ k.length ≤ g + 1) →
      (∀ k v, (k, v) ∈ cur → Pending k → k ∈ todo) →
      ∃ cur', foldE (step rec) cur todo = .ok cur' ∧ NF cur' ∧
        ∀ K x, FlatOf cur' K x ↔ FlatOf cur K x := by
  intro todo
  induction todo with
  | nil =>
    intro cur hs _ _ _ hall
    exact ⟨cur, rfl, hs.toNF (fun k v hm hp => by simpa using hall k v hm hp), fun _ _ => Iff.rfl⟩
  | cons key todo ih =>
    intro cur hs hg hnd htodo hall
    obtain ⟨s, hm, hp, hl⟩ := htodo key (List.mem_cons_self ..)
    obtain ⟨cur1, h1, hs1, hf1, t1, t2⟩ := step_spec rec g hrec cur key s hs hg hm hp hl
    have hnd' := List.nodup_cons.mp hnd
    obtain ⟨cur2, h2, hnf2, hf2⟩ := ih cur1 hs1 (Good.of_flatEq hf1 hg) hnd'.2
      (by
        intro k hk
        obtain ⟨s', hm', hp', hl'⟩ := htodo k (List.mem_cons_of_mem _ hk)
        have hne : k ≠ key := fun h => hnd'.1 (h ▸ hk)
        exact ⟨s', t2 _ _ hm' hp' hne, hp', hl'⟩)
      (by
        intro k v hm' hp'
        obtain ⟨hc, hne⟩ := t1 k v hm' hp'
        rcases List.mem_cons.mp (hall k v hc hp') with h | h
        · exact absurd h hne
        · exact h)
    exact ⟨cur2, by simp only [foldE, h1, h2], hnf2, fun K x => (hf2 K x).trans (hf1 K x)⟩

/-- **Claim A.** `compartmentalize_map` with fuel `f + 1` on a loop state whose pending keys have
    length at most `f`: succeeds, yields a normal form, preserves the flat reading. -/
theorem compMapF_spec : ∀ f, HRec (compMapF (f + 1)) f := by
  intro f
  induction f with
  | zero =>
    intro es hs hlen _
    have : pendingKeys es = [] := by
      apply List.eq_nil_iff_forall_not_mem.mpr
      intro k hk
      obtain ⟨s, hm, hp⟩ := (mem_pendingKeys hs).mp hk
      have := hlen k _ hm hp
      have hne : k ≠ [] := fun h => by rw [h] at hp; simp [Pending] at hp
      have := List.length_pos_iff.mpr hne
      omega
    refine ⟨es, by simp [compMapF, this, foldE], hs.toNF ?_, fun _ _ => Iff.rfl⟩
    intro k v hm hp
    rcases hs.ent k v hm with h | ⟨_, s, hv⟩
    · exact h.not_pending hp
    · subst hv
      have : k ∈ pendingKeys es := (mem_pendingKeys hs).mpr ⟨s, hm, hp⟩
      simp_all
  | succ f ih =>
    intro es hs hlen hg
    have := loop_spec (compMapF (f + 1)) f ih (pendingKeys es) es hs hg (nodup_pendingKeys hs)
      (by
        intro k hk
        obtain ⟨s, hm, hp⟩ := (mem_pendingKeys hs).mp hk
        exact ⟨s, hm, hp, hlen k _ hm hp⟩)
      (by
        intro k v hm hp
        rcases hs.ent k v hm with h | ⟨_, s, hv⟩
        · exact absurd hp h.not_pending
        · subst hv; exact (mem_pendingKeys hs).mpr ⟨s, hm, hp⟩)
    obtain ⟨cur', h1, h2, h3⟩ := this
    exact ⟨cur', by rw [compMapF]; exact h1, h2, h3⟩

end Cfg

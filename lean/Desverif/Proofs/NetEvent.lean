/-
One module event of `Model/Net.lean` summarised in terms of its observations, and the invariant
that ties the error list to the callback panics in the trace.
-/
import Desverif.Proofs.NetInv
namespace Net

/-- a module event of module `mi` (state `m` before) that made the user-code observations `l` -/
structure EvSummary (s : State) (mi : Nat) (m : ModRt) (kind : Kind) (l : List Obs) : Prop where
  own : ∀ o ∈ l, o.mod = mi ∧ o.time = s.fes.cur ∧ o.kind ≠ .reset ∧ o.kind ≠ .end_
  trace : (s.moduleEvent mi kind).trace = s.trace ++ l ++ (if l.any isDwn then [resetObs mi s.fes.cur] else [])
  errors : (s.moduleEvent mi kind).errors =
    s.errors ++ (if l.any isCbPan && !m.catches then [(ErrKind.panic, mi)] else [])
  pan1 : l.countP isCbPan ≤ 1
  mods : ∃ fm, (s.moduleEvent mi kind).mods = s.mods.set mi fm ∧
    fm.active = (if l.any isDwn then false else ((m.enter kind).active && !l.any isCbPan)) ∧
    fm.catches = m.catches ∧ fm.stages = m.stages ∧ fm.prog = m.prog ∧ fm.shutdownReq = none ∧
    fm.joinPanics = m.joinPanics + l.countP isJoinPan ∧
    (l.any isDwn = true → fm.sleepers = [] ∧ fm.ready = [] ∧ fm.unpolled = [])
  idle : m.active = false → kind ≠ .restart → (∀ st, kind ≠ .simStart st) → l = []

theorem moduleEvent_summary {s : State} (hq : Quiet s) (mi : Nat) (kind : Kind) (m : ModRt)
    (hm : s.mods[mi]? = some m) : ∃ l, EvSummary s mi m kind l := by
  obtain ⟨h1, h2, _, _, _, h6, _, _⟩ := moduleEvent_fields s mi kind m hm
  obtain ⟨l, c, hin⟩ := cbResult_spec s mi m kind
  have hmreq : m.shutdownReq = none := hq.req m (List.mem_of_getElem? hm)
  have hreq := cbResult_req s mi m kind l c hmreq
  have hcat : ((m.bump s.fes.cur).enter kind).catches = m.catches := by cases kind <;> rfl
  have hst : ((m.bump s.fes.cur).enter kind).stages = m.stages := by cases kind <;> rfl
  have hpr : ((m.bump s.fes.cur).enter kind).prog = m.prog := by cases kind <;> rfl
  have hjp : ((m.bump s.fes.cur).enter kind).joinPanics = m.joinPanics := by cases kind <;> rfl
  have hac : ((m.bump s.fes.cur).enter kind).active = (m.enter kind).active := by cases kind <;> rfl
  refine ⟨l, ⟨?_, ?_, ?_, c.pan1, ?_, fun a b d => (hin a b d).1⟩⟩
  · intro o ho
    exact c.own o ho
  · rw [h1, hreq, c.obs]; simp [ES.start]
  · rw [h2, c.errs, hcat]; rfl
  · refine ⟨_, h6, ?_⟩
    rw [hreq]
    cases hd : l.any isDwn with
    | true =>
      simp only [if_true]
      refine ⟨rfl, ?_, ?_, ?_, rfl, ?_, fun _ => ⟨rfl, rfl, rfl⟩⟩
      · show (ModRt.wakeDecision _).1.catches = _
        rw [wakeDecision_catches, c.catches, hcat]
      · show (ModRt.wakeDecision _).1.stages = _
        rw [wakeDecision_stages, c.stages, hst]
      · show (ModRt.wakeDecision _).1.prog = _
        rw [wakeDecision_prog, c.prog, hpr]
      · show (ModRt.wakeDecision _).1.joinPanics = _
        rw [wakeDecision_joinPanics, c.join, hjp]
    | false =>
      simp only [Bool.false_eq_true, if_false]
      refine ⟨?_, ?_, ?_, ?_, ?_, ?_, fun h => by simp at h⟩
      · rw [wakeDecision_active, c.active, hac]
      · rw [wakeDecision_catches, c.catches, hcat]
      · rw [wakeDecision_stages, c.stages, hst]
      · rw [wakeDecision_prog, c.prog, hpr]
      · rw [wakeDecision_req]
        have := hreq
        rw [hd] at this
        cases h : (s.cbResult mi m kind).mod.shutdownReq with
        | none => rfl
        | some x => simp [h] at this
      · rw [wakeDecision_joinPanics, c.join, hjp]

/-- the start stages replayed by a restart event -/
theorem restart_summary {s : State} (hq : Quiet s) (mi : Nat) (m : ModRt) (hm : s.mods[mi]? = some m) :
    ∃ l n, EvSummary s mi m .restart l ∧ n ≤ m.stages ∧
      l.filter isStart = ((List.range m.stages).take n).map (fun k => (⟨mi, .start, some k, none, s.fes.cur⟩ : Obs)) ∧
      (l.any isCbPan = false → n = m.stages) := by
  obtain ⟨l', sm⟩ := moduleEvent_summary hq mi .restart m hm
  obtain ⟨l, n, c, hn, hf, hall⟩ := restartStages_spec { (s.env mi) with active := (s.env mi).active.set (s.env mi).mi true }
    (List.range m.stages) { (m.bump s.fes.cur) with active := true } (ES.start (m.bump s.fes.cur) s.chans) rfl rfl
  -- both summaries describe the same callback result
  have hobs : (s.cbResult mi m .restart).es.obs = l := by
    have := c.obs
    simp only [ES.start, List.nil_append] at this
    exact this
  obtain ⟨l2, c2, _⟩ := cbResult_spec s mi m .restart
  have hl2 : l2 = l := by
    have := c2.obs
    simp only [ES.start, List.nil_append] at this
    rw [← this, hobs]
  have hl' : l' = l := by
    have t1 := sm.trace
    obtain ⟨h1, _⟩ := moduleEvent_fields s mi .restart m hm
    have hmreq : m.shutdownReq = none := hq.req m (List.mem_of_getElem? hm)
    have hreq := cbResult_req s mi m .restart l2 c2 hmreq
    rw [h1, hreq, hobs, hl2] at t1
    by_cases hd : l.any isDwn = true
    · by_cases hd' : l'.any isDwn = true
      · simp only [hd, hd', if_true, List.append_assoc] at t1
        have := List.append_cancel_left t1
        exact (List.append_cancel_right this).symm
      · exfalso
        simp only [hd, hd', if_true, Bool.false_eq_true, if_false, List.append_assoc, List.append_nil] at t1
        have := List.append_cancel_left t1
        have hx : resetObs mi s.fes.cur ∈ l' := by rw [← this]; simp
        exact (sm.own _ hx).2.2.1 rfl
    · by_cases hd' : l'.any isDwn = true
      · exfalso
        simp only [hd, hd', if_true, Bool.false_eq_true, if_false, List.append_assoc, List.append_nil] at t1
        have := List.append_cancel_left t1
        have hx : resetObs mi s.fes.cur ∈ l := by rw [this]; simp
        exact (c.own _ hx).2.2.1 rfl
      · simp only [hd, hd', Bool.false_eq_true, if_false, List.append_nil] at t1
        exact (List.append_cancel_left t1).symm
  subst hl'
  refine ⟨l', n, sm, by simpa using hn, ?_, by simpa using hall⟩
  rw [hf]
  rfl

/-! ## the error list is the list of uncaught callback panics of the trace -/

/-- the errors that the callback-panic lines of a trace stand for (`cat` = which modules catch) -/
def panicErrs (cat : List Bool) (tr : List Obs) : List (ErrKind × Nat) :=
  tr.filterMap fun o => if isCbPan o && !(cat.getD o.mod false) then some (ErrKind.panic, o.mod) else none

theorem panicErrs_append (cat : List Bool) (a b : List Obs) :
    panicErrs cat (a ++ b) = panicErrs cat a ++ panicErrs cat b := by
  simp [panicErrs, List.filterMap_append]

theorem panicErrs_none (cat : List Bool) (l : List Obs) (h : l.countP isCbPan = 0) : panicErrs cat l = [] := by
  rw [List.countP_eq_zero] at h
  simp only [panicErrs, List.filterMap_eq_nil_iff]
  intro o ho
  have := h o ho
  simp [this]

/-- a segment of one module with at most one callback panic -/
theorem panicErrs_segment (cat : List Bool) (mi : Nat) (l : List Obs) (hown : ∀ o ∈ l, o.mod = mi)
    (h1 : l.countP isCbPan ≤ 1) :
    panicErrs cat l = if l.any isCbPan && !(cat.getD mi false) then [(ErrKind.panic, mi)] else [] := by
  induction l with
  | nil => simp [panicErrs]
  | cons o l ih =>
    have hmod : o.mod = mi := hown o (by simp)
    have hown' : ∀ x ∈ l, x.mod = mi := fun x hx => hown x (by simp [hx])
    rw [List.countP_cons] at h1
    cases hp : isCbPan o with
    | true =>
      have h0 : l.countP isCbPan = 0 := by rw [hp] at h1; simp only [if_true] at h1; omega
      have hrest := panicErrs_none cat l h0
      have : panicErrs cat (o :: l) = panicErrs cat [o] ++ panicErrs cat l := panicErrs_append cat [o] l
      rw [this, hrest]
      have hany : (o :: l).any isCbPan = true := by simp [hp]
      rw [hany]
      simp only [panicErrs, List.filterMap_cons, List.filterMap_nil, hp, hmod, Bool.true_and, List.append_nil]
      cases cat.getD mi false <;> simp
    | false =>
      have h1' : l.countP isCbPan ≤ 1 := by rw [hp] at h1; simpa using h1
      have : panicErrs cat (o :: l) = panicErrs cat [o] ++ panicErrs cat l := panicErrs_append cat [o] l
      rw [this, ih hown' h1']
      simp [panicErrs, hp]

/-- the error list is exactly the list of uncaught callback panics, in trace order; the
    stereotypes never change -/
structure ErrInv (cat : List Bool) (s : State) : Prop where
  cats : s.mods.map (·.catches) = cat
  errs : s.errors = panicErrs cat s.trace

theorem ErrInv.of_fields {cat : List Bool} {s s' : State} (h : ErrInv cat s) (h1 : s'.mods = s.mods)
    (h2 : s'.errors = s.errors) (h3 : s'.trace = s.trace) : ErrInv cat s' :=
  ⟨by rw [h1]; exact h.cats, by rw [h2, h3]; exact h.errs⟩

theorem map_set_same {α β : Type} (f : α → β) (l : List α) (i : Nat) (a x : α) (h : l[i]? = some x)
    (hf : f a = f x) : (l.set i a).map f = l.map f := by
  apply List.ext_getElem?
  intro j
  simp only [List.getElem?_map, List.getElem?_set]
  split
  · rename_i hij
    subst hij
    split <;> simp_all
  · rfl

theorem moduleEvent_errInv {cat : List Bool} {s : State} (hq : Quiet s) (h : ErrInv cat s) (mi : Nat) (kind : Kind) :
    ErrInv cat (s.moduleEvent mi kind) := by
  cases hm : s.mods[mi]? with
  | none => rw [moduleEvent_none s mi kind hm]; exact h.of_fields rfl rfl rfl
  | some m =>
    obtain ⟨l, sm⟩ := moduleEvent_summary hq mi kind m hm
    obtain ⟨fm, hmods, _, hcat, _⟩ := sm.mods
    have hcm : cat.getD mi false = m.catches := by
      rw [← h.cats]
      simp [List.getD, hm]
    refine ⟨?_, ?_⟩
    · rw [hmods, map_set_same (·.catches) s.mods mi fm m hm hcat]; exact h.cats
    · rw [sm.errors, sm.trace, panicErrs_append, panicErrs_append, ← h.errs,
        panicErrs_segment cat mi l (fun o ho => (sm.own o ho).1) sm.pan1, hcm]
      have : panicErrs cat (if l.any isDwn = true then [resetObs mi s.fes.cur] else []) = [] := by
        split <;> simp [panicErrs, isCbPan, resetObs]
      rw [this, List.append_nil]

theorem step_errInv {cat : List Bool} {s s' : State} (hq : Quiet s) (h : ErrInv cat s) (hs : s.step = some s') :
    ErrInv cat s' := by
  cases hf : FES.fetch s.fes with
  | error x => simp [State.step, hf] at hs
  | ok p =>
    obtain ⟨e, f⟩ := p
    rw [step_eq s e f hf] at hs
    have hq' : Quiet (s.pop f) := hq.of_fields rfl rfl rfl
    have h' : ErrInv cat (s.pop f) := h.of_fields rfl rfl rfl
    split at hs
    · cases hs; exact h.of_fields rfl rfl rfl
    · cases hs; exact moduleEvent_errInv hq' h' _ _
    · cases hs; exact moduleEvent_errInv hq' h' _ _
    · cases hs; exact moduleEvent_errInv hq' h' _ _
    · split at hs
      · cases hs; exact h.of_fields (by simp) (by simp) (by simp)
      · cases hs; exact h.of_fields rfl rfl rfl
    · split at hs
      · split at hs
        · cases hs; exact h.of_fields (by simp) (by simp) (by simp)
        · cases hs; exact h.of_fields rfl rfl rfl
      · cases hs; exact h.of_fields rfl rfl rfl
    · cases hs; exact h.of_fields rfl rfl rfl

theorem loop_errInv {cat : List Bool} (n : Nat) : ∀ {s : State}, Quiet s → ErrInv cat s → ErrInv cat (State.loop n s) := by
  induction n with
  | zero =>
    intro s _ h
    unfold State.loop
    split
    · exact h
    · exact h.of_fields rfl rfl rfl
  | succ n ih =>
    intro s hq h
    unfold State.loop
    split
    · exact h
    · split
      · exact h
      · rename_i s' hs
        exact ih (step_quiet hq hs) (step_errInv hq h hs)

theorem simStart_errInv {cat : List Bool} {s : State} (hq : Quiet s) (h : ErrInv cat s) :
    Quiet s.simStart ∧ ErrInv cat s.simStart := by
  unfold State.simStart
  apply foldl_inv (fun s => Quiet s ∧ ErrInv cat s) _ _ _ _ ⟨hq, h⟩
  intro s stage hs
  apply foldl_inv (fun s => Quiet s ∧ ErrInv cat s) _ _ _ _ hs
  intro s mi hs
  split
  · split
    · exact ⟨moduleEvent_quiet hs.1 _ _, moduleEvent_errInv hs.1 hs.2 _ _⟩
    · exact hs
  · exact hs

theorem init_errInv (cfg : Config) : ErrInv (cfg.mods.map (·.catches)) (State.init cfg) := by
  unfold State.init
  apply foldl_inv (ErrInv (cfg.mods.map (·.catches))) _ _ _ _ ⟨?_, rfl⟩
  · intro s i hs; exact hs.of_fields (by simp) (by simp) (by simp)
  · simp [List.map_map, Function.comp_def, ModCfg.init]

end Net

/-
Sizes of free regions and live blocks in reachable allocator states: every one is a whole page
or at most `page − 16` bytes.  Consequence: no free region ever serves a request whose normalised
size lies strictly between `page − 16` and `page`.
-/
import Desverif.Proofs.AllocRun
namespace Alloc

/-- a whole page, or small enough to leave room for a `ListNode` behind it -/
def SzOk (P x : Nat) : Prop := x = P ∨ x + 16 ≤ P

structure SInv (P : Nat) (s : State) (L : List Live) : Prop where
  free : ∀ r ∈ s.free, SzOk P r.size
  live : ∀ e ∈ L, SzOk P e.blk.size

theorem addFreeRegion_shape {s s' : State} {a sz : Nat} (h : addFreeRegion s a sz = .ok s') :
    s' = { s with free := ⟨a, sz⟩ :: s.free } := by
  unfold addFreeRegion at h
  by_cases c1 : alignUp a NODE_ALIGN ≠ a
  · rw [if_pos c1] at h; cases h
  · rw [if_neg c1] at h
    by_cases c2 : sz < NODE_SIZE
    · rw [if_pos c2] at h; cases h
    · rw [if_neg c2] at h
      injection h with h
      exact h.symm

theorem findRegion_sizes {orc P} (ho : OracleOk orc P) (hp : PageOk P) :
    ∀ fuel {s L size align s1 r st}, Inv orc P s L → SInv P s L →
      findRegion orc fuel s size align = .ok (s1, r, st) →
      SzOk P r.size ∧ ∀ x ∈ s1.free, SzOk P x.size := by
  intro fuel
  induction fuel with
  | zero =>
    intro s L size align s1 r st h hs hf
    unfold findRegion at hf
    cases hsc : scan s.free size align with
    | some t =>
      obtain ⟨rest, r', st'⟩ := t
      simp only [hsc, Except.ok.injEq, Prod.mk.injEq] at hf
      obtain ⟨rfl, rfl, rfl⟩ := hf
      obtain ⟨pre, post, h1, h2, _, _⟩ := scan_spec hsc
      refine ⟨hs.free _ (by rw [h1]; simp), ?_⟩
      intro x hx
      simp only [h2] at hx
      apply hs.free x
      rw [h1]
      rcases List.mem_append.mp hx with hx | hx <;> simp [hx]
    | none => simp [hsc] at hf
  | succ fuel ih =>
    intro s L size align s1 r st h hs hf
    unfold findRegion at hf
    cases hsc : scan s.free size align with
    | some t =>
      obtain ⟨rest, r', st'⟩ := t
      simp only [hsc, Except.ok.injEq, Prod.mk.injEq] at hf
      obtain ⟨rfl, rfl, rfl⟩ := hf
      obtain ⟨pre, post, h1, h2, _, _⟩ := scan_spec hsc
      refine ⟨hs.free _ (by rw [h1]; simp), ?_⟩
      intro x hx
      simp only [h2] at hx
      apply hs.free x
      rw [h1]
      rcases List.mem_append.mp hx with hx | hx <;> simp [hx]
    | none =>
      obtain ⟨s', hs', hinv, hfree, _, _⟩ := addPage_inv ho hp h
      simp only [hsc, hs'] at hf
      refine ih hinv ⟨?_, hs.live⟩ hf
      intro x hx
      rw [hfree] at hx
      rcases List.mem_cons.mp hx with rfl | hx
      · exact Or.inl rfl
      · exact hs.free x hx

/-- what `allocate` does to the state, without invariants -/
theorem allocate_shape {orc s lsize lalign s' a} (h : allocate orc s lsize lalign = .ok (s', some a)) :
    ¬ (sizeAlign lsize lalign).1 > s.pageSize ∧
    ∃ s1 r, findRegion orc FUEL s (sizeAlign lsize lalign).1 (sizeAlign lsize lalign).2 = .ok (s1, r, a) ∧
      (s'.free = s1.free ∨
        s'.free = ⟨a + (sizeAlign lsize lalign).1, r.stop - (a + (sizeAlign lsize lalign).1)⟩ :: s1.free) := by
  unfold allocate at h
  generalize sizeAlign lsize lalign = sa at h ⊢
  obtain ⟨size, align⟩ := sa
  simp only at h ⊢
  by_cases hbig : size > s.pageSize
  · simp [hbig] at h
  · rw [if_neg hbig] at h
    refine ⟨hbig, ?_⟩
    cases hf : findRegion orc FUEL s size align with
    | error e => simp [hf] at h
    | ok t =>
      obtain ⟨s1, r, st⟩ := t
      simp only [hf] at h
      by_cases hex0 : r.stop - (st + size) > 0
      · rw [if_pos hex0] at h
        by_cases hsmall : r.stop - (st + size) < size
        · rw [if_pos hsmall] at h
          simp only [Except.ok.injEq, Prod.mk.injEq, Option.some.injEq] at h
          obtain ⟨rfl, rfl⟩ := h
          exact ⟨s1, r, rfl, Or.inl rfl⟩
        · rw [if_neg hsmall] at h
          cases hadd : addFreeRegion s1 (st + size) (r.stop - (st + size)) with
          | error e => simp [hadd] at h
          | ok s2 =>
            simp only [hadd, Except.ok.injEq, Prod.mk.injEq, Option.some.injEq] at h
            obtain ⟨rfl, rfl⟩ := h
            have := addFreeRegion_shape hadd
            subst this
            exact ⟨s1, r, rfl, Or.inr rfl⟩
      · rw [if_neg hex0] at h
        simp only [Except.ok.injEq, Prod.mk.injEq, Option.some.injEq] at h
        obtain ⟨rfl, rfl⟩ := h
        exact ⟨s1, r, rfl, Or.inl rfl⟩

theorem pageOk_16_or_32 {P : Nat} (hp : PageOk P) : P = 16 ∨ 32 ≤ P := by
  obtain ⟨p, h4, rfl⟩ := hp
  by_cases h : p = 4
  · left; subst h; rfl
  · right
    have : 2 ^ 5 ≤ 2 ^ p := Nat.pow_le_pow_right (by omega) (by omega)
    omega

/-- a region of page size inside a page is that page -/
theorem page_region_base {orc P n} {r : Region} (hg : InPage orc P n r) (hsz : r.size = P) :
    ∃ i, r = ⟨orc i, P⟩ := by
  obtain ⟨i, _, h1, h2⟩ := hg
  refine ⟨i, ?_⟩
  cases r with
  | mk addr size =>
    simp only [Region.stop] at *
    subst hsz
    have : addr = orc i := by omega
    subst this; rfl

theorem allocate_sizes {orc P s L lsize k s' a} (ho : OracleOk orc P) (hp : PageOk P)
    (h : Inv orc P s L) (hs : SInv P s L)
    (ha : allocate orc s lsize (2 ^ k) = .ok (s', some a)) (key : Nat) :
    SInv P s' (⟨key, a, lsize, 2 ^ k⟩ :: L) := by
  have hn := sizeAlign_ok lsize k
  obtain ⟨hbig, s1, r, hf, hfree⟩ := allocate_shape ha
  obtain ⟨hrs, hs1⟩ := findRegion_sizes ho hp FUEL h hs hf
  obtain ⟨hT, hfit, _⟩ := findRegion_spec ho hp FUEL h hf
  obtain ⟨hst, hend, hex⟩ := allocFromRegion_some hfit
  have hge : r.addr ≤ a := by rw [hst]; exact alignUp_ge _ _ hn.alignPos
  have hps := h.ps
  have hblk : (Live.blk ⟨key, a, lsize, 2 ^ k⟩).size = (sizeAlign lsize (2 ^ k)).1 := rfl
  -- the block
  have hB : SzOk P (sizeAlign lsize (2 ^ k)).1 := by
    rcases hrs with hr | hr
    · -- the region is a whole page
      obtain ⟨i, rfl⟩ := page_region_base hT.taken.2.2 hr
      by_cases hal : (sizeAlign lsize (2 ^ k)).2 ≤ P
      · have hdvd : (sizeAlign lsize (2 ^ k)).2 ∣ P := by
          obtain ⟨p, _, rfl⟩ := hp
          simp only [sizeAlign] at hal ⊢
          rw [max_pow_eq] at hal ⊢
          exact pow_dvd_of_le hal
        have : a = orc i := by
          rw [hst]
          exact alignUp_of_mod _ _ hn.alignPos (mod_of_dvd_mod hdvd (ho.aligned i))
        subst this
        simp only [Region.stop] at hend hex
        unfold SzOk; omega
      · rcases hn.sizeAl with hm | h16
        · exfalso
          have hlt : (sizeAlign lsize (2 ^ k)).1 < (sizeAlign lsize (2 ^ k)).2 := by omega
          rw [Nat.mod_eq_of_lt hlt] at hm
          have := hn.size16; omega
        · rcases pageOk_16_or_32 hp with h1 | h1 <;> unfold SzOk <;> omega
    · simp only [Region.stop] at hend
      have := hn.size16
      unfold SzOk; omega
  refine ⟨?_, ?_⟩
  · intro x hx
    rcases hfree with hfr | hfr
    · rw [hfr] at hx; exact hs1 x hx
    · rw [hfr] at hx
      rcases List.mem_cons.mp hx with rfl | hx
      · -- the tail: at most region − block ≤ page − 16
        have h16 := hn.size16
        have hrle : r.size ≤ P := by rcases hrs with hr | hr <;> omega
        simp only [Region.stop]
        right; omega
      · exact hs1 x hx
  · intro e he
    rcases List.mem_cons.mp he with rfl | he
    · rw [hblk]; exact hB
    · exact hs.live e he

structure RSInv (orc : Nat → Nat) (P : Nat) (rs : RState) : Prop where
  r : RInv orc P rs
  s : SInv P rs.st rs.live

theorem start_sinv {orc P} (ho : OracleOk orc P) (hp : PageOk P) :
    ∃ rs, start orc P = some rs ∧ RSInv orc P rs := by
  obtain ⟨rs, h1, h2, h3, h4⟩ := start_inv ho hp
  refine ⟨rs, h1, h2, ?_, ?_⟩
  · intro r hr; rw [h3] at hr; simp at hr; subst hr; exact Or.inl rfl
  · intro e he; rw [h4] at he; cases he

theorem step_sinv {orc P rs} (ho : OracleOk orc P) (hp : PageOk P) (h : RSInv orc P rs) (op : Op) :
    RSInv orc P (step orc rs op).1 := by
  refine ⟨step_inv ho hp h.r op, ?_⟩
  cases op with
  | alloc lsize k =>
    rcases step_alloc_cases orc rs lsize k with ⟨e, _, h2⟩ | ⟨s', h1, h2⟩ | ⟨s', a, h1, h2⟩
    · rw [h2]; exact h.s
    · rw [h2]; obtain ⟨rfl, _⟩ := allocate_none h1; exact h.s
    · rw [h2]; exact allocate_sizes ho hp h.r.inv h.s h1 rs.next
  | free k =>
    simp only [step]
    cases hf : rs.live.find? (·.key = k) with
    | none => exact h.s
    | some e =>
      simp only
      have he := List.mem_of_find?_eq_some hf
      obtain ⟨s', hs', _, hfree, _, _⟩ := deallocate_live h.r.inv he
      simp only [hs']
      refine ⟨?_, fun x hx => h.s.live x ((List.erase_sublist).subset hx)⟩
      intro x hx
      rw [hfree] at hx
      rcases List.mem_cons.mp hx with rfl | hx
      · exact h.s.live e he
      · exact h.s.free x hx

theorem runFrom_sinv {orc P} (ho : OracleOk orc P) (hp : PageOk P) :
    ∀ (ops : List Op) {rs}, RSInv orc P rs → RSInv orc P (runFrom orc rs ops).1 := by
  intro ops
  induction ops with
  | nil => intro rs h; exact h
  | cons op ops ih => intro rs h; simp only [runFrom]; exact ih (step_sinv ho hp h op)

theorem scan_none_of_all {l : List Region} {size align : Nat}
    (h : ∀ x ∈ l, allocFromRegion x size align = none) : scan l size align = none := by
  induction l with
  | nil => rfl
  | cons x xs ih =>
    exact scan_cons_none (h x (by simp)) (ih (fun y hy => h y (by simp [hy])))

/-- in a state satisfying the invariants no free region serves a request of size in (P−16, P) -/
theorem no_region_fits {orc P s L} (ho : OracleOk orc P) (h : Inv orc P s L) (hs : SInv P s L)
    {size align : Nat} (hal : align ∣ P) (hpos : 0 < align) (h1 : P < size + 16) (h2 : size < P) :
    scan s.free size align = none := by
  apply scan_none_of_all
  intro r hr
  rcases hs.free r hr with hsz | hsz
  · obtain ⟨i, rfl⟩ := page_region_base (h.free r hr).2.2 hsz
    exact fresh_page_unfit ho hal hpos h1 h2
  · rw [allocFromRegion_none_iff]
    left
    have := alignUp_ge r.addr align hpos
    simp only [Region.stop]
    omega

/-- a request in (P−16, P) has an alignment that divides the page size -/
theorem window_align_dvd {P lsize k : Nat} (hp : PageOk P)
    (h1 : P < (sizeAlign lsize (2 ^ k)).1 + 16) (h2 : (sizeAlign lsize (2 ^ k)).1 < P) :
    (sizeAlign lsize (2 ^ k)).2 ∣ P := by
  have hn := sizeAlign_ok lsize k
  have hle : (sizeAlign lsize (2 ^ k)).2 ≤ P := by
    rcases hn.sizeAl with hm | h16
    · have hd := Nat.dvd_of_mod_eq_zero hm
      have := Nat.le_of_dvd (by have := hn.size16; omega) hd
      omega
    · rcases pageOk_16_or_32 hp with h | h <;> omega
  obtain ⟨p, _, rfl⟩ := hp
  simp only [sizeAlign] at hle ⊢
  rw [max_pow_eq] at hle ⊢
  exact pow_dvd_of_le hle

/-- `allocate` fails exactly as `find_region` does -/
theorem allocate_of_findRegion_err {orc s lsize lalign e}
    (hbig : ¬ (sizeAlign lsize lalign).1 > s.pageSize)
    (h : findRegion orc FUEL s (sizeAlign lsize lalign).1 (sizeAlign lsize lalign).2 = .error e) :
    allocate orc s lsize lalign = .error e := by
  unfold allocate
  generalize sizeAlign lsize lalign = sa at h hbig ⊢
  obtain ⟨size, align⟩ := sa
  simp only at h hbig ⊢
  rw [if_neg hbig, h]

end Alloc

/-
Termination of the wake chains of the model: every poll strictly decreases `Exec.measure`, so a budget of
`measure s` polls always empties a queue.
-/
import Desverif.Proofs.ExecQueue
namespace Exec

theorem sum_map_set {α : Type} (f : α → Nat) :
    ∀ (l : List α) (i : Nat) (x old : α), l[i]? = some old →
      ((l.set i x).map f).sum + f old = (l.map f).sum + f x := by
  intro l
  induction l with
  | nil => intro i x old h; simp at h
  | cons a l ih =>
    intro i x old h
    cases i with
    | zero =>
      simp at h
      subst h
      simp; omega
    | succ i =>
      simp at h
      have := ih i x old h
      simp only [List.set_cons_succ, List.map_cons, List.sum_cons]; omega

/-- task `i` exists, is not done and its remaining program is `p` -/
def TaskAt (s : St) (i : Nat) (p : List Instr) : Prop :=
  ∃ tk, s.tasks[i]? = some tk ∧ tk.prog = p ∧ tk.done = false

theorem measure_pushEntry (s : St) (e : Entry) : measure (pushEntry s e) = measure s + 1 := by
  unfold pushEntry measure
  cases e.kind <;> simp only <;> split <;> simp <;> omega

theorem measure_enqueue (s : St) (k : Kind) (i : Nat) : measure (enqueue s k i) = measure s + 1 :=
  measure_pushEntry _ _

theorem tasks_pushEntry (s : St) (e : Entry) : (pushEntry s e).tasks = s.tasks := by
  unfold pushEntry; cases e.kind <;> simp only <;> split <;> rfl

theorem tasks_enqueue (s : St) (k : Kind) (i : Nat) : (enqueue s k i).tasks = s.tasks := tasks_pushEntry _ _

theorem measure_defer (s : St) (k : Kind) (i : Nat) : measure (defer s k i) = measure s := rfl

theorem measure_addTimer (s : St) (tm : Timer) : measure (addTimer s tm) = measure s := rfl

theorem measure_logAt (s : St) (i r : Nat) (o : Phase) : measure (logAt s i r o) = measure s := rfl

theorem measure_setTask (s : St) (i : Nat) (old new : Task) (h : s.tasks[i]? = some old) :
    measure { s with tasks := s.tasks.set i new } + tw old = measure s + tw new := by
  have := sum_map_set tw s.tasks i new old h
  unfold measure
  simp only
  omega

theorem measure_spawnTask (s : St) (t : Nat) : measure (spawnTask s t) ≤ measure s + 1 := by
  unfold spawnTask
  split
  · omega
  · rename_i tk h
    split
    · omega
    · rw [measure_enqueue]
      have := measure_setTask s t tk { tk with started := true } h
      have e : tw { tk with started := true } = tw tk := rfl
      omega

theorem taskAt_spawnTask (s : St) (t i : Nat) (p : List Instr) (h : TaskAt s i p) :
    TaskAt (spawnTask s t) i p := by
  unfold spawnTask
  split
  · exact h
  · rename_i tk ht
    split
    · exact h
    · obtain ⟨tk', h1, h2, h3⟩ := h
      unfold TaskAt
      rw [tasks_enqueue]
      simp only [List.getElem?_set]
      by_cases hti : t = i
      · subst hti
        have hlt : t < s.tasks.length := by
          rcases Nat.lt_or_ge t s.tasks.length with hl | hl
          · exact hl
          · rw [List.getElem?_eq_none hl] at ht; cases ht
        rw [ht] at h1; cases h1
        exact ⟨{ tk with started := true }, by simp [hlt], h2, h3⟩
      · exact ⟨tk', by simp [hti, h1], h2, h3⟩

theorem measure_wakeCond (s : St) (k : Nat) : measure (wakeCond s k) ≤ measure s + 1 := by
  unfold wakeCond
  split
  · omega
  · split
    · exact Nat.le_succ _
    · rw [measure_enqueue]; exact Nat.le_refl _

theorem taskAt_wakeCond (s : St) (k i : Nat) (p : List Instr) (h : TaskAt s i p) :
    TaskAt (wakeCond s k) i p := by
  unfold wakeCond
  split
  · exact h
  · split
    · exact h
    · unfold TaskAt; rw [tasks_enqueue]; exact h

theorem measure_setProg (s : St) (i : Nat) (p r : List Instr) (h : TaskAt s i p) :
    measure (setProg s i r) + (p.map iw).sum = measure s + (r.map iw).sum := by
  obtain ⟨tk, h1, h2, h3⟩ := h
  unfold setProg
  rw [h1]
  have := measure_setTask s i tk { tk with prog := r } h1
  have e1 : tw tk = 1 + (p.map iw).sum := by unfold tw; simp [h3, h2]
  have e2 : tw { tk with prog := r } = 1 + (r.map iw).sum := by unfold tw; simp [h3]
  simp only at this ⊢
  omega

theorem taskAt_setProg (s : St) (i : Nat) (p r : List Instr) (h : TaskAt s i p) :
    TaskAt (setProg s i r) i r := by
  obtain ⟨tk, h1, h2, h3⟩ := h
  have hlt : i < s.tasks.length := by
    rcases Nat.lt_or_ge i s.tasks.length with hl | hl
    · exact hl
    · rw [List.getElem?_eq_none hl] at h1; cases h1
  unfold setProg
  rw [h1]
  exact ⟨{ tk with prog := r }, by simp [hlt], rfl, h3⟩

theorem measure_finish (s : St) (i : Nat) (p : List Instr) (h : TaskAt s i p) :
    measure (finish s i) ≤ measure s := by
  obtain ⟨tk, h1, h2, h3⟩ := h
  unfold finish
  rw [h1]
  have := measure_setTask s i tk { tk with done := true, prog := [] } h1
  have e1 : 1 ≤ tw tk := by unfold tw; simp [h3]
  have e2 : tw { tk with done := true, prog := [] } = 0 := by unfold tw; simp
  simp only at this ⊢
  split
  · omega
  · rw [measure_enqueue]; omega

/-- a poll never increases the measure (the popped queue entry is what makes it decrease) -/
theorem measure_runProg (k : Kind) (i : Nat) :
    ∀ (p : List Instr) (c rdy : Nat) (org : Phase) (s : St), TaskAt s i p →
      measure (runProg k i p c rdy org s) ≤ measure s := by
  intro p
  induction p with
  | nil =>
    intro c rdy org s h
    exact measure_finish s i [] h
  | cons ins r ih =>
    intro c rdy org s h
    have hs := measure_setProg s i (ins :: r) r h
    have ht := taskAt_setProg s i (ins :: r) r h
    cases ins with
    | spawn t =>
      simp only [runProg]
      have h2 := ih c rdy org _ (taskAt_spawnTask _ t i r ht)
      have h3 := measure_spawnTask (setProg s i r) t
      simp [iw] at hs
      omega
    | wake q =>
      simp only [runProg]
      have h2 := ih c rdy org _ (taskAt_wakeCond _ q i r ht)
      have h3 := measure_wakeCond (setProg s i r) q
      simp [iw] at hs
      omega
    | yield =>
      simp only [runProg]
      rw [measure_defer]
      have := measure_setProg s i (.yield :: r) (.resume :: r) h
      simp [iw] at this
      omega
    | resume =>
      simp only [runProg]
      have h2 := ih c s.now s.phase (logAt (setProg s i r) i rdy org) ht
      rw [measure_logAt] at h2
      simp [iw] at hs
      omega
    | wait q =>
      simp only [runProg]
      split
      · exact Nat.le_refl _
      · rename_i cd hc
        split
        · exact Nat.le_refl _
        · split
          · exact Nat.le_refl _
          · have ht' : TaskAt { s with conds := s.conds.set q { cd with permits := cd.permits - 1 } } i (.wait q :: r) := h
            have hs' := measure_setProg _ i (.wait q :: r) r ht'
            have ht2 := taskAt_setProg _ i (.wait q :: r) r ht'
            have h2 := ih (if cd.coop then c - 1 else c) s.now s.phase (logAt (setProg _ i r) i rdy org) ht2
            rw [measure_logAt] at h2
            have e : measure { s with conds := s.conds.set q { cd with permits := cd.permits - 1 } } = measure s := rfl
            simp [iw] at hs'
            omega
    | join t =>
      simp only [runProg]
      split
      · exact Nat.le_refl _
      · rename_i tj hj
        split
        · exact Nat.le_refl _
        · split
          · have h2 := ih (c - 1) s.now s.phase (logAt (setProg s i r) i rdy org) ht
            rw [measure_logAt] at h2
            simp [iw] at hs
            omega
          · have := measure_setTask s t tj { tj with joiner := some (k, i) } hj
            have e : tw { tj with joiner := some (k, i) } = tw tj := rfl
            omega
    | sleep d =>
      simp only [runProg]
      split
      · rw [measure_addTimer]
        have := measure_setProg s i (.sleep d :: r) (.sleeping (s.now + d) :: r) h
        simp [iw] at this
        omega
      · have h2 := ih c s.now s.phase (logAt (setProg s i r) i rdy org) ht
        rw [measure_logAt] at h2
        simp [iw] at hs
        omega
    | sleepUntil t =>
      simp only [runProg]
      split
      · rw [measure_addTimer]
        have := measure_setProg s i (.sleepUntil t :: r) (.sleeping t :: r) h
        simp [iw] at this
        omega
      · have h2 := ih c s.now s.phase (logAt (setProg s i r) i rdy org) ht
        rw [measure_logAt] at h2
        simp [iw] at hs
        omega
    | sleeping t =>
      simp only [runProg]
      split
      · exact Nat.le_refl _
      · have h2 := ih c s.now s.phase (logAt (setProg s i r) i rdy org) ht
        rw [measure_logAt] at h2
        simp [iw] at hs
        omega

theorem measure_markPolled (s : St) (i : Nat) : measure (markPolled s i) = measure s := by
  unfold markPolled
  split
  · rfl
  · rename_i tk h
    have := measure_setTask s i tk { tk with polled := true } h
    have e : tw { tk with polled := true } = tw tk := rfl
    omega

theorem taskAt_markPolled (s : St) (i : Nat) (p : List Instr) (h : TaskAt s i p) :
    TaskAt (markPolled s i) i p := by
  obtain ⟨tk, h1, h2, h3⟩ := h
  have hlt : i < s.tasks.length := by
    rcases Nat.lt_or_ge i s.tasks.length with hl | hl
    · exact hl
    · rw [List.getElem?_eq_none hl] at h1; cases h1
  unfold markPolled
  rw [h1]
  exact ⟨{ tk with polled := true }, by simp [hlt], h2, h3⟩

theorem measure_pollTask (P : Params) (e : Entry) (s : St) : measure (pollTask P e s) ≤ measure s := by
  unfold pollTask
  split
  · exact Nat.le_refl _
  · rename_i tk h
    split
    · exact Nat.le_refl _
    · rename_i hd
      have hT : TaskAt s e.idx tk.prog := ⟨tk, h, rfl, by simpa using hd⟩
      split
      · exact measure_runProg _ _ _ _ _ _ _ hT
      · have := measure_runProg e.kind e.idx tk.prog P.C s.now s.phase
          (logAt (markPolled s e.idx) e.idx e.ready e.origin) (taskAt_markPolled s e.idx _ hT)
        rw [measure_logAt, measure_markPolled] at this
        exact this

theorem measure_pop (P : Params) (q : Kind) (s s' : St) (e : Entry) (h : pop P q s = some (e, s')) :
    measure s' + 1 = measure s := by
  rcases pop_some P q s s' e h with ⟨r, h1, rfl⟩ | ⟨r, h1, rfl⟩ | ⟨r, h1, rfl⟩ <;>
    simp [measure, h1] <;> omega

/-- every poll strictly decreases the measure -/
theorem measure_step (P : Params) (q : Kind) (s : St) (x : Entry × St) (h : pop P q s = some x) :
    measure (step P q s) + 1 ≤ measure s := by
  obtain ⟨e, s'⟩ := x
  unfold step
  rw [h]
  have h1 := measure_pollTask P e s'
  have h2 := measure_pop P q s s' e h
  simp only
  omega

theorem pop_none_of_measure (P : Params) (q : Kind) (s : St) (h : measure s = 0) : pop P q s = none := by
  unfold measure at h
  cases q with
  | loc => exact (pop_none_loc P s).2 (List.eq_nil_of_length_eq_zero (by omega))
  | rt =>
    exact (pop_none_rt P s).2
      ⟨List.eq_nil_of_length_eq_zero (by omega), List.eq_nil_of_length_eq_zero (by omega)⟩

/-- all wake chains of the model terminate: `measure s` polls always empty the queue -/
theorem measure_drains (P : Params) (q : Kind) :
    ∀ (b : Nat) (s : St), measure s ≤ b → pop P q (runQ P q b s) = none := by
  intro b
  induction b with
  | zero =>
    intro s h
    exact pop_none_of_measure P q s (by omega)
  | succ b ih =>
    intro s h
    cases hq : pop P q s with
    | none => rw [runQ_of_empty P q _ s hq]; exact hq
    | some x =>
      rw [runQ_cons P q b s x hq]
      have := measure_step P q s x hq
      exact ih _ (by omega)

end Exec

/-
Termination of the wake chains of the model: every poll strictly decreases `Exec.measure`, so a budget of
`measure s` polls always empties a queue.
-/
import Desverif.Proofs.ExecQueue
namespace Exec

theorem sum_map_set {α : Type} (f : α → Nat) :
    ∀ (l : List α) (i : Nat) (x old : α), l[i]? = some old →
      ((l.set i x).map f).sum + f old = (l.map f).sum + f x := by
  intro l
  induction l with
  | nil => intro i x old h; simp at h
  | cons a l ih =>
    intro i x old h
    cases i with
    | zero =>
      simp at h
      subst h
      simp; omega
    | succ i =>
      simp at h
      have := ih i x old h
      simp only [List.set_cons_succ, List.map_cons, List.sum_cons]; omega

/-- task `i` exists, is not done and its remaining program is `p` -/
def TaskAt (s : St) (i : Nat) (p : List Instr) : Prop :=
  ∃ tk, s.tasks[i]? = some tk ∧ tk.prog = p ∧ tk.done = false

theorem measure_pushEntry (s : St) (e : Entry) : measure (pushEntry s e) = measure s + 1 := by
  unfold pushEntry measure
  cases e.kind <;> simp only <;> split <;> simp <;> omega

theorem measure_enqueue (s : St) (k : Kind) (i : Nat) : measure (enqueue s k i) = measure s + 1 :=
  measure_pushEntry _ _

theorem tasks_pushEntry (s : St) (e : Entry) : (pushEntry s e).tasks = s.tasks := by
  unfold pushEntry; cases e.kind <;> simp only <;> split <;> rfl

theorem tasks_enqueue (s : St) (k : Kind) (i : Nat) : (enqueue s k i).tasks = s.tasks := tasks_pushEntry _ _

theorem measure_defer (s : St) (k : Kind) (i : Nat) : measure (defer s k i) = measure s := rfl

theorem measure_addTimer (s : St) (tm : Timer) : measure (addTimer s tm) = measure s := rfl

theorem measure_logAt (s : St) (i r : Nat) (o : Phase) : measure (logAt s i r o) = measure s := rfl

theorem measure_setTask (s : St) (i : Nat) (old new : Task) (h : s.tasks[i]? = some old) :
    measure { s with tasks := s.tasks.set i new } + tw old = measure s + tw new := by
  have := sum_map_set tw s.tasks i new old h
  unfold measure
  simp only
  omega

theorem measure_setCond (s : St) (k : Nat) (old new : Cond) (h : s.conds[k]? = some old) :
    measure { s with conds := s.conds.set k new } + cw old = measure s + cw new := by
  have := sum_map_set cw s.conds k new old h
  unfold measure
  simp only
  omega

theorem lt_of_getElem? {α : Type} {l : List α} {i : Nat} {x : α} (h : l[i]? = some x) : i < l.length := by
  rcases Nat.lt_or_ge i l.length with hl | hl
  · exact hl
  · rw [List.getElem?_eq_none hl] at h; cases h

/-- replacing task `t` by one with the same program and `done` flag keeps `TaskAt` -/
theorem taskAt_setTask (s : St) (t i : Nat) (p : List Instr) (old new : Task) (ht : s.tasks[t]? = some old)
    (hp : new.prog = old.prog) (hd : new.done = old.done) (h : TaskAt s i p) :
    TaskAt { s with tasks := s.tasks.set t new } i p := by
  obtain ⟨tk', h1, h2, h3⟩ := h
  unfold TaskAt
  simp only [List.getElem?_set]
  by_cases hti : t = i
  · subst hti
    have hlt := lt_of_getElem? ht
    rw [ht] at h1; cases h1
    exact ⟨new, by simp [hlt], hp.trans h2, hd.trans h3⟩
  · exact ⟨tk', by simp [hti, h1], h2, h3⟩

theorem taskAt_conds (s : St) (cs : List Cond) (i : Nat) (p : List Instr) (h : TaskAt s i p) :
    TaskAt { s with conds := cs } i p := h

theorem measure_spawnTask (s : St) (t : Nat) : measure (spawnTask s t) ≤ measure s + 1 := by
  unfold spawnTask
  split
  · omega
  · rename_i tk h
    split
    · omega
    · rw [measure_enqueue]
      have := measure_setTask s t tk { tk with started := true } h
      have e : tw { tk with started := true } = tw tk := rfl
      omega

theorem taskAt_spawnTask (s : St) (t i : Nat) (p : List Instr) (h : TaskAt s i p) :
    TaskAt (spawnTask s t) i p := by
  unfold spawnTask
  split
  · exact h
  · rename_i tk ht
    split
    · exact h
    · unfold TaskAt
      rw [tasks_enqueue]
      exact taskAt_setTask s t i p tk _ ht rfl rfl h

theorem measure_grant (s : St) (wk : Kind) (wi : Nat) : measure (grant s wk wi) ≤ measure s + 1 := by
  unfold grant
  split
  · rw [measure_enqueue]; exact Nat.le_refl _
  · rename_i tk h
    have := measure_setTask s wi tk { tk with granted := true } h
    have e : tw { tk with granted := true } = tw tk := rfl
    split
    · omega
    · rw [measure_enqueue]; omega

theorem taskAt_grant (s : St) (wk : Kind) (wi i : Nat) (p : List Instr) (h : TaskAt s i p) :
    TaskAt (grant s wk wi) i p := by
  unfold grant
  split
  · unfold TaskAt; rw [tasks_enqueue]; exact h
  · rename_i tk ht
    split
    · exact taskAt_setTask s wi i p tk _ ht rfl rfl h
    · unfold TaskAt
      rw [tasks_enqueue]
      exact taskAt_setTask s wi i p tk _ ht rfl rfl h

theorem measure_wakeCond (s : St) (k : Nat) : measure (wakeCond s k) ≤ measure s + 1 := by
  unfold wakeCond
  split
  · omega
  · rename_i c hc
    split
    · rename_i hw
      have := measure_setCond s k c { c with permits := if c.cap1 then 1 else c.permits + 1 } hc
      have e : cw { c with permits := if c.cap1 then 1 else c.permits + 1 } = cw c := rfl
      omega
    · rename_i wk wi r hw
      have hg := measure_grant { s with conds := s.conds.set k { c with waiters := r } } wk wi
      have := measure_setCond s k c { c with waiters := r } hc
      have e1 : cw c = r.length + 1 := by unfold cw; rw [hw]; simp
      have e2 : cw { c with waiters := r } = r.length := rfl
      omega

theorem taskAt_wakeCond (s : St) (k i : Nat) (p : List Instr) (h : TaskAt s i p) :
    TaskAt (wakeCond s k) i p := by
  unfold wakeCond
  split
  · exact h
  · split
    · exact h
    · exact taskAt_grant _ _ _ _ _ h

theorem measure_grantAll : ∀ (l : List (Kind × Nat)) (s : St), measure (grantAll l s) ≤ measure s + l.length := by
  intro l
  induction l with
  | nil => intro s; exact Nat.le_refl _
  | cons a l ih =>
    intro s
    obtain ⟨wk, wi⟩ := a
    simp only [grantAll, List.length_cons]
    have h1 := ih (grant s wk wi)
    have h2 := measure_grant s wk wi
    omega

theorem taskAt_grantAll (i : Nat) (p : List Instr) :
    ∀ (l : List (Kind × Nat)) (s : St), TaskAt s i p → TaskAt (grantAll l s) i p := by
  intro l
  induction l with
  | nil => intro s h; exact h
  | cons a l ih =>
    intro s h
    obtain ⟨wk, wi⟩ := a
    simp only [grantAll]
    exact ih _ (taskAt_grant _ _ _ _ _ h)

theorem measure_wakeAll (s : St) (k : Nat) : measure (wakeAll s k) ≤ measure s + 1 := by
  unfold wakeAll
  split
  · omega
  · rename_i c hc
    have hg := measure_grantAll c.waiters { s with conds := s.conds.set k { c with waiters := [] } }
    have := measure_setCond s k c { c with waiters := [] } hc
    have e1 : cw c = c.waiters.length := rfl
    have e2 : cw { c with waiters := [] } = 0 := rfl
    omega

theorem taskAt_wakeAll (s : St) (k i : Nat) (p : List Instr) (h : TaskAt s i p) :
    TaskAt (wakeAll s k) i p := by
  unfold wakeAll
  split
  · exact h
  · exact taskAt_grantAll i p _ _ h

theorem measure_removeTimer (s : St) (tm : Timer) : measure (removeTimer s tm) = measure s := rfl

theorem measure_removeWaiter (s : St) (q : Nat) (w : Kind × Nat) : measure (removeWaiter s q w) ≤ measure s := by
  unfold removeWaiter
  split
  · exact Nat.le_refl _
  · rename_i cd hc
    have := measure_setCond s q cd { cd with waiters := cd.waiters.erase w } hc
    have e : cw { cd with waiters := cd.waiters.erase w } ≤ cw cd := by
      unfold cw; exact List.length_erase_le
    omega

theorem taskAt_removeWaiter (s : St) (q : Nat) (w : Kind × Nat) (i : Nat) (p : List Instr) (h : TaskAt s i p) :
    TaskAt (removeWaiter s q w) i p := by
  unfold removeWaiter
  split <;> exact h

theorem measure_setProg (s : St) (i : Nat) (p r : List Instr) (h : TaskAt s i p) :
    measure (setProg s i r) + (p.map iw).sum = measure s + (r.map iw).sum := by
  obtain ⟨tk, h1, h2, h3⟩ := h
  unfold setProg
  rw [h1]
  have := measure_setTask s i tk { tk with prog := r } h1
  have e1 : tw tk = 1 + (p.map iw).sum + jw tk := by unfold tw; simp [h3, h2]
  have e2 : tw { tk with prog := r } = 1 + (r.map iw).sum + jw tk := by unfold tw; simp [h3]; rfl
  simp only at this ⊢
  omega

theorem taskAt_setProg (s : St) (i : Nat) (p r : List Instr) (h : TaskAt s i p) :
    TaskAt (setProg s i r) i r := by
  obtain ⟨tk, h1, h2, h3⟩ := h
  have hlt := lt_of_getElem? h1
  unfold setProg
  rw [h1]
  exact ⟨{ tk with prog := r }, by simp [hlt], rfl, h3⟩

theorem measure_finish (s : St) (i : Nat) (p : List Instr) (h : TaskAt s i p) :
    measure (finish s i) ≤ measure s := by
  obtain ⟨tk, h1, h2, h3⟩ := h
  unfold finish
  rw [h1]
  have := measure_setTask s i tk { tk with done := true, prog := [] } h1
  have e1 : 1 + jw tk ≤ tw tk := by unfold tw; simp [h3]
  have e2 : tw { tk with done := true, prog := [] } = 0 := by unfold tw; simp
  simp only at this ⊢
  split
  · omega
  · rename_i hj
    rw [measure_enqueue]
    have : jw tk = 1 := by unfold jw; simp [hj]
    omega

/-- a poll never increases the measure (the popped queue entry is what makes it decrease) -/
theorem measure_runProg (k : Kind) (i : Nat) :
    ∀ (p : List Instr) (c rdy : Nat) (org : Phase) (s : St), TaskAt s i p →
      measure (runProg k i p c rdy org s) ≤ measure s := by
  intro p
  induction p with
  | nil =>
    intro c rdy org s h
    exact measure_finish s i [] h
  | cons ins r ih =>
    intro c rdy org s h
    have hs := measure_setProg s i (ins :: r) r h
    have ht := taskAt_setProg s i (ins :: r) r h
    -- consume the instruction, log, continue
    have hcont : ∀ (c' : Nat) (s1 : St), TaskAt s1 i (ins :: r) → measure s1 ≤ measure s → 2 ≤ iw ins →
        measure (runProg k i r c' s.now s.phase (logAt (setProg s1 i r) i rdy org)) ≤ measure s := by
      intro c' s1 h1 hm hw
      have hs1 := measure_setProg s1 i (ins :: r) r h1
      have h2 := ih c' s.now s.phase (logAt (setProg s1 i r) i rdy org) (taskAt_setProg s1 i (ins :: r) r h1)
      rw [measure_logAt] at h2
      simp only [List.map_cons, List.sum_cons] at hs1
      omega
    cases ins with
    | spawn t =>
      simp only [runProg]
      have h2 := ih c rdy org _ (taskAt_spawnTask _ t i r ht)
      have h3 := measure_spawnTask (setProg s i r) t
      simp [iw] at hs
      omega
    | wake q =>
      simp only [runProg]
      have h2 := ih c rdy org _ (taskAt_wakeCond _ q i r ht)
      have h3 := measure_wakeCond (setProg s i r) q
      simp [iw] at hs
      omega
    | notifyAll q =>
      simp only [runProg]
      have h2 := ih c rdy org _ (taskAt_wakeAll _ q i r ht)
      have h3 := measure_wakeAll (setProg s i r) q
      simp [iw] at hs
      omega
    | yield =>
      simp only [runProg]
      rw [measure_defer]
      have := measure_setProg s i (.yield :: r) (.resume :: r) h
      simp [iw] at this
      omega
    | resume =>
      simp only [runProg]
      exact hcont c s h (Nat.le_refl _) (by simp [iw])
    | wait q =>
      simp only [runProg]
      split
      · exact Nat.le_refl _
      · rename_i cd hc
        split
        · exact Nat.le_refl _
        · split
          · -- block: register as a waiter
            have ht' : TaskAt { s with conds := s.conds.set q { cd with waiters := cd.waiters ++ [(k, i)] } } i
                (.wait q :: r) := h
            have h1 := measure_setProg _ i (.wait q :: r) (.waiting q :: r) ht'
            have h2 := measure_setCond s q cd { cd with waiters := cd.waiters ++ [(k, i)] } hc
            have e : cw { cd with waiters := cd.waiters ++ [(k, i)] } = cw cd + 1 := by unfold cw; simp
            simp [iw] at h1
            omega
          · have ht' : TaskAt { s with conds := s.conds.set q { cd with permits := cd.permits - 1 } } i
                (.wait q :: r) := h
            have h2 := measure_setCond s q cd { cd with permits := cd.permits - 1 } hc
            have e : cw { cd with permits := cd.permits - 1 } = cw cd := rfl
            exact hcont _ _ ht' (by omega) (by simp [iw])
    | waiting q =>
      simp only [runProg]
      generalize condCoop s q = coop
      split
      · exact Nat.le_refl _
      · rename_i tk htk
        split
        · exact Nat.le_refl _
        · split
          · have ht' : TaskAt { s with tasks := s.tasks.set i { tk with granted := false } } i (.waiting q :: r) :=
              taskAt_setTask s i i _ tk _ htk rfl rfl h
            have h2 := measure_setTask s i tk { tk with granted := false } htk
            have e : tw { tk with granted := false } = tw tk := rfl
            exact hcont _ _ ht' (by omega) (by simp [iw])
          · exact Nat.le_refl _
    | join t =>
      simp only [runProg]
      split
      · exact Nat.le_refl _
      · rename_i tj hj
        split
        · exact Nat.le_refl _
        · split
          · exact Nat.le_refl _
          · split
            · exact hcont _ s h (Nat.le_refl _) (by simp [iw])
            · -- register the JoinHandle's waker
              rename_i hnd
              have ht' : TaskAt { s with tasks := s.tasks.set t { tj with joiner := some (k, i) } } i (.join t :: r) :=
                taskAt_setTask s t i _ tj _ hj rfl rfl h
              have h1 := measure_setProg _ i (.join t :: r) (.joining t :: r) ht'
              have h2 := measure_setTask s t tj { tj with joiner := some (k, i) } hj
              have e : tw { tj with joiner := some (k, i) } ≤ tw tj + 1 := by
                unfold tw jw
                simp only
                split
                · omega
                · split <;> simp <;> omega
              simp [iw] at h1
              omega
    | joining t =>
      simp only [runProg]
      split
      · exact Nat.le_refl _
      · split
        · exact Nat.le_refl _
        · split
          · exact hcont _ s h (Nat.le_refl _) (by simp [iw])
          · exact Nat.le_refl _
    | waitT q d =>
      simp only [runProg]
      split
      · exact Nat.le_refl _
      · rename_i cd hc
        split
        · split
          · rw [measure_addTimer]
            have ht' : TaskAt { s with conds := s.conds.set q { cd with waiters := cd.waiters ++ [(k, i)] } } i
                (.waitT q d :: r) := h
            have h1 := measure_setProg _ i (.waitT q d :: r) (.waitingT q (s.now + d) :: r) ht'
            have h2 := measure_setCond s q cd { cd with waiters := cd.waiters ++ [(k, i)] } hc
            have e : cw { cd with waiters := cd.waiters ++ [(k, i)] } = cw cd + 1 := by unfold cw; simp
            simp [iw] at h1
            omega
          · exact hcont c s h (Nat.le_refl _) (by simp [iw])
        · have ht' : TaskAt { s with conds := s.conds.set q { cd with permits := cd.permits - 1 } } i
              (.waitT q d :: r) := h
          have h2 := measure_setCond s q cd { cd with permits := cd.permits - 1 } hc
          have e : cw { cd with permits := cd.permits - 1 } = cw cd := rfl
          exact hcont _ _ ht' (by omega) (by simp [iw])
    | waitingT q t =>
      simp only [runProg]
      split
      · exact Nat.le_refl _
      · rename_i tk htk
        split
        · have ht' : TaskAt (removeTimer { s with tasks := s.tasks.set i { tk with granted := false } } ⟨t, k, i⟩) i
              (.waitingT q t :: r) := taskAt_setTask s i i _ tk _ htk rfl rfl h
          have h2 := measure_setTask s i tk { tk with granted := false } htk
          have e : tw { tk with granted := false } = tw tk := rfl
          have e2 : measure (removeTimer { s with tasks := s.tasks.set i { tk with granted := false } } ⟨t, k, i⟩)
              = measure { s with tasks := s.tasks.set i { tk with granted := false } } := rfl
          exact hcont _ _ ht' (by omega) (by simp [iw])
        · split
          · exact Nat.le_refl _
          · exact hcont _ _ (taskAt_removeWaiter s q (k, i) i _ h) (measure_removeWaiter s q (k, i)) (by simp [iw])
    | sleep d =>
      simp only [runProg]
      split
      · rw [measure_addTimer]
        have := measure_setProg s i (.sleep d :: r) (.sleeping (s.now + d) :: r) h
        simp [iw] at this
        omega
      · exact hcont c s h (Nat.le_refl _) (by simp [iw])
    | sleepUntil t =>
      simp only [runProg]
      split
      · rw [measure_addTimer]
        have := measure_setProg s i (.sleepUntil t :: r) (.sleeping t :: r) h
        simp [iw] at this
        omega
      · exact hcont c s h (Nat.le_refl _) (by simp [iw])
    | sleeping t =>
      simp only [runProg]
      split
      · exact Nat.le_refl _
      · exact hcont c s h (Nat.le_refl _) (by simp [iw])

theorem measure_markPolled (s : St) (i : Nat) : measure (markPolled s i) = measure s := by
  unfold markPolled
  split
  · rfl
  · rename_i tk h
    have := measure_setTask s i tk { tk with polled := true } h
    have e : tw { tk with polled := true } = tw tk := rfl
    omega

theorem taskAt_markPolled (s : St) (i : Nat) (p : List Instr) (h : TaskAt s i p) :
    TaskAt (markPolled s i) i p := by
  obtain ⟨tk, h1, h2, h3⟩ := h
  have hlt : i < s.tasks.length := by
    rcases Nat.lt_or_ge i s.tasks.length with hl | hl
    · exact hl
    · rw [List.getElem?_eq_none hl] at h1; cases h1
  unfold markPolled
  rw [h1]
  exact ⟨{ tk with polled := true }, by simp [hlt], h2, h3⟩

theorem measure_pollTask (P : Params) (e : Entry) (s : St) : measure (pollTask P e s) ≤ measure s := by
  unfold pollTask
  split
  · exact Nat.le_refl _
  · rename_i tk h
    split
    · exact Nat.le_refl _
    · rename_i hd
      have hT : TaskAt s e.idx tk.prog := ⟨tk, h, rfl, by simpa using hd⟩
      split
      · exact measure_runProg _ _ _ _ _ _ _ hT
      · have := measure_runProg tk.kind e.idx tk.prog P.C s.now s.phase
          (logAt (markPolled s e.idx) e.idx e.ready e.origin) (taskAt_markPolled s e.idx _ hT)
        rw [measure_logAt, measure_markPolled] at this
        exact this

theorem measure_pop (P : Params) (q : Kind) (s s' : St) (e : Entry) (h : pop P q s = some (e, s')) :
    measure s' + 1 = measure s := by
  rcases pop_some P q s s' e h with ⟨r, h1, rfl⟩ | ⟨r, h1, rfl⟩ | ⟨r, h1, rfl⟩ <;>
    simp [measure, h1] <;> omega

/-- every poll strictly decreases the measure -/
theorem measure_step (P : Params) (q : Kind) (s : St) (x : Entry × St) (h : pop P q s = some x) :
    measure (step P q s) + 1 ≤ measure s := by
  obtain ⟨e, s'⟩ := x
  unfold step
  rw [h]
  have h1 := measure_pollTask P e s'
  have h2 := measure_pop P q s s' e h
  have h3 : measure (noteSilent s' (pollTask P e s')) = measure (pollTask P e s') := by
    rcases noteSilent_eq s' (pollTask P e s') with h | h <;> rw [h] <;> rfl
  simp only
  omega

theorem pop_none_of_measure (P : Params) (q : Kind) (s : St) (h : measure s = 0) : pop P q s = none := by
  unfold measure at h
  cases q with
  | loc => exact (pop_none_loc P s).2 (List.eq_nil_of_length_eq_zero (by omega))
  | rt =>
    exact (pop_none_rt P s).2
      ⟨List.eq_nil_of_length_eq_zero (by omega), List.eq_nil_of_length_eq_zero (by omega)⟩

/-- all wake chains of the model terminate: `measure s` polls always empty the queue -/
theorem measure_drains (P : Params) (q : Kind) :
    ∀ (b : Nat) (s : St), measure s ≤ b → pop P q (runQ P q b s) = none := by
  intro b
  induction b with
  | zero =>
    intro s h
    exact pop_none_of_measure P q s (by omega)
  | succ b ih =>
    intro s h
    cases hq : pop P q s with
    | none => rw [runQ_of_empty P q _ s hq]; exact hq
    | some x =>
      rw [runQ_cons P q b s x hq]
      have := measure_step P q s x hq
      exact ih _ (by omega)

end Exec

/-
Modules of the scripted simulation do not interact, so the order in which the event set delivers
events of *different* modules is irrelevant: every maximal interleaving of the modules' own event
sequences ends in the same module states (observation logs included).  `Sim.loop` (equal-time
events ordered by module index) is one such interleaving; the real event set (equal-time events
in insertion order) is another.  Within one module the model's order (pending wake-ups before the
restart on equal times) is the insertion order of the real event set: a module that is shut down
schedules nothing until its restart event.
-/
import Desverif.Proofs.TimerSim
namespace Timer

/-- the next event of a module on its own: its earliest pending event -/
def Mod.ownStep (m : Mod) : Option Mod :=
  match m.nextEvent with
  | some (t, k) => some (m.event next t k).1
  | none => none

def Mod.iter : Nat → Mod → Option Mod
  | 0, m => some m
  | n + 1, m => match m.ownStep with
    | some m' => Mod.iter n m'
    | none => none

/-- any interleaving: repeatedly, *some* module that has a pending event handles its earliest one -/
inductive Interleave : List Mod → List Mod → Prop
  | done (ms : List Mod) : Interleave ms ms
  | step {ms ms' : List Mod} (i : Nat) (m m' : Mod) (h1 : ms[i]? = some m) (h2 : m.ownStep = some m')
      (h3 : Interleave (ms.set i m') ms') : Interleave ms ms'

/-- no module has a pending event -/
def Quiescent (ms : List Mod) : Prop := ∀ m ∈ ms, m.nextEvent = none

theorem iter_det {n k : Nat} {m a b : Mod} (ha : Mod.iter n m = some a) (hna : a.ownStep = none)
    (hb : Mod.iter k m = some b) (hnb : b.ownStep = none) : a = b := by
  induction n generalizing m k with
  | zero =>
    simp only [Mod.iter, Option.some.injEq] at ha
    subst ha
    cases k with
    | zero => simp only [Mod.iter, Option.some.injEq] at hb; exact hb
    | succ k => simp only [Mod.iter, hna] at hb; cases hb
  | succ n ih =>
    simp only [Mod.iter] at ha
    split at ha
    · rename_i m' hm'
      cases k with
      | zero =>
        simp only [Mod.iter, Option.some.injEq] at hb
        subst hb
        rw [hnb] at hm'; cases hm'
      | succ k =>
        simp only [Mod.iter, hm'] at hb
        exact ih ha hb
    · cases ha

theorem iter_snoc {n : Nat} {m a b : Mod} (h : Mod.iter n m = some a) (hs : a.ownStep = some b) :
    Mod.iter (n + 1) m = some b := by
  induction n generalizing m with
  | zero =>
    simp only [Mod.iter, Option.some.injEq] at h
    subst h
    simp [Mod.iter, hs]
  | succ n ih =>
    simp only [Mod.iter] at h
    split at h
    · rename_i m' hm'
      show (match m.ownStep with | some m' => Mod.iter (n + 1) m' | none => none) = some b
      rw [hm']
      exact ih h
    · cases h

/-- in any interleaving every module just runs a prefix of its own event sequence -/
theorem interleave_iter {ms ms' : List Mod} (h : Interleave ms ms') :
    ms'.length = ms.length ∧ ∀ (i : Nat) (m : Mod), ms[i]? = some m → ∃ n m', ms'[i]? = some m' ∧ Mod.iter n m = some m' := by
  induction h with
  | done ms => exact ⟨rfl, fun i m hm => ⟨0, m, hm, rfl⟩⟩
  | @step ms ms' i m m' h1 h2 _ ih =>
    obtain ⟨hlen, hall⟩ := ih
    refine ⟨by rw [hlen, List.length_set], ?_⟩
    intro j mj hj
    by_cases hij : j = i
    · subst hij
      have hlt : j < ms.length := by
        rcases List.getElem?_eq_some_iff.mp h1 with ⟨hl, _⟩; exact hl
      rw [h1] at hj
      cases hj
      obtain ⟨n, mf, hf, hit⟩ := hall j m' (by rw [List.getElem?_set_self hlt])
      refine ⟨n + 1, mf, hf, ?_⟩
      show (match m.ownStep with | some m' => Mod.iter n m' | none => none) = some mf
      rw [h2]; exact hit
    · exact hall j mj (by rw [List.getElem?_set_ne (Ne.symm hij)]; exact hj)

theorem quiescent_ownStep {ms : List Mod} (h : Quiescent ms) {m : Mod} (hm : m ∈ ms) : m.ownStep = none := by
  unfold Mod.ownStep
  rw [h m hm]

/-- **The order of events of different modules is irrelevant**: two maximal interleavings end in
    the same module states — timers, tasks, counters and every module's observation log. -/
theorem interleave_confluent {ms a b : List Mod} (ha : Interleave ms a) (hqa : Quiescent a)
    (hb : Interleave ms b) (hqb : Quiescent b) : a = b := by
  obtain ⟨la, fa⟩ := interleave_iter ha
  obtain ⟨lb, fb⟩ := interleave_iter hb
  apply List.ext_getElem?
  intro i
  cases hm : ms[i]? with
  | none =>
    have h1 : ms.length ≤ i := List.getElem?_eq_none_iff.mp hm
    rw [List.getElem?_eq_none_iff.mpr (by omega), List.getElem?_eq_none_iff.mpr (by omega)]
  | some m =>
    obtain ⟨n, ma, hma, hia⟩ := fa i m hm
    obtain ⟨k, mb, hmb, hib⟩ := fb i m hm
    rw [hma, hmb]
    congr 1
    exact iter_det hia (quiescent_ownStep hqa (List.mem_of_getElem? hma)) hib
      (quiescent_ownStep hqb (List.mem_of_getElem? hmb))

/-! ### `Sim.loop` is one of these interleavings -/

theorem pickNext_spec {mods : List Mod} {idx i t : Nat} {k : Kind} (h : pickNext mods idx = some (i, t, k)) :
    idx ≤ i ∧ ∃ m, mods[i - idx]? = some m ∧ m.nextEvent = some (t, k) := by
  induction mods generalizing idx i t k with
  | nil => simp [pickNext] at h
  | cons a rest ih =>
    simp only [pickNext] at h
    split at h
    · rename_i t0 k0 i' t' k' hne hrest
      obtain ⟨hle, m, hm, hmn⟩ := ih hrest
      split at h
      · cases h
        exact ⟨Nat.le_refl _, a, by simp, hne⟩
      · cases h
        refine ⟨by omega, m, ?_, hmn⟩
        have : i - idx = (i - (idx + 1)) + 1 := by omega
        rw [this, List.getElem?_cons_succ]; exact hm
    · rename_i t0 k0 hne hrest
      cases h
      exact ⟨Nat.le_refl _, a, by simp, hne⟩
    · rename_i hne
      obtain ⟨hle, m, hm, hmn⟩ := ih h
      refine ⟨by omega, m, ?_, hmn⟩
      have : i - idx = (i - (idx + 1)) + 1 := by omega
      rw [this, List.getElem?_cons_succ]; exact hm

theorem pickNext_quiescent {mods : List Mod} {idx : Nat} (h : pickNext mods idx = none) : Quiescent mods := by
  induction mods generalizing idx with
  | nil => intro m hm; cases hm
  | cons b rest ih =>
    simp only [pickNext] at h
    intro m hm
    split at h
    · split at h <;> cases h
    · cases h
    · rename_i hnb
      rcases List.mem_cons.mp hm with hm | hm
      · subst hm; exact hnb
      · exact ih h m hm

theorem eventOn_mods {s : Sim} {i t : Nat} {k : Kind} {m : Mod} (hm : s.mods[i]? = some m) :
    (s.eventOn next i t k).mods = s.mods.set i (m.event next t k).1 := by
  unfold Sim.eventOn
  rw [hm]

theorem loop_interleave {fuel : Nat} {s s' : Sim} (hr : Sim.loop next fuel s = some s') :
    Interleave s.mods s'.mods ∧ Quiescent s'.mods := by
  induction fuel generalizing s with
  | zero => cases hr
  | succ n ih =>
    simp only [Sim.loop] at hr
    split at hr
    · rename_i hp
      cases hr
      exact ⟨Interleave.done _, pickNext_quiescent hp⟩
    · rename_i i t k hp
      obtain ⟨_, m, hm, hmn⟩ := pickNext_spec hp
      simp only [Nat.sub_zero] at hm
      obtain ⟨h1, h2⟩ := ih hr
      rw [eventOn_mods hm] at h1
      refine ⟨Interleave.step i m (m.event next t k).1 hm ?_ h1, h2⟩
      unfold Mod.ownStep
      rw [hmn]

end Timer

import Desverif.Proofs.CQArith
import Desverif.Proofs.CQList
namespace CQ
open FES (evLt eraseId minEv)

/-- the part of the invariant the scan loop of `fetch_next` relies on -/
structure ScanInv (s : State) : Prop where
  hn : 0 < s.n
  ht : 0 < s.t
  hlen : s.buckets.length = s.n
  sorted : ∀ b ∈ s.buckets, b.Pairwise (fun a c => a.time ≤ c.time)
  idxOk : ∀ i b, s.buckets[i]? = some b → ∀ e ∈ b, idx s.n s.t e.time = i
  win : ∃ k, s.t0 = k * s.t ∧ s.head = k % s.n
  t1eq : s.t1 = s.t0 + s.t
  ge0 : ∀ b ∈ s.buckets, ∀ e ∈ b, s.t0 ≤ e.time

theorem head_lt {s : State} (h : ScanInv s) : s.head < s.buckets.length := by
  obtain ⟨k, _, hk⟩ := h.win
  rw [h.hlen, hk]; exact Nat.mod_lt _ h.hn

/-- times inside the current window `[t0,t1)` hash to bucket `head` -/
theorem in_window_idx {s : State} (h : ScanInv s) (x : Nat) (h0 : s.t0 ≤ x) (h1 : x < s.t1) :
    idx s.n s.t x = s.head := by
  obtain ⟨k, hk0, hk⟩ := h.win
  have : x = k * s.t + (x - s.t0) := by omega
  rw [this, idx_window _ _ _ _ h.hn h.ht (by have := h.t1eq; omega), hk]

theorem adv_inv {s : State} (h : ScanInv s)
    (hskip : ∀ b, s.buckets[s.head]? = some b → ∀ e ∈ b, s.t1 < e.time) : ScanInv (adv s) := by
  obtain ⟨k, hk0, hk⟩ := h.win
  refine ⟨h.hn, h.ht, h.hlen, h.sorted, h.idxOk, ⟨k+1, ?_, ?_⟩, ?_, ?_⟩
  · simp [adv, hk0, Nat.add_mul]
  · simp [adv, hk, Nat.add_mod]
  · simp [adv, h.t1eq]
  · intro b hb e he
    show s.t0 + s.t ≤ e.time
    have hge := h.ge0 b hb e he
    obtain ⟨i, hi, rfl⟩ := List.getElem_of_mem hb
    have hsome : s.buckets[i]? = some s.buckets[i] := List.getElem?_eq_getElem hi
    have hidx := h.idxOk i _ hsome e he
    by_cases hih : i = s.head
    · subst hih
      have := hskip _ hsome e he
      have := h.t1eq; omega
    · by_cases hlt : e.time < s.t1
      · exact absurd ((in_window_idx h e.time hge hlt).symm.trans hidx).symm hih
      · have := h.t1eq; omega

/-- `w` is `s` with the window moved forward (buckets and everything else untouched) -/
def SameBut (s w : State) : Prop :=
  w.n = s.n ∧ w.t = s.t ∧ w.zero = s.zero ∧ w.buckets = s.buckets ∧ w.tcur = s.tcur ∧
  w.eventId = s.eventId ∧ w.len = s.len ∧ s.t0 ≤ w.t0

theorem scan_step_adv (fuel : Nat) (s : State)
    (hskip : s.buckets[s.head]? = some [] ∨
      ∃ e rest, s.buckets[s.head]? = some (e :: rest) ∧ s.t1 < e.time) :
    scan (fuel + 1) s = scan fuel (adv s) := by
  rcases hskip with h | ⟨e, rest, h, hlt⟩
  · simp [scan, h]
  · simp [scan, h, hlt]

/-- Termination and result shape of the real loop: with fuel `(m.time − t0)/t + 1` for *any*
    pending event `m`, the scan stops successfully on a window state `w`. -/
theorem scan_ok (fuel : Nat) : ∀ (s : State), ScanInv s → ∀ (m : Ev), (∃ b ∈ s.buckets, m ∈ b) →
    (m.time - s.t0) / s.t + 1 ≤ fuel →
    ∃ w e rest, SameBut s w ∧ ScanInv w ∧ w.buckets[w.head]? = some (e :: rest) ∧ e.time ≤ w.t1 ∧
      scan fuel s = .ok (e, popAt w e rest) := by
  induction fuel with
  | zero => intro s _ m _ hf; exact absurd hf (Nat.not_succ_le_zero _)
  | succ fuel ih =>
    intro s h m hm hf
    have hlt := head_lt h
    obtain ⟨b, hb⟩ : ∃ b, s.buckets[s.head]? = some b := ⟨_, List.getElem?_eq_getElem hlt⟩
    have stop_or_skip : (∃ e rest, b = e :: rest ∧ e.time ≤ s.t1) ∨
        (∀ b', s.buckets[s.head]? = some b' → ∀ e ∈ b', s.t1 < e.time) := by
      cases b with
      | nil => right; intro b' hb' e he; rw [hb] at hb'; cases hb'; cases he
      | cons e rest =>
        by_cases hle : e.time ≤ s.t1
        · left; exact ⟨e, rest, rfl, hle⟩
        · right; intro b' hb' x hx
          rw [hb] at hb'; cases hb'
          have hs := h.sorted _ (List.mem_of_getElem? hb)
          rcases List.mem_cons.mp hx with rfl | hx'
          · omega
          · have := (List.pairwise_cons.mp hs).1 x hx'; omega
    rcases stop_or_skip with ⟨e, rest, rfl, hle⟩ | hskip
    · refine ⟨s, e, rest, ⟨rfl, rfl, rfl, rfl, rfl, rfl, rfl, Nat.le_refl _⟩, h, hb, hle, ?_⟩
      simp [scan, hb, Nat.not_lt.mpr hle]
    · have hadv := adv_inv h hskip
      have hstep : scan (fuel + 1) s = scan fuel (adv s) := by
        apply scan_step_adv
        cases b with
        | nil => left; exact hb
        | cons e rest => right; exact ⟨e, rest, hb, hskip _ hb e (List.mem_cons_self)⟩
      obtain ⟨bm, hbm, hmb⟩ := hm
      have hmge : (adv s).t0 ≤ m.time := hadv.ge0 bm hbm m hmb
      have hfuel : (m.time - (adv s).t0) / (adv s).t + 1 ≤ fuel := by
        have ht := h.ht
        have e1 : (adv s).t0 = s.t0 + s.t := rfl
        have e2 : (adv s).t = s.t := rfl
        rw [e1] at hmge
        rw [e1, e2]
        have : m.time - s.t0 = (m.time - (s.t0 + s.t)) + s.t := by omega
        rw [this, Nat.add_div_right _ ht] at hf
        omega
      obtain ⟨w, e, rest, hsb, hw, hwb, hle, hscan⟩ := ih (adv s) hadv m ⟨bm, hbm, hmb⟩ hfuel
      refine ⟨w, e, rest, ?_, hw, hwb, hle, hstep ▸ hscan⟩
      obtain ⟨a1, a2, a3, a4, a5, a6, a7, a8⟩ := hsb
      exact ⟨a1, a2, a3, a4, a5, a6, a7, by have : (adv s).t0 = s.t0 + s.t := rfl; omega⟩

/-- What the stop condition buys: the returned event is a global minimum, and every event with
    the same timestamp lives in the same bucket. -/
theorem stop_is_min {w : State} (h : ScanInv w) {e : Ev} {rest : List Ev}
    (hb : w.buckets[w.head]? = some (e :: rest)) (hle : e.time ≤ w.t1) :
    ∀ b ∈ w.buckets, ∀ x ∈ b, e.time ≤ x.time ∧ (x.time = e.time → x ∈ e :: rest) := by
  intro b hbm x hx
  obtain ⟨i, hi, rfl⟩ := List.getElem_of_mem hbm
  have hsome : w.buckets[i]? = some w.buckets[i] := List.getElem?_eq_getElem hi
  have hxi := h.idxOk i _ hsome x hx
  have hei := h.idxOk _ _ hb e List.mem_cons_self
  have hx0 := h.ge0 _ hbm x hx
  by_cases hih : i = w.head
  · subst hih
    have heq : w.buckets[w.head] = e :: rest := Option.some.inj (hsome.symm.trans hb)
    have hs := h.sorted _ hbm
    rw [heq] at hs hx
    constructor
    · rcases List.mem_cons.mp hx with rfl | hx'
      · exact Nat.le_refl _
      · exact (List.pairwise_cons.mp hs).1 x hx'
    · intro _; exact hx
  · have hge1 : w.t1 ≤ x.time := by
      by_cases hlt : x.time < w.t1
      · exact absurd ((in_window_idx h x.time hx0 hlt).symm.trans hxi).symm hih
      · omega
    constructor
    · omega
    · intro heq
      rw [heq, hei] at hxi
      exact absurd hxi.symm hih

end CQ

import Desverif.Proofs.RtSpec
namespace Rt
open CQ (Ev)
open FES (evLt eraseId minEv)

/-! Whole-run facts over the abstract event set: accounting, clock, prefix structure. -/

def lastTime (l : List (Nat × Nat)) (d : Nat) : Nat := (l.getLast?.map (·.2)).getD d

theorem lastTime_nil (d : Nat) : lastTime [] d = d := rfl

theorem lastTime_append (a b : List (Nat × Nat)) (d : Nat) :
    lastTime (a ++ b) d = lastTime b (lastTime a d) := by
  cases b with
  | nil => simp [lastTime]
  | cons x xs =>
    simp only [lastTime]
    rw [List.getLast?_append]
    cases h : (x :: xs).getLast? with
    | none => simp [List.getLast?_eq_none_iff] at h
    | some y => simp

/-- what a stretch of execution from `s` to `s'` producing `os` guarantees -/
structure Run (s : S) (os : List Obs) (s' : S) : Prop where
  inv' : RInv s'
  mono : ((handledOf os).map (·.2)).Pairwise (· ≤ ·)
  lo : ∀ t ∈ (handledOf os).map (·.2), s.now ≤ t
  hi : ∀ t ∈ (handledOf os).map (·.2), t ≤ s'.now
  nowLe : s.now ≤ s'.now
  last : s'.now = lastTime (handledOf os) s.now
  perm : (schedOkOf os ++ pendingVT s.es).Perm (handledOf os ++ pendingVT s'.es)
  itr : s'.itr = s.itr + (handledOf os).length

theorem Run.refl {s : S} (h : RInv s) : Run s [] s :=
  ⟨h, by simp, by simp, by simp, Nat.le_refl _, rfl, by simp, by simp⟩

theorem Run.trans {s s1 s2 : S} {o1 o2 : List Obs} (a : Run s o1 s1) (b : Run s1 o2 s2) :
    Run s (o1 ++ o2) s2 := by
  refine ⟨b.inv', ?_, ?_, ?_, Nat.le_trans a.nowLe b.nowLe, ?_, ?_, ?_⟩
  · rw [handledOf_append, List.map_append, List.pairwise_append]
    refine ⟨a.mono, b.mono, ?_⟩
    intro x hx y hy
    exact Nat.le_trans (a.hi x hx) (b.lo y hy)
  · intro t ht
    rw [handledOf_append, List.map_append] at ht
    rcases List.mem_append.mp ht with ht | ht
    · exact a.lo t ht
    · exact Nat.le_trans a.nowLe (b.lo t ht)
  · intro t ht
    rw [handledOf_append, List.map_append] at ht
    rcases List.mem_append.mp ht with ht | ht
    · exact Nat.le_trans (a.hi t ht) b.nowLe
    · exact b.hi t ht
  · rw [handledOf_append, lastTime_append, ← a.last, b.last]
  · rw [handledOf_append, schedOkOf_append]
    have pa := a.perm; have pb := b.perm
    rw [List.perm_iff_count] at pa pb ⊢
    intro x; have := pa x; have := pb x
    simp only [List.count_append] at *
    omega
  · rw [handledOf_append, List.length_append, b.itr, a.itr]; omega

theorem Run.ofAdd {s : S} (h : RInv s) (time node : Nat) :
    Run s [(addEvent fesES s time node).2] (addEvent fesES s time node).1 := by
  by_cases hlt : time < s.now
  · rw [addEvent_past s _ _ hlt]
    refine ⟨h, by simp [handledOf], by simp [handledOf], by simp [handledOf], Nat.le_refl _, ?_, ?_, ?_⟩
    · simp [handledOf, lastTime]
    · simp [handledOf, schedOkOf]
    · simp [handledOf]
  · obtain ⟨s', hs', hinv, hnow, hitr, _, _, hperm⟩ := addEvent_ok h time node (by omega)
    rw [hs']
    refine ⟨hinv, by simp [handledOf], by simp [handledOf], by simp [handledOf], by show s.now ≤ s'.now; omega, ?_, ?_, ?_⟩
    · simp [handledOf, lastTime, hnow]
    · simp only [handledOf, schedOkOf, List.filterMap_cons, List.filterMap_nil, List.nil_append]
      exact hperm.symm
    · simp [handledOf, hitr]

theorem Run.ofStep {s s' : S} {os : List Obs} {e : Ev} (f : StepFacts s s' os e) : Run s os s' := by
  refine ⟨f.inv', ?_, ?_, ?_, by rw [f.now']; exact f.nowLe, ?_, ?_, ?_⟩
  · rw [f.handled]; simp
  · rw [f.handled]; simp; exact f.nowLe
  · rw [f.handled]; simp [f.now']
  · rw [f.handled]; simp [lastTime, f.now']
  · rw [f.handled]; exact f.perm
  · rw [f.handled, f.itr']; simp

/-! ### the loop -/

theorem dispatchEvent_run {s : S} (h : RInv s) (prog : Prog) :
    Run s (dispatchEvent fesES prog s).2.1 (dispatchEvent fesES prog s).1 ∧
    (dispatchEvent fesES prog s).1.limit = s.limit := by
  unfold dispatchEvent
  by_cases h0 : fesES.len s.es = 0
  · simp only [h0, if_true]; exact ⟨Run.refl h, by first | rfl | trivial⟩
  · simp only [h0, if_false]
    by_cases h1 : limitHit fesES s = true
    · simp only [h1, if_true]; exact ⟨Run.refl h, by first | rfl | trivial⟩
    · simp only [h1]
      cases hs : stepU fesES prog s with
      | none => exact absurd ((stepU_none_iff prog).mp hs) h0
      | some p =>
        obtain ⟨s', os⟩ := p
        obtain ⟨e, f⟩ := stepU_spec h prog hs
        exact ⟨Run.ofStep f, f.limit'⟩

theorem dispatchAll_run (prog : Prog) (fuel : Nat) : ∀ {s : S}, RInv s →
    Run s (dispatchAll fesES prog fuel s).2 (dispatchAll fesES prog fuel s).1 ∧
    (dispatchAll fesES prog fuel s).1.limit = s.limit := by
  induction fuel with
  | zero => intro s h; exact ⟨Run.refl h, rfl⟩
  | succ fuel ih =>
    intro s h
    obtain ⟨r1, l1⟩ := dispatchEvent_run h prog
    simp only [dispatchAll]
    rcases hd : dispatchEvent fesES prog s with ⟨s', os, b⟩
    rw [hd] at r1 l1
    cases b with
    | true => exact ⟨r1, l1⟩
    | false =>
      obtain ⟨r2, l2⟩ := ih r1.inv'
      simp only
      exact ⟨r1.trans r2, by rw [l2, l1]⟩

theorem Run.relimit {s s' : S} {os : List Obs} (r : Run s os s') (l l' : Limit) :
    Run (withLimit s l) os (withLimit s' l') :=
  ⟨withLimit_inv r.inv' l', r.mono, r.lo, r.hi, r.nowLe, r.last, r.perm, r.itr⟩

theorem execCmd_run (prog : Prog) (fuel : Nat) {s : S} (h : RInv s) (c : Cmd) :
    Run s (execCmd fesES prog fuel s c).2 (execCmd fesES prog fuel s c).1 := by
  cases c with
  | add time node => exact Run.ofAdd h time node
  | stepN n =>
    obtain ⟨r, _⟩ := dispatchAll_run prog fuel (withLimit_inv h (.eventCount (s.itr + n)))
    exact (r.relimit s.limit s.limit : Run (withLimit (withLimit s _) s.limit) _ _)
  | stepUntil t =>
    obtain ⟨r, _⟩ := dispatchAll_run prog fuel (withLimit_inv h (.simTime t))
    exact (r.relimit s.limit s.limit : Run (withLimit (withLimit s _) s.limit) _ _)
  | runAll => exact (dispatchAll_run prog fuel h).1

/-- all observations of a session, flattened -/
def allObs (outs : List (List Obs × Paused)) : List Obs := outs.flatMap (·.1)

theorem execCmds_run (prog : Prog) (fuel : Nat) (cs : List Cmd) : ∀ {s : S}, RInv s →
    Run s (allObs (execCmds fesES prog fuel s cs).2) (execCmds fesES prog fuel s cs).1 := by
  induction cs with
  | nil => intro s h; exact Run.refl h
  | cons c cs ih =>
    intro s h
    have r1 := execCmd_run prog fuel h c
    have r2 := ih r1.inv'
    simp only [execCmds, allObs, List.flatMap_cons]
    exact r1.trans r2

end Rt

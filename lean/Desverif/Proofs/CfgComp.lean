/-
`compartmentalize_map` turns a flat configuration into a normal form with the same flat reading,
provided no entry's key followed by the wildcard is a prefix of another entry's key (class F11b).
-/
import Desverif.Proofs.CfgNF
namespace Cfg

/-- a key `compartmentalize_map` still has to rewrite -/
def Pending (k : Key) : Prop := ANY ∈ k ∧ k.getLast? ≠ some ANY

/-- loop state of `compartmentalize_map`: normal-form entries plus not yet rewritten flat entries -/
structure Semi (es : Entries) : Prop where
  nodup : (keysOf es).Nodup
  ent : ∀ k v, (k, v) ∈ es → ENF k v ∨ (Pending k ∧ ∃ s, v = .scalar s)

def Func (es : Entries) : Prop := ∀ k s1 s2, FlatOf es k s1 → FlatOf es k s2 → s1 = s2
def NoClashF (es : Entries) : Prop :=
  ∀ k1 s1 k2 s2, FlatOf es k1 s1 → FlatOf es k2 s2 → ¬ (k1 ++ [ANY]) <+: k2
def Good (es : Entries) : Prop := Func es ∧ NoClashF es

theorem Good.of_flatEq {a b : Entries} (h : ∀ k s, FlatOf a k s ↔ FlatOf b k s) (hb : Good b) : Good a :=
  ⟨fun k s1 s2 h1 h2 => hb.1 k s1 s2 ((h k s1).mp h1) ((h k s2).mp h2),
   fun k1 s1 k2 s2 h1 h2 => hb.2 k1 s1 k2 s2 ((h k1 s1).mp h1) ((h k2 s2).mp h2)⟩

/-- the flat reading of `sub` embeds into that of `big` below the prefix `pfx` -/
theorem Good.of_embed {sub big : Entries} (pfx : Key)
    (h : ∀ k s, FlatOf sub k s → FlatOf big (pfx ++ k) s) (hb : Good big) : Good sub :=
  ⟨fun k s1 s2 h1 h2 => hb.1 _ s1 s2 (h k s1 h1) (h k s2 h2),
   fun k1 s1 k2 s2 h1 h2 hp => hb.2 _ s1 _ s2 (h k1 s1 h1) (h k2 s2 h2) (by
     obtain ⟨t, ht⟩ := hp
     exact ⟨t, by rw [← ht]; simp⟩)⟩

theorem not_pending_any : ¬ Pending [ANY] := fun h => h.2 rfl

theorem ENF.not_pending {k : Key} {v : Val} (h : ENF k v) : ¬ Pending k := by
  cases h with
  | any _ _ => exact not_pending_any
  | top h1 _ _ _ => exact fun hp => h1 hp.1
  | leaf h1 _ => exact fun hp => h1 hp.1

theorem Semi.of_NF {es : Entries} (h : NF es) : Semi es :=
  ⟨h.nodup, fun _ _ hm => Or.inl (h.ent hm)⟩

theorem Semi.toNF {es : Entries} (h : Semi es) (hp : ∀ k v, (k, v) ∈ es → ¬ Pending k) : NF es :=
  NF.mk h.nodup (fun k v hm => (h.ent k v hm).resolve_right (fun hh => hp k v hm hh.1))

/-! ### `splitAny` -/

theorem splitAny_spec {k : Key} (h : ANY ∈ k) :
    ∃ top bot, splitAny k = some (top, bot) ∧ k = top ++ ANY :: bot ∧ ANY ∉ top := by
  induction k with
  | nil => simp at h
  | cons a r ih =>
    by_cases ha : a = ANY
    · exact ⟨[], r, by simp [splitAny, ha], by simp [ha], by simp⟩
    · have hr : ANY ∈ r := by
        rcases List.mem_cons.mp h with h | h
        · exact absurd h.symm ha
        · exact h
      obtain ⟨top, bot, h1, h2, h3⟩ := ih hr
      refine ⟨a :: top, bot, by simp [splitAny, ha, h1], by simp [h2], ?_⟩
      simp only [List.mem_cons, not_or]
      exact ⟨fun h => ha h.symm, h3⟩

theorem pending_bot {top bot : Key} (h : Pending (top ++ ANY :: bot)) :
    bot ≠ [] ∧ bot.getLast? ≠ some ANY := by
  have h2 := h.2
  rw [List.getLast?_append] at h2
  cases bot with
  | nil => simp at h2
  | cons b r =>
    refine ⟨by simp, ?_⟩
    rw [List.getLast?_cons_cons] at h2
    cases hl : (b :: r).getLast? with
    | none => simp at hl
    | some l => rw [hl] at h2; simpa using h2

/-- the inserted remainder is a normal-form leaf or again pending -/
theorem bot_entry {bot : Key} (s : String) (h : bot ≠ [] ∧ bot.getLast? ≠ some ANY) :
    ENF bot (.scalar s) ∨ (Pending bot ∧ ∃ s', Val.scalar s = .scalar s') := by
  by_cases ha : ANY ∈ bot
  · exact Or.inr ⟨⟨ha, h.2⟩, s, rfl⟩
  · exact Or.inl (ENF.leaf ha h.1)

/-! ### `pendingKeys` -/

theorem mem_pendingKeys {es : Entries} (h : Semi es) {k : Key} :
    k ∈ pendingKeys es ↔ ∃ s, (k, Val.scalar s) ∈ es ∧ Pending k := by
  unfold pendingKeys
  rw [List.mem_filter]
  constructor
  · rintro ⟨hk, hc⟩
    obtain ⟨⟨k', v⟩, hm, rfl⟩ := List.mem_map.mp hk
    simp only [Bool.and_eq_true, bne_iff_ne, ne_eq] at hc
    have ha : ANY ∈ k' := by simpa [hasAny] using hc.1
    rcases h.ent k' v hm with h1 | ⟨h1, s, h2⟩
    · cases h1 with
      | any _ _ => exact absurd rfl hc.2
      | top h3 _ _ _ => exact absurd ha h3
      | leaf h3 _ => exact absurd ha h3
    · subst h2; exact ⟨s, hm, h1⟩
  · rintro ⟨s, hm, hp⟩
    refine ⟨mem_keysOf hm, ?_⟩
    simp only [Bool.and_eq_true, bne_iff_ne, ne_eq]
    refine ⟨by simpa [hasAny] using hp.1, ?_⟩
    intro hk; subst hk; exact not_pending_any hp

theorem nodup_pendingKeys {es : Entries} (h : Semi es) : (pendingKeys es).Nodup :=
  List.Nodup.sublist List.filter_sublist h.nodup

/-! ### membership after `entry(k).or_insert` + overwrite -/

theorem mem_replace_orInsert {es : Entries} {k : Key} {v : Val} {e : Key × Val} :
    e ∈ replace (orInsertEmpty es k) k v ↔ e = (k, v) ∨ (e ∈ es ∧ e.1 ≠ k) := by
  rw [mem_replace]
  constructor
  · rintro (⟨h, _⟩ | ⟨h1, h2⟩)
    · exact Or.inl h
    · rcases mem_orInsertEmpty.mp h1 with h1 | ⟨_, h1⟩
      · exact Or.inr ⟨h1, h2⟩
      · subst h1; exact absurd rfl h2
  · rintro (h | ⟨h1, h2⟩)
    · exact Or.inl ⟨h, mem_keysOf_orInsertEmpty es k⟩
    · exact Or.inr ⟨mem_orInsertEmpty.mpr (Or.inl h1), h2⟩

theorem nodup_replace_orInsert {es : Entries} {k : Key} {v : Val} (nd : (keysOf es).Nodup) :
    (keysOf (replace (orInsertEmpty es k) k v)).Nodup := by
  rw [keysOf_replace]; exact nodup_orInsertEmpty nd

theorem get_append_single (es : Entries) (k : Key) (v : Val) (hk : k ∉ keysOf es) :
    get (es ++ [(k, v)]) k = some v := by
  induction es with
  | nil => simp [get]
  | cons e r ih =>
    obtain ⟨k', v'⟩ := e
    simp only [keysOf, List.map_cons, List.mem_cons, not_or] at hk
    have : k' ≠ k := fun h => hk.1 h.symm
    simp only [List.cons_append, get, this, if_false]
    exact ih hk.2

theorem get_orInsertEmpty (es : Entries) (k : Key) :
    get (orInsertEmpty es k) k = match get es k with
      | some v => some v
      | none => some (.map []) := by
  unfold orInsertEmpty
  cases h : get es k with
  | none =>
    simp only [Option.isSome_none, Bool.false_eq_true, if_false]
    exact get_append_single es k _ (get_none_iff.mp h)
  | some v => simp [h]

/-! ### the recursive call -/

/-- what the step lemma needs from the recursive `compartmentalize_map` call: it handles loop
    states whose pending keys have length at most `g` -/
def HRec (rec : Entries → Except Err Entries) (g : Nat) : Prop :=
  ∀ es, Semi es → (∀ k v, (k, v) ∈ es → Pending k → k.length ≤ g) → Good es →
    ∃ es', rec es = .ok es' ∧ NF es' ∧ ∀ k s, FlatOf es' k s ↔ FlatOf es k s

theorem flatOf_insert {w : Entries} {bot : Key} {s : String}
    (hc : ∀ v', (bot, v') ∈ w → v' = .scalar s) (k : Key) (x : String) :
    FlatOf (insert w bot (.scalar s)) k x ↔ FlatOf w k x ∨ (k = bot ∧ x = s) := by
  constructor
  · intro h
    cases h with
    | leaf hm =>
      rcases mem_insert.mp hm with hm | hm
      · simp only [Prod.mk.injEq, Val.scalar.injEq] at hm; exact Or.inr hm
      · exact Or.inl (FlatOf.leaf hm.1)
    | node hm hf =>
      rcases mem_insert.mp hm with hm | hm
      · simp at hm
      · exact Or.inl (FlatOf.node hm.1 hf)
  · rintro (h | ⟨h1, h2⟩)
    · cases h with
      | @leaf _ k _ hm =>
        by_cases hk : k = bot
        · subst hk
          have := hc _ hm
          simp only [Val.scalar.injEq] at this
          subst this
          exact FlatOf.leaf (mem_insert.mpr (Or.inl rfl))
        · exact FlatOf.leaf (mem_insert.mpr (Or.inr ⟨hm, hk⟩))
      | @node _ k1 sub k' _ hm hf =>
        by_cases hk : k1 = bot
        · subst hk; have := hc _ hm; simp at this
        · exact FlatOf.node (mem_insert.mpr (Or.inr ⟨hm, hk⟩)) hf
    · subst h1 h2
      exact FlatOf.leaf (mem_insert.mpr (Or.inl rfl))

/-- yaml.rs:72-82 on an entry whose `<any>` slot is absent or a normal form `w` -/
theorem anyInsert_spec (rec : Entries → Except Err Entries) (g : Nat) (hrec : HRec rec g)
    (entry w : Entries) (bot : Key) (s : String)
    (hw : NF w ∧ (get entry [ANY] = some (.map w) ∨ (get entry [ANY] = none ∧ w = [])))
    (hbot : bot ≠ [] ∧ bot.getLast? ≠ some ANY) (hlen : bot.length ≤ g)
    (big : Entries) (pfx : Key) (hbig : Good big)
    (hemb : ∀ k x, FlatOf w k x → FlatOf big (pfx ++ k) x)
    (hembBot : FlatOf big (pfx ++ bot) s) :
    ∃ sub', anyInsert rec entry bot (.scalar s) =
        .ok (some (replace (orInsertEmpty entry [ANY]) [ANY] (.map sub'))) ∧ NF sub' ∧
      (∀ k x, FlatOf sub' k x ↔ (FlatOf w k x ∨ (k = bot ∧ x = s))) := by
  obtain ⟨hwNF, hget⟩ := hw
  -- an existing entry for `bot` can only be the same scalar
  have hc : ∀ v', (bot, v') ∈ w → v' = .scalar s := by
    intro v' hm
    cases hwNF.ent hm with
    | any _ _ => exact absurd rfl hbot.2
    | @top _ w2 _ _ _ hwit =>
      obtain ⟨k2, s2, hf2⟩ := hwit
      have h1 : FlatOf w (bot ++ ([ANY] ++ k2)) s2 :=
        FlatOf.node hm (FlatOf.node (List.mem_singleton.mpr rfl) hf2)
      exfalso
      refine hbig.2 _ _ _ _ hembBot (hemb _ _ h1) ⟨k2, ?_⟩
      simp
    | leaf _ _ =>
      have := hbig.1 _ _ _ (hemb _ _ (FlatOf.leaf hm)) hembBot
      rw [this]
  have hflat := flatOf_insert hc
  have hsemi : Semi (insert w bot (.scalar s)) := by
    refine ⟨nodup_insert hwNF.nodup, ?_⟩
    intro k v hm
    rcases mem_insert.mp hm with hm | hm
    · simp only [Prod.mk.injEq] at hm
      obtain ⟨h1, h2⟩ := hm
      subst h1 h2
      exact bot_entry s hbot
    · exact Or.inl (hwNF.ent hm.1)
  have hplen : ∀ k v, (k, v) ∈ insert w bot (.scalar s) → Pending k → k.length ≤ g := by
    intro k v hm hp
    rcases mem_insert.mp hm with hm | hm
    · simp only [Prod.mk.injEq] at hm; rw [hm.1]; exact hlen
    · exact absurd hp (hwNF.ent hm.1).not_pending
  have hgood : Good (insert w bot (.scalar s)) := by
    refine Good.of_embed pfx ?_ hbig
    intro k x hf
    rcases (hflat k x).mp hf with h | ⟨h1, h2⟩
    · exact hemb k x h
    · subst h1 h2; exact hembBot
  obtain ⟨sub', hr, hnf, hfe⟩ := hrec _ hsemi hplen hgood
  refine ⟨sub', ?_, hnf, fun k x => (hfe k x).trans (hflat k x)⟩
  have hg : get (orInsertEmpty entry [ANY]) [ANY] = some (.map w) := by
    rw [get_orInsertEmpty]
    rcases hget with h | ⟨h, hw0⟩
    · rw [h]
    · rw [h, hw0]
  unfold anyInsert
  simp only [hg, hr]

end Cfg

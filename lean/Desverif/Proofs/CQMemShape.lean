/-
How one operation of the queue-with-memory model changes the node map: unchanged, one fresh entry
(key = the allocator's next key), or the entries of one event id removed.  Sentinels never change.
-/
import Desverif.Proofs.CQMemReach
namespace CQMem
open CQRun Alloc

theorem freeNodeOf_shape (orc : Nat → Nat) (st : State) (id : Nat) :
    ((freeNodeOf orc st id).1.nodes = st.nodes ∨
      (freeNodeOf orc st id).1.nodes = st.nodes.filter (·.1 ≠ id)) ∧
    (freeNodeOf orc st id).1.sent = st.sent := by
  unfold freeNodeOf
  split
  · exact ⟨Or.inl rfl, rfl⟩
  · exact ⟨Or.inr rfl, rfl⟩

theorem step_shape (orc : Nat → Nat) (st : State) (op : CQRun.Op) :
    ((step orc st op).st.nodes = st.nodes ∨
      (∃ id, (step orc st op).st.nodes = (id, st.a.next) :: st.nodes) ∨
      (∃ id, (step orc st op).st.nodes = st.nodes.filter (·.1 ≠ id))) ∧
    (step orc st op).st.sent = st.sent := by
  cases op with
  | peek => exact ⟨Or.inl rfl, rfl⟩
  | add time val =>
    simp only [step, add]
    split
    · exact ⟨Or.inl rfl, rfl⟩
    · split
      · exact ⟨Or.inl rfl, rfl⟩
      · split
        · exact ⟨Or.inr (Or.inl ⟨_, rfl⟩), rfl⟩
        · exact ⟨Or.inl rfl, rfl⟩
        · exact ⟨Or.inl rfl, rfl⟩
  | cancel k =>
    simp only [step, cancel]
    split
    · exact ⟨Or.inl rfl, rfl⟩
    · split
      · exact ⟨Or.inl rfl, rfl⟩
      · split
        · rename_i id time _ _ _
          have := freeNodeOf_shape orc { st with q := (CQ.cancel st.q.1 id time, st.q.2) } id
          rcases this with ⟨h1 | h1, h2⟩
          · exact ⟨Or.inl h1, h2⟩
          · exact ⟨Or.inr (Or.inr ⟨id, h1⟩), h2⟩
        · exact ⟨Or.inl rfl, rfl⟩
  | fetch =>
    simp only [step, fetch]
    split
    · exact ⟨Or.inl rfl, rfl⟩
    · exact ⟨Or.inl rfl, rfl⟩
    · split
      · rename_i e m' _ _
        have := freeNodeOf_shape orc { st with q := (m', st.q.2) } e.id
        rcases this with ⟨h1 | h1, h2⟩
        · exact ⟨Or.inl h1, h2⟩
        · exact ⟨Or.inr (Or.inr ⟨e.id, h1⟩), h2⟩
      · exact ⟨Or.inl rfl, rfl⟩

/-- **A node lives exactly as long as its event is bucket-resident.** If event `i` owns the node
    with key `key` before an operation, then after it that block is still live iff event `i` is
    still stored in a bucket — `fetch`/`cancel` release the node of the event they remove and no
    other node; nothing else ever releases a node. -/
theorem node_live_iff {orc P st ss} (ho : OracleOk orc P) (hp : PageOk P) (h : NInv orc P st ss)
    (op : CQRun.Op) {i key : Nat} (hk : st.nodes.lookup i = some key) :
    key ∈ (step orc st op).st.a.live.map (·.key) ↔ i ∈ bids (step orc st op).st.q.1 := by
  obtain ⟨_, _, _, h'⟩ := step_ninv ho hp h op
  have hN := h.nodes
  have hN' := h'.nodes
  obtain ⟨hsh, hsent⟩ := step_shape orc st op
  have hmem := mem_of_lookup hk
  have hkeyNodes : key ∈ st.nodes.map (·.2) := List.mem_map.mpr ⟨(i, key), hmem, rfl⟩
  have hsnd : (st.nodes.map (·.2)).Nodup := (List.nodup_append.mp hN.keysNodup).1
  have hkeyLt : key < st.a.next := by
    obtain ⟨e, he, hek⟩ := List.mem_map.mp ((hN.keys key).mpr (Or.inl hkeyNodes))
    have := hN.k.r.keys e he
    omega
  have hnotSent : key ∉ sentKeys st.sent := fun hs =>
    (List.nodup_append.mp hN.keysNodup).2.2 key hkeyNodes key hs rfl
  rw [hN'.keys key, ← hN'.ids i, hsent]
  constructor
  · rintro (hx | hx)
    · obtain ⟨p, hp1, hp2⟩ := List.mem_map.mp hx
      have hp' : p ∈ st.nodes := by
        rcases hsh with h1 | ⟨id, h1⟩ | ⟨id, h1⟩
        · rw [h1] at hp1; exact hp1
        · rw [h1] at hp1
          rcases List.mem_cons.mp hp1 with heq | hm
          · exfalso; rw [heq] at hp2; simp only at hp2; omega
          · exact hm
        · rw [h1] at hp1; exact (List.mem_filter.mp hp1).1
      have : p = (i, key) := eq_of_nodup_map hsnd hp' hmem hp2
      exact List.mem_map.mpr ⟨p, hp1, by rw [this]⟩
    · exact absurd hx hnotSent
  · intro hi
    left
    obtain ⟨p, hp1, hp2⟩ := List.mem_map.mp hi
    have hp' : p ∈ st.nodes ∨ p = (p.1, st.a.next) ∧ p.1 ∉ st.nodes.map (·.1) := by
      rcases hsh with h1 | ⟨id, h1⟩ | ⟨id, h1⟩
      · rw [h1] at hp1; exact Or.inl hp1
      · rw [h1] at hp1
        rcases List.mem_cons.mp hp1 with heq | hm
        · right
          refine ⟨by rw [heq], ?_⟩
          have := hN'.idsNodup
          rw [h1] at this
          simp only [List.map_cons, List.nodup_cons] at this
          rw [heq]; exact this.1
        · exact Or.inl hm
      · rw [h1] at hp1; exact Or.inl (List.mem_filter.mp hp1).1
    rcases hp' with hp' | ⟨_, hnot⟩
    · have : p = (i, key) := eq_of_nodup_map hN.idsNodup hp' hmem hp2
      exact List.mem_map.mpr ⟨p, hp1, by rw [this]⟩
    · exfalso
      apply hnot
      rw [hp2]
      exact List.mem_map.mpr ⟨(i, key), hmem, rfl⟩

/-- running a script from a reachable state stays reachable, and the queue component is the
    calendar-queue model's run -/
theorem reach_run {orc P n t nsize nlog} (ho : OracleOk orc P) (hp : PageOk P) (hn : 1 ≤ n)
    (ht : 1 ≤ t) (hf : Fits P nsize nlog) :
    ∀ (ops : List CQRun.Op) {st ss}, Reach orc P n t nsize nlog st ss →
      ∃ st', Reach orc P n t nsize nlog st' (runWith sstep ss ops).1 ∧
        st'.q = (runWith mstep st.q ops).1 := by
  intro ops
  induction ops with
  | nil => intro st ss h; exact ⟨st, h, rfl⟩
  | cons op ops ih =>
    intro st ss h
    obtain ⟨o, ho1, _, _⟩ := step_ninv ho hp (reach_ninv ho hp hn ht hf h) op
    obtain ⟨hq, _⟩ := step_queue orc st op o ho1
    obtain ⟨st', hr', hq'⟩ := ih (Reach.step op h)
    refine ⟨st', ?_, ?_⟩
    · simpa [runWith] using hr'
    · rw [hq', hq]; simp [runWith]

end CQMem

/-
Several live `Prop<T>` handles on one property: the slot machine with a handle table, the
type-preservation step lemma, and soundness of the abstract rule `CfgSpec.typedAccept` for the model.
-/
import Desverif.Proofs.CfgTyped
namespace Cfg
open CfgSpec (PState Acc typedAccept isErr)

/-- script operations on ONE property -/
inductive MOp where
  | openH (n : Nat) (t : Ty)      -- `let hₙ = prop::<T>(key)` (on success)
  | via (n : Nat) (op : HOp)      -- an operation through the live handle `hₙ`
  | rawClear                      -- `prop_raw(key).clear()`
  deriving DecidableEq, Repr

/-- the slot and the live handles (by script name) -/
structure MState where
  slot : Slot
  live : List (Nat × Handle)

/-- Rust's typing: `Prop::<T>::set` takes a `T` -/
def HOp.okFor (h : Handle) : HOp → Bool
  | .set v => v.ty = h.ty
  | _ => true

def MState.handle (st : MState) (n : Nat) : Option Handle := (st.live.find? (·.1 = n)).map (·.2)

/-- one script step; the answer is `none` when no call can happen (the handle is not alive, or the
    written value does not have the handle's type — excluded by Rust's typing) -/
def mstep (cv : Ty → Val → Option TV) (st : MState) : MOp → MState × Option TAns
  | .openH n t =>
    match typedSlot cv t st.slot with
    | .error a => (st, some a)
    | .ok s1 => ({ slot := s1, live := (n, { ty := t, present := false }) :: st.live.filter (·.1 ≠ n) }, some .ok)
  | .via n op =>
    match st.handle n with
    | none => (st, none)
    | some h =>
      if !op.okFor h then (st, none)
      else
        let r := handleOp h op st.slot
        ({ slot := r.1,
           live := match r.2.2 with
             | some h' => (n, h') :: st.live.filter (·.1 ≠ n)
             | none => st.live.filter (·.1 ≠ n) }, some r.2.1)
  | .rawClear => ({ st with slot := .none }, some .ok)

/-- the type parameter an access carries (of the call, or of the handle it goes through) -/
def accessTy (st : MState) : MOp → Option Ty
  | .openH _ t => some t
  | .via n op =>
    match st.handle n, op with
    | some h, .get => some h.ty
    | some h, .orDefault => some h.ty
    | some h, .set v => if v.ty = h.ty then some h.ty else none
    | _, _ => none
  | .rawClear => none

def clears (st : MState) : MOp → Prop
  | .via n .clear => (st.handle n).isSome
  | .rawClear => True
  | _ => False

/-- the executed steps of a script: (state before, operation, answer, state after) -/
def mtrace (cv : Ty → Val → Option TV) : MState → List MOp → List (MState × MOp × Option TAns × MState)
  | _, [] => []
  | st, op :: r => (st, op, (mstep cv st op).2, (mstep cv st op).1) :: mtrace cv (mstep cv st op).1 r

theorem handleGet_some (h : Handle) (tv : TV) :
    handleGet h (.some tv) = if tv.ty = h.ty then .val tv else .panic := rfl

/-- one operation through any handle — fresh or stale — on a slot holding a value of type `t` -/
theorem handleOp_keeps_type (h : Handle) (op : HOp) (tv : TV)
    (hw : ∀ v, op = .set v → v.ty = h.ty) :
    let r := handleOp h op (.some tv)
    (r.1.held = some tv.ty ∨ (op = .clear ∧ r.1.held = none)) ∧
    (h.ty ≠ tv.ty → op ≠ .clear → op ≠ .drop → r.2.1 = .panic ∧ r.1 = .some tv) ∧
    (∀ x, r.2.1 = .val x → x.ty = tv.ty) := by
  by_cases hty : tv.ty = h.ty
  · cases op with
    | get => simp [handleOp, handleGet, hty, Slot.held]
    | orDefault =>
      cases hp : h.present <;> simp [handleOp, handleGet, hty, hp, Slot.held]
    | set v =>
      have := hw v rfl
      simp [handleOp, hty, Slot.held, this]
    | clear => simp [handleOp, Slot.held]
    | drop => simp [handleOp, Slot.held]
  · have hne : h.ty ≠ tv.ty := fun e => hty e.symm
    cases op with
    | get => simp [handleOp, handleGet, hty, Slot.held]
    | orDefault =>
      cases hp : h.present <;> simp [handleOp, handleGet, hty, hp, Slot.held]
    | set v => simp [handleOp, hty, Slot.held]
    | clear => simp [handleOp, Slot.held]
    | drop => simp [handleOp, Slot.held]

/-- **one script step** in any state (any set of live handles, however old) -/
theorem mstep_keeps_type (cv : Ty → Val → Option TV) (st : MState) (op : MOp) (t : Ty)
    (ht : st.slot.held = some t) :
    ((mstep cv st op).1.slot.held = some t ∨ (clears st op ∧ (mstep cv st op).1.slot.held = none)) ∧
    (∀ T, accessTy st op = some T → T ≠ t →
      (∃ x, (mstep cv st op).2 = some x ∧ isErr x = true) ∧ (mstep cv st op).1.slot = st.slot) ∧
    (∀ x, (mstep cv st op).2 = some (.val x) → x.ty = t) := by
  obtain ⟨slot, live⟩ := st
  cases slot with
  | none => simp [Slot.held] at ht
  | yaml v => simp [Slot.held] at ht
  | some tv =>
    simp only [Slot.held, Option.some.injEq] at ht
    subst ht
    cases op with
    | openH n T =>
      by_cases hT : tv.ty = T
      · simp [mstep, typedSlot, hT, Slot.held, accessTy]
      · simp [mstep, typedSlot, hT, Slot.held, accessTy, isErr]
    | rawClear => simp [mstep, Slot.held, clears, accessTy]
    | via n hop =>
      cases hh : MState.handle ⟨.some tv, live⟩ n with
      | none => simp [mstep, hh, Slot.held, accessTy]
      | some h =>
        by_cases hill : hop.okFor h = true
        · have hw : ∀ v, hop = .set v → v.ty = h.ty := by
            intro v hv; subst hv; simpa [HOp.okFor] using hill
          obtain ⟨k1, k2, k3⟩ := handleOp_keeps_type h hop tv hw
          simp only [mstep, hh, hill, Bool.not_true, Bool.false_eq_true, if_false]
          refine ⟨?_, ?_, ?_⟩
          · rcases k1 with k1 | ⟨k1, k1'⟩
            · exact Or.inl k1
            · subst k1; exact Or.inr ⟨by simp [clears, hh], k1'⟩
          · intro T hT hne
            have hTy : T = h.ty ∧ hop ≠ .clear ∧ hop ≠ .drop := by
              cases hop with
              | get => simp [accessTy, hh] at hT; simp [hT]
              | orDefault => simp [accessTy, hh] at hT; simp [hT]
              | set v => simp [accessTy, hh] at hT; simp [hT.2]
              | clear => simp [accessTy, hh] at hT
              | drop => simp [accessTy, hh] at hT
            obtain ⟨e1, e2⟩ := k2 (hTy.1 ▸ hne) hTy.2.1 hTy.2.2
            exact ⟨⟨_, rfl, by rw [e1]; rfl⟩, e2⟩
          · intro x hx
            exact k3 x (Option.some.inj hx)
        · have hill' : hop.okFor h = false := by simpa using hill
          simp only [mstep, hh, hill', Bool.not_false, if_true, Slot.held, true_or, true_and]
          refine ⟨?_, by simp⟩
          intro T hT
          cases hop with
          | set v =>
            have : ¬ v.ty = h.ty := by simpa [HOp.okFor] using hill'
            simp [accessTy, hh, this] at hT
          | get => simp [HOp.okFor] at hill'
          | orDefault => simp [HOp.okFor] at hill'
          | clear => simp [HOp.okFor] at hill'
          | drop => simp [HOp.okFor] at hill'

/-- every executed step of every script -/
theorem mtrace_keeps_type (cv : Ty → Val → Option TV) (ops : List MOp) :
    ∀ (st : MState), ∀ e ∈ mtrace cv st ops, ∀ t, e.1.slot.held = some t →
      (e.2.2.2.slot.held = some t ∨ (clears e.1 e.2.1 ∧ e.2.2.2.slot.held = none)) ∧
      (∀ T, accessTy e.1 e.2.1 = some T → T ≠ t →
        (∃ x, e.2.2.1 = some x ∧ isErr x = true) ∧ e.2.2.2.slot = e.1.slot) ∧
      (∀ x, e.2.2.1 = some (.val x) → x.ty = t) := by
  induction ops with
  | nil => intro st e he; simp [mtrace] at he
  | cons op r ih =>
    intro st e he t ht
    simp only [mtrace, List.mem_cons] at he
    rcases he with he | he
    · subst he
      exact mstep_keeps_type cv st op t ht
    · exact ih _ e he t ht

/-! ### the abstract rule accepts the model -/

/-- abstraction of a slot -/
def Slot.abs : Slot → PState
  | .none => .untyped
  | .yaml _ => .configured
  | .some tv => .holds tv.ty

/-- abstract view of an operation through handle `h` -/
def HOp.acc (h : Handle) : HOp → Acc
  | .get => .get h.ty
  | .orDefault => .orDefault h.ty
  | .set _ => .set h.ty
  | .clear => .clear
  | .drop => .drop

theorem typedAccept_handleOp (h : Handle) (op : HOp) (s : Slot) (hw : op.okFor h = true) :
    typedAccept s.abs (op.acc h) (handleOp h op s).2.1 = (true, (handleOp h op s).1.abs) := by
  cases s with
  | none =>
    cases op with
    | get => cases hp : h.present <;> simp [handleOp, handleGet, hp, Slot.abs, HOp.acc, typedAccept]
    | orDefault =>
      cases hp : h.present <;>
        simp [handleOp, handleGet, hp, Slot.abs, HOp.acc, typedAccept, Ty.default_ty]
    | set v =>
      have : v.ty = h.ty := by simpa [HOp.okFor] using hw
      simp [handleOp, Slot.abs, HOp.acc, typedAccept, this]
    | clear => simp [handleOp, Slot.abs, HOp.acc, typedAccept]
    | drop => simp [handleOp, Slot.abs, HOp.acc, typedAccept]
  | yaml y =>
    cases op with
    | get => cases hp : h.present <;> simp [handleOp, handleGet, hp, Slot.abs, HOp.acc, typedAccept]
    | orDefault =>
      cases hp : h.present <;> simp [handleOp, handleGet, hp, Slot.abs, HOp.acc, typedAccept]
    | set v =>
      have : v.ty = h.ty := by simpa [HOp.okFor] using hw
      simp [handleOp, Slot.abs, HOp.acc, typedAccept, this]
    | clear => simp [handleOp, Slot.abs, HOp.acc, typedAccept]
    | drop => simp [handleOp, Slot.abs, HOp.acc, typedAccept]
  | some tv =>
    by_cases hty : tv.ty = h.ty
    · cases op with
      | get => simp [handleOp, handleGet, hty, Slot.abs, HOp.acc, typedAccept]
      | orDefault =>
        cases hp : h.present <;>
          simp [handleOp, handleGet, hp, hty, Slot.abs, HOp.acc, typedAccept]
      | set v =>
        have : v.ty = h.ty := by simpa [HOp.okFor] using hw
        simp [handleOp, hty, Slot.abs, HOp.acc, typedAccept, this]
      | clear => simp [handleOp, Slot.abs, HOp.acc, typedAccept]
      | drop => simp [handleOp, Slot.abs, HOp.acc, typedAccept]
    · have hty' : ¬ h.ty = tv.ty := fun e => hty e.symm
      cases op with
      | get => simp [handleOp, handleGet, hty, hty', Slot.abs, HOp.acc, typedAccept]
      | orDefault =>
        cases hp : h.present <;>
          simp [handleOp, handleGet, hp, hty, hty', Slot.abs, HOp.acc, typedAccept]
      | set v => simp [handleOp, hty, hty', Slot.abs, HOp.acc, typedAccept]
      | clear => simp [handleOp, Slot.abs, HOp.acc, typedAccept]
      | drop => simp [handleOp, Slot.abs, HOp.acc, typedAccept]

theorem typedAccept_open (cv : Ty → Val → Option TV) (hcv : ∀ t v tv, cv t v = some tv → tv.ty = t)
    (t : Ty) (s : Slot) :
    match typedSlot cv t s with
    | .ok s1 => typedAccept s.abs (.openT t) .ok = (true, s1.abs)
    | .error a => typedAccept s.abs (.openT t) a = (true, s.abs) := by
  cases s with
  | none => simp [typedSlot, Slot.abs, typedAccept]
  | yaml y =>
    cases hc : cv t y with
    | none => simp [typedSlot, hc, Slot.abs, typedAccept]
    | some tv => simp [typedSlot, hc, Slot.abs, typedAccept, hcv t y tv hc]
  | some tv =>
    by_cases hty : tv.ty = t
    · simp [typedSlot, hty, Slot.abs, typedAccept]
    · have : ¬ t = tv.ty := fun e => hty e.symm
      simp [typedSlot, hty, this, Slot.abs, typedAccept]

end Cfg

/-
Every event trace the allocator model produces (under the canonical page oracle, rebased to
page-relative events) is accepted by the shadow-map checker `AllocSafe.accept`.
-/
import Desverif.Proofs.AllocKeys
import Desverif.Spec.AllocSafe
namespace AllocSafe
open Alloc

theorem pageOk_pos {P : Nat} (hp : PageOk P) : 0 < P := by have := hp.ge16; omega

theorem orcOf_ok {P : Nat} (hp : PageOk P) : OracleOk (orcOf P) P := by
  have hpos := pageOk_pos hp
  constructor
  · intro k; simp [orcOf]
  · intro i j hij
    simp only [orcOf]
    rcases Nat.lt_or_gt_of_ne hij with h | h
    · left
      have : (i + 1 + 1) * P ≤ (j + 1) * P := Nat.mul_le_mul_right P (by omega)
      rw [Nat.add_mul (i + 1) 1 P, Nat.one_mul] at this
      exact this
    · right
      have : (j + 1 + 1) * P ≤ (i + 1) * P := Nat.mul_le_mul_right P (by omega)
      rw [Nat.add_mul (j + 1) 1 P, Nat.one_mul] at this
      exact this

theorem footprint_eq (lsize lalign : Nat) : footprint lsize lalign = (sizeAlign lsize lalign).1 := by
  unfold footprint sizeAlign alignUp NODE_SIZE NODE_ALIGN
  simp only
  have h := Nat.div_add_mod (lsize + max lalign 8 - 1) (max lalign 8)
  have : (lsize + max lalign 8 - 1) / max lalign 8 * max lalign 8 =
      lsize + max lalign 8 - 1 - (lsize + max lalign 8 - 1) % max lalign 8 := by
    rw [Nat.mul_comm]; omega
  rw [this]

/-- the shadow block of a live block -/
def blkOf (P : Nat) (e : Live) : Blk := ⟨e.addr / P - 1, e.addr % P, e.lsize, e.lalign⟩

theorem blkOf_fp (P : Nat) (e : Live) : (blkOf P e).fp = e.blk.size := by
  simp [blkOf, Blk.fp, footprint_eq, Live.blk]

/-- position of an address inside page `i` of the canonical oracle -/
theorem rel {P i addr size : Nat} (hpos : 0 < P) (h1 : (i + 1) * P ≤ addr)
    (h2 : addr + size ≤ (i + 1) * P + P) (hs : 0 < size) :
    addr / P - 1 = i ∧ addr % P = addr - (i + 1) * P := by
  have hlt : addr < (i + 1 + 1) * P := by rw [Nat.add_mul (i + 1) 1 P, Nat.one_mul]; omega
  have hd : addr / P = i + 1 := Nat.div_eq_of_lt_le h1 hlt
  refine ⟨by omega, ?_⟩
  have e : addr = (addr - (i + 1) * P) + (i + 1) * P := by omega
  have hlt2 : addr - (i + 1) * P < P := by omega
  calc addr % P = ((addr - (i + 1) * P) + (i + 1) * P) % P := by rw [← e]
    _ = (addr - (i + 1) * P) % P := Nat.add_mul_mod_self_right _ _ _
    _ = addr - (i + 1) * P := Nat.mod_eq_of_lt hlt2

theorem rel_region {P n : Nat} {r : Region} (hpos : 0 < P) (hg : Good (orcOf P) P n r) :
    ∃ i, i < n ∧ r.addr / P - 1 = i ∧ r.addr = (i + 1) * P + r.addr % P ∧ r.addr % P + r.size ≤ P := by
  obtain ⟨h16, _, i, hi, h1, h2⟩ := hg
  simp only [orcOf, Region.stop] at h1 h2
  obtain ⟨ha, hb⟩ := rel hpos h1 h2 (by omega)
  exact ⟨i, hi, ha, by omega, by omega⟩

structure Sim (P : Nat) (rs : RState) (sh : Shadow) : Prop where
  ps : sh.pageSize = P
  pages : sh.pages = rs.st.pages.length
  live : sh.live = rs.live.map (blkOf P)

theorem acceptAll_append (s : Shadow) (a b : List Ev) :
    acceptAll s (a ++ b) =
      match acceptAll s a with
      | .ok s' => acceptAll s' b
      | .error c => .error c := by
  induction a generalizing s with
  | nil => simp [acceptAll]
  | cons e es ih =>
    simp only [List.cons_append, acceptAll]
    cases accept s e with
    | error c => rfl
    | ok s' => exact ih s'

/-- fresh pages of the canonical oracle are accepted one after the other -/
theorem accept_pages {P : Nat} (hpos : 0 < P) :
    ∀ (d n : Nat) (sh : Shadow), sh.pages = n → sh.pageSize = P →
      acceptAll sh ((((List.range (n + d)).map (orcOf P)).drop n).map
        (fun b => ofMEv P (.page b P))) = .ok { sh with pages := n + d } := by
  intro d
  induction d with
  | zero =>
    intro n sh hn _
    have : ((List.range (n + 0)).map (orcOf P)).drop n = [] := by
      apply List.drop_eq_nil_of_le; simp
    rw [this]
    simp only [List.map_nil, acceptAll, Nat.add_zero]
    cases sh; simp_all
  | succ d ih =>
    intro n sh hn hps
    have e1 : List.range (n + (d + 1)) = List.range (n + d) ++ [n + d] := by
      rw [← Nat.add_assoc, List.range_succ]
    rw [e1, List.map_append, List.drop_append_of_le_length (by simp), List.map_append,
      acceptAll_append, ih n sh hn hps]
    simp only [List.map_cons, List.map_nil, acceptAll, ofMEv, orcOf]
    have h1 : (n + d + 1) * P / P - 1 = n + d := by rw [Nat.mul_div_cancel _ hpos]; omega
    have h2 : (n + d + 1) * P % P = 0 := Nat.mul_mod_left _ _
    simp [accept, h1, h2, hps]
    rfl

theorem pairwise_mem {α : Type} {R : α → α → Prop} {l : List α} (hp : l.Pairwise R)
    (hs : ∀ a b, R a b → R b a) {x y : α} (hx : x ∈ l) (hy : y ∈ l) (hne : x ≠ y) : R x y := by
  induction l with
  | nil => cases hx
  | cons a l ih =>
    rw [List.pairwise_cons] at hp
    rcases List.mem_cons.mp hx with hxa | hxl <;> rcases List.mem_cons.mp hy with hya | hyl
    · exact absurd (hxa.trans hya.symm) hne
    · rw [hxa]; exact hp.1 y hyl
    · rw [hya]; exact hs _ _ (hp.1 x hxl)
    · exact ih hp.2 hxl hyl

theorem map_erase_of_inj {α β : Type} [DecidableEq α] [DecidableEq β] (f : α → β) :
    ∀ (l : List α) (e : α), e ∈ l → (∀ x ∈ l, f x = f e → x = e) →
      (l.erase e).map f = (l.map f).erase (f e) := by
  intro l
  induction l with
  | nil => intro e he; cases he
  | cons a l ih =>
    intro e he hinj
    by_cases hae : a = e
    · subst hae; simp
    · have hfa : f a ≠ f e := fun hf => hae (hinj a (by simp) hf)
      have hel : e ∈ l := by
        rcases List.mem_cons.mp he with h | h
        · exact absurd h.symm hae
        · exact h
      rw [List.erase_cons_tail (by simpa using hae), List.map_cons, List.map_cons,
        List.erase_cons_tail (by simpa using hfa), ih e hel (fun x hx => hinj x (by simp [hx]))]

/-- live blocks of a consistent state have different shadow blocks -/
theorem blkOf_inj {P : Nat} {rs : RState} (hpos : 0 < P) (h : RInv (orcOf P) P rs) {x e : Live}
    (hx : x ∈ rs.live) (he : e ∈ rs.live) (hb : blkOf P x = blkOf P e) : x = e := by
  apply Classical.byContradiction
  intro hne
  have hpw : rs.live.Pairwise (fun a b => Disj a.blk b.blk) :=
    List.pairwise_map.mp (List.pairwise_append.mp h.inv.disj).2.1
  have hd := pairwise_mem hpw (fun a b hab => hab.symm) hx he hne
  obtain ⟨i, _, hi, hxa, _⟩ := rel_region hpos (h.inv.live x hx)
  obtain ⟨j, _, hj, hea, _⟩ := rel_region hpos (h.inv.live e he)
  have h16x := (h.inv.live x hx).1
  have h16e := (h.inv.live e he).1
  simp only [blkOf, Blk.mk.injEq] at hb
  obtain ⟨hb1, hb2, _, _⟩ := hb
  have hij : i = j := by simp only [Live.blk] at hi hj; omega
  subst hij
  simp only [Live.blk] at hxa hea hd h16x h16e hb2
  unfold Disj Region.stop at hd
  simp only at hd
  generalize (i + 1) * P = B at hxa hea
  omega

theorem accept_alloc_ok (s : Shadow) (k off lsize lalign : Nat) (h1 : k < s.pages)
    (h2 : off + footprint lsize lalign ≤ s.pageSize) (h3 : lalign ≠ 0)
    (h4 : lalign ≤ s.pageSize → off % lalign = 0)
    (h5 : ∀ b ∈ s.live, overlaps b k off (footprint lsize lalign) = false) :
    ∃ s', accept s (.alloc (some (k, off)) lsize lalign true) = .ok s' ∧
      s'.pageSize = s.pageSize ∧ s'.pages = s.pages ∧ s'.live = ⟨k, off, lsize, lalign⟩ :: s.live := by
  have c1 : ¬ ((decide (k ≥ s.pages) || decide (off + footprint lsize lalign > s.pageSize)) = true) := by
    simp; omega
  have c2 : ¬ ((!true || decide (lalign = 0) || (decide (lalign ≤ s.pageSize) && decide (off % lalign ≠ 0))) = true) := by
    simp [h3]; exact h4
  have c3 : ¬ (s.live.any (overlaps · k off (footprint lsize lalign)) = true) := by
    rw [Bool.not_eq_true, List.any_eq_false]
    intro b hb; rw [h5 b hb]; simp
  simp only [accept]
  rw [if_neg c1, if_neg c2, if_neg c3]
  exact ⟨_, rfl, rfl, rfl, rfl⟩

theorem accept_free_ok (s : Shadow) (b : Blk) (hb : b ∈ s.live) :
    ∃ s', accept s (.free (some (b.page, b.off)) b.lsize b.lalign) = .ok s' ∧
      s'.pageSize = s.pageSize ∧ s'.pages = s.pages ∧ s'.live = s.live.erase b := by
  have c : s.live.contains b = true := List.contains_iff_mem.mpr hb
  simp only [accept]
  rw [if_pos c]
  exact ⟨_, rfl, rfl, rfl, rfl⟩

theorem accept_newPages {P : Nat} {rs : RState} {sh : Shadow} {s' : State} (hpos : 0 < P)
    (hs : Sim P rs sh) (hpages : s'.pages = (List.range s'.pages.length).map (orcOf P))
    (hps : s'.pageSize = P) (hle : rs.st.pages.length ≤ s'.pages.length) :
    acceptAll sh ((newPages rs.st s').map (ofMEv P)) = .ok { sh with pages := s'.pages.length } := by
  obtain ⟨d, hd⟩ : ∃ d, s'.pages.length = rs.st.pages.length + d := ⟨_, (Nat.add_sub_cancel' hle).symm⟩
  have e : s'.pages.drop rs.st.pages.length =
      ((List.range (rs.st.pages.length + d)).map (orcOf P)).drop rs.st.pages.length := by
    rw [← hd]; exact congrArg _ hpages
  unfold newPages
  rw [List.map_map, e, hps, hd]
  exact accept_pages hpos d _ sh hs.pages hs.ps

theorem step_accepted {P : Nat} {rs : RState} {sh : Shadow} (hp : PageOk P)
    (h : RInv (orcOf P) P rs) (hs : Sim P rs sh) (op : Op) :
    ∃ sh', acceptAll sh ((stepEv (orcOf P) rs op).2.2.map (ofMEv P)) = .ok sh' ∧
      Sim P (step (orcOf P) rs op).1 sh' := by
  have hpos := pageOk_pos hp
  have ho := orcOf_ok hp
  cases op with
  | alloc lsize k =>
    rcases step_alloc_cases (orcOf P) rs lsize k with ⟨e, h1, h2⟩ | ⟨s', h1, h2⟩ | ⟨s', a, h1, h2⟩
    · have hev : (stepEv (orcOf P) rs (.alloc lsize k)).2.2 = [] := by
        cases e <;> simp [stepEv, h2, errOut, newPages]
      rw [hev, h2]
      exact ⟨sh, rfl, hs⟩
    · obtain ⟨rfl, hbig⟩ := allocate_none h1
      have hev : (stepEv (orcOf P) rs (.alloc lsize k)).2.2 = [.fail lsize (2 ^ k)] := by
        simp [stepEv, h2, newPages]
      rw [hev, h2]
      refine ⟨sh, ?_, hs⟩
      simp only [List.map_cons, List.map_nil, acceptAll, ofMEv, accept, footprint_eq]
      rw [hs.ps, ← h.inv.ps]
      rw [if_neg (by omega)]
    · have hf := allocate_some ho hp h.inv h1 rs.next
      have hev : (stepEv (orcOf P) rs (.alloc lsize k)).2.2 =
          newPages rs.st s' ++ [.alloc a lsize (2 ^ k)] := by
        simp [stepEv, h2]
      rw [hev, h2, List.map_append, acceptAll_append,
        accept_newPages hpos hs hf.inv.pages hf.inv.ps hf.pagesGrow]
      simp only [List.map_cons, List.map_nil, acceptAll, ofMEv]
      -- where the block lies
      have hg := hf.inv.live ⟨rs.next, a, lsize, 2 ^ k⟩ List.mem_cons_self
      obtain ⟨i, hi, hpage, haddr, hfit⟩ := rel_region hpos hg
      simp only [Live.blk] at hpage haddr hfit
      have hal := hf.aligned
      simp only at hal
      have hak : a % 2 ^ k = 0 := by
        apply mod_of_dvd_mod _ hal
        simp only [sizeAlign]
        rw [max_pow_eq]
        exact Nat.pow_dvd_pow 2 (Nat.le_max_left k 3)
      have hkpos : 0 < 2 ^ k := Nat.two_pow_pos k
      have hloc : locOf P a = some (i, a % P) := by
        have : ¬ a < P := by
          have : P ≤ (i + 1) * P := Nat.le_mul_of_pos_left P (by omega)
          omega
        simp [locOf, this, hpage]; omega
      have hflag : ((2 ^ k != 0) && (a % 2 ^ k == 0)) = true := by simp [hak]
      rw [hloc, hflag]
      obtain ⟨sh', hacc, hps', hpg', hlv'⟩ := accept_alloc_ok { sh with pages := s'.pages.length } i (a % P)
        lsize (2 ^ k) hi (by rw [footprint_eq]; simp only; rw [hs.ps]; exact hfit) (by omega)
        (by
          intro hle
          simp only at hle
          rw [hs.ps] at hle
          have hdP : 2 ^ k ∣ P := by
            obtain ⟨p, _, rfl⟩ := hp
            exact pow_dvd_of_le hle
          have hdB : 2 ^ k ∣ (i + 1) * P := Nat.dvd_trans hdP (Nat.dvd_mul_left P (i + 1))
          have hda : 2 ^ k ∣ a := Nat.dvd_of_mod_eq_zero hak
          have : a % P = a - (i + 1) * P := by omega
          rw [this]
          exact Nat.mod_eq_zero_of_dvd (Nat.dvd_sub hda hdB))
        (by
          intro b hb
          simp only at hb
          rw [hs.live] at hb
          obtain ⟨e', he', rfl⟩ := List.mem_map.mp hb
          have hd : Disj ⟨a, (sizeAlign lsize (2 ^ k)).1⟩ e'.blk := by
            have := (List.pairwise_append.mp hf.inv.disj).2.1
            simp only [List.map_cons] at this
            exact (List.pairwise_cons.mp this).1 e'.blk (List.mem_map_of_mem he')
          obtain ⟨j, _, hj, hea, _⟩ := rel_region hpos (h.inv.live e' he')
          have hoff : (blkOf P e').off = e'.addr % P := rfl
          have hpg : (blkOf P e').page = e'.addr / P - 1 := rfl
          have hfp := blkOf_fp P e'
          unfold overlaps
          rw [hfp, footprint_eq]
          by_cases hij : e'.addr / P - 1 = i
          · simp only [Live.blk] at hj hea
            have : j = i := by omega
            subst this
            unfold Disj Region.stop at hd
            simp only [Live.blk] at hd
            have hor : (a % P + (sizeAlign lsize (2 ^ k)).1 ≤ (blkOf P e').off) ∨
                ((blkOf P e').off + e'.blk.size ≤ a % P) := by
              rw [hoff]
              simp only [Live.blk]
              generalize (j + 1) * P = B at haddr hea
              omega
            rcases hor with hor | hor <;> simp [hor]
          · have : ((blkOf P e').page == i) = false := by rw [hpg]; simp [hij]
            simp [this])
      rw [hacc]
      refine ⟨sh', rfl, ⟨hps'.trans hs.ps, hpg', ?_⟩⟩
      rw [hlv']
      simp only [List.map_cons, blkOf, hs.live, hpage]
  | free k =>
    simp only [step]
    cases hfind : rs.live.find? (·.key = k) with
    | none =>
      have hev : (stepEv (orcOf P) rs (.free k)).2.2 = [] := by
        simp [stepEv, step, hfind, newPages]
      rw [hev]
      exact ⟨sh, rfl, hs⟩
    | some e =>
      have he := List.mem_of_find?_eq_some hfind
      obtain ⟨s', hs', hinv', _, _, hpg⟩ := deallocate_live h.inv he
      have hev : (stepEv (orcOf P) rs (.free k)).2.2 = [.free e.addr e.lsize e.lalign] := by
        simp [stepEv, step, hfind, hs']
      rw [hev]
      simp only [hs', List.map_cons, List.map_nil, acceptAll, ofMEv]
      obtain ⟨i, _, hpage, haddr, _⟩ := rel_region hpos (h.inv.live e he)
      simp only [Live.blk] at hpage haddr
      have hloc : locOf P e.addr = some ((blkOf P e).page, (blkOf P e).off) := by
        have : ¬ e.addr < P := by
          have : P ≤ (i + 1) * P := Nat.le_mul_of_pos_left P (by omega)
          omega
        simp [locOf, this, blkOf]; omega
      rw [hloc]
      obtain ⟨sh', hacc, hps', hpg', hlv'⟩ := accept_free_ok sh (blkOf P e)
        (by rw [hs.live]; exact List.mem_map_of_mem he)
      have : accept sh (.free (some ((blkOf P e).page, (blkOf P e).off)) e.lsize e.lalign) = .ok sh' := hacc
      rw [this]
      refine ⟨sh', rfl, ⟨hps'.trans hs.ps, ?_, ?_⟩⟩
      · simp only; rw [hpg', hs.pages, hpg]
      · simp only
        rw [hlv', hs.live]
        exact (map_erase_of_inj (blkOf P) rs.live e he
          (fun x hx hb => blkOf_inj hpos h hx he hb)).symm

theorem traceFrom_accepted {P : Nat} (hp : PageOk P) :
    ∀ (ops : List Op) (rs : RState) (sh : Shadow), RInv (orcOf P) P rs → Sim P rs sh →
      ∃ sh', acceptAll sh ((traceFrom (orcOf P) rs ops).map (ofMEv P)) = .ok sh' ∧
        Sim P (runFrom (orcOf P) rs ops).1 sh' := by
  intro ops
  induction ops with
  | nil => intro rs sh _ hs; exact ⟨sh, rfl, hs⟩
  | cons op ops ih =>
    intro rs sh h hs
    obtain ⟨sh1, h1, hs1⟩ := step_accepted hp h hs op
    have hst := (stepEv_step (orcOf P) rs op).1
    obtain ⟨sh2, h2, hs2⟩ := ih _ sh1 (step_inv (orcOf_ok hp) hp h op) hs1
    refine ⟨sh2, ?_, ?_⟩
    · simp only [traceFrom, List.map_append, acceptAll_append, h1, hst]
      exact h2
    · simp only [runFrom]; exact hs2

/-- **The model's whole event trace is accepted by the shadow-map checker**, and the checker ends
    with exactly the model's live blocks and page count. -/
theorem trace_accepted {P : Nat} (hp : PageOk P) (ops : List Op) :
    ∃ t rs outs sh, trace (orcOf P) P ops = some t ∧ run (orcOf P) P ops = some (rs, outs) ∧
      acceptAll { pageSize := P } (t.map (ofMEv P)) = .ok sh ∧ Sim P rs sh := by
  have ho := orcOf_ok hp
  have hpos := pageOk_pos hp
  obtain ⟨rs0, h0, hr0, _, hlive0⟩ := start_inv ho hp
  have hs00 : Sim P ⟨{ rs0.st with pages := [] }, [], 0⟩ { pageSize := P } := ⟨rfl, rfl, rfl⟩
  have hacc0 := accept_newPages (s' := rs0.st) hpos hs00 hr0.inv.pages hr0.inv.ps (Nat.zero_le _)
  have hs0 : Sim P rs0 { ({ pageSize := P } : Shadow) with pages := rs0.st.pages.length } :=
    ⟨rfl, rfl, by rw [hlive0]; rfl⟩
  obtain ⟨sh', h1, hs'⟩ := traceFrom_accepted hp ops rs0 _ hr0 hs0
  refine ⟨_, _, _, sh', by simp [trace, h0]; rfl, by simp [run, h0]; rfl, ?_, hs'⟩
  rw [List.map_append, acceptAll_append, hacc0]
  exact h1

end AllocSafe

/-
Assembly for flat configurations: `Cfg::new` followed by `capture_for_into`, the builder's include
order, and the typed slot.
-/
import Desverif.Proofs.CfgCapture
import Desverif.Proofs.CfgComp2
namespace Cfg
open CfgSpec (Matches WF Clash)

/-! ### flat configurations as loop states -/

def Flat.entries (c : Flat) : Entries := c.map fun e => (e.1, .scalar e.2)

theorem Flat.mem_entries {c : Flat} {k : Key} {v : Val} :
    (k, v) ∈ c.entries ↔ ∃ s, v = .scalar s ∧ (k, s) ∈ c := by
  simp only [Flat.entries, List.mem_map, Prod.mk.injEq]
  constructor
  · rintro ⟨e, he, h1, h2⟩; exact ⟨e.2, h2.symm, by rw [← h1]; exact he⟩
  · rintro ⟨s, h1, h2⟩; exact ⟨(k, s), h2, rfl, h1.symm⟩

theorem Flat.keysOf_entries (c : Flat) : keysOf c.entries = c.map (·.1) := by
  simp [keysOf, Flat.entries, List.map_map]

theorem Flat.flatOf_entries {c : Flat} {k : Key} {s : String} : FlatOf c.entries k s ↔ (k, s) ∈ c := by
  constructor
  · intro h
    cases h with
    | leaf hm =>
      obtain ⟨s', h1, h2⟩ := Flat.mem_entries.mp hm
      cases h1; exact h2
    | node hm _ =>
      obtain ⟨s', h1, _⟩ := Flat.mem_entries.mp hm
      cases h1
  · intro h; exact FlatOf.leaf (Flat.mem_entries.mpr ⟨s, rfl, h⟩)

theorem nodup_fst_unique {c : Flat} (nd : (c.map (·.1)).Nodup) {k : Key} {s1 s2 : String}
    (h1 : (k, s1) ∈ c) (h2 : (k, s2) ∈ c) : s1 = s2 := by
  induction c with
  | nil => simp at h1
  | cons e r ih =>
    simp only [List.map_cons, List.nodup_cons] at nd
    rcases List.mem_cons.mp h1 with a1 | a1
    · rcases List.mem_cons.mp h2 with a2 | a2
      · rw [← a1] at a2; exact (Prod.mk.inj a2).2.symm
      · subst a1; exact (nd.1 (List.mem_map.mpr ⟨(k, s2), a2, rfl⟩)).elim
    · rcases List.mem_cons.mp h2 with a2 | a2
      · subst a2; exact (nd.1 (List.mem_map.mpr ⟨(k, s1), a1, rfl⟩)).elim
      · exact ih nd.2 a1 a2

theorem Flat.semi {c : Flat} (h : WF c) : Semi c.entries := by
  refine ⟨by rw [Flat.keysOf_entries]; exact h.1, ?_⟩
  intro k v hm
  obtain ⟨s, hv, hc⟩ := Flat.mem_entries.mp hm
  subst hv
  exact bot_entry s (h.2 _ hc)

theorem Flat.good {c : Flat} (h : WF c) (hc : ¬ Clash c) : Good c.entries := by
  refine ⟨?_, ?_⟩
  · intro k s1 s2 h1 h2
    exact nodup_fst_unique h.1 (Flat.flatOf_entries.mp h1) (Flat.flatOf_entries.mp h2)
  · intro k1 s1 k2 s2 h1 h2 hp
    exact hc ⟨_, Flat.flatOf_entries.mp h1, _, Flat.flatOf_entries.mp h2, hp⟩

theorem le_foldl_max (l : List Nat) : ∀ init, init ≤ l.foldl max init ∧ ∀ x ∈ l, x ≤ l.foldl max init := by
  induction l with
  | nil => intro init; simp
  | cons a r ih =>
    intro init
    simp only [List.foldl_cons]
    obtain ⟨h1, h2⟩ := ih (max init a)
    refine ⟨by omega, ?_⟩
    intro x hx
    rcases List.mem_cons.mp hx with hx | hx
    · subst hx; omega
    · exact h2 x hx

theorem length_le_fuel {es : Entries} {k : Key} {v : Val} (h : (k, v) ∈ es) :
    k.length + 1 ≤ fuelOf es := by
  unfold fuelOf
  have := (le_foldl_max (es.map (·.1.length)) 0).2 k.length (List.mem_map.mpr ⟨_, h, rfl⟩)
  omega

/-- `Cfg::new` on a flat configuration outside class F11b: a normal form with the same entries -/
theorem compartmentalize_flat {c : Flat} (h : WF c) (hc : ¬ Clash c) :
    ∃ T, compartmentalize c.toVal = .ok (.map T) ∧ NF T ∧ ∀ k s, FlatOf T k s ↔ (k, s) ∈ c := by
  obtain ⟨f, hf⟩ : ∃ f, fuelOf c.entries = f + 1 := ⟨fuelOf c.entries - 1, by unfold fuelOf; omega⟩
  obtain ⟨T, h1, h2, h3⟩ := compMapF_spec f c.entries (Flat.semi h)
    (fun k v hm _ => by have := length_le_fuel hm; omega) (Flat.good h hc)
  refine ⟨T, ?_, h2, fun k s => (h3 k s).trans Flat.flatOf_entries⟩
  show compartmentalize (.map c.entries) = _
  simp only [compartmentalize, hf, h1]

/-- capture for one flat configuration on top of an existing store -/
theorem capture_flat {c : Flat} (h : WF c) (hc : ¬ Clash c) (p : List Seg) :
    ∃ T, compartmentalize c.toVal = .ok (.map T) ∧ ∀ ps, ∃ ps', updateFrom ps (.map T) p = .ok ps' ∧
      Ext (fun x => ∃ e ∈ c, x.2 = .yaml (.scalar e.2) ∧ Matches p e.1 x.1)
        (fun n => ∃ e ∈ c, Matches p e.1 n) ps ps' := by
  obtain ⟨T, h1, h2, h3⟩ := compartmentalize_flat h hc
  refine ⟨T, h1, fun ps => ?_⟩
  obtain ⟨ps', h4, h5⟩ := updateFrom_ext T p ps h2
  refine ⟨ps', h4, h5.weaken ?_ ?_⟩
  · rintro x ⟨k, s, hx, hf, hm⟩
    exact ⟨(k, s), (h3 k s).mp hf, hx, hm⟩
  · rintro n ⟨e, he, hm⟩
    exact ⟨e.1, e.2, (h3 _ _).mpr he, hm⟩

/-! ### include order -/

inductive SOp where
  | incl (c : Flat)
  | node (p : List Seg)

def Sim.stepOp (s : Sim) : SOp → Except Err Sim
  | .incl c => s.includeCfg c
  | .node p => .ok (s.node p).1

def Sim.run (s : Sim) (ops : List SOp) : Except Err Sim := foldE Sim.stepOp s ops

/-- every module holds what applying all included configurations, in include order, to an empty
    store gives -/
def Sim.Inv (s : Sim) : Prop :=
  ∀ p ps, (p, ps) ∈ s.mods → foldE (fun ps v => updateFrom ps v p) [] s.cfgs = .ok ps

theorem foldE_append {σ α : Type} (f : σ → α → Except Err σ) (s : σ) (l1 l2 : List α) :
    foldE f s (l1 ++ l2) = match foldE f s l1 with
      | .ok s' => foldE f s' l2
      | .error e => .error e := by
  induction l1 generalizing s with
  | nil => simp [foldE]
  | cons a r ih =>
    simp only [List.cons_append, foldE]
    cases f s a with
    | error e => rfl
    | ok s' => exact ih s'

theorem mapModsE_mem {f : List Seg → Props → Except Err Props} :
    ∀ {mods mods' : List (List Seg × Props)}, mapModsE f mods = .ok mods' →
      ∀ p ps', (p, ps') ∈ mods' → ∃ ps, (p, ps) ∈ mods ∧ f p ps = .ok ps' := by
  intro mods
  induction mods with
  | nil => intro mods' h p ps' hm; simp [mapModsE] at h; subst h; simp at hm
  | cons m r ih =>
    intro mods' h p ps' hm
    obtain ⟨q, qs⟩ := m
    simp only [mapModsE] at h
    cases hf : f q qs with
    | error e => rw [hf] at h; simp at h
    | ok qs' =>
      rw [hf] at h
      cases hr : mapModsE f r with
      | error e => rw [hr] at h; simp at h
      | ok r' =>
        rw [hr] at h
        simp only [Except.ok.injEq] at h
        subst h
        rcases List.mem_cons.mp hm with hm | hm
        · cases hm; exact ⟨qs, List.mem_cons_self .., hf⟩
        · obtain ⟨ps, h1, h2⟩ := ih hr p ps' hm
          exact ⟨ps, List.mem_cons_of_mem _ h1, h2⟩

theorem Sim.inv_step {s s' : Sim} (h : s.Inv) (op : SOp) (hs : s.stepOp op = .ok s') : s'.Inv := by
  cases op with
  | incl c =>
    simp only [Sim.stepOp, Sim.includeCfg] at hs
    cases hc : compartmentalize c.toVal with
    | error e => rw [hc] at hs; simp at hs
    | ok v =>
      rw [hc] at hs
      simp only [] at hs
      cases hm : mapModsE (fun p ps => updateFrom ps v p) s.mods with
      | error e => rw [hm] at hs; simp at hs
      | ok mods =>
        rw [hm] at hs
        simp only [Except.ok.injEq] at hs
        subst hs
        intro p ps' hp
        obtain ⟨ps, h1, h2⟩ := mapModsE_mem hm p ps' hp
        show foldE _ [] (s.cfgs ++ [v]) = _
        rw [foldE_append, h p ps h1]
        simp only [foldE, h2]
  | node p =>
    simp only [Sim.stepOp, Except.ok.injEq] at hs
    subst hs
    unfold Sim.node
    split
    · exact h
    · split
      · exact h
      · split
        · exact h
        · rename_i ps hf
          intro q qs hq
          simp only [List.mem_append, List.mem_singleton, Prod.mk.injEq] at hq
          rcases hq with hq | ⟨hq1, hq2⟩
          · exact h q qs hq
          · subst hq1 hq2; exact hf

theorem Sim.inv_run {s s' : Sim} (h : s.Inv) (ops : List SOp) (hs : s.run ops = .ok s') : s'.Inv := by
  induction ops generalizing s with
  | nil => simp only [Sim.run, foldE, Except.ok.injEq] at hs; subst hs; exact h
  | cons op r ih =>
    simp only [Sim.run, foldE] at hs
    cases ho : s.stepOp op with
    | error e => rw [ho] at hs; simp at hs
    | ok s1 => rw [ho] at hs; exact ih (Sim.inv_step h op ho) hs

end Cfg

/-
`ModuleTree::add` (model `ModTree.add`): where the `rposition` / skip loop / `insert` put a node,
and the simulation with the specification pre-order.
-/
import Desverif.Model.ModTree
import Desverif.Proofs.ObjPathOps
import Desverif.Proofs.PreorderStep
namespace ModTree
open ObjPath PreSpec

/-! ### the algorithm on a vector of the shape `A ++ q :: S ++ B` -/

theorem rposition_none {α : Type} (f : α → Bool) : ∀ (l : List α), (∀ x ∈ l, f x = false) →
    rposition f l = none
  | [], _ => rfl
  | x :: xs, h => by
    have hx : f x = false := h x (by simp)
    simp [rposition, rposition_none f xs (fun y hy => h y (by simp [hy])), hx]

theorem rposition_split {α : Type} (f : α → Bool) (q : α) (R : List α) (hq : f q = true)
    (hR : ∀ x ∈ R, f x = false) : ∀ A : List α, rposition f (A ++ q :: R) = some A.length
  | [] => by simp [rposition, rposition_none f R hR, hq]
  | a :: A => by simp [rposition, rposition_split f q R hq hR A]

theorem skipLen_split (depth : Nat) (B : List Mod)
    (hB : ∀ b, B.head? = some b → b.path.len ≤ depth) :
    ∀ S : List Mod, (∀ x ∈ S, depth < x.path.len) → skipLen depth (S ++ B) = S.length
  | [], _ => by
    cases B with
    | nil => rfl
    | cons b B =>
      have := hB b rfl
      simp only [List.nil_append, skipLen, List.length_nil]
      rw [if_neg (by omega)]
  | s :: S, h => by
    have hs := h s (by simp)
    simp only [List.cons_append, skipLen, List.length_cons]
    rw [if_pos hs, skipLen_split depth B hB S (fun x hx => h x (by simp [hx]))]

/-- **Where `add` inserts.**  If the vector is `A ++ q :: S ++ B` with `q` the (last) entry carrying
    the parent path, `S` strictly deeper than the parent and `B` starting with an entry that is not,
    the new module lands directly after `S`. -/
theorem add_split (m : Mod) (par : Path) (A S B : List Mod) (q : Mod)
    (hp : ObjPath.parent m.path = .ok (some par)) (hroot : isRoot par = false)
    (hq : q.path = par) (hne : ∀ x ∈ S ++ B, x.path ≠ par)
    (hS : ∀ x ∈ S, par.len < x.path.len)
    (hB : ∀ b, B.head? = some b → b.path.len ≤ par.len) :
    add (A ++ q :: S ++ B) m = .ok (A ++ q :: S ++ m :: B) := by
  have hpos : rposition (fun x : Mod => x.path == par) (A ++ q :: (S ++ B)) = some A.length :=
    rposition_split _ q (S ++ B) (by simp [hq]) (fun x hx => by simpa using hne x hx) A
  have hdrop : (A ++ q :: (S ++ B)).drop (A.length + 1) = S ++ B := by
    have : A ++ q :: (S ++ B) = (A ++ [q]) ++ (S ++ B) := by simp
    rw [this]
    exact List.drop_left' (by simp)
  have hskip := skipLen_split par.len B hB S hS
  have e0 : A ++ q :: S ++ B = A ++ q :: (S ++ B) := by simp
  rw [e0]
  unfold add
  simp only [hp, hroot, Bool.false_eq_true, if_false, hpos, hdrop, hskip]
  have hlen : A.length + 1 + S.length ≤ (A ++ q :: (S ++ B)).length := by simp; omega
  rw [if_pos hlen]
  have e : A ++ q :: (S ++ B) = (A ++ q :: S) ++ B := by simp
  have hl : (A ++ q :: S).length = A.length + 1 + S.length := by simp; omega
  rw [e, List.take_left' hl, List.drop_left' hl]

/-! ### simulation with the specification -/

abbrev SDecl := Decl (List Nat)

/-- what the property observes of a module: its path and stage count -/
def view (m : Mod) : Path × Nat := (m.path, m.stages)
/-- the same for a declaration -/
def dview (d : SDecl) : Path × Nat := (reprOf d.segs, d.stages)

def NamesValid (D : List SDecl) : Prop := ∀ d ∈ D, AllValid d.segs

instance (D : List SDecl) : Decidable (NamesValid D) :=
  inferInstanceAs (Decidable (∀ d ∈ D, AllValid d.segs))

theorem map_view_split {ms : List Mod} {X Y : List SDecl}
    (h : ms.map view = (X ++ Y).map dview) :
    ∃ X' Y', ms = X' ++ Y' ∧ X'.map view = X.map dview ∧ Y'.map view = Y.map dview := by
  rw [List.map_append] at h
  exact List.map_eq_append_iff.mp h

theorem map_view_cons {ms : List Mod} {d : SDecl} {Y : List SDecl}
    (h : ms.map view = (d :: Y).map dview) :
    ∃ m Y', ms = m :: Y' ∧ view m = dview d ∧ Y'.map view = Y.map dview := by
  rw [List.map_cons] at h
  exact List.map_eq_cons_iff.mp h

theorem mem_of_map_view {ms : List Mod} {X : List SDecl} (h : ms.map view = X.map dview)
    {x : Mod} (hx : x ∈ ms) : ∃ d ∈ X, view x = dview d := by
  have : view x ∈ ms.map view := List.mem_map.mpr ⟨x, hx, rfl⟩
  rw [h] at this
  obtain ⟨d, hd, e⟩ := List.mem_map.mp this
  exact ⟨d, hd, e.symm⟩

theorem nodup_mid {β γ : Type} (f : β → γ) (A S B : List β) (q : β)
    (h : ((A ++ q :: S ++ B).map f).Nodup) : ∀ d ∈ S ++ B, f d ≠ f q := by
  have e : A ++ q :: S ++ B = A ++ q :: (S ++ B) := by simp
  rw [e, List.map_append, List.map_cons, List.nodup_append] at h
  have h2 := (List.nodup_cons.mp h.2.1).1
  intro d hd e'
  apply h2
  rw [← e']
  exact List.mem_map.mpr ⟨d, hd, rfl⟩

/-- **One `add`, seen against the specification.**  If the vector shows the pre-order of the
    declarations `D` and the new module is an acceptable declaration `p`, `add` succeeds and the
    vector shows the pre-order of `D ++ [p]`; nothing else moves. -/
theorem add_preorder_step (D : List SDecl) (p : SDecl) (ms : List Mod) (m : Mod)
    (hnames : NamesValid (D ++ [p])) (hv : Valid (D ++ [p]))
    (hsim : ms.map view = (preorder D).map dview) (hm : view m = dview p) :
    ∃ ms', add ms m = .ok ms' ∧ ms'.map view = (preorder (D ++ [p])).map dview ∧
      ∃ X Y, ms = X ++ Y ∧ ms' = X ++ m :: Y := by
  obtain ⟨hvD, _, _⟩ := (valid_snoc D p).mp hv
  have hperm := preorder_perm D hvD
  have good := valid_good D hvD
  obtain ⟨hstepN, hstepS⟩ := preorder_step D p hv hperm
  have hmp : m.path = reprOf p.segs := congrArg Prod.fst hm
  have hpv : AllValid p.segs := hnames p (by simp)
  -- the append case
  have happend : par p.segs = none → add ms m = .ok (ms ++ [m]) →
      ∃ ms', add ms m = .ok ms' ∧ ms'.map view = (preorder (D ++ [p])).map dview ∧
        ∃ X Y, ms = X ++ Y ∧ ms' = X ++ m :: Y := by
    intro hn hadd
    refine ⟨ms ++ [m], hadd, ?_, ms, [], by simp, by simp⟩
    rw [hstepN hn]
    simp [hsim, hm]
  rcases List.eq_nil_or_concat p.segs with hnil | ⟨s, n, hsn⟩
  · -- a module at the root path
    apply happend (by simp [par, hnil])
    unfold add
    rw [hmp, hnil]
    rfl
  · rw [List.concat_eq_append] at hsn
    have hsv : AllValid s := fun x hx => hpv x (by rw [hsn]; simp [hx])
    have hparent : ObjPath.parent m.path = .ok (some (reprOf s)) := by
      rw [hmp, hsn]; exact parent_reprOf_snoc s n hsv
    by_cases hs0 : s = []
    · -- a top-level module: its parent path is the root
      apply happend (by simp [par, hsn, hs0])
      unfold add
      rw [hparent, hs0]
      rfl
    · have hslen : 1 ≤ s.length := by
        cases s with
        | nil => exact absurd rfl hs0
        | cons _ _ => simp
      have hq : par p.segs = some s := by
        unfold par
        rw [hsn]
        simp only [List.length_append, List.length_singleton, List.dropLast_concat]
        rw [if_neg (by omega)]
      obtain ⟨A, qd, S, B, e1, e2, e3, e4, e5⟩ := hstepS s hq
      have hnd : ((preorder D).map (·.segs)).Nodup :=
        (List.Perm.nodup_iff (hperm.map _)).mpr good.nodup
      rw [e1] at hsim hnd
      obtain ⟨AS', B', hms, hAS, hB'⟩ := map_view_split hsim
      obtain ⟨A', R', hR0, hA, hR⟩ := map_view_split hAS
      obtain ⟨q', S', hR1, hq', hS'⟩ := map_view_cons hR
      have hmemD : ∀ d, d ∈ S ++ B → d ∈ D := by
        intro d hd
        apply hperm.mem_iff.mp
        rw [e1]
        simp only [List.mem_append, List.mem_cons] at hd ⊢
        rcases hd with hd | hd
        · exact Or.inl (Or.inr (Or.inr hd))
        · exact Or.inr hd
      have hroot : isRoot (reprOf s) = false := by
        simp only [isRoot, reprOf_len]
        cases s with
        | nil => exact absurd rfl hs0
        | cons _ _ => simp
      have hadd := add_split m (reprOf s) A' S' B' q' hparent hroot
        (by have := congrArg Prod.fst hq'; simp only [view, dview] at this; rw [this, e3])
        (by
          intro x hx e
          have hx' : x ∈ (S' ++ B') := hx
          have hmap : (S' ++ B').map view = (S ++ B).map dview := by
            rw [List.map_append, List.map_append, hS', hB']
          obtain ⟨d, hd, hxd⟩ := mem_of_map_view hmap hx'
          have hxp : x.path = reprOf d.segs := congrArg Prod.fst hxd
          rw [hxp] at e
          have hds : d.segs = s :=
            reprOf_injective _ _ (hnames d (by simp [hmemD d hd])) hsv e
          -- contradiction with Nodup
          exact nodup_mid (·.segs) A S B qd hnd d hd (by rw [hds, e3]))
        (by
          intro x hx
          obtain ⟨d, hd, hxd⟩ := mem_of_map_view hS' hx
          have hxp : x.path = reprOf d.segs := congrArg Prod.fst hxd
          rw [hxp, reprOf_len, reprOf_len]
          exact e4 d hd)
        (by
          intro b hb
          cases B' with
          | nil => simp at hb
          | cons b0 B0 =>
            simp at hb
            subst hb
            cases B with
            | nil => simp at hB'
            | cons d0 Bd =>
              simp only [List.map_cons, List.cons.injEq] at hB'
              have hxp : b0.path = reprOf d0.segs := congrArg Prod.fst hB'.1
              rw [hxp, reprOf_len, reprOf_len]
              exact e5 d0 rfl)
      have hms' : ms = A' ++ q' :: S' ++ B' := by rw [hms, hR0, hR1]
      refine ⟨A' ++ q' :: S' ++ m :: B', by rw [hms']; exact hadd, ?_, A' ++ q' :: S', B', ?_, ?_⟩
      · rw [e2]
        simp only [List.map_append, List.map_cons, hA, hq', hS', hB', hm]
      · rw [hms']
      · rfl

end ModTree

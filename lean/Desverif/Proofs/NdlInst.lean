/-
C18, instantiation: the modules and gate clusters of a built simulation are exactly those the
elaborated tree denotes (`Spec.modsOf`, pre-order), whatever the connections do.
-/
import Desverif.Spec.Ndl
import Desverif.Proofs.NdlTotal
namespace Ndl

/-- what is observable of a gate besides its connections -/
def GateInst.sig (g : GateInst) : Str × Nat × Nat := (g.name, g.size, g.pos)

/-- what is observable of a module besides its connections: path, software symbol, gates -/
def ModInst.sig (m : ModInst) : Str × Str × List (Str × Nat × Nat) :=
  (m.path, m.sym, m.gates.map GateInst.sig)

/-- the module a tree node denotes at `path` -/
def denotedSig (x : Str × Str × List FieldDef) : Str × Str × List (Str × Nat × Nat) :=
  (x.1, x.2.1, (x.2.2.flatMap mkCluster).map GateInst.sig)

theorem modify_map_sig (f : GateInst → GateInst) (hf : ∀ g, (f g).sig = g.sig) :
    ∀ (l : List GateInst) (i : Nat), (l.modify i f).map GateInst.sig = l.map GateInst.sig
  | [], i => by simp [List.modify_nil]
  | x :: l, 0 => by simp [List.modify_zero_cons, hf]
  | x :: l, i + 1 => by simp [List.modify_succ_cons, modify_map_sig f hf l i]

theorem pushSlot_sig (w : World) (r : Str × Nat) (s : Slot) :
    (w.pushSlot r s).map ModInst.sig = w.map ModInst.sig := by
  unfold World.pushSlot World.modify
  rw [List.map_map]
  apply List.map_congr_left
  intro m _
  simp only [Function.comp]
  split
  · simp only [ModInst.sig]
    exact congrArg (fun x => (m.path, m.sym, x)) (modify_map_sig (fun g => { g with slots := g.slots ++ [s] }) (fun g => rfl) m.gates r.2)
  · rfl

theorem connect_sig {w w' : World} {a b : Str × Nat} {ch : Option Metrics}
    (h : connect w a b ch = .ok w') : w'.map ModInst.sig = w.map ModInst.sig := by
  unfold connect at h
  split at h
  · cases h
  · split at h
    · split at h
      · cases h; rfl
      · split at h
        · cases h
          rw [pushSlot_sig, pushSlot_sig]
        · cases h
    · cases h

theorem connectAll_sig (path : Str) : ∀ (cs : List Conn) (w w' : World),
    connectAll path cs w = .ok w' → w'.map ModInst.sig = w.map ModInst.sig
  | [], w, w', h => by
    unfold connectAll at h
    cases h; rfl
  | c :: r, w, w', h => by
    unfold connectAll at h
    obtain ⟨a, _, h⟩ := bind_ok h
    obtain ⟨b, _, h⟩ := bind_ok h
    obtain ⟨ch, _, h⟩ := bind_ok h
    obtain ⟨w1, h1, h⟩ := bind_ok h
    rw [connectAll_sig path r w1 w' h, connect_sig h1]

/-- folding `instNode` over the names of a cluster, given the statement for the node -/
theorem foldl_names_sig (reg : Str → Bool) (path : Str) (n : Node)
    (ih : ∀ (p : Str) (w w' : World), instNode reg p n w = .ok w' →
      w'.map ModInst.sig = w.map ModInst.sig ++ (Spec.modsOf p n).map denotedSig) :
    ∀ (names : List Str) (w w' : World),
      names.foldlM (fun w nm => instNode reg (joinPath path nm) n w) w = .ok w' →
      w'.map ModInst.sig = w.map ModInst.sig ++
        (names.flatMap fun nm => Spec.modsOf (joinPath path nm) n).map denotedSig
  | [], w, w', h => by
    simp only [List.foldlM_nil] at h
    cases h
    simp
  | nm :: r, w, w', h => by
    simp only [List.foldlM_cons] at h
    obtain ⟨w1, h1, h⟩ := bind_ok h
    rw [foldl_names_sig reg path n ih r w1 w' h, ih _ w w1 h1]
    simp [List.flatMap_cons, List.map_append, List.append_assoc]

mutual
theorem instNode_sig (reg : Str → Bool) : ∀ (n : Node) (path : Str) (w w' : World),
    instNode reg path n w = .ok w' →
    w'.map ModInst.sig = w.map ModInst.sig ++ (Spec.modsOf path n).map denotedSig
  | .mk typ subs gates conns, path, w, w', h => by
    rw [instNode] at h
    split at h
    · cases h
    · split at h
      · cases h
      · obtain ⟨w1, h1, h⟩ := bind_ok h
        have hs := instSubs_sig reg subs path _ w1 h1
        have hc := connectAll_sig path conns w1 w' h
        rw [hc, hs]
        simp [Spec.modsOf, ModInst.sig, denotedSig, List.map_append, List.append_assoc]
theorem instSubs_sig (reg : Str → Bool) : ∀ (subs : List (FieldDef × Node)) (path : Str) (w w' : World),
    instSubs reg path subs w = .ok w' →
    w'.map ModInst.sig = w.map ModInst.sig ++ (Spec.modsOfSubs path subs).map denotedSig
  | [], path, w, w', h => by
    rw [instSubs] at h
    cases h
    simp [Spec.modsOfSubs]
  | (f, n) :: r, path, w, w', h => by
    rw [instSubs] at h
    obtain ⟨w1, h1, h⟩ := bind_ok h
    have h1' := foldl_names_sig reg path n (fun p a b hab => instNode_sig reg n p a b hab) _ w w1 h1
    have hr := instSubs_sig reg r path w1 w' h
    rw [hr, h1']
    simp [Spec.modsOfSubs, List.map_append, List.append_assoc]
end

theorem instantiate_sig (reg : Str → Bool) (n : Node) (w : World) (h : instantiate reg n = .ok w) :
    w.map ModInst.sig = (Spec.modsOf [] n).map denotedSig := by
  have := instNode_sig reg n [] [] w h
  simpa using this


theorem wire_sig : ∀ (rs : List (Str × Conn)) (w w' : World),
    Spec.wire rs w = .ok w' → w'.map ModInst.sig = w.map ModInst.sig
  | [], w, w', h => by
    unfold Spec.wire at h
    cases h; rfl
  | (path, c) :: r, w, w', h => by
    unfold Spec.wire at h
    obtain ⟨a, _, h⟩ := bind_ok h
    obtain ⟨b, _, h⟩ := bind_ok h
    obtain ⟨ch, _, h⟩ := bind_ok h
    obtain ⟨w1, h1, h⟩ := bind_ok h
    rw [wire_sig r w1 w' h, connect_sig h1]

theorem worldOf_sig (reg : Str → Bool) (n : Node) (w : World) (h : Spec.worldOf reg n = .ok w) :
    w.map ModInst.sig = (Spec.modsOf [] n).map denotedSig := by
  unfold Spec.worldOf at h
  split at h
  · cases h
  · split at h
    · cases h
    · rw [wire_sig _ _ _ h, List.map_map]
      rfl

end Ndl

/-
Lemmas for C14: the recursive loops of Model/Proc.lean produce the index-based bracket of
Spec/ProcShape.lean.
-/
import Desverif.Spec.ProcShape
namespace Proc

/-! ### generic list facts -/

theorem filterMap_flatMap {α β γ : Type} (f : β → Option γ) (g : α → List β) (l : List α) :
    (l.flatMap g).filterMap f = l.flatMap (fun a => (g a).filterMap f) := by
  induction l with
  | nil => rfl
  | cons a l ih => simp only [List.flatMap_cons, List.filterMap_append, ih]

theorem flatMap_congr' {α β : Type} {f g : α → List β} {l : List α} (h : ∀ a ∈ l, f a = g a) :
    l.flatMap f = l.flatMap g := by
  induction l with
  | nil => rfl
  | cons a l ih =>
    simp only [List.flatMap_cons]
    rw [h a (by simp), ih (fun b hb => h b (by simp [hb]))]

theorem flatMap_singleton' {α β : Type} (f : α → β) (l : List α) :
    l.flatMap (fun a => [f a]) = l.map f := by
  induction l with
  | nil => rfl
  | cons a l ih => simp only [List.flatMap_cons, List.map_cons, ih, List.singleton_append]

theorem range_succ_flatMap {β : Type} (n : Nat) (f : Nat → List β) :
    (List.range (n + 1)).flatMap f = f 0 ++ (List.range n).flatMap (fun j => f (j + 1)) := by
  rw [List.range_succ_eq_map, List.flatMap_cons, List.flatMap_map]

theorem range_succ_reverse_flatMap {β : Type} (n : Nat) (f : Nat → List β) :
    (List.range (n + 1)).reverse.flatMap f =
      (List.range n).reverse.flatMap (fun j => f (j + 1)) ++ f 0 := by
  rw [List.range_succ_eq_map, List.reverse_cons, List.flatMap_append, ← List.map_reverse,
    List.flatMap_map]
  simp

/-! ### message flow -/

theorem msgAt_cons (a : Nat → Act) (acts : List (Nat → Act)) (m0 : Option Nat) (j : Nat) :
    msgAt (a :: acts) m0 (j + 1) = msgAt acts (m0.bind fun id => (a id).apply id) j := by
  induction j with
  | zero => simp [msgAt]
  | succ j ih =>
    rw [msgAt, ih]
    simp [msgAt]

theorem msgAt_none (acts : List (Nat → Act)) (j : Nat) : msgAt acts none j = none := by
  induction j with
  | zero => rfl
  | succ j ih => simp [msgAt, ih]

/-! ### the loops -/

def bumpEnd (e : ElemRt) : ElemRt := { e with ends := e.ends + 1 }

/-- what `event_end` of an element depends on -/
def endView (e : ElemRt) : Elem × Nat := (e.spec, e.ends)

/-- `upItemsAt` with the stack index shifted by `off` (the loops are proved from any index on) -/
def upItemsOff (c : Ctx) (off : Nat) (es : List ElemRt) (m0 : Option Nat) (j : Nat) : List Item :=
  match es[j]? with
  | none => []
  | some e => startItems c (off + j) e ++ (match msgAt (es.map (·.spec.act)) m0 j with
      | some id => incItems c (off + j) e id
      | none => [])

def endItemsOff (c : Ctx) (off : Nat) (es : List ElemRt) (j : Nat) : List Item :=
  match es[j]? with
  | none => []
  | some e => endItems c (off + j) e

theorem upItemsOff_zero (c : Ctx) (es : List ElemRt) (m0 : Option Nat) :
    upItemsOff c 0 es m0 = upItemsAt c es m0 := by
  funext j; simp only [upItemsOff, upItemsAt, Nat.zero_add]
  cases es[j]? with
  | none => rfl
  | some e => cases msgAt (es.map (·.spec.act)) m0 j <;> rfl

theorem endItemsOff_zero (c : Ctx) (es : List ElemRt) : endItemsOff c 0 es = endItemsAt c es := by
  funext j; simp only [endItemsOff, endItemsAt, Nat.zero_add]
  cases es[j]? <;> rfl

theorem upItemsOff_succ (c : Ctx) (off : Nat) (e : ElemRt) (es : List ElemRt) (m0 : Option Nat)
    (j : Nat) :
    upItemsOff c off (e :: es) m0 (j + 1) =
      upItemsOff c (off + 1) es (m0.bind fun id => (e.spec.act id).apply id) j := by
  have h : off + (j + 1) = off + 1 + j := by omega
  simp only [upItemsOff, List.getElem?_cons_succ, List.map_cons, msgAt_cons, h]

theorem endItemsOff_succ (c : Ctx) (off : Nat) (e : ElemRt) (es : List ElemRt) (j : Nat) :
    endItemsOff c off (e :: es) (j + 1) = endItemsOff c (off + 1) es j := by
  have h : off + (j + 1) = off + 1 + j := by omega
  simp only [endItemsOff, List.getElem?_cons_succ, h]

/-- the message that leaves the stack and the trace of the upstream loop -/
theorem upstream_spec (c : Ctx) (es : List ElemRt) : ∀ (off : Nat) (m0 : Option Nat),
    (upstream c off es m0).2 =
      (msgAt (es.map (·.spec.act)) m0 es.length,
       (List.range es.length).flatMap (upItemsOff c off es m0)) := by
  induction es with
  | nil => intro off m0; simp [upstream, msgAt]
  | cons e es ih =>
    intro off m0
    have hfun : (fun j => upItemsOff c off (e :: es) m0 (j + 1)) =
        upItemsOff c (off + 1) es (m0.bind fun id => (e.spec.act id).apply id) := by
      funext j; exact upItemsOff_succ c off e es m0 j
    cases m0 with
    | none =>
      simp only [upstream, ih, List.map_cons, List.length_cons, msgAt_cons, range_succ_flatMap,
        hfun]
      simp [upItemsOff, msgAt]
    | some id =>
      simp only [upstream, ih, List.map_cons, List.length_cons, msgAt_cons, range_succ_flatMap,
        hfun]
      simp [upItemsOff, msgAt]

/-- the upstream loop only moves the `event_start` / `incoming` counters -/
theorem upstream_view (c : Ctx) (es : List ElemRt) : ∀ (off : Nat) (m0 : Option Nat),
    (upstream c off es m0).1.map endView = es.map endView := by
  induction es with
  | nil => intro off m0; simp [upstream]
  | cons e es ih =>
    intro off m0
    cases m0 with
    | none => simp [upstream, ih, endView]
    | some id => simp [upstream, ih, endView]

theorem downstream_spec (c : Ctx) (es : List ElemRt) : ∀ (off : Nat),
    downstream c off es =
      (es.map bumpEnd, (List.range es.length).reverse.flatMap (endItemsOff c off es)) := by
  induction es with
  | nil => intro off; simp [downstream]
  | cons e es ih =>
    intro off
    have hfun : (fun j => endItemsOff c off (e :: es) (j + 1)) = endItemsOff c (off + 1) es := by
      funext j; exact endItemsOff_succ c off e es j
    simp only [downstream, ih, List.map_cons, List.length_cons, range_succ_reverse_flatMap, hfun]
    simp [endItemsOff, bumpEnd]

theorem endItemsAt_view (c : Ctx) (es es' : List ElemRt) (h : es'.map endView = es.map endView)
    (j : Nat) : endItemsAt c es' j = endItemsAt c es j := by
  have hj : (es'.map endView)[j]? = (es.map endView)[j]? := by rw [h]
  simp only [List.getElem?_map] at hj
  simp only [endItemsAt]
  cases h1 : es'[j]? with
  | none =>
    cases h2 : es[j]? with
    | none => rfl
    | some e => rw [h1, h2] at hj; simp at hj
  | some e' =>
    cases h2 : es[j]? with
    | none => rw [h1, h2] at hj; simp at hj
    | some e =>
      rw [h1, h2] at hj
      simp only [Option.map_some, Option.some.injEq, endView, Prod.mk.injEq] at hj
      simp only [endItems, hj.1, hj.2]

/-- the trace of one bracket is the index-based trace of the specification -/
theorem bracket_items (c : Ctx) (m : ModRt) (kind : Kind) (woken : Sleepers) :
    (bracket c m kind woken).2 = traceShape c m kind woken := by
  have hv := upstream_view c m.elems 0 kind.msg?
  have hlen : (upstream c 0 m.elems kind.msg?).1.length = m.elems.length := by
    have := congrArg List.length hv
    simpa using this
  simp only [bracket, traceShape, upstream_spec, downstream_spec, upItemsOff_zero,
    endItemsOff_zero, hlen]
  congr 1
  exact flatMap_congr' (fun j _ => endItemsAt_view c m.elems _ hv j)

/-- the behaviours of the stack never change -/
theorem bracket_acts (c : Ctx) (m : ModRt) (kind : Kind) (woken : Sleepers) :
    (bracket c m kind woken).1.elems.map (·.spec.act) = m.elems.map (·.spec.act) := by
  have hv := upstream_view c m.elems 0 kind.msg?
  have h1 : ∀ l : List ElemRt, l.map (·.spec.act) = (l.map endView).map (·.1.act) := by
    intro l; simp [endView, List.map_map, Function.comp_def]
  simp only [bracket, downstream_spec]
  rw [h1 m.elems, ← hv, ← h1, List.map_map]
  apply List.map_congr_left
  intro e _
  simp [bumpEnd]

theorem runEvent_items (c : Ctx) (m : ModRt) (kind : Kind) :
    (runEvent c m kind).items = traceShape c m kind (dueTasks c m) := by
  simp only [runEvent, bracket_items]
  rfl

theorem runEvent_acts (c : Ctx) (m : ModRt) (kind : Kind) :
    (runEvent c m kind).mod.elems.map (·.spec.act) = m.elems.map (·.spec.act) := by
  have h : (runEvent c m kind).mod.elems = (bracket c (activate c m).1 kind (activate c m).2).1.elems := by
    simp only [runEvent, deactivate]
    split
    · split
      · split <;> rfl
      · rfl
    · rfl
  rw [h, bracket_acts]
  rfl

/-! ### from the trace to the call log -/

theorem entry_call (e : Entry) : (Item.call e).entry? = some e := rfl

theorem toItem_entry (c : Ctx) (e : Emit) : (e.toItem c).entry? = none := by
  unfold Emit.toItem
  split
  · split <;> rfl
  · rfl

theorem action_entry (c : Ctx) (a : Action) : (a.toItem c).entry? = none := by
  cases a with
  | send e => exact toItem_entry c e
  | shutdown r => rfl

theorem emits_entries (c : Ctx) (l : List Action) :
    (l.map (Action.toItem c)).filterMap Item.entry? = [] := by
  induction l with
  | nil => rfl
  | cons e l ih => simp [action_entry, ih]

theorem hNow_entries (c : Ctx) (l : List HEmit) : (hNow c l).filterMap Item.entry? = [] := by
  induction l with
  | nil => rfl
  | cons h l ih =>
    cases h with
    | now e => simp [hNow, toItem_entry, ih]
    | task x e => simpa [hNow] using ih
    | shutdown r =>
      have h : (Item.down (r.map (c.now + ·))).entry? = none := rfl
      simp only [hNow, List.filterMap_cons, h, ih]

theorem sleepers_entries (c : Ctx) (l : Sleepers) :
    (wokenItems c l).filterMap Item.entry? = [] := by
  rw [List.filterMap_eq_nil_iff]
  intro a ha
  simp only [wokenItems, List.mem_filterMap] at ha
  obtain ⟨s, _, hs⟩ := ha
  unfold Task.item? at hs
  cases hf : s.2.fin with
  | send x => rw [hf] at hs; simp only [Option.some.injEq] at hs; subst hs; exact toItem_entry c x
  | panic => rw [hf] at hs; simp at hs
  | hang => rw [hf] at hs; simp at hs

theorem handlerItems_entries (c : Ctx) (h : ModRt) (kind : Kind) (out : Option Nat) :
    (handlerItems c h kind out).filterMap Item.entry? = handlerEntries c.mod c.now kind out := by
  cases kind with
  | message id =>
    cases out with
    | none => simp [handlerItems, handlerCall, handlerEntries]
    | some x => simp [handlerItems, handlerCall, handlerEntries, Item.entry?, hNow_entries]
  | wakeup => simp [handlerItems, handlerCall, handlerEntries]
  | simStart k => simp [handlerItems, handlerCall, handlerEntries, Item.entry?, hNow_entries]
  | simEnd => simp [handlerItems, handlerCall, handlerEntries, Item.entry?, hNow_entries]

theorem upItemsAt_entries (c : Ctx) (es : List ElemRt) (m0 : Option Nat) (j : Nat)
    (hj : j < es.length) :
    (upItemsAt c es m0 j).filterMap Item.entry? =
      upEntries c.mod c.now (es.map (·.spec.act)) m0 j := by
  simp only [upItemsAt, List.getElem?_eq_getElem hj, upEntries]
  cases msgAt (es.map (·.spec.act)) m0 j with
  | none =>
    simp only [startItems, List.filterMap_cons, entry_call, emits_entries,
      startEntry, List.append_nil]
  | some id =>
    simp only [startItems, incItems, List.filterMap_cons, List.filterMap_append, entry_call,
      emits_entries, startEntry, incEntry, List.nil_append, List.cons_append]

theorem endItemsAt_entries (c : Ctx) (es : List ElemRt) (j : Nat) (hj : j < es.length) :
    (endItemsAt c es j).filterMap Item.entry? = [endEntry c.mod c.now j] := by
  simp only [endItemsAt, List.getElem?_eq_getElem hj, endItems, List.filterMap_cons, entry_call,
    emits_entries, endEntry]

/-- the call log of one event is the bracket -/
theorem traceShape_entries (c : Ctx) (m : ModRt) (kind : Kind) (woken : Sleepers) :
    (traceShape c m kind woken).filterMap Item.entry? =
      shape c.mod c.now (m.elems.map (·.spec.act)) kind := by
  simp only [traceShape, shape, List.filterMap_append, filterMap_flatMap, handlerItems_entries,
    sleepers_entries, List.append_nil, List.length_map]
  congr 1
  · congr 1
    exact flatMap_congr' (fun j hj => upItemsAt_entries c m.elems kind.msg? j (by simpa using hj))
  · rw [← flatMap_singleton']
    exact flatMap_congr' (fun j hj => endItemsAt_entries c m.elems j (by simpa using hj))

end Proc

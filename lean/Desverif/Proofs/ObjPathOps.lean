/-
`parent` / `name` / `appended` / `From<&str>` on representable paths, and injectivity of `reprOf`.
-/
import Desverif.Proofs.ObjPathLemmas
namespace ObjPath

theorem allValid_snoc {s : List (List Nat)} {n : List Nat} (h : AllValid (s ++ [n])) :
    AllValid s ∧ ValidName n :=
  ⟨fun m hm => h m (by simp [hm]), h n (by simp)⟩

theorem allValid_noDot {s : List (List Nat)} (h : AllValid s) : ∀ n ∈ s, DOT ∉ n :=
  fun n hn => (h n hn).2.1

theorem isCont_dot : isCont DOT = false := by decide

/-- `parent` of an appended path is the path itself -/
theorem parent_reprOf_snoc (s : List (List Nat)) (n : List Nat) (hs : AllValid s) :
    parent (reprOf (s ++ [n])) = .ok (some (reprOf s)) := by
  by_cases hnil : s = []
  · subst hnil
    simp [reprOf_single, parent, isBoundary, rfind, reprOf_nil, root]
  · rw [reprOf_snoc_cons s n hnil]
    have hb : isBoundary (render s ++ DOT :: n) (render s).length = true := by
      unfold isBoundary
      split
      · rfl
      · simp [isCont_dot]
    have hoff : offOf (render s) = (reprOf s).lastOff := (reprOf_lastOff s (allValid_noDot hs)).symm
    unfold parent
    simp only [Nat.add_one_ne_zero, if_false, Nat.add_sub_cancel, hb]
    simp only [List.take_left', Bool.not_true, Bool.and_false, Bool.false_eq_true, if_false]
    have : reprOf s = ⟨render s, offOf (render s), s.length, false⟩ := by
      rw [hoff]
      cases h : reprOf s with
      | mk d o l g =>
        have h1 := reprOf_data s
        have h2 := reprOf_len s
        have h3 := reprOf_isGate s
        rw [h] at h1 h2 h3
        simp at h1 h2 h3
        simp [h1, h2, h3]
    rw [this]
    rfl

theorem parent_root : parent root = .ok none := rfl

/-- `name` of an appended path is the appended name -/
theorem name_reprOf_snoc (s : List (List Nat)) (n : List Nat) (hn : ValidName n) :
    name (reprOf (s ++ [n])) = .ok n := by
  by_cases hnil : s = []
  · subst hnil
    simp [reprOf_single, name, sliceFrom, isBoundary]
  · rw [reprOf_snoc_cons s n hnil]
    obtain ⟨hne, _, hhead⟩ := hn
    cases n with
    | nil => exact absurd rfl hne
    | cons b r =>
      have hb : isCont b = false := by simpa using hhead
      have hget : (render s ++ DOT :: b :: r)[(render s).length + 1]? = some b := by
        rw [List.getElem?_append_right (by omega)]
        simp
      unfold name sliceFrom isBoundary
      simp only [Nat.add_one_ne_zero, if_false, hget, hb]
      simp

theorem name_root : name root = .ok [] := rfl

/-- `appended` with a non-empty name never fails on a module path and is `push` -/
theorem appended_reprOf (s : List (List Nat)) (n : List Nat) (hn : n ≠ []) :
    appended (reprOf s) n = .ok (reprOf (s ++ [n])) := by
  rw [reprOf_snoc]
  unfold appended push
  simp [reprOf_isGate, hn]
  split <;> rfl

/-! ### From<&str> -/

theorem foldl_fromStep_noDot (l : List Nat) (h : DOT ∉ l) (st : Nat × Nat × Nat) :
    l.foldl fromStep st = (st.1 + l.length, st.2.1, st.2.2) := by
  induction l generalizing st with
  | nil => simp
  | cons x xs ih =>
    have hx : x ≠ DOT := fun e => h (by simp [e])
    have hxs : DOT ∉ xs := fun e => h (by simp [e])
    simp only [List.foldl_cons]
    rw [ih hxs]
    simp [fromStep, hx]
    omega

/-- loop state of `From<&str>` after the dotted string of a non-empty valid segment list -/
theorem foldl_fromStep_render (s : List (List Nat)) (n : List Nat) (hv : AllValid (s ++ [n])) :
    (render (s ++ [n])).foldl fromStep (0, 0, 0)
      = ((render (s ++ [n])).length, (reprOf (s ++ [n])).lastOff, s.length) := by
  induction s using snoc_induction generalizing n with
  | nil =>
    have hn := (hv n (by simp)).2.1
    simp only [List.nil_append, render]
    rw [foldl_fromStep_noDot n hn]
    simp [reprOf_single]
  | snoc l a ih =>
    obtain ⟨hla, hn⟩ := allValid_snoc hv
    have hnd : DOT ∉ n := hn.2.1
    have hne : l ++ [a] ≠ [] := by simp
    rw [render_snoc, if_neg hne, List.foldl_append, ih a hla, List.foldl_cons]
    have : fromStep ((render (l ++ [a])).length, (reprOf (l ++ [a])).lastOff, l.length) DOT
        = ((render (l ++ [a])).length + 1, (render (l ++ [a])).length + 1, l.length + 1) := by
      simp [fromStep]
    rw [this, foldl_fromStep_noDot n hnd, reprOf_snoc_cons _ n hne]
    simp
    omega

/-- `ObjectPath::from(dotted string)` = repeated `appended` (names without `'.'`) -/
theorem fromStr_render (s : List (List Nat)) (hv : AllValid s) : fromStr (render s) = reprOf s := by
  induction s using snoc_induction with
  | nil => rfl
  | snoc l a _ =>
    unfold fromStr
    rw [foldl_fromStep_render l a hv]
    obtain ⟨_, ha⟩ := allValid_snoc hv
    have hlen : (render (l ++ [a])).length ≠ (reprOf (l ++ [a])).lastOff := by
      have hpos : 0 < a.length := List.length_pos_iff.mpr ha.1
      by_cases hnil : l = []
      · subst hnil
        simp [reprOf_single, render]
        exact ha.1
      · rw [reprOf_snoc_cons l a hnil, render_snoc, if_neg hnil]
        simp
        exact ha.1
    simp only [hlen, ne_eq, not_false_eq_true, if_true]
    cases h : reprOf (l ++ [a]) with
    | mk d o ln g =>
      have h1 := reprOf_data (l ++ [a])
      have h2 := reprOf_len (l ++ [a])
      have h3 := reprOf_isGate (l ++ [a])
      rw [h] at h1 h2 h3
      simp at h1 h2 h3
      simp [h1, h2, h3]

/-! ### injectivity -/

theorem reprOf_injective : ∀ (a b : List (List Nat)), AllValid a → AllValid b →
    reprOf a = reprOf b → a = b := by
  intro a
  induction a using snoc_induction with
  | nil =>
    intro b _ _ h
    have := congrArg Path.len h
    rw [reprOf_len, reprOf_len] at this
    exact (List.length_eq_zero_iff.mp this.symm).symm
  | snoc l x ih =>
    intro b ha hb h
    have hlen := congrArg Path.len h
    rw [reprOf_len, reprOf_len] at hlen
    have hbne : b ≠ [] := by intro e; subst e; simp at hlen
    obtain ⟨b', y, rfl⟩ : ∃ b' y, b = b' ++ [y] :=
      ⟨b.dropLast, b.getLast hbne, (List.dropLast_concat_getLast hbne).symm⟩
    obtain ⟨hl, hx⟩ := allValid_snoc ha
    obtain ⟨hb', hy⟩ := allValid_snoc hb
    have hn : (Except.ok x : Except Err _) = .ok y := by
      rw [← name_reprOf_snoc l x hx, ← name_reprOf_snoc b' y hy, h]
    have hp : (Except.ok (some (reprOf l)) : Except Err _) = .ok (some (reprOf b')) := by
      rw [← parent_reprOf_snoc l x hl, ← parent_reprOf_snoc b' y hb', h]
    have hxy : x = y := by injection hn
    have hlb : reprOf l = reprOf b' := by injection hp with hp; injection hp
    rw [ih b' hl hb' hlb, hxy]

/-! ### nonzero_parent -/

theorem nonzeroParent_reprOf (s : List (List Nat)) (hv : AllValid s) :
    nonzeroParent (reprOf s)
      = .ok (if s.length ≤ 1 then none else some (reprOf s.dropLast)) := by
  induction s using snoc_induction with
  | nil => rfl
  | snoc l a _ =>
    obtain ⟨hl, _⟩ := allValid_snoc hv
    unfold nonzeroParent
    rw [parent_reprOf_snoc l a hl]
    simp only [isRoot, reprOf_len, List.length_append, List.length_singleton, List.dropLast_concat]
    by_cases h0 : l.length = 0
    · simp [h0]
    · have : ¬ (l.length + 1 ≤ 1) := by omega
      simp [h0, this]

end ObjPath

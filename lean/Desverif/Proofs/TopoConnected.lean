/-
`Topology::connected`: the recursive `visit` is a depth-first search; started on an empty
`visited` vector it returns exactly the nodes reachable from the start node, without repetition.
-/
import Desverif.Proofs.TopoGraph
namespace Topo

/-- every out-neighbour of a visited node that is not "in progress" (`G`) has been visited -/
def ClosedExcept (t : T) (V : List Nat) (G : Nat → Prop) : Prop :=
  ∀ x ∈ V, ¬ G x → ∀ y, t.Adj x y → y ∈ V

structure VisitPost (t : T) (i : Nat) (V V' : List Nat) (G : Nat → Prop) : Prop where
  ext : ∃ ext, V' = V ++ ext ∧ ∀ x ∈ ext, t.Reach i x
  mem : i ∈ V'
  nodup : V'.Nodup
  lt : ∀ x ∈ V', x < t.nodes.length
  closed : ClosedExcept t V' G

theorem visit_spec (t : T) (hwf : t.WF) : ∀ (fuel i : Nat) (V : List Nat) (G : Nat → Prop),
    i < t.nodes.length → (∀ x ∈ V, x < t.nodes.length) → V.Nodup →
    (i ∈ V ∨ t.nodes.length < fuel + V.length) → ClosedExcept t V G →
    VisitPost t i V (visit t fuel i V) G := by
  intro fuel
  induction fuel with
  | zero =>
    intro i V G hi hlt hnd hf hcl
    have hiV : i ∈ V := by
      rcases hf with h | h
      · exact h
      · have := nodup_lt_length hnd hlt; omega
    exact ⟨⟨[], by simp [visit], by simp⟩, by simpa [visit] using hiV, by simpa [visit] using hnd,
      by simpa [visit] using hlt, by simpa [visit] using hcl⟩
  | succ fuel ih =>
    intro i V G hi hlt hnd hf hcl
    by_cases hiV : i ∈ V
    · have hv : visit t (fuel + 1) i V = V := by simp [visit, hiV]
      rw [hv]
      exact ⟨⟨[], by simp, by simp⟩, hiV, hnd, hlt, hcl⟩
    · have hfuel : t.nodes.length < fuel + 1 + V.length := by
        rcases hf with h | h
        · exact absurd h hiV
        · exact h
      have hv : visit t (fuel + 1) i V =
          (t.edgesAt i).foldl (fun v e => visit t fuel e.dst v) (V ++ [i]) := by
        simp [visit, hiV]
      rw [hv]
      -- the loop over the edges of `i`
      have loop : ∀ (es : List Edge), (∀ e ∈ es, e ∈ t.edgesAt i) → ∀ (v : List Nat),
          (∃ ext, v = (V ++ [i]) ++ ext ∧ ∀ x ∈ ext, t.Reach i x) → v.Nodup →
          (∀ x ∈ v, x < t.nodes.length) → ClosedExcept t v (fun x => G x ∨ x = i) →
          let r := es.foldl (fun v e => visit t fuel e.dst v) v
          (∃ ext, r = (V ++ [i]) ++ ext ∧ ∀ x ∈ ext, t.Reach i x) ∧ r.Nodup ∧
          (∀ x ∈ r, x < t.nodes.length) ∧ ClosedExcept t r (fun x => G x ∨ x = i) ∧
          (∀ e ∈ es, e.dst ∈ r) ∧ (∀ x ∈ v, x ∈ r) := by
        intro es
        induction es with
        | nil => intro _ v h1 h2 h3 h4; exact ⟨h1, h2, h3, h4, by simp, fun x hx => hx⟩
        | cons e es ihes =>
          intro hes v h1 h2 h3 h4
          have hadj : t.Adj i e.dst := ⟨e, hes e List.mem_cons_self, rfl⟩
          have hdlt : e.dst < t.nodes.length := T.adj_lt hwf hadj
          obtain ⟨ext1, hv1, hr1⟩ := h1
          have hlen : V.length + 1 ≤ v.length := by rw [hv1]; simp
          have post := ih e.dst v (fun x => G x ∨ x = i) hdlt h3 h2 (Or.inr (by omega)) h4
          obtain ⟨ext2, hv2, hr2⟩ := post.ext
          have h1' : ∃ ext, visit t fuel e.dst v = (V ++ [i]) ++ ext ∧ ∀ x ∈ ext, t.Reach i x := by
            refine ⟨ext1 ++ ext2, by rw [hv2, hv1]; simp, ?_⟩
            intro x hx
            rcases List.mem_append.mp hx with hx | hx
            · exact hr1 x hx
            · exact T.Reach.cons hadj (hr2 x hx)
          have hrec := ihes (fun e' he' => hes e' (List.mem_cons_of_mem _ he')) _ h1' post.nodup post.lt post.closed
          simp only [List.foldl_cons]
          obtain ⟨r1, r2, r3, r4, r5, r6⟩ := hrec
          refine ⟨r1, r2, r3, r4, ?_, ?_⟩
          · intro e' he'
            rcases List.mem_cons.mp he' with rfl | he'
            · exact r6 _ post.mem
            · exact r5 e' he'
          · intro x hx
            apply r6
            rw [hv2]; exact List.mem_append_left _ hx
      have hcl1 : ClosedExcept t (V ++ [i]) (fun x => G x ∨ x = i) := by
        intro x hx hG y hy
        have hxi : x ≠ i := fun e => hG (Or.inr e)
        have hxV : x ∈ V := by
          rcases List.mem_append.mp hx with h | h
          · exact h
          · simp at h; exact absurd h hxi
        exact List.mem_append_left _ (hcl x hxV (fun g => hG (Or.inl g)) y hy)
      have hnd1 : (V ++ [i]).Nodup := by
        rw [List.nodup_append]
        refine ⟨hnd, by simp, ?_⟩
        intro a ha b hb; simp at hb; subst hb; intro e; subst e; exact hiV ha
      have hlt1 : ∀ x ∈ V ++ [i], x < t.nodes.length := by
        intro x hx
        rcases List.mem_append.mp hx with h | h
        · exact hlt x h
        · simp at h; subst h; exact hi
      obtain ⟨⟨ext, hr, hreach⟩, r2, r3, r4, r5, r6⟩ :=
        loop (t.edgesAt i) (fun e he => he) (V ++ [i]) ⟨[], by simp, by simp⟩ hnd1 hlt1 hcl1
      refine ⟨⟨[i] ++ ext, by rw [hr]; simp, ?_⟩, r6 i (by simp), r2, r3, ?_⟩
      · intro x hx
        rcases List.mem_append.mp hx with h | h
        · simp at h; subst h; exact T.Reach.refl t x
        · exact hreach x h
      · intro x hx hG y hy
        by_cases hxi : x = i
        · subst hxi
          obtain ⟨e, he, rfl⟩ := hy
          exact r5 e he
        · exact r4 x hx (fun g => g.elim hG hxi) y hy

/-- the search from `start` returns exactly the nodes reachable from `start`, each once -/
theorem visit_reachable (t : T) (hwf : t.WF) (start : Nat) (hs : start < t.nodes.length) :
    (visit t (t.nodes.length + 1) start []).Nodup ∧
    (∀ x ∈ visit t (t.nodes.length + 1) start [], x < t.nodes.length) ∧
    ∀ x, x ∈ visit t (t.nodes.length + 1) start [] ↔ t.Reach start x := by
  have post := visit_spec t hwf (t.nodes.length + 1) start [] (fun _ => False) hs (by simp) (by simp)
    (Or.inr (by simp)) (by intro x hx; simp at hx)
  refine ⟨post.nodup, post.lt, fun x => ⟨?_, ?_⟩⟩
  · intro hx
    obtain ⟨ext, he, hr⟩ := post.ext
    rw [he] at hx
    exact hr x (by simpa using hx)
  · rintro ⟨k, hk⟩
    induction hk with
    | refl => exact post.mem
    | step _ hadj ih => exact post.closed _ ih (fun f => f) _ hadj

theorem full_of_length {l : List Nat} {n : Nat} (hnd : l.Nodup) (hlt : ∀ x ∈ l, x < n) :
    l.length = n ↔ ∀ j, j < n → j ∈ l := by
  constructor
  · intro hlen j hj
    apply Classical.byContradiction
    intro hjl
    have hsub : l ⊆ (List.range n).erase j := by
      intro x hx
      have hxj : x ≠ j := fun e => hjl (e ▸ hx)
      exact (List.mem_erase_of_ne hxj).mpr (List.mem_range.mpr (hlt x hx))
    have := List.Nodup.length_le_of_subset hnd hsub
    rw [List.length_erase] at this
    simp [List.mem_range.mpr hj] at this
    omega
  · intro hall
    have h1 := nodup_lt_length hnd hlt
    have h2 : (List.range n).length ≤ l.length :=
      List.Nodup.length_le_of_subset List.nodup_range (fun x hx => hall x (List.mem_range.mp hx))
    simp at h2
    omega

end Topo

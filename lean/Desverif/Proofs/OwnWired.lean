/-
C20: every graph `Own.mkEdges d` is closed — every holder is a root or is itself held, and every
connected gate is registered in the `gates` of a module context below the slot's target — so the
decidable check `Own.wired d` is `true` for EVERY description `d` (no well-formedness hypothesis is
needed: `mkEdges` ignores links between unknown gates and gates of unknown owners).
-/
import Desverif.Proofs.OwnGraph
namespace Own

/-- `v` is held inside `L` -/
def HeldIn (L : List (Edge NId)) (v : NId) : Prop := ∃ e' ∈ L, e'.tgt = v

theorem HeldIn.mono {L L' : List (Edge NId)} {v : NId} (h : HeldIn L v) (hs : ∀ e ∈ L, e ∈ L') :
    HeldIn L' v := by
  obtain ⟨e, he, ht⟩ := h
  exact ⟨e, hs e he, ht⟩

theorem src_msgEdges (l : Loc) (m : MsgD) : ∀ e ∈ msgEdges l m, e.src = .msg l := by
  intro e he
  unfold msgEdges at he
  cases hb : m.body <;> cases hg : m.lastGate <;> simp [hb, hg, fld] at he
  all_goals (first | (rcases he with rfl | rfl <;> rfl) | (subst he; rfl))

theorem held_evEdges (l : Loc) (ev : EvD) :
    ∀ e ∈ evEdges l ev, e.src = .ev l ∨ HeldIn (evEdges l ev) e.src := by
  intro e he
  cases ev with
  | handle m msg =>
    simp only [evEdges, modRefEdges, List.mem_append, List.mem_cons, List.mem_nil_iff, or_false] at he
    rcases he with ((rfl | rfl) | rfl) | hm
    · exact Or.inl rfl
    · exact Or.inl rfl
    · exact Or.inl rfl
    · right
      rw [src_msgEdges l msg e hm]
      exact ⟨fld (.ev l) (.msg l), by simp [evEdges], rfl⟩
  | exiting g ch msg =>
    simp only [evEdges, List.mem_append, List.mem_cons, List.mem_nil_iff, or_false] at he
    rcases he with (((rfl | rfl) | hc) | rfl) | hm
    · exact Or.inl rfl
    · right; exact ⟨fld (.ev l) (.conn l), by simp [evEdges], rfl⟩
    · right
      cases ch with
      | none => simp at hc
      | some cf =>
        simp at hc
        subst hc
        exact ⟨fld (.ev l) (.conn l), by simp [evEdges], rfl⟩
    · exact Or.inl rfl
    · right
      rw [src_msgEdges l msg e hm]
      exact ⟨fld (.ev l) (.msg l), by simp [evEdges], rfl⟩
  | unbusy c f =>
    simp [evEdges] at he; subst he; exact Or.inl rfl
  | restart m =>
    simp [evEdges, modRefEdges] at he; rcases he with rfl | rfl <;> exact Or.inl rfl
  | wakeup m =>
    simp [evEdges, modRefEdges] at he; rcases he with rfl | rfl <;> exact Or.inl rfl


theorem held_evSet (owner : NId) (mk : Nat → Loc) (evs : List EvD) :
    ∀ e ∈ evSetEdges owner mk evs, e.src = owner ∨ HeldIn (evSetEdges owner mk evs) e.src := by
  intro e he
  unfold evSetEdges at he ⊢
  obtain ⟨⟨k, ev⟩, hin, hmem⟩ := List.mem_flatMap.mp he
  have hsub : ∀ x ∈ fld owner (.ev (mk k)) :: evEdges (mk k) ev,
      x ∈ (enum evs).flatMap fun (k, e) => fld owner (.ev (mk k)) :: evEdges (mk k) e :=
    fun x hx => List.mem_flatMap.mpr ⟨(k, ev), hin, hx⟩
  rcases List.mem_cons.mp hmem with rfl | ht
  · exact Or.inl rfl
  · right
    rcases held_evEdges (mk k) ev e ht with h | h
    · exact ⟨fld owner (.ev (mk k)), hsub _ (List.mem_cons_self ..), h.symm⟩
    · exact h.mono fun x hx => hsub x (List.mem_cons_of_mem _ hx)

theorem held_taskEdges (m t : Nat) (td : TaskD) :
    ∀ e ∈ taskEdges m t td, good e.src = true →
      (e.src = .tokioRt m ∨ e.src = .asyncExt m ∨ e.src = .state m) ∨
        HeldIn (taskEdges m t td) e.src := by
  obtain ⟨w, j⟩ := td
  cases j <;> cases w with
  | sleep s => simp [taskEdges, fld, HeldIn, good]
  | recv b => cases b <;> simp [taskEdges, fld, HeldIn, good]


theorem held_afnEdges (cb : Bool) (m t : Nat) (a : Option AfnD) :
    ∀ e ∈ afnEdges cb m t a, good e.src = true →
      (e.src = .tokioRt m ∨ e.src = .asyncExt m ∨ e.src = .state m) ∨
        HeldIn (afnEdges cb m t a) e.src := by
  intro e he hg
  cases a with
  | none => simp [afnEdges] at he
  | some a =>
    have hmp : HeldIn (afnEdges cb m t (some a)) (.mpsc m t) :=
      ⟨fld (.state m) (.mpsc m t), by simp [afnEdges], rfl⟩
    have he' := he
    unfold afnEdges at he'
    rcases List.mem_cons.mp he' with rfl | he'
    · exact Or.inl (Or.inr (Or.inr rfl))
    rcases List.mem_append.mp he' with hin | hal
    · obtain ⟨⟨k, msg⟩, hk, hmem⟩ := List.mem_flatMap.mp hin
      rcases List.mem_cons.mp hmem with rfl | hm
      · exact Or.inr hmp
      · rw [src_msgEdges _ msg e hm]
        refine Or.inr ⟨fld (.mpsc m t) (.msg (.inbox m k)), ?_, rfl⟩
        unfold afnEdges
        exact List.mem_cons_of_mem _ (List.mem_append_left _
          (List.mem_flatMap.mpr ⟨(k, msg), hk, List.mem_cons_self ..⟩))
    · cases hali : a.alive with
      | false => simp [hali] at hal
      | true =>
        have hts : HeldIn (afnEdges cb m t (some a)) (.taskState m t) :=
          ⟨fld (.tokioRt m) (.taskState m t), by simp [afnEdges, hali], rfl⟩
        simp only [hali, if_true, List.mem_append] at hal
        rcases hal with ((h | h) | h) | h
        · simp [fld] at h
          rcases h with rfl | rfl | rfl | rfl | rfl
          · exact Or.inl (Or.inl rfl)
          · exact Or.inl (Or.inl rfl)
          · exact Or.inl (Or.inr (Or.inl rfl))
          · exact Or.inr hts
          · exact Or.inr hmp
        · cases hs : a.sleeping with
          | none => simp [hs] at h
          | some sl =>
            simp [hs, fld] at h
            rcases h with rfl | rfl
            · exact Or.inr hts
            · simp [good] at hg
        · cases cb
          · simp at h
          · simp [fld] at h; subst h; exact Or.inr hts
        · obtain ⟨⟨k, msg⟩, hk, hmem⟩ := List.mem_flatMap.mp h
          rcases List.mem_cons.mp hmem with rfl | hm
          · exact Or.inr hts
          · rw [src_msgEdges _ msg e hm]
            refine Or.inr ⟨fld (.taskState m t) (.msg (.held m k)), ?_, rfl⟩
            unfold afnEdges
            refine List.mem_cons_of_mem _ (List.mem_append_right _ ?_)
            simp only [hali, if_true, List.mem_append]
            exact Or.inr (List.mem_flatMap.mpr ⟨(k, msg), hk, List.mem_cons_self ..⟩)

theorem held_modEdges (d : Desc) (m : Nat) (md : ModD) :
    ∀ e ∈ modEdges d m md, good e.src = true →
      (e.src = .tree ∨ ∃ p, p < m ∧ e.src = .ctx p) ∨ HeldIn (modEdges d m md) e.src := by
  intro e he hg
  have h1 : HeldIn (modEdges d m md) (.ctx m) := ⟨fld .tree (.ctx m), by simp [modEdges, modRefEdges], rfl⟩
  have h2 : HeldIn (modEdges d m md) (.proc m) := ⟨fld .tree (.proc m), by simp [modEdges, modRefEdges], rfl⟩
  have h3 : HeldIn (modEdges d m md) (.state m) := ⟨fld (.proc m) (.state m), by simp [modEdges], rfl⟩
  have h4 : HeldIn (modEdges d m md) (.asyncExt m) := ⟨fld (.ctx m) (.asyncExt m), by simp [modEdges], rfl⟩
  have h5 : HeldIn (modEdges d m md) (.driver m) := ⟨fld (.asyncExt m) (.driver m), by simp [modEdges], rfl⟩
  unfold modEdges at he
  simp only [List.mem_append] at he
  rcases he with (((((((he | he) | he) | he) | he) | he) | he) | he) | he
  · simp [modRefEdges, fld] at he
    rcases he with rfl | rfl <;> exact Or.inl (Or.inl rfl)
  · cases hp : md.parent with
    | none => simp [hp] at he
    | some p =>
      simp only [hp] at he
      split at he
      · rename_i hlt
        rcases List.mem_append.mp he with he | he
        · simp [modRefEdges, fld] at he
          rcases he with rfl | rfl <;> exact Or.inl (Or.inr ⟨p, hlt, rfl⟩)
        · split at he
          · simp [modRefEdges, fld] at he
            rcases he with rfl | rfl <;> exact Or.inr h1
          · simp at he
      · simp at he
  · simp [fld] at he; subst he; exact Or.inr h2
  · simp [fld] at he; obtain ⟨i, _, rfl⟩ := he; exact Or.inr h2
  · simp [fld] at he
    rcases he with rfl | rfl | rfl
    · exact Or.inr h1
    · exact Or.inr h4
    · exact Or.inr h5
  · simp [fld] at he
    obtain ⟨s, _, rfl | rfl⟩ := he <;> simp [good] at hg
  · split at he
    · rename_i hrun
      have h6 : HeldIn (modEdges d m md) (.tokioRt m) :=
        ⟨fld (.asyncExt m) (.tokioRt m), by simp [modEdges, hrun], rfl⟩
      rcases List.mem_cons.mp he with rfl | ht
      · exact Or.inr h4
      · rcases List.mem_append.mp ht with ht | ha
        · obtain ⟨⟨t, td⟩, hin, hmem⟩ := List.mem_flatMap.mp ht
          rcases held_taskEdges m t td e hmem hg with (h | h | h) | h
          · rw [h]; exact Or.inr h6
          · rw [h]; exact Or.inr h4
          · rw [h]; exact Or.inr h3
          · refine Or.inr (h.mono fun x hx => ?_)
            simp only [modEdges, List.mem_append, hrun, if_true]
            exact Or.inl (Or.inl (Or.inr (List.mem_cons_of_mem _ (List.mem_append_left _
              (List.mem_flatMap.mpr ⟨(t, td), hin, hx⟩)))))
        · rcases held_afnEdges _ m _ _ e ha hg with (h | h | h) | h
          · rw [h]; exact Or.inr h6
          · rw [h]; exact Or.inr h4
          · rw [h]; exact Or.inr h3
          · refine Or.inr (h.mono fun x hx => ?_)
            simp only [modEdges, List.mem_append, hrun, if_true]
            exact Or.inl (Or.inl (Or.inr (List.mem_cons_of_mem _ (List.mem_append_right _ hx))))
    · simp at he
  · obtain ⟨⟨k, msg⟩, hin, hmem⟩ := List.mem_flatMap.mp he
    rcases List.mem_cons.mp hmem with rfl | ht
    · exact Or.inr h3
    · rw [src_msgEdges _ msg e ht]
      refine Or.inr ⟨fld (.state m) (.msg (.kept m k)), ?_, rfl⟩
      simp only [modEdges, List.mem_append]
      exact Or.inl (Or.inr (List.mem_flatMap.mpr ⟨(k, msg), hin, List.mem_cons_self ..⟩))
  · simp [fld] at he
    obtain ⟨g, o, _, rfl⟩ := he
    exact Or.inr h1


theorem held_queueEdges (kc : Bool) (c : Nat) (f : Bool) (ep : Nat) (q : List MsgD) :
    ∀ e ∈ queueEdges kc c f ep q, e.src = .chan c f ∨ HeldIn (queueEdges kc c f ep q) e.src := by
  intro e he
  have he' := he
  unfold queueEdges at he'
  obtain ⟨⟨k, msg⟩, hin, hmem⟩ := List.mem_flatMap.mp he'
  have hsub : ∀ x, x ∈ ([fld (.chan c f) (.bufEntry c f k), fld (.bufEntry c f k) (.msg (.queue c f k)),
      fld (.bufEntry c f k) (.conn (.queue c f k)), fld (.conn (.queue c f k)) (.gate ep)] ++
      (if kc then [fld (.conn (.queue c f k)) (.chan c f)] else []) ++ msgEdges (.queue c f k) msg) →
      x ∈ queueEdges kc c f ep q := fun x hx => by
    unfold queueEdges
    exact List.mem_flatMap.mpr ⟨(k, msg), hin, hx⟩
  have hb : HeldIn (queueEdges kc c f ep q) (.bufEntry c f k) :=
    ⟨fld (.chan c f) (.bufEntry c f k), hsub _ (by simp), rfl⟩
  have hc : HeldIn (queueEdges kc c f ep q) (.conn (.queue c f k)) :=
    ⟨fld (.bufEntry c f k) (.conn (.queue c f k)), hsub _ (by simp), rfl⟩
  have hm : HeldIn (queueEdges kc c f ep q) (.msg (.queue c f k)) :=
    ⟨fld (.bufEntry c f k) (.msg (.queue c f k)), hsub _ (by simp), rfl⟩
  simp only [List.mem_append] at hmem
  rcases hmem with (h | h) | h
  · simp [fld] at h
    rcases h with rfl | rfl | rfl | rfl
    · exact Or.inl rfl
    · exact Or.inr hb
    · exact Or.inr hb
    · exact Or.inr hc
  · cases kc
    · simp at h
    · simp [fld] at h; subst h; exact Or.inr hc
  · rw [src_msgEdges _ msg e h]; exact Or.inr hm

theorem held_linkEdges (d : Desc) (c : Nat) (l : LinkD) :
    ∀ e ∈ linkEdges d c l, (d.validGate l.a = true ∧ d.validGate l.b = true) ∧
      ((e.src = .gate l.a ∨ e.src = .gate l.b) ∨ HeldIn (linkEdges d c l) e.src) := by
  intro e he
  unfold linkEdges at he
  split at he
  · rename_i hv
    simp only [Bool.and_eq_true] at hv
    refine ⟨hv, ?_⟩
    simp only [List.mem_append] at he
    rcases he with he | he
    · simp at he
      rcases he with rfl | rfl
      · exact Or.inl (Or.inl rfl)
      · exact Or.inl (Or.inr rfl)
    · cases hch : l.chan with
      | false => simp [hch] at he
      | true =>
        simp only [hch, if_true, List.mem_append] at he
        have hct : HeldIn (linkEdges d c l) (.chan c true) :=
          ⟨⟨.gate l.a, .chan c true, .chan c⟩, by simp [linkEdges, hv, hch], rfl⟩
        have hcf : HeldIn (linkEdges d c l) (.chan c false) :=
          ⟨⟨.gate l.b, .chan c false, .chan c⟩, by simp [linkEdges, hv, hch], rfl⟩
        rcases he with (he | he) | he
        · simp [fld] at he
          rcases he with rfl | rfl | rfl | rfl
          · exact Or.inl (Or.inl rfl)
          · exact Or.inl (Or.inr rfl)
          · exact Or.inr hct
          · exact Or.inr hcf
        · rcases held_queueEdges _ _ _ _ _ e he with h | h
          · rw [h]; exact Or.inr hct
          · refine Or.inr (h.mono fun x hx => ?_)
            simp only [linkEdges, hv, Bool.and_self, if_true, hch, List.mem_append]
            exact Or.inr (Or.inl (Or.inr hx))
        · rcases held_queueEdges _ _ _ _ _ e he with h | h
          · rw [h]; exact Or.inr hcf
          · refine Or.inr (h.mono fun x hx => ?_)
            simp only [linkEdges, hv, Bool.and_self, if_true, hch, List.mem_append]
            exact Or.inr (Or.inr hx)
  · simp at he


/-! ### connection slots only occur in `linkEdges` -/

def noConn (e : Edge NId) : Bool := !e.isConn

theorem noConn_fld (a b : NId) : noConn (fld a b) = true := rfl

theorem noConn_msgEdges (l : Loc) (m : MsgD) : (msgEdges l m).all noConn = true := by
  unfold msgEdges
  cases m.body <;> cases m.lastGate <;> simp [noConn_fld]

theorem noConn_evEdges (l : Loc) (e : EvD) : (evEdges l e).all noConn = true := by
  cases e with
  | handle m msg => simp [evEdges, modRefEdges, noConn_fld, noConn_msgEdges]
  | exiting g ch msg => cases ch <;> simp [evEdges, noConn_fld, noConn_msgEdges]
  | unbusy c f => simp [evEdges, noConn_fld]
  | restart m => simp [evEdges, modRefEdges, noConn_fld]
  | wakeup m => simp [evEdges, modRefEdges, noConn_fld]

theorem noConn_evSet (owner : NId) (mk : Nat → Loc) (evs : List EvD) :
    (evSetEdges owner mk evs).all noConn = true := by
  unfold evSetEdges
  rw [List.all_flatMap, List.all_eq_true]
  rintro ⟨k, e⟩ _
  simp [noConn_fld, noConn_evEdges]

theorem noConn_taskEdges (m t : Nat) (td : TaskD) : (taskEdges m t td).all noConn = true := by
  obtain ⟨w, j⟩ := td
  cases j <;> cases w with
  | sleep s => simp [taskEdges, noConn_fld]; rfl
  | recv b => cases b <;> simp [taskEdges, noConn_fld]

theorem noConn_afnEdges (cb : Bool) (m t : Nat) (a : Option AfnD) :
    (afnEdges cb m t a).all noConn = true := by
  cases a with
  | none => simp [afnEdges]
  | some a =>
    unfold afnEdges
    simp only [List.all_cons, List.all_append, noConn_fld, Bool.true_and, Bool.and_eq_true]
    constructor
    · rw [List.all_flatMap, List.all_eq_true]
      rintro ⟨k, msg⟩ _
      simp [noConn_fld, noConn_msgEdges]
    · cases a.alive
      · simp
      · simp only [if_true, List.all_append, Bool.and_eq_true]
        refine ⟨⟨⟨by simp [noConn_fld], ?_⟩, by cases cb <;> simp [noConn_fld]⟩, ?_⟩
        · cases a.sleeping
          · simp
          · simp [noConn_fld]; rfl
        · rw [List.all_flatMap, List.all_eq_true]
          rintro ⟨k, msg⟩ _
          simp [noConn_fld, noConn_msgEdges]

theorem noConn_modEdges (d : Desc) (m : Nat) (md : ModD) : (modEdges d m md).all noConn = true := by
  unfold modEdges
  simp only [List.all_append, Bool.and_eq_true]
  refine ⟨⟨⟨⟨⟨⟨⟨⟨?_, ?_⟩, ?_⟩, ?_⟩, ?_⟩, ?_⟩, ?_⟩, ?_⟩, ?_⟩
  · simp [modRefEdges, noConn_fld]
  · cases md.parent with
    | none => simp
    | some p =>
      simp only
      split
      · simp only [List.all_append, Bool.and_eq_true]
        refine ⟨by simp [modRefEdges, noConn_fld], ?_⟩
        split <;> simp [modRefEdges, noConn_fld]
      · simp
  · simp [noConn_fld]
  · simp [List.all_map, noConn_fld]
  · simp [noConn_fld]
  · simp [List.all_flatMap, noConn_fld]
  · split
    · simp only [List.all_cons, noConn_fld, Bool.true_and, List.all_append, List.all_flatMap,
        noConn_afnEdges, Bool.and_true]
      rw [List.all_eq_true]
      rintro ⟨t, td⟩ _
      exact noConn_taskEdges m t td
    · simp
  · rw [List.all_flatMap, List.all_eq_true]
    rintro ⟨k, msg⟩ _
    simp [noConn_fld, noConn_msgEdges]
  · simp [List.all_map, noConn_fld]

theorem noConn_queueEdges (kc : Bool) (c : Nat) (f : Bool) (ep : Nat) (q : List MsgD) :
    (queueEdges kc c f ep q).all noConn = true := by
  unfold queueEdges
  rw [List.all_flatMap, List.all_eq_true]
  rintro ⟨k, msg⟩ _
  cases kc <;> simp [noConn_fld, noConn_msgEdges]

/-- the connection slots of a link: they start at one of its two gates and end at a gate or a channel -/
theorem conn_linkEdges (d : Desc) (c : Nat) (l : LinkD) :
    ∀ e ∈ linkEdges d c l, e.isConn = true →
      (e.src = .gate l.a ∨ e.src = .gate l.b) ∧ 30 + 10 * d.mods.length + 1 ≤ rank d e.tgt := by
  intro e he hc
  unfold linkEdges at he
  split at he
  · simp only [List.mem_append] at he
    rcases he with he | he
    · simp at he
      rcases he with rfl | rfl <;> simp [rank]
    · cases hch : l.chan with
      | false => simp [hch] at he
      | true =>
        simp only [hch, if_true, List.mem_append] at he
        rcases he with (he | he) | he
        · simp [fld] at he
          rcases he with rfl | rfl | rfl | rfl
          · simp [rank]
          · simp [rank]
          · simp [Edge.isConn, Via.isConn, Via.slot?] at hc
          · simp [Edge.isConn, Via.isConn, Via.slot?] at hc
        · have := List.all_eq_true.mp (noConn_queueEdges _ _ _ _ _) e he
          simp [noConn, hc] at this
        · have := List.all_eq_true.mp (noConn_queueEdges _ _ _ _ _) e he
          simp [noConn, hc] at this
  · simp at he


/-! ### the whole graph -/

theorem sub_mod (d : Desc) (m : Nat) (md : ModD) (hin : (m, md) ∈ enum d.mods) :
    ∀ e ∈ modEdges d m md, e ∈ mkEdges d := by
  intro e he
  simp only [mkEdges, List.mem_append]
  exact Or.inl (Or.inr (List.mem_flatMap.mpr ⟨(m, md), hin, he⟩))

theorem sub_link (d : Desc) (c : Nat) (l : LinkD) (hin : (c, l) ∈ enum d.links) :
    ∀ e ∈ linkEdges d c l, e ∈ mkEdges d := by
  intro e he
  simp only [mkEdges, List.mem_append]
  exact Or.inr (List.mem_flatMap.mpr ⟨(c, l), hin, he⟩)

theorem held_tree (d : Desc) : HeldIn (mkEdges d) .tree :=
  ⟨fld .sim .tree, by simp [mkEdges], rfl⟩

/-- every module context of the description is held by the module tree -/
theorem held_ctx (d : Desc) (p : Nat) (hp : p < d.mods.length) :
    (fld .tree (.ctx p)) ∈ mkEdges d := by
  have hin : (p, d.mods[p]) ∈ enum d.mods := (mem_enum _ _ _).mpr (List.getElem?_eq_getElem hp)
  exact sub_mod d p _ hin _ (by simp [modEdges, modRefEdges])

/-- a gate that `mkEdges` accepts in a link is registered in the `gates` of its owner's context -/
theorem owner_edge (d : Desc) (g : Nat) (hv : d.validGate g = true) :
    ∃ o, o < d.mods.length ∧ (fld (.ctx o) (.gate g)) ∈ mkEdges d := by
  unfold Desc.validGate at hv
  cases hg : d.gates[g]? with
  | none => simp [hg] at hv
  | some o =>
    simp [hg] at hv
    refine ⟨o, hv, ?_⟩
    have hin : (o, d.mods[o]) ∈ enum d.mods := (mem_enum _ _ _).mpr (List.getElem?_eq_getElem hv)
    refine sub_mod d o _ hin _ ?_
    simp only [modEdges, List.mem_append]
    refine Or.inr (List.mem_map.mpr ⟨(g, o), ?_, rfl⟩)
    rw [List.mem_filter]
    refine ⟨(mem_enum _ _ _).mpr hg, ?_⟩
    simp [Desc.validGate, hg, hv]

theorem held_gate (d : Desc) (g : Nat) (hv : d.validGate g = true) : HeldIn (mkEdges d) (.gate g) := by
  obtain ⟨o, _, h⟩ := owner_edge d g hv
  exact ⟨_, h, rfl⟩

/-- **every holder is a root or is itself held** -/
theorem held_mkEdges (d : Desc) :
    ∀ e ∈ mkEdges d, good e.src = true → e.src ∈ roots ∨ HeldIn (mkEdges d) e.src := by
  intro e he hg
  have hsim : HeldIn (mkEdges d) .sim := ⟨fld .runtime .sim, by simp [mkEdges], rfl⟩
  have he' := he
  simp only [mkEdges, List.mem_append] at he'
  rcases he' with ((((hs | hs) | hs) | hs) | hs) | hs
  · simp [fld] at hs
    rcases hs with rfl | rfl | rfl | rfl | rfl | rfl
    · exact Or.inl (by simp [roots])
    · exact Or.inl (by simp [roots])
    · exact Or.inr hsim
    · exact Or.inr hsim
    · exact Or.inr ⟨fld .sim .globals, by simp [mkEdges], rfl⟩
    · exact Or.inr hsim
  · rcases held_evSet _ _ _ e hs with h | h
    · rw [h]; exact Or.inr ⟨fld .runtime .fesSet, by simp [mkEdges], rfl⟩
    · refine Or.inr (h.mono fun x hx => ?_)
      simp only [mkEdges, List.mem_append]
      exact Or.inl (Or.inl (Or.inl (Or.inl (Or.inr hx))))
  · rcases held_evSet _ _ _ e hs with h | h
    · rw [h]; exact Or.inl (by simp [roots])
    · refine Or.inr (h.mono fun x hx => ?_)
      simp only [mkEdges, List.mem_append]
      exact Or.inl (Or.inl (Or.inl (Or.inr hx)))
  · rcases held_evSet _ _ _ e hs with h | h
    · rw [h]; exact Or.inr ⟨fld .sim .statics, by simp [mkEdges], rfl⟩
    · refine Or.inr (h.mono fun x hx => ?_)
      simp only [mkEdges, List.mem_append]
      exact Or.inl (Or.inl (Or.inr hx))
  · obtain ⟨⟨m, md⟩, hin, hmem⟩ := List.mem_flatMap.mp hs
    have hm : m < d.mods.length := (List.getElem?_eq_some_iff.mp ((mem_enum _ _ _).mp hin)).1
    rcases held_modEdges d m md e hmem hg with (h | ⟨p, hp, h⟩) | h
    · rw [h]; exact Or.inr (held_tree d)
    · rw [h]; exact Or.inr ⟨_, held_ctx d p (by omega), rfl⟩
    · exact Or.inr (h.mono (sub_mod d m md hin))
  · obtain ⟨⟨c, l⟩, hin, hmem⟩ := List.mem_flatMap.mp hs
    obtain ⟨hv, h⟩ := held_linkEdges d c l e hmem
    rcases h with (h | h) | h
    · rw [h]; exact Or.inr (held_gate d _ hv.1)
    · rw [h]; exact Or.inr (held_gate d _ hv.2)
    · exact Or.inr (h.mono (sub_link d c l hin))

/-- **every connection slot belongs to a gate that a module context of smaller rank holds in its `gates`** -/
theorem conn_mkEdges (d : Desc) :
    ∀ e ∈ mkEdges d, e.isConn = true →
      nidSem.isGate e.src = true ∧ ∃ o, (fld (.ctx o) e.src) ∈ mkEdges d ∧
        rank d (.ctx o) < rank d e.tgt := by
  intro e he hc
  have nc : ∀ L : List (Edge NId), L.all noConn = true → e ∈ L → False := by
    intro L hL hin
    have := List.all_eq_true.mp hL e hin
    simp [noConn, hc] at this
  simp only [mkEdges, List.mem_append] at he
  rcases he with ((((hs | hs) | hs) | hs) | hs) | hs
  · exact (nc _ (by simp [noConn_fld]) hs).elim
  · exact (nc _ (noConn_evSet _ _ _) hs).elim
  · exact (nc _ (noConn_evSet _ _ _) hs).elim
  · exact (nc _ (noConn_evSet _ _ _) hs).elim
  · obtain ⟨⟨m, md⟩, _, hmem⟩ := List.mem_flatMap.mp hs
    exact (nc _ (noConn_modEdges d m md) hmem).elim
  · obtain ⟨⟨c, l⟩, hin, hmem⟩ := List.mem_flatMap.mp hs
    obtain ⟨hv, _⟩ := held_linkEdges d c l e hmem
    obtain ⟨hsrc, hr⟩ := conn_linkEdges d c l e hmem hc
    have key : ∀ g, d.validGate g = true → e.src = .gate g →
        nidSem.isGate e.src = true ∧ ∃ o, (fld (.ctx o) e.src) ∈ mkEdges d ∧
          rank d (.ctx o) < rank d e.tgt := by
      intro g hvg hs
      obtain ⟨o, ho, hin⟩ := owner_edge d g hvg
      rw [hs]
      refine ⟨rfl, o, hin, ?_⟩
      have : rank d (.ctx o) = 20 + 10 * min o d.mods.length := rfl
      rw [this]
      have : min o d.mods.length = o := by omega
      omega
    rcases hsrc with h | h
    · exact key _ hv.1 h
    · exact key _ hv.2 h

/-- **`wired d` holds for every description** -/
theorem wired_all (d : Desc) : wired d = true := by
  unfold wired
  rw [List.all_eq_true]
  intro e he
  simp only [Bool.and_eq_true, Bool.or_eq_true, Bool.not_eq_true']
  constructor
  · cases hg : good e.src with
    | false => exact Or.inl (Or.inl rfl)
    | true =>
      rcases held_mkEdges d e he hg with h | ⟨e', he', ht⟩
      · exact Or.inl (Or.inr (by simpa using h))
      · exact Or.inr (List.any_eq_true.mpr ⟨e', he', by simpa using ht⟩)
  · cases hc : e.isConn with
    | false => exact Or.inl rfl
    | true =>
      obtain ⟨hgate, o, hin, hr⟩ := conn_mkEdges d e he hc
      refine Or.inr ⟨hgate, List.any_eq_true.mpr ⟨_, hin, ?_⟩⟩
      simp [fld, nidSem, hr]

end Own

/-
What a callback of `Model/Net.lean` can put into the observation trace, and how the observations
are tied to the kernel-visible results of the callback (shutdown request, panic flag, joined
task panics).
-/
import Desverif.Model.Net
namespace Net

def isDwn (o : Obs) : Bool := o.kind == .dwn
def isPan (o : Obs) : Bool := o.kind == .pan
/-- a panic of a callback (handler, start stage, `at_sim_end`) -/
def isCbPan (o : Obs) : Bool := o.kind == .pan && o.a == some 0
/-- a panic of a task whose handle was given to `try_join` -/
def isJoinPan (o : Obs) : Bool := o.kind == .pan && o.a == some 1 && o.b == some 1
def isStart (o : Obs) : Bool := o.kind == .start
def isReset (o : Obs) : Bool := o.kind == .reset

/-- an observation made by a scripted action -/
structure ActObs (env : Env) (inTask join : Bool) (o : Obs) : Prop where
  mod : o.mod = env.mi
  time : o.time = env.now
  kind : o.kind = .snd ∨ o.kind = .sch ∨ o.kind = .dwn ∨ o.kind = .pan ∨ o.kind = .log
  panA : o.kind = .pan → o.a = some (if inTask then 1 else 0)
  panB : o.kind = .pan → o.b = some (if join then 1 else 0)

theorem runAction_spec (env : Env) (it j : Bool) (es : ES) (a : Action) :
    ∃ l, (runAction env it j es a).1.obs = es.obs ++ l ∧ (∀ o ∈ l, ActObs env it j o) ∧
      (runAction env it j es a).1.req.isSome = (es.req.isSome || l.any isDwn) ∧
      l.countP isPan = (if (runAction env it j es a).2 then 1 else 0) := by
  cases a with
  | send dst delay id =>
    simp only [runAction]
    split
    · exact ⟨[], by simp⟩
    · refine ⟨[⟨env.mi, .snd, some id, some (serialOf env.mi es.nextSerial), env.now⟩], ?_⟩
      have hobs : ∀ o ∈ [(⟨env.mi, .snd, some id, some (serialOf env.mi es.nextSerial), env.now⟩ : Obs)],
          ActObs env it j o := by
        intro o ho
        simp only [List.mem_singleton] at ho
        subst ho
        exact ⟨rfl, rfl, Or.inl rfl, by simp, by simp⟩
      split
      · split <;> exact ⟨rfl, hobs, by simp [isDwn], by simp [isPan]⟩
      · exact ⟨rfl, hobs, by simp [isDwn], by simp [isPan]⟩
  | sched delay id =>
    refine ⟨[⟨env.mi, .sch, some id, some (serialOf env.mi es.nextSerial), env.now⟩], rfl, ?_, by simp [runAction, isDwn], by simp [runAction, isPan]⟩
    intro o ho
    simp only [List.mem_singleton] at ho
    subst ho
    exact ⟨rfl, rfl, Or.inr (Or.inl rfl), by simp, by simp⟩
  | spawn tag sleep join loc must =>
    simp only [runAction]
    split <;> exact ⟨[], by simp⟩
  | shutdown =>
    refine ⟨[⟨env.mi, .dwn, none, none, env.now⟩], rfl, ?_, by simp [runAction, isDwn], by simp [runAction, isPan]⟩
    intro o ho
    simp only [List.mem_singleton] at ho
    subst ho
    exact ⟨rfl, rfl, Or.inr (Or.inr (Or.inl rfl)), by simp, by simp⟩
  | restartIn d =>
    refine ⟨[⟨env.mi, .dwn, some (env.now + d), none, env.now⟩], rfl, ?_, by simp [runAction, isDwn], by simp [runAction, isPan]⟩
    intro o ho
    simp only [List.mem_singleton] at ho
    subst ho
    exact ⟨rfl, rfl, Or.inr (Or.inr (Or.inl rfl)), by simp, by simp⟩
  | restartAt t =>
    refine ⟨[⟨env.mi, .dwn, some t, none, env.now⟩], rfl, ?_, by simp [runAction, isDwn], by simp [runAction, isPan]⟩
    intro o ho
    simp only [List.mem_singleton] at ho
    subst ho
    exact ⟨rfl, rfl, Or.inr (Or.inr (Or.inl rfl)), by simp, by simp⟩
  | panic =>
    refine ⟨[⟨env.mi, .pan, some (if it then 1 else 0), some (if j then 1 else 0), env.now⟩], rfl, ?_, by simp [runAction, isDwn], by simp [runAction, isPan]⟩
    intro o ho
    simp only [List.mem_singleton] at ho
    subst ho
    exact ⟨rfl, rfl, Or.inr (Or.inr (Or.inr (Or.inl rfl))), by simp, by simp⟩
  | rpanic =>
    simp only [runAction]
    split
    · exact ⟨[], by simp⟩
    · refine ⟨[⟨env.mi, .pan, some (if it then 1 else 0), some (if j then 1 else 0), env.now⟩], rfl, ?_, by simp [isDwn], by simp [isPan]⟩
      intro o ho
      simp only [List.mem_singleton] at ho
      subst ho
      exact ⟨rfl, rfl, Or.inr (Or.inr (Or.inr (Or.inl rfl))), by simp, by simp⟩
  | log n =>
    refine ⟨[⟨env.mi, .log, some n, none, env.now⟩], rfl, ?_, by simp [runAction, isDwn], by simp [runAction, isPan]⟩
    intro o ho
    simp only [List.mem_singleton] at ho
    subst ho
    exact ⟨rfl, rfl, Or.inr (Or.inr (Or.inr (Or.inr rfl))), by simp, by simp⟩

theorem runActions_spec (env : Env) (it j : Bool) (acts : List Action) : ∀ (es : ES),
    ∃ l, (runActions env it j acts es).1.obs = es.obs ++ l ∧ (∀ o ∈ l, ActObs env it j o) ∧
      (runActions env it j acts es).1.req.isSome = (es.req.isSome || l.any isDwn) ∧
      l.countP isPan = (if (runActions env it j acts es).2 then 1 else 0) := by
  induction acts with
  | nil => intro es; exact ⟨[], by simp [runActions]⟩
  | cons a rest ih =>
    intro es
    obtain ⟨l1, h1, h2, h3, h4⟩ := runAction_spec env it j es a
    unfold runActions
    by_cases hp : (runAction env it j es a).2 = true
    · simp only [hp, if_true]
      exact ⟨l1, h1, h2, h3, by simpa [hp] using h4⟩
    · have hp' : (runAction env it j es a).2 = false := by simpa using hp
      simp only [hp', Bool.false_eq_true, if_false]
      obtain ⟨l2, g1, g2, g3, g4⟩ := ih (runAction env it j es a).1
      refine ⟨l1 ++ l2, ?_, ?_, ?_, ?_⟩
      · rw [g1, h1, List.append_assoc]
      · intro o ho
        rcases List.mem_append.mp ho with ho | ho
        · exact h2 o ho
        · exact g2 o ho
      · rw [g3, h3, List.any_append, Bool.or_assoc]
      · rw [List.countP_append, g4, h4]; simp [hp']

/-- an observation made while the woken tasks run: the task's own line, or one of its actions -/
def TaskObs (env : Env) (o : Obs) : Prop :=
  (o.mod = env.mi ∧ o.time = env.now ∧ o.kind = .task) ∨ ∃ j, ActObs env true j o

theorem runTasks_spec (env : Env) (prog : Prog) (ts : List Task) : ∀ (es : ES),
    ∃ l, (runTasks env prog ts es).1.obs = es.obs ++ l ∧ (∀ o ∈ l, TaskObs env o) ∧
      (runTasks env prog ts es).1.req.isSome = (es.req.isSome || l.any isDwn) ∧
      l.countP isJoinPan = (runTasks env prog ts es).2 := by
  induction ts with
  | nil => intro es; exact ⟨[], by simp [runTasks]⟩
  | cons t rest ih =>
    intro es
    unfold runTasks
    let es1 : ES := { es with obs := es.obs ++ [(⟨env.mi, .task, some t.tag, none, env.now⟩ : Obs)] }
    obtain ⟨l1, h1, h2, h3, h4⟩ := runActions_spec env true t.join (prog.onTask t.tag) es1
    let es2 : ES := { (runActions env true t.join (prog.onTask t.tag) es1).1 with
      spawned := demote es.spawned.length t.loc (runActions env true t.join (prog.onTask t.tag) es1).1.spawned,
      must := match t.mid with
        | some i => (runActions env true t.join (prog.onTask t.tag) es1).1.must.set i
            (if (runActions env true t.join (prog.onTask t.tag) es1).2 then HState.paniced else HState.done)
        | none => (runActions env true t.join (prog.onTask t.tag) es1).1.must }
    have e2o : es2.obs = (runActions env true t.join (prog.onTask t.tag) es1).1.obs := rfl
    have e2r : es2.req = (runActions env true t.join (prog.onTask t.tag) es1).1.req := rfl
    obtain ⟨l2, g1, g2, g3, g4⟩ := ih es2
    refine ⟨[(⟨env.mi, .task, some t.tag, none, env.now⟩ : Obs)] ++ l1 ++ l2, ?_, ?_, ?_, ?_⟩
    · show (runTasks env prog rest es2).1.obs = _
      rw [g1, e2o, h1]; simp [es1]
    · intro o ho
      simp only [List.append_assoc, List.mem_append, List.mem_singleton] at ho
      rcases ho with ho | ho | ho
      · subst ho; exact Or.inl ⟨rfl, rfl, rfl⟩
      · exact Or.inr ⟨t.join, h2 o ho⟩
      · exact g2 o ho
    · show (runTasks env prog rest es2).1.req.isSome = _
      rw [g3, e2r, h3]
      have : (OKind.task == OKind.dwn) = false := by decide
      simp [es1, List.any_append, isDwn, Bool.or_assoc, this]
    · show _ = (if (runActions env true t.join (prog.onTask t.tag) es1).2 && t.join then 1 else 0) +
        (runTasks env prog rest es2).2
      rw [← g4]
      simp only [List.countP_append, List.append_assoc]
      have hj : l1.countP isJoinPan = if (runActions env true t.join (prog.onTask t.tag) es1).2 && t.join then 1 else 0 := by
        have hsub : l1.countP isJoinPan = if t.join then l1.countP isPan else 0 := by
          cases htj : t.join with
          | true =>
            simp only [if_true]
            apply List.countP_congr
            intro o ho
            have a := h2 o ho
            simp only [isJoinPan, isPan, Bool.and_eq_true, beq_iff_eq]
            constructor
            · intro h; exact h.1.1
            · intro h
              have ha := a.panA h
              have hb := a.panB h
              simp [htj] at ha hb
              exact ⟨⟨h, ha⟩, hb⟩
          | false =>
            simp only [Bool.false_eq_true, if_false]
            rw [List.countP_eq_zero]
            intro o ho
            have a := h2 o ho
            simp only [isJoinPan, Bool.and_eq_true, beq_iff_eq, not_and]
            intro h
            have hb := a.panB h.1
            simp [htj] at hb
            simp [hb]
        rw [hsub, h4]
        cases t.join <;> simp
      rw [hj]
      simp [isJoinPan]

/-- an observation made by user code of module `env.mi` at `env.now` (not a callback entry line) -/
structure GenObs (env : Env) (o : Obs) : Prop where
  mod : o.mod = env.mi
  time : o.time = env.now
  kind : o.kind = .snd ∨ o.kind = .sch ∨ o.kind = .dwn ∨ o.kind = .pan ∨ o.kind = .log ∨ o.kind = .task

theorem ActObs.gen {env : Env} {it j : Bool} {o : Obs} (h : ActObs env it j o) : GenObs env o :=
  ⟨h.mod, h.time, by rcases h.kind with k | k | k | k | k <;> simp [k]⟩

theorem TaskObs.gen {env : Env} {o : Obs} (h : TaskObs env o) : GenObs env o := by
  rcases h with ⟨a, b, c⟩ | ⟨j, h⟩
  · exact ⟨a, b, by simp [c]⟩
  · exact h.gen

theorem countP_cbPan_act {env : Env} {j : Bool} {l : List Obs} (h : ∀ o ∈ l, ActObs env false j o) :
    l.countP isCbPan = l.countP isPan := by
  apply List.countP_congr
  intro o ho
  have a := h o ho
  simp only [isCbPan, isPan, Bool.and_eq_true, beq_iff_eq]
  constructor
  · intro h; exact h.1
  · intro h; exact ⟨h, by simpa using a.panA h⟩

theorem countP_joinPan_act {env : Env} {j : Bool} {l : List Obs} (h : ∀ o ∈ l, ActObs env false j o) :
    l.countP isJoinPan = 0 := by
  rw [List.countP_eq_zero]
  intro o ho
  have a := h o ho
  simp only [isJoinPan, Bool.and_eq_true, beq_iff_eq, not_and]
  intro hk _
  have := a.panA hk.1
  simp [hk.2] at this

theorem countP_cbPan_task {env : Env} {l : List Obs} (h : ∀ o ∈ l, TaskObs env o) :
    l.countP isCbPan = 0 := by
  rw [List.countP_eq_zero]
  intro o ho
  simp only [isCbPan, Bool.and_eq_true, beq_iff_eq, not_and]
  intro hk ha
  rcases h o ho with ⟨_, _, c⟩ | ⟨j, a⟩
  · simp [c] at hk
  · have := a.panA hk
    simp [ha] at this

/-- what one `Harness::exec` does, in terms of its observations -/
structure ExecSpec (env : Env) (m : ModRt) (es : ES) (r : ExecResult) (pre l : List Obs) : Prop where
  obs : r.es.obs = es.obs ++ pre ++ l
  gen : ∀ o ∈ l, GenObs env o
  req : r.mod.shutdownReq = r.es.req
  dwn : r.es.req.isSome = (es.req.isSome || l.any isDwn)
  pan : l.countP isCbPan = (if r.panicked then 1 else 0)
  join : r.mod.joinPanics = m.joinPanics + l.countP isJoinPan
  prog : r.mod.prog = m.prog
  stages : r.mod.stages = m.stages
  catches : r.mod.catches = m.catches
  active : r.mod.active = m.active

theorem exec_spec (env : Env) (m : ModRt) (entry : Obs) (acts : List Action) (es : ES) :
    ∃ l, ExecSpec env m es (exec env m entry acts es) [entry] l := by
  obtain ⟨la, a1, a2, a3, a4⟩ := runActions_spec env false false acts { es with obs := es.obs ++ [entry] }
  unfold exec
  by_cases hp : (runActions env false false acts { es with obs := es.obs ++ [entry] }).2 = true
  · simp only [hp, if_true]
    refine ⟨la, ⟨by simp [a1], fun o ho => (a2 o ho).gen, rfl, by simpa using a3, ?_, ?_, rfl, rfl, rfl, rfl⟩⟩
    · rw [countP_cbPan_act a2, a4]; simp [hp]
    · simp [countP_joinPan_act a2]
  · have hp' : (runActions env false false acts { es with obs := es.obs ++ [entry] }).2 = false := by simpa using hp
    simp only [hp', Bool.false_eq_true, if_false]
    obtain ⟨lt, t1, t2, t3, t4⟩ := runTasks_spec env m.prog (localsFirst (·.loc) m.ready)
      (runActions env false false acts { es with obs := es.obs ++ [entry] }).1
    refine ⟨la ++ lt, ⟨?_, ?_, rfl, ?_, ?_, ?_, rfl, rfl, rfl, rfl⟩⟩
    · simp [t1, a1]
    · intro o ho
      rcases List.mem_append.mp ho with ho | ho
      · exact (a2 o ho).gen
      · exact (t2 o ho).gen
    · simp only [t3, a3, List.any_append, Bool.or_assoc]
    · rw [List.countP_append, countP_cbPan_act a2, a4, countP_cbPan_task t2]; simp [hp']
    · simp only [List.countP_append, countP_joinPan_act a2, t4, Nat.zero_add]

theorem execIdle_spec (env : Env) (m : ModRt) (es : ES) :
    ∃ l, ExecSpec env m es (execIdle env m es) [] l := by
  obtain ⟨lt, t1, t2, t3, t4⟩ := runTasks_spec env m.prog (localsFirst (·.loc) m.ready) es
  unfold execIdle
  refine ⟨lt, ⟨by simp [t1], fun o ho => (t2 o ho).gen, rfl, by simpa using t3, ?_, ?_, rfl, rfl, rfl, rfl⟩⟩
  · rw [countP_cbPan_task t2]; simp
  · simp [t4]

end Net

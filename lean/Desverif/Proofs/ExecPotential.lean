/-
Termination of the repaired `exec`: `Exec.potential` counts queued, deferred and remaining work; every poll
strictly decreases it (as long as the cooperative budget `C` is at least 1), `flush` keeps it, so every pass that
starts with something runnable decreases it and `potential s` passes are enough for `drain`.
-/
import Desverif.Proofs.ExecMeasure
import Desverif.Proofs.ExecTime
namespace Exec

theorem potential_pushEntry (s : St) (e : Entry) : potential (pushEntry s e) = potential s + 1 := by
  unfold pushEntry potential
  cases e.kind <;> simp only <;> split <;> simp <;> omega

theorem potential_enqueue (s : St) (k : Kind) (i : Nat) : potential (enqueue s k i) = potential s + 1 :=
  potential_pushEntry _ _

theorem potential_defer (s : St) (k : Kind) (i : Nat) : potential (defer s k i) = potential s + 1 := by
  unfold defer potential
  simp only [List.length_append, List.length_cons, List.length_nil]
  omega

theorem potential_addTimer (s : St) (tm : Timer) : potential (addTimer s tm) = potential s := rfl

theorem potential_logAt (s : St) (i r : Nat) (o : Phase) : potential (logAt s i r o) = potential s := rfl

theorem potential_setTask (s : St) (i : Nat) (old new : Task) (h : s.tasks[i]? = some old) :
    potential { s with tasks := s.tasks.set i new } + tw3 old = potential s + tw3 new := by
  have := sum_map_set tw3 s.tasks i new old h
  unfold potential
  simp only
  omega

theorem potential_setCond (s : St) (k : Nat) (old new : Cond) (h : s.conds[k]? = some old) :
    potential { s with conds := s.conds.set k new } + cw old = potential s + cw new := by
  have := sum_map_set cw s.conds k new old h
  unfold potential
  simp only
  omega

theorem potential_spawnTask (s : St) (t : Nat) : potential (spawnTask s t) ≤ potential s + 1 := by
  unfold spawnTask
  split
  · omega
  · rename_i tk h
    split
    · omega
    · rw [potential_enqueue]
      have := potential_setTask s t tk { tk with started := true } h
      have e : tw3 { tk with started := true } = tw3 tk := rfl
      omega

theorem potential_grant (s : St) (wk : Kind) (wi : Nat) : potential (grant s wk wi) ≤ potential s + 1 := by
  unfold grant
  split
  · rw [potential_enqueue]; exact Nat.le_refl _
  · rename_i tk h
    have := potential_setTask s wi tk { tk with granted := true } h
    have e : tw3 { tk with granted := true } = tw3 tk := rfl
    split
    · omega
    · rw [potential_enqueue]; omega

theorem potential_wakeCond (s : St) (k : Nat) : potential (wakeCond s k) ≤ potential s + 1 := by
  unfold wakeCond
  split
  · omega
  · rename_i c hc
    split
    · rename_i hw
      have := potential_setCond s k c { c with permits := if c.cap1 then 1 else c.permits + 1 } hc
      have e : cw { c with permits := if c.cap1 then 1 else c.permits + 1 } = cw c := rfl
      omega
    · rename_i wk wi r hw
      have hg := potential_grant { s with conds := s.conds.set k { c with waiters := r } } wk wi
      have := potential_setCond s k c { c with waiters := r } hc
      have e1 : cw c = r.length + 1 := by unfold cw; rw [hw]; simp
      have e2 : cw { c with waiters := r } = r.length := rfl
      omega

theorem potential_grantAll : ∀ (l : List (Kind × Nat)) (s : St), potential (grantAll l s) ≤ potential s + l.length := by
  intro l
  induction l with
  | nil => intro s; exact Nat.le_refl _
  | cons a l ih =>
    intro s
    obtain ⟨wk, wi⟩ := a
    simp only [grantAll, List.length_cons]
    have h1 := ih (grant s wk wi)
    have h2 := potential_grant s wk wi
    omega

theorem potential_wakeAll (s : St) (k : Nat) : potential (wakeAll s k) ≤ potential s + 1 := by
  unfold wakeAll
  split
  · omega
  · rename_i c hc
    have hg := potential_grantAll c.waiters { s with conds := s.conds.set k { c with waiters := [] } }
    have := potential_setCond s k c { c with waiters := [] } hc
    have e1 : cw c = c.waiters.length := rfl
    have e2 : cw { c with waiters := [] } = 0 := rfl
    omega

theorem potential_removeTimer (s : St) (tm : Timer) : potential (removeTimer s tm) = potential s := rfl

theorem potential_removeWaiter (s : St) (q : Nat) (w : Kind × Nat) : potential (removeWaiter s q w) ≤ potential s := by
  unfold removeWaiter
  split
  · exact Nat.le_refl _
  · rename_i cd hc
    have := potential_setCond s q cd { cd with waiters := cd.waiters.erase w } hc
    have e : cw { cd with waiters := cd.waiters.erase w } ≤ cw cd := by
      unfold cw; exact List.length_erase_le
    omega

theorem potential_setProg (s : St) (i : Nat) (p r : List Instr) (h : TaskAt s i p) :
    potential (setProg s i r) + (p.map iw3).sum = potential s + (r.map iw3).sum := by
  obtain ⟨tk, h1, h2, h3⟩ := h
  unfold setProg
  rw [h1]
  have := potential_setTask s i tk { tk with prog := r } h1
  have e1 : tw3 tk = 1 + (p.map iw3).sum + jw tk := by unfold tw3; simp [h3, h2]
  have e2 : tw3 { tk with prog := r } = 1 + (r.map iw3).sum + jw tk := by unfold tw3; simp [h3]; rfl
  simp only at this ⊢
  omega

theorem potential_finish (s : St) (i : Nat) (p : List Instr) (h : TaskAt s i p) :
    potential (finish s i) ≤ potential s := by
  obtain ⟨tk, h1, h2, h3⟩ := h
  unfold finish
  rw [h1]
  have := potential_setTask s i tk { tk with done := true, prog := [] } h1
  have e1 : 1 + jw tk ≤ tw3 tk := by unfold tw3; simp [h3]
  have e2 : tw3 { tk with done := true, prog := [] } = 0 := by unfold tw3; simp
  simp only at this ⊢
  split
  · omega
  · rename_i hj
    rw [potential_enqueue]
    have : jw tk = 1 := by unfold jw; simp [hj]
    omega

theorem ite_le_one (p : Prop) [Decidable p] : (if p then 1 else 0) ≤ 1 := by split <;> omega

/-- a poll with cooperative budget left does not increase the potential; with none left it may defer once -/
theorem potential_runProg (k : Kind) (i : Nat) :
    ∀ (p : List Instr) (c rdy : Nat) (org : Phase) (s : St), TaskAt s i p →
      potential (runProg k i p c rdy org s) ≤ potential s + (if c = 0 then 1 else 0) := by
  intro p
  induction p with
  | nil =>
    intro c rdy org s h
    have := potential_finish s i [] h
    simp only [runProg]
    omega
  | cons ins r ih =>
    intro c rdy org s h
    have hs := potential_setProg s i (ins :: r) r h
    have ht := taskAt_setProg s i (ins :: r) r h
    -- consume the instruction, log, continue
    have hcont : ∀ (c' : Nat) (s1 : St), TaskAt s1 i (ins :: r) → potential s1 ≤ potential s → 2 ≤ iw3 ins →
        potential (runProg k i r c' s.now s.phase (logAt (setProg s1 i r) i rdy org)) ≤ potential s := by
      intro c' s1 h1 hm hw
      have hs1 := potential_setProg s1 i (ins :: r) r h1
      have h2 := ih c' s.now s.phase (logAt (setProg s1 i r) i rdy org) (taskAt_setProg s1 i (ins :: r) r h1)
      rw [potential_logAt] at h2
      simp only [List.map_cons, List.sum_cons] at hs1
      have hf := ite_le_one (c' = 0)
      omega
    have hdefer : c = 0 → potential (defer s k i) ≤ potential s + (if c = 0 then 1 else 0) := by
      intro hc; rw [potential_defer]; simp [hc]
    cases ins with
    | spawn t =>
      simp only [runProg]
      have h2 := ih c rdy org _ (taskAt_spawnTask _ t i r ht)
      have h3 := potential_spawnTask (setProg s i r) t
      simp [iw3] at hs
      omega
    | wake q =>
      simp only [runProg]
      have h2 := ih c rdy org _ (taskAt_wakeCond _ q i r ht)
      have h3 := potential_wakeCond (setProg s i r) q
      simp [iw3] at hs
      omega
    | notifyAll q =>
      simp only [runProg]
      have h2 := ih c rdy org _ (taskAt_wakeAll _ q i r ht)
      have h3 := potential_wakeAll (setProg s i r) q
      simp [iw3] at hs
      omega
    | yield =>
      simp only [runProg]
      rw [potential_defer]
      have := potential_setProg s i (.yield :: r) (.resume :: r) h
      simp [iw3] at this
      omega
    | resume =>
      simp only [runProg]
      have := hcont c s h (Nat.le_refl _) (by simp [iw3])
      omega
    | wait q =>
      simp only [runProg]
      split
      · omega
      · rename_i cd hc
        split
        · rename_i hc0
          refine hdefer ?_
          simp only [Bool.and_eq_true, beq_iff_eq] at hc0
          exact hc0.2
        · split
          · have ht' : TaskAt { s with conds := s.conds.set q { cd with waiters := cd.waiters ++ [(k, i)] } } i
                (.wait q :: r) := h
            have h1 := potential_setProg _ i (.wait q :: r) (.waiting q :: r) ht'
            have h2 := potential_setCond s q cd { cd with waiters := cd.waiters ++ [(k, i)] } hc
            have e : cw { cd with waiters := cd.waiters ++ [(k, i)] } = cw cd + 1 := by unfold cw; simp
            simp [iw3] at h1
            omega
          · have ht' : TaskAt { s with conds := s.conds.set q { cd with permits := cd.permits - 1 } } i
                (.wait q :: r) := h
            have h2 := potential_setCond s q cd { cd with permits := cd.permits - 1 } hc
            have e : cw { cd with permits := cd.permits - 1 } = cw cd := rfl
            have := hcont (if cd.coop then c - 1 else c) _ ht' (by omega) (by simp [iw3])
            omega
    | waiting q =>
      simp only [runProg]
      generalize condCoop s q = coop
      split
      · omega
      · rename_i tk htk
        split
        · rename_i hc0
          refine hdefer ?_
          simp only [Bool.and_eq_true, beq_iff_eq] at hc0
          exact hc0.2
        · split
          · have ht' : TaskAt { s with tasks := s.tasks.set i { tk with granted := false } } i (.waiting q :: r) :=
              taskAt_setTask s i i _ tk _ htk rfl rfl h
            have h2 := potential_setTask s i tk { tk with granted := false } htk
            have e : tw3 { tk with granted := false } = tw3 tk := rfl
            have := hcont (if coop then c - 1 else c) _ ht' (by omega) (by simp [iw3])
            omega
          · omega
    | join t =>
      simp only [runProg]
      split
      · omega
      · rename_i tj hj
        split
        · omega
        · split
          · rename_i hc0
            exact hdefer (by simpa using hc0)
          · split
            · have := hcont (c - 1) s h (Nat.le_refl _) (by simp [iw3])
              omega
            · have ht' : TaskAt { s with tasks := s.tasks.set t { tj with joiner := some (k, i) } } i (.join t :: r) :=
                taskAt_setTask s t i _ tj _ hj rfl rfl h
              have h1 := potential_setProg _ i (.join t :: r) (.joining t :: r) ht'
              have h2 := potential_setTask s t tj { tj with joiner := some (k, i) } hj
              have e : tw3 { tj with joiner := some (k, i) } ≤ tw3 tj + 1 := by
                unfold tw3 jw
                simp only
                split
                · omega
                · split <;> simp <;> omega
              simp [iw3] at h1
              omega
    | joining t =>
      simp only [runProg]
      split
      · omega
      · split
        · rename_i hc0
          exact hdefer (by simpa using hc0)
        · split
          · have := hcont (c - 1) s h (Nat.le_refl _) (by simp [iw3])
            omega
          · omega
    | waitT q d =>
      simp only [runProg]
      split
      · omega
      · rename_i cd hc
        split
        · split
          · rw [potential_addTimer]
            have ht' : TaskAt { s with conds := s.conds.set q { cd with waiters := cd.waiters ++ [(k, i)] } } i
                (.waitT q d :: r) := h
            have h1 := potential_setProg _ i (.waitT q d :: r) (.waitingT q (s.now + d) :: r) ht'
            have h2 := potential_setCond s q cd { cd with waiters := cd.waiters ++ [(k, i)] } hc
            have e : cw { cd with waiters := cd.waiters ++ [(k, i)] } = cw cd + 1 := by unfold cw; simp
            simp [iw3] at h1
            omega
          · have := hcont c s h (Nat.le_refl _) (by simp [iw3])
            omega
        · have ht' : TaskAt { s with conds := s.conds.set q { cd with permits := cd.permits - 1 } } i
              (.waitT q d :: r) := h
          have h2 := potential_setCond s q cd { cd with permits := cd.permits - 1 } hc
          have e : cw { cd with permits := cd.permits - 1 } = cw cd := rfl
          have := hcont c _ ht' (by omega) (by simp [iw3])
          omega
    | waitingT q t =>
      simp only [runProg]
      split
      · omega
      · rename_i tk htk
        split
        · have ht' : TaskAt (removeTimer { s with tasks := s.tasks.set i { tk with granted := false } } ⟨t, k, i⟩) i
              (.waitingT q t :: r) := taskAt_setTask s i i _ tk _ htk rfl rfl h
          have h2 := potential_setTask s i tk { tk with granted := false } htk
          have e : tw3 { tk with granted := false } = tw3 tk := rfl
          have e2 : potential (removeTimer { s with tasks := s.tasks.set i { tk with granted := false } } ⟨t, k, i⟩)
              = potential { s with tasks := s.tasks.set i { tk with granted := false } } := rfl
          have := hcont c _ ht' (by omega) (by simp [iw3])
          omega
        · split
          · omega
          · have := hcont c _ (taskAt_removeWaiter s q (k, i) i _ h) (potential_removeWaiter s q (k, i))
              (by simp [iw3])
            omega
    | sleep d =>
      simp only [runProg]
      split
      · rw [potential_addTimer]
        have := potential_setProg s i (.sleep d :: r) (.sleeping (s.now + d) :: r) h
        simp [iw3] at this
        omega
      · have := hcont c s h (Nat.le_refl _) (by simp [iw3])
        omega
    | sleepUntil t =>
      simp only [runProg]
      split
      · rw [potential_addTimer]
        have := potential_setProg s i (.sleepUntil t :: r) (.sleeping t :: r) h
        simp [iw3] at this
        omega
      · have := hcont c s h (Nat.le_refl _) (by simp [iw3])
        omega
    | sleeping t =>
      simp only [runProg]
      split
      · omega
      · have := hcont c s h (Nat.le_refl _) (by simp [iw3])
        omega

theorem potential_markPolled (s : St) (i : Nat) : potential (markPolled s i) = potential s := by
  unfold markPolled
  split
  · rfl
  · rename_i tk h
    have := potential_setTask s i tk { tk with polled := true } h
    have e : tw3 { tk with polled := true } = tw3 tk := rfl
    omega

theorem potential_pollTask (P : Params) (hC : 1 ≤ P.C) (e : Entry) (s : St) :
    potential (pollTask P e s) ≤ potential s := by
  have hc : (if P.C = 0 then 1 else 0) = 0 := by split <;> omega
  unfold pollTask
  split
  · exact Nat.le_refl _
  · rename_i tk h
    split
    · exact Nat.le_refl _
    · rename_i hd
      have hT : TaskAt s e.idx tk.prog := ⟨tk, h, rfl, by simpa using hd⟩
      split
      · have := potential_runProg tk.kind e.idx tk.prog P.C e.ready e.origin s hT
        omega
      · have := potential_runProg tk.kind e.idx tk.prog P.C s.now s.phase
          (logAt (markPolled s e.idx) e.idx e.ready e.origin) (taskAt_markPolled s e.idx _ hT)
        rw [potential_logAt, potential_markPolled] at this
        omega

theorem potential_pop (P : Params) (q : Kind) (s s' : St) (e : Entry) (h : pop P q s = some (e, s')) :
    potential s' + 1 = potential s := by
  rcases pop_some P q s s' e h with ⟨r, h1, rfl⟩ | ⟨r, h1, rfl⟩ | ⟨r, h1, rfl⟩ <;>
    simp [potential, h1] <;> omega

/-- every poll strictly decreases the potential -/
theorem potential_step (P : Params) (hC : 1 ≤ P.C) (q : Kind) (s : St) (x : Entry × St)
    (h : pop P q s = some x) : potential (step P q s) + 1 ≤ potential s := by
  obtain ⟨e, s'⟩ := x
  unfold step
  rw [h]
  have h1 := potential_pollTask P hC e s'
  have h2 := potential_pop P q s s' e h
  have h3 : potential (noteSilent s' (pollTask P e s')) = potential (pollTask P e s') := by
    rcases noteSilent_eq s' (pollTask P e s') with h | h <;> rw [h] <;> rfl
  simp only
  omega

theorem potential_runQ (P : Params) (hC : 1 ≤ P.C) (q : Kind) :
    ∀ (b : Nat) (s : St), potential (runQ P q b s) ≤ potential s := by
  intro b
  induction b with
  | zero => intro s; exact Nat.le_refl _
  | succ b ih =>
    intro s
    cases hq : pop P q s with
    | none => rw [runQ_of_empty P q _ s hq]; exact Nat.le_refl _
    | some x =>
      rw [runQ_cons P q b s x hq]
      have := potential_step P hC q s x hq
      have := ih (step P q s)
      omega

/-- something to pop and a budget of at least one poll: strict decrease -/
theorem potential_runQ_lt (P : Params) (hC : 1 ≤ P.C) (q : Kind) (b : Nat) (s : St) (hb : 1 ≤ b)
    (hq : pop P q s ≠ none) : potential (runQ P q b s) + 1 ≤ potential s := by
  obtain ⟨b', rfl⟩ : ∃ b', b = b' + 1 := ⟨b - 1, by omega⟩
  cases hq' : pop P q s with
  | none => exact absurd hq' hq
  | some x =>
    rw [runQ_cons P q b' s x hq']
    have := potential_step P hC q s x hq'
    have := potential_runQ P hC q b' (step P q s)
    omega

theorem foldl_push_tasks (l : List Entry) (f : Entry → Entry) :
    ∀ s : St, (l.foldl (fun s e => pushEntry s (f e)) s).tasks = s.tasks := by
  induction l with
  | nil => intro s; rfl
  | cons a l ih =>
    intro s
    simp only [List.foldl_cons]
    rw [ih, tasks_pushEntry]

theorem conds_pushEntry (s : St) (e : Entry) : (pushEntry s e).conds = s.conds := by
  unfold pushEntry; cases e.kind <;> simp only <;> split <;> rfl

theorem foldl_push_conds (l : List Entry) (f : Entry → Entry) :
    ∀ s : St, (l.foldl (fun s e => pushEntry s (f e)) s).conds = s.conds := by
  induction l with
  | nil => intro s; rfl
  | cons a l ih =>
    intro s
    simp only [List.foldl_cons]
    rw [ih, conds_pushEntry]

theorem potential_flush (s : St) : potential (flush s) = potential s := by
  have h1 := flush_len s
  have h2 := flush_dq s
  have h3 : (flush s).tasks = s.tasks := by unfold flush; rw [foldl_push_tasks]
  have h4 : (flush s).conds = s.conds := by unfold flush; rw [foldl_push_conds]
  unfold potential
  rw [h2, h3, h4]
  simp only [List.length_nil]
  omega

theorem pass_dq (P : Params) (s : St) : (pass P s).dq = [] := flush_dq _

theorem potential_afterTick (P : Params) (s : St) :
    potential (afterTick P s) = potential (runQ P .loc P.L (tickStart s)) := by
  unfold afterTick
  rw [runQn_eq]
  simp only
  split <;> rfl

theorem potential_afterRt (P : Params) (s : St) :
    potential (afterRt P s) = potential (runQ P .rt P.E (rtStart P s)) := by
  unfold afterRt
  rw [runQn_eq]
  simp only
  split <;> rfl

theorem potential_pass (P : Params) (hC : 1 ≤ P.C) (s : St) : potential (pass P s) ≤ potential s := by
  unfold pass
  rw [potential_flush, potential_afterRt]
  have h1 := potential_runQ P hC .loc P.L (tickStart s)
  have h2 := potential_runQ P hC .rt P.E (rtStart P s)
  have e1 : potential (tickStart s) = potential s := rfl
  have e2 : potential (rtStart P s) = potential (afterTick P s) := rfl
  rw [potential_afterTick] at e2
  omega

/-- a pass that starts with something runnable strictly decreases the potential -/
theorem potential_pass_lt (P : Params) (hL : 1 ≤ P.L) (hE : 1 ≤ P.E) (hC : 1 ≤ P.C) (s : St)
    (hne : ¬(s.rq = [] ∧ s.iq = [] ∧ s.lq = [])) : potential (pass P s) + 1 ≤ potential s := by
  unfold pass
  rw [potential_flush, potential_afterRt]
  have h1 := potential_runQ P hC .loc P.L (tickStart s)
  have h2 := potential_runQ P hC .rt P.E (rtStart P s)
  have e1 : potential (tickStart s) = potential s := rfl
  have e2 : potential (rtStart P s) = potential (afterTick P s) := rfl
  rw [potential_afterTick] at e2
  by_cases hl : s.lq = []
  · -- the tick does nothing, the runtime has something to pop
    have hpl : pop P .loc (tickStart s) = none := (pop_none_loc P _).2 hl
    have ht : runQ P .loc P.L (tickStart s) = tickStart s := runQ_of_empty P .loc _ _ hpl
    have hrs : (rtStart P s).rq = s.rq ∧ (rtStart P s).iq = s.iq := by
      unfold rtStart afterTick
      rw [runQn_eq, ht]
      simp only
      split <;> exact ⟨rfl, rfl⟩
    have hr : pop P .rt (rtStart P s) ≠ none := by
      intro h
      have := (pop_none_rt P _).1 h
      rw [hrs.1, hrs.2] at this
      exact hne ⟨this.1, this.2, hl⟩
    have := potential_runQ_lt P hC .rt P.E (rtStart P s) hE hr
    omega
  · have hl' : pop P .loc (tickStart s) ≠ none := fun h => hl ((pop_none_loc P (tickStart s)).1 h)
    have := potential_runQ_lt P hC .loc P.L (tickStart s) hL hl'
    omega

/-- a pass that starts with nothing runnable and nothing deferred leaves the flag alone -/
theorem pass_idle_lflag (P : Params) (hL : 1 ≤ P.L) (s : St)
    (h1 : s.rq = []) (h2 : s.iq = []) (h3 : s.lq = []) (h4 : s.dq = []) : (pass P s).lflag = s.lflag := by
  have hpl : pop P .loc (tickStart s) = none := (pop_none_loc P _).2 h3
  have ht : afterTick P s = tickStart s := by
    unfold afterTick
    rw [runQn_eq, runQ_of_empty P .loc _ _ hpl, polls_of_empty P .loc _ _ hpl]
    simp only
    split
    · rfl
    · omega
  have hpr : pop P .rt (rtStart P s) = none := by
    refine (pop_none_rt P _).2 ?_
    unfold rtStart
    rw [ht]
    exact ⟨h1, h2⟩
  have hr : (afterRt P s).lflag = s.lflag ∧ (afterRt P s).dq = [] := by
    unfold afterRt
    rw [runQn_eq, runQ_of_empty P .rt _ _ hpr, polls_of_empty P .rt _ _ hpr]
    simp only
    unfold rtStart
    rw [ht]
    split <;> exact ⟨rfl, h4⟩
  unfold pass flush
  rw [hr.2]
  simp only [List.reverse_nil, List.foldl_nil]
  exact hr.1

/-- `2 * potential + 1` passes are enough: the drain loop ends with nothing runnable -/
theorem drain_quiet (P : Params) (hL : 1 ≤ P.L) (hE : 1 ≤ P.E) (hC : 1 ≤ P.C) :
    ∀ (n : Nat) (s : St), 2 * potential s + (if s.lflag then 1 else 0) ≤ n → s.dq = [] → FL s →
      Quiet (drain P n s) := by
  intro n
  induction n with
  | zero =>
    intro s hn hd _
    unfold potential at hn
    simp only [drain]
    refine ⟨List.eq_nil_of_length_eq_zero (by omega), List.eq_nil_of_length_eq_zero (by omega),
      List.eq_nil_of_length_eq_zero (by omega), hd⟩
  | succ n ih =>
    intro s hn hd hf
    simp only [drain]
    split
    · rename_i hidle
      simp only [Bool.and_eq_true, Bool.not_eq_true', List.isEmpty_iff] at hidle
      rcases hf with hf | hf
      · exact ⟨hidle.1.2, hidle.2, hf, hd⟩
      · rw [hidle.1.1] at hf; cases hf
    · rename_i hidle
      refine ih _ ?_ (pass_dq P _) (pass_fl P _)
      have hle := potential_pass P hC { s with lflag := false }
      have e0 : potential { s with lflag := false } = potential s := rfl
      have hfl := ite_le_one ((pass P { s with lflag := false }).lflag = true)
      by_cases hq : s.rq = [] ∧ s.iq = [] ∧ s.lq = []
      · -- only the flag was set: this pass finds nothing and leaves the flag cleared
        have hlf : s.lflag = true := by
          cases hb : s.lflag with
          | true => rfl
          | false =>
            exfalso
            apply hidle
            simp [hb, hq.1, hq.2.1]
        have := pass_idle_lflag P hL { s with lflag := false } hq.1 hq.2.1 hq.2.2 hd
        simp only at this
        rw [this]
        simp only [hlf, if_true] at hn
        simp
        omega
      · have := potential_pass_lt P hL hE hC { s with lflag := false } hq
        split at hn <;> omega

/-- the repaired `exec` always ends with nothing runnable -/
theorem exec_quiet (P : Params) (hL : 1 ≤ P.L) (hE : 1 ≤ P.E) (hC : 1 ≤ P.C) (h : List Instr) (s : St) :
    Quiet (exec P h s) := by
  unfold exec
  simp only
  refine drain_quiet P hL hE hC _ _ ?_ (pass_dq P _) (pass_fl P _)
  have := ite_le_one ((turn1 P h s).lflag = true)
  omega

end Exec

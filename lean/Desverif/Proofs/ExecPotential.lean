/-
Termination of the repaired `exec`: `Exec.potential` counts queued, deferred and remaining work; every poll
strictly decreases it (as long as the cooperative budget `C` is at least 1), `flush` keeps it, so every pass that
starts with something runnable decreases it and `potential s` passes are enough for `drain`.
-/
import Desverif.Proofs.ExecMeasure
namespace Exec

theorem potential_pushEntry (s : St) (e : Entry) : potential (pushEntry s e) = potential s + 1 := by
  unfold pushEntry potential
  cases e.kind <;> simp <;> omega

theorem potential_enqueue (s : St) (k : Kind) (i : Nat) : potential (enqueue s k i) = potential s + 1 :=
  potential_pushEntry _ _

theorem potential_defer (s : St) (k : Kind) (i : Nat) : potential (defer s k i) = potential s + 1 := by
  unfold defer potential
  simp only [List.length_append, List.length_cons, List.length_nil]
  omega

theorem potential_logAt (s : St) (i r : Nat) (o : Phase) : potential (logAt s i r o) = potential s := rfl

theorem potential_setTask (s : St) (i : Nat) (old new : Task) (h : s.tasks[i]? = some old) :
    potential { s with tasks := s.tasks.set i new } + tw3 old = potential s + tw3 new := by
  have := sum_map_set tw3 s.tasks i new old h
  unfold potential
  simp only
  omega

theorem potential_spawnTask (s : St) (t : Nat) : potential (spawnTask s t) ≤ potential s + 1 := by
  unfold spawnTask
  split
  · omega
  · rename_i tk h
    split
    · omega
    · rw [potential_enqueue]
      have := potential_setTask s t tk { tk with started := true } h
      have e : tw3 { tk with started := true } = tw3 tk := rfl
      omega

theorem potential_wakeCond (s : St) (k : Nat) : potential (wakeCond s k) ≤ potential s + 1 := by
  unfold wakeCond
  split
  · omega
  · split
    · exact Nat.le_succ _
    · rw [potential_enqueue]; exact Nat.le_refl _

theorem potential_setProg (s : St) (i : Nat) (p r : List Instr) (h : TaskAt s i p) :
    potential (setProg s i r) + (p.map iw3).sum = potential s + (r.map iw3).sum := by
  obtain ⟨tk, h1, h2, h3⟩ := h
  unfold setProg
  rw [h1]
  have := potential_setTask s i tk { tk with prog := r } h1
  have e1 : tw3 tk = 1 + (p.map iw3).sum := by unfold tw3; simp [h3, h2]
  have e2 : tw3 { tk with prog := r } = 1 + (r.map iw3).sum := by unfold tw3; simp [h3]
  simp only at this ⊢
  omega

theorem potential_finish (s : St) (i : Nat) (p : List Instr) (h : TaskAt s i p) :
    potential (finish s i) ≤ potential s := by
  obtain ⟨tk, h1, h2, h3⟩ := h
  unfold finish
  rw [h1]
  have := potential_setTask s i tk { tk with done := true, prog := [] } h1
  have e1 : 1 ≤ tw3 tk := by unfold tw3; simp [h3]
  have e2 : tw3 { tk with done := true, prog := [] } = 0 := by unfold tw3; simp
  simp only at this ⊢
  split
  · omega
  · rw [potential_enqueue]; omega

theorem ite_le_one (p : Prop) [Decidable p] : (if p then 1 else 0) ≤ 1 := by split <;> omega

/-- a poll with cooperative budget left does not increase the potential; with none left it may defer once -/
theorem potential_runProg (k : Kind) (i : Nat) :
    ∀ (p : List Instr) (c rdy : Nat) (org : Phase) (s : St), TaskAt s i p →
      potential (runProg k i p c rdy org s) ≤ potential s + (if c = 0 then 1 else 0) := by
  intro p
  induction p with
  | nil =>
    intro c rdy org s h
    have := potential_finish s i [] h
    simp only [runProg]
    omega
  | cons ins r ih =>
    intro c rdy org s h
    have hs := potential_setProg s i (ins :: r) r h
    have ht := taskAt_setProg s i (ins :: r) r h
    cases ins with
    | spawn t =>
      simp only [runProg]
      have h2 := ih c rdy org _ (taskAt_spawnTask _ t i r ht)
      have h3 := potential_spawnTask (setProg s i r) t
      simp [iw3] at hs
      omega
    | wake q =>
      simp only [runProg]
      have h2 := ih c rdy org _ (taskAt_wakeCond _ q i r ht)
      have h3 := potential_wakeCond (setProg s i r) q
      simp [iw3] at hs
      omega
    | yield =>
      simp only [runProg]
      rw [potential_defer]
      have := potential_setProg s i (.yield :: r) (.resume :: r) h
      simp [iw3] at this
      omega
    | resume =>
      simp only [runProg]
      have h2 := ih c s.now s.phase (logAt (setProg s i r) i rdy org) ht
      rw [potential_logAt] at h2
      simp [iw3] at hs
      omega
    | wait q =>
      simp only [runProg]
      split
      · omega
      · rename_i cd hc
        split
        · rename_i hc0
          rw [potential_defer]
          have : c = 0 := by
            simp only [Bool.and_eq_true, beq_iff_eq] at hc0
            exact hc0.2
          simp [this]
        · split
          · have e : potential { s with conds := s.conds.set q { cd with waiter := some (k, i) } } = potential s := rfl
            omega
          · have ht' : TaskAt { s with conds := s.conds.set q { cd with permits := cd.permits - 1 } } i (.wait q :: r) := h
            have hs' := potential_setProg _ i (.wait q :: r) r ht'
            have ht2 := taskAt_setProg _ i (.wait q :: r) r ht'
            have h2 := ih (if cd.coop then c - 1 else c) s.now s.phase (logAt (setProg _ i r) i rdy org) ht2
            rw [potential_logAt] at h2
            have e : potential { s with conds := s.conds.set q { cd with permits := cd.permits - 1 } } = potential s := rfl
            simp [iw3] at hs'
            have hf := ite_le_one ((if cd.coop then c - 1 else c) = 0)
            omega
    | join t =>
      simp only [runProg]
      split
      · omega
      · rename_i tj hj
        split
        · rename_i hc0
          rw [potential_defer]
          have : c = 0 := by simpa using hc0
          simp [this]
        · split
          · have h2 := ih (c - 1) s.now s.phase (logAt (setProg s i r) i rdy org) ht
            rw [potential_logAt] at h2
            simp [iw3] at hs
            have hf := ite_le_one (c - 1 = 0)
            omega
          · have := potential_setTask s t tj { tj with joiner := some (k, i) } hj
            have e : tw3 { tj with joiner := some (k, i) } = tw3 tj := rfl
            omega

theorem potential_markPolled (s : St) (i : Nat) : potential (markPolled s i) = potential s := by
  unfold markPolled
  split
  · rfl
  · rename_i tk h
    have := potential_setTask s i tk { tk with polled := true } h
    have e : tw3 { tk with polled := true } = tw3 tk := rfl
    omega

theorem potential_pollTask (P : Params) (hC : 1 ≤ P.C) (e : Entry) (s : St) :
    potential (pollTask P e s) ≤ potential s := by
  have hc : (if P.C = 0 then 1 else 0) = 0 := by split <;> omega
  unfold pollTask
  split
  · exact Nat.le_refl _
  · rename_i tk h
    split
    · exact Nat.le_refl _
    · rename_i hd
      have hT : TaskAt s e.idx tk.prog := ⟨tk, h, rfl, by simpa using hd⟩
      split
      · have := potential_runProg e.kind e.idx tk.prog P.C e.ready e.origin s hT
        omega
      · have := potential_runProg e.kind e.idx tk.prog P.C s.now s.phase
          (logAt (markPolled s e.idx) e.idx e.ready e.origin) (taskAt_markPolled s e.idx _ hT)
        rw [potential_logAt, potential_markPolled] at this
        omega

theorem potential_setQueue_cons (q : Kind) (s : St) (e : Entry) (r : List Entry) (h : queue q s = e :: r) :
    potential (setQueue q s r) + 1 = potential s := by
  cases q <;> simp only [queue] at h <;> simp [setQueue, potential, h] <;> omega

/-- every poll strictly decreases the potential -/
theorem potential_step (P : Params) (hC : 1 ≤ P.C) (q : Kind) (s : St) (e : Entry) (r : List Entry)
    (h : queue q s = e :: r) : potential (step P q s) + 1 ≤ potential s := by
  unfold step
  rw [h]
  have h1 := potential_pollTask P hC e (setQueue q s r)
  have h2 := potential_setQueue_cons q s e r h
  simp only
  omega

theorem potential_runQ (P : Params) (hC : 1 ≤ P.C) (q : Kind) :
    ∀ (b : Nat) (s : St), potential (runQ P q b s) ≤ potential s := by
  intro b
  induction b with
  | zero => intro s; exact Nat.le_refl _
  | succ b ih =>
    intro s
    cases hq : queue q s with
    | nil => rw [runQ_of_empty P q _ s hq]; exact Nat.le_refl _
    | cons e r =>
      rw [runQ_cons P q b s e r hq]
      have := potential_step P hC q s e r hq
      have := ih (step P q s)
      omega

/-- a non-empty queue and a budget of at least one poll: strict decrease -/
theorem potential_runQ_lt (P : Params) (hC : 1 ≤ P.C) (q : Kind) (b : Nat) (s : St) (hb : 1 ≤ b)
    (hq : queue q s ≠ []) : potential (runQ P q b s) + 1 ≤ potential s := by
  obtain ⟨b', rfl⟩ : ∃ b', b = b' + 1 := ⟨b - 1, by omega⟩
  cases hq' : queue q s with
  | nil => exact absurd hq' hq
  | cons e r =>
    rw [runQ_cons P q b' s e r hq']
    have := potential_step P hC q s e r hq'
    have := potential_runQ P hC q b' (step P q s)
    omega

theorem foldl_push_tasks (l : List Entry) (f : Entry → Entry) :
    ∀ s : St, (l.foldl (fun s e => pushEntry s (f e)) s).tasks = s.tasks := by
  induction l with
  | nil => intro s; rfl
  | cons a l ih =>
    intro s
    simp only [List.foldl_cons]
    rw [ih, tasks_pushEntry]

theorem potential_flush (s : St) : potential (flush s) = potential s := by
  have h1 := flush_len s
  have h2 := flush_dq s
  have h3 : (flush s).tasks = s.tasks := by unfold flush; rw [foldl_push_tasks]
  unfold potential
  rw [h2, h3]
  simp only [List.length_nil]
  omega

theorem pass_dq (P : Params) (s : St) : (pass P s).dq = [] := flush_dq _

theorem potential_pass (P : Params) (hC : 1 ≤ P.C) (s : St) : potential (pass P s) ≤ potential s := by
  unfold pass afterRt rtStart afterTick tickStart
  rw [potential_flush]
  have h1 := potential_runQ P hC .loc P.L { s with phase := .tick }
  have h2 := potential_runQ P hC .rt P.E { runQ P .loc P.L { s with phase := .tick } with phase := .rtloop }
  have e1 : potential { s with phase := .tick } = potential s := rfl
  have e2 : potential { runQ P .loc P.L { s with phase := .tick } with phase := .rtloop }
      = potential (runQ P .loc P.L { s with phase := .tick }) := rfl
  omega

/-- a pass that starts with something runnable strictly decreases the potential -/
theorem potential_pass_lt (P : Params) (hL : 1 ≤ P.L) (hE : 1 ≤ P.E) (hC : 1 ≤ P.C) (s : St)
    (hne : ¬(s.rq = [] ∧ s.lq = [])) : potential (pass P s) + 1 ≤ potential s := by
  unfold pass afterRt rtStart afterTick tickStart
  rw [potential_flush]
  have h1 := potential_runQ P hC .loc P.L { s with phase := .tick }
  have h2 := potential_runQ P hC .rt P.E { runQ P .loc P.L { s with phase := .tick } with phase := .rtloop }
  have e1 : potential { s with phase := .tick } = potential s := rfl
  have e2 : potential { runQ P .loc P.L { s with phase := .tick } with phase := .rtloop }
      = potential (runQ P .loc P.L { s with phase := .tick }) := rfl
  by_cases hl : s.lq = []
  · -- the tick does nothing, the runtime queue is non-empty
    have hr : s.rq ≠ [] := fun h => hne ⟨h, hl⟩
    have ht : runQ P .loc P.L { s with phase := .tick } = { s with phase := .tick } :=
      runQ_of_empty P .loc _ _ hl
    rw [ht] at h2 ⊢
    have hr' : queue .rt { { s with phase := .tick } with phase := .rtloop } ≠ [] := hr
    have := potential_runQ_lt P hC .rt P.E { { s with phase := .tick } with phase := .rtloop } hE hr'
    have e3 : potential { { s with phase := .tick } with phase := .rtloop } = potential s := rfl
    omega
  · have hl' : queue .loc { s with phase := .tick } ≠ [] := hl
    have := potential_runQ_lt P hC .loc P.L { s with phase := .tick } hL hl'
    omega

/-- `potential s` passes are enough: the drain loop ends with nothing runnable -/
theorem drain_quiet (P : Params) (hL : 1 ≤ P.L) (hE : 1 ≤ P.E) (hC : 1 ≤ P.C) :
    ∀ (n : Nat) (s : St), potential s ≤ n → s.dq = [] → Quiet (drain P n s) := by
  intro n
  induction n with
  | zero =>
    intro s hn hd
    unfold potential at hn
    simp only [drain]
    refine ⟨List.eq_nil_of_length_eq_zero (by omega), List.eq_nil_of_length_eq_zero (by omega), hd⟩
  | succ n ih =>
    intro s hn hd
    simp only [drain]
    split
    · rename_i hi
      simp only [Bool.and_eq_true, List.isEmpty_iff] at hi
      exact ⟨hi.1, hi.2, hd⟩
    · rename_i hi
      simp only [Bool.and_eq_true, List.isEmpty_iff] at hi
      have := potential_pass_lt P hL hE hC s hi
      exact ih _ (by omega) (pass_dq P s)

end Exec

/-
`Sleep::poll`, `Timeout::poll`, `Interval::poll_tick`: poll-level facts and the trace-level
consequences used by Props/C05.lean.
-/
import Desverif.Proofs.TimerInv
namespace Timer

theorem sleep_poll_ready (s : Sleep) (tid now : Nat) : (s.poll tid now).2.2 = true ↔ s.deadline ≤ now := by
  unfold Sleep.poll
  split
  · rename_i h
    cases s.handle <;> simp <;> omega
  · rename_i h
    simp; omega

theorem sleep_poll_deadline (s : Sleep) (tid now : Nat) : (s.poll tid now).1.deadline = s.deadline := by
  unfold Sleep.poll
  split
  · cases s.handle <;> rfl
  · rfl

theorem sleep_poll_id (s : Sleep) (tid now : Nat) : (s.poll tid now).1.id = s.id := by
  unfold Sleep.poll
  split
  · cases s.handle <;> rfl
  · rfl

theorem sleep_poll_ok (s : Sleep) (tid now : Nat) : ∀ o ∈ (s.poll tid now).2.1, o.ok now := by
  unfold Sleep.poll
  split
  · rename_i h
    cases s.handle with
    | none => intro o ho; simp at ho; subst ho; exact h
    | some _ => intro o ho; simp at ho
  · intro o ho; simp at ho

theorem sleep_reset_ok (s : Sleep) (d' now : Nat) : ∀ o ∈ (s.reset d').2, o.ok now := by
  unfold Sleep.reset
  cases s.handle with
  | none => intro o ho; simp at ho
  | some _ => intro o ho; simp at ho; subst ho; trivial

theorem sleep_drop_ok (s : Sleep) (now : Nat) : ∀ o ∈ s.drop, o.ok now := by
  unfold Sleep.drop
  cases s.handle with
  | none => intro o ho; simp at ho
  | some _ => intro o ho; simp at ho; subst ho; trivial

/-- first poll of a fresh sleep before its deadline registers exactly its entry -/
theorem sleep_poll_registers (s : Sleep) (tid now : Nat) (h : now < s.deadline) (hh : s.handle = none)
    (t : State) :
    (s.poll tid now).2.2 = false ∧
    HasEntry (applyOps t (s.poll tid now).2.1).pending s.deadline ⟨s.id, tid⟩ := by
  unfold Sleep.poll
  rw [if_pos h, hh]
  refine ⟨rfl, ?_⟩
  simp only [applyOps, List.foldl_cons, List.foldl_nil, applyOp]
  exact add_has _ _ _

/-! ### Timeout -/

theorem timeout_poll_spec (ir : Bool) (s : Sleep) (tid now : Nat) :
    (Timeout.poll ir s tid now).2.2 =
      if ir then some true else if s.deadline ≤ now then some false else none := by
  unfold Timeout.poll
  cases ir with
  | true => rfl
  | false =>
    simp only [Bool.false_eq_true, if_false]
    have := sleep_poll_ready s tid now
    by_cases h : s.deadline ≤ now
    · rw [if_pos h, this.mpr h]; rfl
    · rw [if_neg h]
      have : (s.poll tid now).2.2 = false := by
        cases hb : (s.poll tid now).2.2 with
        | false => rfl
        | true => exact absurd (this.mp hb) h
      rw [this]; rfl

theorem timeout_poll_deadline (ir : Bool) (s : Sleep) (tid now : Nat) :
    (Timeout.poll ir s tid now).1.deadline = s.deadline := by
  unfold Timeout.poll
  cases ir with
  | true => rfl
  | false => exact sleep_poll_deadline s tid now

/-- the `Timeout` future polled at the times `polls` (`(time, is the inner future ready at this
    poll)`): first decisive poll and its result (`true` = `Ok`, `false` = `Elapsed`) -/
def Timeout.run (s : Sleep) (tid : Nat) : List (Nat × Bool) → Option (Nat × Bool)
  | [] => none
  | (now, ir) :: rest =>
    match (Timeout.poll ir s tid now).2.2 with
    | some r => some (now, r)
    | none => Timeout.run (Timeout.poll ir s tid now).1 tid rest

theorem timeout_run_spec (s : Sleep) (tid : Nat) (polls : List (Nat × Bool))
    (hsorted : polls.Pairwise (fun a b => a.1 < b.1))
    (hd : ∃ ir, (s.deadline, ir) ∈ polls) :
    ∃ τ r, Timeout.run s tid polls = some (τ, r) ∧
      ((r = true ∧ (τ, true) ∈ polls ∧ τ ≤ s.deadline) ∨
       (r = false ∧ τ = s.deadline ∧ ∀ x ∈ polls, x.1 ≤ s.deadline → x.2 = false)) := by
  induction polls generalizing s with
  | nil => obtain ⟨_, h⟩ := hd; cases h
  | cons a rest ih =>
    obtain ⟨now, ir⟩ := a
    have hp := List.pairwise_cons.mp hsorted
    obtain ⟨ird, hmem⟩ := hd
    simp only [Timeout.run]
    rw [timeout_poll_spec]
    cases ir with
    | true =>
      refine ⟨now, true, rfl, Or.inl ⟨rfl, List.mem_cons_self, ?_⟩⟩
      rcases List.mem_cons.mp hmem with h | h
      · cases h; exact Nat.le_refl _
      · have := hp.1 _ h; simp at this; omega
    | false =>
      simp only [Bool.false_eq_true, if_false]
      by_cases hle : s.deadline ≤ now
      · rw [if_pos hle]
        have heq : now = s.deadline := by
          rcases List.mem_cons.mp hmem with h | h
          · cases h; rfl
          · have := hp.1 _ h; simp at this; omega
        refine ⟨now, false, rfl, Or.inr ⟨rfl, heq, ?_⟩⟩
        intro x hx hxle
        rcases List.mem_cons.mp hx with hx | hx
        · subst hx; rfl
        · have := hp.1 _ hx; simp at this; omega
      · rw [if_neg hle]
        have hmem' : (s.deadline, ird) ∈ rest := by
          rcases List.mem_cons.mp hmem with h | h
          · cases h; omega
          · exact h
        have hdl := timeout_poll_deadline false s tid now
        obtain ⟨τ, r, h1, h2⟩ := ih (Timeout.poll false s tid now).1 hp.2 ⟨ird, by rw [hdl]; exact hmem'⟩
        refine ⟨τ, r, h1, ?_⟩
        rw [hdl] at h2
        rcases h2 with ⟨h3, h4, h5⟩ | ⟨h3, h4, h5⟩
        · exact Or.inl ⟨h3, List.mem_cons_of_mem _ h4, h5⟩
        · refine Or.inr ⟨h3, h4, ?_⟩
          intro x hx hxle
          rcases List.mem_cons.mp hx with hx | hx
          · subst hx; rfl
          · exact h5 x hx hxle

/-! ### Interval -/

/-- a due tick: returns the scheduled instant, re-arms at `nextDeadline`, touches the queue not at all -/
theorem pollTick_due (i : Interval) (tid now : Nat) (h : i.delay.deadline ≤ now) :
    i.pollTick tid now =
      ({ i with delay := { id := i.delay.id, deadline := i.nextDeadline i.delay.deadline now, handle := none } },
       [], some i.delay.deadline) := by
  unfold Interval.pollTick Sleep.poll
  rw [if_neg (by omega)]
  simp [Sleep.reset]

theorem pollTick_early (i : Interval) (tid now : Nat) (h : now < i.delay.deadline) :
    (i.pollTick tid now).2.2 = none ∧ (i.pollTick tid now).1.delay.deadline = i.delay.deadline := by
  unfold Interval.pollTick Sleep.poll
  rw [if_pos h]
  cases i.delay.handle <;> simp

theorem next_burst (i : Interval) (hm : i.mode = .burst) (timeout now : Nat) :
    i.nextDeadline timeout now = timeout + i.period := by
  unfold Interval.nextDeadline Missed.nextTimeout
  rw [hm]; split <;> rfl

theorem next_delay (i : Interval) (hm : i.mode = .delay) (timeout now : Nat) :
    i.nextDeadline timeout now = if now > timeout + lateNs then now + i.period else timeout + i.period := by
  unfold Interval.nextDeadline Missed.nextTimeout
  rw [hm]

theorem next_skip (i : Interval) (hm : i.mode = .skip) (hp : 0 < i.period) (timeout now : Nat)
    (hlate : now > timeout + lateNs) :
    now < i.nextDeadline timeout now ∧ i.nextDeadline timeout now ≤ now + i.period ∧
    (i.nextDeadline timeout now - timeout) % i.period = 0 := by
  unfold Interval.nextDeadline Missed.nextTimeout
  rw [hm, if_pos hlate]
  simp only
  have hmod : (now - timeout) % i.period < i.period := Nat.mod_lt _ hp
  have hdm := Nat.mod_add_div (now - timeout) i.period
  refine ⟨by omega, by omega, ?_⟩
  have : now + i.period - (now - timeout) % i.period - timeout = i.period * ((now - timeout) / i.period + 1) := by
    rw [Nat.mul_add, Nat.mul_one]
    have hlt : timeout < now := by omega
    omega
  rw [this]
  exact Nat.mul_mod_right _ _

theorem next_ontime (i : Interval) (timeout now : Nat) (h : now ≤ timeout + lateNs) :
    i.nextDeadline timeout now = timeout + i.period := by
  unfold Interval.nextDeadline
  rw [if_neg (by omega)]

/-- instants returned by `tick()` when the interval is polled (to completion) at the times `nows` -/
def Interval.ticks (i : Interval) (tid : Nat) : List Nat → List Nat
  | [] => []
  | now :: rest =>
    match (i.pollTick tid now).2.2 with
    | some t => t :: Interval.ticks (i.pollTick tid now).1 tid rest
    | none => Interval.ticks (i.pollTick tid now).1 tid rest

/-- `Burst`: the k-th delivered tick is `start + k·period`, however late the polls are -/
theorem burst_ticks (i : Interval) (hm : i.mode = .burst) (tid : Nat) (nows : List Nat) :
    ∃ n, Interval.ticks i tid nows = (List.range n).map (fun k => i.delay.deadline + k * i.period) := by
  induction nows generalizing i with
  | nil => exact ⟨0, rfl⟩
  | cons now rest ih =>
    simp only [Interval.ticks]
    by_cases h : i.delay.deadline ≤ now
    · rw [pollTick_due i tid now h]
      simp only
      obtain ⟨n, hn⟩ := ih { i with delay := { id := i.delay.id, deadline := i.nextDeadline i.delay.deadline now, handle := none } } hm
      refine ⟨n + 1, ?_⟩
      rw [hn, next_burst i hm]
      simp only
      rw [List.range_succ_eq_map, List.map_cons, List.map_map]
      congr 1
      · simp
      · apply List.map_congr_left
        intro k _
        simp only [Function.comp]
        rw [Nat.succ_mul]; omega
    · have hp := pollTick_early i tid now (by omega)
      rw [hp.1]
      simp only
      have hmode : (i.pollTick tid now).1.mode = .burst := by
        unfold Interval.pollTick; split <;> (try split) <;> exact hm
      have hper : (i.pollTick tid now).1.period = i.period := by
        unfold Interval.pollTick; split <;> (try split) <;> rfl
      obtain ⟨n, hn⟩ := ih (i.pollTick tid now).1 hmode
      exact ⟨n, by rw [hn, hp.2, hper]⟩

end Timer

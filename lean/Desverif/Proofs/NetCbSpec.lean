/-
The callback of a module event (`Net.callback`) summarised by its observations: shutdown request
iff a `dwn` line, error iff an uncaught callback panic line, deactivation by a panic, joined task
panics counted, start stages of a restart in order.
-/
import Desverif.Proofs.NetCallback
namespace Net

theorem any_eq_countP_pos {α : Type} (p : α → Bool) (l : List α) : l.any p = decide (0 < l.countP p) := by
  induction l with
  | nil => simp
  | cons a l ih =>
    simp only [List.any_cons, List.countP_cons, ih]
    cases p a <;> simp

theorem GenObs.not_start {env : Env} {o : Obs} (h : GenObs env o) : isStart o = false := by
  rcases h.kind with k | k | k | k | k | k <;> simp [isStart, k]

theorem GenObs.not_reset {env : Env} {o : Obs} (h : GenObs env o) : o.kind ≠ .reset ∧ o.kind ≠ .end_ ∧ o.kind ≠ .msg := by
  rcases h.kind with k | k | k | k | k | k <;> simp [k]

/-- what the callback of a module event does, in terms of its observations `l` -/
structure CbSpec (env : Env) (m : ModRt) (es : ES) (r : CbResult) (l : List Obs) : Prop where
  obs : r.es.obs = es.obs ++ l
  own : ∀ o ∈ l, o.mod = env.mi ∧ o.time = env.now ∧ o.kind ≠ .reset ∧ o.kind ≠ .end_
  req : r.mod.shutdownReq = r.es.req
  dwn : r.es.req.isSome = (es.req.isSome || l.any isDwn)
  errs : r.errs = if l.any isCbPan && !m.catches then [(ErrKind.panic, env.mi)] else []
  active : r.mod.active = (m.active && !l.any isCbPan)
  join : r.mod.joinPanics = m.joinPanics + l.countP isJoinPan
  prog : r.mod.prog = m.prog
  stages : r.mod.stages = m.stages
  catches : r.mod.catches = m.catches
  pan1 : l.countP isCbPan ≤ 1

/-- an entry line of a callback -/
def EntryObs (env : Env) (o : Obs) : Prop :=
  o.mod = env.mi ∧ o.time = env.now ∧ (o.kind = .msg ∨ o.kind = .start)

theorem EntryObs.facts {env : Env} {o : Obs} (h : EntryObs env o) :
    isCbPan o = false ∧ isJoinPan o = false ∧ isDwn o = false ∧ o.kind ≠ .reset ∧ o.kind ≠ .end_ := by
  rcases h.2.2 with k | k <;> simp [isCbPan, isJoinPan, isDwn, k]

/-- `exec` followed by `Harness::catch` -/
theorem execCatch_spec (env : Env) (m : ModRt) (entry : Obs) (acts : List Action) (es : ES)
    (he : EntryObs env entry) :
    ∃ l', (∀ o ∈ l', GenObs env o) ∧
      CbSpec env m es
        { mod := (catchPanic env.mi (exec env m entry acts es)).1, es := (exec env m entry acts es).es,
          errs := (catchPanic env.mi (exec env m entry acts es)).2 } (entry :: l') := by
  obtain ⟨l', x⟩ := exec_spec env m entry acts es
  obtain ⟨f1, f2, f3, f4, f5⟩ := he.facts
  have hany : (entry :: l').any isCbPan = (exec env m entry acts es).panicked := by
    rw [any_eq_countP_pos, List.countP_cons, f1, x.pan]
    cases (exec env m entry acts es).panicked <;> simp
  refine ⟨l', x.gen, ?_⟩
  unfold catchPanic
  cases hp : (exec env m entry acts es).panicked with
  | true =>
    simp only [if_true]
    refine ⟨by simpa using x.obs, ?_, x.req, ?_, ?_, ?_, ?_, x.prog, x.stages, x.catches, ?_⟩
    · intro o ho
      rcases List.mem_cons.mp ho with ho | ho
      · subst ho; exact ⟨he.1, he.2.1, f4, f5⟩
      · have g := x.gen o ho; exact ⟨g.mod, g.time, g.not_reset.1, g.not_reset.2.1⟩
    · rw [x.dwn]; simp [f3]
    · rw [hany, hp, x.catches]; cases m.catches <;> simp
    · rw [hany, hp]; simp
    · rw [List.countP_cons, f2]; simpa using x.join
    · rw [List.countP_cons, f1, x.pan]; simp [hp]
  | false =>
    simp only [Bool.false_eq_true, if_false]
    refine ⟨by simpa using x.obs, ?_, x.req, ?_, ?_, ?_, ?_, x.prog, x.stages, x.catches, ?_⟩
    · intro o ho
      rcases List.mem_cons.mp ho with ho | ho
      · subst ho; exact ⟨he.1, he.2.1, f4, f5⟩
      · have g := x.gen o ho; exact ⟨g.mod, g.time, g.not_reset.1, g.not_reset.2.1⟩
    · rw [x.dwn]; simp [f3]
    · rw [hany, hp]; simp
    · rw [hany, hp, x.active]; simp
    · rw [List.countP_cons, f2]; simpa using x.join
    · rw [List.countP_cons, f1, x.pan]; simp [hp]

def startObs (env : Env) (stage : Nat) : Obs := ⟨env.mi, .start, some stage, none, env.now⟩

theorem startStage_spec (env : Env) (m : ModRt) (es : ES) (stage : Nat) :
    ∃ l', (∀ o ∈ l', GenObs env o) ∧ CbSpec env m es (startStage env m es stage) (startObs env stage :: l') :=
  execCatch_spec env m _ _ es ⟨rfl, rfl, Or.inr rfl⟩

theorem filter_start_gen {env : Env} {l : List Obs} (h : ∀ o ∈ l, GenObs env o) : l.filter isStart = [] := by
  rw [List.filter_eq_nil_iff]
  intro o ho
  simp [(h o ho).not_start]

/-- the stages of a restart: in order, each once, up to the first callback panic -/
theorem restartStages_spec (env : Env) (stages : List Nat) : ∀ (m : ModRt) (es : ES), m.active = true →
    es.req = m.shutdownReq →
    ∃ l n, CbSpec env m es (restartStages env stages m es) l ∧ n ≤ stages.length ∧
      l.filter isStart = (stages.take n).map (startObs env) ∧
      (l.any isCbPan = false → n = stages.length) := by
  induction stages with
  | nil =>
    intro m es ha hreq
    refine ⟨[], 0, ⟨by simp [restartStages], by simp, hreq.symm, by simp [restartStages], by simp [restartStages],
      by simp [restartStages, ha], by simp [restartStages], rfl, rfl, rfl, by simp⟩, by simp, by simp, by simp⟩
  | cons st rest ih =>
    intro m es ha _
    obtain ⟨l1, g1, c1⟩ := startStage_spec env m es st
    have hs1 : (startObs env st :: l1).filter isStart = [startObs env st] := by
      rw [List.filter_cons]
      simp [isStart, startObs, filter_start_gen g1]
    unfold restartStages
    by_cases hstop : (!(startStage env m es st).errs.isEmpty || !(startStage env m es st).mod.active) = true
    · simp only [hstop, if_true]
      refine ⟨startObs env st :: l1, 1, c1, by simp, by simp [hs1], ?_⟩
      intro hno
      exfalso
      rw [c1.errs, c1.active, hno, ha] at hstop
      simp at hstop
    · have hstop' : (!(startStage env m es st).errs.isEmpty || !(startStage env m es st).mod.active) = false := by
        simpa using hstop
      simp only [hstop', Bool.false_eq_true, if_false]
      have hact : (startStage env m es st).mod.active = true := by
        cases h : (startStage env m es st).mod.active <;> simp [h] at hstop' ⊢
      have hno : (startObs env st :: l1).any isCbPan = false := by
        have := c1.active
        rw [hact, ha] at this
        cases h : (startObs env st :: l1).any isCbPan <;> simp [h] at this ⊢
      have herr : (startStage env m es st).errs = [] := by rw [c1.errs, hno]; simp
      obtain ⟨l2, n, c2, hn, hf, hall⟩ := ih (startStage env m es st).mod (startStage env m es st).es hact c1.req.symm
      refine ⟨(startObs env st :: l1) ++ l2, n + 1, ?_, by simp; omega, ?_, ?_⟩
      · refine ⟨?_, ?_, c2.req, ?_, ?_, ?_, ?_, ?_, ?_, ?_, ?_⟩
        · show (restartStages env rest _ _).es.obs = _
          rw [c2.obs, c1.obs, List.append_assoc]
        · intro o ho
          rcases List.mem_append.mp ho with ho | ho
          · exact c1.own o ho
          · exact c2.own o ho
        · show (restartStages env rest _ _).es.req.isSome = _
          rw [c2.dwn, c1.dwn, List.any_append, Bool.or_assoc]
        · show (startStage env m es st).errs ++ (restartStages env rest _ _).errs = _
          rw [herr, c2.errs, c1.catches, List.any_append, hno]; simp
        · show (restartStages env rest _ _).mod.active = _
          rw [c2.active, hact, List.any_append, hno, ha]; simp
        · show (restartStages env rest _ _).mod.joinPanics = _
          rw [c2.join, c1.join, List.countP_append, Nat.add_assoc]
        · show (restartStages env rest _ _).mod.prog = _
          rw [c2.prog, c1.prog]
        · show (restartStages env rest _ _).mod.stages = _
          rw [c2.stages, c1.stages]
        · show (restartStages env rest _ _).mod.catches = _
          rw [c2.catches, c1.catches]
        · have h0 : (startObs env st :: l1).countP isCbPan = 0 := by
            have := any_eq_countP_pos isCbPan (startObs env st :: l1)
            rw [hno] at this
            simpa using this.symm
          rw [List.countP_append, h0, Nat.zero_add]
          exact c2.pan1
      · rw [List.filter_append, hs1, hf]; simp
      · intro h
        rw [List.any_append, hno, Bool.false_or] at h
        simp [hall h]

/-- `module_restart` starts with `active.store(true)` -/
def ModRt.enter (m : ModRt) : Kind → ModRt
  | .restart => { m with active := true }
  | _ => m

/-- the callback of a module event, for every kind of event -/
theorem callback_spec (env : Env) (m : ModRt) (es : ES) (kind : Kind) (hreq : es.req = m.shutdownReq) :
    ∃ l, CbSpec env (m.enter kind) es (callback env m es kind) l ∧
      (m.active = false → kind ≠ .restart → (∀ st, kind ≠ .simStart st) → l = [] ∧ (callback env m es kind).mod = m ∧
        (callback env m es kind).es = es) := by
  cases kind with
  | message msg =>
    unfold callback
    cases ha : m.active with
    | true =>
      simp only [if_true]
      obtain ⟨l', _, c⟩ := execCatch_spec env m ⟨env.mi, .msg, some msg.id, some msg.serial, env.now⟩
        (m.prog.onMsg msg.id) es ⟨rfl, rfl, Or.inl rfl⟩
      exact ⟨_, c, by simp⟩
    | false =>
      simp only [Bool.false_eq_true, if_false]
      exact ⟨[], ⟨by simp, by simp, hreq.symm, by simp, by simp, by simp [ModRt.enter, ha], by simp [ModRt.enter],
        rfl, rfl, rfl, by simp⟩, by simp⟩
  | wakeup =>
    unfold callback
    cases ha : m.active with
    | true =>
      simp only [if_true]
      obtain ⟨l, x⟩ := execIdle_spec env m es
      have hno : l.any isCbPan = false := by
        rw [any_eq_countP_pos, x.pan]; simp [execIdle]
      refine ⟨l, ⟨by simpa using x.obs, ?_, x.req, x.dwn, by simp [hno], by simp [hno, x.active, ha, ModRt.enter],
        x.join, x.prog, x.stages, x.catches, by rw [x.pan]; simp [execIdle]⟩, by simp⟩
      intro o ho
      have g := x.gen o ho
      exact ⟨g.mod, g.time, g.not_reset.1, g.not_reset.2.1⟩
    | false =>
      simp only [Bool.false_eq_true, if_false]
      exact ⟨[], ⟨by simp, by simp, hreq.symm, by simp, by simp, by simp [ModRt.enter, ha], by simp [ModRt.enter],
        rfl, rfl, rfl, by simp⟩, by simp⟩
  | simStart stage =>
    obtain ⟨l', _, c⟩ := startStage_spec env m es stage
    exact ⟨_, c, by intro _ _ h; exact absurd rfl (h stage)⟩
  | restart =>
    obtain ⟨l, n, c, _⟩ := restartStages_spec { env with active := env.active.set env.mi true }
      (List.range m.stages) { m with active := true } es rfl hreq
    exact ⟨l, ⟨c.obs, c.own, c.req, c.dwn, c.errs, c.active, c.join, c.prog, c.stages, c.catches, c.pan1⟩, by simp⟩

end Net

import Desverif.Model.CQ
namespace CQ

theorem idx_lt (n t x : Nat) (hn : 0 < n) : idx n t x < n := Nat.mod_lt _ hn

theorem idx_window (n t k r : Nat) (hn : 0 < n) (ht : 0 < t) (hr : r < t) :
    idx n t (k * t + r) = k % n := by
  unfold idx
  have hk : k = n * (k / n) + k % n := (Nat.div_add_mod k n).symm
  have hlt : k % n < n := Nat.mod_lt _ hn
  have h1 : k * t + r = (k / n) * (n * t) + (k % n * t + r) := by
    conv => lhs; rw [hk]
    rw [Nat.add_mul, Nat.add_assoc]
    congr 1
    rw [Nat.mul_comm n (k / n), Nat.mul_assoc]
  have h2 : k % n * t + r < n * t := by
    have : (k % n + 1) * t ≤ n * t := Nat.mul_le_mul_right t hlt
    rw [Nat.add_mul, Nat.one_mul] at this
    omega
  rw [h1, Nat.mul_comm (k / n) (n * t), Nat.mul_add_mod, Nat.mod_eq_of_lt h2]
  have h3 : (k % n * t + r) / t = k % n := by
    rw [Nat.mul_comm, Nat.mul_add_div ht, Nat.div_eq_of_lt hr, Nat.add_zero]
  rw [h3, Nat.mod_mod]

end CQ

/-
Every module event of the scripted simulation (Model/TimerSim.lean) is a `Timer.stepEv` with
admissible operations (frame specification in Proofs/TimerInterp.lean), hence covered by
`wakeinv_step`; the wake-up invariant therefore holds for every module in every reachable
simulation state, for all scripts.
-/
import Desverif.Proofs.TimerInterp
namespace Timer

theorem pollTasks_ok (tasks : List Task) (idx : Nat) (run : Nat → Bool) (now inc : Nat) (a : Acc)
    (h : OkOps now a.ops) : OkOps now (pollTasks tasks idx run now inc a).2.ops := by
  obtain ⟨δ, e, o⟩ := (amoves_pollTasks tasks idx run now inc a).ops
  rw [e]; exact okOps_append h o

/-- the second half of a module event preserves WakeInv when the operations emitted by the
    scheduler turn are admissible -/
theorem finish_wakeinv {last now : Nat} (m : Mod) (k : Kind) (nwoken inc : Nat) (active : Bool)
    (tasks' : List Task) (a : Acc) (h : WakeInv last m.timer) (hw : ∀ w ∈ m.timer.wakeups, now ≤ w)
    (hok : OkOps now a.ops) : WakeInv now (m.finish next now k nwoken inc active tasks' a).1.timer := by
  have h1 : WakeInv now (stepEv m.timer ⟨now, decide (k = Kind.wake), [], a.ops⟩).1 :=
    wakeinv_step (e := ⟨now, decide (k = Kind.wake), [], a.ops⟩) h ⟨hw, hok⟩
  unfold Mod.finish
  simp only
  split
  · exact h1
  · exact h1
  · exact wakeinv_step (e := ⟨now, false, _, []⟩) h1 ⟨h1.jw, okOps_nil now⟩

/-- **One module event of the scripted simulation preserves WakeInv**, whatever the scripts are:
    the event is `stepEv` with the operations the interpreter emitted (all admissible), followed —
    on a shutdown request — by the drop of every task and a second activate/deactivate. -/
theorem event_wakeinv {last now : Nat} (m : Mod) (k : Kind)
    (h : WakeInv last m.timer) (hw : ∀ w ∈ m.timer.wakeups, now ≤ w) :
    WakeInv now (m.event next now k).1.timer := by
  unfold Mod.event
  exact finish_wakeinv m k _ _ _ _ _ h hw (pollTasks_ok _ _ _ _ _ _ (okOps_nil now))

theorem finish_last (m : Mod) (now : Nat) (k : Kind) (nwoken inc : Nat) (active : Bool)
    (tasks' : List Task) (a : Acc) : (m.finish next now k nwoken inc active tasks' a).1.last = now := by
  unfold Mod.finish
  simp only
  split <;> rfl

theorem event_last (m : Mod) (now : Nat) (k : Kind) :
    (m.event next now k).1.last = now := by
  unfold Mod.event
  exact finish_last _ _ _ _ _ _ _ _

/-! ### the whole simulation -/

/-- every module satisfies WakeInv (relative to its own last event) and no wake-up event in the
    event set is in the past -/
def SimInv (s : Sim) : Prop :=
  (∀ m ∈ s.mods, WakeInv m.last m.timer) ∧ (∀ m ∈ s.mods, ∀ w ∈ m.timer.wakeups, s.now ≤ w)

theorem listMin_le {l : List Nat} {x : Nat} (h : listMin l = some x) : ∀ w ∈ l, x ≤ w := by
  induction l generalizing x with
  | nil => intro w hw; cases hw
  | cons a r ih =>
    simp only [listMin] at h
    intro w hw
    split at h
    · rename_i hn
      cases h
      rcases List.mem_cons.mp hw with hw | hw
      · subst hw; exact Nat.le_refl _
      · cases r with
        | nil => cases hw
        | cons b r' => simp only [listMin] at hn; split at hn <;> cases hn
    · rename_i y hy
      cases h
      rcases List.mem_cons.mp hw with hw | hw
      · subst hw; exact Nat.min_le_left _ _
      · exact Nat.le_trans (Nat.min_le_right _ _) (ih hy w hw)

theorem listMin_none {l : List Nat} (h : listMin l = none) : l = [] := by
  cases l with
  | nil => rfl
  | cons a r => simp only [listMin] at h; split at h <;> cases h

theorem nextEvent_le {m : Mod} {t : Nat} {k : Kind} (h : m.nextEvent = some (t, k)) :
    ∀ w ∈ m.timer.wakeups, t ≤ w := by
  unfold Mod.nextEvent at h
  split at h
  · rename_i w0 r hw0 _
    have := listMin_le hw0
    split at h
    · cases h; exact this
    · rename_i hgt
      cases h
      intro w hw
      have := this w hw
      omega
  · rename_i w0 hw0 _
    cases h; exact listMin_le hw0
  · rename_i r hn _
    rw [listMin_none hn]
    intro w hw; cases hw
  · cases h

theorem nextEvent_none {m : Mod} (h : m.nextEvent = none) : m.timer.wakeups = [] := by
  unfold Mod.nextEvent at h
  split at h
  · split at h <;> cases h
  · cases h
  · cases h
  · rename_i hn _; exact listMin_none hn

theorem pickNext_none {mods : List Mod} {idx : Nat} (h : pickNext mods idx = none) :
    ∀ m ∈ mods, m.timer.wakeups = [] := by
  induction mods generalizing idx with
  | nil => intro m hm; cases hm
  | cons b rest ih =>
    simp only [pickNext] at h
    intro m hm
    split at h
    · split at h <;> cases h
    · cases h
    · rename_i hnb
      rcases List.mem_cons.mp hm with hm | hm
      · subst hm; exact nextEvent_none hnb
      · exact ih h m hm

/-- the event the simulation picks is no later than any wake-up event of any module -/
theorem pickNext_le {mods : List Mod} {idx i t : Nat} {k : Kind} (h : pickNext mods idx = some (i, t, k)) :
    ∀ m ∈ mods, ∀ w ∈ m.timer.wakeups, t ≤ w := by
  induction mods generalizing idx i t k with
  | nil => intro m hm; cases hm
  | cons a rest ih =>
    simp only [pickNext] at h
    intro m hm w hw
    split at h
    · rename_i t0 k0 i' t' k' hne hrest
      have h0 := nextEvent_le hne
      have hr := ih hrest
      split at h
      · rename_i hle
        cases h
        rcases List.mem_cons.mp hm with hm | hm
        · subst hm; exact h0 w hw
        · exact Nat.le_trans hle (hr m hm w hw)
      · rename_i hgt
        cases h
        rcases List.mem_cons.mp hm with hm | hm
        · subst hm; have := h0 w hw; omega
        · exact hr m hm w hw
    · rename_i t0 k0 hne hrest
      cases h
      rcases List.mem_cons.mp hm with hm | hm
      · subst hm; exact nextEvent_le hne w hw
      · rw [pickNext_none hrest m hm] at hw; cases hw
    · rename_i hne
      rcases List.mem_cons.mp hm with hm | hm
      · subst hm; rw [nextEvent_none hne] at hw; cases hw
      · exact ih h m hm w hw

theorem siminv_eventOn {s : Sim} (h : SimInv s) (i t : Nat) (k : Kind)
    (hmin : ∀ m ∈ s.mods, ∀ w ∈ m.timer.wakeups, t ≤ w) : SimInv (s.eventOn next i t k) := by
  unfold Sim.eventOn
  split
  · exact h
  · rename_i m hm
    have hmem : m ∈ s.mods := List.mem_of_getElem? hm
    simp only
    constructor
    · intro x hx
      rcases List.mem_or_eq_of_mem_set hx with hx | hx
      · exact h.1 x hx
      · subst hx
        rw [event_last]
        exact event_wakeinv m k (h.1 m hmem) (hmin m hmem)
    · intro x hx w hw
      rcases List.mem_or_eq_of_mem_set hx with hx | hx
      · exact hmin x hx w hw
      · subst hx
        exact (event_wakeinv m k (h.1 m hmem) (hmin m hmem)).jw w hw

theorem siminv_loop {fuel : Nat} {s s' : Sim} (h : SimInv s) (hr : Sim.loop next fuel s = some s') : SimInv s' := by
  induction fuel generalizing s with
  | zero => cases hr
  | succ n ih =>
    simp only [Sim.loop] at hr
    split at hr
    · cases hr; exact h
    · rename_i i t k hp
      exact ih (siminv_eventOn h i t k (pickNext_le hp)) hr

theorem eventOn_now (s : Sim) (i : Nat) (k : Kind) : (s.eventOn next i s.now k).now = s.now := by
  unfold Sim.eventOn
  split <;> rfl

theorem siminv_forAll {s : Sim} (h : SimInv s) (k : Kind) (n i : Nat) : SimInv (Sim.forAll next s k n i) := by
  induction n generalizing s i with
  | zero => exact h
  | succ n ih =>
    simp only [Sim.forAll]
    exact ih (siminv_eventOn h i s.now k h.2) _

/-- **For all scripts**: every module of the scripted simulation satisfies WakeInv when the
    simulation has run (start-up, event loop, `at_sim_end`). -/
theorem sim_wakeinv (progs : List (List (List (Nat × Fut)))) (s : Sim)
    (h : Sim.run next progs = some s) : SimInv s := by
  unfold Sim.run at h
  simp only at h
  have h0 : SimInv { mods := progs.map fun p => ({ progs := p } : Mod) } := by
    constructor
    · intro m hm
      simp only [List.mem_map] at hm
      obtain ⟨p, _, rfl⟩ := hm
      exact wakeinv_init
    · intro m hm w hw
      simp only [List.mem_map] at hm
      obtain ⟨p, _, rfl⟩ := hm
      cases hw
  split at h
  · cases h
  · rename_i s2 hl
    cases h
    exact siminv_forAll (siminv_loop (siminv_forAll h0 _ _ _) hl) _ _ _

/-- when the event loop stops (the event set is empty) no module has a registered timer entry
    with a deadline below `SimTime::MAX` -/
theorem loop_end_no_pending {fuel : Nat} {s s' : Sim} (h : SimInv s) (hr : Sim.loop next fuel s = some s') :
    ∀ m ∈ s'.mods, ∀ d e, HasEntry m.timer.pending d e → tMax ≤ d := by
  induction fuel generalizing s with
  | zero => cases hr
  | succ n ih =>
    simp only [Sim.loop] at hr
    split at hr
    · rename_i hp
      cases hr
      intro m hm d e hl
      apply Nat.le_of_not_lt
      intro hd
      obtain ⟨_, hmem, _, _⟩ := live_has_wakeup (h.1 m hm) hl hd
      rw [pickNext_none hp m hm] at hmem
      cases hmem
    · rename_i i t k hp
      exact ih (siminv_eventOn h i t k (pickNext_le hp)) hr

theorem siminv_init (progs : List (List (List (Nat × Fut)))) :
    SimInv { mods := progs.map fun p => ({ progs := p } : Mod) } := by
  constructor
  · intro m hm
    simp only [List.mem_map] at hm
    obtain ⟨p, _, rfl⟩ := hm
    exact wakeinv_init
  · intro m hm w hw
    simp only [List.mem_map] at hm
    obtain ⟨p, _, rfl⟩ := hm
    cases hw

end Timer

/-
The script interpreter of Model/TimerSim.lean only ever performs admissible queue operations, so
every module event of the scripted simulation is a `Timer.stepEv` covered by `wakeinv_step`; the
wake-up invariant therefore holds for every module in every reachable simulation state, for all scripts.
-/
import Desverif.Model.TimerSim
import Desverif.Proofs.TimerSleep
namespace Timer

def OkOps (now : Nat) (ops : List Op) : Prop := ∀ o ∈ ops, o.ok now

theorem okOps_nil (now : Nat) : OkOps now [] := by intro o h; cases h
theorem okOps_append {now : Nat} {a b : List Op} (ha : OkOps now a) (hb : OkOps now b) : OkOps now (a ++ b) := by
  intro o h
  rcases List.mem_append.mp h with h | h
  · exact ha o h
  · exact hb o h

/-- the context is at time `n` and has emitted only admissible operations -/
def G (n : Nat) (c : Ctx) : Prop := c.now = n ∧ OkOps n c.ops

theorem G_emit {n : Nat} {c : Ctx} {ops : List Op} (h : G n c) (ho : OkOps n ops) : G n (c.emit ops) :=
  ⟨h.1, okOps_append h.2 ho⟩
theorem G_obs {n : Nat} {c : Ctx} (k : String) (h : G n c) : G n (c.obs k) := ⟨h.1, h.2⟩

theorem named_dropOps_ok (n : Nat) (v : Named) : OkOps n v.dropOps := by
  cases v with
  | sl s => exact sleep_drop_ok s n
  | iv i => exact sleep_drop_ok i.delay n

theorem G_bind {n : Nat} {c : Ctx} (x : String) (v : Named) (h : G n c) : G n (c.bind x v) := by
  refine ⟨h.1, ?_⟩
  unfold Ctx.bind
  simp only
  apply okOps_append h.2
  split
  · exact named_dropOps_ok n _
  · exact okOps_nil n

theorem dropFut_ok (n : Nat) (f : Fut) : OkOps n (dropFut f) := by
  induction f with
  | sleeping s => exact sleep_drop_ok s n
  | timeoutRun s e ih => exact okOps_append ih (sleep_drop_ok s n)
  | select a b iha ihb => exact okOps_append iha ihb
  | seq a b iha _ => exact iha
  | _ => exact okOps_nil n

theorem timeout_poll_ok (ir : Bool) (s : Sleep) (tid now : Nat) : OkOps now (Timeout.poll ir s tid now).2.1 := by
  unfold Timeout.poll
  cases ir with
  | true => exact okOps_nil now
  | false => exact sleep_poll_ok s tid now

theorem pollTick_ok (i : Interval) (tid now : Nat) : OkOps now (i.pollTick tid now).2.1 := by
  unfold Interval.pollTick
  simp only
  split
  · exact okOps_append (sleep_poll_ok _ _ _) (sleep_reset_ok _ _ _)
  · exact sleep_poll_ok _ _ _

theorem interval_reset_ok (i : Interval) (now n : Nat) : OkOps n (i.reset now).2 := by
  unfold Interval.reset
  exact sleep_reset_ok _ _ _

theorem G_pollSleep {n : Nat} {c : Ctx} (s : Sleep) (k : String) (h : G n c) : G n (pollSleep s c k).2 := by
  unfold pollSleep
  simp only
  have hg : G n (c.emit (s.poll c.tid c.now).2.1) := G_emit h (by rw [h.1]; exact sleep_poll_ok s c.tid n)
  split
  · exact G_obs k hg
  · exact hg

/-- one poll of any script term keeps the context at its time and emits only admissible operations -/
theorem G_poll {n : Nat} (f : Fut) : ∀ {c : Ctx}, G n c → G n (poll f c).2 := by
  induction f with
  | nop => intro c h; exact h
  | sleep d => intro c h; exact G_pollSleep _ _ ⟨h.1, h.2⟩
  | until_ t => intro c h; exact G_pollSleep _ _ ⟨h.1, h.2⟩
  | sleeping s => intro c h; exact G_pollSleep _ _ h
  | timeout d e ih =>
    intro c h
    simp only [poll]
    have h0 : G n { c with nextId := c.nextId + 1 } := ⟨h.1, h.2⟩
    have h1 := ih h0
    split
    · rename_i c1 heq
      rw [heq] at h1
      exact G_obs _ (G_emit (G_emit h1 (by rw [h1.1]; exact okOps_nil n)) (sleep_drop_ok _ _))
    · rename_i e' c1 heq
      rw [heq] at h1
      have h2 : G n (c1.emit (Timeout.poll false { id := c.nextId, deadline := c.now + d } c1.tid c1.now).2.1) :=
        G_emit h1 (by rw [h1.1]; exact timeout_poll_ok _ _ _ _)
      split
      · exact G_obs _ (G_emit (G_emit h2 (dropFut_ok _ _)) (sleep_drop_ok _ _))
      · exact h2
  | timeoutRun s e ih =>
    intro c h
    simp only [poll]
    have h1 := ih h
    split
    · rename_i c1 heq
      rw [heq] at h1
      exact G_obs _ (G_emit (G_emit h1 (by rw [h1.1]; exact okOps_nil n)) (sleep_drop_ok _ _))
    · rename_i e' c1 heq
      rw [heq] at h1
      have h2 : G n (c1.emit (Timeout.poll false s c1.tid c1.now).2.1) :=
        G_emit h1 (by rw [h1.1]; exact timeout_poll_ok _ _ _ _)
      split
      · exact G_obs _ (G_emit (G_emit h2 (dropFut_ok _ _)) (sleep_drop_ok _ _))
      · exact h2
  | select a b iha ihb =>
    intro c h
    simp only [poll]
    have h1 := iha h
    split
    · rename_i c1 heq
      rw [heq] at h1
      exact G_obs _ (G_emit h1 (dropFut_ok _ _))
    · rename_i a' c1 heq
      rw [heq] at h1
      have h2 := ihb h1
      split
      · rename_i c2 heq2
        rw [heq2] at h2
        exact G_obs _ (G_emit h2 (dropFut_ok _ _))
      · rename_i b' c2 heq2
        rw [heq2] at h2
        exact h2
  | seq a b iha ihb =>
    intro c h
    simp only [poll]
    have h1 := iha h
    split
    · rename_i c1 heq
      rw [heq] at h1
      exact ihb h1
    · rename_i a' c1 heq
      rw [heq] at h1
      exact h1
  | new x d => intro c h; exact G_bind _ _ ⟨h.1, h.2⟩
  | newu x t => intro c h; exact G_bind _ _ ⟨h.1, h.2⟩
  | pollOnce x =>
    intro c h
    simp only [poll]
    split
    · rename_i s _
      exact G_obs _ (G_emit (c := { c with env := envSet c.env x (.sl (s.poll c.tid c.now).1) }) ⟨h.1, h.2⟩
        (by rw [h.1]; exact sleep_poll_ok _ _ _))
    · exact G_obs _ h
  | reset x d =>
    intro c h
    simp only [poll]
    split
    · rename_i s _
      exact G_emit (c := { c with env := envSet c.env x (.sl (s.reset (c.now + d)).1) }) ⟨h.1, h.2⟩ (sleep_reset_ok _ _ _)
    · exact h
  | resetu x t =>
    intro c h
    simp only [poll]
    split
    · rename_i s _
      exact G_emit (c := { c with env := envSet c.env x (.sl (s.reset t).1) }) ⟨h.1, h.2⟩ (sleep_reset_ok _ _ _)
    · exact h
  | drop x =>
    intro c h
    simp only [poll]
    split
    · rename_i v _
      exact G_emit (c := { c with env := envDel c.env x }) ⟨h.1, h.2⟩ (named_dropOps_ok _ _)
    · exact h
  | await x =>
    intro c h
    simp only [poll]
    split
    · rename_i s _
      have hg : G n (({ c with env := envSet c.env x (.sl (s.poll c.tid c.now).1) } : Ctx).emit (s.poll c.tid c.now).2.1) :=
        G_emit (c := { c with env := envSet c.env x (.sl (s.poll c.tid c.now).1) }) ⟨h.1, h.2⟩
          (by rw [h.1]; exact sleep_poll_ok _ _ _)
      split
      · exact G_obs _ hg
      · exact hg
    · exact G_obs _ h
  | inew x p m d => intro c h; exact G_bind _ _ ⟨h.1, h.2⟩
  | tick x =>
    intro c h
    simp only [poll]
    split
    · rename_i i _
      have hg : G n (({ c with env := envSet c.env x (.iv (i.pollTick c.tid c.now).1) } : Ctx).emit (i.pollTick c.tid c.now).2.1) :=
        G_emit (c := { c with env := envSet c.env x (.iv (i.pollTick c.tid c.now).1) }) ⟨h.1, h.2⟩
          (by rw [h.1]; exact pollTick_ok _ _ _)
      split
      · exact G_obs _ hg
      · exact hg
    · exact G_obs _ h
  | ireset x =>
    intro c h
    simp only [poll]
    split
    · rename_i i _
      exact G_emit (c := { c with env := envSet c.env x (.iv (i.reset c.now).1) }) ⟨h.1, h.2⟩ (interval_reset_ok _ _ _)
    · exact h
  | restart d =>
    intro c h
    simp only [poll]
    split
    · exact ⟨h.1, h.2⟩
    · exact h
  | halt => intro c h; exact ⟨h.1, h.2⟩

theorem G_pollLines {n : Nat} (ls : List (Nat × Fut)) : ∀ {c : Ctx}, G n c → G n (pollLines ls c).2 := by
  induction ls with
  | nil => intro c h; exact h
  | cons a rest ih =>
    intro c h
    obtain ⟨ln, f⟩ := a
    simp only [pollLines]
    have h1 : G n (poll f { c with line := ln }).2 := G_poll f ⟨h.1, h.2⟩
    split
    · rename_i c1 heq
      rw [heq] at h1
      exact ih h1
    · rename_i f' c1 heq
      rw [heq] at h1
      exact h1

theorem envDropOps_ok (n : Nat) (env : List (String × Named)) : OkOps n (envDropOps env) := by
  intro o ho
  simp only [envDropOps, List.mem_flatMap] at ho
  obtain ⟨x, _, hx⟩ := ho
  exact named_dropOps_ok n x.2 o hx

theorem task_dropOps_ok (n : Nat) (t : Task) : OkOps n t.dropOps := by
  unfold Task.dropOps
  apply okOps_append _ (envDropOps_ok n _)
  split
  · exact dropFut_ok n _
  · exact okOps_nil n

theorem task_poll_ok (t : Task) (tid now inc : Nat) (a : Acc) (h : OkOps now a.ops) :
    OkOps now (t.poll tid now inc a).2.ops := by
  unfold Task.poll
  split
  · exact h
  · simp only
    have hg := G_pollLines (n := now) t.lines
      (c := ⟨now, tid, inc, 0, a.nextId, t.env, a.log, a.ops, a.shut⟩) ⟨rfl, h⟩
    split
    · exact okOps_append hg.2 (envDropOps_ok now _)
    · exact hg.2

theorem pollTasks_ok (tasks : List Task) (idx : Nat) (run : Nat → Bool) (now inc : Nat) (a : Acc)
    (h : OkOps now a.ops) : OkOps now (pollTasks tasks idx run now inc a).2.ops := by
  induction tasks generalizing idx a with
  | nil => exact h
  | cons t rest ih =>
    simp only [pollTasks]
    split
    · exact ih _ _ (task_poll_ok t idx now inc a h)
    · exact ih _ _ h

/-- **One module event of the scripted simulation preserves WakeInv**, whatever the scripts are:
    the event is `stepEv` with the operations the interpreter emitted (all admissible), followed —
    on a shutdown request — by the drop of every task and a second activate/deactivate. -/
theorem event_wakeinv {last now : Nat} (m : Mod) (k : Kind) (log : List Obs)
    (h : WakeInv last m.timer) (hw : ∀ w ∈ m.timer.wakeups, now ≤ w) :
    WakeInv now (m.event next now k log).1.timer := by
  unfold Mod.event
  simp only
  split
  · refine wakeinv_step (e := ⟨now, _, [], _⟩) h ⟨hw, ?_⟩
    exact pollTasks_ok _ _ _ _ _ _ (okOps_nil now)
  · refine wakeinv_step (e := ⟨now, _, [], _⟩) h ⟨hw, ?_⟩
    exact pollTasks_ok _ _ _ _ _ _ (okOps_nil now)
  · refine wakeinv_step (now := now) (e := ⟨now, false, _, []⟩) ?_ ⟨?_, okOps_nil now⟩
    · refine wakeinv_step (e := ⟨now, _, [], _⟩) h ⟨hw, ?_⟩
      exact pollTasks_ok _ _ _ _ _ _ (okOps_nil now)
    · refine (wakeinv_step (e := ⟨now, _, [], _⟩) h ⟨hw, ?_⟩).jw
      exact pollTasks_ok _ _ _ _ _ _ (okOps_nil now)

theorem event_last (m : Mod) (now : Nat) (k : Kind) (log : List Obs) :
    (m.event next now k log).1.last = now := by
  unfold Mod.event
  simp only
  split <;> rfl

/-! ### the whole simulation -/

/-- every module satisfies WakeInv (relative to its own last event) and no wake-up event in the
    event set is in the past -/
def SimInv (s : Sim) : Prop :=
  (∀ m ∈ s.mods, WakeInv m.last m.timer) ∧ (∀ m ∈ s.mods, ∀ w ∈ m.timer.wakeups, s.now ≤ w)

theorem listMin_le {l : List Nat} {x : Nat} (h : listMin l = some x) : ∀ w ∈ l, x ≤ w := by
  induction l generalizing x with
  | nil => intro w hw; cases hw
  | cons a r ih =>
    simp only [listMin] at h
    intro w hw
    split at h
    · rename_i hn
      cases h
      rcases List.mem_cons.mp hw with hw | hw
      · subst hw; exact Nat.le_refl _
      · cases r with
        | nil => cases hw
        | cons b r' => simp only [listMin] at hn; split at hn <;> cases hn
    · rename_i y hy
      cases h
      rcases List.mem_cons.mp hw with hw | hw
      · subst hw; exact Nat.min_le_left _ _
      · exact Nat.le_trans (Nat.min_le_right _ _) (ih hy w hw)

theorem listMin_none {l : List Nat} (h : listMin l = none) : l = [] := by
  cases l with
  | nil => rfl
  | cons a r => simp only [listMin] at h; split at h <;> cases h

theorem nextEvent_le {m : Mod} {t : Nat} {k : Kind} (h : m.nextEvent = some (t, k)) :
    ∀ w ∈ m.timer.wakeups, t ≤ w := by
  unfold Mod.nextEvent at h
  split at h
  · rename_i w0 r hw0 _
    have := listMin_le hw0
    split at h
    · cases h; exact this
    · rename_i hgt
      cases h
      intro w hw
      have := this w hw
      omega
  · rename_i w0 hw0 _
    cases h; exact listMin_le hw0
  · rename_i r hn _
    rw [listMin_none hn]
    intro w hw; cases hw
  · cases h

theorem nextEvent_none {m : Mod} (h : m.nextEvent = none) : m.timer.wakeups = [] := by
  unfold Mod.nextEvent at h
  split at h
  · split at h <;> cases h
  · cases h
  · cases h
  · rename_i hn _; exact listMin_none hn

theorem pickNext_none {mods : List Mod} {idx : Nat} (h : pickNext mods idx = none) :
    ∀ m ∈ mods, m.timer.wakeups = [] := by
  induction mods generalizing idx with
  | nil => intro m hm; cases hm
  | cons b rest ih =>
    simp only [pickNext] at h
    intro m hm
    split at h
    · split at h <;> cases h
    · cases h
    · rename_i hnb
      rcases List.mem_cons.mp hm with hm | hm
      · subst hm; exact nextEvent_none hnb
      · exact ih h m hm

/-- the event the simulation picks is no later than any wake-up event of any module -/
theorem pickNext_le {mods : List Mod} {idx i t : Nat} {k : Kind} (h : pickNext mods idx = some (i, t, k)) :
    ∀ m ∈ mods, ∀ w ∈ m.timer.wakeups, t ≤ w := by
  induction mods generalizing idx i t k with
  | nil => intro m hm; cases hm
  | cons a rest ih =>
    simp only [pickNext] at h
    intro m hm w hw
    split at h
    · rename_i t0 k0 i' t' k' hne hrest
      have h0 := nextEvent_le hne
      have hr := ih hrest
      split at h
      · rename_i hle
        cases h
        rcases List.mem_cons.mp hm with hm | hm
        · subst hm; exact h0 w hw
        · exact Nat.le_trans hle (hr m hm w hw)
      · rename_i hgt
        cases h
        rcases List.mem_cons.mp hm with hm | hm
        · subst hm; have := h0 w hw; omega
        · exact hr m hm w hw
    · rename_i t0 k0 hne hrest
      cases h
      rcases List.mem_cons.mp hm with hm | hm
      · subst hm; exact nextEvent_le hne w hw
      · rw [pickNext_none hrest m hm] at hw; cases hw
    · rename_i hne
      rcases List.mem_cons.mp hm with hm | hm
      · subst hm; rw [nextEvent_none hne] at hw; cases hw
      · exact ih h m hm w hw

theorem siminv_eventOn {s : Sim} (h : SimInv s) (i t : Nat) (k : Kind)
    (hmin : ∀ m ∈ s.mods, ∀ w ∈ m.timer.wakeups, t ≤ w) : SimInv (s.eventOn next i t k) := by
  unfold Sim.eventOn
  split
  · exact h
  · rename_i m hm
    have hmem : m ∈ s.mods := List.mem_of_getElem? hm
    simp only
    constructor
    · intro x hx
      rcases List.mem_or_eq_of_mem_set hx with hx | hx
      · exact h.1 x hx
      · subst hx
        rw [event_last]
        exact event_wakeinv m k s.log (h.1 m hmem) (hmin m hmem)
    · intro x hx w hw
      rcases List.mem_or_eq_of_mem_set hx with hx | hx
      · exact hmin x hx w hw
      · subst hx
        exact (event_wakeinv m k s.log (h.1 m hmem) (hmin m hmem)).jw w hw

theorem siminv_loop {fuel : Nat} {s s' : Sim} (h : SimInv s) (hr : Sim.loop next fuel s = some s') : SimInv s' := by
  induction fuel generalizing s with
  | zero => cases hr
  | succ n ih =>
    simp only [Sim.loop] at hr
    split at hr
    · cases hr; exact h
    · rename_i i t k hp
      exact ih (siminv_eventOn h i t k (pickNext_le hp)) hr

theorem eventOn_now (s : Sim) (i : Nat) (k : Kind) : (s.eventOn next i s.now k).now = s.now := by
  unfold Sim.eventOn
  split <;> rfl

theorem siminv_forAll {s : Sim} (h : SimInv s) (k : Kind) (n i : Nat) : SimInv (Sim.forAll next s k n i) := by
  induction n generalizing s i with
  | zero => exact h
  | succ n ih =>
    simp only [Sim.forAll]
    exact ih (siminv_eventOn h i s.now k h.2) _

/-- **For all scripts**: every module of the scripted simulation satisfies WakeInv when the
    simulation has run (start-up, event loop, `at_sim_end`). -/
theorem sim_wakeinv (progs : List (List (List (Nat × Fut)))) (fuel : Nat) (s : Sim)
    (h : Sim.run next progs fuel = some s) : SimInv s := by
  unfold Sim.run at h
  simp only at h
  have h0 : SimInv { mods := progs.map fun p => ({ progs := p } : Mod) } := by
    constructor
    · intro m hm
      simp only [List.mem_map] at hm
      obtain ⟨p, _, rfl⟩ := hm
      exact wakeinv_init
    · intro m hm w hw
      simp only [List.mem_map] at hm
      obtain ⟨p, _, rfl⟩ := hm
      cases hw
  split at h
  · cases h
  · rename_i s2 hl
    cases h
    exact siminv_forAll (siminv_loop (siminv_forAll h0 _ _ _) hl) _ _ _

/-- when the event loop stops (the event set is empty) no module has a registered timer entry
    with a deadline below `SimTime::MAX` -/
theorem loop_end_no_pending {fuel : Nat} {s s' : Sim} (h : SimInv s) (hr : Sim.loop next fuel s = some s') :
    ∀ m ∈ s'.mods, ∀ d e, HasEntry m.timer.pending d e → tMax ≤ d := by
  induction fuel generalizing s with
  | zero => cases hr
  | succ n ih =>
    simp only [Sim.loop] at hr
    split at hr
    · rename_i hp
      cases hr
      intro m hm d e hl
      apply Nat.le_of_not_lt
      intro hd
      obtain ⟨_, hmem, _, _⟩ := live_has_wakeup (h.1 m hm) hl hd
      rw [pickNext_none hp m hm] at hmem
      cases hmem
    · rename_i i t k hp
      exact ih (siminv_eventOn h i t k (pickNext_le hp)) hr

theorem siminv_init (progs : List (List (List (Nat × Fut)))) :
    SimInv { mods := progs.map fun p => ({ progs := p } : Mod) } := by
  constructor
  · intro m hm
    simp only [List.mem_map] at hm
    obtain ⟨p, _, rfl⟩ := hm
    exact wakeinv_init
  · intro m hm w hw
    simp only [List.mem_map] at hm
    obtain ⟨p, _, rfl⟩ := hm
    cases hw

end Timer

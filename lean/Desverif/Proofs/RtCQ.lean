import Desverif.Proofs.RtSim
namespace Rt
open CQ (Ev R)
open FES (minEv)

/-- the calendar queue and the abstract event set are interchangeable under the runtime -/
theorem cq_fes_sim : ESim cqES fesES R where
  add a b t v h := by
    by_cases hlt : t < a.tcur
    · right
      obtain ⟨h1, h2⟩ := CQ.add_past h t v hlt
      simp [cqES, fesES, h1, h2]
    · left
      obtain ⟨m', s', h1, h2, hr⟩ := CQ.add_ok h t v (by omega)
      exact ⟨m', s', by simp [cqES, h1], by simp [fesES, h2], hr⟩
  fetch a b h := by
    by_cases hl : a.len = 0
    · right
      obtain ⟨h1, h2⟩ := CQ.fetch_empty h hl
      simp [cqES, fesES, h1, h2]
    · left
      obtain ⟨e, m', s', h1, h2, hr⟩ := CQ.fetch_ok h hl
      exact ⟨e, m', s', by simp [cqES, h1], by simp [fesES, h2], hr⟩
  next a b h := CQ.nextTime_refines h
  len a b h := h.len

theorem build_srel (n t : Nat) (hn : 1 ≤ n) (ht : 1 ≤ t) (start : Nat) (l : Limit) :
    SRel R (build (CQ.init n t) start l) (build FES.init start l) :=
  ⟨CQ.init_R n t hn ht, rfl, rfl, rfl, rfl⟩

end Rt

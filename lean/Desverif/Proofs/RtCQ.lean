import Desverif.Proofs.RtSim
namespace Rt
open CQ (Ev R)
open FES (minEv)

theorem nextTime_refines {m : CQ.State} {s : FES.State} (h : R m s) :
    CQ.nextTime m = FES.nextTime s := by
  by_cases hl : m.len = 0
  · obtain ⟨_, h2⟩ := CQ.fetch_empty h hl
    unfold CQ.nextTime FES.nextTime
    simp only [hl, if_true]
    unfold FES.fetch at h2
    split at h2
    · cases h2
    · split at h2
      · rename_i hm; simp [hm]
      · cases h2
  · obtain ⟨e, m', s', h1, h2, _⟩ := CQ.fetch_ok h hl
    unfold CQ.nextTime FES.nextTime
    unfold CQ.fetch at h1
    simp only [hl, if_false] at h1 ⊢
    unfold FES.fetch at h2
    rw [← h.zero] at h2 ⊢
    cases hz : m.zero with
    | cons e0 z => rfl
    | nil =>
      rw [hz] at h1 h2
      simp only at h1 h2 ⊢
      rw [h1]
      cases hm : minEv s.pend with
      | none => rw [hm] at h2; cases h2
      | some e' =>
        rw [hm] at h2
        simp only [Except.ok.injEq, Prod.mk.injEq] at h2
        simp [h2.1]

/-- the calendar queue and the abstract event set are interchangeable under the runtime -/
theorem cq_fes_sim : ESim cqES fesES R where
  add a b t v h := by
    by_cases hlt : t < a.tcur
    · right
      obtain ⟨h1, h2⟩ := CQ.add_past h t v hlt
      simp [cqES, fesES, h1, h2]
    · left
      obtain ⟨m', s', h1, h2, hr⟩ := CQ.add_ok h t v (by omega)
      exact ⟨m', s', by simp [cqES, h1], by simp [fesES, h2], hr⟩
  fetch a b h := by
    by_cases hl : a.len = 0
    · right
      obtain ⟨h1, h2⟩ := CQ.fetch_empty h hl
      simp [cqES, fesES, h1, h2]
    · left
      obtain ⟨e, m', s', h1, h2, hr⟩ := CQ.fetch_ok h hl
      exact ⟨e, m', s', by simp [cqES, h1], by simp [fesES, h2], hr⟩
  next a b h := nextTime_refines h
  len a b h := h.len

theorem build_srel (n t : Nat) (hn : 1 ≤ n) (ht : 1 ≤ t) (start : Nat) (l : Limit) :
    SRel R (build (CQ.init n t) start l) (build FES.init start l) :=
  ⟨CQ.init_R n t hn ht, rfl, rfl, rfl, rfl⟩

end Rt

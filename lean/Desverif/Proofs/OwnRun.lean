/-
C20: invariants of the reference-count machine (`Own.step` / `Own.run`), fuel sufficiency, no node is
freed twice, and the generic "everything above a well-founded rank is freed" theorem.
-/
import Desverif.Proofs.OwnDissolve
namespace Own
variable {α : Type} [DecidableEq α]

/-! ### no double free: holds for every graph, every initial count function -/

structure FreedOk (s : St α) : Prop where
  nodup : s.freed.Nodup
  zero : ∀ v ∈ s.freed, s.rc v = 0

theorem step_freedOk (sem : Sem α) (s : St α) (h : FreedOk s) : FreedOk (step sem s) := by
  unfold step
  split
  · exact h
  · rename_i v w hw
    split
    · exact ⟨h.nodup, h.zero⟩
    · rename_i hv0
      simp only
      split
      · rename_i hv1
        split
        · exact ⟨h.nodup, h.zero⟩
        · rename_i es1 rel hc
          have hvn : v ∉ s.freed := fun hin => by have := h.zero v hin; omega
          refine ⟨List.nodup_cons.mpr ⟨hvn, h.nodup⟩, ?_⟩
          intro x hx
          simp only
          rcases List.mem_cons.mp hx with rfl | hin
          · simp; omega
          · have hne : x ≠ v := fun hc => hvn (hc ▸ hin)
            simp [hne, h.zero x hin]
      · rename_i hv1
        refine ⟨h.nodup, ?_⟩
        intro x hx
        simp only
        have hne : x ≠ v := fun hc => by have := h.zero x hx; rw [hc] at this; omega
        simp [hne, h.zero x hx]

theorem run_freedOk (sem : Sem α) : ∀ (n : Nat) (s : St α), FreedOk s → FreedOk (run sem n s) := by
  intro n
  induction n with
  | zero => intro s h; unfold run; split <;> exact ⟨h.nodup, h.zero⟩
  | succ n ih =>
    intro s h
    unfold run
    split
    · exact h
    · exact ih _ (step_freedOk sem s h)

/-! ### the consistency invariant -/

structure Inv (sem : Sem α) (es₀ : List (Edge α)) (live₀ : α → Prop) (s : St α) : Prop where
  noErr : s.err = none
  cnt : ∀ v, s.rc v = inDeg s.es v + s.work.count v
  freedOut : ∀ v ∈ s.freed, ∀ e ∈ s.es, e.src ≠ v
  freedRc : ∀ v ∈ s.freed, s.rc v = 0
  alive : ∀ v, live₀ v → v ∉ s.freed → 1 ≤ s.rc v
  sub : ∀ e ∈ s.es, e ∈ es₀
  keep : ∀ e ∈ es₀, e.via = Via.field → e.src ∉ s.freed → e ∈ s.es
  owner : ∀ e ∈ s.es, e.isConn = true → ∀ c, sem.isCtx c = true → sem.isGate e.src = true →
    (⟨c, e.src, Via.field⟩ : Edge α) ∈ es₀ → c ∉ s.freed

theorem filter_ne_eq (es : List (Edge α)) (v : α) :
    es.filter (fun e => decide (e.src ≠ v)) = es.filter (fun e => !decide (e.src = v)) := by
  congr 1
  funext e
  simp

theorem step_inv (sem : Sem α) (es₀ : List (Edge α)) (live₀ : α → Prop) (s : St α)
    (h : Inv sem es₀ live₀ s) (hw : s.work ≠ []) :
    Inv sem es₀ live₀ (step sem s) ∧
      (step sem s).work.length + (step sem s).es.length + 1 = s.work.length + s.es.length := by
  unfold step
  split
  · rename_i hnil; exact absurd hnil hw
  · rename_i v w hwork
    have hcv := h.cnt v
    rw [hwork, List.count_cons_self] at hcv
    split
    · rename_i hv0; omega
    · rename_i hv0
      simp only
      split
      · -- last handle: the node is freed
        rename_i hv1
        obtain ⟨r, hr, sh, cl⟩ := cutOnFree_spec sem s.es v
        rw [hr]
        simp only
        have hvn : v ∉ s.freed := fun hin => by have := h.freedRc v hin; omega
        have hpart : ∀ x, inDeg r.1 x =
            ((r.1.filter (fun e => decide (e.src = v))).map (·.tgt)).count x +
              inDeg (r.1.filter (fun e => !decide (e.src = v))) x := by
          intro x
          rw [count_map_tgt]
          exact countP_partition _ _ _
        have hlen : r.1.length = ((r.1.filter (fun e => decide (e.src = v))).map (·.tgt)).length +
            (r.1.filter (fun e => decide (e.src ≠ v))).length := by
          rw [List.length_map, filter_ne_eq]
          exact length_partition _ _
        refine ⟨⟨h.noErr, ?_, ?_, ?_, ?_, ?_, ?_, ?_⟩, ?_⟩
        · intro x
          have a := h.cnt x
          have b := sh.cnt x
          have c := hpart x
          rw [hwork] at a
          simp only [List.count_append]
          by_cases hx : x = v
          · subst hx
            simp only [List.count_cons_self] at a
            simp
            omega
          · have hx' : v ≠ x := fun hc => hx hc.symm
            simp only [List.count_cons, beq_iff_eq, hx', if_false] at a
            simp [hx]
            omega
        · intro x hx e he
          rw [List.mem_filter] at he
          rcases List.mem_cons.mp hx with rfl | hin
          · simpa using he.2
          · exact h.freedOut x hin e (sh.sub.subset he.1)
        · intro x hx
          rcases List.mem_cons.mp hx with rfl | hin
          · simp; omega
          · have hne : x ≠ v := fun hc => hvn (hc ▸ hin)
            simp [hne, h.freedRc x hin]
        · intro x hl hx
          have hne : x ≠ v := fun hc => hx (hc ▸ List.mem_cons_self ..)
          have := h.alive x hl (fun hin => hx (List.mem_cons_of_mem _ hin))
          simp [hne, this]
        · intro e he
          exact h.sub e (sh.sub.subset (List.mem_filter.mp he).1)
        · intro e he hf hsrc
          have hne : e.src ≠ v := fun hc => hsrc (hc ▸ List.mem_cons_self ..)
          have hin := h.keep e he hf (fun hin => hsrc (List.mem_cons_of_mem _ hin))
          rw [List.mem_filter]
          exact ⟨sh.keep e hin hf, by simpa using hne⟩
        · intro e he hconn c hc hg hown hcf
          have he1 : e ∈ r.1 := (List.mem_filter.mp he).1
          rcases List.mem_cons.mp hcf with rfl | hin
          · have hk := h.keep _ hown rfl hvn
            have := cl hc e.src hk hg e he1 rfl
            rw [hconn] at this
            cases this
          · exact h.owner e (sh.sub.subset he1) hconn c hc hg hown hin
        · have a := sh.len
          simp only [List.length_append]
          rw [hwork]
          simp only [List.length_cons]
          omega
      · -- other handles remain
        rename_i hv1
        refine ⟨⟨h.noErr, ?_, h.freedOut, ?_, ?_, h.sub, h.keep, h.owner⟩, ?_⟩
        · intro x
          have a := h.cnt x
          rw [hwork] at a
          simp only
          by_cases hx : x = v
          · subst hx
            simp only [List.count_cons_self] at a
            simp
            omega
          · have hx' : v ≠ x := fun hc => hx hc.symm
            simp only [List.count_cons, beq_iff_eq, hx', if_false] at a
            simp [hx]
            omega
        · intro x hx
          have hne : x ≠ v := fun hc => by have := h.freedRc x hx; rw [hc] at this; omega
          simp [hne, h.freedRc x hx]
        · intro x hl hx
          simp only
          by_cases hxv : x = v
          · subst hxv; simp; omega
          · simp [hxv, h.alive x hl hx]
        · rw [hwork]
          simp only [List.length_cons]
          omega

/-- **fuel**: `#work + #edges` steps empty the work-list without an error -/
theorem run_inv (sem : Sem α) (es₀ : List (Edge α)) (live₀ : α → Prop) :
    ∀ (n : Nat) (s : St α), Inv sem es₀ live₀ s → s.work.length + s.es.length ≤ n →
      Inv sem es₀ live₀ (run sem n s) ∧ (run sem n s).work = [] := by
  intro n
  induction n with
  | zero =>
    intro s h hn
    have : s.work = [] := List.eq_nil_of_length_eq_zero (by omega)
    unfold run
    simp [this, h]
  | succ n ih =>
    intro s h hn
    unfold run
    split
    · rename_i hnil; exact ⟨h, hnil⟩
    · rename_i hne
      obtain ⟨hi, hm⟩ := step_inv sem es₀ live₀ s h hne
      exact ih _ hi (by omega)

theorem init_inv (sem : Sem α) (es : List (Edge α)) (roots : List α) :
    Inv sem es (fun v => 1 ≤ inDeg es v + roots.count v) (initSt es roots) := by
  refine ⟨rfl, fun _ => rfl, ?_, ?_, ?_, fun _ h => h, fun _ h _ _ => h, ?_⟩ <;>
    simp [initSt]

theorem init_freedOk (es : List (Edge α)) (roots : List α) : FreedOk (initSt es roots) :=
  ⟨by simp [initSt], by simp [initSt]⟩

/-! ### everything ranked is freed -/

/-- hypotheses on the initial graph: `good` nodes have only `good` predecessors; ordinary fields go up
    in rank; a connection slot belongs to a gate owned by a module context of smaller rank than the
    slot's target; removable timer entries never point to `good` nodes; every source is itself held -/
structure Ranked (sem : Sem α) (es₀ : List (Edge α)) (roots : List α) (good : α → Prop)
    (rank : α → Nat) : Prop where
  pred : ∀ e ∈ es₀, good e.tgt → good e.src
  field : ∀ e ∈ es₀, e.via = Via.field → good e.tgt → rank e.src < rank e.tgt
  conn : ∀ e ∈ es₀, e.isConn = true → good e.tgt →
    sem.isGate e.src = true ∧ ∃ c, sem.isCtx c = true ∧ (⟨c, e.src, Via.field⟩ : Edge α) ∈ es₀ ∧
      rank c < rank e.tgt
  entry : ∀ e ∈ es₀, ∀ h, e.via = Via.entry h → ¬ good e.tgt
  held : ∀ e ∈ es₀, good e.src → 1 ≤ inDeg es₀ e.src + roots.count e.src

omit [DecidableEq α] in
theorem via_cases (v : Via α) : v = Via.field ∨ v.isConn = true ∨ ∃ h, v = Via.entry h := by
  cases v with
  | field => exact Or.inl rfl
  | peer j => exact Or.inr (Or.inl rfl)
  | chan j => exact Or.inr (Or.inl rfl)
  | entry h => exact Or.inr (Or.inr ⟨h, rfl⟩)

theorem ranked_freed (sem : Sem α) (es₀ : List (Edge α)) (roots : List α) (good : α → Prop)
    (rank : α → Nat) (hR : Ranked sem es₀ roots good rank) (s : St α)
    (hI : Inv sem es₀ (fun v => 1 ≤ inDeg es₀ v + roots.count v) s) (hw : s.work = []) :
    ∀ (n : Nat) (v : α), rank v ≤ n → good v → 1 ≤ inDeg es₀ v + roots.count v → v ∈ s.freed := by
  intro n
  induction n using Nat.strongRecOn with
  | _ n ih =>
    intro v hn hg hl
    apply Classical.byContradiction
    intro hnf
    have h1 := hI.alive v hl hnf
    have h2 := hI.cnt v
    rw [hw] at h2
    simp only [List.count_nil, Nat.add_zero] at h2
    have hpos : 0 < inDeg s.es v := by omega
    unfold inDeg at hpos
    rw [List.countP_pos_iff] at hpos
    obtain ⟨e, he, het⟩ := hpos
    have het : e.tgt = v := by simpa using het
    have he0 := hI.sub e he
    have hgs : good e.src := hR.pred e he0 (het ▸ hg)
    have hsrcnf : e.src ∉ s.freed := fun hin => hI.freedOut e.src hin e he rfl
    rcases via_cases e.via with hf | hc | ⟨h, hh⟩
    · have hlt := hR.field e he0 hf (het ▸ hg)
      rw [het] at hlt
      exact hsrcnf (ih (rank e.src) (by omega) e.src (Nat.le_refl _) hgs (hR.held e he0 hgs))
    · obtain ⟨hgate, c, hctx, hown, hlt⟩ := hR.conn e he0 hc (het ▸ hg)
      rw [het] at hlt
      have hcnf := hI.owner e he hc c hctx hgate hown
      have hgc : good c := hR.pred _ hown hgs
      exact hcnf (ih (rank c) (by omega) c (Nat.le_refl _) hgc (hR.held _ hown hgc))
    · exact hR.entry e he0 h hh (het ▸ hg)

/-- dropping the roots of a ranked graph: no error, every good node freed exactly once -/
theorem dropRoots_ranked (sem : Sem α) (es : List (Edge α)) (roots : List α) (good : α → Prop)
    (rank : α → Nat) (hR : Ranked sem es roots good rank) :
    (dropRoots sem es roots).err = none ∧
      ∀ v, good v → 1 ≤ inDeg es v + roots.count v → (dropRoots sem es roots).freed.count v = 1 := by
  have hi := run_inv sem es _ (roots.length + es.length) (initSt es roots) (init_inv sem es roots)
    (by simp [initSt])
  have hf := run_freedOk sem (roots.length + es.length) (initSt es roots) (init_freedOk es roots)
  refine ⟨hi.1.noErr, ?_⟩
  intro v hg hl
  have hin := ranked_freed sem es roots good rank hR _ hi.1 hi.2 (rank v) v (Nat.le_refl _) hg hl
  show List.count v (run sem (roots.length + es.length) (initSt es roots)).freed = 1
  rw [hf.nodup.count, if_pos hin]

end Own

import Desverif.Proofs.RtStep
namespace Rt

/-! Stepping composes to the uninterrupted run **from every paused state** a session can reach
(also after external adds between earlier steps), and on the calendar-queue runtime itself. -/

/-- no command changes the builder's limit (steps restore it) -/
theorem execCmd_limit (prog : Prog) (fuel : Nat) {s : S} (h : RInv s) (c : Cmd) :
    (execCmd fesES prog fuel s c).1.limit = s.limit := by
  cases c with
  | add time node =>
    simp only [execCmd]
    unfold addEvent; split
    · rfl
    · split <;> rfl
  | stepN n => rfl
  | stepUntil t => rfl
  | runAll => exact (dispatchAll_run prog fuel h).2

theorem execCmds_limit (prog : Prog) (fuel : Nat) (cs : List Cmd) : ∀ {s : S}, RInv s →
    (execCmds fesES prog fuel s cs).1.limit = s.limit := by
  induction cs with
  | nil => intro s _; rfl
  | cons c cs ih =>
    intro s h
    have r1 := execCmd_run prog fuel h c
    simp only [execCmds]
    rw [ih r1.inv', execCmd_limit prog fuel h c]

/-- transfer of `stepped_eq_run_spec` to any event-set implementation that simulates the abstract
    one, from any pair of related states -/
theorem stepped_eq_run_sim {σ : Type} {E : ES σ} {Rel : σ → FES.State → Prop}
    (Sm : ESim E fesES Rel) (prog : Prog) (fuel : Nat) (steps : List Cmd)
    {s : State σ} {t : S} (hrel : SRel Rel s t) (hl : t.limit = .none)
    (hall : ∀ c ∈ steps, c.isStep = true)
    (hdone : E.len (execCmds E prog fuel s (steps ++ [.runAll])).1.es = 0) :
    ∃ K, ∀ K', K ≤ K' →
      (dispatchAll E prog K' s).2 = allObs (execCmds E prog fuel s (steps ++ [.runAll])).2 ∧
      paused E (dispatchAll E prog K' s).1 =
        paused E (execCmds E prog fuel s (steps ++ [.runAll])).1 := by
  obtain ⟨ho, hr⟩ := execCmds_sim Sm prog fuel (steps ++ [.runAll]) hrel
  have hlen : FES.len (execCmds fesES prog fuel t (steps ++ [.runAll])).1.es = 0 := by
    have := Sm.len _ _ hr.es
    show fesES.len _ = 0
    rw [← this]; exact hdone
  obtain ⟨K, hK⟩ := stepped_eq_run_spec prog fuel steps t hl hall hlen
  refine ⟨K, fun K' hKK => ?_⟩
  obtain ⟨h1, h2⟩ := dispatchAll_sim Sm prog K' hrel
  have h3 := hK K' hKK
  refine ⟨?_, ?_⟩
  · rw [h1, h3, ho]
  · rw [paused_sim Sm h2, paused_sim Sm hr, h3]

/-- on a list with non-decreasing timestamps "up to the first one later than `T`" is "exactly
    those with timestamp ≤ `T`" -/
theorem takeWhile_eq_filter_of_mono (T : Nat) : ∀ (l : List (Nat × Nat)),
    (l.map (·.2)).Pairwise (· ≤ ·) →
    l.takeWhile (fun p => decide (p.2 ≤ T)) = l.filter (fun p => decide (p.2 ≤ T)) := by
  intro l
  induction l with
  | nil => intro _; rfl
  | cons a l ih =>
    intro h
    rw [List.map_cons, List.pairwise_cons] at h
    by_cases ha : a.2 ≤ T
    · simp only [List.takeWhile_cons, List.filter_cons, ha, decide_true, if_true]
      rw [ih h.2]
    · simp only [List.takeWhile_cons, List.filter_cons, ha, decide_false, Bool.false_eq_true, if_false]
      symm
      rw [List.filter_eq_nil_iff]
      intro x hx
      have := h.1 x.2 (List.mem_map_of_mem hx)
      simp only [decide_eq_true_eq]; omega

end Rt

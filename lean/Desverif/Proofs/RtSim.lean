import Desverif.Model.Rt
import Desverif.Proofs.CQRefine
namespace Rt
open CQ (Ev)

/-! Generic simulation: two event sets related by `Rel` give the same runtime behaviour. -/

structure ESim {σ τ : Type} (E : ES σ) (F : ES τ) (Rel : σ → τ → Prop) : Prop where
  add : ∀ a b t v, Rel a b →
    (∃ a' b', E.add a t v = some a' ∧ F.add b t v = some b' ∧ Rel a' b') ∨
    (E.add a t v = none ∧ F.add b t v = none)
  fetch : ∀ a b, Rel a b →
    (∃ e a' b', E.fetch a = some (e, a') ∧ F.fetch b = some (e, b') ∧ Rel a' b') ∨
    (E.fetch a = none ∧ F.fetch b = none)
  next : ∀ a b, Rel a b → E.nextTime a = F.nextTime b
  len : ∀ a b, Rel a b → E.len a = F.len b

variable {σ τ : Type} {E : ES σ} {F : ES τ} {Rel : σ → τ → Prop}

/-- runtime states agree on everything but the event set, which is related -/
structure SRel (Rel : σ → τ → Prop) (s : State σ) (t : State τ) : Prop where
  es : Rel s.es t.es
  now : s.now = t.now
  itr : s.itr = t.itr
  limit : s.limit = t.limit
  scheduled : s.scheduled = t.scheduled

macro "triv" : tactic => `(tactic| first | rfl | trivial)

theorem addEvent_sim (S : ESim E F Rel) {s : State σ} {t : State τ} (h : SRel Rel s t)
    (time node : Nat) :
    (addEvent E s time node).2 = (addEvent F t time node).2 ∧
      SRel Rel (addEvent E s time node).1 (addEvent F t time node).1 := by
  unfold addEvent
  rw [← h.now]
  by_cases hlt : time < s.now
  · simp only [hlt, if_true]; exact ⟨by triv, h⟩
  · simp only [hlt, if_false]
    rcases S.add s.es t.es time node h.es with ⟨a', b', ha, hb, hr⟩ | ⟨ha, hb⟩
    · simp only [ha, hb]
      exact ⟨by triv, ⟨hr, by first | rfl | exact h.now, h.itr, h.limit, by simp [h.scheduled]⟩⟩
    · simp only [ha, hb]; exact ⟨by triv, h⟩

theorem runActs_sim (S : ESim E F Rel) (acts : List Act) : ∀ {s : State σ} {t : State τ},
    SRel Rel s t → (runActs E s acts).2 = (runActs F t acts).2 ∧
      SRel Rel (runActs E s acts).1 (runActs F t acts).1 := by
  induction acts with
  | nil => intro s t h; exact ⟨rfl, h⟩
  | cons a as ih =>
    intro s t h
    obtain ⟨h1, h2⟩ := addEvent_sim S h (actTime s.now a) a.node
    simp only [runActs]
    rw [← h.now]
    obtain ⟨h3, h4⟩ := ih h2
    exact ⟨by rw [h1, h3], h4⟩

theorem stepU_sim (S : ESim E F Rel) (prog : Prog) {s : State σ} {t : State τ}
    (h : SRel Rel s t) :
    (∃ s' t' os, stepU E prog s = some (s', os) ∧ stepU F prog t = some (t', os) ∧ SRel Rel s' t') ∨
    (stepU E prog s = none ∧ stepU F prog t = none) := by
  unfold stepU
  rcases S.fetch s.es t.es h.es with ⟨e, a', b', ha, hb, hr⟩ | ⟨ha, hb⟩
  · left
    simp only [ha, hb, handle]
    have h1 : SRel Rel { s with es := a', itr := s.itr + 1, now := e.time }
        { t with es := b', itr := t.itr + 1, now := e.time } :=
      ⟨hr, rfl, by simp [h.itr], h.limit, h.scheduled⟩
    obtain ⟨h3, h4⟩ := runActs_sim S (prog.getD e.val []) h1
    exact ⟨_, _, _, rfl, by rw [h3], h4⟩
  · right; simp only [ha, hb]; exact ⟨trivial, trivial⟩

theorem limitHit_sim (S : ESim E F Rel) {s : State σ} {t : State τ} (h : SRel Rel s t) :
    limitHit E s = limitHit F t := by
  unfold limitHit
  rw [h.limit, S.next _ _ h.es, h.itr]

theorem dispatchEvent_sim (S : ESim E F Rel) (prog : Prog) {s : State σ} {t : State τ}
    (h : SRel Rel s t) :
    (dispatchEvent E prog s).2 = (dispatchEvent F prog t).2 ∧
      SRel Rel (dispatchEvent E prog s).1 (dispatchEvent F prog t).1 := by
  unfold dispatchEvent
  rw [S.len _ _ h.es, limitHit_sim S h]
  by_cases h0 : F.len t.es = 0
  · simp only [h0, if_true]; exact ⟨by triv, h⟩
  · simp only [h0, if_false]
    by_cases h1 : limitHit F t = true
    · simp only [h1, if_true]; exact ⟨by triv, h⟩
    · simp only [h1]
      rcases stepU_sim S prog h with ⟨s', t', os, hs, ht, hr⟩ | ⟨hs, ht⟩
      · simp only [hs, ht]; exact ⟨by triv, hr⟩
      · simp only [hs, ht]; exact ⟨by triv, h⟩

theorem dispatchAll_sim (S : ESim E F Rel) (prog : Prog) (fuel : Nat) :
    ∀ {s : State σ} {t : State τ}, SRel Rel s t →
    (dispatchAll E prog fuel s).2 = (dispatchAll F prog fuel t).2 ∧
      SRel Rel (dispatchAll E prog fuel s).1 (dispatchAll F prog fuel t).1 := by
  induction fuel with
  | zero => intro s t h; exact ⟨rfl, h⟩
  | succ fuel ih =>
    intro s t h
    obtain ⟨h1, h2⟩ := dispatchEvent_sim S prog h
    simp only [dispatchAll]
    rcases hs : dispatchEvent E prog s with ⟨s', os, b⟩
    rcases ht : dispatchEvent F prog t with ⟨t', os', b'⟩
    rw [hs, ht] at h1 h2
    simp only [Prod.mk.injEq] at h1
    obtain ⟨rfl, rfl⟩ := h1
    cases b with
    | true => exact ⟨rfl, h2⟩
    | false =>
      obtain ⟨h3, h4⟩ := ih h2
      simp only
      exact ⟨by rw [h3], h4⟩

theorem withLimit_sim {s : State σ} {t : State τ} (h : SRel Rel s t) (l : Limit) :
    SRel Rel { s with limit := l } { t with limit := l } :=
  ⟨h.es, h.now, h.itr, rfl, h.scheduled⟩

theorem execCmd_sim (S : ESim E F Rel) (prog : Prog) (fuel : Nat) {s : State σ} {t : State τ}
    (h : SRel Rel s t) (c : Cmd) :
    (execCmd E prog fuel s c).2 = (execCmd F prog fuel t c).2 ∧
      SRel Rel (execCmd E prog fuel s c).1 (execCmd F prog fuel t c).1 := by
  cases c with
  | add time node =>
    obtain ⟨h1, h2⟩ := addEvent_sim S h time node
    simp only [execCmd]; exact ⟨by rw [h1], h2⟩
  | stepN n =>
    simp only [execCmd, dispatchN]
    rw [h.itr, h.limit]
    obtain ⟨h1, h2⟩ := dispatchAll_sim S prog fuel (withLimit_sim h (.eventCount (t.itr + n)))
    rw [h.itr] at h1 h2
    exact ⟨h1, withLimit_sim h2 _⟩
  | stepUntil tt =>
    simp only [execCmd, dispatchUntil]
    rw [h.limit]
    obtain ⟨h1, h2⟩ := dispatchAll_sim S prog fuel (withLimit_sim h (.simTime tt))
    exact ⟨h1, withLimit_sim h2 _⟩
  | runAll => exact dispatchAll_sim S prog fuel h

theorem paused_sim (S : ESim E F Rel) {s : State σ} {t : State τ} (h : SRel Rel s t) :
    paused E s = paused F t := by
  simp [paused, h.itr, h.now, S.len _ _ h.es, h.scheduled]

theorem execCmds_sim (S : ESim E F Rel) (prog : Prog) (fuel : Nat) (cs : List Cmd) :
    ∀ {s : State σ} {t : State τ}, SRel Rel s t →
    (execCmds E prog fuel s cs).2 = (execCmds F prog fuel t cs).2 ∧
      SRel Rel (execCmds E prog fuel s cs).1 (execCmds F prog fuel t cs).1 := by
  induction cs with
  | nil => intro s t h; exact ⟨rfl, h⟩
  | cons c cs ih =>
    intro s t h
    obtain ⟨h1, h2⟩ := execCmd_sim S prog fuel h c
    obtain ⟨h3, h4⟩ := ih h2
    simp only [execCmds]
    exact ⟨by rw [h1, h3, paused_sim S h2], h4⟩

theorem drain_sim (S : ESim E F Rel) (fuel : Nat) : ∀ {a : σ} {b : τ}, Rel a b →
    drain E fuel a = drain F fuel b := by
  induction fuel with
  | zero => intro a b _; rfl
  | succ fuel ih =>
    intro a b h
    simp only [drain]
    rcases S.fetch a b h with ⟨e, a', b', ha, hb, hr⟩ | ⟨ha, hb⟩
    · simp only [ha, hb]; rw [ih hr]
    · simp only [ha, hb]

end Rt

/-
Bridge lemmas for Props/C07: facts about the abstract server world carried over to the model
of the code.
-/
import Desverif.Proofs.ChanKernel
namespace ChanInv
open Chan (Msg Metrics DropB Eff Fate Err State)
open ChanSrv (Srv bytes drain exitOf)
open ChanRun ChanRefine

/-- every successful run of the model is matched by a run of the abstract server in a related
    world that satisfies the invariant -/
theorem minv {mt : Metrics} {ops : List Op} {w : World State} (h : mrun mt ops = .ok w) :
    ∃ ws, srun mt ops = .ok ws ∧ WR w ws ∧ SInv mt ws := by
  obtain ⟨ws, h1, h2⟩ := mrun_ok h
  exact ⟨ws, h1, h2, srun_SInv h1⟩

/-- … and, if no offered message has jitter, the kernel-order invariant -/
theorem minvK {mt : Metrics} {ops : List Op} {w : World State} (h : mrun mt ops = .ok w)
    (hj : ∀ m ∈ w.offered, m.j = 0) :
    ∃ ws, srun mt ops = .ok ws ∧ WR w ws ∧ SInv mt ws ∧ KInv mt ws := by
  obtain ⟨ws, h1, h2⟩ := mrun_ok h
  obtain ⟨hI, hK⟩ := runFrom_Inv mt ops (init_SInv mt) (init_KInv mt) h1 (by rw [← h2.offered]; exact hj)
  exact ⟨ws, h1, h2, hI, hK⟩

theorem busy_serving {s : State} {a : Srv} (h : R s a) (hb : s.busy = true) :
    a.serving = some s.finish := by
  have h1 := h.busy
  have h2 := h.finish
  rw [hb] at h1
  cases hs : a.serving with
  | none => rw [hs] at h1; simp at h1
  | some f => rw [hs] at h2; simp at h2; rw [h2]

theorem idle_serving {s : State} {a : Srv} (h : R s a) (hb : s.busy = false) :
    a.serving = none := by
  have h1 := h.busy
  rw [hb] at h1
  cases hs : a.serving with
  | none => rfl
  | some f => rw [hs] at h1; simp at h1

/-- the first waiting message is started by the next unbusy dispatch -/
theorem drained_cons (mt : Metrics) (now : Nat) (m : Msg) (q : List Msg) :
    ∃ more, drained mt now (m :: q) = m :: more := by
  by_cases htx : m.tx = 0
  · exact ⟨drained mt now q, by simp [drained, drain, htx]⟩
  · exact ⟨[], by simp [drained, drain, htx]⟩

end ChanInv

/-
Invariants of the abstract FIFO server embedded in the event world (`ChanRun.World Srv`),
preserved by every step of every script.
-/
import Desverif.Model.ChanRun
namespace ChanInv
open Chan (Msg Metrics DropB Eff Fate Err)
open ChanSrv (Srv bytes drain exitOf)
open ChanRun

/-- the exit event of a message whose transmission starts at `p.1` -/
def exitFor (mt : Metrics) (p : Nat × Msg) : Exit :=
  ⟨p.1, p.1 + (mt.latency + p.2.tx + p.2.j), p.2.id⟩

/-! ### what `drain` produces -/

/-- messages started by a drain -/
def drained (mt : Metrics) (now : Nat) (q : List Msg) : List Msg :=
  (drain mt now q).2.2.map (·.1)

theorem drain_started (mt : Metrics) (now : Nat) (q : List Msg) :
    withFate .started (drain mt now q).2.2 = drained mt now q ∧
    withFate .droppedBusy (drain mt now q).2.2 = [] ∧
    withFate .droppedFull (drain mt now q).2.2 = [] := by
  induction q with
  | nil => simp [drain, drained, withFate]
  | cons m q ih =>
    by_cases htx : m.tx = 0
    · obtain ⟨h1, h2, h3⟩ := ih
      simp only [drained] at h1 ⊢
      simp only [drain, htx, if_true, withFate] at h1 h2 h3 ⊢
      simp [h1, h2, h3]
    · simp [drain, drained, htx, withFate]

theorem drain_split (mt : Metrics) (now : Nat) (q : List Msg) :
    drained mt now q ++ (drain mt now q).1.queue = q := by
  induction q with
  | nil => simp [drain, drained]
  | cons m q ih =>
    by_cases htx : m.tx = 0
    · simp only [drained] at ih ⊢
      simp only [drain, htx, if_true, List.map_cons, List.cons_append, ih]
    · simp [drain, drained, htx]

theorem drain_exits (mt : Metrics) (now : Nat) (q : List Msg) :
    exitsOf now (drain mt now q).2.1 = (drained mt now q).map (fun m => exitFor mt (now, m)) := by
  induction q with
  | nil => simp [drain, drained, exitsOf]
  | cons m q ih =>
    by_cases htx : m.tx = 0
    · simp only [drained, exitsOf] at ih ⊢
      simp only [drain, htx, if_true, List.map_cons, exitOf, List.filterMap_cons, ih]
      simp [exitFor, htx]
    · simp [drain, drained, htx, exitsOf, exitOf, exitFor]

theorem drain_unbusy (mt : Metrics) (now : Nat) (q : List Msg) :
    unbusyTimes (drain mt now q).2.1 = (drain mt now q).1.serving.toList := by
  induction q with
  | nil => simp [drain, unbusyTimes]
  | cons m q ih =>
    by_cases htx : m.tx = 0
    · simp only [unbusyTimes] at ih ⊢
      simp only [drain, htx, if_true, exitOf, List.filterMap_cons, ih]
    · simp [drain, htx, unbusyTimes, exitOf]

theorem drain_idle (mt : Metrics) (now : Nat) (q : List Msg)
    (h : (drain mt now q).1.serving = none) : (drain mt now q).1.queue = [] := by
  induction q with
  | nil => simp [drain]
  | cons m q ih =>
    by_cases htx : m.tx = 0
    · simp only [drain, htx, if_true] at h ⊢; exact ih h
    · simp [drain, htx] at h

theorem drain_busy (mt : Metrics) (now : Nat) (q : List Msg) (f : Nat)
    (h : (drain mt now q).1.serving = some f) :
    ∃ pre m, drained mt now q = pre ++ [m] ∧ f = now + m.tx ∧ 0 < m.tx := by
  induction q with
  | nil => simp [drain] at h
  | cons m q ih =>
    by_cases htx : m.tx = 0
    · simp only [drain, htx, if_true] at h
      obtain ⟨pre, x, h1, h2, h3⟩ := ih h
      refine ⟨m :: pre, x, ?_, h2, h3⟩
      simp only [drained] at h1 ⊢
      simp only [drain, htx, if_true, List.map_cons, h1, List.cons_append]
    · simp only [drain, htx, if_false, Option.some.injEq] at h
      exact ⟨[], m, by simp [drained, drain, htx], h.symm, by omega⟩

theorem drain_horizon (mt : Metrics) (now : Nat) (q : List Msg) :
    now ≤ (drain mt now q).1.serving.getD now ∧
    ∀ m ∈ drained mt now q, now + m.tx ≤ (drain mt now q).1.serving.getD now := by
  induction q with
  | nil => simp [drain, drained]
  | cons m q ih =>
    by_cases htx : m.tx = 0
    · obtain ⟨h1, h2⟩ := ih
      simp only [drained] at h2 ⊢
      simp only [drain, htx, if_true, List.map_cons, List.mem_cons]
      refine ⟨h1, ?_⟩
      intro x hx
      rcases hx with rfl | hx
      · omega
      · exact h2 x hx
    · simp [drain, drained, htx]

theorem drain_noOverlap (mt : Metrics) (now : Nat) (q : List Msg) :
    ((drained mt now q).map (fun m => (now, m))).Pairwise (fun a b => a.1 + a.2.tx ≤ b.1) := by
  induction q with
  | nil => simp [drain, drained]
  | cons m q ih =>
    by_cases htx : m.tx = 0
    · simp only [drained] at ih ⊢
      simp only [drain, htx, if_true, List.map_cons, List.pairwise_cons]
      refine ⟨?_, ih⟩
      intro b hb
      simp only [List.mem_map] at hb
      obtain ⟨x, _, rfl⟩ := hb
      simp
    · simp [drain, drained, htx]

/-! ### the invariant -/

structure SInv0 (mt : Metrics) (w : World Srv) : Prop where
  busy : ∀ f, w.chan.serving = some f →
    w.pend = [f] ∧ w.clock ≤ f ∧
      ∃ pre s m, w.started = pre ++ [(s, m)] ∧ f = s + m.tx ∧ 0 < m.tx
  idle : w.chan.serving = none → w.pend = [] ∧ w.chan.queue = []
  horizon : ∀ p ∈ w.started, p.1 + p.2.tx ≤ w.chan.serving.getD w.clock
  startLe : ∀ p ∈ w.started, p.1 ≤ w.clock
  perm : w.offered.Perm (w.started.map (·.2) ++ w.chan.queue ++ w.dropBusy ++ w.dropFull)
  fifo : (w.started.map (·.2) ++ w.chan.queue).Sublist w.offered
  exits : w.exits = w.started.map (exitFor mt)
  noOverlap : w.started.Pairwise (fun a b => a.1 + a.2.tx ≤ b.1)

theorem init_SInv0 (mt : Metrics) : SInv0 mt (World.init spec) := by
  refine ⟨?_, ?_, ?_, ?_, ?_, ?_, ?_, ?_⟩ <;> simp [World.init, spec, ChanSrv.init]

theorem startedOf_single (now : Nat) (m : Msg) (f : Fate) :
    startedOf now [(m, f)] = if f = .started then [(now, m)] else [] := by
  simp only [startedOf, withFate, List.filterMap_cons, List.filterMap_nil]
  split <;> simp_all

theorem withFate_single (g f : Fate) (m : Msg) :
    withFate g [(m, f)] = if f = g then [m] else [] := by
  simp only [withFate, List.filterMap_cons, List.filterMap_nil]
  split <;> simp_all

theorem any_lt_false {l : List Nat} {t : Nat} (h : ¬ l.any (· < t) = true) : ∀ u ∈ l, t ≤ u := by
  intro u hu
  simp only [List.any_eq_true, decide_eq_true_eq, not_exists, not_and] at h
  have := h u hu
  omega

theorem popMin_single (f : Nat) : popMin [f] = some (f, []) := by
  simp [popMin, minTime]

/-- an offer preserves the invariant -/
theorem offer_SInv0 (mt : Metrics) {w w' : World Srv} (hI : SInv0 mt w) (t : Nat) (m : Msg)
    (h : step spec mt w (.offer t m) = .ok w') : SInv0 mt w' := by
  simp only [step] at h
  by_cases h1 : t < w.clock
  · simp [h1] at h
  simp only [h1, if_false] at h
  by_cases h2 : w.pend.any (· < t) = true
  · simp [h2] at h
  simp only [h2, Bool.false_eq_true, if_false] at h
  by_cases h3 : w.kq.any (·.time < t) = true
  · simp [h3] at h
  simp only [h3, Bool.false_eq_true, if_false, Except.ok.injEq] at h
  have hpend := any_lt_false h2
  have hclock : w.clock ≤ t := by omega
  obtain ⟨hbusy, hidle, hhor, hsl, hperm, hfifo, hex, hno⟩ := hI
  subst h
  cases hs : w.chan.serving with
  | some f =>
    obtain ⟨hp, hcf, pre, s0, m0, hst, hf, htx0⟩ := hbusy f hs
    have htf : t ≤ f := hpend f (by rw [hp]; simp)
    cases hdb : mt.db with
    | drop =>
      have hoff : spec.offer mt w.chan t m = (w.chan, [], .droppedBusy) := by
        simp [spec, ChanSrv.offer, hs, hdb]
      simp only [hoff, advance, unbusyTimes, exitsOf, startedOf_single, withFate_single]
      refine ⟨?_, ?_, ?_, ?_, ?_, ?_, ?_, ?_⟩
      · intro f' hf'
        rw [hs] at hf'; cases hf'
        exact ⟨by simp [hp], htf, pre, s0, m0, by simp [hst], hf, htx0⟩
      · intro hn; rw [hs] at hn; cases hn
      · intro p hp'
        simp only [reduceCtorEq, if_false, List.append_nil] at hp'
        have := hhor p hp'
        rw [hs] at this ⊢
        exact this
      · intro p hp'
        simp only [reduceCtorEq, if_false, List.append_nil] at hp'
        have := hsl p hp'
        show p.1 ≤ t
        omega
      · simp only [reduceCtorEq, if_false, if_true, List.append_nil]
        rw [List.perm_iff_count] at hperm ⊢
        intro a
        have := hperm a
        simp only [List.count_append, List.count_cons, List.count_nil] at this ⊢
        omega
      · simp only [reduceCtorEq, if_false, List.append_nil]
        exact hfifo.trans (List.sublist_append_left _ _)
      · simp [hex]
      · simpa using hno
    | queue limit =>
      by_cases hacc : ChanSrv.accepts limit w.chan.queue m
      · have hoff : spec.offer mt w.chan t m =
            ({ w.chan with queue := w.chan.queue ++ [m] }, [], .queued) := by
          simp [spec, ChanSrv.offer, hs, hdb, hacc]
        simp only [hoff, advance, unbusyTimes, exitsOf, startedOf_single, withFate_single]
        refine ⟨?_, ?_, ?_, ?_, ?_, ?_, ?_, ?_⟩
        · intro f' hf'
          simp only [hs, Option.some.injEq] at hf'; subst hf'
          exact ⟨by simp [hp], htf, pre, s0, m0, by simp [hst], hf, htx0⟩
        · intro hn; simp only [hs, reduceCtorEq] at hn
        · intro p hp'
          simp only [reduceCtorEq, if_false, List.append_nil] at hp'
          have := hhor p hp'
          rw [hs] at this
          simpa [hs] using this
        · intro p hp'
          simp only [reduceCtorEq, if_false, List.append_nil] at hp'
          have := hsl p hp'
          show p.1 ≤ t
          omega
        · simp only [reduceCtorEq, if_false, List.append_nil]
          rw [List.perm_iff_count] at hperm ⊢
          intro a
          have := hperm a
          simp only [List.count_append, List.count_cons, List.count_nil] at this ⊢
          omega
        · simp only [reduceCtorEq, if_false, List.append_nil, ← List.append_assoc]
          exact List.Sublist.append hfifo (List.Sublist.refl _)
        · simp [hex]
        · simpa using hno
      · have hoff : spec.offer mt w.chan t m = (w.chan, [], .droppedFull) := by
          simp [spec, ChanSrv.offer, hs, hdb, hacc]
        simp only [hoff, advance, unbusyTimes, exitsOf, startedOf_single, withFate_single]
        refine ⟨?_, ?_, ?_, ?_, ?_, ?_, ?_, ?_⟩
        · intro f' hf'
          rw [hs] at hf'; cases hf'
          exact ⟨by simp [hp], htf, pre, s0, m0, by simp [hst], hf, htx0⟩
        · intro hn; rw [hs] at hn; cases hn
        · intro p hp'
          simp only [reduceCtorEq, if_false, List.append_nil] at hp'
          have := hhor p hp'
          rw [hs] at this ⊢
          exact this
        · intro p hp'
          simp only [reduceCtorEq, if_false, List.append_nil] at hp'
          have := hsl p hp'
          show p.1 ≤ t
          omega
        · simp only [reduceCtorEq, if_false, if_true, List.append_nil]
          rw [List.perm_iff_count] at hperm ⊢
          intro a
          have := hperm a
          simp only [List.count_append, List.count_cons, List.count_nil] at this ⊢
          omega
        · simp only [reduceCtorEq, if_false, List.append_nil]
          exact hfifo.trans (List.sublist_append_left _ _)
        · simp [hex]
        · simpa using hno
  | none =>
    obtain ⟨hp, hq⟩ := hidle hs
    have hhor' : ∀ p ∈ w.started, p.1 + p.2.tx ≤ t := by
      intro p hp'
      have := hhor p hp'
      rw [hs] at this
      simp only [Option.getD_none] at this
      omega
    by_cases htx : m.tx = 0
    · have hoff : spec.offer mt w.chan t m = (w.chan, [exitOf mt t m], .started) := by
        simp [spec, ChanSrv.offer, hs, htx]
      simp only [hoff, advance, unbusyTimes, exitsOf, exitOf, startedOf_single, withFate_single]
      refine ⟨?_, ?_, ?_, ?_, ?_, ?_, ?_, ?_⟩
      · intro f' hf'; rw [hs] at hf'; cases hf'
      · intro _; exact ⟨by simp [hp], hq⟩
      · intro p hp'
        simp only [if_true, List.mem_append, List.mem_singleton] at hp'
        rw [hs]
        show p.1 + p.2.tx ≤ t
        rcases hp' with hp' | rfl
        · exact hhor' p hp'
        · simp [htx]
      · intro p hp'
        simp only [if_true, List.mem_append, List.mem_singleton] at hp'
        show p.1 ≤ t
        rcases hp' with hp' | rfl
        · have := hsl p hp'; omega
        · exact Nat.le_refl _
      · simp only [if_true, reduceCtorEq, if_false, List.append_nil, List.map_append, List.map_cons,
          List.map_nil]
        rw [List.perm_iff_count] at hperm ⊢
        intro a
        have := hperm a
        simp only [List.count_append, List.count_cons, List.count_nil] at this ⊢
        omega
      · simp only [if_true, List.map_append, List.map_cons, List.map_nil, hq, List.append_nil]
        rw [hq, List.append_nil] at hfifo
        exact List.Sublist.append hfifo (List.Sublist.refl _)
      · simp [hex, exitFor]
      · simp only [if_true]
        rw [List.pairwise_append]
        refine ⟨hno, by simp, ?_⟩
        intro a ha b hb
        simp only [List.mem_singleton] at hb
        subst hb
        exact hhor' a ha
    · have hoff : spec.offer mt w.chan t m =
          ({ w.chan with serving := some (t + m.tx) },
           [exitOf mt t m, .unbusyAt (t + m.tx)], .started) := by
        simp [spec, ChanSrv.offer, hs, htx]
      simp only [hoff, advance, unbusyTimes, exitsOf, exitOf, startedOf_single, withFate_single]
      refine ⟨?_, ?_, ?_, ?_, ?_, ?_, ?_, ?_⟩
      · intro f' hf'
        simp only [Option.some.injEq] at hf'; subst hf'
        refine ⟨by simp [hp], by show t ≤ t + m.tx; omega, w.started, t, m, by simp, rfl, by omega⟩
      · intro hn; simp at hn
      · intro p hp'
        simp only [if_true, List.mem_append, List.mem_singleton] at hp'
        show p.1 + p.2.tx ≤ t + m.tx
        rcases hp' with hp' | rfl
        · have := hhor' p hp'; omega
        · exact Nat.le_refl _
      · intro p hp'
        simp only [if_true, List.mem_append, List.mem_singleton] at hp'
        show p.1 ≤ t
        rcases hp' with hp' | rfl
        · have := hsl p hp'; omega
        · exact Nat.le_refl _
      · simp only [if_true, reduceCtorEq, if_false, List.append_nil, List.map_append, List.map_cons,
          List.map_nil]
        rw [List.perm_iff_count] at hperm ⊢
        intro a
        have := hperm a
        simp only [List.count_append, List.count_cons, List.count_nil] at this ⊢
        omega
      · simp only [if_true, List.map_append, List.map_cons, List.map_nil, hq, List.append_nil]
        rw [hq, List.append_nil] at hfifo
        exact List.Sublist.append hfifo (List.Sublist.refl _)
      · simp [hex, exitFor]
      · simp only [if_true]
        rw [List.pairwise_append]
        refine ⟨hno, by simp, ?_⟩
        intro a ha b hb
        simp only [List.mem_singleton] at hb
        subst hb
        exact hhor' a ha

/-- dispatching an exit event preserves the invariant (it only moves the clock, not past the
    pending unbusy notification) -/
theorem deliver_SInv0 (mt : Metrics) {w w' : World Srv} (hI : SInv0 mt w)
    (h : step spec mt w .deliver = .ok w') :
    ∃ e, kmin w.kq = some (.exit e) ∧ w.clock ≤ e.time ∧
      w' = { w with clock := e.time, kq := w.kq.erase (.exit e), delivered := w.delivered ++ [e.id] } ∧
      (∀ f, w.chan.serving = some f → e.time ≤ f → SInv0 mt w') ∧
      (w.chan.serving = none → SInv0 mt w') := by
  simp only [step] at h
  cases hkm : kmin w.kq with
  | none => simp [hkm] at h
  | some ev =>
    cases ev with
    | unbusy u => simp [hkm] at h
    | exit e =>
      simp only [hkm] at h
      by_cases h1 : e.time < w.clock
      · simp [h1] at h
      simp only [h1, if_false, Except.ok.injEq] at h
      have hce : w.clock ≤ e.time := by omega
      refine ⟨e, rfl, hce, h.symm, ?_, ?_⟩
      · intro f hs hef
        subst h
        obtain ⟨hbusy, hidle, hhor, hsl, hperm, hfifo, hex, hno⟩ := hI
        refine ⟨?_, ?_, ?_, ?_, hperm, hfifo, hex, hno⟩
        · intro f' hf'
          have hf'' : w.chan.serving = some f' := hf'
          obtain ⟨a, b, c⟩ := hbusy f' hf''
          rw [hs] at hf''; cases hf''
          exact ⟨a, hef, c⟩
        · intro hn; exact hidle hn
        · intro p hp
          have := hhor p hp
          rw [hs] at this ⊢
          exact this
        · intro p hp
          have := hsl p hp
          show p.1 ≤ e.time
          omega
      · intro hs
        subst h
        obtain ⟨hbusy, hidle, hhor, hsl, hperm, hfifo, hex, hno⟩ := hI
        refine ⟨?_, ?_, ?_, ?_, hperm, hfifo, hex, hno⟩
        · intro f' hf'
          have hf'' : w.chan.serving = some f' := hf'
          rw [hs] at hf''; cases hf''
        · intro hn; exact hidle hn
        · intro p hp
          have := hhor p hp
          rw [hs] at this ⊢
          simp only [Option.getD_none] at this ⊢
          show p.1 + p.2.tx ≤ e.time
          omega
        · intro p hp
          have := hsl p hp
          show p.1 ≤ e.time
          omega

end ChanInv

/-
`handle_with_sink` of `Model/Net.lean`: a message that meets a gate of an inactive module before
the end of its chain (and before the channel, if it has not entered it yet) is dropped.
-/
import Desverif.Proofs.NetInv
namespace Net

/-- gate number `pos + k` is not the last one, its owner is inactive and the channel (if any) does
    not sit on one of the connections `pos .. pos + k - 1`: nothing comes out of the walk -/
theorem walkFrom_dropped (env : Env) (li : Nat) (chan : Option ChanCfg) (m : Msg) (c : ChanSt) :
    ∀ (owners : List Nat) (pos k : Nat), k + 1 < owners.length → env.isActive (owners.getD k 0) = false →
      (∀ cfg, chan = some cfg → ¬ (pos ≤ cfg.pos ∧ cfg.pos < pos + k)) →
      walkFrom env li chan m c owners pos = (c, []) := by
  intro owners
  induction owners with
  | nil => intro pos k h; simp at h
  | cons o rest ih =>
    intro pos k hk hin hch
    cases rest with
    | nil => simp at hk
    | cons o' rest =>
      unfold walkFrom
      cases k with
      | zero =>
        have : env.isActive o = false := by simpa using hin
        simp [this]
      | succ k =>
        by_cases ha : env.isActive o = false
        · simp [ha]
        · have ha' : env.isActive o = true := by simpa using ha
          simp only [ha', Bool.not_true, Bool.false_eq_true, if_false]
          have hk' : k + 1 < (o' :: rest).length := by simp at hk ⊢; omega
          have hin' : env.isActive ((o' :: rest).getD k 0) = false := by simpa using hin
          split
          · rename_i cfg
            have hne : cfg.pos ≠ pos := by
              intro h
              exact hch cfg rfl ⟨by omega, by omega⟩
            simp only [hne, if_false]
            apply ih (pos + 1) k hk' hin'
            intro cfg' h
            cases h
            intro hx
            exact hch cfg rfl ⟨by omega, by omega⟩
          · exact ih (pos + 1) k hk' hin' (by intro cfg h; cases h)

/-- a `MessageExitingConnection` whose walk comes to nothing: the message is gone, the rest of
    the state (trace, modules, errors, payload table) is as before -/
theorem step_exit_dropped {s s' : State} (e : CQ.Ev) (f : FES.State) (hf : FES.fetch s.fes = .ok (e, f))
    (li pos : Nat) (m : Msg) (hev : (s.evs[e.val]? : Option KEvent) = some (.exitConn li pos m))
    (l : Link) (c : ChanSt) (hl : s.links[li]? = some l) (hc : s.chans[li]? = some c)
    (k : Nat) (hk : pos + k + 1 < l.owners.length)
    (hin : (s.mods[l.owners.getD (pos + k) 0]?).map (·.active) = some false)
    (hch : ∀ cfg, l.chan = some cfg → ¬ (pos ≤ cfg.pos ∧ cfg.pos < pos + k))
    (hs : s.step = some s') :
    s'.evs = s.evs ∧ s'.trace = s.trace ∧ s'.mods = s.mods ∧ s'.errors = s.errors ∧ s'.chans = s.chans := by
  rw [step_eq s e f hf, hev] at hs
  simp only [hl, hc] at hs
  have hw : walk ((s.pop f).env 0) li l m c pos = (c, []) := by
    unfold walk
    apply walkFrom_dropped _ _ _ _ _ _ pos k
    · rw [List.length_drop]; omega
    · have : (l.owners.drop pos).getD k 0 = l.owners.getD (pos + k) 0 := by
        simp [List.getD, List.getElem?_drop]
      rw [this]
      simp only [Env.isActive, State.env, State.actives, pop_mods]
      cases hm : s.mods[l.owners.getD (pos + k) 0]? with
      | none => rw [hm] at hin; cases hin
      | some x =>
        rw [hm] at hin
        have hx : x.active = false := by simpa using hin
        have hm' : s.mods[l.owners[pos + k]?.getD 0]? = some x := by simpa [List.getD] using hm
        simp [List.getD, hm', hx]
    · exact hch
  rw [hw] at hs
  cases hs
  have hset : s.chans.set li c = s.chans := by
    apply List.ext_getElem?
    intro j
    rw [List.getElem?_set]
    split
    · rename_i h; subst h
      split
      · exact hc.symm
      · rename_i h2
        have := List.getElem?_eq_some_iff.mp hc
        exact absurd this.1 h2
    · rfl
  simp [State.scheduleAll, hset]

end Net

/-
C04: renaming of ambient identifiers.  `renSim a s` replaces every module id `k` in `s` by `a.modId k`
and every sleep id `k` by `a.sleepId k`.  This file: the renaming, and the lemmas that the primitive
operations of `Model/Repro.lean` (and of the timer queue) commute with it — for the two operations that
COMPARE ids (`senderPath`, `Timer.eraseSid`) this needs the supply to be injective.
-/
import Desverif.Model.Repro
namespace Repro

variable (a : Ambient)

def renMsg (m : Msg) : Msg := { m with sender := m.sender.map a.modId }

def renEv : KEvent → KEvent
  | .deliver i m => .deliver i (renMsg a m)
  | .exitConn i m => .exitConn i (renMsg a m)
  | .wakeup i => .wakeup i
  | .restart i => .restart i
  | .leave i li m => .leave i li (renMsg a m)
  | .unbusy li => .unbusy li

def renChan (c : ChanRt) : ChanRt := { c with queue := c.queue.map (fun p => (renMsg a p.1, p.2)) }

def renSl (s : Sl) : Sl := { s with id := a.sleepId s.id }

def renWait : Wait → Wait
  | .run => .run
  | .sleeping s => .sleeping (renSl a s)
  | .selecting ss => .selecting (ss.map (renSl a))
  | .waiting n g => .waiting n g

def renTask (t : TaskRt) : TaskRt := { t with wait := renWait a t.wait }

def renEntry (e : Timer.Entry) : Timer.Entry := { e with sid := a.sleepId e.sid }

def renSlot (s : Timer.Slot) : Timer.Slot := { s with entries := s.entries.map (renEntry a) }

def renMod (m : ModRt) : ModRt :=
  { m with id := a.modId m.id, tasks := m.tasks.map (renTask a), pending := m.pending.map (renSlot a) }

def renSim (s : Sim) : Sim :=
  { s with mods := s.mods.map (renMod a), evs := s.evs.map (renEv a),
           buf := s.buf.map (fun p => (renEv a p.1, p.2)), chans := s.chans.map (renChan a) }

/-! ### projections -/

@[simp] theorem renSim_now (s : Sim) : (renSim a s).now = s.now := rfl
@[simp] theorem renSim_fes (s : Sim) : (renSim a s).fes = s.fes := rfl
@[simp] theorem renSim_trace (s : Sim) : (renSim a s).trace = s.trace := rfl
@[simp] theorem renSim_stream (s : Sim) : (renSim a s).stream = s.stream := rfl
@[simp] theorem renSim_fault (s : Sim) : (renSim a s).fault = s.fault := rfl
@[simp] theorem renSim_serial (s : Sim) : (renSim a s).serial = s.serial := rfl
@[simp] theorem renSim_nextSleep (s : Sim) : (renSim a s).nextSleep = s.nextSleep := rfl
@[simp] theorem renSim_mods (s : Sim) : (renSim a s).mods = s.mods.map (renMod a) := rfl
@[simp] theorem renSim_evs (s : Sim) : (renSim a s).evs = s.evs.map (renEv a) := rfl
@[simp] theorem renSim_chans (s : Sim) : (renSim a s).chans = s.chans.map (renChan a) := rfl
@[simp] theorem renChan_busy (c : ChanRt) : (renChan a c).busy = c.busy := rfl
@[simp] theorem renMod_sems (m : ModRt) : (renMod a m).sems = m.sems := rfl
@[simp] theorem renMod_deferq (m : ModRt) : (renMod a m).deferq = m.deferq := rfl
@[simp] theorem renSim_dropped (s : Sim) : (renSim a s).dropped = s.dropped := rfl
@[simp] theorem renSim_seeds (s : Sim) : (renSim a s).seeds = s.seeds := rfl
@[simp] theorem renSim_buf (s : Sim) : (renSim a s).buf = s.buf.map (fun p => (renEv a p.1, p.2)) := rfl

@[simp] theorem renMod_path (m : ModRt) : (renMod a m).path = m.path := rfl
@[simp] theorem renMod_id (m : ModRt) : (renMod a m).id = a.modId m.id := rfl
@[simp] theorem renMod_ttl0 (m : ModRt) : (renMod a m).ttl0 = m.ttl0 := rfl
@[simp] theorem renMod_tasks (m : ModRt) : (renMod a m).tasks = m.tasks.map (renTask a) := rfl
@[simp] theorem renMod_pending (m : ModRt) : (renMod a m).pending = m.pending.map (renSlot a) := rfl
@[simp] theorem renMod_nextWakeup (m : ModRt) : (renMod a m).nextWakeup = m.nextWakeup := rfl
@[simp] theorem renMod_seeded (m : ModRt) : (renMod a m).seeded = m.seeded := rfl
@[simp] theorem renMod_tick (m : ModRt) : (renMod a m).tick = m.tick := rfl
@[simp] theorem renMod_localq (m : ModRt) : (renMod a m).localq = m.localq := rfl
@[simp] theorem renMod_inject (m : ModRt) : (renMod a m).inject = m.inject := rfl
@[simp] theorem renMod_active (m : ModRt) : (renMod a m).active = m.active := rfl
@[simp] theorem renMod_shutdownReq (m : ModRt) : (renMod a m).shutdownReq = m.shutdownReq := rfl
@[simp] theorem renMod_inc (m : ModRt) : (renMod a m).inc = m.inc := rfl

@[simp] theorem renTask_tag (t : TaskRt) : (renTask a t).tag = t.tag := rfl
@[simp] theorem renTask_ttl (t : TaskRt) : (renTask a t).ttl = t.ttl := rfl
@[simp] theorem renTask_prog (t : TaskRt) : (renTask a t).prog = t.prog := rfl
@[simp] theorem renTask_wait (t : TaskRt) : (renTask a t).wait = renWait a t.wait := rfl

@[simp] theorem renSl_deadline (s : Sl) : (renSl a s).deadline = s.deadline := rfl
@[simp] theorem renSl_reg (s : Sl) : (renSl a s).reg = s.reg := rfl
@[simp] theorem renSl_id (s : Sl) : (renSl a s).id = a.sleepId s.id := rfl

@[simp] theorem renSlot_time (s : Timer.Slot) : (renSlot a s).time = s.time := rfl
@[simp] theorem renSlot_entries (s : Timer.Slot) : (renSlot a s).entries = s.entries.map (renEntry a) := rfl
@[simp] theorem renEntry_tid (e : Timer.Entry) : (renEntry a e).tid = e.tid := rfl
@[simp] theorem renEntry_sid (e : Timer.Entry) : (renEntry a e).sid = a.sleepId e.sid := rfl

/-! ### lists -/

theorem updAt_map {α β : Type} (f : α → β) (g : β → β) (g' : α → α) (h : ∀ x, g (f x) = f (g' x)) :
    ∀ (i : Nat) (l : List α), updAt g i (l.map f) = (updAt g' i l).map f
  | _, [] => by simp [updAt]
  | 0, x :: xs => by simp [updAt, h]
  | n + 1, x :: xs => by simp [updAt, updAt_map f g g' h n xs]

theorem updAt_length {α : Type} (f : α → α) : ∀ (i : Nat) (l : List α), (updAt f i l).length = l.length
  | _, [] => by simp [updAt]
  | 0, x :: xs => by simp [updAt]
  | n + 1, x :: xs => by simp [updAt, updAt_length f n xs]

theorem updMod_ren (s : Sim) (mi : Nat) (g g' : ModRt → ModRt) (h : ∀ m, g (renMod a m) = renMod a (g' m)) :
    (renSim a s).updMod mi g = renSim a (s.updMod mi g') := by
  simp [Sim.updMod, renSim, updAt_map (renMod a) g g' h]

theorem updChan_ren (s : Sim) (li : Nat) (g g' : ChanRt → ChanRt) (h : ∀ c, g (renChan a c) = renChan a (g' c)) :
    (renSim a s).updChan li g = renSim a (s.updChan li g') := by
  simp [Sim.updChan, renSim, updAt_map (renChan a) g g' h]

theorem updTask_ren (m : ModRt) (ti : Nat) (g g' : TaskRt → TaskRt) (h : ∀ t, g (renTask a t) = renTask a (g' t)) :
    (renMod a m).updTask ti g = renMod a (m.updTask ti g') := by
  simp [ModRt.updTask, renMod, updAt_map (renTask a) g g' h]

@[simp] theorem mods_getElem?_ren (s : Sim) (mi : Nat) :
    (s.mods.map (renMod a))[mi]? = (s.mods[mi]?).map (renMod a) := by simp

/-! ### primitives of the kernel -/

@[simp] theorem log_ren (s : Sim) (p w who peer : String) (args : List Nat) :
    (renSim a s).log p w who peer args = renSim a (s.log p w who peer args) := rfl

theorem pop_ren (s : Sim) : (renSim a s).pop = (s.pop.1, renSim a s.pop.2) := by
  unfold Sim.pop
  cases h : s.stream <;> simp [renSim, h]

@[simp] theorem pop_ren_fst (s : Sim) : (renSim a s).pop.1 = s.pop.1 := by rw [pop_ren]
@[simp] theorem pop_ren_snd (s : Sim) : (renSim a s).pop.2 = renSim a s.pop.2 := by rw [pop_ren]

@[simp] theorem push_ren (s : Sim) (ev : KEvent) (t : Nat) :
    (renSim a s).push (renEv a ev) t = renSim a (s.push ev t) := by
  simp [Sim.push, renSim]

@[simp] theorem schedule_ren (s : Sim) (ev : KEvent) (t : Nat) :
    (renSim a s).schedule (renEv a ev) t = renSim a (s.schedule ev t) := by
  unfold Sim.schedule
  simp only [renSim_fes, renSim_evs, List.length_map]
  cases FES.add s.fes t s.evs.length with
  | error e => rfl
  | ok r => simp [renSim]

theorem modIndex_ren (ms : List ModRt) (p : String) : modIndex (ms.map (renMod a)) p = modIndex ms p := by
  induction ms with
  | nil => rfl
  | cons m r ih => simp [modIndex, ih]

theorem senderPath_ren (h : a.Inj) (ms : List ModRt) (o : Option Nat) :
    senderPath (ms.map (renMod a)) (o.map a.modId) = senderPath ms o := by
  cases o with
  | none => rfl
  | some i =>
    simp only [Option.map, senderPath]
    induction ms with
    | nil => rfl
    | cons m r ih =>
      simp only [List.map_cons, List.find?_cons, renMod_id]
      by_cases hm : m.id = i
      · simp [hm]
      · have : a.modId m.id ≠ a.modId i := fun e => hm (h.1 _ _ e)
        simp only [hm, this, decide_false]
        exact ih

/-! ### the timer queue -/

theorem timerAdd_ren (p : List Timer.Slot) (e : Timer.Entry) (t : Nat) :
    Timer.add (p.map (renSlot a)) (renEntry a e) t = (Timer.add p e t).map (renSlot a) := by
  induction p with
  | nil => simp [Timer.add, renSlot]
  | cons s r ih =>
    simp only [List.map_cons, Timer.add, renSlot_time]
    by_cases h1 : s.time = t
    · simp [h1, renSlot]
    · by_cases h2 : t < s.time
      · simp [h1, h2, renSlot]
      · simp [h1, h2, ih]

theorem eraseSid_ren (h : a.Inj) (sid : Nat) (es : List Timer.Entry) :
    Timer.eraseSid (a.sleepId sid) (es.map (renEntry a)) = (Timer.eraseSid sid es).map (renEntry a) := by
  induction es with
  | nil => rfl
  | cons e r ih =>
    simp only [List.map_cons, Timer.eraseSid, renEntry_sid]
    by_cases he : e.sid = sid
    · simp [he]
    · have : a.sleepId e.sid ≠ a.sleepId sid := fun x => he (h.2 _ _ x)
      simp [he, this, ih]

theorem removeEntry_ren (h : a.Inj) (p : List Timer.Slot) (t sid : Nat) :
    Timer.removeEntry (p.map (renSlot a)) t (a.sleepId sid) = (Timer.removeEntry p t sid).map (renSlot a) := by
  simp only [Timer.removeEntry, List.map_map]
  apply List.map_congr_left
  intro s _
  simp only [Function.comp, renSlot_time]
  by_cases h1 : s.time = t
  · simp [h1, renSlot, eraseSid_ren a h]
  · simp [h1]

theorem takeWhile_ren (now : Nat) (p : List Timer.Slot) :
    (p.map (renSlot a)).takeWhile (fun s => s.time ≤ now) = (p.takeWhile (fun s => s.time ≤ now)).map (renSlot a) := by
  induction p with
  | nil => rfl
  | cons s r ih =>
    simp only [List.map_cons, List.takeWhile_cons, renSlot_time]
    by_cases h1 : s.time ≤ now <;> simp [h1, ih]

theorem dropWhile_ren (now : Nat) (p : List Timer.Slot) :
    (p.map (renSlot a)).dropWhile (fun s => s.time ≤ now) = (p.dropWhile (fun s => s.time ≤ now)).map (renSlot a) := by
  induction p with
  | nil => rfl
  | cons s r ih =>
    simp only [List.map_cons, List.dropWhile_cons, renSlot_time]
    by_cases h1 : s.time ≤ now <;> simp [h1, ih]

theorem firedTids_ren (l : List Timer.Slot) :
    (((l.map (renSlot a)).flatMap (·.entries)).map (·.tid)) = ((l.flatMap (·.entries)).map (·.tid)) := by
  induction l with
  | nil => rfl
  | cons s r ih =>
    simp only [List.map_cons, List.flatMap_cons, List.map_append, ih, renSlot_entries, List.map_map]
    congr 1

theorem timerNext_ren (b : Bool) (p : List Timer.Slot) : timerNext b (p.map (renSlot a)) = timerNext b p := by
  unfold timerNext
  cases b
  · simp only [Bool.false_eq_true, if_false]
    cases p with
    | nil => rfl
    | cons s r => simp [Timer.nextOrig]
  · simp only [if_true, Timer.next]
    induction p with
    | nil => rfl
    | cons s r ih =>
      simp only [List.map_cons, List.find?_cons, renSlot_entries, List.isEmpty_map]
      cases s.entries.isEmpty <;> simp_all

end Repro

/-
The edge set of `Topology::from_modules`, read with module names instead of node indices, does
not depend on the order of the module list (`ModuleTree` order vs. creation order vs. any other).
-/
import Desverif.Proofs.TopoSpan
namespace Topo
open Gate

/-- a view as the harness prints it: every edge as (from module, start gate, end gate, to module) -/
def T.named (t : T) : List (Nat × Nat × Nat × Nat) :=
  (allEdges t).map fun fe => (t.nodes.getD fe.src 0, fe.e.start, fe.e.stop, t.nodes.getD fe.e.dst 0)

/-- the named edges module `m` contributes when the modules considered are `mods` -/
def namedOf (w : World) (mods : List Nat) (m : Nat) : List (Nat × Nat × Nat × Nat) :=
  (w.gates m).filterMap fun g =>
    if kind w.net g = .endpoint then
      let e := chainEnd w (some 16) g
      if (w.owner e) ∈ mods then some (m, g, e, w.owner e) else none
    else none

theorem filterMap_congr'' {α β : Type} {g h : α → Option β} : ∀ {l : List α},
    (∀ x ∈ l, g x = h x) → l.filterMap g = l.filterMap h := by
  intro l
  induction l with
  | nil => intro _; rfl
  | cons x xs ih =>
    intro hx
    simp only [List.filterMap_cons, hx x List.mem_cons_self]
    rw [ih (fun y hy => hx y (List.mem_cons_of_mem _ hy))]

theorem range_map_getD {β : Type} (l : List Nat) (H : Nat → β) :
    (List.range l.length).map (fun i => H (l.getD i 0)) = l.map H := by
  apply List.ext_getElem?
  intro i
  simp only [List.getElem?_map, List.getElem?_range]
  by_cases h : i < l.length
  · simp [h, List.getD_eq_getElem?_getD, List.getElem?_eq_getElem h]
  · simp [h, List.getElem?_eq_none (Nat.le_of_not_lt h)]

theorem fromModules_named (w : World) (mods : List Nat) :
    (fromModules w mods).named = (mods.map (namedOf w mods)).flatten := by
  unfold T.named allEdges
  rw [List.map_flatten, List.map_map]
  have hlen : (fromModules w mods).edges.length = mods.length := by simp [fromModules]
  rw [hlen, ← range_map_getD mods (namedOf w mods)]
  congr 1
  apply List.map_congr_left
  intro i hi
  have hi' : i < mods.length := List.mem_range.mp hi
  simp only [Function.comp, List.map_map, T.edgesAt, fromModules, List.getD_eq_getElem?_getD, List.getElem?_map,
    List.getElem?_eq_getElem hi', Option.map_some, Option.getD_some, namedOf, List.map_filterMap]
  apply filterMap_congr''
  intro g _
  by_cases hk : kind w.net g = .endpoint
  · simp only [hk, if_true]
    cases hx : indexOf mods (w.owner (chainEnd w (some 16) g)) with
    | none =>
      have := indexOf_none hx
      simp [this]
    | some dst =>
      have hget := indexOf_some hx
      have hmem : w.owner (chainEnd w (some 16) g) ∈ mods := List.mem_of_getElem? hget
      simp [hmem, hget, List.getElem?_eq_getElem hi']
  · simp [hk]

end Topo

/-
The queue component of the queue-with-memory model `CQMem` evolves exactly as the calendar-queue
model `CQ` (via `CQRun.mstep`), so everything proved about `CQ` (C01/C03) applies to it.
-/
import Desverif.Model.CQMem
import Desverif.Proofs.FESHist
namespace CQMem
open CQRun

theorem add_queue (orc : Nat → Nat) (st : State) (time val : Nat) (o : CQRun.Out)
    (h : (add orc st time val).out = .cq o) :
    (add orc st time val).st.q = (mstep st.q (.add time val)).1 ∧
      o = (mstep st.q (.add time val)).2 := by
  unfold add at h ⊢
  unfold mstep
  cases ha : CQ.add st.q.1 time val with
  | error e => simp_all
  | ok r =>
    obtain ⟨m', id⟩ := r
    by_cases ht : time = st.q.1.tcur
    · simp_all
    · simp only [ha, ht, if_false] at h ⊢
      rcases hn : allocNode orc st.a st.nsize st.nlog with ⟨a', ao, evs⟩
      cases ao <;> simp_all

theorem cancel_queue (orc : Nat → Nat) (st : State) (k : Nat) (o : CQRun.Out)
    (h : (cancel orc st k).out = .cq o) :
    (cancel orc st k).st.q = (mstep st.q (.cancel k)).1 ∧ o = (mstep st.q (.cancel k)).2 := by
  unfold cancel at h ⊢
  unfold mstep
  cases hk : st.q.2[k]? with
  | none => simp_all
  | some p =>
    obtain ⟨id, time⟩ := p
    simp only [hk] at h ⊢
    split at h
    · rename_i hl; simp_all
    · rename_i hl
      simp only [hl, if_false]
      split at h
      · rename_i hb
        simp only [hb, if_true]
        rcases hf : freeNodeOf orc { st with q := (CQ.cancel st.q.1 id time, st.q.2) } id with ⟨st'', evs, ok⟩
        have hq : st''.q = (CQ.cancel st.q.1 id time, st.q.2) := by
          unfold freeNodeOf at hf
          split at hf
          · simp only [Prod.mk.injEq] at hf; rw [← hf.1]
          · simp only [Prod.mk.injEq] at hf; rw [← hf.1]
        cases ok <;> simp_all
      · rename_i hb; rw [if_neg hb]; simp_all

theorem fetch_queue (orc : Nat → Nat) (st : State) (o : CQRun.Out)
    (h : (fetch orc st).out = .cq o) :
    (fetch orc st).st.q = (mstep st.q .fetch).1 ∧ o = (mstep st.q .fetch).2 := by
  unfold fetch at h ⊢
  unfold mstep
  cases hf : CQ.fetch st.q.1 with
  | error e => cases e <;> simp_all
  | ok r =>
    obtain ⟨e, m'⟩ := r
    simp only [hf] at h ⊢
    split at h
    · rename_i hb
      simp only [hb, if_true]
      rcases hn : freeNodeOf orc { st with q := (m', st.q.2) } e.id with ⟨st'', evs, ok⟩
      have hq : st''.q = (m', st.q.2) := by
        unfold freeNodeOf at hn
        split at hn
        · simp only [Prod.mk.injEq] at hn; rw [← hn.1]
        · simp only [Prod.mk.injEq] at hn; rw [← hn.1]
      cases ok <;> simp_all
    · rename_i hb; rw [if_neg hb]; simp_all

/-- whenever an operation of the queue-with-memory model answers at all (it did not stop with
    `diverged`/`internal`), its queue component made exactly the calendar-queue model's step and
    gave the calendar-queue model's answer -/
theorem step_queue (orc : Nat → Nat) (st : State) (op : Op) (o : CQRun.Out)
    (h : (step orc st op).out = .cq o) :
    (step orc st op).st.q = (mstep st.q op).1 ∧ o = (mstep st.q op).2 := by
  cases op with
  | add time val => exact add_queue orc st time val o h
  | cancel k => exact cancel_queue orc st k o h
  | fetch => exact fetch_queue orc st o h
  | peek =>
    simp only [step, Out.cq.injEq] at h
    subst h
    exact ⟨rfl, rfl⟩

/-- payloads destroyed by `Drop for CQueue` are exactly the pending ones (bucket-resident first) -/
theorem drop_drops (orc : Nat → Nat) (st : State) :
    (drop orc st).drops = (st.q.1.buckets.flatten ++ st.q.1.zero).map (·.val) := rfl

end CQMem

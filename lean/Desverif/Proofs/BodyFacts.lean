/-
C16 helper lemmas: slot bookkeeping, failed casts, consequences of `HeapOk`.
-/
import Desverif.Proofs.BodyStep
namespace MB
open MBSpec (ABody AMsg)

theorem lookup_remove_ne {α : Type} {t tag : String} (hne : t ≠ tag) (l : List (String × α)) :
    lookup t (remove tag l) = lookup t l := by
  induction l with
  | nil => rfl
  | cons x l ih =>
    obtain ⟨t0, a⟩ := x
    simp only [remove]
    split
    · rename_i he
      simp only [lookup]
      rw [if_neg (fun h => hne (h.symm.trans he))]
    · simp only [lookup, ih]

theorem lookup_put_back {α : Type} {tag : String} {l : List (String × α)} {m : α}
    (hl : lookup tag l = some m) (t : String) : lookup t ((tag, m) :: remove tag l) = lookup t l := by
  simp only [lookup]
  split
  · rename_i he; subst he; exact hl.symm
  · rename_i hne; exact lookup_remove_ne (fun h => hne h.symm) l

/-- `Body::try_cast` with a non-matching type: same heap, same body -/
theorem Body.tryCast_err {h : Heap} {b : Body} {T : Ty} (hne : b.is T = false) :
    b.tryCast h T = (h, .err b) := by
  simp [Body.tryCast, hne]

/-- `Body::try_cast` never answers `Err` with anything but the unchanged body and heap -/
theorem Body.tryCast_err_inv {h h' : Heap} {b b' : Body} {T : Ty}
    (he : b.tryCast h T = (h', .err b')) : h' = h ∧ b' = b ∧ b.is T = false := by
  unfold Body.tryCast at he
  split at he
  · exfalso
    cases hd : b.data with
    | none => simp [hd] at he
    | some p => simp [hd] at he
  · rename_i hne
    cases he
    exact ⟨rfl, rfl, by simpa using hne⟩

theorem Msg.tryCast_err_inv {h h' : Heap} {m m' : Msg} {T : Ty}
    (he : m.tryCast h T = (h', .err m')) : h' = h ∧ m' = m := by
  unfold Msg.tryCast at he
  split at he
  · rename_i body hm
    split at he
    · cases he
    · rename_i h2 b2 hc
      obtain ⟨h1, h3, _⟩ := Body.tryCast_err_inv hc
      cases he
      subst h1; subst h3
      exact ⟨rfl, by cases m; simp_all⟩
  · rename_i hm
    cases he
    exact ⟨rfl, by cases m; simp_all⟩

theorem run_append (st : State) (xs ys : List Op) :
    run st (xs ++ ys) = ((run (run st xs).1 ys).1, (run st xs).2 ++ (run (run st xs).1 ys).2) := by
  induction xs generalizing st with
  | nil => simp [run]
  | cons x xs ih => simp [run, ih]

/-- box-level reading of `HeapOk` -/
theorem HeapOk.box_facts {h : Heap} {ps : List Nat} (hk : HeapOk h ps) {p : Nat} {bx : Box}
    (hb : h.boxes[p]? = some bx) :
    bx.drops + bx.moved ≤ 1 ∧ (bx.drops + bx.moved = 0 ↔ bx.live = true) ∧ (bx.live = true ↔ p ∈ ps) := by
  have h1 := hk.box p bx hb
  have h2 := hk.owned p
  refine ⟨?_, ?_, ?_⟩
  · split at h1 <;> omega
  · split at h1
    · rename_i hl; simp [hl, h1]
    · rename_i hl; constructor
      · intro h0; omega
      · intro h0; exact absurd h0 hl
  · constructor
    · intro hl; exact h2.mpr ⟨bx, hb, hl⟩
    · intro hm; obtain ⟨b2, hb2, hl2⟩ := h2.mp hm; rw [hb] at hb2; cases hb2; exact hl2

end MB

import Desverif.Proofs.RtRun
namespace Rt
open CQ (Ev)
open FES (evLt eraseId minEv)

/-! Limits and stepping: a limited run is a prefix of the unlimited one. -/

theorem Limit.applies_add (a b : Limit) (i t : Nat) :
    (a.add b).applies i t = (a.applies i t || b.applies i t) := by
  cases a <;> simp [Limit.add, Limit.applies]

/-! nothing but `limitHit` reads the limit -/

theorem addEvent_withLimit (s : S) (l : Limit) (time node : Nat) :
    addEvent fesES (withLimit s l) time node =
      (withLimit (addEvent fesES s time node).1 l, (addEvent fesES s time node).2) := by
  unfold addEvent withLimit
  by_cases h : time < s.now
  · simp [h]
  · simp only [h, if_false]
    cases fesES.add s.es time node <;> rfl

theorem runActs_withLimit (l : Limit) (acts : List Act) : ∀ (s : S),
    runActs fesES (withLimit s l) acts =
      (withLimit (runActs fesES s acts).1 l, (runActs fesES s acts).2) := by
  induction acts with
  | nil => intro s; rfl
  | cons a as ih =>
    intro s
    simp only [runActs]
    have : (withLimit s l).now = s.now := rfl
    rw [this, addEvent_withLimit, ih]

theorem stepU_withLimit (prog : Prog) (s : S) (l : Limit) :
    stepU fesES prog (withLimit s l) =
      (stepU fesES prog s).map (fun p => (withLimit p.1 l, p.2)) := by
  unfold stepU
  have : (withLimit s l).es = s.es := rfl
  rw [this]
  cases fesES.fetch s.es with
  | none => rfl
  | some p =>
    obtain ⟨e, es'⟩ := p
    simp only [handle, Option.map_some]
    have h2 := runActs_withLimit l (prog.getD e.val [])
      ({ s with es := es', itr := s.itr + 1, now := e.time } : S)
    have h3 : ({ withLimit s l with es := es', itr := (withLimit s l).itr + 1, now := e.time } : S) =
        withLimit ({ s with es := es', itr := s.itr + 1, now := e.time } : S) l := rfl
    rw [h3, h2]

theorem limitHit_none (s : S) : limitHit fesES (withLimit s .none) = false := rfl

theorem withLimit_withLimit (s : S) (a b : Limit) : withLimit (withLimit s a) b = withLimit s b := rfl
theorem withLimit_self (s : S) : withLimit s s.limit = s := rfl

theorem runActs_handledOf {σ : Type} (E : ES σ) (acts : List Act) : ∀ (s : State σ),
    handledOf (runActs E s acts).2 = [] := by
  induction acts with
  | nil => intro s; rfl
  | cons a as ih =>
    intro s
    simp only [runActs]
    have h1 : ∃ n t b, (addEvent E s (actTime s.now a) a.node).2 = Obs.sched n t b := by
      unfold addEvent
      split
      · exact ⟨_, _, _, rfl⟩
      · split <;> exact ⟨_, _, _, rfl⟩
    obtain ⟨n, t, b, hb⟩ := h1
    rw [hb, handledOf_cons_sched]
    exact ih _

/-- one dispatched event produces exactly one `handled` observation, first in its output, carrying
    the timestamp `nextTime` announced -/
theorem stepU_shape {prog : Prog} {s s' : S} {os : List Obs} (hs : stepU fesES prog s = some (s', os)) :
    ∃ n t rest, os = .handled n t :: rest ∧ handledOf os = [(n, t)] ∧ FES.nextTime s.es = some t := by
  unfold stepU at hs
  cases hf : fesES.fetch s.es with
  | none => simp [hf] at hs
  | some p =>
    obtain ⟨e, es'⟩ := p
    simp only [hf, handle, Option.some.injEq, Prod.mk.injEq] at hs
    obtain ⟨_, rfl⟩ := hs
    refine ⟨e.val, e.time, _, rfl, ?_, ?_⟩
    · rw [handledOf_cons_handled, runActs_handledOf]
    · simp only [fesES] at hf
      unfold FES.fetch at hf
      unfold FES.nextTime
      cases hz : s.es.zero with
      | cons e0 z => rw [hz] at hf; simp at hf; rw [hf.1]
      | nil =>
        rw [hz] at hf
        simp only at hf
        cases hm : minEv s.es.pend with
        | none => rw [hm] at hf; simp at hf
        | some e' => rw [hm] at hf; simp at hf; simp [hf.1]

/-- admitted prefix of a list of (node, time), counting dispatched events from `i` -/
def takeAdm (L : Limit) : Nat → List (Nat × Nat) → List (Nat × Nat)
  | _, [] => []
  | i, (n, t) :: r => if L.applies (i + 1) t then [] else (n, t) :: takeAdm L (i + 1) r

theorem limitHit_eq (s : S) (L : Limit) :
    limitHit fesES (withLimit s L) =
      match FES.nextTime s.es with
      | some t => L.applies (s.itr + 1) t
      | none => false := by
  unfold limitHit withLimit
  cases L <;> cases h : FES.nextTime s.es <;> simp [fesES, h, Limit.applies]

theorem dispatchEvent_cases (prog : Prog) (s : S) :
    (fesES.len s.es = 0 ∧ dispatchEvent fesES prog s = (s, [], true)) ∨
    (fesES.len s.es ≠ 0 ∧ limitHit fesES s = true ∧ dispatchEvent fesES prog s = (s, [], true)) ∨
    (fesES.len s.es ≠ 0 ∧ limitHit fesES s = false ∧
      ∃ s' os, stepU fesES prog s = some (s', os) ∧ dispatchEvent fesES prog s = (s', os, false)) := by
  unfold dispatchEvent
  by_cases h0 : fesES.len s.es = 0
  · left; simp [h0]
  · right
    cases h1 : limitHit fesES s with
    | true => left; simp [h0]
    | false =>
      right
      cases hs : stepU fesES prog s with
      | none => exact absurd ((stepU_none_iff prog).mp hs) h0
      | some p => exact ⟨h0, rfl, p.1, p.2, rfl, by simp [h0]⟩

theorem dispatchAll_succ (prog : Prog) (fuel : Nat) (s : S) :
    dispatchAll fesES prog (fuel + 1) s =
      match dispatchEvent fesES prog s with
      | (s', os, true) => (s', os)
      | (s', os, false) =>
        ((dispatchAll fesES prog fuel s').1, os ++ (dispatchAll fesES prog fuel s').2) := by
  simp only [dispatchAll]
  rcases dispatchEvent fesES prog s with ⟨s', os, b⟩
  cases b <;> rfl

theorem stepU_itr {prog : Prog} {s s' : S} {os : List Obs} (hs : stepU fesES prog s = some (s', os)) :
    s'.itr = s.itr + 1 := by
  unfold stepU at hs
  cases hf : fesES.fetch s.es with
  | none => simp [hf] at hs
  | some q =>
    simp only [hf, handle, Option.some.injEq, Prod.mk.injEq] at hs
    obtain ⟨rfl, _⟩ := hs
    have : ∀ (acts : List Act) (x : S), (runActs fesES x acts).1.itr = x.itr := by
      intro acts
      induction acts with
      | nil => intro x; rfl
      | cons a as ih2 =>
        intro x
        simp only [runActs]
        rw [ih2]
        unfold addEvent
        split
        · rfl
        · split <;> rfl
    rw [this]

/-- the unlimited loop takes a step whenever the event set is not empty -/
theorem dispatchEvent_none {prog : Prog} {s s' : S} {os : List Obs} (h0 : fesES.len s.es ≠ 0)
    (hs : stepU fesES prog s = some (s', os)) :
    dispatchEvent fesES prog (withLimit s .none) = (withLimit s' .none, os, false) := by
  rcases dispatchEvent_cases prog (withLimit s .none) with ⟨h, _⟩ | ⟨_, h, _⟩ | ⟨_, _, s2, o2, h2, h3⟩
  · exact absurd h h0
  · rw [limitHit_none] at h; cases h
  · rw [stepU_withLimit, hs] at h2
    simp only [Option.map_some, Option.some.injEq, Prod.mk.injEq] at h2
    rw [h3, ← h2.1, ← h2.2]

/-- **A run under limit `L` is a prefix of the unlimited run**: it reaches exactly the state the
    unlimited run is in after the same number `k` of events, with the same observations, and
    (unless the fuel ran out) it stopped because the event set is empty or `L` rejects the next
    event. -/
theorem dispatchAll_limit_prefix (prog : Prog) (L : Limit) (fuel : Nat) : ∀ (s : S),
    ∃ k, k ≤ fuel ∧
      dispatchAll fesES prog k (withLimit s .none) =
        (withLimit (dispatchAll fesES prog fuel (withLimit s L)).1 .none,
         (dispatchAll fesES prog fuel (withLimit s L)).2) ∧
      (handledOf (dispatchAll fesES prog fuel (withLimit s L)).2).length = k ∧
      (k < fuel → FES.len (dispatchAll fesES prog fuel (withLimit s L)).1.es = 0 ∨
        limitHit fesES (dispatchAll fesES prog fuel (withLimit s L)).1 = true) ∧
      (dispatchAll fesES prog fuel (withLimit s L)).1.limit = L := by
  induction fuel with
  | zero => intro s; exact ⟨0, Nat.le_refl _, rfl, rfl, fun h => absurd h (Nat.lt_irrefl _), rfl⟩
  | succ fuel ih =>
    intro s
    rw [dispatchAll_succ]
    rcases dispatchEvent_cases prog (withLimit s L) with ⟨h0, hd⟩ | ⟨h0, h1, hd⟩ | ⟨h0, h1, s1, os, hs, hd⟩
    · rw [hd]
      exact ⟨0, Nat.zero_le _, rfl, rfl, fun _ => Or.inl h0, rfl⟩
    · rw [hd]
      exact ⟨0, Nat.zero_le _, rfl, rfl, fun _ => Or.inr h1, rfl⟩
    · rw [hd]
      rw [stepU_withLimit] at hs
      cases hs0 : stepU fesES prog s with
      | none => rw [hs0] at hs; cases hs
      | some p =>
        obtain ⟨s', os'⟩ := p
        rw [hs0] at hs
        simp only [Option.map_some, Option.some.injEq, Prod.mk.injEq] at hs
        obtain ⟨rfl, rfl⟩ := hs
        obtain ⟨k, hk, heq, hlen, hstop, hlim⟩ := ih s'
        obtain ⟨n, t, rest, _, hh, _⟩ := stepU_shape hs0
        refine ⟨k + 1, by omega, ?_, ?_, ?_, hlim⟩
        · rw [dispatchAll_succ, dispatchEvent_none (s := s) h0 hs0]
          simp only
          rw [heq]
        · simp only
          rw [handledOf_append, List.length_append, hh, hlen]; simp; omega
        · intro hlt
          exact hstop (by omega)

/-- **The events dispatched under `L` are exactly the longest prefix of the unlimited run's events
    that `L` admits** (same start, same fuel). -/
theorem dispatchAll_handled_takeAdm (prog : Prog) (L : Limit) (fuel : Nat) : ∀ (s : S),
    handledOf (dispatchAll fesES prog fuel (withLimit s L)).2 =
      takeAdm L s.itr (handledOf (dispatchAll fesES prog fuel (withLimit s .none)).2) := by
  induction fuel with
  | zero => intro s; rfl
  | succ fuel ih =>
    intro s
    rw [dispatchAll_succ, dispatchAll_succ]
    by_cases h0 : fesES.len s.es = 0
    · have e1 : dispatchEvent fesES prog (withLimit s L) = (withLimit s L, [], true) := by
        rcases dispatchEvent_cases prog (withLimit s L) with ⟨_, hd⟩ | ⟨h, _, _⟩ | ⟨h, _, _⟩
        · exact hd
        · exact absurd h0 h
        · exact absurd h0 h
      have e2 : dispatchEvent fesES prog (withLimit s .none) = (withLimit s .none, [], true) := by
        rcases dispatchEvent_cases prog (withLimit s .none) with ⟨_, hd⟩ | ⟨h, _, _⟩ | ⟨h, _, _⟩
        · exact hd
        · exact absurd h0 h
        · exact absurd h0 h
      rw [e1, e2]; rfl
    · cases hs : stepU fesES prog s with
      | none => exact absurd ((stepU_none_iff prog).mp hs) h0
      | some p =>
        obtain ⟨s', os⟩ := p
        obtain ⟨n, t, rest, hos, hh, hnext⟩ := stepU_shape hs
        have hitr := stepU_itr hs
        rw [dispatchEvent_none h0 hs]
        simp only
        rw [handledOf_append, hh]
        rcases dispatchEvent_cases prog (withLimit s L) with ⟨h, _⟩ | ⟨_, h1, hd⟩ | ⟨_, h1, s1, o1, hs1, hd⟩
        · exact absurd h h0
        · rw [hd]
          rw [limitHit_eq, hnext] at h1
          simp [takeAdm, h1]
        · rw [hd]
          rw [stepU_withLimit, hs] at hs1
          simp only [Option.map_some, Option.some.injEq, Prod.mk.injEq] at hs1
          obtain ⟨rfl, rfl⟩ := hs1
          rw [limitHit_eq, hnext] at h1
          simp only
          rw [handledOf_append, hh, ih s', hitr]
          simp [takeAdm, h1]

theorem takeAdm_eventCount (n : Nat) : ∀ (i : Nat) (l : List (Nat × Nat)),
    takeAdm (.eventCount n) i l = l.take (n - i) := by
  intro i l
  induction l generalizing i with
  | nil => simp [takeAdm]
  | cons x xs ih =>
    obtain ⟨a, t⟩ := x
    simp only [takeAdm, Limit.applies]
    by_cases h : i + 1 > n
    · simp only [h, decide_true, if_true]
      have : n - i = 0 := by omega
      rw [this]; rfl
    · simp only [h, decide_false]
      rw [ih (i + 1)]
      have : n - i = (n - (i + 1)) + 1 := by omega
      rw [this]; rfl

theorem takeAdm_simTime (T : Nat) : ∀ (i : Nat) (l : List (Nat × Nat)),
    takeAdm (.simTime T) i l = l.takeWhile (fun p => decide (p.2 ≤ T)) := by
  intro i l
  induction l generalizing i with
  | nil => simp [takeAdm]
  | cons x xs ih =>
    obtain ⟨a, t⟩ := x
    simp only [takeAdm, Limit.applies, List.takeWhile_cons]
    by_cases h : t > T
    · have : ¬ t ≤ T := by omega
      simp [h, this]
    · have : t ≤ T := by omega
      simp [h, this, ih (i + 1)]

/-! ### composing unlimited runs -/

theorem dispatchAll_none_add (prog : Prog) (a b : Nat) : ∀ (s : S), s.limit = .none →
    dispatchAll fesES prog (a + b) s =
      ((dispatchAll fesES prog b (dispatchAll fesES prog a s).1).1,
       (dispatchAll fesES prog a s).2 ++ (dispatchAll fesES prog b (dispatchAll fesES prog a s).1).2) := by
  induction a with
  | zero => intro s _; simp [dispatchAll]
  | succ a ih =>
    intro s hl
    have : a + 1 + b = (a + b) + 1 := by omega
    rw [this]
    simp only [dispatchAll]
    rcases hd : dispatchEvent fesES prog s with ⟨s', os, stop⟩
    cases stop with
    | true =>
      simp only
      -- stopped with limit none: the event set is empty, so nothing more happens
      have hempty : fesES.len s.es = 0 ∧ s' = s ∧ os = [] := by
        unfold dispatchEvent at hd
        by_cases h0 : fesES.len s.es = 0
        · simp only [h0, if_true, Prod.mk.injEq] at hd
          exact ⟨h0, hd.1.symm, hd.2.1.symm⟩
        · have hlh : limitHit fesES s = false := by unfold limitHit; rw [hl]
          simp only [h0, if_false, hlh, Bool.false_eq_true] at hd
          cases hs : stepU fesES prog s with
          | none => exact absurd ((stepU_none_iff prog).mp hs) h0
          | some p => rw [hs] at hd; simp at hd
      obtain ⟨h0, rfl, rfl⟩ := hempty
      have : ∀ k, dispatchAll fesES prog k s' = (s', []) := by
        intro k
        cases k with
        | zero => rfl
        | succ k => simp only [dispatchAll]; unfold dispatchEvent; simp [h0]
      rw [this b]; simp
    | false =>
      simp only
      have hl' : s'.limit = .none := by
        unfold dispatchEvent at hd
        by_cases h0 : fesES.len s.es = 0
        · simp [h0] at hd
        · have hlh : limitHit fesES s = false := by unfold limitHit; rw [hl]
          simp only [h0, if_false, hlh, Bool.false_eq_true] at hd
          cases hs : stepU fesES prog s with
          | none => rw [hs] at hd; simp at hd
          | some p =>
            rw [hs] at hd
            simp only [Prod.mk.injEq] at hd
            obtain ⟨rfl, _, _⟩ := hd
            have := stepU_withLimit prog s s.limit
            rw [withLimit_self, hs] at this
            simp only [Option.map_some, Option.some.injEq] at this
            have h2 : p.1 = withLimit p.1 s.limit := congrArg Prod.fst this
            rw [h2]; exact hl
      rw [ih s' hl']
      simp [List.append_assoc]

/-- once the event set is empty, more fuel changes nothing -/
theorem dispatchAll_stable (prog : Prog) (k : Nat) (s : S) (hl : s.limit = .none)
    (hempty : FES.len (dispatchAll fesES prog k s).1.es = 0) (k' : Nat) (hk : k ≤ k') :
    dispatchAll fesES prog k' s = dispatchAll fesES prog k s := by
  obtain ⟨d, rfl⟩ : ∃ d, k' = k + d := ⟨k' - k, by omega⟩
  rw [dispatchAll_none_add prog k d s hl]
  have : dispatchAll fesES prog d (dispatchAll fesES prog k s).1 = ((dispatchAll fesES prog k s).1, []) := by
    cases d with
    | zero => rfl
    | succ d =>
      rw [dispatchAll_succ]
      rcases dispatchEvent_cases prog (dispatchAll fesES prog k s).1 with ⟨_, hd⟩ | ⟨h, _, _⟩ | ⟨h, _, _⟩
      · rw [hd]
      · exact absurd hempty h
      · exact absurd hempty h
  rw [this]; simp

/-! ### finish(): the remaining events -/

theorem drain_perm (fuel : Nat) : ∀ {s : S}, RInv s → FES.len s.es ≤ fuel →
    (drain fesES fuel s.es).Perm (pendingVT s.es) := by
  induction fuel with
  | zero =>
    intro s _ hl
    have hz : s.es.zero = [] := by
      apply List.eq_nil_of_length_eq_zero; simp only [FES.len] at hl; omega
    have hp : s.es.pend = [] := by
      apply List.eq_nil_of_length_eq_zero; simp only [FES.len] at hl; omega
    simp [drain, pendingVT, hz, hp]
  | succ fuel ih =>
    intro s h hl
    simp only [drain]
    cases hs : stepU fesES [] s with
    | none =>
      have h0 := (stepU_none_iff []).mp hs
      have hz : s.es.zero = [] := by
        apply List.eq_nil_of_length_eq_zero; simp only [FES.len] at h0; omega
      have hp : s.es.pend = [] := by
        apply List.eq_nil_of_length_eq_zero; simp only [FES.len] at h0; omega
      have : fesES.fetch s.es = none := by
        simp [fesES, FES.fetch, hz, hp, minEv]
      simp [this, pendingVT, hz, hp]
    | some p =>
      obtain ⟨s', os⟩ := p
      obtain ⟨e, f⟩ := stepU_spec h [] hs
      -- with the empty program the handler does nothing: s'.es is the fetched rest
      unfold stepU at hs
      cases hf : fesES.fetch s.es with
      | none => simp [hf] at hs
      | some q =>
        obtain ⟨e', es'⟩ := q
        simp only [hf, handle, List.getD_eq_getElem?_getD, List.getElem?_nil, Option.getD_none,
          runActs, Option.some.injEq, Prod.mk.injEq] at hs
        obtain ⟨rfl, rfl⟩ := hs
        simp only
        have he : (e'.val, e'.time) = (e.val, e.time) := by
          have := f.handled
          simp [handledOf] at this
          exact Prod.ext this.1 this.2
        have hperm := f.perm
        simp only [schedOkOf, List.filterMap_cons, List.filterMap_nil, List.nil_append] at hperm
        have hlen : FES.len es' ≤ fuel := by
          have := hperm.length_eq
          simp only [pendingVT, List.length_map, List.length_cons, List.length_append] at this
          simp only [FES.len] at hl ⊢
          omega
        have := ih (s := { s with es := es', itr := s.itr + 1, now := e'.time }) f.inv' hlen
        rw [he]
        exact (List.Perm.cons _ this).trans hperm.symm

end Rt

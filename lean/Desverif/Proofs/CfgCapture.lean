/-
`update_from` on a compartmentalised configuration in normal form adds exactly the properties the
segment matcher assigns to the flat reading of the configuration.
-/
import Desverif.Proofs.CfgNF
namespace Cfg
open CfgSpec (Matches)

/-- entry `x` is justified by a flat entry of `T` that addresses `p` -/
def Src (T : Entries) (p : List Seg) (x : Key × Slot) : Prop :=
  ∃ k s, x.2 = .yaml (.scalar s) ∧ FlatOf T k s ∧ Matches p k x.1

/-- name `n` is assigned to `p` by some flat entry of `T` -/
def Cov (T : Entries) (p : List Seg) (n : Key) : Prop :=
  ∃ k s, FlatOf T k s ∧ Matches p k n

theorem hasAny_iff {k : Key} : hasAny k = true ↔ ANY ∈ k := by
  simp [hasAny]

theorem setAll_eq (ps : Props) (es : Entries) :
    setAll ps es = es.foldl (fun ps e =>
      if (!(hasAny e.1 || isWildcardNode e.2)) = true then ps.set e.1 e.2 else ps) ps := by
  unfold setAll
  congr 1
  funext ps e
  cases hasAny e.1 || isWildcardNode e.2 <;> simp

theorem updateFromF_scalar (f : Nat) (ps : Props) (s : String) (p : List Seg) :
    updateFromF (f + 1) ps (.scalar s) p = .ok ps := by
  simp [updateFromF]

theorem updateFromF_cons (f : Nat) (ps : Props) (es : Entries) (s : Seg) (rest : List Seg) :
    updateFromF (f + 1) ps (.map es) (s :: rest) =
      match (match get es [ANY] with
             | some v => updateFromF f ps v rest
             | none => .ok ps) with
      | .error e => .error e
      | .ok ps1 =>
        match foldE (fun ps i =>
                match get es ((s :: rest).take (i + 1)) with
                | some entry => updateFromF f ps entry ((s :: rest).drop (i + 1))
                | none => .ok ps) ps1 (List.range (s :: rest).length) with
        | .error e => .error e
        | .ok ps2 => .ok (setDirect ps2 es (s :: rest)) := by
  rw [updateFromF]; rfl

/-- **Claim B.** -/
theorem updateFromF_ext : ∀ (f : Nat) (T : Entries) (p : List Seg) (ps : Props), NF T →
    p.length < f →
    ∃ ps', updateFromF f ps (.map T) p = .ok ps' ∧ Ext (Src T p) (Cov T p) ps ps' := by
  intro f
  induction f with
  | zero => intro T p ps _ h; omega
  | succ f ih =>
    intro T p ps hT hlen
    cases p with
    | nil =>
      refine ⟨setAll ps T, by simp [updateFromF], ?_⟩
      rw [setAll_eq]
      refine (ext_foldSet (fun e => !(hasAny e.1 || isWildcardNode e.2)) (·.1) T ps).weaken ?_ ?_
      · rintro x ⟨e, he, hc, hx⟩
        obtain ⟨k, v⟩ := e
        simp only [Bool.not_eq_true', Bool.or_eq_false_iff] at hc
        have hk : ANY ∉ k := fun h => by simpa [hasAny_iff.mpr h] using hc.1
        cases hT.ent he with
        | any _ _ => simp at hk
        | top _ _ _ _ => simp [isWildcardNode, get] at hc
        | @leaf _ s _ h2 =>
          subst hx
          exact ⟨k, s, rfl, FlatOf.leaf he, rfl, h2, hk⟩
      · rintro n ⟨k, s, hf, hm⟩
        obtain ⟨h1, h2, h3⟩ := hm
        subst h1
        cases hf with
        | leaf he =>
          refine ⟨(k, .scalar s), he, ?_, rfl⟩
          have : hasAny k = false := by
            cases h : hasAny k with
            | false => rfl
            | true => exact absurd (hasAny_iff.mp h) h3
          simp [this, isWildcardNode]
        | @node _ k1 sub k' _ he hsub =>
          cases hT.ent he with
          | any _ _ => simp at h3
          | top _ _ _ _ =>
            obtain ⟨k'', hk, _⟩ := hsub.single_inv
            subst hk
            simp at h3
    | cons s rest =>
      have hrest : rest.length < f := by simpa using hlen
      obtain ⟨f', rfl⟩ : ∃ f', f = f' + 1 := ⟨f - 1, by omega⟩
      -- phase 1: wildcard branch
      have H1 : ∃ ps1, (match get T [ANY] with
                        | some v => updateFromF (f' + 1) ps v rest
                        | none => Except.ok ps) = .ok ps1 ∧
          Ext (fun x => ∃ w, get T [ANY] = some (.map w) ∧ Src w rest x)
            (fun n => ∃ w, get T [ANY] = some (.map w) ∧ Cov w rest n) ps ps1 := by
        cases hg : get T [ANY] with
        | none =>
          exact ⟨ps, rfl, Ext.same ps (fun _ h => by obtain ⟨w, h, _⟩ := h; cases h)⟩
        | some v =>
          obtain ⟨w, hv, hw, _⟩ := (hT.ent (get_some_mem hg)).key_any
          subst hv
          obtain ⟨ps1, h1, e1⟩ := ih w rest ps hw hrest
          refine ⟨ps1, h1, e1.weaken (fun x h => ⟨w, rfl, h⟩) ?_⟩
          rintro n ⟨w', h, hc⟩
          cases h; exact hc
      -- phase 2: progressive prefix lookup
      have H2 : ∀ ps1, ∃ ps2, foldE (fun ps i =>
                  match get T ((s :: rest).take (i + 1)) with
                  | some entry => updateFromF (f' + 1) ps entry ((s :: rest).drop (i + 1))
                  | none => .ok ps) ps1 (List.range (s :: rest).length) = .ok ps2 ∧
          Ext (fun x => ∃ i ∈ List.range (s :: rest).length, ∃ sub,
                  get T ((s :: rest).take (i + 1)) = some (.map sub) ∧
                  Src sub ((s :: rest).drop (i + 1)) x)
            (fun n => ∃ i ∈ List.range (s :: rest).length, ∃ sub,
                  get T ((s :: rest).take (i + 1)) = some (.map sub) ∧
                  Cov sub ((s :: rest).drop (i + 1)) n) ps1 ps2 := by
        apply foldE_ext
        intro i hi ps1
        have hi' : i < rest.length + 1 := by simpa using hi
        cases hg : get T ((s :: rest).take (i + 1)) with
        | none =>
          exact ⟨ps1, rfl, Ext.same ps1 (fun _ h => by obtain ⟨w, h, _⟩ := h; cases h)⟩
        | some e =>
          rcases (hT.ent (get_some_mem hg)).val with ⟨sc, he⟩ | ⟨sub, he, hsub⟩
          · subst he
            exact ⟨ps1, updateFromF_scalar .., Ext.same ps1
              (fun _ h => by obtain ⟨w, h, _⟩ := h; cases h)⟩
          · subst he
            obtain ⟨ps2, h2, e2⟩ := ih sub ((s :: rest).drop (i + 1)) ps1 hsub (by
              simp only [List.drop_succ_cons, List.length_drop]; omega)
            refine ⟨ps2, h2, e2.weaken (fun x h => ⟨sub, rfl, h⟩) ?_⟩
            rintro n ⟨w', h, hc⟩
            cases h; exact hc
      obtain ⟨ps1, h1, e1⟩ := H1
      obtain ⟨ps2, h2, e2⟩ := H2 ps1
      refine ⟨setDirect ps2 T (s :: rest), ?_, ?_⟩
      · rw [updateFromF_cons, h1]
        simp only []
        rw [h2]
      · have e3 := ext_foldSet (fun e => (s :: rest).isPrefixOf e.1 &&
            decide ((s :: rest).length < e.1.length) && !isWildcardNode e.2)
            (fun e => e.1.drop (s :: rest).length) T ps2
        refine ((e1.trans e2).trans e3).weaken ?_ ?_
        · -- soundness
          rintro x ((⟨w, hg, k, sv, hx, hf, hm⟩ | ⟨i, hi, sub, hg, k, sv, hx, hf, hm⟩) | ⟨e, he, hc, hx⟩)
          · exact ⟨ANY :: k, sv, hx, FlatOf.node (get_some_mem hg) hf, CfgSpec.matches_any_cons.mpr hm⟩
          · have hi' : i + 1 ≤ (s :: rest).length := by
              have := List.mem_range.mp hi; omega
            exact ⟨_, sv, hx, FlatOf.node (get_some_mem hg) hf, CfgSpec.matches_take hi' hm⟩
          · obtain ⟨k, v⟩ := e
            simp only [Bool.and_eq_true, decide_eq_true_eq, Bool.not_eq_true'] at hc
            obtain ⟨⟨hp, hl⟩, hw⟩ := hc
            have hp' := List.isPrefixOf_iff_prefix.mp hp
            cases hT.ent he with
            | any _ _ => simp at hl
            | top _ _ _ _ => simp [isWildcardNode, get] at hw
            | @leaf _ sc hk _ =>
              subst hx
              have hk2 : k = (s :: rest) ++ k.drop (s :: rest).length :=
                (List.prefix_iff_eq_append.mp hp').symm
              refine ⟨k, sc, rfl, FlatOf.leaf he, ?_⟩
              show Matches (s :: rest) k (k.drop (s :: rest).length)
              have hne : k.drop (s :: rest).length ≠ [] := by
                intro h
                have := congrArg List.length h
                simp only [List.length_drop, List.length_nil] at this
                omega
              have hna : ANY ∉ k.drop (s :: rest).length := fun h => hk (List.mem_of_mem_drop h)
              have := CfgSpec.matches_self_append (p := s :: rest) hne hna
              rw [← hk2] at this
              exact this
        · -- completeness
          rintro n ⟨k, sv, hf, hm⟩
          cases hf with
          | leaf he =>
            cases hT.ent he with
            | @leaf _ _ hk _ =>
              have hkn := hm.eq_of_noany hk
              refine Or.inr ⟨(k, .scalar sv), he, ?_, ?_⟩
              · have hn := hm.name_ok.1
                have hl : (s :: rest).length < k.length := by
                  rw [hkn, List.length_append]
                  have : 0 < n.length := List.length_pos_iff.mpr hn
                  omega
                have hp : (s :: rest).isPrefixOf k = true :=
                  List.isPrefixOf_iff_prefix.mpr (hkn ▸ List.prefix_append _ _)
                simp only [hp, isWildcardNode, Bool.true_and, Bool.not_false, Bool.and_true,
                  decide_eq_true_eq]
                exact hl
              · show n = k.drop (s :: rest).length
                rw [hkn]; simp
          | @node _ k1 sub k' _ he hsub =>
            cases hT.ent he with
            | any hw _ =>
              exact Or.inl (Or.inl ⟨_, mem_get hT.nodup he, k', sv, hsub,
                CfgSpec.matches_any_cons.mp hm⟩)
            | top hk1 hne hw _ =>
              obtain ⟨k'', hk, hf''⟩ := hsub.single_inv
              subst hk
              obtain ⟨q1, q2, q3⟩ := hm.split hk1 (List.mem_cons_self ..)
              have hlt : k1.length < (s :: rest).length := by
                rcases Nat.lt_or_ge k1.length (s :: rest).length with h | h
                · exact h
                · have : (s :: rest).drop k1.length = [] := List.drop_eq_nil_of_le h
                  rw [this] at q3
                  have := q3.1 ▸ q3.2.2
                  simp at this
              have hpos : 0 < k1.length := List.length_pos_iff.mpr hne
              refine Or.inl (Or.inr ⟨k1.length - 1, List.mem_range.mpr (by omega), _, ?_, ANY :: k'', sv, hsub, ?_⟩)
              · have : k1.length - 1 + 1 = k1.length := by omega
                rw [this, ← q1]
                exact mem_get hT.nodup he
              · have : k1.length - 1 + 1 = k1.length := by omega
                rw [this]; exact q3

/-- `update_from` never runs out of fuel on a normal form and adds exactly the specified entries -/
theorem updateFrom_ext (T : Entries) (p : List Seg) (ps : Props) (hT : NF T) :
    ∃ ps', updateFrom ps (.map T) p = .ok ps' ∧ Ext (Src T p) (Cov T p) ps ps' :=
  updateFromF_ext (p.length + 1) T p ps hT (by omega)

end Cfg

/-
A registered timer entry fires at exactly its deadline: trace-level consequence of `WakeInv`.
-/
import Desverif.Proofs.TimerInv
namespace Timer

theorem stepEv_pending (t : State) (e : Ev) :
    (stepEv t e).1.pending =
      (applyOps ⟨(applyOps t e.pre).pending.dropWhile (fun s => s.time ≤ e.time),
                 (if (applyOps t e.pre).nextWakeup ≤ e.time then tMax else (applyOps t e.pre).nextWakeup),
                 (if e.wake then (applyOps t e.pre).wakeups.erase e.time else (applyOps t e.pre).wakeups)⟩ e.ops).pending := by
  rw [stepEv_fst]
  unfold deactivate
  rw [deactivateWith_pending]
  cases e.wake <;> rfl

/-- what "nobody drops or resets the sleep before it fires" means for a list of events -/
def Keeps (sid d : Nat) (evs : List Ev) : Prop :=
  ∀ ev ∈ evs, (ev.time ≤ d → ∀ o ∈ ev.pre, o.touches sid = false) ∧
              (ev.time < d → ∀ o ∈ ev.ops, o.touches sid = false)

theorem fires_core {now : Nat} {t : State} (hinv : WakeInv now t) {d : Nat} {e : Entry}
    (hl : HasEntry t.pending d e) (hd : d < tMax) (evs : List Ev) (hc : Consistent t evs)
    (hkeep : Keeps e.sid d evs) (hdone : (runEvs t evs).1.wakeups = []) :
    ∃ pre w post, (runEvs t evs).2 = pre ++ (d, w) :: post ∧ e ∈ w ∧ ∀ x ∈ pre, x.1 < d := by
  induction evs generalizing now t with
  | nil =>
    obtain ⟨_, hmem, _, _⟩ := live_has_wakeup hinv hl hd
    simp only [runEvs] at hdone
    rw [hdone] at hmem
    cases hmem
  | cons ev es ih =>
    obtain ⟨_, hmem, _, hle⟩ := live_has_wakeup hinv hl hd
    have hev : ev.time ≤ d := Nat.le_trans (hc.1.1 _ hmem) hle
    have hk := hkeep ev List.mem_cons_self
    have hl0 : HasEntry (applyOps t ev.pre).pending d e := hasEntry_applyOps (hk.1 hev) hl
    have hs0 : Sorted (applyOps t ev.pre).pending := sorted_applyOps _ hinv.sorted
    rw [runEvs_cons]
    by_cases heq : ev.time = d
    · obtain ⟨s, hs, ht, he⟩ := hl0
      refine ⟨[], (stepEv t ev).2, (runEvs (stepEv t ev).1 es).2, ?_, ?_, ?_⟩
      · simp [heq]
      · rw [stepEv_snd]
        exact List.mem_flatMap.mpr ⟨s, mem_takeWhile_of_le hs0 hs (by omega), he⟩
      · intro x hx; cases hx
    · have hlt : ev.time < d := by omega
      have hl1 : HasEntry (stepEv t ev).1.pending d e := by
        rw [stepEv_pending]
        apply hasEntry_applyOps (hk.2 hlt)
        obtain ⟨s, hs, ht, he⟩ := hl0
        exact ⟨s, mem_dropWhile_of_gt hs (by omega), ht, he⟩
      have hdone' : (runEvs (stepEv t ev).1 es).1.wakeups = [] := by
        rw [runEvs_cons] at hdone; exact hdone
      obtain ⟨pre, w, post, h1, h2, h3⟩ :=
        ih (wakeinv_step hinv hc.1) hl1 hc.2 (fun ev' h' => hkeep ev' (List.mem_cons_of_mem _ h')) hdone'
      refine ⟨(ev.time, (stepEv t ev).2) :: pre, w, post, ?_, h2, ?_⟩
      · simp [h1]
      · intro x hx
        rcases List.mem_cons.mp hx with hx | hx
        · subst hx; exact hlt
        · exact h3 x hx

/-! ### exactly once, and only when due -/

/-- no entry of sleep `sid` is registered anywhere -/
def NoSid (sid : Nat) (p : List Slot) : Prop := ∀ s ∈ p, ∀ x ∈ s.entries, x.sid ≠ sid
/-- entries of sleep `sid` are registered only in the slot with deadline `d` -/
def OnlyAt (sid d : Nat) (p : List Slot) : Prop := ∀ s ∈ p, ∀ x ∈ s.entries, x.sid = sid → s.time = d

def Op.registers (sid : Nat) : Op → Bool
  | .register _ s _ => s == sid
  | _ => false

theorem onlyAt_add {sid d : Nat} {p : List Slot} (h : OnlyAt sid d p) {e : Entry} (he : e.sid ≠ sid) (t : Nat) :
    OnlyAt sid d (add p e t) := by
  intro s' hs' x hx hxs
  rcases mem_add p e t s' hs' with hm | ⟨ht, old, hold, hsrc⟩
  · exact h s' hm x hx hxs
  · rw [hold] at hx
    rcases List.mem_append.mp hx with hx | hx
    · rcases hsrc with hnil | ⟨s0, hs0, ht0, he0⟩
      · rw [hnil] at hx; cases hx
      · rw [ht, ← ht0]; exact h s0 hs0 x (by rw [he0]; exact hx) hxs
    · rw [List.mem_singleton.mp hx] at hxs; exact absurd hxs he

theorem onlyAt_removeEntry {sid d : Nat} {p : List Slot} (h : OnlyAt sid d p) (hh s : Nat) :
    OnlyAt sid d (removeEntry p hh s) := by
  intro s' hs' x hx hxs
  obtain ⟨s0, hs0, ht, hsub, _⟩ := mem_removeEntry hs'
  rw [ht]; exact h s0 hs0 x (hsub x hx) hxs

theorem findEntry_mem {p : List Slot} {h sid : Nat} {e : Entry} (hf : findEntry p h sid = some e) :
    ∃ s ∈ p, e ∈ s.entries := by
  unfold findEntry at hf
  split at hf
  · rename_i s hs
    exact ⟨s, List.mem_of_find?_eq_some hs, List.mem_of_find?_eq_some hf⟩
  · cases hf

theorem onlyAt_applyOp {sid d : Nat} {t : State} {o : Op} (h : OnlyAt sid d t.pending)
    (h1 : o.registers sid = false) (h2 : o.touches sid = false) : OnlyAt sid d (applyOp t o).pending := by
  cases o with
  | register d' s tid =>
    refine onlyAt_add h ?_ d'
    intro heq; simp [Op.registers] at h1; exact h1 heq
  | remove hh s => exact onlyAt_removeEntry h hh s
  | reset hh s d' =>
    simp only [applyOp, resetEntry]
    split
    · exact h
    · rename_i e' hf
      have hne : e'.sid ≠ sid := by
        rw [findEntry_sid hf]; intro heq; simp [Op.touches, heq] at h2
      exact onlyAt_removeEntry (onlyAt_add (onlyAt_removeEntry h _ _) hne d') _ _

theorem onlyAt_applyOps {sid d : Nat} {t : State} {ops : List Op} (h : OnlyAt sid d t.pending)
    (h1 : ∀ o ∈ ops, o.registers sid = false) (h2 : ∀ o ∈ ops, o.touches sid = false) :
    OnlyAt sid d (applyOps t ops).pending := by
  induction ops generalizing t with
  | nil => exact h
  | cons o r ih =>
    simp only [applyOps, List.foldl_cons] at ih ⊢
    exact ih (onlyAt_applyOp h (h1 o List.mem_cons_self) (h2 o List.mem_cons_self))
      (fun o' ho' => h1 o' (List.mem_cons_of_mem _ ho')) (fun o' ho' => h2 o' (List.mem_cons_of_mem _ ho'))

theorem noSid_add {sid : Nat} {p : List Slot} (h : NoSid sid p) {e : Entry} (he : e.sid ≠ sid) (t : Nat) :
    NoSid sid (add p e t) := by
  intro s' hs' x hx
  rcases mem_add p e t s' hs' with hm | ⟨_, old, hold, hsrc⟩
  · exact h s' hm x hx
  · rw [hold] at hx
    rcases List.mem_append.mp hx with hx | hx
    · rcases hsrc with hnil | ⟨s0, hs0, _, he0⟩
      · rw [hnil] at hx; cases hx
      · exact h s0 hs0 x (by rw [he0]; exact hx)
    · rw [List.mem_singleton.mp hx]; exact he

theorem noSid_removeEntry {sid : Nat} {p : List Slot} (h : NoSid sid p) (hh s : Nat) :
    NoSid sid (removeEntry p hh s) := by
  intro s' hs' x hx
  obtain ⟨s0, hs0, _, hsub, _⟩ := mem_removeEntry hs'
  exact h s0 hs0 x (hsub x hx)

/-- once the sleep's entry is gone, nothing but a new registration brings it back -/
theorem noSid_applyOp {sid : Nat} {t : State} {o : Op} (h : NoSid sid t.pending)
    (h1 : o.registers sid = false) : NoSid sid (applyOp t o).pending := by
  cases o with
  | register d' s tid =>
    refine noSid_add h ?_ d'
    intro heq; simp [Op.registers] at h1; exact h1 heq
  | remove hh s => exact noSid_removeEntry h hh s
  | reset hh s d' =>
    simp only [applyOp, resetEntry]
    split
    · exact h
    · rename_i e' hf
      obtain ⟨s0, hs0, he0⟩ := findEntry_mem hf
      exact noSid_removeEntry (noSid_add (noSid_removeEntry h _ _) (h s0 hs0 e' he0) d') _ _

theorem noSid_applyOps {sid : Nat} {t : State} {ops : List Op} (h : NoSid sid t.pending)
    (h1 : ∀ o ∈ ops, o.registers sid = false) : NoSid sid (applyOps t ops).pending := by
  induction ops generalizing t with
  | nil => exact h
  | cons o r ih =>
    simp only [applyOps, List.foldl_cons] at ih ⊢
    exact ih (noSid_applyOp h (h1 o List.mem_cons_self)) (fun o' ho' => h1 o' (List.mem_cons_of_mem _ ho'))

/-- nobody registers sleep `sid` (again) in these events -/
def NoReg (sid : Nat) (evs : List Ev) : Prop :=
  ∀ ev ∈ evs, (∀ o ∈ ev.pre, o.registers sid = false) ∧ (∀ o ∈ ev.ops, o.registers sid = false)

theorem noSid_sublist {sid : Nat} {p q : List Slot} (h : NoSid sid p) (hq : ∀ s ∈ q, s ∈ p) : NoSid sid q :=
  fun s hs => h s (hq s hs)

theorem noSid_never_woken {sid : Nat} {t : State} (h : NoSid sid t.pending) (evs : List Ev) (hr : NoReg sid evs) :
    ∀ x ∈ (runEvs t evs).2, ∀ y ∈ x.2, y.sid ≠ sid := by
  induction evs generalizing t with
  | nil => intro x hx; cases hx
  | cons ev es ih =>
    have hre := hr ev List.mem_cons_self
    have h0 : NoSid sid (applyOps t ev.pre).pending := noSid_applyOps h hre.1
    rw [runEvs_cons]
    intro x hx
    rcases List.mem_cons.mp hx with hx | hx
    · subst hx
      intro y hy
      simp only at hy
      rw [stepEv_snd] at hy
      obtain ⟨s, hs, hys⟩ := List.mem_flatMap.mp hy
      exact h0 s ((List.takeWhile_sublist _).subset hs) y hys
    · refine ih ?_ (fun ev' h' => hr ev' (List.mem_cons_of_mem _ h')) x hx
      rw [stepEv_pending]
      apply noSid_applyOps _ hre.2
      exact noSid_sublist h0 (fun s hs => (List.dropWhile_sublist _).subset hs)

/-- **Exactly once, exactly at the deadline.** As `fires_core`, for a sleep whose entries are only in
    the slot `d` and which nobody registers again: the entry is woken by the event at time `d`, by no
    event before it and by no event after it. -/
theorem fires_once {now : Nat} {t : State} (hinv : WakeInv now t) {d : Nat} {e : Entry}
    (hl : HasEntry t.pending d e) (hd : d < tMax) (ho : OnlyAt e.sid d t.pending) (evs : List Ev)
    (hc : Consistent t evs) (hkeep : Keeps e.sid d evs) (hreg : NoReg e.sid evs)
    (hdone : (runEvs t evs).1.wakeups = []) :
    ∃ pre w post, (runEvs t evs).2 = pre ++ (d, w) :: post ∧ e ∈ w ∧
      (∀ x ∈ pre, x.1 < d ∧ e ∉ x.2) ∧ (∀ x ∈ post, e ∉ x.2) := by
  induction evs generalizing now t with
  | nil =>
    obtain ⟨_, hmem, _, _⟩ := live_has_wakeup hinv hl hd
    simp only [runEvs] at hdone
    rw [hdone] at hmem
    cases hmem
  | cons ev es ih =>
    obtain ⟨_, hmem, _, hle⟩ := live_has_wakeup hinv hl hd
    have hev : ev.time ≤ d := Nat.le_trans (hc.1.1 _ hmem) hle
    have hk := hkeep ev List.mem_cons_self
    have hre := hreg ev List.mem_cons_self
    have hl0 : HasEntry (applyOps t ev.pre).pending d e := hasEntry_applyOps (hk.1 hev) hl
    have hs0 : Sorted (applyOps t ev.pre).pending := sorted_applyOps _ hinv.sorted
    have ho0 : OnlyAt e.sid d (applyOps t ev.pre).pending := onlyAt_applyOps ho hre.1 (hk.1 hev)
    rw [runEvs_cons]
    by_cases heq : ev.time = d
    · obtain ⟨s, hs, ht, he⟩ := hl0
      refine ⟨[], (stepEv t ev).2, (runEvs (stepEv t ev).1 es).2, ?_, ?_, ?_, ?_⟩
      · simp [heq]
      · rw [stepEv_snd]
        exact List.mem_flatMap.mpr ⟨s, mem_takeWhile_of_le hs0 hs (by omega), he⟩
      · intro x hx; cases hx
      · -- after the event at `d` no entry of the sleep is left, and none comes back
        have hno : NoSid e.sid (stepEv t ev).1.pending := by
          rw [stepEv_pending]
          apply noSid_applyOps _ hre.2
          intro s' hs' x hx hxs
          have hgt := dropWhile_gt hs0 s' hs'
          have := ho0 s' ((List.dropWhile_sublist _).subset hs') x hx hxs
          omega
        intro x hx hex
        exact noSid_never_woken hno es (fun ev' h' => hreg ev' (List.mem_cons_of_mem _ h')) x hx e hex rfl
    · have hlt : ev.time < d := by omega
      have hl1 : HasEntry (stepEv t ev).1.pending d e := by
        rw [stepEv_pending]
        apply hasEntry_applyOps (hk.2 hlt)
        obtain ⟨s, hs, ht, he⟩ := hl0
        exact ⟨s, mem_dropWhile_of_gt hs (by omega), ht, he⟩
      have ho1 : OnlyAt e.sid d (stepEv t ev).1.pending := by
        rw [stepEv_pending]
        apply onlyAt_applyOps _ hre.2 (hk.2 hlt)
        intro s' hs' x hx hxs
        exact ho0 s' ((List.dropWhile_sublist _).subset hs') x hx hxs
      have hdone' : (runEvs (stepEv t ev).1 es).1.wakeups = [] := by
        rw [runEvs_cons] at hdone; exact hdone
      obtain ⟨pre, w, post, h1, h2, h3, h4⟩ :=
        ih (wakeinv_step hinv hc.1) hl1 ho1 hc.2 (fun ev' h' => hkeep ev' (List.mem_cons_of_mem _ h'))
          (fun ev' h' => hreg ev' (List.mem_cons_of_mem _ h')) hdone'
      refine ⟨(ev.time, (stepEv t ev).2) :: pre, w, post, ?_, h2, ?_, h4⟩
      · simp [h1]
      · intro x hx
        rcases List.mem_cons.mp hx with hx | hx
        · subst hx
          refine ⟨hlt, ?_⟩
          simp only
          rw [stepEv_snd]
          intro hmem'
          obtain ⟨s, hs, hes⟩ := List.mem_flatMap.mp hmem'
          have h1' := takeWhile_le s hs
          have h2' := ho0 s ((List.takeWhile_sublist _).subset hs) e hes rfl
          omega
        · exact h3 x hx

/-- what is left non-empty after drops was non-empty before -/
theorem nonempty_after_removes {t : State} {ops : List Op} (hr : ∀ o ∈ ops, o.isRemove = true) :
    ∀ s' ∈ (applyOps t ops).pending, s'.entries ≠ [] → ∃ s ∈ t.pending, s.time = s'.time ∧ s.entries ≠ [] := by
  induction ops generalizing t with
  | nil => intro s' hs' hne; exact ⟨s', hs', rfl, hne⟩
  | cons o r ih =>
    simp only [applyOps, List.foldl_cons] at ih ⊢
    intro s' hs' hne
    obtain ⟨s1, hs1, ht1, hne1⟩ := ih (fun o' ho' => hr o' (List.mem_cons_of_mem _ ho')) s' hs' hne
    have hro := hr o List.mem_cons_self
    cases o with
    | remove hh sid =>
      obtain ⟨s0, hs0, ht0, hsub, _⟩ := mem_removeEntry hs1
      refine ⟨s0, hs0, by omega, ?_⟩
      intro hnil
      cases hx : s1.entries with
      | nil => exact hne1 hx
      | cons x xs =>
        have := hsub x (by rw [hx]; exact List.mem_cons_self)
        rw [hnil] at this; cases this
    | register _ _ _ => simp [Op.isRemove] at hro
    | reset _ _ _ => simp [Op.isRemove] at hro

/-- **Woken only when due.** Under WakeInv every entry that an event's `activate` wakes was
    registered for exactly the time of that event: no entry is ever woken late (from an overdue
    slot) — and none early, since `bump` only pops slots `≤ now`. -/
theorem woken_exactly_due {now : Nat} {t : State} (h : WakeInv now t) {e : Ev} (he : EvOk t e)
    (hpre : ∀ o ∈ e.pre, o.isRemove = true) (hlt : e.time < tMax) :
    ∀ x ∈ (stepEv t e).2, HasEntry (applyOps t e.pre).pending e.time x := by
  intro x hx
  rw [stepEv_snd] at hx
  obtain ⟨s, hs, hxs⟩ := List.mem_flatMap.mp hx
  have hle := takeWhile_le s hs
  have hmem := (List.takeWhile_sublist _).subset hs
  have hne : s.entries ≠ [] := by intro hn; rw [hn] at hxs; cases hxs
  obtain ⟨s0, hs0, ht0, hne0⟩ := nonempty_after_removes hpre s hmem hne
  have h2 := h.j2 s0 hs0 hne0
  have h1 := h.j1 (by omega)
  have := he.1 _ h1.1
  exact ⟨s, hmem, by omega, hxs⟩

end Timer

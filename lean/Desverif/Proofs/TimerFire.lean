/-
A registered timer entry fires at exactly its deadline: trace-level consequence of `WakeInv`.
-/
import Desverif.Proofs.TimerInv
namespace Timer

theorem stepEv_pending (t : State) (e : Ev) :
    (stepEv t e).1.pending =
      (applyOps ⟨(applyOps t e.pre).pending.dropWhile (fun s => s.time ≤ e.time),
                 (if (applyOps t e.pre).nextWakeup ≤ e.time then tMax else (applyOps t e.pre).nextWakeup),
                 (if e.wake then (applyOps t e.pre).wakeups.erase e.time else (applyOps t e.pre).wakeups)⟩ e.ops).pending := by
  rw [stepEv_fst]
  unfold deactivate
  rw [deactivateWith_pending]
  cases e.wake <;> rfl

/-- what "nobody drops or resets the sleep before it fires" means for a list of events -/
def Keeps (sid d : Nat) (evs : List Ev) : Prop :=
  ∀ ev ∈ evs, (ev.time ≤ d → ∀ o ∈ ev.pre, o.touches sid = false) ∧
              (ev.time < d → ∀ o ∈ ev.ops, o.touches sid = false)

theorem fires_core {now : Nat} {t : State} (hinv : WakeInv now t) {d : Nat} {e : Entry}
    (hl : HasEntry t.pending d e) (hd : d < tMax) (evs : List Ev) (hc : Consistent t evs)
    (hkeep : Keeps e.sid d evs) (hdone : (runEvs t evs).1.wakeups = []) :
    ∃ pre w post, (runEvs t evs).2 = pre ++ (d, w) :: post ∧ e ∈ w ∧ ∀ x ∈ pre, x.1 < d := by
  induction evs generalizing now t with
  | nil =>
    obtain ⟨_, hmem, _, _⟩ := live_has_wakeup hinv hl hd
    simp only [runEvs] at hdone
    rw [hdone] at hmem
    cases hmem
  | cons ev es ih =>
    obtain ⟨_, hmem, _, hle⟩ := live_has_wakeup hinv hl hd
    have hev : ev.time ≤ d := Nat.le_trans (hc.1.1 _ hmem) hle
    have hk := hkeep ev List.mem_cons_self
    have hl0 : HasEntry (applyOps t ev.pre).pending d e := hasEntry_applyOps (hk.1 hev) hl
    have hs0 : Sorted (applyOps t ev.pre).pending := sorted_applyOps _ hinv.sorted
    rw [runEvs_cons]
    by_cases heq : ev.time = d
    · obtain ⟨s, hs, ht, he⟩ := hl0
      refine ⟨[], (stepEv t ev).2, (runEvs (stepEv t ev).1 es).2, ?_, ?_, ?_⟩
      · simp [heq]
      · rw [stepEv_snd]
        exact List.mem_flatMap.mpr ⟨s, mem_takeWhile_of_le hs0 hs (by omega), he⟩
      · intro x hx; cases hx
    · have hlt : ev.time < d := by omega
      have hl1 : HasEntry (stepEv t ev).1.pending d e := by
        rw [stepEv_pending]
        apply hasEntry_applyOps (hk.2 hlt)
        obtain ⟨s, hs, ht, he⟩ := hl0
        exact ⟨s, mem_dropWhile_of_gt hs (by omega), ht, he⟩
      have hdone' : (runEvs (stepEv t ev).1 es).1.wakeups = [] := by
        rw [runEvs_cons] at hdone; exact hdone
      obtain ⟨pre, w, post, h1, h2, h3⟩ :=
        ih (wakeinv_step hinv hc.1) hl1 hc.2 (fun ev' h' => hkeep ev' (List.mem_cons_of_mem _ h')) hdone'
      refine ⟨(ev.time, (stepEv t ev).2) :: pre, w, post, ?_, h2, ?_⟩
      · simp [h1]
      · intro x hx
        rcases List.mem_cons.mp hx with hx | hx
        · subst hx; exact hlt
        · exact h3 x hx

end Timer

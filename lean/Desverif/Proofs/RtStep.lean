import Desverif.Proofs.RtLimit
namespace Rt
open CQ (Ev)

/-! Stepping (`dispatch_n_events`, `dispatch_events_until`) composes to the uninterrupted run. -/

/-- a pure stepping command -/
def Cmd.isStep : Cmd → Bool
  | .stepN _ => true
  | .stepUntil _ => true
  | _ => false

theorem withLimit_none_of {s : S} (h : s.limit = .none) : withLimit s .none = s := by
  cases s; simp only [withLimit] at *; subst h; rfl

theorem step_is_prefix (prog : Prog) (fuel : Nat) (s : S) (hl : s.limit = .none) (c : Cmd)
    (hc : c.isStep = true) :
    ∃ k, k ≤ fuel ∧ dispatchAll fesES prog k s = execCmd fesES prog fuel s c ∧
      (execCmd fesES prog fuel s c).1.limit = .none := by
  cases c with
  | add _ _ => cases hc
  | runAll => cases hc
  | stepN n =>
    obtain ⟨k, hk, heq, _, _, _⟩ := dispatchAll_limit_prefix prog (.eventCount (s.itr + n)) fuel s
    rw [withLimit_none_of hl] at heq
    refine ⟨k, hk, ?_, ?_⟩
    · rw [heq]; simp only [execCmd, dispatchN, hl]; rfl
    · simp only [execCmd, dispatchN, hl]
  | stepUntil t =>
    obtain ⟨k, hk, heq, _, _, _⟩ := dispatchAll_limit_prefix prog (.simTime t) fuel s
    rw [withLimit_none_of hl] at heq
    refine ⟨k, hk, ?_, ?_⟩
    · rw [heq]; simp only [execCmd, dispatchUntil, hl]; rfl
    · simp only [execCmd, dispatchUntil, hl]

theorem steps_are_prefix (prog : Prog) (fuel : Nat) (cs : List Cmd) : ∀ (s : S), s.limit = .none →
    (∀ c ∈ cs, c.isStep = true) →
    ∃ K, dispatchAll fesES prog K s =
        ((execCmds fesES prog fuel s cs).1, allObs (execCmds fesES prog fuel s cs).2) ∧
      (execCmds fesES prog fuel s cs).1.limit = .none := by
  induction cs with
  | nil => intro s hl _; exact ⟨0, rfl, hl⟩
  | cons c cs ih =>
    intro s hl hall
    obtain ⟨k, _, h1, hl1⟩ := step_is_prefix prog fuel s hl c (hall c List.mem_cons_self)
    obtain ⟨K, h2, hl2⟩ := ih (execCmd fesES prog fuel s c).1 hl1
      (fun c' hc' => hall c' (List.mem_cons_of_mem _ hc'))
    refine ⟨k + K, ?_, ?_⟩
    · rw [dispatchAll_none_add prog k K s hl, h1, h2]
      simp only [execCmds, allObs, List.flatMap_cons]
    · simpa only [execCmds] using hl2

/-- **Stepping then running to completion = one uninterrupted run.** -/
theorem stepped_eq_run_spec (prog : Prog) (fuel : Nat) (steps : List Cmd) (s : S)
    (hl : s.limit = .none) (hall : ∀ c ∈ steps, c.isStep = true)
    (hdone : FES.len (execCmds fesES prog fuel s (steps ++ [.runAll])).1.es = 0) :
    ∃ K, ∀ K', K ≤ K' →
      dispatchAll fesES prog K' s =
        ((execCmds fesES prog fuel s (steps ++ [.runAll])).1,
         allObs (execCmds fesES prog fuel s (steps ++ [.runAll])).2) := by
  -- split the session
  have split : ∀ (cs : List Cmd) (x : S),
      execCmds fesES prog fuel x (cs ++ [.runAll]) =
        ((dispatchAll fesES prog fuel (execCmds fesES prog fuel x cs).1).1,
         (execCmds fesES prog fuel x cs).2 ++
           [((dispatchAll fesES prog fuel (execCmds fesES prog fuel x cs).1).2,
             paused fesES (dispatchAll fesES prog fuel (execCmds fesES prog fuel x cs).1).1)]) := by
    intro cs
    induction cs with
    | nil => intro x; simp [execCmds, execCmd]
    | cons c cs ih => intro x; simp only [List.cons_append, execCmds]; rw [ih]
  obtain ⟨K, h1, hl1⟩ := steps_are_prefix prog fuel steps s hl hall
  rw [split] at hdone ⊢
  have htot : dispatchAll fesES prog (K + fuel) s =
      ((dispatchAll fesES prog fuel (execCmds fesES prog fuel s steps).1).1,
       allObs (execCmds fesES prog fuel s steps).2 ++
         (dispatchAll fesES prog fuel (execCmds fesES prog fuel s steps).1).2) := by
    rw [dispatchAll_none_add prog K fuel s hl, h1]
  refine ⟨K + fuel, ?_⟩
  intro K' hK
  rw [dispatchAll_stable prog (K + fuel) s hl (by rw [htot]; exact hdone) K' hK, htot]
  simp [allObs, List.flatMap_append]

end Rt

/-
Properties of the per-hop FIFO server of Spec/ChainSrv.lean.
-/
import Desverif.Spec.ChainSrv
namespace ChainSrv

theorem serveHop_length (h : Hop) : ∀ (ms : List (Option Nat)) (free : Nat) (starts : List Nat),
    (serveHop h free starts ms).length = ms.length := by
  intro ms
  induction ms with
  | nil => intro free starts; rfl
  | cons m rest ih =>
    intro free starts
    cases m with
    | none => simp [serveHop, ih]
    | some a =>
      simp only [serveHop]
      split
      · simp [ih]
      · split
        · simp [ih]
        · cases h.cap with
          | none => simp [ih]
          | some c => simp only []; split <;> simp [ih]

theorem serveChain_length : ∀ (hs : List Hop) (ms : List (Option Nat)), (serveChain hs ms).length = ms.length := by
  intro hs
  induction hs with
  | nil => intro ms; rfl
  | cons h hs ih => intro ms; simp [serveChain, ih, serveHop_length]

/-- a single message finds every channel idle: it needs the idle delay -/
theorem serveChain_single : ∀ (hs : List Hop) (a : Nat), serveChain hs [some a] = [some (a + idleDelay hs)] := by
  intro hs
  induction hs with
  | nil => intro a; simp [serveChain, idleDelay]
  | cons h hs ih =>
    intro a
    have h1 : serveHop h 0 [] [some a] = [some (a + (h.tx + h.lat))] := by
      simp only [serveHop]
      split
      · rename_i ht; simp [ht]
      · simp [Nat.add_assoc]
    simp only [serveChain, h1, ih, idleDelay, List.map_cons, List.sum_cons]
    simp [Nat.add_assoc]

/-- an unbounded queue loses nothing -/
theorem serveHop_unbounded_all (h : Hop) (hc : h.cap = none) : ∀ (ms : List (Option Nat)) (free : Nat) (starts : List Nat),
    (∀ m ∈ ms, m ≠ none) → ∀ m ∈ serveHop h free starts ms, m ≠ none := by
  intro ms
  induction ms with
  | nil => intro free starts _ m hm; simp [serveHop] at hm
  | cons x rest ih =>
    intro free starts hall m hm
    have hrest : ∀ m ∈ rest, m ≠ none := fun m hm => hall m (List.mem_cons_of_mem _ hm)
    cases x with
    | none => exact absurd rfl (hall none List.mem_cons_self)
    | some a =>
      simp only [serveHop, hc] at hm
      split at hm
      · rcases List.mem_cons.mp hm with h1 | h1
        · rw [h1]; simp
        · exact ih _ _ hrest m h1
      · split at hm
        · rcases List.mem_cons.mp hm with h1 | h1
          · rw [h1]; simp
          · exact ih _ _ hrest m h1
        · rcases List.mem_cons.mp hm with h1 | h1
          · rw [h1]; simp
          · exact ih _ _ hrest m h1

/-- `n` messages arriving together at time `a ≥ free` on an idle, unbounded hop with transmission
    time `tx > 0`: transmission `k` starts at `a + k·tx`, the message leaves at `a + (k+1)·tx + lat` -/
theorem serveHop_simultaneous (h : Hop) (hc : h.cap = none) (ht : h.tx ≠ 0) (a : Nat) :
    ∀ (n k0 : Nat) (starts : List Nat), (k0 = 0 → True) →
    serveHop h (a + k0 * h.tx) starts (List.replicate n (some a)) =
      (List.range n).map fun k => some (a + (k0 + k + 1) * h.tx + h.lat) := by
  intro n
  induction n with
  | zero => intro k0 starts _; rfl
  | succ n ih =>
    intro k0 starts _
    rw [List.replicate_succ, List.range_succ_eq_map, List.map_cons, List.map_map]
    simp only [serveHop, ht, if_false, hc]
    by_cases hk : k0 = 0
    · subst hk
      simp only [Nat.zero_mul, Nat.add_zero, Nat.le_refl, if_true]
      have := ih 1 (starts ++ [a]) (fun _ => trivial)
      simp only [Nat.one_mul] at this
      rw [this]
      simp only [Nat.zero_add, Nat.one_mul, List.cons.injEq, true_and]
      apply List.map_congr_left
      intro k _
      simp only [Function.comp, Nat.succ_eq_add_one]
      have : 1 + k + 1 = k + 1 + 1 := by omega
      rw [this]
    · have hlt : ¬ (a + k0 * h.tx ≤ a) := by
        have : 0 < k0 * h.tx := Nat.mul_pos (Nat.pos_of_ne_zero hk) (Nat.pos_of_ne_zero ht)
        omega
      simp only [hlt, if_false]
      have e : a + k0 * h.tx + h.tx = a + (k0 + 1) * h.tx := by rw [Nat.add_mul]; omega
      rw [e, ih (k0 + 1) _ (fun _ => trivial)]
      simp only [List.cons.injEq, Function.comp]
      refine ⟨by simp, ?_⟩
      apply List.map_congr_left
      intro k _
      simp only [Function.comp, Nat.succ_eq_add_one]
      have : k0 + 1 + k + 1 = k0 + (k + 1) + 1 := by omega
      rw [this]

end ChainSrv

/-
The waker path as far as it is logic: what `deactivate` schedules, that a wake-up event is pending
for the earliest live deadline, that a stale wake-up event is harmless, and the order in which the
entries of the popped slots are woken.
-/
import Desverif.Proofs.TimerPot
namespace Timer

/-- `deactivate` schedules at most one `AsyncWakeupEvent`, exactly when the earliest live deadline
    is earlier than the recorded `next_wakeup`, and records it -/
theorem deactivate_rule (t : State) :
    ((deactivate t) = t ∧ (∀ n, next t.pending = some n → t.nextWakeup ≤ n)) ∨
    (∃ n, next t.pending = some n ∧ n < t.nextWakeup ∧
      deactivate t = { t with nextWakeup := n, wakeups := t.wakeups ++ [n] }) := by
  unfold deactivate deactivateWith
  cases hn : next t.pending with
  | none => exact Or.inl ⟨rfl, by intro n h; cases h⟩
  | some n =>
    simp only
    by_cases hlt : n < t.nextWakeup
    · rw [if_pos hlt]; exact Or.inr ⟨n, rfl, hlt, rfl⟩
    · rw [if_neg hlt]
      exact Or.inl ⟨rfl, by intro n' h; cases h; omega⟩

/-- **a wake-up event is pending for the earliest live deadline** -/
theorem wakeup_for_earliest_live {now : Nat} {t : State} (h : WakeInv now t) {n : Nat}
    (hn : next t.pending = some n) (hlt : n < tMax) :
    t.nextWakeup ∈ t.wakeups ∧ now < t.nextWakeup ∧ t.nextWakeup ≤ n ∧
    ∀ s ∈ t.pending, s.entries ≠ [] → n ≤ s.time := by
  obtain ⟨⟨s, hs, hst, hne⟩, hmin⟩ := next_some h.sorted hn
  have h2 := h.j2 s hs hne
  have h1 := h.j1 (by omega)
  exact ⟨h1.1, h1.2, by omega, hmin⟩

/-- nothing is live ⇒ `next` is `none` and conversely every live entry is at or after `next` -/
theorem next_none_iff_no_live (p : List Slot) : next p = none ↔ ∀ s ∈ p, s.entries = [] := by
  constructor
  · exact next_none
  · intro h
    simp only [next, Option.map_eq_none_iff, List.find?_eq_none]
    intro s hs
    simp [h s hs]

theorem flatMap_nil_of_all_empty {l : List Slot} (h : ∀ s ∈ l, s.entries = []) : l.flatMap (·.entries) = [] := by
  induction l with
  | nil => rfl
  | cons a r ih =>
    simp only [List.flatMap_cons, h a List.mem_cons_self, List.nil_append]
    exact ih (fun s hs => h s (List.mem_cons_of_mem _ hs))

/-- **a stale `AsyncWakeupEvent` is harmless**: if no live slot is due at its time (the timers it was
    scheduled for were dropped, reset, or belonged to a previous incarnation) it wakes nobody, every
    registered entry stays registered and the invariant holds afterwards -/
theorem stale_wakeup_harmless {now : Nat} {t : State} (h : WakeInv now t) (time : Nat)
    (hw : ∀ w ∈ t.wakeups, time ≤ w) (hstale : ∀ s ∈ t.pending, s.entries ≠ [] → time < s.time) :
    (stepEv t ⟨time, true, [], []⟩).2 = [] ∧
    (∀ d x, HasEntry t.pending d x → HasEntry (stepEv t ⟨time, true, [], []⟩).1.pending d x) ∧
    WakeInv time (stepEv t ⟨time, true, [], []⟩).1 := by
  refine ⟨?_, ?_, wakeinv_step (e := ⟨time, true, [], []⟩) h ⟨hw, fun o ho => by simp at ho⟩⟩
  · rw [stepEv_snd]
    apply flatMap_nil_of_all_empty
    intro s hs
    have hle : s.time ≤ time := takeWhile_le s hs
    have hm : s ∈ t.pending := (List.takeWhile_sublist _).subset hs
    cases hes : s.entries with
    | nil => rfl
    | cons x xs =>
      have := hstale s hm (by rw [hes]; exact List.cons_ne_nil _ _)
      omega
  · intro d x hx
    rw [stepEv_pending]
    obtain ⟨s, hs, ht, he⟩ := hx
    have hne : s.entries ≠ [] := by intro hn; rw [hn] at he; cases he
    have := hstale s hs hne
    exact ⟨s, mem_dropWhile_of_gt hs this, ht, he⟩

/-- entries join their slot at the end: a slot wakes its entries in registration order -/
theorem register_appends {p : List Slot} (hp : Sorted p) {s : Slot} (hs : s ∈ p) (e : Entry) :
    (⟨s.time, s.entries ++ [e]⟩ : Slot) ∈ add p e s.time := by
  induction p with
  | nil => cases hs
  | cons a rest ih =>
    have ha := List.pairwise_cons.mp hp
    simp only [add]
    rcases List.mem_cons.mp hs with h | h
    · subst h
      simp
    · have hlt := ha.1 s h
      rw [if_neg (by omega), if_neg (by omega)]
      exact List.mem_cons_of_mem _ (ih ha.2 h)

/-- `activate` wakes the entries of the popped slots in deadline order, each slot in registration order -/
theorem woken_order (t : State) (e : Ev) :
    (stepEv t e).2 = ((applyOps t e.pre).pending.takeWhile (fun s => s.time ≤ e.time)).flatMap (·.entries) :=
  stepEv_snd t e

end Timer

/-
The model refines the specification: every history of `Exec.runSim` is accepted by `ExecSpec.accept`.

`LE i s s'`  : `s'` extends the log of `s` by observations of task `i` made at `s.now`; clock and ghost counter kept
`Sim m σ`    : model state and specification state agree on what a poll can see (tasks, conditions, timers, clock),
               on the history so far, and on the pool of runnable tasks read as a multiset
-/
import Desverif.Spec.ExecSpec
import Desverif.Proofs.ExecSim
namespace Exec
open ExecSpec

/-! ### the log only grows, by observations of the polled task at the current instant -/

def LE (i : Nat) (s s' : St) : Prop :=
  s'.now = s.now ∧ s'.silent = s.silent ∧
  ∃ Δ, s'.log = Δ ++ s.log ∧ s'.nobs = s.nobs + Δ.length ∧ ∀ x ∈ Δ, x.time = s.now ∧ x.idx = i

theorem le_refl (i : Nat) (s : St) : LE i s s := ⟨rfl, rfl, [], rfl, rfl, fun x hx => by simp at hx⟩

theorem le_same (i : Nat) (s s' : St) (h1 : s'.now = s.now) (h2 : s'.silent = s.silent) (h3 : s'.log = s.log)
    (h4 : s'.nobs = s.nobs := by rfl) :
    LE i s s' := ⟨h1, h2, [], by simp [h3], by simp [h4], fun x hx => by simp at hx⟩

theorem le_trans {i : Nat} {a b c : St} (h1 : LE i a b) (h2 : LE i b c) : LE i a c := by
  obtain ⟨n1, s1, Δ1, l1, c1, p1⟩ := h1
  obtain ⟨n2, s2, Δ2, l2, c2, p2⟩ := h2
  refine ⟨n2.trans n1, s2.trans s1, Δ2 ++ Δ1, by rw [l2, l1, List.append_assoc],
    by rw [c2, c1, List.length_append]; omega, ?_⟩
  intro x hx
  rcases List.mem_append.1 hx with hx | hx
  · rw [← n1]; exact p2 x hx
  · exact p1 x hx

theorem le_pushEntry (i : Nat) (s : St) (e : Entry) : LE i s (pushEntry s e) := by
  unfold pushEntry
  cases e.kind <;> simp only <;> split <;> exact le_same i _ _ rfl rfl rfl

theorem le_enqueue (i : Nat) (s : St) (k : Kind) (j : Nat) : LE i s (enqueue s k j) := le_pushEntry i s _

theorem le_defer (i : Nat) (s : St) (k : Kind) (j : Nat) : LE i s (defer s k j) := le_same i _ _ rfl rfl rfl

theorem le_addTimer (i : Nat) (s : St) (tm : Timer) : LE i s (addTimer s tm) := le_same i _ _ rfl rfl rfl

theorem le_logAt (s : St) (i rdy : Nat) (org : Phase) : LE i s (logAt s i rdy org) :=
  ⟨rfl, rfl, [⟨s.now, i, rdy, org⟩], rfl, rfl, fun x hx => by simp at hx; subst hx; exact ⟨rfl, rfl⟩⟩

theorem le_setProg (i : Nat) (s : St) (j : Nat) (p : List Instr) : LE i s (setProg s j p) := by
  unfold setProg; split <;> exact le_same i _ _ rfl rfl rfl

theorem le_markPolled (i : Nat) (s : St) (j : Nat) : LE i s (markPolled s j) := by
  unfold markPolled; split <;> exact le_same i _ _ rfl rfl rfl

theorem le_spawnTask (i : Nat) (s : St) (t : Nat) : LE i s (spawnTask s t) := by
  unfold spawnTask
  split
  · exact le_refl i s
  · split
    · exact le_refl i s
    · exact le_trans (le_same i s _ rfl rfl rfl) (le_enqueue i _ _ _)

theorem le_grant (i : Nat) (s : St) (wk : Kind) (wi : Nat) : LE i s (grant s wk wi) := by
  unfold grant
  split
  · exact le_enqueue i _ _ _
  · split
    · exact le_same i s _ rfl rfl rfl
    · exact le_trans (le_same i s _ rfl rfl rfl) (le_enqueue i _ _ _)

theorem le_removeTimer (i : Nat) (s : St) (tm : Timer) : LE i s (removeTimer s tm) := le_same i _ _ rfl rfl rfl

theorem le_removeWaiter (i : Nat) (s : St) (q : Nat) (w : Kind × Nat) : LE i s (removeWaiter s q w) := by
  unfold removeWaiter; split <;> exact le_same i _ _ rfl rfl rfl

theorem le_wakeCond (i : Nat) (s : St) (k : Nat) : LE i s (wakeCond s k) := by
  unfold wakeCond
  split
  · exact le_refl i s
  · split
    · exact le_same i s _ rfl rfl rfl
    · exact le_trans (le_same i s _ rfl rfl rfl) (le_grant i _ _ _)

theorem le_grantAll (i : Nat) : ∀ (l : List (Kind × Nat)) (s : St), LE i s (grantAll l s) := by
  intro l
  induction l with
  | nil => intro s; exact le_refl i s
  | cons a l ih =>
    intro s
    obtain ⟨wk, wi⟩ := a
    simp only [grantAll]
    exact le_trans (le_grant i s wk wi) (ih _)

theorem le_wakeAll (i : Nat) (s : St) (k : Nat) : LE i s (wakeAll s k) := by
  unfold wakeAll
  split
  · exact le_refl i s
  · exact le_trans (le_same i s _ rfl rfl rfl) (le_grantAll i _ _)

theorem le_finish (i : Nat) (s : St) (j : Nat) : LE i s (finish s j) := by
  unfold finish
  split
  · exact le_refl i s
  · simp only
    split
    · exact le_same i s _ rfl rfl rfl
    · exact le_trans (le_same i s _ rfl rfl rfl) (le_enqueue i _ _ _)

theorem le_runProg (k : Kind) (i : Nat) :
    ∀ (p : List Instr) (c rdy : Nat) (org : Phase) (s : St), LE i s (runProg k i p c rdy org s) := by
  intro p
  induction p with
  | nil => intro c rdy org s; exact le_finish i s i
  | cons ins r ih =>
    intro c rdy org s
    have hcont : ∀ (c' : Nat) (s1 : St), LE i s s1 →
        LE i s (runProg k i r c' s.now s.phase (logAt (setProg s1 i r) i rdy org)) := fun c' s1 h0 =>
      le_trans (le_trans (le_trans h0 (le_setProg i s1 i r)) (le_logAt _ i rdy org)) (ih _ _ _ _)
    cases ins with
    | spawn t =>
      simp only [runProg]
      exact le_trans (le_trans (le_setProg i s i r) (le_spawnTask i _ t)) (ih _ _ _ _)
    | wake q =>
      simp only [runProg]
      exact le_trans (le_trans (le_setProg i s i r) (le_wakeCond i _ q)) (ih _ _ _ _)
    | notifyAll q =>
      simp only [runProg]
      exact le_trans (le_trans (le_setProg i s i r) (le_wakeAll i _ q)) (ih _ _ _ _)
    | yield =>
      simp only [runProg]
      exact le_trans (le_setProg i s i _) (le_defer i _ _ _)
    | resume =>
      simp only [runProg]
      exact hcont c s (le_refl i s)
    | wait q =>
      simp only [runProg]
      split
      · exact le_refl i s
      · split
        · exact le_defer i s k i
        · split
          · exact le_trans (le_same i s _ rfl rfl rfl) (le_setProg i _ i _)
          · exact hcont _ _ (le_same i s _ rfl rfl rfl)
    | waiting q =>
      simp only [runProg]
      generalize condCoop s q = coop
      split
      · exact le_refl i s
      · split
        · exact le_defer i s k i
        · split
          · exact hcont _ _ (le_same i s _ rfl rfl rfl)
          · exact le_refl i s
    | join t =>
      simp only [runProg]
      split
      · exact le_refl i s
      · split
        · exact le_refl i s
        · split
          · exact le_defer i s k i
          · split
            · exact hcont _ s (le_refl i s)
            · exact le_trans (le_same i s _ rfl rfl rfl) (le_setProg i _ i _)
    | joining t =>
      simp only [runProg]
      split
      · exact le_refl i s
      · split
        · exact le_defer i s k i
        · split
          · exact hcont _ s (le_refl i s)
          · exact le_refl i s
    | waitT q d =>
      simp only [runProg]
      split
      · exact le_refl i s
      · split
        · split
          · rename_i cd _ _ _
            have h0 : LE i s { s with conds := s.conds.set q { cd with waiters := cd.waiters ++ [(k, i)] } } :=
              le_same i s _ rfl rfl rfl
            exact le_trans (le_trans h0 (le_setProg i _ i (.waitingT q (s.now + d) :: r))) (le_addTimer i _ _)
          · exact hcont c s (le_refl i s)
        · exact hcont _ _ (le_same i s _ rfl rfl rfl)
    | waitingT q t =>
      simp only [runProg]
      split
      · exact le_refl i s
      · split
        · exact hcont _ _ (le_trans (le_same i s _ rfl rfl rfl) (le_removeTimer i _ _))
        · split
          · exact le_refl i s
          · exact hcont _ _ (le_removeWaiter i s q (k, i))
    | sleep d =>
      simp only [runProg]
      split
      · exact le_trans (le_setProg i s i _) (le_addTimer i _ _)
      · exact hcont c s (le_refl i s)
    | sleepUntil t =>
      simp only [runProg]
      split
      · exact le_trans (le_setProg i s i _) (le_addTimer i _ _)
      · exact hcont c s (le_refl i s)
    | sleeping t =>
      simp only [runProg]
      split
      · exact le_refl i s
      · exact hcont c s (le_refl i s)

theorem le_pollTask (P : Params) (e : Entry) (s : St) : LE e.idx s (pollTask P e s) := by
  unfold pollTask
  split
  · exact le_refl _ s
  · split
    · exact le_refl _ s
    · split
      · exact le_runProg _ _ _ _ _ _ _
      · exact le_trans (le_trans (le_markPolled _ s _) (le_logAt _ _ _ _)) (le_runProg _ _ _ _ _ _ _)

/-! ### model state and specification state -/

def pool (s : St) : List Nat := (s.rq ++ s.iq ++ s.lq ++ s.dq).map (·.idx)

def Sim (m σ : St) : Prop :=
  m.tasks = σ.tasks ∧ m.conds = σ.conds ∧ m.timers = σ.timers ∧ m.now = σ.now ∧
  m.log.map key = σ.log.map key ∧ (pool m).Perm (pool σ)

theorem sim_refl (m : St) : Sim m m := ⟨rfl, rfl, rfl, rfl, rfl, List.Perm.refl _⟩

/-- the fields `Sim` does not look at -/
theorem sim_of_eq {m m' σ σ' : St} (h : Sim m σ)
    (hm : m'.tasks = m.tasks ∧ m'.conds = m.conds ∧ m'.timers = m.timers ∧ m'.now = m.now ∧ m'.log = m.log ∧
      pool m' = pool m)
    (hs : σ'.tasks = σ.tasks ∧ σ'.conds = σ.conds ∧ σ'.timers = σ.timers ∧ σ'.now = σ.now ∧ σ'.log = σ.log ∧
      pool σ' = pool σ) : Sim m' σ' := by
  obtain ⟨h1, h2, h3, h4, h5, h6⟩ := h
  obtain ⟨a1, a2, a3, a4, a5, a6⟩ := hm
  obtain ⟨b1, b2, b3, b4, b5, b6⟩ := hs
  refine ⟨?_, ?_, ?_, ?_, ?_, ?_⟩
  · rw [a1, b1, h1]
  · rw [a2, b2, h2]
  · rw [a3, b3, h3]
  · rw [a4, b4, h4]
  · rw [a5, b5, h5]
  · rw [a6, b6]; exact h6

theorem sim_tasks {m σ : St} (h : Sim m σ) (T : List Task) : Sim { m with tasks := T } { σ with tasks := T } :=
  ⟨rfl, h.2.1, h.2.2.1, h.2.2.2.1, h.2.2.2.2.1, h.2.2.2.2.2⟩

theorem sim_conds {m σ : St} (h : Sim m σ) (C : List Cond) : Sim { m with conds := C } { σ with conds := C } :=
  ⟨h.1, rfl, h.2.2.1, h.2.2.2.1, h.2.2.2.2.1, h.2.2.2.2.2⟩

theorem pool_pushEntry (s : St) (e : Entry) : (pool (pushEntry s e)).Perm (e.idx :: pool s) := by
  unfold pushEntry pool
  cases e.kind <;> simp only <;> split <;>
    simp only [List.map_append, List.map_cons, List.map_nil, List.append_assoc] <;>
    (refine List.perm_iff_count.2 fun a => ?_) <;>
    simp only [List.count_append, List.count_cons, List.count_nil] <;> omega

theorem same_pushEntry (s : St) (e : Entry) :
    (pushEntry s e).tasks = s.tasks ∧ (pushEntry s e).conds = s.conds ∧ (pushEntry s e).timers = s.timers ∧
    (pushEntry s e).now = s.now ∧ (pushEntry s e).log = s.log := by
  unfold pushEntry
  cases e.kind <;> simp only <;> split <;> exact ⟨rfl, rfl, rfl, rfl, rfl⟩

theorem sim_pushEntry {m σ : St} (h : Sim m σ) (e e' : Entry) (he : e.idx = e'.idx) :
    Sim (pushEntry m e) (pushEntry σ e') := by
  obtain ⟨h1, h2, h3, h4, h5, h6⟩ := h
  have a := same_pushEntry m e
  have b := same_pushEntry σ e'
  refine ⟨by rw [a.1, b.1, h1], by rw [a.2.1, b.2.1, h2], by rw [a.2.2.1, b.2.2.1, h3],
    by rw [a.2.2.2.1, b.2.2.2.1, h4], by rw [a.2.2.2.2, b.2.2.2.2, h5], ?_⟩
  refine (pool_pushEntry m e).trans (List.Perm.trans ?_ (pool_pushEntry σ e').symm)
  rw [he]
  exact List.Perm.cons _ h6

theorem sim_enqueue {m σ : St} (h : Sim m σ) (k k' : Kind) (i : Nat) : Sim (enqueue m k i) (enqueue σ k' i) :=
  sim_pushEntry h _ _ rfl

theorem sim_defer {m σ : St} (h : Sim m σ) (k k' : Kind) (i : Nat) : Sim (defer m k i) (defer σ k' i) := by
  obtain ⟨h1, h2, h3, h4, h5, h6⟩ := h
  refine ⟨h1, h2, h3, h4, h5, ?_⟩
  unfold defer pool
  simp only [List.map_append, List.map_cons, List.map_nil, ← List.append_assoc]
  exact List.Perm.append_right _ (by simpa [pool, List.map_append, List.append_assoc] using h6)

theorem sim_addTimer {m σ : St} (h : Sim m σ) (tm : Timer) : Sim (addTimer m tm) (addTimer σ tm) := by
  obtain ⟨h1, h2, h3, h4, h5, h6⟩ := h
  exact ⟨h1, h2, by unfold addTimer; simp only; rw [h3], h4, h5, h6⟩

theorem sim_logAt {m σ : St} (h : Sim m σ) (i rdy rdy' : Nat) (org org' : Phase) :
    Sim (logAt m i rdy org) (logAt σ i rdy' org') := by
  obtain ⟨h1, h2, h3, h4, h5, h6⟩ := h
  refine ⟨h1, h2, h3, h4, ?_, h6⟩
  unfold logAt
  simp only [List.map_cons, key]
  rw [h4, h5]

theorem sim_setProg {m σ : St} (h : Sim m σ) (i : Nat) (p : List Instr) : Sim (setProg m i p) (setProg σ i p) := by
  have ht := h.1
  unfold setProg
  rw [← ht]
  cases m.tasks[i]? with
  | none => exact h
  | some tk => exact sim_tasks h _

theorem sim_markPolled {m σ : St} (h : Sim m σ) (i : Nat) : Sim (markPolled m i) (markPolled σ i) := by
  have ht := h.1
  unfold markPolled
  rw [← ht]
  cases m.tasks[i]? with
  | none => exact h
  | some tk => exact sim_tasks h _

theorem sim_spawnTask {m σ : St} (h : Sim m σ) (t : Nat) : Sim (spawnTask m t) (spawnTask σ t) := by
  have ht := h.1
  unfold spawnTask
  rw [← ht]
  cases m.tasks[t]? with
  | none => exact h
  | some tk =>
    simp only
    by_cases hs : tk.started = true
    · simp only [hs, if_true]; exact h
    · simp only [hs]; exact sim_enqueue (sim_tasks h _) _ _ _

theorem sim_grant {m σ : St} (h : Sim m σ) (wk : Kind) (wi : Nat) : Sim (grant m wk wi) (grant σ wk wi) := by
  have ht := h.1
  have htm := h.2.2.1
  unfold grant
  rw [← ht]
  cases m.tasks[wi]? with
  | none => exact sim_enqueue h _ _ _
  | some tk =>
    simp only
    have hf : timerFired σ tk wk wi = timerFired m tk wk wi := by unfold timerFired; rw [htm]
    rw [hf]
    cases timerFired m tk wk wi with
    | true => exact sim_tasks h _
    | false => exact sim_enqueue (sim_tasks h _) _ _ _

theorem sim_removeTimer {m σ : St} (h : Sim m σ) (tm : Timer) : Sim (removeTimer m tm) (removeTimer σ tm) := by
  obtain ⟨h1, h2, h3, h4, h5, h6⟩ := h
  exact ⟨h1, h2, by unfold removeTimer; simp only; rw [h3], h4, h5, h6⟩

theorem sim_removeWaiter {m σ : St} (h : Sim m σ) (q : Nat) (w : Kind × Nat) :
    Sim (removeWaiter m q w) (removeWaiter σ q w) := by
  have hc := h.2.1
  unfold removeWaiter
  rw [← hc]
  cases m.conds[q]? with
  | none => exact h
  | some cd => exact sim_conds h _

theorem sim_wakeCond {m σ : St} (h : Sim m σ) (k : Nat) : Sim (wakeCond m k) (wakeCond σ k) := by
  have hc := h.2.1
  unfold wakeCond
  rw [← hc]
  cases m.conds[k]? with
  | none => exact h
  | some c =>
    simp only
    cases c.waiters with
    | nil => exact sim_conds h _
    | cons a r =>
      obtain ⟨wk, wi⟩ := a
      exact sim_grant (sim_conds h _) _ _

theorem sim_grantAll : ∀ (l : List (Kind × Nat)) {m σ : St}, Sim m σ → Sim (grantAll l m) (grantAll l σ) := by
  intro l
  induction l with
  | nil => intro m σ h; exact h
  | cons a l ih =>
    intro m σ h
    obtain ⟨wk, wi⟩ := a
    simp only [grantAll]
    exact ih (sim_grant h wk wi)

theorem sim_wakeAll {m σ : St} (h : Sim m σ) (k : Nat) : Sim (wakeAll m k) (wakeAll σ k) := by
  have hc := h.2.1
  unfold wakeAll
  rw [← hc]
  cases m.conds[k]? with
  | none => exact h
  | some c => exact sim_grantAll _ (sim_conds h _)

theorem sim_finish {m σ : St} (h : Sim m σ) (i : Nat) : Sim (finish m i) (finish σ i) := by
  have ht := h.1
  unfold finish
  rw [← ht]
  cases m.tasks[i]? with
  | none => exact h
  | some tk =>
    simp only
    cases tk.joiner with
    | none => exact sim_tasks h _
    | some a =>
      obtain ⟨k, j⟩ := a
      exact sim_enqueue (sim_tasks h _) _ _ _

/-- a poll does the same to related states (whatever the stamps of the entry that caused it) -/
theorem sim_runProg (k : Kind) (i : Nat) :
    ∀ (p : List Instr) (c rdy rdy' : Nat) (org org' : Phase) {m σ : St}, Sim m σ →
      Sim (runProg k i p c rdy org m) (runProg k i p c rdy' org' σ) := by
  intro p
  induction p with
  | nil => intro c rdy rdy' org org' m σ h; exact sim_finish h i
  | cons ins r ih =>
    intro c rdy rdy' org org' m σ h
    have ht := h.1
    have hc := h.2.1
    have hn := h.2.2.2.1
    have hcont : ∀ (c' a a' : Nat) (o o' : Phase) {m1 σ1 : St}, Sim m1 σ1 →
        Sim (runProg k i r c' a o (logAt (setProg m1 i r) i rdy org))
          (runProg k i r c' a' o' (logAt (setProg σ1 i r) i rdy' org')) := fun c' a a' o o' m1 σ1 h1 =>
      ih c' _ _ _ _ (sim_logAt (sim_setProg h1 i r) i rdy rdy' org org')
    cases ins with
    | spawn t =>
      simp only [runProg]
      exact ih _ _ _ _ _ (sim_spawnTask (sim_setProg h i r) t)
    | wake q =>
      simp only [runProg]
      exact ih _ _ _ _ _ (sim_wakeCond (sim_setProg h i r) q)
    | notifyAll q =>
      simp only [runProg]
      exact ih _ _ _ _ _ (sim_wakeAll (sim_setProg h i r) q)
    | yield =>
      simp only [runProg]
      exact sim_defer (sim_setProg h i _) _ _ _
    | resume =>
      simp only [runProg]
      exact hcont c _ _ _ _ h
    | wait q =>
      simp only [runProg]
      rw [← hc]
      cases m.conds[q]? with
      | none => exact h
      | some cd =>
        simp only
        by_cases h1 : (cd.coop && c == 0) = true
        · simp only [h1, if_true]; exact sim_defer h _ _ _
        · simp only [h1]
          by_cases h2 : (cd.permits == 0) = true
          · simp only [h2, if_true]; exact sim_setProg (sim_conds h _) i _
          · simp only [h2]; exact hcont _ _ _ _ _ (sim_conds h _)
    | waiting q =>
      simp only [runProg]
      have hco : condCoop σ q = condCoop m q := by unfold condCoop; rw [hc]
      rw [hco, ← ht]
      generalize condCoop m q = coop
      cases m.tasks[i]? with
      | none => exact h
      | some tk =>
        simp only
        by_cases h1 : (coop && c == 0) = true
        · simp only [h1, if_true]; exact sim_defer h _ _ _
        · simp only [h1]
          by_cases h2 : tk.granted = true
          · simp only [h2, if_true]; exact hcont _ _ _ _ _ (sim_tasks h _)
          · simp only [h2]; exact h
    | join t =>
      simp only [runProg]
      rw [← ht]
      cases m.tasks[t]? with
      | none => exact h
      | some tj =>
        simp only
        by_cases h0 : (!tj.started) = true
        · simp only [h0, if_true]; exact h
        · simp only [h0]
          by_cases h1 : (c == 0) = true
          · simp only [h1, if_true]; exact sim_defer h _ _ _
          · simp only [h1]
            by_cases h2 : tj.done = true
            · simp only [h2, if_true]; exact hcont _ _ _ _ _ h
            · simp only [h2]; exact sim_setProg (sim_tasks h _) i _
    | joining t =>
      simp only [runProg]
      rw [← ht]
      cases m.tasks[t]? with
      | none => exact h
      | some tj =>
        simp only
        by_cases h1 : (c == 0) = true
        · simp only [h1, if_true]; exact sim_defer h _ _ _
        · simp only [h1]
          by_cases h2 : tj.done = true
          · simp only [h2, if_true]; exact hcont _ _ _ _ _ h
          · simp only [h2]; exact h
    | waitT q d =>
      simp only [runProg]
      rw [← hc]
      cases m.conds[q]? with
      | none => exact h
      | some cd =>
        simp only
        have hd : σ.now + d = m.now + d := by rw [hn]
        by_cases h2 : (cd.permits == 0) = true
        · simp only [h2, if_true]
          by_cases h1 : m.now < m.now + d
          · have h1' : σ.now < σ.now + d := by rw [← hn]; exact h1
            simp only [h1, h1', if_true]
            rw [hd]
            exact sim_addTimer (sim_setProg (sim_conds h _) i _) _
          · have h1' : ¬ σ.now < σ.now + d := by rw [← hn]; exact h1
            simp only [h1, h1', if_false]
            exact hcont c _ _ _ _ h
        · simp only [h2]; exact hcont _ _ _ _ _ (sim_conds h _)
    | waitingT q t =>
      simp only [runProg]
      rw [← ht]
      cases m.tasks[i]? with
      | none => exact h
      | some tk =>
        simp only
        by_cases h2 : tk.granted = true
        · simp only [h2, if_true]; exact hcont _ _ _ _ _ (sim_removeTimer (sim_tasks h _) _)
        · simp only [h2]
          by_cases h1 : m.now < t
          · have h1' : σ.now < t := by rw [← hn]; exact h1
            simp only [h1, h1', if_true]; exact h
          · have h1' : ¬ σ.now < t := by rw [← hn]; exact h1
            simp only [h1, h1', if_false]; exact hcont _ _ _ _ _ (sim_removeWaiter h q (k, i))
    | sleep d =>
      simp only [runProg]
      rw [hn]
      by_cases h1 : σ.now < σ.now + d
      · simp only [h1, if_true]; exact sim_addTimer (sim_setProg h i _) _
      · simp only [h1, if_false]; exact hcont c _ _ _ _ h
    | sleepUntil t =>
      simp only [runProg]
      rw [hn]
      by_cases h1 : σ.now < t
      · simp only [h1, if_true]; exact sim_addTimer (sim_setProg h i _) _
      · simp only [h1, if_false]; exact hcont c _ _ _ _ h
    | sleeping t =>
      simp only [runProg]
      rw [hn]
      by_cases h1 : σ.now < t
      · simp only [h1, if_true]; exact h
      · simp only [h1, if_false]; exact hcont c _ _ _ _ h

theorem sim_pollTask (P : Params) (e e' : Entry) (he : e.idx = e'.idx) {m σ : St} (h : Sim m σ) :
    Sim (pollTask P e m) (pollTask P e' σ) := by
  have ht := h.1
  unfold pollTask
  rw [← ht, ← he]
  cases m.tasks[e.idx]? with
  | none => exact h
  | some tk =>
    simp only
    by_cases h1 : tk.done = true
    · simp only [h1, if_true]; exact h
    · simp only [h1]
      by_cases h2 : tk.polled = true
      · simp only [h2, if_true]; exact sim_runProg _ _ _ _ _ _ _ _ h
      · simp only [h2]
        exact sim_runProg _ _ _ _ _ _ _ _ (sim_logAt (sim_markPolled h _) _ _ _ _ _)

/-! ### one poll of the model is one step of the specification -/

theorem takeIdx_some (i : Nat) : ∀ (l : List Entry) (x : Entry) (r : List Entry), takeIdx i l = some (x, r) →
    x.idx = i ∧ (l.map (·.idx)).Perm (i :: r.map (·.idx)) := by
  intro l
  induction l with
  | nil => intro x r h; simp [takeIdx] at h
  | cons a l ih =>
    intro x r h
    simp only [takeIdx] at h
    by_cases ha : a.idx = i
    · simp only [ha, if_true, Option.some.injEq, Prod.mk.injEq] at h
      obtain ⟨h1, h2⟩ := h
      subst h1 h2
      exact ⟨ha, by simp [ha]⟩
    · simp only [ha, if_false] at h
      cases ht : takeIdx i l with
      | none => simp [ht] at h
      | some y =>
        obtain ⟨y1, y2⟩ := y
        simp only [ht, Option.some.injEq, Prod.mk.injEq] at h
        obtain ⟨h1, h2⟩ := h
        subst h1 h2
        have := ih y1 y2 ht
        refine ⟨this.1, ?_⟩
        simp only [List.map_cons]
        exact (List.Perm.cons _ this.2).trans (List.Perm.swap _ _ _)

theorem takeIdx_none (i : Nat) : ∀ (l : List Entry), takeIdx i l = none → i ∉ l.map (·.idx) := by
  intro l
  induction l with
  | nil => intro _; simp
  | cons a l ih =>
    intro h
    simp only [takeIdx] at h
    by_cases ha : a.idx = i
    · simp [ha] at h
    · simp only [ha, if_false] at h
      cases ht : takeIdx i l with
      | none =>
        have := ih ht
        simp only [List.map_cons, List.mem_cons, not_or]
        exact ⟨fun h' => ha h'.symm, this⟩
      | some y => obtain ⟨y1, y2⟩ := y; simp [ht] at h

/-- the fields a poll can see are untouched by removing a pool entry -/
def SameView (s s' : St) : Prop :=
  s'.tasks = s.tasks ∧ s'.conds = s.conds ∧ s'.timers = s.timers ∧ s'.now = s.now ∧ s'.log = s.log ∧
  s'.silent = s.silent

theorem takeRunnable_some (i : Nat) (s s1 : St) (e : Entry) (h : takeRunnable i s = some (e, s1)) :
    e.idx = i ∧ (pool s).Perm (i :: pool s1) ∧ SameView s s1 := by
  unfold takeRunnable at h
  cases h1 : takeIdx i s.rq with
  | some y =>
    obtain ⟨y1, y2⟩ := y
    simp only [h1, Option.some.injEq, Prod.mk.injEq] at h
    obtain ⟨ha, hb⟩ := h
    subst ha hb
    have := takeIdx_some i _ _ _ h1
    refine ⟨this.1, ?_, rfl, rfl, rfl, rfl, rfl, rfl⟩
    unfold pool
    simp only [List.map_append, List.append_assoc]
    refine List.perm_iff_count.2 fun a => ?_
    have hc := List.perm_iff_count.1 this.2 a
    simp only [List.count_append, List.count_cons] at hc ⊢
    omega
  | none =>
    simp only [h1] at h
    cases h2 : takeIdx i s.iq with
    | some y =>
      obtain ⟨y1, y2⟩ := y
      simp only [h2, Option.some.injEq, Prod.mk.injEq] at h
      obtain ⟨ha, hb⟩ := h
      subst ha hb
      have := takeIdx_some i _ _ _ h2
      refine ⟨this.1, ?_, rfl, rfl, rfl, rfl, rfl, rfl⟩
      unfold pool
      simp only [List.map_append, List.append_assoc]
      refine List.perm_iff_count.2 fun a => ?_
      have hc := List.perm_iff_count.1 this.2 a
      simp only [List.count_append, List.count_cons] at hc ⊢
      omega
    | none =>
      simp only [h2] at h
      cases h3 : takeIdx i s.lq with
      | some y =>
        obtain ⟨y1, y2⟩ := y
        simp only [h3, Option.some.injEq, Prod.mk.injEq] at h
        obtain ⟨ha, hb⟩ := h
        subst ha hb
        have := takeIdx_some i _ _ _ h3
        refine ⟨this.1, ?_, rfl, rfl, rfl, rfl, rfl, rfl⟩
        unfold pool
        simp only [List.map_append, List.append_assoc]
        refine List.perm_iff_count.2 fun a => ?_
        have hc := List.perm_iff_count.1 this.2 a
        simp only [List.count_append, List.count_cons] at hc ⊢
        omega
      | none =>
        simp only [h3] at h
        cases h4 : takeIdx i s.dq with
        | some y =>
          obtain ⟨y1, y2⟩ := y
          simp only [h4, Option.some.injEq, Prod.mk.injEq] at h
          obtain ⟨ha, hb⟩ := h
          subst ha hb
          have := takeIdx_some i _ _ _ h4
          refine ⟨this.1, ?_, rfl, rfl, rfl, rfl, rfl, rfl⟩
          unfold pool
          simp only [List.map_append, List.append_assoc]
          refine List.perm_iff_count.2 fun a => ?_
          have hc := List.perm_iff_count.1 this.2 a
          simp only [List.count_append, List.count_cons] at hc ⊢
          omega
        | none => simp [h4] at h

theorem takeRunnable_none (i : Nat) (s : St) (h : takeRunnable i s = none) : i ∉ pool s := by
  unfold takeRunnable at h
  cases h1 : takeIdx i s.rq with
  | some y => obtain ⟨y1, y2⟩ := y; simp [h1] at h
  | none =>
    simp only [h1] at h
    cases h2 : takeIdx i s.iq with
    | some y => obtain ⟨y1, y2⟩ := y; simp [h2] at h
    | none =>
      simp only [h2] at h
      cases h3 : takeIdx i s.lq with
      | some y => obtain ⟨y1, y2⟩ := y; simp [h3] at h
      | none =>
        simp only [h3] at h
        cases h4 : takeIdx i s.dq with
        | some y => obtain ⟨y1, y2⟩ := y; simp [h4] at h
        | none =>
          unfold pool
          simp only [List.map_append, List.mem_append, not_or]
          exact ⟨⟨⟨takeIdx_none i _ h1, takeIdx_none i _ h2⟩, takeIdx_none i _ h3⟩, takeIdx_none i _ h4⟩

theorem pop_pool (P : Params) (q : Kind) (s s' : St) (e : Entry) (h : pop P q s = some (e, s')) :
    (pool s).Perm (e.idx :: pool s') ∧ s'.tasks = s.tasks ∧ s'.conds = s.conds ∧ s'.timers = s.timers ∧
    s'.now = s.now ∧ s'.log = s.log ∧ s'.silent = s.silent := by
  rcases pop_some P q s s' e h with ⟨r, h1, rfl⟩ | ⟨r, h1, rfl⟩ | ⟨r, h1, rfl⟩ <;>
    refine ⟨?_, rfl, rfl, rfl, rfl, rfl, rfl⟩ <;> unfold pool <;>
    simp only [h1, List.map_append, List.map_cons, List.append_assoc] <;>
    (refine List.perm_iff_count.2 fun a => ?_) <;>
    simp only [List.count_append, List.count_cons] <;> omega

/-- the history so far, oldest first -/
def hist (s : St) : List (Nat × Nat) := (s.log.reverse).map key

/-- from `σ` the specification consumes the records `Δ` (all of instant `t`) and arrives at `σ'` -/
def Emu (P : Params) (t : Nat) (Δ : List (Nat × Nat)) (σ σ' : St) : Prop :=
  ∀ n rest pos, Δ.length + rest.length ≤ n →
    ∃ n', rest.length ≤ n' ∧ consume P t n (Δ ++ rest) pos σ = consume P t n' rest (pos + Δ.length) σ'

theorem emu_refl (P : Params) (t : Nat) (σ : St) : Emu P t [] σ σ :=
  fun n rest pos hn => ⟨n, by simpa using hn, by simp⟩

theorem emu_trans {P : Params} {t : Nat} {Δ1 Δ2 : List (Nat × Nat)} {a b c : St}
    (h1 : Emu P t Δ1 a b) (h2 : Emu P t Δ2 b c) : Emu P t (Δ1 ++ Δ2) a c := by
  intro n rest pos hn
  obtain ⟨n1, hn1, e1⟩ := h1 n (Δ2 ++ rest) pos (by simp only [List.length_append] at hn ⊢; omega)
  obtain ⟨n2, hn2, e2⟩ := h2 n1 rest (pos + Δ1.length) (by simp only [List.length_append] at hn1; omega)
  refine ⟨n2, hn2, ?_⟩
  rw [List.append_assoc, e1, e2, List.length_append, Nat.add_assoc]

theorem isPrefix_append (a b : List (Nat × Nat)) : isPrefix a (a ++ b) = true := by
  induction a with
  | nil => cases b <;> rfl
  | cons x a ih => simp [isPrefix, ih]

theorem emu_poll (P : Params) (t x : Nat) (σ σ1 : St) (e' : Entry) (tl : List (Nat × Nat))
    (htake : takeRunnable x σ = some (e', σ1))
    (hmade : newRecs σ1 (pollTask P e' { σ1 with phase := .tick }) = (t, x) :: tl) :
    Emu P t ((t, x) :: tl) σ (pollTask P e' { σ1 with phase := .tick }) := by
  intro n rest pos hn
  obtain ⟨n0, rfl⟩ : ∃ n0, n = n0 + 1 := ⟨n - 1, by simp only [List.length_cons] at hn; omega⟩
  refine ⟨n0, by simp only [List.length_cons] at hn; omega, ?_⟩
  simp only [List.cons_append, consume, ne_eq, not_true_eq_false, if_false, htake, hmade]
  have hp : isPrefix ((t, x) :: tl) ((t, x) :: (tl ++ rest)) = true := isPrefix_append ((t, x) :: tl) rest
  simp only [List.isEmpty_cons, hp, Bool.not_true, Bool.or_self, Bool.false_eq_true, if_false,
    List.length_cons, List.drop_succ_cons, List.drop_left]

theorem hist_of_log (s s' : St) (Δ : List LogEntry) (h : s'.log = Δ ++ s.log) :
    hist s' = hist s ++ (Δ.reverse).map key := by
  unfold hist
  rw [h, List.reverse_append, List.map_append]

theorem newRecs_of_log (s s' : St) (Δ : List LogEntry) (h : s'.log = Δ ++ s.log)
    (hn : s'.nobs = s.nobs + Δ.length) : newRecs s s' = (Δ.reverse).map key := by
  unfold newRecs
  rw [h, hn, Nat.add_sub_cancel_left, List.take_left']
  rfl

/-- one (productive) poll of the model is one step of the specification -/
theorem step_emu (P : Params) (q : Kind) (m σ : St) (hs : Sim m σ) (e : Entry) (m0 : St)
    (hp : pop P q m = some (e, m0)) (hprod : (step P q m).silent = m.silent) :
    ∃ Δ σ', hist (step P q m) = hist m ++ Δ ∧ (∀ x ∈ Δ, x.1 = m.now) ∧ Sim (step P q m) σ' ∧
      Emu P m.now Δ σ σ' := by
  obtain ⟨hpp, p1, p2, p3, p4, p5, p6⟩ := pop_pool P q m m0 e hp
  obtain ⟨s1, s2, s3, s4, s5, s6⟩ := hs
  -- the specification finds the task in its pool
  have hmem : e.idx ∈ pool σ := (s6.mem_iff).1 ((hpp.mem_iff).2 List.mem_cons_self)
  cases htk : takeRunnable e.idx σ with
  | none => exact absurd hmem (takeRunnable_none _ _ htk)
  | some y =>
    obtain ⟨e', σ1⟩ := y
    obtain ⟨hidx, hperm, v1, v2, v3, v4, v5, v6⟩ := takeRunnable_some _ _ _ _ htk
    have hsim0 : Sim m0 { σ1 with phase := .tick } := by
      refine ⟨by show m0.tasks = σ1.tasks; rw [p1, v1, s1], by show m0.conds = σ1.conds; rw [p2, v2, s2],
        by show m0.timers = σ1.timers; rw [p3, v3, s3], by show m0.now = σ1.now; rw [p4, v4, s4],
        by show m0.log.map key = σ1.log.map key; rw [p5, v5, s5], ?_⟩
      show (pool m0).Perm (pool σ1)
      exact List.Perm.cons_inv ((hpp.symm.trans s6).trans hperm)
    have hsim := sim_pollTask P e e' hidx.symm hsim0
    -- both polls extend the log by the same records
    obtain ⟨n1, sl1, Δ, l1, c1, q1⟩ := le_pollTask P e m0
    obtain ⟨n2, sl2, Δ', l2, c2, q2⟩ := le_pollTask P e' { σ1 with phase := .tick }
    have hk : Δ.map key = Δ'.map key := by
      have h5 := hsim.2.2.2.2.1
      rw [l1, l2, List.map_append, List.map_append] at h5
      have hl : (m0.log.map key).length = (({ σ1 with phase := Phase.tick } : St).log.map key).length := by
        rw [hsim0.2.2.2.2.1]
      exact (List.append_inj' h5 hl).1
    -- the poll was productive
    have hne : Δ ≠ [] := by
      intro hnil
      have hlen : (pollTask P e m0).nobs = m0.nobs := by rw [c1, hnil]; rfl
      have : (step P q m).silent = (pollTask P e m0).silent + 1 := by
        unfold step noteSilent; simp only [hp, hlen, if_true]
      rw [this, sl1, p6] at hprod
      omega
    have hlog : (step P q m).log = Δ ++ m.log := by
      have : (step P q m).log = (pollTask P e m0).log := by
        unfold step; simp only [hp]
        rcases noteSilent_eq m0 (pollTask P e m0) with h | h <;> rw [h]
      rw [this, l1, p5]
    have hmade : newRecs σ1 (pollTask P e' { σ1 with phase := .tick }) = (Δ.reverse).map key := by
      rw [newRecs_of_log σ1 _ Δ' l2 c2, List.map_reverse, List.map_reverse, hk]
    -- its first record is (now, e.idx)
    have hall : ∀ x ∈ (Δ.reverse).map key, x = (m.now, e.idx) := by
      intro x hx
      simp only [List.mem_map, List.mem_reverse] at hx
      obtain ⟨y, hy, rfl⟩ := hx
      have := q1 y hy
      unfold key
      rw [this.1, this.2, p4]
    cases hΔ : (Δ.reverse).map key with
    | nil => simp at hΔ; exact absurd hΔ hne
    | cons a tl =>
      have ha : a = (m.now, e.idx) := hall a (by rw [hΔ]; exact List.mem_cons_self)
      subst ha
      refine ⟨(m.now, e.idx) :: tl, pollTask P e' { σ1 with phase := .tick }, ?_, ?_, ?_, ?_⟩
      · rw [hist_of_log m _ Δ hlog, hΔ]
      · intro x hx
        rw [← hΔ] at hx
        rw [hall x hx]
      · refine sim_of_eq hsim ?_ ⟨rfl, rfl, rfl, rfl, rfl, rfl⟩
        unfold step; simp only [hp]
        rcases noteSilent_eq m0 (pollTask P e m0) with h | h <;> rw [h] <;> exact ⟨rfl, rfl, rfl, rfl, rfl, rfl⟩
      · exact emu_poll P m.now e.idx σ σ1 e' tl htk (hmade.trans hΔ)

/-! ### lifting to queue loops, passes and `exec` -/

/-- the model goes from `m` to `m'` within one instant; the specification (at `σ`, related to `m`) can follow -/
def Ref (P : Params) (m m' σ : St) : Prop :=
  ∃ Δ σ', hist m' = hist m ++ Δ ∧ (∀ x ∈ Δ, x.1 = m.now) ∧ Sim m' σ' ∧ Emu P m.now Δ σ σ' ∧ m'.now = m.now

theorem ref_sim (P : Params) {m m' σ : St} (h : Sim m' σ) (hh : hist m' = hist m) (hn : m'.now = m.now) :
    Ref P m m' σ := ⟨[], σ, by simp [hh], fun x hx => by simp at hx, h, emu_refl P _ σ, hn⟩

theorem ref_trans {P : Params} {m m' m'' σ : St} (h1 : Ref P m m' σ)
    (h2 : ∀ σ', Sim m' σ' → Ref P m' m'' σ') : Ref P m m'' σ := by
  obtain ⟨Δ1, σ1, a1, b1, c1, d1, e1⟩ := h1
  obtain ⟨Δ2, σ2, a2, b2, c2, d2, e2⟩ := h2 σ1 c1
  refine ⟨Δ1 ++ Δ2, σ2, by rw [a2, a1, List.append_assoc], ?_, c2, ?_, e2.trans e1⟩
  · intro x hx
    rcases List.mem_append.1 hx with hx | hx
    · exact b1 x hx
    · rw [← e1]; exact b2 x hx
  · rw [e1] at d2
    exact emu_trans d1 d2

/-- changing only what neither `Sim` nor the history looks at -/
theorem sim_left {m m' σ : St} (h : Sim m σ)
    (hm : m'.tasks = m.tasks ∧ m'.conds = m.conds ∧ m'.timers = m.timers ∧ m'.now = m.now ∧ m'.log = m.log ∧
      pool m' = pool m) : Sim m' σ :=
  sim_of_eq h hm ⟨rfl, rfl, rfl, rfl, rfl, rfl⟩

theorem step_silent (P : Params) (q : Kind) (m : St) : m.silent ≤ (step P q m).silent := by
  unfold step
  cases hp : pop P q m with
  | none => exact Nat.le_refl _
  | some x =>
    obtain ⟨e, m0⟩ := x
    simp only
    have h1 := (pop_pool P q m m0 e hp).2.2.2.2.2.2
    have h2 := (le_pollTask P e m0).2.1
    rcases noteSilent_eq m0 (pollTask P e m0) with h | h <;> rw [h] <;> (try simp only) <;> omega

theorem runQ_silent (P : Params) (q : Kind) : ∀ (b : Nat) (m : St), m.silent ≤ (runQ P q b m).silent := by
  intro b
  induction b with
  | zero => intro m; exact Nat.le_refl _
  | succ b ih =>
    intro m
    cases hq : pop P q m with
    | none => rw [runQ_of_empty P q _ m hq]; exact Nat.le_refl _
    | some x =>
      rw [runQ_cons P q b m x hq]
      exact Nat.le_trans (step_silent P q m) (ih _)

theorem runQ_ref (P : Params) (q : Kind) :
    ∀ (b : Nat) (m σ : St), Sim m σ → (runQ P q b m).silent = m.silent → Ref P m (runQ P q b m) σ := by
  intro b
  induction b with
  | zero => intro m σ h _; exact ref_sim P h rfl rfl
  | succ b ih =>
    intro m σ h hs
    cases hq : pop P q m with
    | none => rw [runQ_of_empty P q _ m hq]; exact ref_sim P h rfl rfl
    | some x =>
      obtain ⟨e, m0⟩ := x
      rw [runQ_cons P q b m _ hq] at hs ⊢
      have h1 := step_silent P q m
      have h2 := runQ_silent P q b (step P q m)
      obtain ⟨Δ, σ', a, bb, c, d⟩ := step_emu P q m σ h e m0 hq (by omega)
      exact ref_trans ⟨Δ, σ', a, bb, c, d, (step_inv P q m).2.1⟩ (fun σ1 hs1 => ih _ σ1 hs1 (by omega))

theorem hist_eq_of_log {s s' : St} (h : s'.log = s.log) : hist s' = hist s := by unfold hist; rw [h]

theorem afterTick_silent (P : Params) (m : St) : m.silent ≤ (afterTick P m).silent := by
  unfold afterTick
  rw [runQn_eq]
  simp only
  have := runQ_silent P .loc P.L (tickStart m)
  split <;> exact this

theorem afterTick_ref (P : Params) (m σ : St) (h : Sim m σ) (hs : (afterTick P m).silent = m.silent) :
    Ref P m (afterTick P m) σ := by
  have h0 : Sim (tickStart m) σ := sim_left h ⟨rfl, rfl, rfl, rfl, rfl, rfl⟩
  have hsil : (runQ P .loc P.L (tickStart m)).silent = (tickStart m).silent := by
    have := runQ_silent P .loc P.L (tickStart m)
    unfold afterTick at hs
    rw [runQn_eq] at hs
    simp only at hs
    split at hs <;> exact hs
  have h1 := runQ_ref P .loc P.L (tickStart m) σ h0 hsil
  have hfin : ∀ σ', Sim (runQ P .loc P.L (tickStart m)) σ' →
      Ref P (runQ P .loc P.L (tickStart m)) (afterTick P m) σ' := by
    intro σ' hs'
    unfold afterTick
    rw [runQn_eq]
    simp only
    split
    · exact ref_sim P hs' rfl rfl
    · exact ref_sim P (sim_left hs' ⟨rfl, rfl, rfl, rfl, rfl, rfl⟩) rfl rfl
  exact ref_trans (ref_trans (ref_sim P h0 rfl rfl) (fun _ hx => by
    have := runQ_ref P .loc P.L (tickStart m) _ hx hsil; exact this)) hfin

theorem afterRt_silent (P : Params) (m : St) : m.silent ≤ (afterRt P m).silent := by
  unfold afterRt
  rw [runQn_eq]
  simp only
  have h1 := runQ_silent P .rt P.E (rtStart P m)
  have h2 : (rtStart P m).silent = (afterTick P m).silent := rfl
  have h3 := afterTick_silent P m
  split <;> (try simp only) <;> omega

theorem afterRt_ref (P : Params) (m σ : St) (h : Sim m σ) (hs : (afterRt P m).silent = m.silent) :
    Ref P m (afterRt P m) σ := by
  have h3 := afterTick_silent P m
  have h1 := runQ_silent P .rt P.E (rtStart P m)
  have h2 : (rtStart P m).silent = (afterTick P m).silent := rfl
  have hsr : (runQ P .rt P.E (rtStart P m)).silent = (afterRt P m).silent := by
    unfold afterRt
    rw [runQn_eq]
    simp only
    split <;> rfl
  refine ref_trans (afterTick_ref P m σ h (by omega)) (fun σ1 hs1 => ?_)
  have h0 : Sim (rtStart P m) σ1 := sim_left hs1 ⟨rfl, rfl, rfl, rfl, rfl, rfl⟩
  refine ref_trans (ref_sim P h0 rfl rfl) (fun σ2 hs2 => ?_)
  refine ref_trans (runQ_ref P .rt P.E (rtStart P m) σ2 hs2 (by omega)) (fun σ3 hs3 => ?_)
  unfold afterRt
  rw [runQn_eq]
  simp only
  split
  · exact ref_sim P (sim_left hs3 ⟨rfl, rfl, rfl, rfl, rfl, rfl⟩) rfl rfl
  · exact ref_sim P hs3 rfl rfl

theorem foldl_push_view (l : List Entry) (f : Entry → Entry) (hf : ∀ e, (f e).idx = e.idx) :
    ∀ s : St, (pool (l.foldl (fun s e => pushEntry s (f e)) s)).Perm (l.map (·.idx) ++ pool s) ∧
      (l.foldl (fun s e => pushEntry s (f e)) s).tasks = s.tasks ∧
      (l.foldl (fun s e => pushEntry s (f e)) s).conds = s.conds ∧
      (l.foldl (fun s e => pushEntry s (f e)) s).timers = s.timers ∧
      (l.foldl (fun s e => pushEntry s (f e)) s).now = s.now ∧
      (l.foldl (fun s e => pushEntry s (f e)) s).log = s.log ∧
      (l.foldl (fun s e => pushEntry s (f e)) s).silent = s.silent := by
  induction l with
  | nil => intro s; exact ⟨List.Perm.refl _, rfl, rfl, rfl, rfl, rfl, rfl⟩
  | cons a l ih =>
    intro s
    simp only [List.foldl_cons, List.map_cons, List.cons_append]
    obtain ⟨i1, i2, i3, i4, i5, i6, i7⟩ := ih (pushEntry s (f a))
    have sp := same_pushEntry s (f a)
    have hsl : (pushEntry s (f a)).silent = s.silent := (le_pushEntry 0 s (f a)).2.1
    refine ⟨?_, i2.trans sp.1, i3.trans sp.2.1, i4.trans sp.2.2.1, i5.trans sp.2.2.2.1, i6.trans sp.2.2.2.2,
      i7.trans hsl⟩
    refine i1.trans ?_
    have := pool_pushEntry s (f a)
    rw [hf a] at this
    exact (List.Perm.append_left _ this).trans List.perm_middle

theorem flush_view (s : St) : (pool (flush s)).Perm (pool s) ∧ (flush s).tasks = s.tasks ∧
    (flush s).conds = s.conds ∧ (flush s).timers = s.timers ∧ (flush s).now = s.now ∧ (flush s).log = s.log ∧
    (flush s).silent = s.silent := by
  unfold flush
  obtain ⟨i1, i2, i3, i4, i5, i6, i7⟩ := foldl_push_view s.dq.reverse (fun e => { e with origin := .flush })
    (fun _ => rfl) { s with dq := [], phase := .flush }
  refine ⟨i1.trans ?_, i2, i3, i4, i5, i6, i7⟩
  unfold pool
  simp only [List.map_append, List.map_reverse, List.append_nil]
  refine List.perm_iff_count.2 fun a => ?_
  simp only [List.count_append, List.count_reverse]
  omega

theorem sim_flush {m σ : St} (h : Sim m σ) : Sim (flush m) σ := by
  obtain ⟨h1, h2, h3, h4, h5, h6⟩ := h
  obtain ⟨f1, f2, f3, f4, f5, f6, _⟩ := flush_view m
  exact ⟨f2.trans h1, f3.trans h2, f4.trans h3, f5.trans h4, by rw [f6]; exact h5, f1.trans h6⟩

theorem pass_silent (P : Params) (m : St) : m.silent ≤ (pass P m).silent := by
  unfold pass
  rw [(flush_view _).2.2.2.2.2.2]
  exact afterRt_silent P m

theorem pass_ref (P : Params) (m σ : St) (h : Sim m σ) (hs : (pass P m).silent = m.silent) :
    Ref P m (pass P m) σ := by
  have hf := flush_view (afterRt P m)
  unfold pass at hs ⊢
  rw [hf.2.2.2.2.2.2] at hs
  refine ref_trans (afterRt_ref P m σ h hs) (fun σ1 hs1 => ?_)
  exact ref_sim P (sim_flush hs1) (hist_eq_of_log hf.2.2.2.2.2.1) hf.2.2.2.2.1

theorem drain_silent (P : Params) : ∀ (n : Nat) (m : St), m.silent ≤ (drain P n m).silent := by
  intro n
  induction n with
  | zero => intro m; exact Nat.le_refl _
  | succ n ih =>
    intro m
    simp only [drain]
    split
    · exact Nat.le_refl _
    · exact Nat.le_trans (pass_silent P { m with lflag := false }) (ih _)

theorem drain_ref (P : Params) :
    ∀ (n : Nat) (m σ : St), Sim m σ → (drain P n m).silent = m.silent → Ref P m (drain P n m) σ := by
  intro n
  induction n with
  | zero => intro m σ h _; exact ref_sim P h rfl rfl
  | succ n ih =>
    intro m σ h hs
    simp only [drain] at hs ⊢
    split
    · exact ref_sim P h rfl rfl
    · rename_i hidle
      rw [if_neg hidle] at hs
      have h1 := pass_silent P { m with lflag := false }
      have h2 := drain_silent P n (pass P { m with lflag := false })
      have h0 : Sim { m with lflag := false } σ := sim_left h ⟨rfl, rfl, rfl, rfl, rfl, rfl⟩
      have e0 : ({ m with lflag := false } : St).silent = m.silent := rfl
      refine ref_trans (ref_sim P h0 rfl rfl) (fun σ0 hs0 => ?_)
      refine ref_trans (pass_ref P _ σ0 hs0 (by omega)) (fun σ1 hs1 => ?_)
      exact ih _ σ1 hs1 (by omega)

/-! ### events -/

theorem sim_runH : ∀ (h : List Instr) {m σ : St}, Sim m σ → Sim (runH h m) (runH h σ) := by
  intro h
  induction h with
  | nil => intro m σ hs; exact hs
  | cons ins r ih =>
    intro m σ hs
    cases ins <;> simp only [runH]
    case spawn t => exact ih (sim_spawnTask hs t)
    case wake k => exact ih (sim_wakeCond hs k)
    case notifyAll k => exact ih (sim_wakeAll hs k)
    all_goals exact ih hs

theorem le_runH (i : Nat) : ∀ (h : List Instr) (s : St), LE i s (runH h s) := by
  intro h
  induction h with
  | nil => intro s; exact le_refl i s
  | cons ins r ih =>
    intro s
    cases ins <;> simp only [runH]
    case spawn t => exact le_trans (le_spawnTask i s t) (ih _)
    case wake k => exact le_trans (le_wakeCond i s k) (ih _)
    case notifyAll k => exact le_trans (le_wakeAll i s k) (ih _)
    all_goals exact ih s

theorem sim_fire {m σ : St} (h : Sim m σ) (tm : Timer) : Sim (fire m tm) (fire σ tm) := by
  have hg : isGranted σ tm.idx = isGranted m tm.idx := by unfold isGranted; rw [h.1]
  unfold fire
  rw [hg]
  cases isGranted m tm.idx with
  | true => exact h
  | false => exact sim_pushEntry h _ _ rfl

theorem sim_foldl_pushT (l : List Timer) : ∀ {m σ : St}, Sim m σ → Sim (l.foldl fire m) (l.foldl fire σ) := by
  induction l with
  | nil => intro m σ h; exact h
  | cons a l ih =>
    intro m σ h
    simp only [List.foldl_cons]
    exact ih (sim_fire h a)

theorem sim_activate {m σ : St} (h : Sim m σ) (t : Nat) : Sim (activate t m) (activate t σ) := by
  unfold activate
  rw [← h.2.2.1]
  refine sim_foldl_pushT _ ?_
  exact ⟨h.1, h.2.1, rfl, rfl, h.2.2.2.2.1, h.2.2.2.2.2⟩

theorem le_fire (i : Nat) (s : St) (tm : Timer) : LE i s (fire s tm) := by
  unfold fire; split
  · exact le_refl i s
  · exact le_pushEntry i s _

theorem le_foldl_pushT (i : Nat) (l : List Timer) : ∀ s : St, LE i s (l.foldl fire s) := by
  induction l with
  | nil => intro s; exact le_refl i s
  | cons a l ih =>
    intro s
    simp only [List.foldl_cons]
    exact le_trans (le_fire i s a) (ih _)

/-- `activate` keeps log and ghost counter, sets the clock -/
theorem activate_view (t : Nat) (s : St) :
    (activate t s).log = s.log ∧ (activate t s).silent = s.silent ∧ (activate t s).now = t := by
  unfold activate
  obtain ⟨h1, h2, _⟩ := le_foldl_pushT 0 (s.timers.filter (·.deadline ≤ t))
    { s with now := t, phase := .outside, timers := s.timers.filter (t < ·.deadline) }
  have : ∀ (l : List Timer) (u : St), (l.foldl fire u).log = u.log := by
    intro l
    induction l with
    | nil => intro u; rfl
    | cons a l ih =>
      intro u
      simp only [List.foldl_cons]
      rw [ih]
      unfold fire; split
      · rfl
      · exact (same_pushEntry u _).2.2.2.2
  exact ⟨this _ _, h2, h1⟩

theorem consume_stop (P : Params) (t n : Nat) (rest : List (Nat × Nat)) (pos : Nat) (s : St)
    (h : ∀ x ∈ rest.head?, x.1 ≠ t) : consume P t n rest pos s = (s, rest, pos, none) := by
  cases n with
  | zero => rfl
  | succ n =>
    cases rest with
    | nil => rfl
    | cons a r =>
      obtain ⟨rt, x⟩ := a
      have : rt ≠ t := h (rt, x) (by simp)
      simp [consume, this]

theorem queues_of_pool_nil (s : St) (h : pool s = []) : s.rq = [] ∧ s.iq = [] ∧ s.lq = [] ∧ s.dq = [] := by
  unfold pool at h
  simp only [List.map_eq_nil_iff, List.append_eq_nil_iff] at h
  exact ⟨h.1.1.1, h.1.1.2, h.1.2, h.2⟩

theorem settle_empty (P : Params) (t n : Nat) (s : St) (h : pool s = []) : settle P t n s = (s, none) := by
  obtain ⟨h1, h2, h3, h4⟩ := queues_of_pool_nil s h
  have hf : firstRunnable s = none := by unfold firstRunnable; simp [h1, h2, h3, h4]
  cases n <;> simp [settle, hf]

theorem pool_of_quiet (s : St) (h : Quiet s) : pool s = [] := by
  obtain ⟨h1, h2, h3, h4⟩ := h
  unfold pool; simp [h1, h2, h3, h4]

/-- from the post-handler states on: the model drains, the specification consumes its records and finds nothing
left runnable -/
theorem own_core (P : Params) (t : Nat) (m mH σH : St) (hs : Sim mH σH)
    (hlog : mH.log = m.log) (hsl : mH.silent = m.silent) (hnow : mH.now = t)
    (hq : Quiet (drain P (2 * potential (pass P mH) + 1) (pass P mH)))
    (hsil : (drain P (2 * potential (pass P mH) + 1) (pass P mH)).silent = m.silent)
    (rest : List (Nat × Nat)) (pos : Nat) (hrest : ∀ x ∈ rest.head?, x.1 ≠ t) :
    ∃ Δ σ', hist (drain P (2 * potential (pass P mH) + 1) (pass P mH)) = hist m ++ Δ ∧
      Sim (drain P (2 * potential (pass P mH) + 1) (pass P mH)) σ' ∧
      sFinish P t (Δ ++ rest) pos σH = (σ', rest, pos + Δ.length, none) := by
  have hp1 := pass_silent P mH
  have hp2 := drain_silent P (2 * potential (pass P mH) + 1) (pass P mH)
  have hr : Ref P mH (drain P (2 * potential (pass P mH) + 1) (pass P mH)) σH :=
    ref_trans (pass_ref P mH σH hs (by omega)) (fun σ1 hs1 => drain_ref P _ _ σ1 hs1 (by omega))
  obtain ⟨Δ, σE, a, b, c, d, e⟩ := hr
  refine ⟨Δ, σE, by rw [a, hist_eq_of_log hlog], c, ?_⟩
  rw [hnow] at d
  obtain ⟨n', _, hcons⟩ := d (Δ ++ rest).length rest pos (by simp)
  unfold sFinish
  rw [hcons, consume_stop P t n' rest _ σE hrest]
  simp only
  have hpool : pool σE = [] := by
    have := c.2.2.2.2.2
    rw [pool_of_quiet _ hq] at this
    exact List.Perm.eq_nil (this.symm)
  rw [settle_empty P t _ σE hpool]

theorem runH_view (h : List Instr) (s : St) :
    (runH h s).log = s.log ∧ (runH h s).silent = s.silent ∧ (runH h s).now = s.now := by
  obtain ⟨a1, a2, _⟩ := le_runH 0 h s
  exact ⟨(kf_runH h s).2.2.1, a2, a1⟩

/-- an own event of the model is accepted by the specification -/
theorem handle_own_ref (P : Params) (hL : 1 ≤ P.L) (hE : 1 ≤ P.E) (hC : 1 ≤ P.C) (ev : Ev) (m σ : St)
    (hf : ev.foreign = false) (hs : Sim m σ) (hsil : (handle P false ev m).silent = m.silent)
    (rest : List (Nat × Nat)) (pos : Nat) (hrest : ∀ x ∈ rest.head?, x.1 ≠ ev.time) :
    ∃ Δ σ', hist (handle P false ev m) = hist m ++ Δ ∧ Sim (handle P false ev m) σ' ∧
      sHandle P ev (Δ ++ rest) pos σ = (σ', rest, pos + Δ.length, none) := by
  have hact := sim_activate hs ev.time
  have hav := activate_view ev.time m
  by_cases hc : ev.consumed = true
  · -- the element's wakes happen outside the executor, then `exec` with an empty callback
    have hh : handle P false ev m =
        drain P (2 * potential (pass P (afterHandler [] { runH ev.prog (activate ev.time m) with lflag := false })) + 1)
          (pass P (afterHandler [] { runH ev.prog (activate ev.time m) with lflag := false })) := by
      unfold handle; simp only [hf, hc, Bool.false_eq_true, if_false, if_true, exec, turn1]
    have hsh : sHandle P ev = fun recs pos σ => sFinish P ev.time recs pos (runH ev.prog (activate ev.time σ)) := by
      funext recs pos σ; unfold sHandle; simp only [hf, hc, Bool.false_eq_true, if_false, if_true]
    have hrv := runH_view ev.prog (activate ev.time m)
    have hq : Quiet (handle P false ev m) := by
      unfold handle; simp only [hf, hc, Bool.false_eq_true, if_false, if_true]; exact exec_quiet P hL hE hC _ _
    rw [hh] at hsil hq ⊢
    rw [hsh]
    refine own_core P ev.time m _ _ ?_ ?_ ?_ ?_ hq hsil rest pos hrest
    · unfold afterHandler; simp only [runH]
      exact sim_left (sim_runH ev.prog hact) ⟨rfl, rfl, rfl, rfl, rfl, rfl⟩
    · unfold afterHandler; simp only [runH]; exact hrv.1.trans hav.1
    · unfold afterHandler; simp only [runH]; exact hrv.2.1.trans hav.2.1
    · unfold afterHandler; simp only [runH]; exact hrv.2.2.trans hav.2.2
  · have hh : handle P false ev m =
        drain P (2 * potential (pass P (afterHandler ev.prog { activate ev.time m with lflag := false })) + 1)
          (pass P (afterHandler ev.prog { activate ev.time m with lflag := false })) := by
      unfold handle; simp only [hf, hc, Bool.false_eq_true, if_false, exec, turn1]
    have hsh : sHandle P ev = fun recs pos σ =>
        sFinish P ev.time recs pos (runH ev.prog { activate ev.time σ with phase := .handler }) := by
      funext recs pos σ; unfold sHandle; simp only [hf, hc, Bool.false_eq_true, if_false]
    have hrv := runH_view ev.prog { { activate ev.time m with lflag := false } with phase := .handler }
    have hq : Quiet (handle P false ev m) := by
      unfold handle; simp only [hf, hc, Bool.false_eq_true, if_false]; exact exec_quiet P hL hE hC _ _
    rw [hh] at hsil hq ⊢
    rw [hsh]
    refine own_core P ev.time m _ _ ?_ ?_ ?_ ?_ hq hsil rest pos hrest
    · unfold afterHandler
      exact sim_runH ev.prog (sim_of_eq hact ⟨rfl, rfl, rfl, rfl, rfl, rfl⟩ ⟨rfl, rfl, rfl, rfl, rfl, rfl⟩)
    · unfold afterHandler; exact hrv.1.trans hav.1
    · unfold afterHandler; exact hrv.2.1.trans hav.2.1
    · unfold afterHandler; exact hrv.2.2.trans hav.2.2

/-! ### the history only grows -/

def Grows (s s' : St) : Prop := ∃ Δ, hist s' = hist s ++ Δ

theorem grows_refl (s : St) : Grows s s := ⟨[], by simp⟩

theorem grows_trans {a b c : St} (h1 : Grows a b) (h2 : Grows b c) : Grows a c := by
  obtain ⟨Δ1, e1⟩ := h1
  obtain ⟨Δ2, e2⟩ := h2
  exact ⟨Δ1 ++ Δ2, by rw [e2, e1, List.append_assoc]⟩

theorem grows_of_log {s s' : St} (h : s'.log = s.log) : Grows s s' := ⟨[], by simp [hist_eq_of_log h]⟩

theorem grows_of_le {i : Nat} {s s' : St} (h : LE i s s') : Grows s s' := by
  obtain ⟨_, _, Δ, hl, _⟩ := h
  exact ⟨_, hist_of_log s s' Δ hl⟩

theorem step_grows (P : Params) (q : Kind) (m : St) : Grows m (step P q m) := by
  unfold step
  cases hp : pop P q m with
  | none => exact grows_refl m
  | some x =>
    obtain ⟨e, m0⟩ := x
    simp only
    have h0 : Grows m m0 := grows_of_log (pop_pool P q m m0 e hp).2.2.2.2.2.1
    have h1 : Grows m0 (pollTask P e m0) := grows_of_le (le_pollTask P e m0)
    refine grows_trans (grows_trans h0 h1) (grows_of_log ?_)
    rcases noteSilent_eq m0 (pollTask P e m0) with h | h <;> rw [h]

theorem runQ_grows (P : Params) (q : Kind) : ∀ (b : Nat) (m : St), Grows m (runQ P q b m) := by
  intro b
  induction b with
  | zero => intro m; exact grows_refl m
  | succ b ih =>
    intro m
    cases hq : pop P q m with
    | none => rw [runQ_of_empty P q _ m hq]; exact grows_refl m
    | some x => rw [runQ_cons P q b m x hq]; exact grows_trans (step_grows P q m) (ih _)

theorem pass_grows (P : Params) (m : St) : Grows m (pass P m) := by
  have h1 : Grows m (afterTick P m) := by
    unfold afterTick; rw [runQn_eq]; simp only
    have := grows_trans (grows_of_log (s := m) (s' := tickStart m) rfl) (runQ_grows P .loc P.L (tickStart m))
    split
    · exact this
    · exact grows_trans this (grows_of_log rfl)
  have h2 : Grows (afterTick P m) (afterRt P m) := by
    unfold afterRt; rw [runQn_eq]; simp only
    have := grows_trans (grows_of_log (s := afterTick P m) (s' := rtStart P m) rfl)
      (runQ_grows P .rt P.E (rtStart P m))
    split
    · exact grows_trans this (grows_of_log rfl)
    · exact this
  unfold pass
  exact grows_trans (grows_trans h1 h2) (grows_of_log (flush_view _).2.2.2.2.2.1)

theorem drain_grows (P : Params) : ∀ (n : Nat) (m : St), Grows m (drain P n m) := by
  intro n
  induction n with
  | zero => intro m; exact grows_refl m
  | succ n ih =>
    intro m
    simp only [drain]
    split
    · exact grows_refl m
    · exact grows_trans (grows_trans (grows_of_log (s := m) (s' := { m with lflag := false }) rfl)
        (pass_grows P _)) (ih _)

theorem exec_grows (P : Params) (h : List Instr) (m : St) : Grows m (exec P h m) := by
  unfold exec turn1 afterHandler
  simp only
  refine grows_trans (grows_trans ?_ (pass_grows P _)) (drain_grows P _ _)
  exact grows_of_log (runH_view h _).1

theorem handle_grows (P : Params) (ev : Ev) (m : St) : Grows m (handle P false ev m) := by
  unfold handle
  by_cases hf : ev.foreign = true
  · simp only [hf, if_true]
    exact grows_of_log (runH_view ev.prog _).1
  · simp only [hf, Bool.false_eq_true, if_false]
    have ha : Grows m (activate ev.time m) := grows_of_log (activate_view ev.time m).1
    by_cases hc : ev.consumed = true
    · simp only [hc, if_true]
      exact grows_trans (grows_trans ha (grows_of_log (runH_view ev.prog _).1)) (exec_grows P _ _)
    · simp only [hc]
      exact grows_trans ha (exec_grows P _ _)

theorem runSim_grows (P : Params) :
    ∀ (n : Nat) (evs : List Ev) (wk : List Nat) (nw : Option Nat) (m : St),
      Grows m (runSim P false n evs wk nw m) := by
  intro n
  induction n with
  | zero => intro evs wk nw m; exact grows_refl m
  | succ n ih =>
    intro evs wk nw m
    simp only [runSim]
    cases nextEvent evs wk with
    | none => exact grows_refl m
    | some x =>
      obtain ⟨ev, evs', wk'⟩ := x
      simp only
      split
      · exact grows_trans (handle_grows P ev m) (ih _ _ _ _)
      · exact grows_trans (handle_grows P ev m) (ih _ _ _ _)

/-! ### the whole run -/

/-- what the refinement theorem asks of a run of the model:
* every poll makes an observation (the ghost counter `silent` stays put) - the one kind of poll that does not is
  that of a task which the cooperative budget deferred at an await that cannot complete; the specification, which
  sees only observations, cannot place it;
* the observations made after an own event are not stamped with that event's instant (own events producing
  observations happen at strictly increasing instants) -/
def GoodRun (P : Params) : Nat → List Ev → List Nat → Option Nat → St → Prop
  | 0, _, _, _, _ => True
  | n + 1, evs, wk, nw, m =>
    match nextEvent evs wk with
    | none => True
    | some (ev, evs', wk') =>
      (handle P false ev m).silent = m.silent ∧
      (if ev.foreign then GoodRun P n evs' wk' nw (handle P false ev m)
       else
         (∀ x ∈ (hist (runSim P false n evs' (wk' ++ (deactivate (handle P false ev m) (resetWakeup ev.time nw)).2.toList)
              (deactivate (handle P false ev m) (resetWakeup ev.time nw)).1 (handle P false ev m))).drop
              (hist (handle P false ev m)).length, x.1 ≠ ev.time) ∧
         GoodRun P n evs' (wk' ++ (deactivate (handle P false ev m) (resetWakeup ev.time nw)).2.toList)
           (deactivate (handle P false ev m) (resetWakeup ev.time nw)).1 (handle P false ev m))

instance goodRunDecidable (P : Params) : ∀ (n : Nat) (evs : List Ev) (wk : List Nat) (nw : Option Nat) (m : St),
    Decidable (GoodRun P n evs wk nw m)
  | 0, _, _, _, _ => isTrue trivial
  | n + 1, evs, wk, nw, m => by
    unfold GoodRun
    cases nextEvent evs wk with
    | none => exact isTrue trivial
    | some x =>
      obtain ⟨ev, evs', wk'⟩ := x
      simp only
      have := goodRunDecidable P n
      cases ev.foreign <;> simp only [Bool.false_eq_true, if_false, if_true] <;> infer_instance

theorem deactivate_sim {m σ : St} (h : Sim m σ) (nw : Option Nat) : deactivate m nw = deactivate σ nw := by
  unfold deactivate; rw [h.2.2.1]

/-- every history of the model is accepted by the specification -/
theorem accept_model (P : Params) (hL : 1 ≤ P.L) (hE : 1 ≤ P.E) (hC : 1 ≤ P.C) :
    ∀ (n : Nat) (evs : List Ev) (wk : List Nat) (nw : Option Nat) (m σ : St) (pos : Nat) (fut : List (Nat × Nat)),
      Sim m σ → GoodRun P n evs wk nw m → hist (runSim P false n evs wk nw m) = hist m ++ fut →
      accept P n evs wk nw fut pos σ = .ok := by
  intro n
  induction n with
  | zero => intro evs wk nw m σ pos fut _ _ _; rfl
  | succ n ih =>
    intro evs wk nw m σ pos fut hs hg hh
    simp only [runSim] at hh
    simp only [GoodRun] at hg
    simp only [accept]
    cases hne : nextEvent evs wk with
    | none =>
      simp only [hne] at hh
      have : fut = [] := by
        have := congrArg List.length hh
        simp at this
        exact this
      simp [this]
    | some x =>
      obtain ⟨ev, evs', wk'⟩ := x
      simp only [hne] at hh hg ⊢
      obtain ⟨hsil, hg2⟩ := hg
      by_cases hf : ev.foreign = true
      · -- another module's event: the same wakes on both sides, no record
        simp only [hf, if_true] at hh hg2 ⊢
        have hsh : sHandle P ev fut pos σ =
            ({ runH ev.prog { σ with now := ev.time, phase := .foreign } with now := σ.now }, fut, pos, none) := by
          unfold sHandle; simp only [hf, if_true]
        rw [hsh]
        simp only
        have hm : handle P false ev m = { runH ev.prog { m with now := ev.time, phase := .foreign } with now := m.now } := by
          unfold handle; simp only [hf, if_true]
        have hsim' : Sim (handle P false ev m)
            { runH ev.prog { σ with now := ev.time, phase := .foreign } with now := σ.now } := by
          rw [hm]
          have h0 : Sim { m with now := ev.time, phase := .foreign } { σ with now := ev.time, phase := .foreign } :=
            ⟨hs.1, hs.2.1, hs.2.2.1, rfl, hs.2.2.2.2.1, hs.2.2.2.2.2⟩
          have h1 := sim_runH ev.prog h0
          exact ⟨h1.1, h1.2.1, h1.2.2.1, hs.2.2.2.1, h1.2.2.2.2.1, h1.2.2.2.2.2⟩
        have hhist : hist (handle P false ev m) = hist m := by
          rw [hm]; exact hist_eq_of_log (runH_view ev.prog _).1
        exact ih evs' wk' nw _ _ pos fut hsim' hg2 (by rw [hhist]; exact hh)
      · have hf' : ev.foreign = false := by simpa using hf
        simp only [hf', Bool.false_eq_true, if_false] at hh hg2 ⊢
        obtain ⟨hsep, hg3⟩ := hg2
        -- split the future into this event's records and the rest
        obtain ⟨Δ0, hΔ0⟩ := handle_grows P ev m
        obtain ⟨fut', hfut'⟩ := runSim_grows P n evs'
          (wk' ++ (deactivate (handle P false ev m) (resetWakeup ev.time nw)).2.toList)
          (deactivate (handle P false ev m) (resetWakeup ev.time nw)).1 (handle P false ev m)
        have hsep' : ∀ x ∈ fut'.head?, x.1 ≠ ev.time := by
          intro x hx
          rw [hfut', List.drop_left] at hsep
          exact hsep x (List.mem_of_mem_head? hx)
        obtain ⟨Δ, σ', a, b, c⟩ := handle_own_ref P hL hE hC ev m σ hf' hs hsil fut' pos hsep'
        have hfut : fut = Δ ++ fut' := by
          rw [hfut', a, List.append_assoc] at hh
          exact (List.append_cancel_left hh).symm
        rw [hfut, c]
        simp only
        rw [← deactivate_sim b]
        exact ih _ _ _ _ σ' _ fut' b hg3 hfut'

end Exec

/-
The typed slot machine (`RawProp::typed`, `Prop::{get, or_default, set}`) and bookkeeping for the
builder's include order.
-/
import Desverif.Proofs.CfgMain
namespace Cfg

/-- the type of the value a slot currently holds -/
def Slot.held : Slot → Option Ty
  | .some tv => Option.some tv.ty
  | _ => Option.none

/-- `Prop::<T>::set(value: T)`: the written value has the handle's type -/
def TOp.wellTyped (t : Ty) : TOp → Prop
  | .write v => v.ty = t
  | _ => True

/-- a sequence of typed accesses to one slot; the answers in order -/
def runSlot (cv : Ty → Val → Option TV) : Slot → List (Ty × TOp) → Slot × List TAns
  | s, [] => (s, [])
  | s, (t, op) :: r =>
    let (s1, a) := slotOp cv t op s
    let (s2, as) := runSlot cv s1 r
    (s2, a :: as)

theorem Ty.default_ty (t : Ty) : t.default.ty = t := by cases t <;> rfl

/-- one access to a slot holding a value of type `tv.ty` -/
theorem slotOp_some (cv : Ty → Val → Option TV) (t : Ty) (op : TOp) (tv : TV) (hw : op.wellTyped t) :
    (t ≠ tv.ty → slotOp cv t op (.some tv) = (.some tv, .invalid)) ∧
    (t = tv.ty → ∃ tv', (slotOp cv t op (.some tv)).1 = .some tv' ∧ tv'.ty = tv.ty ∧
      (slotOp cv t op (.some tv)).2 ≠ .invalid ∧
      (∀ x, (slotOp cv t op (.some tv)).2 = .val x → x = tv)) := by
  constructor
  · intro h
    have : ¬ tv.ty = t := fun h' => h h'.symm
    simp [slotOp, typedSlot, this]
  · intro h
    subst h
    cases op with
    | read => exact ⟨tv, by simp [slotOp, typedSlot], rfl, by simp [slotOp, typedSlot], by
        intro x hx; simp [slotOp, typedSlot] at hx; exact hx.symm⟩
    | readd => exact ⟨tv, by simp [slotOp, typedSlot], rfl, by simp [slotOp, typedSlot], by
        intro x hx; simp [slotOp, typedSlot] at hx; exact hx.symm⟩
    | write v => exact ⟨v, by simp [slotOp, typedSlot], hw, by simp [slotOp, typedSlot], by
        intro x hx; simp [slotOp, typedSlot] at hx⟩

/-- a successful access fixes the type -/
theorem slotOp_fixes (cv : Ty → Val → Option TV) (hcv : ∀ t v tv, cv t v = some tv → tv.ty = t)
    (t : Ty) (op : TOp) (s : Slot) (hw : op.wellTyped t) :
    ((slotOp cv t op s).2 = .ok ∨ ∃ x, (slotOp cv t op s).2 = .val x) →
      (slotOp cv t op s).1.held = some t := by
  cases s with
  | none =>
    cases op with
    | read => simp [slotOp, typedSlot]
    | readd => simp [slotOp, typedSlot, Slot.held, Ty.default_ty]
    | write v => intro _; simp only [slotOp, typedSlot, Slot.held]; exact congrArg _ hw
  | yaml v =>
    cases hc : cv t v with
    | none => simp [slotOp, typedSlot, hc]
    | some tv =>
      have := hcv t v tv hc
      cases op with
      | read => simp [slotOp, typedSlot, hc, Slot.held, this]
      | readd => simp [slotOp, typedSlot, hc, Slot.held, this]
      | write w => intro _; simp only [slotOp, typedSlot, hc, Slot.held]; exact congrArg _ hw
  | some tv =>
    by_cases h : t = tv.ty
    · obtain ⟨tv', h1, h2, _, _⟩ := (slotOp_some cv t op tv hw).2 h
      intro _; rw [h1]; simp [Slot.held, h2, h]
    · rw [(slotOp_some cv t op tv hw).1 h]; simp

theorem runSlot_some (cv : Ty → Val → Option TV) (ops : List (Ty × TOp)) :
    ∀ (tv : TV), (∀ o ∈ ops, o.2.wellTyped o.1) →
      (runSlot cv (.some tv) ops).1.held = some tv.ty ∧
      (runSlot cv (.some tv) ops).2.length = ops.length ∧
      ∀ x ∈ ops.zip (runSlot cv (.some tv) ops).2,
        (x.1.1 ≠ tv.ty → x.2 = .invalid) ∧
        (x.1.1 = tv.ty → x.2 ≠ .invalid ∧ ∀ y, x.2 = .val y → y.ty = tv.ty) := by
  induction ops with
  | nil => intro tv _; simp [runSlot, Slot.held]
  | cons o r ih =>
    intro tv hw
    obtain ⟨t, op⟩ := o
    have hw0 : op.wellTyped t := hw (t, op) (List.mem_cons_self ..)
    have hwr : ∀ o ∈ r, o.2.wellTyped o.1 := fun o ho => hw o (List.mem_cons_of_mem _ ho)
    have hs := slotOp_some cv t op tv hw0
    by_cases h : t = tv.ty
    · obtain ⟨tv', h1, h2, h3, h4⟩ := hs.2 h
      have hso : slotOp cv t op (.some tv) = (.some tv', (slotOp cv t op (.some tv)).2) := by
        rw [← h1]
      obtain ⟨i1, i2, i3⟩ := ih tv' hwr
      simp only [runSlot]
      rw [hso]
      simp only [List.length_cons, List.zip_cons_cons, List.mem_cons]
      refine ⟨by rw [i1, h2], by rw [i2], ?_⟩
      rintro x (hx | hx)
      · subst hx
        exact ⟨fun hne => absurd h hne, fun _ => ⟨h3, fun y hy => by rw [h4 y hy]⟩⟩
      · have := i3 x hx
        rw [h2] at this
        exact this
    · have hso := hs.1 h
      obtain ⟨i1, i2, i3⟩ := ih tv hwr
      simp only [runSlot]
      rw [hso]
      simp only [List.length_cons, List.zip_cons_cons, List.mem_cons]
      refine ⟨i1, by rw [i2], ?_⟩
      rintro x (hx | hx)
      · subst hx
        exact ⟨fun _ => rfl, fun he => absurd he h⟩
      · exact i3 x hx

/-! ### the included configurations of a run -/

def incls : List SOp → List Flat
  | [] => []
  | .incl c :: r => c :: incls r
  | .node _ :: r => incls r

theorem Sim.node_cfgs (s : Sim) (p : List Seg) : (s.node p).1.cfgs = s.cfgs := by
  unfold Sim.node
  split
  · rfl
  · split
    · rfl
    · split <;> rfl

theorem Sim.run_cfgs : ∀ (ops : List SOp) (s s' : Sim), s.run ops = .ok s' →
    ∃ vs, s'.cfgs = s.cfgs ++ vs ∧
      (incls ops).map (fun c => compartmentalize c.toVal) = vs.map Except.ok := by
  intro ops
  induction ops with
  | nil =>
    intro s s' h
    simp only [Sim.run, foldE, Except.ok.injEq] at h
    subst h
    exact ⟨[], by simp, by simp [incls]⟩
  | cons op r ih =>
    intro s s' h
    simp only [Sim.run, foldE] at h
    cases ho : s.stepOp op with
    | error e => rw [ho] at h; simp at h
    | ok s1 =>
      rw [ho] at h
      obtain ⟨vs, h1, h2⟩ := ih s1 s' h
      cases op with
      | incl c =>
        simp only [Sim.stepOp, Sim.includeCfg] at ho
        cases hc : compartmentalize c.toVal with
        | error e => rw [hc] at ho; simp at ho
        | ok v =>
          rw [hc] at ho
          simp only [] at ho
          cases hm : mapModsE (fun p ps => updateFrom ps v p) s.mods with
          | error e => rw [hm] at ho; simp at ho
          | ok mods =>
            rw [hm] at ho
            simp only [Except.ok.injEq] at ho
            subst ho
            refine ⟨v :: vs, by simp [h1], ?_⟩
            simp [incls, hc, h2]
      | node p =>
        simp only [Sim.stepOp, Except.ok.injEq] at ho
        subst ho
        exact ⟨vs, by rw [h1, Sim.node_cfgs], by simpa [incls] using h2⟩

theorem map_ok_inj {ε α : Type} : ∀ {l1 l2 : List α},
    l1.map (Except.ok (ε := ε)) = l2.map Except.ok → l1 = l2
  | [], [], _ => rfl
  | [], _ :: _, h => by simp at h
  | _ :: _, [], h => by simp at h
  | a :: r1, b :: r2, h => by
    simp only [List.map_cons, List.cons.injEq, Except.ok.injEq] at h
    rw [h.1, map_ok_inj h.2]

end Cfg

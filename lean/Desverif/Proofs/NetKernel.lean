/-
Kernel-level facts about `Model/Net.lean`: what `schedule`, `consumeShutdown` and `moduleEvent`
do to the fields of the state, and the invariant that holds between events
(`Quiet`: buffer empty, no current module, no pending shutdown request).
-/
import Desverif.Model.Net
namespace Net

/-! ## `schedule` touches the event set only -/

@[simp] theorem schedule_mods (s : State) (ev : KEvent) (t : Nat) : (s.schedule ev t).mods = s.mods := by
  unfold State.schedule; split <;> rfl
@[simp] theorem schedule_trace (s : State) (ev : KEvent) (t : Nat) : (s.schedule ev t).trace = s.trace := by
  unfold State.schedule; split <;> rfl
@[simp] theorem schedule_errors (s : State) (ev : KEvent) (t : Nat) : (s.schedule ev t).errors = s.errors := by
  unfold State.schedule; split <;> rfl
@[simp] theorem schedule_cur (s : State) (ev : KEvent) (t : Nat) : (s.schedule ev t).cur = s.cur := by
  unfold State.schedule; split <;> rfl
@[simp] theorem schedule_buf (s : State) (ev : KEvent) (t : Nat) : (s.schedule ev t).buf = s.buf := by
  unfold State.schedule; split <;> rfl
@[simp] theorem schedule_links (s : State) (ev : KEvent) (t : Nat) : (s.schedule ev t).links = s.links := by
  unfold State.schedule; split <;> rfl
@[simp] theorem schedule_chans (s : State) (ev : KEvent) (t : Nat) : (s.schedule ev t).chans = s.chans := by
  unfold State.schedule; split <;> rfl
@[simp] theorem schedule_cur_time (s : State) (ev : KEvent) (t : Nat) : (s.schedule ev t).fes.cur = s.fes.cur := by
  unfold State.schedule FES.add
  split
  · rename_i f i h
    split at h
    · cases h
    · split at h <;> (cases h; rfl)
  · rfl

theorem scheduleAll_fields (l : List (KEvent × Nat)) : ∀ (s : State),
    (s.scheduleAll l).mods = s.mods ∧ (s.scheduleAll l).trace = s.trace ∧ (s.scheduleAll l).errors = s.errors ∧
    (s.scheduleAll l).cur = s.cur ∧ (s.scheduleAll l).buf = s.buf ∧ (s.scheduleAll l).links = s.links ∧
    (s.scheduleAll l).chans = s.chans ∧ (s.scheduleAll l).fes.cur = s.fes.cur := by
  induction l with
  | nil => intro s; simp [State.scheduleAll]
  | cons p l ih =>
    intro s
    have h := ih (s.schedule p.1 p.2)
    simp only [State.scheduleAll, List.foldl_cons] at h ⊢
    simpa using h

@[simp] theorem scheduleAll_mods (s : State) (l) : (s.scheduleAll l).mods = s.mods := (scheduleAll_fields l s).1
@[simp] theorem scheduleAll_trace (s : State) (l) : (s.scheduleAll l).trace = s.trace := (scheduleAll_fields l s).2.1
@[simp] theorem scheduleAll_errors (s : State) (l) : (s.scheduleAll l).errors = s.errors := (scheduleAll_fields l s).2.2.1
@[simp] theorem scheduleAll_cur (s : State) (l) : (s.scheduleAll l).cur = s.cur := (scheduleAll_fields l s).2.2.2.1
@[simp] theorem scheduleAll_buf (s : State) (l) : (s.scheduleAll l).buf = s.buf := (scheduleAll_fields l s).2.2.2.2.1
@[simp] theorem scheduleAll_links (s : State) (l) : (s.scheduleAll l).links = s.links := (scheduleAll_fields l s).2.2.2.2.2.1
@[simp] theorem scheduleAll_chans (s : State) (l) : (s.scheduleAll l).chans = s.chans := (scheduleAll_fields l s).2.2.2.2.2.2.1
@[simp] theorem scheduleAll_cur_time (s : State) (l) : (s.scheduleAll l).fes.cur = s.fes.cur := (scheduleAll_fields l s).2.2.2.2.2.2.2

/-! ## the end of a module event -/

/-- the state `moduleEvent` hands to `consumeShutdown`: everything but the shutdown is done -/
def State.beforeShutdown (s : State) (mi : Nat) (m : ModRt) (kind : Kind) : State × ModRt × CbResult :=
  let env := s.env mi
  let s1 := { s with cur := some mi }
  let mb := m.bump env.now
  let r := callback env mb (ES.start mb s1.chans) kind
  let w := r.mod.wakeDecision
  let s2 := { s1 with mods := s1.mods.set mi w.1, chans := r.es.chans, trace := s1.trace ++ r.es.obs,
                      errors := s1.errors ++ r.errs, buf := s1.buf ++ r.es.buf, cur := none }
  let s3 := match w.2 with
    | some t => s2.schedule (.wakeup mi) t
    | none => s2
  ({ s3.scheduleAll s3.buf with buf := [] }, w.1, r)

theorem moduleEvent_eq (s : State) (mi : Nat) (kind : Kind) (m : ModRt) (h : s.mods[mi]? = some m) :
    s.moduleEvent mi kind =
      (s.beforeShutdown mi m kind).1.consumeShutdown mi (s.beforeShutdown mi m kind).2.1 := by
  unfold State.moduleEvent
  rw [h]
  rfl

/-- the result of the callback of the event -/
def State.cbResult (s : State) (mi : Nat) (m : ModRt) (kind : Kind) : CbResult :=
  callback (s.env mi) (m.bump s.fes.cur) (ES.start (m.bump s.fes.cur) s.chans) kind

theorem beforeShutdown_fields (s : State) (mi : Nat) (m : ModRt) (kind : Kind) :
    let b := s.beforeShutdown mi m kind
    let r := s.cbResult mi m kind
    b.2.2 = r ∧ b.2.1 = r.mod.wakeDecision.1 ∧
    b.1.mods = s.mods.set mi r.mod.wakeDecision.1 ∧ b.1.trace = s.trace ++ r.es.obs ∧
    b.1.errors = s.errors ++ r.errs ∧ b.1.cur = none ∧ b.1.buf = [] ∧ b.1.links = s.links ∧
    b.1.chans = r.es.chans ∧ b.1.fes.cur = s.fes.cur := by
  simp only [State.beforeShutdown, State.cbResult, State.env]
  cases (callback _ _ _ kind).mod.wakeDecision.2 <;> simp

theorem wakeDecision_req (m : ModRt) : m.wakeDecision.1.shutdownReq = m.shutdownReq := by
  unfold ModRt.wakeDecision
  split
  · split
    · split <;> rfl
    · rfl
  · rfl

theorem wakeDecision_active (m : ModRt) : m.wakeDecision.1.active = m.active := by
  unfold ModRt.wakeDecision
  split
  · split
    · split <;> rfl
    · rfl
  · rfl

theorem wakeDecision_prog (m : ModRt) : m.wakeDecision.1.prog = m.prog := by
  unfold ModRt.wakeDecision
  split
  · split
    · split <;> rfl
    · rfl
  · rfl

theorem wakeDecision_stages (m : ModRt) : m.wakeDecision.1.stages = m.stages := by
  unfold ModRt.wakeDecision
  split
  · split
    · split <;> rfl
    · rfl
  · rfl

theorem wakeDecision_catches (m : ModRt) : m.wakeDecision.1.catches = m.catches := by
  unfold ModRt.wakeDecision
  split
  · split
    · split <;> rfl
    · rfl
  · rfl

theorem wakeDecision_joinPanics (m : ModRt) : m.wakeDecision.1.joinPanics = m.joinPanics := by
  unfold ModRt.wakeDecision
  split
  · split
    · split <;> rfl
    · rfl
  · rfl

/-- the observation `consumeShutdown` adds -/
def resetObs (mi now : Nat) : Obs := ⟨mi, .reset, none, none, now⟩

/-- the module after its shutdown request was consumed -/
def ModRt.shutDown (m : ModRt) (now : Nat) : ModRt :=
  { m with active := false, shutdownReq := none, unpolled := [], sleepers := [], ready := [],
           nextWakeup := (match m.nextWakeup with
             | some t => if t ≤ now then none else some t
             | none => none),
           must := m.must.map (fun h => if h = HState.running then HState.cancelled else h),
           incarnation := m.incarnation + 1 }

theorem consumeShutdown_none (s : State) (mi : Nat) (m : ModRt) (h : m.shutdownReq = none) :
    s.consumeShutdown mi m = s := by
  simp [State.consumeShutdown, h]

theorem consumeShutdown_some (s : State) (mi : Nat) (m : ModRt) (r : Option Nat) (h : m.shutdownReq = some r) :
    let s' := s.consumeShutdown mi m
    s'.mods = s.mods.set mi (m.shutDown s.fes.cur) ∧ s'.trace = s.trace ++ [resetObs mi s.fes.cur] ∧
    s'.errors = s.errors ∧ s'.cur = s.cur ∧ s'.buf = s.buf ∧ s'.links = s.links ∧ s'.chans = s.chans ∧
    s'.fes.cur = s.fes.cur := by
  simp only [State.consumeShutdown, h, ModRt.shutDown, resetObs]
  cases r <;> simp <;> rfl

/-- the trace segment, error segment and final module of a module event -/
theorem moduleEvent_fields (s : State) (mi : Nat) (kind : Kind) (m : ModRt) (h : s.mods[mi]? = some m) :
    (s.moduleEvent mi kind).trace = s.trace ++ (s.cbResult mi m kind).es.obs ++
      (if (s.cbResult mi m kind).mod.shutdownReq.isSome then [resetObs mi s.fes.cur] else []) ∧
    (s.moduleEvent mi kind).errors = s.errors ++ (s.cbResult mi m kind).errs ∧
    (s.moduleEvent mi kind).cur = none ∧ (s.moduleEvent mi kind).buf = [] ∧
    (s.moduleEvent mi kind).links = s.links ∧
    (s.moduleEvent mi kind).mods = s.mods.set mi
      (if (s.cbResult mi m kind).mod.shutdownReq.isSome
       then (s.cbResult mi m kind).mod.wakeDecision.1.shutDown s.fes.cur
       else (s.cbResult mi m kind).mod.wakeDecision.1) ∧
    (s.moduleEvent mi kind).chans = (s.cbResult mi m kind).es.chans ∧
    (s.moduleEvent mi kind).fes.cur = s.fes.cur := by
  have hb := beforeShutdown_fields s mi m kind
  simp only at hb
  obtain ⟨h1, h2, h3, h4, h5, h6, h7, h8, h9, h10⟩ := hb
  rw [moduleEvent_eq s mi kind m h]
  have hreq : (s.beforeShutdown mi m kind).2.1.shutdownReq = (s.cbResult mi m kind).mod.shutdownReq := by
    rw [h2]; exact wakeDecision_req _
  cases hq : (s.cbResult mi m kind).mod.shutdownReq with
  | none =>
    rw [consumeShutdown_none (s.beforeShutdown mi m kind).1 mi (s.beforeShutdown mi m kind).2.1 (by rw [hreq, hq])]
    simp [h3, h4, h5, h6, h7, h8, h9, h10]
  | some rr =>
    have := consumeShutdown_some (s.beforeShutdown mi m kind).1 mi (s.beforeShutdown mi m kind).2.1 rr (by rw [hreq, hq])
    simp only at this
    obtain ⟨g1, g2, g3, g4, g5, g6, g7, g8⟩ := this
    simp only [Option.isSome_some, if_true]
    refine ⟨?_, ?_, ?_, ?_, ?_, ?_, ?_, ?_⟩
    · rw [g2, h4, h10]
    · rw [g3, h5]
    · rw [g4, h6]
    · rw [g5, h7]
    · rw [g6, h8]
    · rw [g1, h3, h2, h10]; simp
    · rw [g7, h9]
    · rw [g8, h10]

theorem moduleEvent_none (s : State) (mi : Nat) (kind : Kind) (h : s.mods[mi]? = none) :
    s.moduleEvent mi kind = { s with fault := some "no-such-module" } := by
  simp [State.moduleEvent, h]

end Net

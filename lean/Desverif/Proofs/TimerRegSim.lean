/-
The registration invariant for all tasks of a module, for one module event, and for the whole
scripted simulation: every `Sleep` a task is waiting on has its entry in the module's queue, hence
(wake-up invariant) the task is polled at exactly the deadline — every completion of `sleep`,
`sleep_until` and `timeout` delays is observed at max(deadline, first poll), for all scripts.
-/
import Desverif.Proofs.TimerRegTask
import Desverif.Proofs.TimerTerm
namespace Timer

def lcnt (x : Nat) : List Task → Nat
  | [] => 0
  | t :: r => tcnt x t + lcnt x r

theorem ownL_id_count {ls : List (Nat × Fut)} {s : Sleep} (h : s ∈ ownL ls) : 0 < (idsL ls).count s.id := by
  cases ls with
  | nil => cases h
  | cons p r => obtain ⟨ln, f⟩ := p; exact own_id_count h

theorem keep_ops (T : State) (δ : List Op) {sid d i : Nat} (h : ∀ o ∈ δ, opSid o ≠ sid)
    (he : HasEntry T.pending d ⟨sid, i⟩) : HasEntry (applyOps T δ).pending d ⟨sid, i⟩ := by
  apply hasEntry_applyOps _ he
  intro o ho
  cases ht : o.touches sid with
  | false => rfl
  | true => exact absurd (touches_sid ht) (h o ho)

theorem lcnt_pos_of_mem {x : Nat} {t : Task} {l : List Task} (hm : t ∈ l) (h : 0 < tcnt x t) : 0 < lcnt x l := by
  induction l with
  | nil => cases hm
  | cons a r ih =>
    simp only [lcnt]
    rcases List.mem_cons.mp hm with h' | h'
    · subst h'; omega
    · have := ih h'; omega

theorem tcnt_pos_of_own {t : Task} {s : Sleep} (h : s ∈ ownL t.lines) : 0 < tcnt s.id t := by
  have := ownL_id_count h
  unfold tcnt; omega

/-- what one scheduler turn over the task list `tasks` (indices from `idx`) does -/
structure PT (A : State) (now idx : Nat) (tasks : List Task) (a : Acc) (tasks' : List Task) (a' : Acc) : Prop where
  nid : a.nextId ≤ a'.nextId
  old : ∀ x, x < a.nextId → lcnt x tasks' ≤ lcnt x tasks
  mid : ∀ x, a.nextId ≤ x → x < a'.nextId → lcnt x tasks' ≤ 1
  hi : ∀ x, a'.nextId ≤ x → lcnt x tasks' = 0
  frame : ∃ δ, a'.ops = a.ops ++ δ ∧
    ∀ o ∈ δ, 0 < lcnt (opSid o) tasks ∨ (a.nextId ≤ opSid o ∧ opSid o < a'.nextId)
  wf : ∀ t ∈ tasks', TWF t
  reg : ∀ k t', tasks'[k]? = some t' → ∀ s ∈ ownL t'.lines, OutS (applyOps A a'.ops).pending (idx + k) now s
  log : LogPrecise a.log → LogPrecise a'.log

theorem pollTasks_reg (A : State) (run : Nat → Bool) (now inc : Nat) : ∀ (tasks : List Task) (idx : Nat) (a : Acc),
    (∀ t ∈ tasks, TWF t) → (∀ x, a.nextId ≤ x → lcnt x tasks = 0) → (∀ x, lcnt x tasks ≤ 1) →
    (∀ k t, tasks[k]? = some t →
      (run (idx + k) = true → ∀ s ∈ ownL t.lines, InS (applyOps A a.ops).pending (idx + k) now s) ∧
      (run (idx + k) = false → ∀ s ∈ ownL t.lines, OutS (applyOps A a.ops).pending (idx + k) now s)) →
    PT A now idx tasks a (pollTasks tasks idx run now inc a).1 (pollTasks tasks idx run now inc a).2 := by
  intro tasks
  induction tasks with
  | nil =>
    intro idx a _ hb _ _
    simp only [pollTasks]
    exact ⟨Nat.le_refl _, fun _ _ => Nat.le_refl _, fun x h1 h2 => absurd h2 (by omega), hb,
      ⟨[], by simp, by intro o ho; cases ho⟩, (by intro t ht; cases ht), (by intro k t' h; simp at h), id⟩
  | cons t rest ih =>
    intro idx a hwf hb hu hin
    have hwt := hwf t List.mem_cons_self
    have hbt : ∀ x, a.nextId ≤ x → tcnt x t = 0 := fun x hx => by have := hb x hx; simp only [lcnt] at this; omega
    have hut : ∀ x, tcnt x t ≤ 1 := fun x => by have := hu x; simp only [lcnt] at this; omega
    have hin0 := hin 0 t rfl
    simp only [Nat.add_zero] at hin0
    -- the head task
    have S : TStep A idx now t a (if run idx = true then t.poll idx now inc a else (t, a)).1
        (if run idx = true then t.poll idx now inc a else (t, a)).2 := by
      cases hr : run idx with
      | true =>
        simp only [if_true]
        exact task_step A t idx now inc a hwt hbt hut (hin0.1 hr)
      | false =>
        simp only [Bool.false_eq_true, if_false]
        exact ⟨Nat.le_refl _, fun _ _ => Nat.le_refl _, fun x h1 h2 => absurd h2 (by omega), hbt,
          ⟨[], by simp, by intro o ho; cases ho⟩, hwt, hin0.2 hr, id⟩
    simp only [pollTasks]
    generalize (if run idx = true then t.poll idx now inc a else (t, a)) = R at S ⊢
    obtain ⟨t1, a1⟩ := R
    simp only at S ⊢
    obtain ⟨δt, hδt, hst⟩ := S.frame
    have hn1 := S.nid
    -- the remaining tasks
    have hbr : ∀ x, a1.nextId ≤ x → lcnt x rest = 0 := fun x hx => by
      have := hb x (by omega); simp only [lcnt] at this; omega
    have hur : ∀ x, lcnt x rest ≤ 1 := fun x => by have := hu x; simp only [lcnt] at this; omega
    have hnot : ∀ (t2 : Task), t2 ∈ rest → ∀ s ∈ ownL t2.lines, ∀ o ∈ δt, opSid o ≠ s.id := by
      intro t2 hm s hs o ho heq
      have hc : 0 < lcnt s.id rest := lcnt_pos_of_mem hm (tcnt_pos_of_own hs)
      have h0 := hu s.id
      simp only [lcnt] at h0
      rcases hst o ho with h | h
      · rw [heq] at h; omega
      · rw [heq] at h
        have := hb s.id h.1
        simp only [lcnt] at this; omega
    have hinr : ∀ k t2, rest[k]? = some t2 →
        (run (idx + 1 + k) = true → ∀ s ∈ ownL t2.lines, InS (applyOps A a1.ops).pending (idx + 1 + k) now s) ∧
        (run (idx + 1 + k) = false → ∀ s ∈ ownL t2.lines, OutS (applyOps A a1.ops).pending (idx + 1 + k) now s) := by
      intro k t2 hk
      have h := hin (k + 1) t2 (by simpa using hk)
      have he : idx + (k + 1) = idx + 1 + k := by omega
      rw [he] at h
      have hm : t2 ∈ rest := List.mem_of_getElem? hk
      rw [hδt, applyOps_append]
      exact ⟨fun hr s hs => inS_mono (h.1 hr s hs) (keep_ops _ δt (hnot t2 hm s hs)),
             fun hr s hs => outS_mono (h.2 hr s hs) (keep_ops _ δt (hnot t2 hm s hs))⟩
    have I := ih (idx + 1) a1 (fun t ht => hwf t (List.mem_cons_of_mem _ ht)) hbr hur hinr
    generalize pollTasks rest (idx + 1) run now inc a1 = R2 at I ⊢
    obtain ⟨rest', a2⟩ := R2
    simp only at I ⊢
    obtain ⟨δr, hδr, hsr⟩ := I.frame
    have hn2 := I.nid
    refine ⟨by omega, ?_, ?_, ?_, ⟨δt ++ δr, by rw [hδr, hδt, List.append_assoc], ?_⟩, ?_, ?_,
      fun h => I.log (S.log h)⟩
    · intro x hx
      have := S.old x hx
      have := I.old x (by omega)
      simp only [lcnt]; omega
    · intro x h1 h2
      simp only [lcnt]
      by_cases hx : x < a1.nextId
      · have := S.mid x h1 hx
        have := I.old x hx
        have := hb x h1
        simp only [lcnt] at this
        omega
      · have := S.hi x (by omega)
        have := I.mid x (by omega) h2
        omega
    · intro x hx
      have := S.hi x (by omega)
      have := I.hi x hx
      simp only [lcnt]; omega
    · intro o ho
      rcases List.mem_append.mp ho with ho | ho
      · rcases hst o ho with h | h
        · exact Or.inl (by simp only [lcnt]; omega)
        · exact Or.inr ⟨h.1, by omega⟩
      · rcases hsr o ho with h | h
        · exact Or.inl (by simp only [lcnt]; omega)
        · exact Or.inr ⟨by omega, h.2⟩
    · intro t' ht'
      rcases List.mem_cons.mp ht' with h | h
      · subst h; exact S.wf
      · exact I.wf t' h
    · intro k t' hk
      cases k with
      | zero =>
        simp only [List.getElem?_cons_zero, Option.some.injEq] at hk
        subst hk
        intro s hs
        rw [hδr, applyOps_append]
        refine outS_mono (S.reg s hs) (keep_ops _ δr ?_)
        intro o ho heq
        have hc := tcnt_pos_of_own hs
        rcases hsr o ho with h | h
        · rw [heq] at h
          by_cases hx : s.id < a.nextId
          · have := S.old s.id hx
            have := hu s.id
            simp only [lcnt] at this; omega
          · have := hb s.id (by omega)
            simp only [lcnt] at this; omega
        · rw [heq] at h
          have := S.hi s.id h.1
          omega
      | succ k =>
        simp only [List.getElem?_cons_succ] at hk
        have := I.reg k t' hk
        have he : idx + 1 + k = idx + (k + 1) := by omega
        rw [he] at this
        exact this

/-! ### one module event -/

def evWoken (m : Mod) (t : Nat) (k : Kind) : List Entry :=
  (stepWith next m.timer { time := t, wake := k = .wake, ops := [] }).2
def evSpawn (k : Kind) : Bool := k = .start || k = .restart
def evInc (m : Mod) (k : Kind) : Nat := if k = .restart then m.inc + 1 else m.inc
def evActive (m : Mod) (k : Kind) : Bool := m.active || evSpawn k
def evTasks (m : Mod) (k : Kind) : List Task := if evSpawn k then spawnAll m.progs else m.tasks
def evRun (m : Mod) (t : Nat) (k : Kind) : Nat → Bool :=
  fun i => evSpawn k || (evActive m k && (evWoken m t k).any (·.tid == i))

theorem event_eq (m : Mod) (t : Nat) (k : Kind) :
    m.event next t k = m.finish next t k (evWoken m t k).length (evInc m k) (evActive m k)
      (pollTasks (evTasks m k) 0 (evRun m t k) t (evInc m k) ⟨m.nextId, m.log, [], none⟩).1
      (pollTasks (evTasks m k) 0 (evRun m t k) t (evInc m k) ⟨m.nextId, m.log, [], none⟩).2 := rfl

theorem finish_shape (m : Mod) (now : Nat) (k : Kind) (nwoken inc : Nat) (active : Bool) (tasks' : List Task)
    (a : Acc) :
    (m.finish next now k nwoken inc active tasks' a).1.nextId = a.nextId ∧
    (((m.finish next now k nwoken inc active tasks' a).1.tasks = tasks' ∧
      (m.finish next now k nwoken inc active tasks' a).1.active = active ∧
      (m.finish next now k nwoken inc active tasks' a).1.timer.pending =
        (applyOps (activate now (if decide (k = Kind.wake) = true
          then { m.timer with wakeups := m.timer.wakeups.erase now } else m.timer)).1 a.ops).pending) ∨
     ((m.finish next now k nwoken inc active tasks' a).1.tasks = [] ∧
      (m.finish next now k nwoken inc active tasks' a).1.active = false)) := by
  have hp : (stepWith next m.timer { time := now, wake := decide (k = Kind.wake), ops := a.ops }).1.pending =
      (applyOps (activate now (if decide (k = Kind.wake) = true
          then { m.timer with wakeups := m.timer.wakeups.erase now } else m.timer)).1 a.ops).pending := by
    show (stepEv m.timer ⟨now, decide (k = Kind.wake), [], a.ops⟩).1.pending = _
    rw [stepEv_fst]
    unfold deactivate
    rw [deactivateWith_pending]
    rfl
  unfold Mod.finish
  simp only
  split
  · exact ⟨rfl, Or.inl ⟨rfl, rfl, hp⟩⟩
  · exact ⟨rfl, Or.inl ⟨rfl, rfl, hp⟩⟩
  · exact ⟨rfl, Or.inr ⟨rfl, rfl⟩⟩

/-- between events: what is known about a `Sleep` owned by task `k` -/
def StS (P : List Slot) (k : Nat) (s : Sleep) : Prop :=
  (∀ a, s.armed = some a → a < s.deadline ∧ s.handle.isSome) ∧
  (s.handle.isSome → HasEntry P s.deadline ⟨s.id, k⟩)

/-- plain script terms: nothing started yet -/
def SrcProgs (progs : List (List (Nat × Fut))) : Prop := ∀ p ∈ progs, ∀ l ∈ p, ids l.2 = [] ∧ WF l.2

/-- **registration invariant of a module** -/
structure MReg (m : Mod) : Prop where
  uq : ∀ x, lcnt x m.tasks ≤ 1
  bd : ∀ x, m.nextId ≤ x → lcnt x m.tasks = 0
  wf : ∀ t ∈ m.tasks, TWF t
  reg : ∀ k t, m.tasks[k]? = some t → ∀ s ∈ ownL t.lines, StS m.timer.pending k s
  idle : m.active = false → m.tasks = []
  src : SrcProgs m.progs
  log : LogPrecise m.log

theorem lwf_of_src {p : List (Nat × Fut)} (h : ∀ l ∈ p, ids l.2 = [] ∧ WF l.2) : LWF p ∧ idsL p = [] := by
  cases p with
  | nil => exact ⟨trivial, rfl⟩
  | cons a r =>
    obtain ⟨ln, f⟩ := a
    have ha := h (ln, f) List.mem_cons_self
    exact ⟨⟨ha.2, fun q hq => h q (List.mem_cons_of_mem _ hq)⟩, ha.1⟩

theorem spawnAll_facts {progs : List (List (Nat × Fut))} (h : SrcProgs progs) :
    (∀ t ∈ spawnAll progs, TWF t ∧ idsL t.lines = []) ∧ ∀ x, lcnt x (spawnAll progs) = 0 := by
  induction progs with
  | nil => exact ⟨(by intro t ht; cases ht), fun _ => rfl⟩
  | cons p rest ih =>
    obtain ⟨h1, h2⟩ := ih (fun q hq => h q (List.mem_cons_of_mem _ hq))
    obtain ⟨hw, hi⟩ := lwf_of_src (h p List.mem_cons_self)
    constructor
    · intro t ht
      simp only [spawnAll, List.map_cons, List.mem_cons] at ht
      rcases ht with rfl | ht
      · exact ⟨⟨hw, by intro hd; cases hd⟩, hi⟩
      · exact h1 t ht
    · intro x
      have := h2 x
      simp only [spawnAll] at this
      simp only [spawnAll, List.map_cons, lcnt, tcnt, hi, envIds, this]
      simp

theorem getElem?_spawnAll_own {progs : List (List (Nat × Fut))} (h : SrcProgs progs) {k : Nat} {t : Task}
    (hk : (spawnAll progs)[k]? = some t) : ownL t.lines = [] :=
  ownL_nil_of_idsL_nil ((spawnAll_facts h).1 t (List.mem_of_getElem? hk)).2

theorem sts_in {last t : Nat} {T : State} (hinv : WakeInv last T) (hw : ∀ w ∈ T.wakeups, t ≤ w) (ht : t < tMax)
    {k : Nat} {s : Sleep} (h : StS T.pending k s) :
    InS (T.pending.dropWhile (fun sl => sl.time ≤ t)) k t s := by
  refine ⟨h.1, fun hh => ?_⟩
  have he := h.2 hh
  have hle : t ≤ s.deadline := by
    by_cases hd : s.deadline < tMax
    · obtain ⟨_, hmem, _, hl⟩ := live_has_wakeup hinv he hd
      exact Nat.le_trans (hw _ hmem) hl
    · omega
  refine ⟨hle, fun hlt => ?_⟩
  obtain ⟨s0, hs0, ht0, he0⟩ := he
  exact ⟨s0, mem_dropWhile_of_gt hs0 (by omega), ht0, he0⟩

theorem evWoken_eq (m : Mod) (t : Nat) (k : Kind) :
    evWoken m t k = (m.timer.pending.takeWhile (fun s => s.time ≤ t)).flatMap (·.entries) := by
  unfold evWoken
  exact stepEv_snd m.timer ⟨t, decide (k = Kind.wake), [], []⟩

theorem activate_pending (t : Nat) (T : State) (w : Bool) :
    (activate t (if w = true then { T with wakeups := T.wakeups.erase t } else T)).1.pending =
      T.pending.dropWhile (fun s => s.time ≤ t) := by
  cases w <;> rfl

/-- **one module event preserves the registration invariant** (and the precision of the log) -/
theorem event_mreg {t : Nat} (m : Mod) (k : Kind) (hI : MReg m) (hinv : WakeInv m.last m.timer)
    (hw : ∀ w ∈ m.timer.wakeups, t ≤ w) (ht : t < tMax) : MReg (m.event next t k).1 := by
  rw [event_eq]
  have hAp := activate_pending t m.timer (decide (k = Kind.wake))
  generalize hA : (activate t (if decide (k = Kind.wake) = true
      then { m.timer with wakeups := m.timer.wakeups.erase t } else m.timer)).1 = A at hAp
  -- preconditions of the scheduler turn
  have hpre : (∀ t' ∈ evTasks m k, TWF t') ∧ (∀ x, m.nextId ≤ x → lcnt x (evTasks m k) = 0) ∧
      (∀ x, lcnt x (evTasks m k) ≤ 1) ∧
      (∀ i t', (evTasks m k)[i]? = some t' →
        (evRun m t k (0 + i) = true → ∀ s ∈ ownL t'.lines, InS A.pending (0 + i) t s) ∧
        (evRun m t k (0 + i) = false → ∀ s ∈ ownL t'.lines, OutS A.pending (0 + i) t s)) := by
    unfold evTasks
    cases hsp : evSpawn k with
    | true =>
      simp only [if_true]
      obtain ⟨h1, h2⟩ := spawnAll_facts hI.src
      refine ⟨fun t' ht' => (h1 t' ht').1, fun x _ => h2 x, fun x => by rw [h2 x]; omega, ?_⟩
      intro i t' hi
      rw [getElem?_spawnAll_own hI.src hi]
      exact ⟨fun _ s hs => (by cases hs), fun _ s hs => (by cases hs)⟩
    | false =>
      simp only [Bool.false_eq_true, if_false]
      refine ⟨hI.wf, hI.bd, hI.uq, ?_⟩
      intro i t' hi
      simp only [Nat.zero_add]
      have hreg := hI.reg i t' hi
      rw [hAp]
      refine ⟨fun _ s hs => sts_in hinv hw ht (hreg s hs), fun hrun s hs => ?_⟩
      have hin := sts_in hinv hw ht (hreg s hs)
      refine ⟨hin.1, fun hh => ?_⟩
      obtain ⟨hle, hent⟩ := hin.2 hh
      have hlt : t < s.deadline := by
        apply Nat.lt_of_not_le
        intro hge
        -- the entry is due: its task is woken, hence polled
        have he := (hreg s hs).2 hh
        obtain ⟨s0, hs0, ht0, he0⟩ := he
        have hwk : (⟨s.id, i⟩ : Entry) ∈ evWoken m t k := by
          rw [evWoken_eq]
          exact List.mem_flatMap.mpr ⟨s0, mem_takeWhile_of_le hinv.sorted hs0 (by omega), he0⟩
        have hact : m.active = true := by
          cases hb : m.active with
          | true => rfl
          | false =>
            have := hI.idle hb
            rw [this] at hi; simp at hi
        have : evRun m t k i = true := by
          unfold evRun evActive
          rw [hsp, hact]
          simp only [Bool.false_or, Bool.or_false, Bool.true_and]
          exact List.any_eq_true.mpr ⟨_, hwk, by simp⟩
        rw [this] at hrun; cases hrun
      exact ⟨hlt, hent hlt⟩
  obtain ⟨hp1, hp2, hp3, hp4⟩ := hpre
  have P := pollTasks_reg A (evRun m t k) t (evInc m k) (evTasks m k) 0 ⟨m.nextId, m.log, [], none⟩ hp1 hp2 hp3 hp4
  have hnil : evTasks m k = [] →
      (pollTasks (evTasks m k) 0 (evRun m t k) t (evInc m k) ⟨m.nextId, m.log, [], none⟩).1 = [] := by
    intro h; rw [h]; rfl
  generalize pollTasks (evTasks m k) 0 (evRun m t k) t (evInc m k) ⟨m.nextId, m.log, [], none⟩ = R at P hnil ⊢
  obtain ⟨tasks', a⟩ := R
  simp only at P hnil ⊢
  obtain ⟨hnid, hshape⟩ := finish_shape m t k (evWoken m t k).length (evInc m k) (evActive m k) tasks' a
  obtain ⟨_, hprogs⟩ := finish_inc m t k (evWoken m t k).length (evInc m k) (evActive m k) tasks' a
  have hlog := finish_log m t k (evWoken m t k).length (evInc m k) (evActive m k) tasks' a
  have hn := P.nid
  simp only at hn
  rcases hshape with ⟨htk, hact, hpend⟩ | ⟨htk, hact⟩
  · refine ⟨?_, ?_, ?_, ?_, ?_, by rw [hprogs]; exact hI.src, by rw [hlog]; exact P.log hI.log⟩
    · intro x
      rw [htk]
      by_cases hx : x < m.nextId
      · have := P.old x hx; have := hp3 x; omega
      · by_cases hx2 : x < a.nextId
        · exact P.mid x (by simp only; omega) hx2
        · have := P.hi x (by omega); omega
    · intro x hx
      rw [htk]; rw [hnid] at hx
      exact P.hi x hx
    · rw [htk]; exact P.wf
    · intro i t' hi s hs
      rw [htk] at hi
      have := P.reg i t' hi s hs
      rw [Nat.zero_add] at this
      rw [hpend, hA]
      exact ⟨this.1, fun hh => (this.2 hh).2⟩
    · intro hb
      rw [hact] at hb
      rw [htk]
      -- an inactive module that does not spawn has no tasks
      have h1 : m.active = false := by
        unfold evActive at hb
        cases hm : m.active with
        | false => rfl
        | true => rw [hm] at hb; simp at hb
      have h2 : evSpawn k = false := by
        unfold evActive at hb
        rw [h1] at hb; simpa using hb
      have h3 : evTasks m k = [] := by
        unfold evTasks; rw [h2]; simp only [Bool.false_eq_true, if_false]; exact hI.idle h1
      exact hnil h3
  · refine ⟨?_, ?_, ?_, ?_, fun _ => htk, by rw [hprogs]; exact hI.src, by rw [hlog]; exact P.log hI.log⟩
    · intro x; rw [htk]; simp [lcnt]
    · intro x _; rw [htk]; rfl
    · rw [htk]; intro t' ht'; cases ht'
    · rw [htk]; intro i t' hi; simp at hi

/-! ### the whole simulation -/

def RInv (s : Sim) : Prop := ∀ m ∈ s.mods, MReg m

theorem rinv_eventOn {s : Sim} (hs : SimInv s) (hr : RInv s) (i t : Nat) (k : Kind)
    (hmin : ∀ m ∈ s.mods, ∀ w ∈ m.timer.wakeups, t ≤ w) (ht : t < tMax) : RInv (s.eventOn next i t k) := by
  unfold Sim.eventOn
  split
  · exact hr
  · rename_i m hm
    have hmem : m ∈ s.mods := List.mem_of_getElem? hm
    intro x hx
    simp only at hx
    rcases List.mem_or_eq_of_mem_set hx with hx | hx
    · exact hr x hx
    · subst hx
      exact event_mreg m k (hr m hmem) (hs.1 m hmem) (hmin m hmem) ht

theorem tMax_pos : 0 < tMax := by decide

theorem rinv_forAll {s : Sim} (hs : SimInv s) (hr : RInv s) (ht : s.now < tMax) (k : Kind) (n i : Nat) :
    RInv (Sim.forAll next s k n i) := by
  induction n generalizing s i with
  | zero => exact hr
  | succ n ih =>
    simp only [Sim.forAll]
    exact ih (siminv_eventOn hs i s.now k hs.2) (rinv_eventOn hs hr i s.now k hs.2 ht)
      (by rw [eventOn_now]; exact ht) _

theorem rinv_loop {fuel : Nat} {s s' : Sim} (hs : SimInv s) (hn : NowInv s) (hr : RInv s)
    (hl : Sim.loop next fuel s = some s') (hT : s'.now < tMax) : RInv s' := by
  induction fuel generalizing s with
  | zero => cases hl
  | succ n ih =>
    simp only [Sim.loop] at hl
    split at hl
    · cases hl; exact hr
    · rename_i i t k hp
      obtain ⟨_, m, hm, hmn⟩ := pickNext_spec hp
      simp only [Nat.sub_zero] at hm
      have hmem : m ∈ s.mods := List.mem_of_getElem? hm
      have hi : i < s.mods.length := (List.getElem?_eq_some_iff.mp hm).1
      have hs1 := siminv_eventOn hs i t k (pickNext_le hp)
      -- the clock after this event, and that the run ends later
      have htnow : s.now ≤ t := by
        have h1 := loop_now hs hn (fuel := n + 1) (s' := s') (by simp only [Sim.loop, hp]; exact hl)
        rcases nextEvent_kind hmn with ⟨_, hk⟩ | ⟨rfl, hk⟩
        · exact hs.2 m hmem t hk
        · obtain ⟨r, hr'⟩ := Option.isSome_iff_exists.mp hk
          have h2 := hn.restart_ge m hmem r hr'
          have h3 := nextEvent_le_restart hmn r hr'
          have h4 : r ≤ t := by
            have := hmn
            unfold Mod.nextEvent at this
            rw [hr'] at this
            split at this
            · rename_i heq; cases heq
              split at this
              · cases this
              · cases this; exact Nat.le_refl _
            · rename_i heq; cases heq
            · rename_i heq; cases heq; cases this; exact Nat.le_refl _
            · cases this
          omega
      have hn1 := nowinv_eventOn (k := k) hn htnow (pickNext_le_restart hp) hi
      have hnow1 : (s.eventOn next i t k).now = t := by unfold Sim.eventOn; rw [hm]
      have hle := (loop_now hs1 hn1 hl).1
      exact ih hs1 hn1 (rinv_eventOn hs hr i t k (pickNext_le hp) (by omega)) hl

theorem rinv_init {progs : List (List (List (Nat × Fut)))} (h : ∀ p ∈ progs, SrcProgs p) :
    RInv { mods := progs.map fun p => ({ progs := p } : Mod) } := by
  intro m hm
  simp only [List.mem_map] at hm
  obtain ⟨p, hp, rfl⟩ := hm
  exact ⟨fun _ => Nat.zero_le _, fun _ _ => rfl, (by intro t ht; cases ht), (by intro k t hk; simp at hk),
    fun _ => rfl, h p hp, (by intro o ho; cases ho)⟩

/-- **Completions at the deadline, for all scripts.**  In the complete run of the scripted
    simulation (plain script terms, clock below `SimTime::MAX`) every module satisfies the
    registration invariant; in particular every observed completion of a `sleep`, `sleep_until` or
    `timeout` delay carries time = max(deadline, time of its first poll). -/
theorem sim_mreg (progs : List (List (List (Nat × Fut)))) (hsrc : ∀ p ∈ progs, SrcProgs p) (s : Sim)
    (h : Sim.run next progs = some s) (hT : s.now < tMax) : RInv s := by
  unfold Sim.run at h
  simp only at h
  split at h
  · cases h
  · rename_i s2 hl
    cases h
    have hs1 := siminv_forAll (siminv_init progs) Kind.start (progs.map fun p => ({ progs := p } : Mod)).length 0
    have hn1 := nowinv_forAll (nowinv_init progs) Kind.start (progs.map fun p => ({ progs := p } : Mod)).length 0
    have hr1 := rinv_forAll (siminv_init progs) (rinv_init hsrc) tMax_pos Kind.start
      (progs.map fun p => ({ progs := p } : Mod)).length 0
    have hnow2 := (nowinv_forAll (loop_now hs1 hn1.1 hl).2 Kind.simEnd s2.mods.length 0).2
    rw [hnow2] at hT
    exact rinv_forAll (siminv_loop hs1 hl) (rinv_loop hs1 hn1.1 hr1 hl hT) hT _ _ _

theorem isSrc_ids_wf (f : Fut) (h : f.isSrc = true) : ids f = [] ∧ WF f := by
  induction f with
  | sleeping s => simp [Fut.isSrc] at h
  | timeoutRun s e _ => simp [Fut.isSrc] at h
  | timeout d e ih =>
    have := ih (by simpa [Fut.isSrc] using h)
    exact ⟨by simpa using this.1, this⟩
  | select a b iha ihb =>
    simp only [Fut.isSrc, Bool.and_eq_true] at h
    have ha := iha h.1
    have hb := ihb h.2
    exact ⟨by simp [ha.1, hb.1], ha.2, hb.2⟩
  | seq a b iha ihb =>
    simp only [Fut.isSrc, Bool.and_eq_true] at h
    have ha := iha h.1
    have hb := ihb h.2
    exact ⟨by simp [ha.1, hb.1], ha.2, hb.2, hb.1⟩
  | _ => exact ⟨rfl, trivial⟩

/-- every line of every task of every module is a plain script term -/
def SrcAll (progs : List (List (List (Nat × Fut)))) : Prop := ∀ p ∈ progs, ∀ ls ∈ p, ∀ l ∈ ls, l.2.isSrc = true

theorem srcAll_progs {progs : List (List (List (Nat × Fut)))} (h : SrcAll progs) : ∀ p ∈ progs, SrcProgs p :=
  fun p hp ls hls l hl => isSrc_ids_wf l.2 (h p hp ls hls l hl)

/-- when the event loop stops, no task is still waiting on a `sleep` / `sleep_until` / `timeout`
    delay with a deadline below `SimTime::MAX` -/
theorem loop_end_no_waiting {fuel : Nat} {s s' : Sim} (hs : SimInv s) (hn : NowInv s) (hr : RInv s)
    (hl : Sim.loop next fuel s = some s') (hT : s'.now < tMax) :
    ∀ m ∈ s'.mods, ∀ (k : Nat) (t : Task), m.tasks[k]? = some t →
      ∀ sl ∈ ownL t.lines, sl.handle.isSome → tMax ≤ sl.deadline := by
  intro m hm k t hk sl hsl hh
  have hreg := (rinv_loop hs hn hr hl hT m hm).reg k t hk sl hsl
  exact loop_end_no_pending hs hl m hm _ _ (hreg.2 hh)

end Timer

/-
Helper lemmas for the node store of the queue-with-memory model: association-list lookup,
releasing a duplicate-free list of live keys, the key list `Drop for CQueue` walks.
-/
import Desverif.Model.CQMem
import Desverif.Proofs.AllocKeys
namespace CQMem
open Alloc

theorem mem_of_lookup {l : List (Nat × Nat)} {i k : Nat} (h : l.lookup i = some k) : (i, k) ∈ l := by
  induction l with
  | nil => simp [List.lookup] at h
  | cons p ps ih =>
    obtain ⟨j, v⟩ := p
    rw [List.lookup_cons] at h
    by_cases hij : i = j
    · subst hij; simp at h; subst h; simp
    · have : (i == j) = false := by simp [hij]
      rw [this] at h
      exact List.mem_cons_of_mem _ (ih h)

theorem lookup_of_mem {l : List (Nat × Nat)} {i k : Nat} (hnd : (l.map (·.1)).Nodup)
    (h : (i, k) ∈ l) : l.lookup i = some k := by
  induction l with
  | nil => cases h
  | cons p ps ih =>
    obtain ⟨j, v⟩ := p
    simp only [List.map_cons, List.nodup_cons] at hnd
    rw [List.lookup_cons]
    rcases List.mem_cons.mp h with heq | hm
    · injection heq with h1 h2; subst h1; subst h2; simp
    · have hij : i ≠ j := by
        intro hij; subst hij
        exact hnd.1 (List.mem_map.mpr ⟨(i, k), hm, rfl⟩)
      have : (i == j) = false := by simp [hij]
      rw [this]
      exact ih hnd.2 hm

theorem lookup_of_mem_fst {l : List (Nat × Nat)} {i : Nat} (hnd : (l.map (·.1)).Nodup)
    (h : i ∈ l.map (·.1)) : ∃ k, l.lookup i = some k ∧ (i, k) ∈ l := by
  obtain ⟨p, hp, rfl⟩ := List.mem_map.mp h
  exact ⟨p.2, lookup_of_mem hnd hp, hp⟩

/-- releasing a duplicate-free list of live keys: every release succeeds, exactly those keys go -/
theorem freeKeys_all {orc P} (ho : OracleOk orc P) (hp : PageOk P) :
    ∀ (ks : List Nat) (a : RState), KInv orc P a → ks.Nodup → (∀ k ∈ ks, k ∈ a.live.map (·.key)) →
      (freeKeys orc a ks).2.2 = true ∧ KInv orc P (freeKeys orc a ks).1 ∧
      (∀ x, x ∈ (freeKeys orc a ks).1.live.map (·.key) ↔ (x ∈ a.live.map (·.key) ∧ x ∉ ks)) ∧
      (freeKeys orc a ks).1.live.Sublist a.live ∧ (freeKeys orc a ks).1.next = a.next := by
  intro ks
  induction ks with
  | nil => intro a h _ _; simp [freeKeys, h]
  | cons k ks ih =>
    intro a h hnd hsub
    obtain ⟨e, s', he, hke, hstep, hk', _, hkeys⟩ := free_step_ok ho hp h (hsub k (by simp))
    have hse := stepEv_step orc a (.free k)
    rw [hstep] at hse
    simp only [List.nodup_cons] at hnd
    have hsub' : ∀ k' ∈ ks, k' ∈ ({ a with st := s', live := a.live.erase e } : RState).live.map (·.key) := by
      intro k' hk'm
      apply (hkeys k').mpr
      refine ⟨hsub k' (by simp [hk'm]), ?_⟩
      intro heq; subst heq; exact hnd.1 hk'm
    obtain ⟨i1, i2, i3, i4, i5⟩ := ih _ hk' hnd.2 hsub'
    rcases hev : stepEv orc a (.free k) with ⟨a1, o1, ev1⟩
    rw [hev] at hse
    simp only at hse
    obtain ⟨rfl, rfl⟩ := hse
    simp only [freeKeys, hev]
    refine ⟨by simp [i1], i2, ?_, i4.trans List.erase_sublist, i5⟩
    intro x
    rw [i3 x, hkeys x]
    simp only [List.mem_cons, not_or]
    constructor
    · rintro ⟨⟨h1, h2⟩, h3⟩; exact ⟨h1, h2, h3⟩
    · rintro ⟨h1, h2, h3⟩; exact ⟨⟨h1, h2⟩, h3⟩

def sentKeys (sent : List (Nat × Nat)) : List Nat := sent.flatMap (fun p => [p.1, p.2])

theorem flatMap_append_perm {α β : Type} (l : List α) (f g : α → List β) :
    (l.flatMap (fun x => f x ++ g x)).Perm (l.flatMap f ++ l.flatMap g) := by
  induction l with
  | nil => simp
  | cons x xs ih =>
    simp only [List.flatMap_cons]
    have h1 : (f x ++ g x ++ List.flatMap (fun x => f x ++ g x) xs).Perm
        (f x ++ g x ++ (List.flatMap f xs ++ List.flatMap g xs)) := List.Perm.append_left _ ih
    refine h1.trans ?_
    simp only [List.append_assoc]
    apply List.Perm.append_left
    rw [← List.append_assoc, ← List.append_assoc]
    exact List.Perm.append_right _ List.perm_append_comm

/-- the keys `Drop for CQueue` releases: a rearrangement of the node keys of the bucket-resident
    events (bucket by bucket) and the sentinel keys -/
theorem dropKeys_perm (st : State) (hlen : st.sent.length = st.q.1.buckets.length) :
    (dropKeys st).Perm
      (st.q.1.buckets.flatten.filterMap (fun e => st.nodes.lookup e.id) ++ sentKeys st.sent) := by
  unfold dropKeys sentKeys
  have hfun : (fun (x : List CQ.Ev × Nat × Nat) =>
      match x with
      | (b, (h, t)) => (b.filterMap fun e => st.nodes.lookup e.id) ++ [h, t]) =
      (fun x => (fun (y : List CQ.Ev × Nat × Nat) => y.1.filterMap fun e => st.nodes.lookup e.id) x ++
        (fun (y : List CQ.Ev × Nat × Nat) => [y.2.1, y.2.2]) x) := by
    funext x; obtain ⟨b, h, t⟩ := x; rfl
  rw [hfun]
  refine (flatMap_append_perm _ _ _).trans ?_
  have h1 : List.flatMap (fun (y : List CQ.Ev × Nat × Nat) => y.1.filterMap fun e => st.nodes.lookup e.id)
      (st.q.1.buckets.zip st.sent) =
      st.q.1.buckets.flatten.filterMap (fun e => st.nodes.lookup e.id) := by
    have e1 := List.flatMap_map (Prod.fst : List CQ.Ev × Nat × Nat → List CQ.Ev)
      (fun b => b.filterMap (fun e => st.nodes.lookup e.id)) (st.q.1.buckets.zip st.sent)
    rw [List.map_fst_zip (by omega)] at e1
    rw [List.filterMap_flatten, ← List.flatMap_def]
    exact e1.symm
  have h2 : List.flatMap (fun (y : List CQ.Ev × Nat × Nat) => [y.2.1, y.2.2])
      (st.q.1.buckets.zip st.sent) = List.flatMap (fun p => [p.1, p.2]) st.sent := by
    have e2 := List.flatMap_map (Prod.snd : List CQ.Ev × Nat × Nat → Nat × Nat)
      (fun (p : Nat × Nat) => [p.1, p.2]) (st.q.1.buckets.zip st.sent)
    rw [List.map_snd_zip (by omega)] at e2
    exact e2.symm
  rw [h1, h2]

end CQMem

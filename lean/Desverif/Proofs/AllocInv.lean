/-
Representation invariant of the page allocator model and its preservation by
`add_page`, `find_region`, `allocate`, `deallocate`.
-/
import Desverif.Proofs.AllocArith
namespace Alloc

/-- two address ranges do not overlap -/
def Disj (a b : Region) : Prop := a.stop ≤ b.addr ∨ b.stop ≤ a.addr

theorem Disj.symm {a b : Region} (h : Disj a b) : Disj b a := Or.symm h

/-- `a` lies inside `b` -/
def Sub (a b : Region) : Prop := b.addr ≤ a.addr ∧ a.stop ≤ b.stop

theorem Disj.of_sub {x r r' : Region} (h : Disj x r) (hs : Sub r' r) : Disj x r' := by
  unfold Disj Sub at *
  omega

/-- what is assumed of the system allocator: pages aligned to the page size, pairwise disjoint -/
structure OracleOk (orc : Nat → Nat) (P : Nat) : Prop where
  aligned : ∀ k, orc k % P = 0
  disjoint : ∀ i j, i ≠ j → orc i + P ≤ orc j ∨ orc j + P ≤ orc i

/-- page sizes `Layout::from_size_align(page, page)` accepts and that can hold a `ListNode` -/
def PageOk (P : Nat) : Prop := ∃ p, 4 ≤ p ∧ P = 2 ^ p

theorem PageOk.ge16 {P : Nat} (h : PageOk P) : 16 ≤ P := by
  obtain ⟨p, hp, rfl⟩ := h
  have : 2 ^ 4 ≤ 2 ^ p := Nat.pow_le_pow_right (by omega) hp
  omega

theorem PageOk.dvd8 {P : Nat} (h : PageOk P) : 8 ∣ P := by
  obtain ⟨p, hp, rfl⟩ := h
  exact Nat.pow_dvd_pow 2 (show 3 ≤ p by omega)

/-- inside one of the first `n` pages of the oracle -/
def InPage (orc : Nat → Nat) (P n : Nat) (r : Region) : Prop :=
  ∃ i, i < n ∧ orc i ≤ r.addr ∧ r.stop ≤ orc i + P

/-- a region the allocator may keep: can hold a `ListNode`, aligned for it, inside an owned page -/
def Good (orc : Nat → Nat) (P n : Nat) (r : Region) : Prop :=
  16 ≤ r.size ∧ r.addr % 8 = 0 ∧ InPage orc P n r

theorem InPage.mono {orc P n m r} (h : InPage orc P n r) (hnm : n ≤ m) : InPage orc P m r := by
  obtain ⟨i, hi, h⟩ := h
  exact ⟨i, by omega, h⟩

theorem Good.mono {orc P n m r} (h : Good orc P n r) (hnm : n ≤ m) : Good orc P m r :=
  ⟨h.1, h.2.1, h.2.2.mono hnm⟩

theorem InPage.of_sub {orc P n r r'} (h : InPage orc P n r) (hs : Sub r' r) : InPage orc P n r' := by
  obtain ⟨i, hi, h1, h2⟩ := h
  exact ⟨i, hi, by unfold Sub at hs; omega, by unfold Sub at hs; omega⟩

structure Inv (orc : Nat → Nat) (P : Nat) (s : State) (L : List Live) : Prop where
  ps : s.pageSize = P
  pages : s.pages = (List.range s.pages.length).map orc
  free : ∀ r ∈ s.free, Good orc P s.pages.length r
  live : ∀ e ∈ L, Good orc P s.pages.length e.blk
  disj : (s.free ++ L.map Live.blk).Pairwise Disj
  acct : s.allocated = (L.map (fun e => e.blk.size)).sum

/-- the invariant while a region `r` is unlinked from the free list (between `find_region` and the
    end of `allocate`) -/
structure InvT (orc : Nat → Nat) (P : Nat) (s : State) (r : Region) (L : List Live) : Prop where
  ps : s.pageSize = P
  pages : s.pages = (List.range s.pages.length).map orc
  taken : Good orc P s.pages.length r
  free : ∀ r ∈ s.free, Good orc P s.pages.length r
  live : ∀ e ∈ L, Good orc P s.pages.length e.blk
  disj : (r :: (s.free ++ L.map Live.blk)).Pairwise Disj
  acct : s.allocated = (L.map (fun e => e.blk.size)).sum

/-! ### the free-list scan -/

theorem scan_spec {l : List Region} {size align : Nat} {rest : List Region} {r : Region} {st : Nat}
    (h : scan l size align = some (rest, r, st)) :
    ∃ pre post, l = pre ++ r :: post ∧ rest = pre ++ post ∧
      allocFromRegion r size align = some st ∧ ∀ x ∈ pre, allocFromRegion x size align = none := by
  induction l generalizing rest with
  | nil => simp [scan] at h
  | cons x xs ih =>
    simp only [scan] at h
    cases hx : allocFromRegion x size align with
    | some st' =>
      simp only [hx, Option.some.injEq, Prod.mk.injEq] at h
      obtain ⟨rfl, rfl, rfl⟩ := h
      exact ⟨[], xs, rfl, rfl, hx, by simp⟩
    | none =>
      simp only [hx] at h
      cases hs : scan xs size align with
      | none => simp [hs] at h
      | some t =>
        obtain ⟨rest', r', st'⟩ := t
        simp only [hs, Option.some.injEq, Prod.mk.injEq] at h
        obtain ⟨rfl, rfl, rfl⟩ := h
        obtain ⟨pre, post, h1, h2, h3, h4⟩ := ih hs
        refine ⟨x :: pre, post, by simp [h1], by simp [h2], h3, ?_⟩
        intro y hy
        rcases List.mem_cons.mp hy with rfl | hy
        · exact hx
        · exact h4 y hy

theorem scan_none {l : List Region} {size align : Nat} (h : scan l size align = none) :
    ∀ x ∈ l, allocFromRegion x size align = none := by
  induction l with
  | nil => simp
  | cons x xs ih =>
    simp only [scan] at h
    cases hx : allocFromRegion x size align with
    | some st' => simp [hx] at h
    | none =>
      simp only [hx] at h
      cases hs : scan xs size align with
      | some t => obtain ⟨a, b, c⟩ := t; simp [hs] at h
      | none =>
        intro y hy
        rcases List.mem_cons.mp hy with rfl | hy
        · exact hx
        · exact ih hs y hy

theorem scan_of_none_prefix {pre post : List Region} {r : Region} {size align st : Nat}
    (hpre : ∀ x ∈ pre, allocFromRegion x size align = none)
    (hr : allocFromRegion r size align = some st) :
    scan (pre ++ r :: post) size align = some (pre ++ post, r, st) := by
  induction pre with
  | nil => simp [scan, hr]
  | cons x xs ih =>
    have hx := hpre x (by simp)
    have := ih (fun y hy => hpre y (by simp [hy]))
    simp [scan, hx, this]

/-- what a successful fit test says -/
theorem allocFromRegion_some {r : Region} {size align st : Nat}
    (h : allocFromRegion r size align = some st) :
    st = alignUp r.addr align ∧ st + size ≤ r.stop ∧
      (r.stop - (st + size) = 0 ∨ 16 ≤ r.stop - (st + size)) := by
  unfold allocFromRegion at h
  have e16 : NODE_SIZE = 16 := rfl
  simp only at h
  by_cases h1 : alignUp r.addr align + size > r.stop
  · simp [h1] at h
  · rw [if_neg h1] at h
    by_cases h2 : r.stop - (alignUp r.addr align + size) > 0 ∧
        r.stop - (alignUp r.addr align + size) < NODE_SIZE
    · rw [if_pos h2] at h; simp at h
    · rw [if_neg h2] at h
      simp only [Option.some.injEq] at h
      subst h
      refine ⟨rfl, by omega, by omega⟩

theorem allocFromRegion_none_iff {r : Region} {size align : Nat} :
    allocFromRegion r size align = none ↔
      (alignUp r.addr align + size > r.stop ∨
        (0 < r.stop - (alignUp r.addr align + size) ∧ r.stop - (alignUp r.addr align + size) < 16)) := by
  unfold allocFromRegion
  have e16 : NODE_SIZE = 16 := rfl
  simp only
  by_cases h1 : alignUp r.addr align + size > r.stop
  · simp [h1]
  · rw [if_neg h1]
    by_cases h2 : r.stop - (alignUp r.addr align + size) > 0 ∧
        r.stop - (alignUp r.addr align + size) < NODE_SIZE
    · rw [if_pos h2]; simp only [true_iff]; omega
    · rw [if_neg h2]; simp only [reduceCtorEq, false_iff]; omega

/-! ### add_free_region / add_page -/

theorem addFreeRegion_ok (s : State) (addr size : Nat) (ha : addr % 8 = 0) (hs : 16 ≤ size) :
    addFreeRegion s addr size = .ok { s with free := ⟨addr, size⟩ :: s.free } := by
  unfold addFreeRegion
  have : alignUp addr NODE_ALIGN = addr := alignUp_of_mod addr 8 (by omega) ha
  have e16 : NODE_SIZE = 16 := rfl
  simp only [this, ne_eq, not_true_eq_false, if_false]
  rw [if_neg (by omega)]

theorem orc_mod8 {orc P} (ho : OracleOk orc P) (hp : PageOk P) (k : Nat) : orc k % 8 = 0 :=
  mod_of_dvd_mod hp.dvd8 (ho.aligned k)

theorem page_disj {orc P n} (ho : OracleOk orc P) {x : Region} (hx : InPage orc P n x) :
    Disj ⟨orc n, P⟩ x := by
  obtain ⟨i, hi, h1, h2⟩ := hx
  have := ho.disjoint i n (by omega)
  unfold Disj Region.stop at *
  simp only
  omega

theorem addPage_inv {orc P s L} (ho : OracleOk orc P) (hp : PageOk P) (h : Inv orc P s L) :
    ∃ s', addPage orc s = .ok s' ∧ Inv orc P s' L ∧
      s'.free = ⟨orc s.pages.length, P⟩ :: s.free ∧ s'.allocated = s.allocated ∧
      s'.pages = s.pages ++ [orc s.pages.length] := by
  refine ⟨{ s with pages := s.pages ++ [orc s.pages.length],
                   free := ⟨orc s.pages.length, P⟩ :: s.free }, ?_, ?_, rfl, rfl, rfl⟩
  · unfold addPage
    simp only
    rw [addFreeRegion_ok _ _ _ (orc_mod8 ho hp _) (by rw [h.ps]; exact hp.ge16), h.ps]
  · have hlen : (s.pages ++ [orc s.pages.length]).length = s.pages.length + 1 := by simp
    constructor
    · exact h.ps
    · simp only [hlen, List.range_succ, List.map_append, List.map_cons, List.map_nil]
      rw [← h.pages]
    · intro r hr
      simp only [hlen]
      rcases List.mem_cons.mp hr with rfl | hr
      · refine ⟨hp.ge16, orc_mod8 ho hp _, s.pages.length, by omega, Nat.le_refl _, ?_⟩
        simp [Region.stop]
      · exact (h.free r hr).mono (by omega)
    · intro e he
      simp only [hlen]
      exact (h.live e he).mono (by omega)
    · simp only [List.cons_append]
      rw [List.pairwise_cons]
      refine ⟨?_, h.disj⟩
      intro x hx
      apply page_disj ho
      rcases List.mem_append.mp hx with hx | hx
      · exact (h.free x hx).2.2
      · obtain ⟨e, he, rfl⟩ := List.mem_map.mp hx
        exact (h.live e he).2.2
    · exact h.acct

/-! ### find_region -/

theorem take_inv {orc P s L} (h : Inv orc P s L) {rest r st size align}
    (hs : scan s.free size align = some (rest, r, st)) :
    InvT orc P { s with free := rest } r L ∧ allocFromRegion r size align = some st := by
  obtain ⟨pre, post, h1, h2, h3, _⟩ := scan_spec hs
  refine ⟨⟨h.ps, h.pages, ?_, ?_, h.live, ?_, h.acct⟩, h3⟩
  · exact h.free r (by rw [h1]; simp)
  · intro x hx
    apply h.free x
    simp only [h2] at hx
    rw [h1]
    rcases List.mem_append.mp hx with hx | hx
    · simp [hx]
    · simp [hx]
  · have := h.disj
    rw [h1, List.append_assoc, List.cons_append] at this
    have := (List.pairwise_middle Disj.symm).mp this
    simpa [h2, List.append_assoc] using this

theorem findRegion_spec {orc P} (ho : OracleOk orc P) (hp : PageOk P) :
    ∀ fuel {s L size align s1 r st}, Inv orc P s L →
      findRegion orc fuel s size align = .ok (s1, r, st) →
      InvT orc P s1 r L ∧ allocFromRegion r size align = some st ∧ s1.allocated = s.allocated := by
  intro fuel
  induction fuel with
  | zero =>
    intro s L size align s1 r st h hf
    unfold findRegion at hf
    cases hs : scan s.free size align with
    | some t =>
      obtain ⟨rest, r', st'⟩ := t
      simp only [hs, Except.ok.injEq, Prod.mk.injEq] at hf
      obtain ⟨rfl, rfl, rfl⟩ := hf
      have := take_inv h hs
      exact ⟨this.1, this.2, rfl⟩
    | none => simp [hs] at hf
  | succ fuel ih =>
    intro s L size align s1 r st h hf
    unfold findRegion at hf
    cases hs : scan s.free size align with
    | some t =>
      obtain ⟨rest, r', st'⟩ := t
      simp only [hs, Except.ok.injEq, Prod.mk.injEq] at hf
      obtain ⟨rfl, rfl, rfl⟩ := hf
      have := take_inv h hs
      exact ⟨this.1, this.2, rfl⟩
    | none =>
      obtain ⟨s', hs', hinv, _, hal, _⟩ := addPage_inv ho hp h
      simp only [hs, hs'] at hf
      have := ih hinv hf
      exact ⟨this.1, this.2.1, by rw [this.2.2, hal]⟩

/-- `find_region` never fails an assertion; its only failure is running out of fuel -/
theorem findRegion_err {orc P} (ho : OracleOk orc P) (hp : PageOk P) :
    ∀ fuel {s L size align e}, Inv orc P s L →
      findRegion orc fuel s size align = .error e → e = .diverge := by
  intro fuel
  induction fuel with
  | zero =>
    intro s L size align e h hf
    unfold findRegion at hf
    cases hs : scan s.free size align with
    | some t => obtain ⟨a, b, c⟩ := t; simp [hs] at hf
    | none => simp only [hs] at hf; injection hf with hf; exact hf.symm
  | succ fuel ih =>
    intro s L size align e h hf
    unfold findRegion at hf
    cases hs : scan s.free size align with
    | some t => obtain ⟨a, b, c⟩ := t; simp [hs] at hf
    | none =>
      obtain ⟨s', hs', hinv, _⟩ := addPage_inv ho hp h
      simp only [hs, hs'] at hf
      exact ih hinv hf

end Alloc

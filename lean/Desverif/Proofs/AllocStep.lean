/-
`allocate` / `deallocate` preserve the allocator invariant; what a successful allocation returns.
-/
import Desverif.Proofs.AllocInv
namespace Alloc

theorem disj_of_taken {orc P s r L} (hT : InvT orc P s r L) {B : Region} (hB : Sub B r) :
    ∀ x ∈ s.free ++ L.map Live.blk, Disj B x := by
  intro x hx
  have := (List.pairwise_cons.mp hT.disj).1 x hx
  exact (Disj.of_sub this.symm hB).symm

/-- closing an allocation that abandons (or has no) tail -/
theorem inv_close_noTail {orc P s r L} (hT : InvT orc P s r L) (e : Live)
    (hsub : Sub e.blk r) (h16 : 16 ≤ e.blk.size) (h8 : e.blk.addr % 8 = 0) :
    Inv orc P { s with allocated := s.allocated + e.blk.size } (e :: L) := by
  refine ⟨hT.ps, hT.pages, hT.free, ?_, ?_, ?_⟩
  · intro x hx
    rcases List.mem_cons.mp hx with rfl | hx
    · exact ⟨h16, h8, hT.taken.2.2.of_sub hsub⟩
    · exact hT.live x hx
  · simp only [List.map_cons]
    rw [List.pairwise_middle Disj.symm, List.pairwise_cons]
    exact ⟨disj_of_taken hT hsub, (List.pairwise_cons.mp hT.disj).2⟩
  · simp only [List.map_cons, List.sum_cons]
    rw [hT.acct]; omega

/-- closing an allocation that returns the tail `T` to the front of the free list -/
theorem inv_close_tail {orc P s r L} (hT : InvT orc P s r L) (e : Live) (T : Region)
    (hsub : Sub e.blk r) (h16 : 16 ≤ e.blk.size) (h8 : e.blk.addr % 8 = 0)
    (hTsub : Sub T r) (hT16 : 16 ≤ T.size) (hT8 : T.addr % 8 = 0) (hd : Disj T e.blk) :
    Inv orc P { s with free := T :: s.free, allocated := s.allocated + e.blk.size } (e :: L) := by
  have base := inv_close_noTail hT e hsub h16 h8
  refine ⟨hT.ps, hT.pages, ?_, base.live, ?_, base.acct⟩
  · intro x hx
    rcases List.mem_cons.mp hx with rfl | hx
    · exact ⟨hT16, hT8, hT.taken.2.2.of_sub hTsub⟩
    · exact hT.free x hx
  · simp only [List.cons_append]
    rw [List.pairwise_cons]
    refine ⟨?_, base.disj⟩
    intro x hx
    simp only [List.map_cons] at hx
    rcases List.mem_append.mp hx with hx | hx
    · exact disj_of_taken hT hTsub x (List.mem_append_left _ hx)
    · rcases List.mem_cons.mp hx with rfl | hx
      · exact hd
      · exact disj_of_taken hT hTsub x (List.mem_append_right _ hx)

/-- facts about the block a successful `allocate` hands out, beyond the invariant -/
structure Fresh (orc : Nat → Nat) (P : Nat) (s s' : State) (L : List Live) (e : Live) : Prop where
  inv : Inv orc P s' (e :: L)
  aligned : e.addr % (sizeAlign e.lsize e.lalign).2 = 0
  pagesGrow : s.pages.length ≤ s'.pages.length
  acct : s'.allocated = s.allocated + e.blk.size

theorem allocate_some {orc P s L lsize k s' a} (ho : OracleOk orc P) (hp : PageOk P)
    (h : Inv orc P s L) (ha : allocate orc s lsize (2 ^ k) = .ok (s', some a)) (key : Nat) :
    Fresh orc P s s' L ⟨key, a, lsize, 2 ^ k⟩ := by
  have hn := sizeAlign_ok lsize k
  have e16 : NODE_SIZE = 16 := rfl
  unfold allocate at ha
  generalize hsa : sizeAlign lsize (2 ^ k) = sa at ha hn
  obtain ⟨size, align⟩ := sa
  simp only at ha hn
  by_cases hbig : size > s.pageSize
  · simp [hbig] at ha
  · rw [if_neg hbig] at ha
    cases hf : findRegion orc FUEL s size align with
    | error e => simp [hf] at ha
    | ok t =>
      obtain ⟨s1, r, st⟩ := t
      simp only [hf] at ha
      obtain ⟨hT, hfit, hal⟩ := findRegion_spec ho hp FUEL h hf
      obtain ⟨hst, hend, hex⟩ := allocFromRegion_some hfit
      have hstal : st % align = 0 := by rw [hst]; exact alignUp_mod _ _
      have hst8 : st % 8 = 0 := mod_of_dvd_mod hn.align8 hstal
      have hge : r.addr ≤ st := by rw [hst]; exact alignUp_ge _ _ hn.alignPos
      have hblk : (Live.blk ⟨key, st, lsize, 2 ^ k⟩) = ⟨st, size⟩ := by
        simp [Live.blk, hsa]
      have hsub : Sub (Live.blk ⟨key, st, lsize, 2 ^ k⟩) r := by
        rw [hblk]; simp only [Sub, Region.stop] at *; omega
      have hpg : s.pages.length ≤ s1.pages.length := by
        -- find_region only ever appends pages
        have : ∀ fuel (s s1 : State) r st, findRegion orc fuel s size align = .ok (s1, r, st) →
            s.pages.length ≤ s1.pages.length := by
          intro fuel
          induction fuel with
          | zero =>
            intro s s1 r st hf
            unfold findRegion at hf
            cases hs : scan s.free size align with
            | some t => obtain ⟨x, y, z⟩ := t; simp [hs] at hf; rw [← hf.1]; exact Nat.le_refl _
            | none => simp [hs] at hf
          | succ fuel ih =>
            intro s s1 r st hf
            unfold findRegion at hf
            cases hs : scan s.free size align with
            | some t => obtain ⟨x, y, z⟩ := t; simp [hs] at hf; rw [← hf.1]; exact Nat.le_refl _
            | none =>
              simp only [hs] at hf
              cases hap : addPage orc s with
              | error e => simp [hap] at hf
              | ok s2 =>
                simp only [hap] at hf
                have h1 := ih _ _ _ _ hf
                have h2 : s2.pages.length = s.pages.length + 1 := by
                  unfold addPage addFreeRegion at hap
                  simp only at hap
                  split at hap
                  · simp at hap
                  · split at hap
                    · simp at hap
                    · simp only [Except.ok.injEq] at hap; rw [← hap]; simp
                omega
        exact this _ _ _ _ _ hf
      by_cases hex0 : r.stop - (st + size) > 0
      · rw [if_pos hex0] at ha
        by_cases hsmall : r.stop - (st + size) < size
        · rw [if_pos hsmall] at ha
          simp only [Except.ok.injEq, Prod.mk.injEq, Option.some.injEq] at ha
          obtain ⟨rfl, rfl⟩ := ha
          have := inv_close_noTail hT ⟨key, st, lsize, 2 ^ k⟩ hsub (by rw [hblk]; exact hn.size16)
            (by rw [hblk]; exact hst8)
          rw [hblk] at this
          refine ⟨this, ?_, hpg, ?_⟩
          · simp only [hsa]; exact hstal
          · simp only [hblk]; rw [hal]
        · rw [if_neg hsmall] at ha
          have hex16 : 16 ≤ r.stop - (st + size) := by omega
          have hs8 := hn.size8
          rw [addFreeRegion_ok s1 (st + size) _ (by omega) hex16] at ha
          simp only [Except.ok.injEq, Prod.mk.injEq, Option.some.injEq] at ha
          obtain ⟨rfl, rfl⟩ := ha
          have := inv_close_tail hT ⟨key, st, lsize, 2 ^ k⟩ ⟨st + size, r.stop - (st + size)⟩ hsub
            (by rw [hblk]; exact hn.size16) (by rw [hblk]; exact hst8)
            (by simp only [Sub, Region.stop] at *; omega) hex16 (by simp only; omega)
            (by rw [hblk]; simp only [Disj, Region.stop]; omega)
          rw [hblk] at this
          refine ⟨this, ?_, hpg, ?_⟩
          · simp only [hsa]; exact hstal
          · simp only [hblk]; rw [hal]
      · rw [if_neg hex0] at ha
        simp only [Except.ok.injEq, Prod.mk.injEq, Option.some.injEq] at ha
        obtain ⟨rfl, rfl⟩ := ha
        have := inv_close_noTail hT ⟨key, st, lsize, 2 ^ k⟩ hsub (by rw [hblk]; exact hn.size16)
          (by rw [hblk]; exact hst8)
        rw [hblk] at this
        refine ⟨this, ?_, hpg, ?_⟩
        · simp only [hsa]; exact hstal
        · simp only [hblk]; rw [hal]

/-- `Err(())`: the request is larger than a page; nothing changes -/
theorem allocate_none {orc s lsize lalign s'} (ha : allocate orc s lsize lalign = .ok (s', none)) :
    s' = s ∧ (sizeAlign lsize lalign).1 > s.pageSize := by
  unfold allocate at ha
  generalize sizeAlign lsize lalign = sa at ha
  obtain ⟨size, align⟩ := sa
  simp only at ha
  by_cases hbig : size > s.pageSize
  · simp only [hbig, if_true, Except.ok.injEq, Prod.mk.injEq, and_true] at ha
    exact ⟨ha.symm, hbig⟩
  · rw [if_neg hbig] at ha
    cases hf : findRegion orc FUEL s size align with
    | error e => simp [hf] at ha
    | ok t =>
      obtain ⟨s1, r, st⟩ := t
      simp only [hf] at ha
      split at ha
      · simp at ha
      · simp at ha

/-- the only error `allocate` can produce from a consistent state is divergence of `find_region` -/
theorem allocate_err {orc P s L lsize k e} (ho : OracleOk orc P) (hp : PageOk P)
    (h : Inv orc P s L) (ha : allocate orc s lsize (2 ^ k) = .error e) : e = .diverge := by
  have hn := sizeAlign_ok lsize k
  have e16 : NODE_SIZE = 16 := rfl
  unfold allocate at ha
  generalize sizeAlign lsize (2 ^ k) = sa at ha hn
  obtain ⟨size, align⟩ := sa
  simp only at ha hn
  by_cases hbig : size > s.pageSize
  · simp [hbig] at ha
  · rw [if_neg hbig] at ha
    cases hf : findRegion orc FUEL s size align with
    | error e' =>
      simp only [hf] at ha
      injection ha with ha
      rw [← ha]; exact findRegion_err ho hp FUEL h hf
    | ok t =>
      obtain ⟨s1, r, st⟩ := t
      simp only [hf] at ha
      obtain ⟨hT, hfit, hal⟩ := findRegion_spec ho hp FUEL h hf
      obtain ⟨hst, hend, hex⟩ := allocFromRegion_some hfit
      have hstal : st % align = 0 := by rw [hst]; exact alignUp_mod _ _
      have hst8 : st % 8 = 0 := mod_of_dvd_mod hn.align8 hstal
      have hs8 := hn.size8
      have h16 := hn.size16
      by_cases hex0 : r.stop - (st + size) > 0
      · rw [if_pos hex0] at ha
        by_cases hsmall : r.stop - (st + size) < size
        · rw [if_pos hsmall] at ha; simp at ha
        · rw [if_neg hsmall] at ha
          rw [addFreeRegion_ok s1 (st + size) _ (by omega) (by omega)] at ha
          simp at ha
      · rw [if_neg hex0] at ha; simp at ha

/-- `allocate` reports divergence only when `find_region` does -/
theorem allocate_diverge_inv {orc s lsize lalign}
    (h : allocate orc s lsize lalign = .error .diverge) :
    findRegion orc FUEL s (sizeAlign lsize lalign).1 (sizeAlign lsize lalign).2 = .error .diverge := by
  unfold allocate at h
  generalize sizeAlign lsize lalign = sa at h ⊢
  obtain ⟨size, align⟩ := sa
  simp only at h ⊢
  by_cases hbig : size > s.pageSize
  · simp [hbig] at h
  · rw [if_neg hbig] at h
    cases hf : findRegion orc FUEL s size align with
    | error e =>
      simp only [hf] at h
      injection h with h
      rw [h]
    | ok t =>
      obtain ⟨s1, r, st⟩ := t
      simp only [hf] at h
      by_cases hex0 : r.stop - (st + size) > 0
      · rw [if_pos hex0] at h
        by_cases hsmall : r.stop - (st + size) < size
        · rw [if_pos hsmall] at h; simp at h
        · rw [if_neg hsmall] at h
          unfold addFreeRegion at h
          by_cases c1 : alignUp (st + size) NODE_ALIGN ≠ st + size
          · rw [if_pos c1] at h; simp at h
          · rw [if_neg c1] at h
            by_cases c2 : r.stop - (st + size) < NODE_SIZE
            · rw [if_pos c2] at h; simp at h
            · rw [if_neg c2] at h; simp at h
      · rw [if_neg hex0] at h; simp at h

theorem sum_erase {L : List Live} {e : Live} (he : e ∈ L) :
    (L.map (fun e => e.blk.size)).sum = e.blk.size + ((L.erase e).map (fun e => e.blk.size)).sum := by
  have := ((List.perm_cons_erase he).map (fun e => e.blk.size)).sum_nat
  simpa using this

theorem deallocate_live {orc P s L e} (h : Inv orc P s L) (he : e ∈ L) :
    ∃ s', deallocate s e.addr e.lsize e.lalign = .ok s' ∧ Inv orc P s' (L.erase e) ∧
      s'.free = e.blk :: s.free ∧ s'.allocated + e.blk.size = s.allocated ∧ s'.pages = s.pages := by
  have hg := h.live e he
  have hsum := sum_erase he
  have hacct := h.acct
  refine ⟨{ s with allocated := s.allocated - e.blk.size, free := e.blk :: s.free }, ?_, ?_, rfl,
    ?_, rfl⟩
  · unfold deallocate
    simp only
    have : ¬ s.allocated < (sizeAlign e.lsize e.lalign).1 := by
      simp only [Live.blk] at hsum hacct; omega
    rw [if_neg this]
    have h2 := addFreeRegion_ok { s with allocated := s.allocated - (sizeAlign e.lsize e.lalign).1 }
      e.addr (sizeAlign e.lsize e.lalign).1 hg.2.1 hg.1
    rw [h2]; rfl
  · refine ⟨h.ps, h.pages, ?_, ?_, ?_, ?_⟩
    · intro x hx
      rcases List.mem_cons.mp hx with rfl | hx
      · exact hg
      · exact h.free x hx
    · intro x hx
      exact h.live x ((List.erase_sublist).subset hx)
    · have hperm : (s.free ++ L.map Live.blk).Perm
          (e.blk :: s.free ++ (L.erase e).map Live.blk) := by
        have h1 := (List.perm_cons_erase he).map Live.blk
        simp only [List.map_cons] at h1
        have h2 := (List.Perm.append_left s.free h1)
        exact h2.trans List.perm_middle
      exact (hperm.pairwise_iff Disj.symm).mp h.disj
    · simp only; omega
  · simp only; omega

end Alloc

/-
Parent pointers and children maps built by `ModuleContext::standalone` / `child_of` inside
`SimBuilder::raw` (model `ModTree.raw`): an invariant `LInv` that ties them to the declared tree,
kept by every accepted `node` call, and what `ModuleContext::parent` / `child` answer under it.
-/
import Desverif.Proofs.ModTreeBuilder
namespace ModTree
open ObjPath PreSpec

/-! ### generic list facts -/

theorem eq_of_map_eq {β γ : Type} (f : β → γ) : ∀ (l : List β), (l.map f).Nodup →
    ∀ a ∈ l, ∀ b ∈ l, f a = f b → a = b := by
  intro l
  induction l with
  | nil => intro _ a ha; simp at ha
  | cons x xs ih =>
    intro hnd a ha b hb e
    simp only [List.map_cons, List.nodup_cons] at hnd
    simp only [List.mem_cons] at ha hb
    rcases ha with rfl | ha <;> rcases hb with rfl | hb
    · rfl
    · exact absurd (List.mem_map.mpr ⟨b, hb, e.symm⟩) hnd.1
    · exact absurd (List.mem_map.mpr ⟨a, ha, e⟩) hnd.1
    · exact ih hnd.2 a ha b hb e

theorem allValid_of_par {s q : List (List Nat)} (hs : AllValid s) (hq : par s = some q) : AllValid q := by
  intro n hn
  rw [(par_some hq).1] at hn
  exact hs n (List.dropLast_subset _ hn)

/-! ### consequences of `BInv` -/

section binv
variable {D : List SDecl} {b : Builder}

theorem binv_mem_decl (hv : Valid D) (hb : BInv D b) {m : Mod} (hm : m ∈ b.mods) :
    ∃ d ∈ D, m.path = reprOf d.segs ∧ m.stages = d.stages := by
  obtain ⟨d, hd, e⟩ := mem_of_map_view hb hm
  exact ⟨d, (preorder_perm D hv).mem_iff.mp hd, congrArg Prod.fst e, congrArg Prod.snd e⟩

theorem binv_decl_mem (hv : Valid D) (hb : BInv D b) {d : SDecl} (hd : d ∈ D) :
    ∃ m ∈ b.mods, m.path = reprOf d.segs ∧ m.stages = d.stages := by
  have hd' : d ∈ preorder D := (preorder_perm D hv).mem_iff.mpr hd
  have : dview d ∈ b.mods.map view := by rw [hb]; exact List.mem_map.mpr ⟨d, hd', rfl⟩
  obtain ⟨m, hm, hmv⟩ := List.mem_map.mp this
  exact ⟨m, hm, congrArg Prod.fst hmv, congrArg Prod.snd hmv⟩

theorem binv_paths_nodup (hv : Valid D) (hn : NamesValid D) (hb : BInv D b) :
    (b.mods.map (·.path)).Nodup := by
  have h1 : b.mods.map (·.path) = (preorder D).map (fun d => reprOf d.segs) := by
    have := congrArg (List.map Prod.fst) hb
    simpa [List.map_map, Function.comp_def, view, dview] using this
  rw [h1]
  have hnd : ((preorder D).map (·.segs)).Nodup :=
    (List.Perm.nodup_iff ((preorder_perm D hv).map _)).mpr (valid_good D hv).nodup
  have hval : ∀ d ∈ preorder D, AllValid d.segs :=
    fun d hd => hn d ((preorder_perm D hv).mem_iff.mp hd)
  generalize preorder D = L at hnd hval
  induction L with
  | nil => simp
  | cons d L ih =>
    simp only [List.map_cons, List.nodup_cons] at hnd ⊢
    refine ⟨?_, ih hnd.2 (fun x hx => hval x (by simp [hx]))⟩
    intro hmem
    obtain ⟨d', hd', e⟩ := List.mem_map.mp hmem
    have := reprOf_injective _ _ (hval d' (by simp [hd'])) (hval d (by simp)) e
    exact hnd.1 (List.mem_map.mpr ⟨d', hd', this⟩)

theorem binv_path_unique (hv : Valid D) (hn : NamesValid D) (hb : BInv D b) {m m' : Mod}
    (hm : m ∈ b.mods) (hm' : m' ∈ b.mods) (e : m.path = m'.path) : m = m' :=
  eq_of_map_eq (·.path) b.mods (binv_paths_nodup hv hn hb) m hm m' hm' e

end binv

/-! ### what an accepted `node` call does to the builder -/

theorem node_accept_shape (D : List SDecl) (p : SDecl) (b : Builder)
    (hnames : NamesValid (D ++ [p])) (hv : Valid (D ++ [p])) (hb : BInv D b) :
    ∃ X Y m kids', b.mods = X ++ Y ∧
      node b (render p.segs) p.stages = (⟨X ++ m :: Y, kids', b.nextId + 1⟩, none) ∧
      m.id = b.nextId ∧ m.path = reprOf p.segs ∧ m.stages = p.stages ∧
      BInv (D ++ [p]) ⟨X ++ m :: Y, kids', b.nextId + 1⟩ ∧
      ((par p.segs = none ∧ m.parent = none ∧ kids' = b.kids) ∨
       (∃ q n pm, par p.segs = some q ∧ p.segs = q ++ [n] ∧ pm ∈ b.mods ∧ pm.path = reprOf q ∧
          m.parent = some pm.id ∧ kids' = kidsInsert b.kids pm.id n b.nextId)) := by
  obtain ⟨hvD, hnew, hparent⟩ := (valid_snoc D p).mp hv
  have hnD : NamesValid D := fun d hd => hnames d (by simp [hd])
  have hpv : AllValid p.segs := hnames p (by simp)
  have hget := get_none_of_new D b hvD hnD hb p.segs hpv hnew
  unfold node raw
  rw [fromStr_render p.segs hpv, hget, nonzeroParent_reprOf p.segs hpv]
  simp only [Option.isSome_none, Bool.false_eq_true, if_false]
  by_cases hlen : p.segs.length ≤ 1
  · simp only [hlen, if_true]
    obtain ⟨ms', hadd, hsim, X, Y, hXY, hms'⟩ := add_preorder_step D p b.mods
      ⟨b.nextId, reprOf p.segs, p.stages, none⟩ hnames hv hb rfl
    simp only [hadd]
    subst hms'
    refine ⟨X, Y, _, b.kids, hXY, rfl, rfl, rfl, rfl, hsim, Or.inl ⟨?_, rfl, rfl⟩⟩
    simp [par, hlen]
  · simp only [hlen, if_false]
    have hq : par p.segs = some p.segs.dropLast := by simp [par, hlen]
    obtain ⟨pm, hpm, hpmp⟩ := get_some_of_old D b hvD hb _ (hparent _ hq)
    have hpmm : pm ∈ b.mods := List.mem_of_find?_eq_some hpm
    have hne : p.segs ≠ [] := by intro e; rw [e] at hlen; simp at hlen
    have hsn : p.segs = p.segs.dropLast ++ [p.segs.getLast hne] :=
      (List.dropLast_concat_getLast hne).symm
    have hnv : ValidName (p.segs.getLast hne) := hpv _ (List.getLast_mem hne)
    have hname : name (reprOf p.segs) = .ok (p.segs.getLast hne) := by
      conv => lhs; rw [hsn]
      exact name_reprOf_snoc _ _ hnv
    have happ : appended pm.path (p.segs.getLast hne) = .ok (reprOf p.segs) := by
      rw [hpmp]
      conv => rhs; rw [hsn]
      exact appended_reprOf _ _ hnv.1
    simp only [hpm, hname, happ]
    obtain ⟨ms', hadd, hsim, X, Y, hXY, hms'⟩ := add_preorder_step D p b.mods
      ⟨b.nextId, reprOf p.segs, p.stages, some pm.id⟩ hnames hv hb rfl
    simp only [hadd]
    subst hms'
    exact ⟨X, Y, _, _, hXY, rfl, rfl, rfl, rfl, hsim,
      Or.inr ⟨_, _, pm, hq, hsn, hpmm, hpmp, rfl, rfl⟩⟩

/-! ### the lookup invariant -/

/-- `(pid, nm, cid)` is the children-map entry the declared tree calls for: module `pid` sits at a
    declared path `s`, module `cid` at the declared path `s ++ [nm]` -/
def KidRel (D : List SDecl) (mods : List Mod) (t : Nat × List Nat × Nat) : Prop :=
  ∃ pm ∈ mods, ∃ cm ∈ mods, ∃ dc ∈ D, ∃ s, par dc.segs = some s ∧ dc.segs = s ++ [t.2.1] ∧
    pm.id = t.1 ∧ cm.id = t.2.2 ∧ pm.path = reprOf s ∧ cm.path = reprOf dc.segs

/-- parent pointer of `m` as the declared tree calls for -/
def ParOk (mods : List Mod) (m : Mod) (d : SDecl) : Prop :=
  (par d.segs = none ∧ m.parent = none) ∨
  (∃ q pm, par d.segs = some q ∧ pm ∈ mods ∧ pm.path = reprOf q ∧ m.parent = some pm.id)

structure LInv (D : List SDecl) (b : Builder) : Prop where
  binv : BInv D b
  idlt : ∀ m ∈ b.mods, m.id < b.nextId
  idnd : (b.mods.map (·.id)).Nodup
  parent : ∀ m ∈ b.mods, ∀ d ∈ D, m.path = reprOf d.segs → ParOk b.mods m d
  kids : ∀ t, t ∈ b.kids ↔ KidRel D b.mods t
  kidsnd : b.kids.Nodup

theorem linv_init : LInv [] {} :=
  ⟨by simp [BInv, preorder_nil], by simp, by simp, by simp, by
    intro t
    constructor
    · intro h; simp at h
    · rintro ⟨pm, hpm, _⟩; simp at hpm, by simp⟩

theorem linv_step (D : List SDecl) (p : SDecl) (b : Builder)
    (hnames : NamesValid (D ++ [p])) (hv : Valid (D ++ [p])) (hL : LInv D b) :
    ∃ b', node b (render p.segs) p.stages = (b', none) ∧ LInv (D ++ [p]) b' := by
  obtain ⟨hvD, hnew, _⟩ := (valid_snoc D p).mp hv
  have hnD : NamesValid D := fun d hd => hnames d (by simp [hd])
  have hpv : AllValid p.segs := hnames p (by simp)
  have good := valid_good D hvD
  have hb := hL.binv
  obtain ⟨X, Y, m, kids', hXY, hnode, hmid, hmpath, hmst, hb', hcase⟩ :=
    node_accept_shape D p b hnames hv hb
  refine ⟨_, hnode, ?_⟩
  -- membership in the new vector
  have hmem : ∀ x, x ∈ X ++ m :: Y ↔ x = m ∨ x ∈ b.mods := by
    intro x; rw [hXY]; simp only [List.mem_append, List.mem_cons]
    constructor
    · rintro (h | h | h)
      · exact Or.inr (Or.inl h)
      · exact Or.inl h
      · exact Or.inr (Or.inr h)
    · rintro (h | h | h)
      · exact Or.inr (Or.inl h)
      · exact Or.inl h
      · exact Or.inr (Or.inr h)
  have hsub : ∀ x, x ∈ b.mods → x ∈ X ++ m :: Y := fun x hx => (hmem x).mpr (Or.inr hx)
  -- an old module never sits at the new path, the new module never at an old path
  have hold_ne : ∀ x ∈ b.mods, x.path ≠ reprOf p.segs := by
    intro x hx e
    obtain ⟨d, hd, hxd, _⟩ := binv_mem_decl hvD hb hx
    rw [hxd] at e
    have := reprOf_injective _ _ (hnD d hd) hpv e
    exact hnew (List.mem_map.mpr ⟨d, hd, this⟩)
  have hnew_ne : ∀ d ∈ D, reprOf p.segs ≠ reprOf d.segs := by
    intro d hd e
    have := reprOf_injective _ _ hpv (hnD d hd) e
    exact hnew (List.mem_map.mpr ⟨d, hd, this.symm⟩)
  -- facts about the two cases
  have hKnew : ∀ t, KidRel (D ++ [p]) (X ++ m :: Y) t →
      KidRel D b.mods t ∨
        ∃ q n pm, par p.segs = some q ∧ p.segs = q ++ [n] ∧ pm ∈ b.mods ∧ pm.path = reprOf q ∧
          t = (pm.id, n, m.id) := by
    rintro ⟨pid, nm, cid⟩ ⟨pm', hpm', cm', hcm', dc, hdc, s, hpar, hsegs, hpid, hcid, hpp, hcp⟩
    simp only at hsegs hpid hcid
    rcases List.mem_append.mp hdc with hdcD | hdcp
    · -- an old declaration: both modules are old
      left
      have hcm_old : cm' ∈ b.mods := by
        rcases (hmem cm').mp hcm' with rfl | h
        · exact absurd (hmpath.symm.trans hcp) (hnew_ne dc hdcD)
        · exact h
      have hsD : s ∈ D.map (·.segs) := good.closed dc hdcD s hpar
      have hpm_old : pm' ∈ b.mods := by
        rcases (hmem pm').mp hpm' with rfl | h
        · obtain ⟨ds, hds, e⟩ := List.mem_map.mp hsD
          rw [← e] at hpp
          exact absurd (hmpath.symm.trans hpp) (hnew_ne ds hds)
        · exact h
      exact ⟨pm', hpm_old, cm', hcm_old, dc, hdcD, s, hpar, hsegs, hpid, hcid, hpp, hcp⟩
    · -- the new declaration: the child is the new module, the parent the module found by `get`
      simp only [List.mem_singleton] at hdcp
      subst hdcp
      right
      have hcm_new : cm' = m := by
        rcases (hmem cm').mp hcm' with h | h
        · exact h
        · exact absurd hcp (hold_ne cm' h)
      rcases hcase with ⟨hnone, _, _⟩ | ⟨q, n, pm, hq, hsn, hpmm, hpmp, _, _⟩
      · rw [hnone] at hpar; cases hpar
      · have hsq : s = q := by rw [hq] at hpar; injection hpar with h; exact h.symm
        subst hsq
        have hnn : nm = n := by
          have := hsegs.symm.trans hsn
          exact List.singleton_inj.mp (List.append_cancel_left this)
        subst hnn
        have hsv : AllValid s := allValid_of_par hpv hq
        have hpm_old : pm' ∈ b.mods := by
          rcases (hmem pm').mp hpm' with rfl | h
          · have := reprOf_injective _ _ hpv hsv (hmpath.symm.trans hpp)
            have hl := (par_some hq).2.2
            rw [this] at hl
            omega
          · exact h
        have : pm' = pm := binv_path_unique hvD hnD hb hpm_old hpmm (hpp.trans hpmp.symm)
        subst this
        refine ⟨s, nm, pm', hq, hsn, hpmm, hpmp, ?_⟩
        rw [← hpid, ← hcid, hcm_new]
  have hKmono : ∀ t, KidRel D b.mods t → KidRel (D ++ [p]) (X ++ m :: Y) t := by
    rintro t ⟨pm', hpm', cm', hcm', dc, hdc, rest⟩
    exact ⟨pm', hsub _ hpm', cm', hsub _ hcm', dc, by simp [hdc], rest⟩
  constructor
  · exact hb'
  · intro x hx
    rcases (hmem x).mp hx with rfl | h
    · simp only [hmid]; omega
    · have := hL.idlt x h
      simp only
      omega
  · have hperm : (X ++ m :: Y).Perm (m :: (X ++ Y)) := List.perm_middle
    rw [List.Perm.nodup_iff (hperm.map _), List.map_cons, List.nodup_cons, ← hXY]
    refine ⟨?_, hL.idnd⟩
    intro hmem'
    obtain ⟨x, hx, e⟩ := List.mem_map.mp hmem'
    have := hL.idlt x hx
    rw [e, hmid] at this
    omega
  · intro x hx d hd hxd
    simp only at hx
    have hmonoP : ∀ x d, ParOk b.mods x d → ParOk (X ++ m :: Y) x d := by
      rintro x d (h | ⟨q, pm, h1, h2, h3, h4⟩)
      · exact Or.inl h
      · exact Or.inr ⟨q, pm, h1, hsub _ h2, h3, h4⟩
    rcases (hmem x).mp hx with rfl | hxold
    · -- the new module
      have hdp : d = p := by
        rcases List.mem_append.mp hd with hdD | hdp
        · exact absurd (hmpath.symm.trans hxd) (hnew_ne d hdD)
        · simpa using hdp
      subst hdp
      rcases hcase with ⟨hnone, hpn, _⟩ | ⟨q, n, pm, hq, _, hpmm, hpmp, hpp, _⟩
      · exact Or.inl ⟨hnone, hpn⟩
      · exact Or.inr ⟨q, pm, hq, hsub _ hpmm, hpmp, hpp⟩
    · have hdD : d ∈ D := by
        rcases List.mem_append.mp hd with hdD | hdp
        · exact hdD
        · simp only [List.mem_singleton] at hdp
          subst hdp
          exact absurd hxd (hold_ne x hxold)
      exact hmonoP x d (hL.parent x hxold d hdD hxd)
  · intro t
    simp only
    rcases hcase with ⟨hnone, _, hk⟩ | ⟨q, n, pm, hq, hsn, hpmm, hpmp, hpp, hk⟩
    · subst hk
      constructor
      · intro ht; exact hKmono t ((hL.kids t).mp ht)
      · intro hK
        rcases hKnew t hK with h | ⟨q, _, _, hq, _⟩
        · exact (hL.kids t).mpr h
        · rw [hnone] at hq; cases hq
    · subst hk
      have hsv : AllValid q := allValid_of_par hpv hq
      constructor
      · intro ht
        simp only [kidsInsert, List.mem_cons, List.mem_filter] at ht
        rcases ht with rfl | ⟨ht, _⟩
        · exact ⟨pm, hsub _ hpmm, m, (hmem m).mpr (Or.inl rfl), p, by simp, q, hq, hsn, rfl,
            hmid, hpmp, hmpath⟩
        · exact hKmono t ((hL.kids t).mp ht)
      · intro hK
        simp only [kidsInsert, List.mem_cons, List.mem_filter]
        rcases hKnew t hK with h | ⟨q', n', pm', hq', hsn', hpmm', hpmp', ht⟩
        · right
          refine ⟨(hL.kids t).mpr h, ?_⟩
          -- an old entry never has the key of the new one
          obtain ⟨pm0, hpm0, cm0, hcm0, dc, hdc, s, hpar, hsegs, hpid, hcid, hpp0, hcp0⟩ := h
          simp only [Bool.not_eq_true', Bool.and_eq_false_iff, beq_eq_false_iff_ne, ne_eq]
          by_cases hk1 : t.1 = pm.id
          · right
            intro hk2
            have hpm0eq : pm0 = pm :=
              eq_of_map_eq (·.id) b.mods hL.idnd pm0 hpm0 pm hpmm (hpid.trans hk1)
            subst hpm0eq
            have hsq : s = q :=
              reprOf_injective _ _ (allValid_of_par (hnD dc hdc) hpar) hsv (hpp0.symm.trans hpmp)
            apply hnew
            refine List.mem_map.mpr ⟨dc, hdc, ?_⟩
            rw [hsegs, hsn, hsq, hk2]
          · exact Or.inl hk1
        · left
          have hqq : q' = q := by rw [hq] at hq'; injection hq' with h; exact h.symm
          subst hqq
          have hnn : n' = n := List.singleton_inj.mp (List.append_cancel_left (hsn'.symm.trans hsn))
          subst hnn
          have : pm' = pm := binv_path_unique hvD hnD hb hpmm' hpmm (hpmp'.trans hpmp.symm)
          subst this
          rw [ht, hmid]
  · simp only
    rcases hcase with ⟨_, _, hk⟩ | ⟨q, n, pm, _, _, _, _, _, hk⟩
    · rw [hk]; exact hL.kidsnd
    · rw [hk]
      simp only [kidsInsert, List.nodup_cons]
      refine ⟨?_, List.Pairwise.filter _ hL.kidsnd⟩
      intro hmem'
      have hin : (pm.id, n, b.nextId) ∈ b.kids := (List.mem_filter.mp hmem').1
      obtain ⟨_, _, cm, hcm, _, _, _, _, _, _, hcid, _, _⟩ := (hL.kids _).mp hin
      have := hL.idlt cm hcm
      simp only at hcid
      omega

/-- the lookup invariant holds for the simulation built from any valid declaration sequence -/
theorem buildAll_linv : ∀ D : List SDecl, Valid D → NamesValid D → LInv D (buildAll D).1 := by
  intro D
  induction D using PreSpec.snoc_induction with
  | nil => intro _ _; exact linv_init
  | snoc l p ih =>
    intro hv hn
    obtain ⟨hvl, _, _⟩ := (valid_snoc l p).mp hv
    have hL := ih hvl (fun d hd => hn d (by simp [hd]))
    obtain ⟨b', hnode, hL'⟩ := linv_step l p (buildAll l).1 hn hv hL
    have : buildAll (l ++ [p]) = buildStep (buildAll l) p := by
      simp [buildAll, List.foldl_append]
    rw [this]
    simp only [buildStep, hnode]
    exact hL'

/-! ### `ModuleContext::parent` / `child` under the invariant -/

theorem byId_of_mem {b : Builder} (hnd : (b.mods.map (·.id)).Nodup) {m : Mod} (hm : m ∈ b.mods) :
    byId b m.id = some m := by
  unfold byId
  cases hf : b.mods.find? (fun x => x.id == m.id) with
  | none =>
    have := List.find?_eq_none.mp hf m hm
    simp at this
  | some x =>
    have hx : x ∈ b.mods := List.mem_of_find?_eq_some hf
    have hid : x.id = m.id := by simpa using List.find?_some hf
    rw [eq_of_map_eq (·.id) b.mods hnd x hx m hm hid]

/-- `parent()`: the module at the declared parent path; `none` for modules without a parent module -/
theorem lookupParent_spec (D : List SDecl) (b : Builder) (hv : Valid D) (hL : LInv D b)
    (m : Mod) (hm : m ∈ b.mods) (d : SDecl) (hd : d ∈ D) (hmd : m.path = reprOf d.segs) :
    (par d.segs = none ∧ lookupParent b m = none) ∨
    (∃ q pm, par d.segs = some q ∧ lookupParent b m = some pm ∧ pm ∈ b.mods ∧ pm.path = reprOf q) := by
  have _ := hv
  rcases hL.parent m hm d hd hmd with ⟨h1, h2⟩ | ⟨q, pm, h1, h2, h3, h4⟩
  · exact Or.inl ⟨h1, by simp [lookupParent, h2]⟩
  · refine Or.inr ⟨q, pm, h1, ?_, h2, h3⟩
    simp [lookupParent, h4, byId_of_mem hL.idnd h2]

/-- `child(name)`: the declared child whose last segment is `name`, and an error for every other
    name (in particular for names that merely share a prefix with a child's name) -/
theorem lookupChild_spec (D : List SDecl) (b : Builder) (hv : Valid D) (hn : NamesValid D)
    (hL : LInv D b) (m : Mod) (hm : m ∈ b.mods) (d : SDecl) (hd : d ∈ D)
    (hmd : m.path = reprOf d.segs) (nm : List Nat) :
    (∃ dc ∈ kids D d.segs, dc.segs = d.segs ++ [nm] ∧
        ∃ cm ∈ b.mods, lookupChild b m nm = some cm ∧ cm.path = reprOf dc.segs ∧ cm.stages = dc.stages) ∨
    ((∀ dc ∈ D, dc.segs ≠ d.segs ++ [nm] ∨ par dc.segs ≠ some d.segs) ∧ lookupChild b m nm = none) := by
  have hb := hL.binv
  unfold lookupChild
  cases hf : b.kids.find? (fun k => k.1 == m.id && k.2.1 == nm) with
  | some k =>
    left
    have hk : k ∈ b.kids := List.mem_of_find?_eq_some hf
    have hkey := List.find?_some hf
    simp only [Bool.and_eq_true, beq_iff_eq] at hkey
    obtain ⟨pm, hpm, cm, hcm, dc, hdc, s, hpar, hsegs, hpid, hcid, hpp, hcp⟩ := (hL.kids k).mp hk
    have hpmm : pm = m := eq_of_map_eq (·.id) b.mods hL.idnd pm hpm m hm (hpid.trans hkey.1)
    subst hpmm
    have hsd : s = d.segs :=
      reprOf_injective _ _ (allValid_of_par (hn dc hdc) hpar) (hn d hd) (hpp.symm.trans hmd)
    subst hsd
    rw [hkey.2] at hsegs
    obtain ⟨dc', hdc', e1, e2⟩ := binv_mem_decl hv hb hcm
    have hdcs : dc'.segs = dc.segs := reprOf_injective _ _ (hn dc' hdc') (hn dc hdc) (e1.symm.trans hcp)
    have hdceq : dc' = dc :=
      eq_of_map_eq (·.segs) D (valid_good D hv).nodup dc' hdc' dc hdc hdcs
    subst hdceq
    refine ⟨dc', mem_kids.mpr ⟨hdc, hpar⟩, hsegs, cm, hcm, ?_, hcp, e2⟩
    simp only [Option.bind_some, ← hcid]
    exact byId_of_mem hL.idnd hcm
  | none =>
    right
    refine ⟨?_, rfl⟩
    intro dc hdc
    by_cases h1 : dc.segs = d.segs ++ [nm]
    · right
      intro hpar
      obtain ⟨cm, hcm, hcp, _⟩ := binv_decl_mem hv hb hdc
      have hK : KidRel D b.mods (m.id, nm, cm.id) :=
        ⟨m, hm, cm, hcm, dc, hdc, d.segs, hpar, h1, rfl, rfl, hmd, hcp⟩
      have := List.find?_eq_none.mp hf _ ((hL.kids _).mpr hK)
      simp at this
    · exact Or.inl h1

/-- the keys of a module's children map are exactly the last segments of its declared children -/
theorem kids_keys_spec (D : List SDecl) (b : Builder) (hv : Valid D) (hn : NamesValid D)
    (hL : LInv D b) (m : Mod) (hm : m ∈ b.mods) (d : SDecl) (hd : d ∈ D)
    (hmd : m.path = reprOf d.segs) (nm : List Nat) :
    (∃ cid, (m.id, nm, cid) ∈ b.kids) ↔ ∃ dc ∈ kids D d.segs, dc.segs = d.segs ++ [nm] := by
  have hb := hL.binv
  constructor
  · rintro ⟨cid, hk⟩
    obtain ⟨pm, hpm, cm, hcm, dc, hdc, s, hpar, hsegs, hpid, hcid, hpp, hcp⟩ := (hL.kids _).mp hk
    simp only at hsegs hpid
    have hpmm : pm = m := eq_of_map_eq (·.id) b.mods hL.idnd pm hpm m hm hpid
    subst hpmm
    have hsd : s = d.segs :=
      reprOf_injective _ _ (allValid_of_par (hn dc hdc) hpar) (hn d hd) (hpp.symm.trans hmd)
    subst hsd
    exact ⟨dc, mem_kids.mpr ⟨hdc, hpar⟩, hsegs⟩
  · rintro ⟨dc, hdck, hsegs⟩
    obtain ⟨hdc, hpar⟩ := mem_kids.mp hdck
    obtain ⟨cm, hcm, hcp, _⟩ := binv_decl_mem hv hb hdc
    exact ⟨cm.id, (hL.kids _).mpr ⟨m, hm, cm, hcm, dc, hdc, d.segs, hpar, hsegs, rfl, rfl, hmd, hcp⟩⟩

/-- `path()`, `path().len()` and `name()` of a module whose path is a declared path -/
theorem path_name_len_of_decl (s : List (List Nat)) (hs : AllValid s) :
    (reprOf s).data = render s ∧ (reprOf s).len = s.length ∧ (reprOf s).isGate = false ∧
      name (reprOf s) = .ok (s.getLast?.getD []) := by
  refine ⟨reprOf_data s, reprOf_len s, reprOf_isGate s, ?_⟩
  rcases List.eq_nil_or_concat s with rfl | ⟨l, n, rfl⟩
  · rfl
  · rw [List.concat_eq_append] at hs ⊢
    rw [name_reprOf_snoc l n (allValid_snoc hs).2]
    simp

end ModTree

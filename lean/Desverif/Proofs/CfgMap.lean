/-
Lemmas about the `indexmap` operations of Model/Cfg.lean (membership / key uniqueness), and about
the first-wins property store.
-/
import Desverif.Model.Cfg
namespace Cfg

abbrev keysOf (es : Entries) : List Key := es.map (·.1)

theorem get_none_iff {es : Entries} {k : Key} : get es k = none ↔ k ∉ keysOf es := by
  induction es with
  | nil => simp [get]
  | cons e r ih =>
    obtain ⟨k', v⟩ := e
    by_cases h : k' = k
    · simp [get, h]
    · simp only [get, h, if_false, ih, List.map_cons, List.mem_cons, not_or]
      constructor
      · intro h2; exact ⟨fun h3 => h h3.symm, h2⟩
      · intro h2; exact h2.2

theorem get_some_mem {es : Entries} {k : Key} {v : Val} (h : get es k = some v) : (k, v) ∈ es := by
  induction es with
  | nil => simp [get] at h
  | cons e r ih =>
    obtain ⟨k', v'⟩ := e
    by_cases hk : k' = k
    · simp [get, hk] at h; simp [hk, h]
    · simp only [get, hk, if_false] at h; exact List.mem_cons_of_mem _ (ih h)

theorem mem_keysOf {es : Entries} {k : Key} {v : Val} (h : (k, v) ∈ es) : k ∈ keysOf es :=
  List.mem_map.mpr ⟨(k, v), h, rfl⟩

theorem mem_get {es : Entries} {k : Key} {v : Val} (nd : (keysOf es).Nodup) (h : (k, v) ∈ es) :
    get es k = some v := by
  induction es with
  | nil => simp at h
  | cons e r ih =>
    obtain ⟨k', v'⟩ := e
    simp only [List.map_cons, List.nodup_cons] at nd
    rcases List.mem_cons.mp h with h | h
    · cases h; simp [get]
    · have : k' ≠ k := fun hk => nd.1 (hk ▸ mem_keysOf h)
      simp only [get, this, if_false]; exact ih nd.2 h

theorem get_isSome_iff {es : Entries} {k : Key} : (get es k).isSome ↔ k ∈ keysOf es := by
  cases h : get es k with
  | none => simp [get_none_iff.mp h]
  | some v => simp [mem_keysOf (get_some_mem h)]

theorem keysOf_replace (es : Entries) (k : Key) (v : Val) : keysOf (replace es k v) = keysOf es := by
  induction es with
  | nil => rfl
  | cons e r ih =>
    have ih' : List.map (·.1) (List.map (fun e => if e.1 = k then (k, v) else e) r) = List.map (·.1) r := ih
    show List.map (·.1) (List.map (fun e => if e.1 = k then (k, v) else e) (e :: r)) = List.map (·.1) (e :: r)
    rw [List.map_cons, List.map_cons, List.map_cons, ih']
    by_cases h : e.1 = k
    · rw [if_pos h]; simp [h]
    · rw [if_neg h]

theorem mem_replace {es : Entries} {k : Key} {v : Val} {e : Key × Val} :
    e ∈ replace es k v ↔ (e = (k, v) ∧ k ∈ keysOf es) ∨ (e ∈ es ∧ e.1 ≠ k) := by
  induction es with
  | nil => simp [replace]
  | cons a r ih =>
    simp only [replace, List.map_cons, List.mem_cons] at ih ⊢
    by_cases h : a.1 = k
    · simp only [h, if_true, true_or, and_true]
      constructor
      · rintro (h1 | h1)
        · exact Or.inl h1
        · rcases ih.mp h1 with h2 | h2
          · exact Or.inl h2.1
          · exact Or.inr ⟨Or.inr h2.1, h2.2⟩
      · rintro (h1 | ⟨h1 | h1, h2⟩)
        · exact Or.inl h1
        · exact absurd (h1 ▸ h) h2
        · exact Or.inr (ih.mpr (Or.inr ⟨h1, h2⟩))
    · simp only [h, if_false]
      constructor
      · rintro (h1 | h1)
        · exact Or.inr ⟨Or.inl h1, h1 ▸ h⟩
        · rcases ih.mp h1 with h2 | h2
          · exact Or.inl ⟨h2.1, Or.inr h2.2⟩
          · exact Or.inr ⟨Or.inr h2.1, h2.2⟩
      · rintro (⟨h1, h2 | h2⟩ | ⟨h1 | h1, h2⟩)
        · exact absurd h2.symm h
        · exact Or.inr (ih.mpr (Or.inl ⟨h1, h2⟩))
        · exact Or.inl h1
        · exact Or.inr (ih.mpr (Or.inr ⟨h1, h2⟩))

theorem mem_insert {es : Entries} {k : Key} {v : Val} {e : Key × Val} :
    e ∈ insert es k v ↔ e = (k, v) ∨ (e ∈ es ∧ e.1 ≠ k) := by
  unfold insert
  by_cases h : k ∈ keysOf es
  · rw [if_pos (get_isSome_iff.mpr h), mem_replace]; simp [h]
  · rw [if_neg (fun h' => h (get_isSome_iff.mp h'))]
    simp only [List.mem_append, List.mem_singleton]
    constructor
    · rintro (h1 | h1)
      · exact Or.inr ⟨h1, fun hk => h (hk ▸ List.mem_map.mpr ⟨e, h1, rfl⟩)⟩
      · exact Or.inl h1
    · rintro (h1 | h1)
      · exact Or.inr h1
      · exact Or.inl h1.1

theorem nodup_insert {es : Entries} {k : Key} {v : Val} (nd : (keysOf es).Nodup) :
    (keysOf (insert es k v)).Nodup := by
  unfold insert
  by_cases h : k ∈ keysOf es
  · rw [if_pos (get_isSome_iff.mpr h), keysOf_replace]; exact nd
  · rw [if_neg (fun h' => h (get_isSome_iff.mp h'))]
    simp only [keysOf, List.map_append, List.map_cons, List.map_nil]
    rw [List.nodup_append]
    refine ⟨nd, by simp, ?_⟩
    intro a ha b hb; simp at hb; subst hb; intro hab; exact h (hab ▸ ha)

theorem mem_orInsertEmpty {es : Entries} {k : Key} {e : Key × Val} :
    e ∈ orInsertEmpty es k ↔ e ∈ es ∨ (k ∉ keysOf es ∧ e = (k, .map [])) := by
  unfold orInsertEmpty
  by_cases h : k ∈ keysOf es
  · rw [if_pos (get_isSome_iff.mpr h)]; simp [h]
  · rw [if_neg (fun h' => h (get_isSome_iff.mp h'))]; simp [h]

theorem nodup_orInsertEmpty {es : Entries} {k : Key} (nd : (keysOf es).Nodup) :
    (keysOf (orInsertEmpty es k)).Nodup := by
  unfold orInsertEmpty
  by_cases h : k ∈ keysOf es
  · rw [if_pos (get_isSome_iff.mpr h)]; exact nd
  · rw [if_neg (fun h' => h (get_isSome_iff.mp h'))]
    simp only [keysOf, List.map_append, List.map_cons, List.map_nil]
    rw [List.nodup_append]
    refine ⟨nd, by simp, ?_⟩
    intro a ha b hb; simp at hb; subst hb; intro hab; exact h (hab ▸ ha)

theorem mem_keysOf_orInsertEmpty (es : Entries) (k : Key) : k ∈ keysOf (orInsertEmpty es k) := by
  unfold orInsertEmpty
  by_cases h : k ∈ keysOf es
  · rw [if_pos (get_isSome_iff.mpr h)]; exact h
  · rw [if_neg (fun h' => h (get_isSome_iff.mp h'))]; simp [keysOf]

/-! ### swap_remove -/

theorem getLast_perm {α : Type} : ∀ (r : List α) (l : α), r.getLast? = some l → (l :: r.dropLast).Perm r
  | [], l, h => by simp at h
  | [a], l, h => by simp at h; subst h; simp
  | a :: b :: t, l, h => by
    rw [List.getLast?_cons_cons] at h
    have ih := getLast_perm (b :: t) l h
    have : (a :: b :: t).dropLast = a :: (b :: t).dropLast := rfl
    rw [this]
    exact (List.Perm.swap a l _).trans (List.Perm.cons a ih)

theorem swapRemove_perm {es : Entries} {k : Key} {v : Val} {es' : Entries}
    (h : swapRemove es k = some (v, es')) : es.Perm ((k, v) :: es') := by
  induction es generalizing es' with
  | nil => simp [swapRemove] at h
  | cons e r ih =>
    obtain ⟨k', v'⟩ := e
    by_cases hk : k' = k
    · simp only [swapRemove, hk, if_true, Option.some.injEq, Prod.mk.injEq] at h
      obtain ⟨h1, h2⟩ := h
      subst h1 hk
      refine List.Perm.cons _ ?_
      cases hl : r.getLast? with
      | none =>
        rw [hl] at h2; subst h2
        cases r with
        | nil => exact List.Perm.refl _
        | cons a t => simp at hl
      | some l => rw [hl] at h2; subst h2; exact (getLast_perm r l hl).symm
    · simp only [swapRemove, hk, if_false] at h
      cases hr : swapRemove r k with
      | none => rw [hr] at h; simp at h
      | some p =>
        obtain ⟨v1, r'⟩ := p
        rw [hr] at h
        simp only [Option.some.injEq, Prod.mk.injEq] at h
        obtain ⟨h1, h2⟩ := h
        subst h1 h2
        exact (List.Perm.cons _ (ih hr)).trans (List.Perm.swap _ _ _)

theorem swapRemove_isSome {es : Entries} {k : Key} (h : k ∈ keysOf es) :
    ∃ v es', swapRemove es k = some (v, es') := by
  induction es with
  | nil => simp at h
  | cons e r ih =>
    obtain ⟨k', v'⟩ := e
    by_cases hk : k' = k
    · cases hs : swapRemove ((k', v') :: r) k with
      | none => simp [swapRemove, hk] at hs
      | some p => exact ⟨p.1, p.2, rfl⟩
    · have : k ∈ keysOf r := by
        simp only [keysOf, List.map_cons, List.mem_cons] at h
        rcases h with h | h
        · exact absurd h.symm hk
        · exact h
      obtain ⟨v, r', hr⟩ := ih this
      exact ⟨v, (k', v') :: r', by simp [swapRemove, hk, hr]⟩

/-- what `map.remove(&key)` does, in terms of membership -/
theorem swapRemove_spec {es : Entries} {k : Key} {v : Val} (nd : (keysOf es).Nodup)
    (hm : (k, v) ∈ es) :
    ∃ es', swapRemove es k = some (v, es') ∧ (∀ e, e ∈ es ↔ e = (k, v) ∨ e ∈ es') ∧
      (keysOf es').Nodup ∧ k ∉ keysOf es' := by
  obtain ⟨v1, es', h⟩ := swapRemove_isSome (mem_keysOf hm)
  have hp := swapRemove_perm h
  have ndp : (keysOf ((k, v1) :: es')).Nodup := (hp.map (·.1)).nodup_iff.mp nd
  simp only [keysOf, List.map_cons, List.nodup_cons] at ndp
  have hv : v1 = v := by
    have h1 : (k, v1) ∈ es := hp.mem_iff.mpr (List.mem_cons_self ..)
    have := mem_get nd h1
    rw [mem_get nd hm] at this
    exact (Option.some.inj this).symm
  subst hv
  exact ⟨es', h, fun e => by rw [hp.mem_iff]; simp, ndp.2, ndp.1⟩

/-! ### the property store -/

theorem Props.find_isSome_iff {ps : Props} {k : Key} : (ps.find k).isSome ↔ k ∈ ps.map (·.1) := by
  induction ps with
  | nil => simp [Props.find]
  | cons e r ih =>
    obtain ⟨k', s⟩ := e
    by_cases h : k' = k
    · simp [Props.find, h]
    · simp only [Props.find, h, if_false, ih, List.map_cons, List.mem_cons]
      constructor
      · exact Or.inr
      · rintro (h1 | h1)
        · exact absurd h1.symm h
        · exact h1

theorem Props.mem_set {ps : Props} {k : Key} {v : Val} {x : Key × Slot} :
    x ∈ ps.set k v ↔ x ∈ ps ∨ (k ∉ ps.map (·.1) ∧ x = (k, .yaml v)) := by
  unfold Props.set
  by_cases h : k ∈ ps.map (·.1)
  · rw [if_pos (Props.find_isSome_iff.mpr h)]; simp [h]
  · rw [if_neg (fun h' => h (Props.find_isSome_iff.mp h'))]; simp [h]

theorem Props.key_mem_set (ps : Props) (k : Key) (v : Val) : k ∈ (ps.set k v).map (·.1) := by
  unfold Props.set
  by_cases h : k ∈ ps.map (·.1)
  · rw [if_pos (Props.find_isSome_iff.mpr h)]; exact h
  · rw [if_neg (fun h' => h (Props.find_isSome_iff.mp h'))]; simp

end Cfg

/-
C18, the error taxonomy of `transform` is total and descriptive: every `Err` names a module /
clause / symbol of the *input* that really has the defect the kind announces (`Cause`).
-/
import Desverif.Proofs.NdlDenote
namespace Ndl

/-! ### what can be wrong with a description -/

def ConnDef.mentions (c : ConnDef) (a : FieldDef) : Prop := a ∈ c.lhs.accessors ∨ a ∈ c.rhs.accessors

/-- defects of one `connections:` entry `c` (kind and payload of the error) -/
inductive ConnCause (d : Def) (c : ConnDef) : Kind → List Str → Prop
  | unknownGate (a : FieldDef) : c.mentions a → ConnCause d c .unknownGateInConnection [a.display]
  | unknownSub (a : FieldDef) : c.mentions a → ConnCause d c .unknownSubmoduleInConnection [a.display]
  | indexOutOfBounds (a : FieldDef) (i : Nat) : c.mentions a → a.kard = .cluster i →
      ConnCause d c .connectionIndexOutOfBounds [a.display]
  | unequalPeers (l r : Nat) : l ≠ r → ConnCause d c .unequalPeers [showNat l, showNat r]
  | unknownLink (name : Str) : c.link = some name → d.links.lookup name = none →
      ConnCause d c .unknownLink [name]

/-- defects of one `submodules:` entry `fld: t` of the module with key `key` -/
inductive SubCause (d : Def) (key : TypClause GenericsDef) (fld : FieldDef) (t : TypClause Str) :
    Kind → List Str → Prop
  | zeroCluster : fld.kard = .cluster 0 →
      SubCause d key fld t .invalidSubmodule [dispGenClause key, fld.ident]
  /-- a generic module (or a type parameter bounded by one) used without type arguments -/
  | needsArgs (km : TypClause GenericsDef × ModuleDef) : t.args.isEmpty = true → km ∈ d.modules →
      km.1.ident = innerToOuter key.args t.ident → km.1.args ≠ [] →
      SubCause d key fld t .invalidTypStatement [dispClause t, dispGenClause ⟨t.ident, km.1.args⟩]
  /-- a type parameter of the enclosing module used with arguments, or passed on as an argument -/
  | parameterMisused (b : GenericsDef) : t.args.isEmpty = false → b ∈ key.args →
      (b.binding = t.ident ∨ b.binding ∈ t.args) → SubCause d key fld t .unknownModule [b.binding]
  /-- wrong number of type arguments -/
  | arity (km : TypClause GenericsDef × ModuleDef) : km ∈ d.modules → km.1.ident = t.ident →
      km.1.args.length ≠ t.args.length →
      SubCause d key fld t .invalidTypStatement [dispClause t, dispGenClause ⟨t.ident, km.1.args⟩]
  /-- a type argument that is itself a generic module -/
  | genericArgument (x : Str) (km : TypClause GenericsDef × ModuleDef) : x ∈ t.args → km ∈ d.modules →
      km.1.ident = x → km.1.args ≠ [] →
      SubCause d key fld t .invalidTypStatement [dispClause ⟨x, []⟩, dispGenClause ⟨x, km.1.args⟩]
  /-- a type argument that lacks a gate / submodule / connection of the parameter's bound -/
  | notConforming (x : Str) (g : GenericsDef) (km : TypClause GenericsDef × ModuleDef) :
      x ∈ t.args → km ∈ d.modules → km.1.ident = t.ident → g ∈ km.1.args →
      SubCause d key fld t .assignedTypDoesNotConformToInterface [dispClause t]

/-- why `transform` rejects the description `d` -/
inductive Cause (d : Def) : Fail → Prop
  /-- modules whose required symbols can never be provided: each stuck module requires a symbol that
      is no module of the description at all, or a module that is stuck itself (cycle) -/
  | unresolvable (stuck : List Entry) : stuck ≠ [] →
      (∀ e ∈ stuck, (e.ident, e.mdef) ∈ d.modules ∧
        ∃ s ∈ requiredSymbols e.ident e.mdef, s ∉ idents d ∨ s ∈ stuck.map (·.ident.ident)) →
      Cause d (.err .unresolvableDependency (stuck.map (·.ident.ident)) {})
  | unknownEntry : d.entry ∉ idents d → Cause d (.err .unknownModule [d.entry] {})
  | duplicateParameter (key : TypClause GenericsDef) (m : ModuleDef) (g0 g : GenericsDef) :
      (key, m) ∈ d.modules → (∃ l1 l2, key.args = l1 ++ g0 :: l2 ∧ g ∈ l2) → g0.binding = g.binding →
      Cause d (.err .symbolAlreadyDefined [g.display] { module := some key.ident })
  | zeroGate (key : TypClause GenericsDef) (m : ModuleDef) (g : GateDef) :
      (key, m) ∈ d.modules → g ∈ m.gates → g.kard = .cluster 0 →
      Cause d (.err .invalidGate [key.ident, g.ident] { module := some key.ident, gate := some g.display })
  | submodule (key : TypClause GenericsDef) (m : ModuleDef) (fld : FieldDef) (t : TypClause Str)
      (k : Kind) (dt : List Str) : (key, m) ∈ d.modules → (fld, t) ∈ m.submodules →
      SubCause d key fld t k dt →
      Cause d (.err k dt { module := some key.ident, submodule := some fld.display })
  | connection (key : TypClause GenericsDef) (m : ModuleDef) (idx : Nat) (c : ConnDef)
      (k : Kind) (dt : List Str) : (key, m) ∈ d.modules → m.connections[idx]? = some c →
      ConnCause d c k dt →
      Cause d (.err k dt { module := some key.ident, connection := some idx })

/-! ### error propagation helpers -/

theorem bind_error {α β : Type} {x : Except Fail α} {k : α → Except Fail β} {f : Fail}
    (h : x >>= k = .error f) : x = .error f ∨ ∃ a, x = .ok a ∧ k a = .error f := by
  cases x with
  | ok a => exact Or.inr ⟨a, rfl, h⟩
  | error e =>
    left
    have h' : (Except.error e : Except Fail β) = .error f := h
    cases h'
    rfl

theorem mapErr_error {α : Type} {x : Except Fail α} {g : Span → Span} {f : Fail}
    (h : mapErr g x = .error f) : ∃ f', x = .error f' ∧ f = f'.mapSpan g := by
  cases x with
  | ok a => cases h
  | error e =>
    cases h
    exact ⟨e, rfl, rfl⟩

theorem mapM_error {α β : Type} {g : α → Except Fail β} : ∀ (l : List α) (f : Fail),
    l.mapM g = .error f → ∃ x ∈ l, g x = .error f
  | [], f, h => by
    simp only [List.mapM_nil] at h
    cases h
  | a :: l, f, h => by
    simp only [List.mapM_cons] at h
    rcases bind_error h with h | ⟨b, _, h⟩
    · exact ⟨a, List.mem_cons_self .., h⟩
    · rcases bind_error h with h | ⟨bs, _, h⟩
      · obtain ⟨x, hx, hx'⟩ := mapM_error l f h
        exact ⟨x, List.mem_cons_of_mem _ hx, hx'⟩
      · cases h

/-! ### connections -/

/-- what an endpoint error says about the accessors -/
inductive EpCause (acc : List FieldDef) : Fail → Prop
  | internal (w : String) : EpCause acc (.internal w)
  | unknownGate (a : FieldDef) : a ∈ acc → EpCause acc (.err .unknownGateInConnection [a.display] {})
  | unknownSub (a : FieldDef) : a ∈ acc → EpCause acc (.err .unknownSubmoduleInConnection [a.display] {})
  | index (a : FieldDef) (i : Nat) : a ∈ acc → a.kard = .cluster i →
      EpCause acc (.err .connectionIndexOutOfBounds [a.display] {})

theorem EpCause.mono {acc acc' : List FieldDef} {f : Fail} (h : EpCause acc f)
    (hs : ∀ a ∈ acc, a ∈ acc') : EpCause acc' f := by
  cases h with
  | internal w => exact .internal w
  | unknownGate a ha => exact .unknownGate a (hs a ha)
  | unknownSub a ha => exact .unknownSub a (hs a ha)
  | index a i ha hk => exact .index a i (hs a ha) hk

theorem kardAccess_cause (dcl a : FieldDef) (f : Fail) (h : kardAccess dcl a = .error f) :
    ∃ i, a.kard = .cluster i ∧ f = .err .connectionIndexOutOfBounds [a.display] {} := by
  obtain ⟨e, h'⟩ := kardAccess_error dcl a f h
  rcases h' with ⟨_, i, hi⟩ | ⟨_, i, _, hi, _⟩
  · exact ⟨i, hi, e⟩
  · exact ⟨i, hi, e⟩

theorem endpointInner_error : ∀ (acc : List FieldDef) (pos : List Accessor)
    (subs : List (FieldDef × Node)) (gates : List FieldDef) (f : Fail),
    endpointInner pos acc subs gates = .error f → EpCause acc f
  | [], pos, subs, gates, f, h => by
    unfold endpointInner at h
    cases h
    exact .internal _
  | [a], pos, subs, gates, f, h => by
    unfold endpointInner at h
    cases hf : gates.find? (fun g => decide (g.ident = a.ident)) with
    | none =>
      rw [hf] at h
      cases h
      exact .unknownGate a (List.mem_cons_self ..)
    | some decl =>
      rw [hf] at h
      simp only [] at h
      rcases bind_error h with h | ⟨_, _, h⟩
      · obtain ⟨i, hi, e⟩ := kardAccess_cause _ _ _ h
        rw [e]
        exact .index a i (List.mem_cons_self ..) hi
      · cases h
  | a :: b :: rest, pos, subs, gates, f, h => by
    unfold endpointInner at h
    cases hf : subs.find? (fun n => decide (n.1.ident = a.ident)) with
    | none =>
      rw [hf] at h
      cases h
      exact .unknownSub a (List.mem_cons_self ..)
    | some sub =>
      rw [hf] at h
      simp only [] at h
      rcases bind_error h with h | ⟨locals, _, h⟩
      · obtain ⟨i, hi, e⟩ := kardAccess_cause _ _ _ h
        rw [e]
        exact .index a i (List.mem_cons_self ..) hi
      · rcases bind_error h with h | ⟨_, _, h⟩
        · obtain ⟨lm, _, hlm⟩ := mapM_error _ _ h
          exact (endpointInner_error (b :: rest) _ _ _ f hlm).mono fun x hx => List.mem_cons_of_mem _ hx
        · cases h

theorem transformConnection_error {d : Def} {c : ConnDef} {subs : List (FieldDef × Node)}
    {gates : List FieldDef} {results : List Conn} {f : Fail}
    (h : transformConnection c subs gates d.links results = .error f) :
    f.isInternal = true ∨ ∃ k dt, ConnCause d c k dt ∧ f = .err k dt {} := by
  have ep : ∀ (acc : List FieldDef), (∀ a ∈ acc, c.mentions a) → EpCause acc f →
      f.isInternal = true ∨ ∃ k dt, ConnCause d c k dt ∧ f = .err k dt {} := by
    intro acc hm hc
    cases hc with
    | internal w => exact Or.inl rfl
    | unknownGate a ha => exact Or.inr ⟨_, _, .unknownGate a (hm a ha), rfl⟩
    | unknownSub a ha => exact Or.inr ⟨_, _, .unknownSub a (hm a ha), rfl⟩
    | index a i ha hk => exact Or.inr ⟨_, _, .indexOutOfBounds a i (hm a ha) hk, rfl⟩
  unfold transformConnection at h
  rcases bind_error h with h | ⟨lhs, _, h⟩
  · exact ep _ (fun a ha => Or.inl ha) (endpointInner_error _ _ _ _ _ h)
  · rcases bind_error h with h | ⟨rhs, _, h⟩
    · exact ep _ (fun a ha => Or.inr ha) (endpointInner_error _ _ _ _ _ h)
    · split at h
      · next hne =>
        cases h
        exact Or.inr ⟨_, _, .unequalPeers _ _ hne, rfl⟩
      · rcases bind_error h with h | ⟨_, _, h⟩
        · unfold lookupLink at h
          cases hc : c.link with
          | none => rw [hc] at h; cases h
          | some name =>
            rw [hc] at h
            simp only [] at h
            cases hl : d.links.lookup name with
            | some v => rw [hl] at h; cases h
            | none =>
              rw [hl] at h
              cases h
              exact Or.inr ⟨_, _, .unknownLink name hc hl, rfl⟩
        · cases h

theorem transformConnections_error {d : Def} (subs : List (FieldDef × Node)) (gates : List FieldDef) :
    ∀ (l : List ConnDef) (idx : Nat) (results : List Conn) (f : Fail),
      transformConnections subs gates d.links idx l results = .error f →
      f.isInternal = true ∨ ∃ i c k dt, l[i]? = some c ∧ ConnCause d c k dt ∧
        f = .err k dt { connection := some (idx + i) }
  | [], _, _, f, h => by
    unfold transformConnections at h
    cases h
  | c :: l, idx, results, f, h => by
    unfold transformConnections at h
    rcases bind_error h with h | ⟨r1, _, h⟩
    · obtain ⟨f', hf', e⟩ := mapErr_error h
      rcases transformConnection_error hf' with hi | ⟨k, dt, hc, e'⟩
      · left
        rw [e]
        cases f' <;> simp_all [Fail.isInternal, Fail.mapSpan]
      · right
        refine ⟨0, c, k, dt, rfl, hc, ?_⟩
        rw [e, e']
        rfl
    · rcases transformConnections_error subs gates l (idx + 1) r1 f h with hi | ⟨i, c', k, dt, hi, hc, e⟩
      · exact Or.inl hi
      · right
        refine ⟨i + 1, c', k, dt, by simpa using hi, hc, ?_⟩
        rw [e]
        have : idx + 1 + i = idx + (i + 1) := by omega
        rw [this]

/-! ### submodules -/

/-- every stored archetype stems from a module of the description (holds for every description) -/
def TableSrc (d : Def) (a : Archs) : Prop :=
  ∀ name v, a.lookup name = some v → ∃ km ∈ d.modules, km.1.ident = name ∧ v.2 = km.1.args

theorem getArch_error {a : Archs} {k : Str} {f : Fail} (h : getArch a k = .error f) :
    f.isInternal = true := by
  unfold getArch at h
  cases hl : a.lookup k with
  | none => rw [hl] at h; cases h; rfl
  | some v => rw [hl] at h; cases h

theorem substArgs_error {d : Def} {key : TypClause GenericsDef} {fld : FieldDef} {t : TypClause Str}
    {a : Archs} (hsrc : TableSrc d a) (kmG : TypClause GenericsDef × ModuleDef) (hkmG : kmG ∈ d.modules)
    (hG : kmG.1.ident = t.ident) :
    ∀ (gs : List GenericsDef) (as : List Str) (node : Node) (f : Fail),
      (∀ g ∈ gs, g ∈ kmG.1.args) → (∀ x ∈ as, x ∈ t.args) → substArgs t a gs as node = .error f →
      f.isInternal = true ∨ ∃ k dt, SubCause d key fld t k dt ∧ f = .err k dt {}
  | [], _, _, f, _, _, h => by
    unfold substArgs at h
    cases h
  | g :: gs, [], _, f, _, _, h => by
    unfold substArgs at h
    cases h
    exact Or.inl rfl
  | g :: gs, x :: as, node, f, hgs, has, h => by
    unfold substArgs at h
    rcases bind_error h with h | ⟨v, hv, h⟩
    · exact Or.inl (getArch_error h)
    · cases v with
      | mk repl deps =>
      simp only [] at h
      by_cases hdeps : (!deps.isEmpty) = true
      · rw [if_pos hdeps] at h
        cases h
        obtain ⟨km, hkm, hn, hargs⟩ := hsrc _ _ (getArch_lookup hv)
        simp only [] at hargs
        right
        refine ⟨_, _, .genericArgument x km (has x (List.mem_cons_self ..)) hkm hn ?_, ?_⟩
        · rw [← hargs]
          intro e
          rw [e] at hdeps
          simp at hdeps
        · rw [← hargs]
      · rw [if_neg hdeps] at h
        rcases bind_error h with h | ⟨vi, _, h⟩
        · exact Or.inl (getArch_error h)
        · cases vi with
          | mk iface xi =>
          simp only [] at h
          by_cases hconf : (!repl.conformTo iface) = true
          · rw [if_pos hconf] at h
            cases h
            right
            exact ⟨_, _, .notConforming x g kmG (has x (List.mem_cons_self ..)) hkmG hG
              (hgs g (List.mem_cons_self ..)), rfl⟩
          · rw [if_neg hconf] at h
            exact substArgs_error hsrc kmG hkmG hG gs as _ f
              (fun g' hg' => hgs g' (List.mem_cons_of_mem _ hg'))
              (fun x' hx' => has x' (List.mem_cons_of_mem _ hx')) h

theorem transformSubmodule_error {d : Def} {key : TypClause GenericsDef} {fld : FieldDef}
    {t : TypClause Str} {a : Archs} (hsrc : TableSrc d a) {f : Fail}
    (h : transformSubmodule fld key t a = .error f) :
    f.isInternal = true ∨ ∃ k dt, SubCause d key fld t k dt ∧ f = .err k dt {} := by
  unfold transformSubmodule at h
  by_cases hz : fld.kard = .cluster 0
  · rw [if_pos hz] at h
    cases h
    exact Or.inr ⟨_, _, .zeroCluster hz, rfl⟩
  · rw [if_neg hz] at h
    by_cases hna : t.args.isEmpty = true
    · rw [if_pos hna] at h
      rcases bind_error h with h | ⟨v, hv, h⟩
      · exact Or.inl (getArch_error h)
      · cases v with
        | mk node reqs =>
        simp only [] at h
        by_cases hreq : (!reqs.isEmpty) = true
        · rw [if_pos hreq] at h
          cases h
          obtain ⟨km, hkm, hn, hargs⟩ := hsrc _ _ (getArch_lookup hv)
          simp only [] at hargs
          right
          refine ⟨_, _, .needsArgs km hna hkm hn ?_, ?_⟩
          · rw [← hargs]
            intro e
            rw [e] at hreq
            simp at hreq
          · rw [← hargs]
        · rw [if_neg hreq] at h
          cases h
    · rw [if_neg hna] at h
      have hna' : t.args.isEmpty = false := by simpa using hna
      cases hfind : key.args.find? (fun x => decide (x.binding = t.ident) || t.args.contains x.binding) with
      | some b =>
        rw [hfind] at h
        cases h
        right
        refine ⟨_, _, .parameterMisused b hna' (List.mem_of_find?_eq_some hfind) ?_, rfl⟩
        have := List.find?_some hfind
        simpa using this
      | none =>
        rw [hfind] at h
        simp only [] at h
        rcases bind_error h with h | ⟨v, hv, h⟩
        · exact Or.inl (getArch_error h)
        · cases v with
          | mk g reqArgs =>
          simp only [] at h
          obtain ⟨km, hkm, hn, hargs⟩ := hsrc _ _ (getArch_lookup hv)
          simp only [] at hargs
          by_cases hlen : reqArgs.length ≠ t.args.length
          · rw [if_pos hlen] at h
            cases h
            right
            refine ⟨_, _, .arity km hkm hn (hargs ▸ hlen), ?_⟩
            rw [← hargs]
          · rw [if_neg hlen] at h
            rcases bind_error h with h | ⟨_, _, h⟩
            · exact substArgs_error hsrc km hkm hn reqArgs t.args g f
                (fun g' hg' => hargs ▸ hg') (fun x hx => hx) h
            · cases h

theorem transformSubmodules_error {d : Def} {key : TypClause GenericsDef} {a : Archs}
    (hsrc : TableSrc d a) : ∀ (l : List (FieldDef × TypClause Str)) (f : Fail),
      transformSubmodules key a l = .error f →
      f.isInternal = true ∨ ∃ fld t k dt, (fld, t) ∈ l ∧ SubCause d key fld t k dt ∧
        f = .err k dt { submodule := some fld.display }
  | [], f, h => by
    unfold transformSubmodules at h
    cases h
  | (fld, t) :: r, f, h => by
    unfold transformSubmodules at h
    rcases bind_error h with h | ⟨_, _, h⟩
    · obtain ⟨f', hf', e⟩ := mapErr_error h
      rcases transformSubmodule_error hsrc hf' with hi | ⟨k, dt, hc, e'⟩
      · left
        rw [e]
        cases f' <;> simp_all [Fail.isInternal, Fail.mapSpan]
      · right
        refine ⟨fld, t, k, dt, List.mem_cons_self .., hc, ?_⟩
        rw [e, e']
        rfl
    · rcases bind_error h with h | ⟨_, _, h⟩
      · rcases transformSubmodules_error hsrc r f h with hi | ⟨fld', t', k, dt, hm, hc, e⟩
        · exact Or.inl hi
        · exact Or.inr ⟨fld', t', k, dt, List.mem_cons_of_mem _ hm, hc, e⟩
      · cases h

/-! ### one module, the work list, the whole transformation -/

theorem dupBinding_some : ∀ (l : List GenericsDef) (g : GenericsDef), dupBinding l = some g →
    ∃ g0 l1 l2, l = l1 ++ g0 :: l2 ∧ g ∈ l2 ∧ g0.binding = g.binding
  | [], g, h => by cases h
  | a :: r, g, h => by
    unfold dupBinding at h
    cases hf : r.find? (fun b => decide (a.binding = b.binding)) with
    | some b =>
      rw [hf] at h
      cases h
      exact ⟨a, [], r, rfl, List.mem_of_find?_eq_some hf, by simpa using List.find?_some hf⟩
    | none =>
      rw [hf] at h
      obtain ⟨g0, l1, l2, e, hm, hb⟩ := dupBinding_some r g h
      exact ⟨g0, a :: l1, l2, by rw [e]; rfl, hm, hb⟩

/-- an error of `transform_module`, located in the module -/
inductive ModCause (d : Def) (key : TypClause GenericsDef) (m : ModuleDef) : Fail → Prop
  | internal (w : String) : ModCause d key m (.internal w)
  | duplicateParameter (g0 g : GenericsDef) : (∃ l1 l2, key.args = l1 ++ g0 :: l2 ∧ g ∈ l2) →
      g0.binding = g.binding → ModCause d key m (.err .symbolAlreadyDefined [g.display] {})
  | zeroGate (g : GateDef) : g ∈ m.gates → g.kard = .cluster 0 →
      ModCause d key m (.err .invalidGate [key.ident, g.ident] { gate := some g.display })
  | submodule (fld : FieldDef) (t : TypClause Str) (k : Kind) (dt : List Str) : (fld, t) ∈ m.submodules →
      SubCause d key fld t k dt → ModCause d key m (.err k dt { submodule := some fld.display })
  | connection (idx : Nat) (c : ConnDef) (k : Kind) (dt : List Str) : m.connections[idx]? = some c →
      ConnCause d c k dt → ModCause d key m (.err k dt { connection := some idx })

theorem internal_of {f : Fail} (h : f.isInternal = true) : ∃ w, f = .internal w := by
  cases f with
  | internal w => exact ⟨w, rfl⟩
  | parse => cases h
  | err k dt sp => cases h

theorem transformModule_error {d : Def} {key : TypClause GenericsDef} {m : ModuleDef} {a : Archs}
    (hsrc : TableSrc d a) {f : Fail} (h : transformModule key m a d.links = .error f) :
    ModCause d key m f := by
  unfold transformModule at h
  split at h
  · next g hdup =>
    cases h
    obtain ⟨g0, l1, l2, e, hm, hb⟩ := dupBinding_some _ _ hdup
    exact .duplicateParameter g0 g ⟨l1, l2, e, hm⟩ hb
  · rcases bind_error h with h | ⟨gates, _, h⟩
    · obtain ⟨g, hg, hk, e⟩ := transformGates_error _ _ _ h
      rw [e]
      exact .zeroGate g hg hk
    · rcases bind_error h with h | ⟨subs, _, h⟩
      · rcases transformSubmodules_error hsrc _ _ h with hi | ⟨fld, t, k, dt, hm, hc, e⟩
        · obtain ⟨w, e⟩ := internal_of hi
          rw [e]
          exact .internal w
        · rw [e]
          exact .submodule fld t k dt hm hc
      · rcases bind_error h with h | ⟨inh, _, h⟩
        · unfold inheritFrom at h
          split at h
          · cases h
          · rcases bind_error h with h | ⟨_, _, h⟩
            · obtain ⟨w, e⟩ := internal_of (getArch_error h)
              rw [e]
              exact .internal w
            · cases h
        · rcases bind_error h with h | ⟨_, _, h⟩
          · rcases transformConnections_error _ _ _ _ _ _ h with hi | ⟨i, c, k, dt, hi, hc, e⟩
            · obtain ⟨w, e⟩ := internal_of hi
              rw [e]
              exact .internal w
            · rw [e]
              simp only [Nat.zero_add]
              exact .connection i c k dt hi hc
          · cases h

theorem buildAll_error {d : Def} : ∀ (es : List Entry) (a : Archs) (f : Fail),
    buildAll d.links es a = .error f → TableSrc d a → (∀ e ∈ es, (e.ident, e.mdef) ∈ d.modules) →
    ∃ e ∈ es, ∃ f', ModCause d e.ident e.mdef f' ∧
      f = f'.mapSpan (fun sp => { sp with module := some e.ident.ident })
  | [], a, f, h, _, _ => by
    unfold buildAll at h
    cases h
  | e :: es, a, f, h, hsrc, hes => by
    unfold buildAll at h
    rcases bind_error h with h | ⟨arch, harch, h⟩
    · obtain ⟨f', hf', ef⟩ := mapErr_error h
      exact ⟨e, List.mem_cons_self .., f', transformModule_error hsrc hf', ef⟩
    · have hsrc' : TableSrc d ((e.ident.ident, arch) :: a) := by
        intro name v hl
        rw [lookup_cons] at hl
        split at hl
        · next hname =>
          cases hl
          exact ⟨(e.ident, e.mdef), hes e (List.mem_cons_self ..), hname.symm,
            (transformModule_typ (mapErr_ok harch)).2⟩
        · exact hsrc name v hl
      obtain ⟨e', he', f', hc, ef⟩ := buildAll_error es _ f h hsrc' fun x hx => hes x (List.mem_cons_of_mem _ hx)
      exact ⟨e', List.mem_cons_of_mem _ he', f', hc, ef⟩

/-- the ordering loop gets stuck only on modules whose requirements are undefined or stuck themselves -/
theorem orderLoop_stuck (all : List Entry) : ∀ (fuel : Nat) (done rest : List Entry) (p : List Str) (f : Fail),
    rest.length ≤ fuel → (∀ x ∈ all, x ∈ done ∨ x ∈ rest) → (∀ x ∈ rest, x ∈ all) →
    (∀ s, s ∈ p ↔ s ∈ done.map (·.ident.ident)) → orderLoop fuel done rest p = .error f →
    ∃ stuck : List Entry, f = .err .unresolvableDependency (stuck.map (·.ident.ident)) {} ∧ stuck ≠ [] ∧
      (∀ e ∈ stuck, e ∈ all) ∧
      ∀ e ∈ stuck, ∃ s ∈ e.deps, s ∉ all.map (·.ident.ident) ∨ s ∈ stuck.map (·.ident.ident)
  | fuel, done, [], p, f, _, _, _, _, h => by
    unfold orderLoop at h
    cases h
  | 0, done, r0 :: tl, p, f, hf, _, _, _, _ => by simp at hf
  | fuel + 1, done, r0 :: tl, p, f, hf, hcov, hsub, hp, h => by
    unfold orderLoop at h
    cases hps : pickSwap (resolvable p) (r0 :: tl) with
    | none =>
      rw [hps] at h
      cases h
      refine ⟨r0 :: tl, rfl, by simp, hsub, ?_⟩
      intro e he
      have hq := pickSwap_none _ _ hps e he
      unfold resolvable at hq
      have hex : ∃ s, s ∈ e.deps ∧ ¬ s ∈ p := by
        by_cases hex : ∃ s, s ∈ e.deps ∧ ¬ s ∈ p
        · exact hex
        · exfalso
          have : (e.deps.all fun s => p.contains s) = true := by
            apply List.all_eq_true.2
            intro s hs
            by_cases hsp : s ∈ p
            · simpa using hsp
            · exact absurd ⟨s, hs, hsp⟩ hex
          rw [this] at hq
          cases hq
      obtain ⟨s, hs, hns⟩ := hex
      refine ⟨s, hs, ?_⟩
      by_cases hall : s ∈ all.map (·.ident.ident)
      · right
        obtain ⟨x, hx, hxe⟩ := List.mem_map.1 hall
        rcases hcov x hx with hd | hr
        · exact absurd ((hp s).2 (List.mem_map.2 ⟨x, hd, hxe⟩)) hns
        · exact List.mem_map.2 ⟨x, hr, hxe⟩
      · exact Or.inl hall
    | some xl =>
      cases xl with
      | mk x rest' =>
        rw [hps] at h
        obtain ⟨_, hlen, hmem⟩ := pickSwap_spec _ _ _ _ hps
        have hf' : rest'.length ≤ fuel := by
          simp only [List.length_cons] at hlen hf
          omega
        refine orderLoop_stuck all fuel _ rest' _ f hf' ?_ ?_ ?_ h
        · intro y hy
          rcases hcov y hy with hd | hr
          · exact Or.inl (List.mem_append_left _ hd)
          · rcases List.mem_cons.1 (pickSwap_complete _ _ _ _ hps y hr) with rfl | hr'
            · exact Or.inl (by simp)
            · exact Or.inr hr'
        · intro y hy
          exact hsub y (hmem y (List.mem_cons_of_mem _ hy))
        · intro s
          simp only [List.mem_cons, List.map_append, List.map_cons, List.map_nil, List.mem_append,
            List.not_mem_nil, or_false]
          rw [hp s]
          exact or_comm

/-- **the error taxonomy is total and descriptive** -/
theorem transform_error_cause (d : Def) (hd : d.endpointsNonempty) (f : Fail)
    (h : transform d = .error f) : Cause d f := by
  have hni := transform_noInt d hd
  unfold transform at h
  rcases bind_error h with h' | ⟨archs, harchs, h'⟩
  · unfold elaborate at h'
    rcases bind_error h' with h'' | ⟨ordered, hord, h''⟩
    · -- the ordering loop is stuck
      obtain ⟨stuck, e, hne, hsub, hreq⟩ := orderLoop_stuck (entries d) _ [] (entries d) [] f (Nat.le_refl _)
        (fun x hx => Or.inr hx) (fun x hx => hx) (fun s => by simp) h''
      rw [e]
      refine .unresolvable stuck hne ?_
      intro x hx
      have hxe := hsub x hx
      simp only [entries, List.mem_map] at hxe
      obtain ⟨km, hkm, rfl⟩ := hxe
      refine ⟨hkm, ?_⟩
      obtain ⟨s, hs, hor⟩ := hreq _ hx
      refine ⟨s, hs, ?_⟩
      rcases hor with hor | hor
      · left
        simpa [entries, idents, List.map_map, Function.comp] using hor
      · exact Or.inr hor
    · -- a module is rejected
      obtain ⟨_, _, _, hsub⟩ := (orderLoop_spec _ [] (entries d) [] (Nat.le_refl _)).2 ordered hord
      have hes : ∀ e ∈ ordered, (e.ident, e.mdef) ∈ d.modules := by
        intro e he
        obtain ⟨tail, ht, _, hsub'⟩ := (orderLoop_spec _ [] (entries d) [] (Nat.le_refl _)).2 ordered hord
        simp only [List.nil_append] at ht
        subst ht
        have := hsub' e he
        simp only [entries, List.mem_map] at this
        obtain ⟨km, hkm, rfl⟩ := this
        exact hkm
      obtain ⟨e, he, f', hc, ef⟩ := buildAll_error ordered [] f h'' (fun name v hl => by cases hl) hes
      have hmem := hes e he
      rw [ef]
      cases hc with
      | internal w => exact absurd (by rw [ef] at h; exact h) (by
          intro hh
          exact hni w (by unfold transform; rw [show elaborate d = .error (.internal w) from by
            unfold elaborate; rw [bind_ok_eq hord]; rw [h'', ef]; rfl]; rfl))
      | duplicateParameter g0 g hl hb => exact .duplicateParameter e.ident e.mdef g0 g hmem hl hb
      | zeroGate g hg hk => exact .zeroGate e.ident e.mdef g hmem hg hk
      | submodule fld t k dt hm hc => exact .submodule e.ident e.mdef fld t k dt hmem hm hc
      | connection idx c k dt hi hc => exact .connection e.ident e.mdef idx c k dt hmem hi hc
  · -- the entry symbol is no module
    cases hl : archs.lookup d.entry with
    | some v => rw [hl] at h'; cases h'
    | none =>
      rw [hl] at h'
      cases h'
      refine .unknownEntry ?_
      intro hmem
      -- every module identifier is a key of the table
      unfold elaborate at harchs
      obtain ⟨ordered, hord, hbuild⟩ := bind_ok harchs
      obtain ⟨hall, _⟩ := orderLoop_complete _ _ _ _ _ hord
      obtain ⟨km, hkm, hke⟩ := List.mem_map.1 hmem
      have he : (⟨km.1, km.2, requiredSymbols km.1 km.2⟩ : Entry) ∈ ordered :=
        hall _ (Or.inr (List.mem_map.2 ⟨km, hkm, rfl⟩))
      have hkeys : ∀ (es : List Entry) (a a' : Archs), buildAll d.links es a = .ok a' →
          ∀ e ∈ es, e.ident.ident ∈ keys a' := by
        intro es
        induction es with
        | nil => intro a a' _ e he; cases he
        | cons x xs ih =>
          intro a a' hb e he
          unfold buildAll at hb
          obtain ⟨arch, _, hb⟩ := bind_ok hb
          have hmono : ∀ (ys : List Entry) (b b' : Archs), buildAll d.links ys b = .ok b' →
              ∀ k ∈ keys b, k ∈ keys b' := by
            intro ys
            induction ys with
            | nil => intro b b' hb' k hk; unfold buildAll at hb'; cases hb'; exact hk
            | cons y ys ih' =>
              intro b b' hb' k hk
              unfold buildAll at hb'
              obtain ⟨_, _, hb'⟩ := bind_ok hb'
              exact ih' _ b' hb' k (by simp only [keys, List.map_cons, List.mem_cons]; right; exact hk)
          rcases List.mem_cons.1 he with rfl | he
          · exact hmono xs _ a' hb _ (by simp [keys])
          · exact ih _ a' hb e he
      obtain ⟨v, hv⟩ := lookup_of_mem_keys archs _ (hkeys ordered [] archs hbuild _ he)
      simp only [] at hv
      rw [hke, hl] at hv
      cases hv

end Ndl

/-
C18, completeness of `transform` w.r.t. the denotation: in the supported fragment, whenever
`Spec.denoteTree d` is defined, `transform d` succeeds (with the same tree).  Hence a rejection by
`transform` means the description denotes nothing.

* `stuck_no_denotation` — a module the ordering loop cannot place does not denote at any fuel
* `bodyOf_transformModule` — one module: if ⟦name⟧ is defined, `transform_module` succeeds
* `buildAll_complete`, `denoteTree_transform`
-/
import Desverif.Proofs.NdlErrors
namespace Ndl

theorem mapM_all_ok {α β : Type} {f : α → Except Fail β} : ∀ (l : List α) (out : List β),
    l.mapM f = .ok out → ∀ x ∈ l, ∃ b, f x = .ok b
  | [], _, _, x, hx => by cases hx
  | a :: l, out, h, x, hx => by
    simp only [List.mapM_cons] at h
    obtain ⟨b, hb, h⟩ := bind_ok h
    obtain ⟨bs, hbs, _⟩ := bind_ok h
    rcases List.mem_cons.1 hx with rfl | hx
    · exact ⟨b, hb⟩
    · exact mapM_all_ok l bs hbs x hx

theorem ok_inj {α : Type} {a b : α} (h : (Except.ok a : Except Fail α) = .ok b) : a = b := by
  cases h; rfl

/-! ### connections -/

theorem expand_endpointInner : ∀ (acc : List FieldDef) (pos : List Accessor)
    (subs : List (FieldDef × Node)) (gates : List FieldDef) (r' : List (List Accessor)),
    Spec.expandEndpoint acc subs gates = .ok r' → ∃ r, endpointInner pos acc subs gates = .ok r
  | [], pos, subs, gates, r', h => by
    unfold Spec.expandEndpoint at h
    cases h
  | [a], pos, subs, gates, r', h => by
    unfold Spec.expandEndpoint at h
    unfold endpointInner
    cases hf : gates.find? (fun g => decide (g.ident = a.ident)) with
    | none => rw [hf] at h; cases h
    | some decl =>
      rw [hf] at h
      simp only [] at h ⊢
      obtain ⟨is, his, _⟩ := bind_ok h
      rw [kardAccess_eq_indices, bind_ok_eq his]
      exact ⟨_, rfl⟩
  | a :: b :: rest, pos, subs, gates, r', h => by
    unfold Spec.expandEndpoint at h
    unfold endpointInner
    cases hf : subs.find? (fun n => decide (n.1.ident = a.ident)) with
    | none => rw [hf] at h; cases h
    | some sub =>
      rw [hf] at h
      simp only [] at h ⊢
      obtain ⟨is, his, h⟩ := bind_ok h
      rw [kardAccess_eq_indices, bind_ok_eq his]
      cases is with
      | nil => exact ⟨_, rfl⟩
      | cons i0 is' =>
        simp only [List.isEmpty_cons, Bool.false_eq_true, if_false] at h
        obtain ⟨tails, ht, _⟩ := bind_ok h
        obtain ⟨inner, hin⟩ := mapM_ok_of_forall
          (fun lm => endpointInner (pos ++ [lm]) (b :: rest) sub.2.subs sub.2.gates) (i0 :: is')
          (fun lm _ => expand_endpointInner (b :: rest) _ _ _ tails ht)
        rw [bind_ok_eq hin]
        exact ⟨_, rfl⟩

theorem expandConn_transformConnection {c : ConnDef} {subs : List (FieldDef × Node)}
    {gates : List FieldDef} {links : List (Str × Link)} {cs : List Conn} (results : List Conn)
    (h : Spec.expandConn links subs gates c = .ok cs) :
    ∃ r, transformConnection c subs gates links results = .ok r := by
  unfold Spec.expandConn at h
  obtain ⟨l, hl, h⟩ := bind_ok h
  obtain ⟨r, hr, h⟩ := bind_ok h
  obtain ⟨lm, hlm⟩ := expand_endpointInner _ [] _ _ _ hl
  obtain ⟨rm, hrm⟩ := expand_endpointInner _ [] _ _ _ hr
  obtain ⟨l', hl', el⟩ := endpointInner_expand _ _ _ _ _ hlm
  obtain ⟨r', hr', er⟩ := endpointInner_expand _ _ _ _ _ hrm
  rw [hl] at hl'
  rw [hr] at hr'
  have e1 := ok_inj hl'
  have e2 := ok_inj hr'
  subst e1 e2
  unfold transformConnection
  rw [bind_ok_eq hlm, bind_ok_eq hrm]
  have hlen : lm.length = l.length := by rw [el]; simp
  have hlen' : rm.length = r.length := by rw [er]; simp
  split at h
  · cases h
  · next hne =>
    have : ¬ lm.length ≠ rm.length := by rw [hlen, hlen']; exact hne
    rw [if_neg this]
    unfold lookupLink
    cases hc : c.link with
    | none => exact ⟨_, rfl⟩
    | some name =>
      rw [hc] at h
      simp only [] at h ⊢
      cases hlk : links.lookup name with
      | none => rw [hlk] at h; cases h
      | some v => exact ⟨_, rfl⟩

theorem expandConns_transformConnections (subs : List (FieldDef × Node)) (gates : List FieldDef)
    (links : List (Str × Link)) : ∀ (l : List ConnDef) (idx : Nat) (results : List Conn) (css : List (List Conn)),
    l.mapM (Spec.expandConn links subs gates) = .ok css →
    ∃ r, transformConnections subs gates links idx l results = .ok r
  | [], _, results, _, _ => by
    unfold transformConnections
    exact ⟨_, rfl⟩
  | c :: l, idx, results, css, h => by
    simp only [List.mapM_cons] at h
    obtain ⟨cs, hcs, h⟩ := bind_ok h
    obtain ⟨css', hcss, _⟩ := bind_ok h
    obtain ⟨r1, hr1⟩ := expandConn_transformConnection results hcs
    obtain ⟨r, hr⟩ := expandConns_transformConnections subs gates links l (idx + 1) r1 css' hcss
    unfold transformConnections
    have : mapErr (fun sp => { sp with connection := some idx })
        (transformConnection c subs gates links results) = .ok r1 := by rw [hr1]; rfl
    rw [bind_ok_eq this]
    exact ⟨r, hr⟩

/-! ### submodules -/

theorem plain_ok {ev : Str → Except Fail (Node × List GenericsDef)} {name : Str} {n : Node}
    (h : Spec.plain ev name = .ok n) : ∃ deps, ev name = .ok (n, deps) ∧ deps.isEmpty = true := by
  unfold Spec.plain at h
  obtain ⟨r, hr, h⟩ := bind_ok h
  cases r with
  | mk n' deps =>
    simp only [] at h
    by_cases hd : deps.isEmpty = true
    · rw [if_pos hd] at h
      cases h
      exact ⟨deps, hr, hd⟩
    · rw [if_neg hd] at h
      cases h

/-- what the table stores under a key is what `ev` says -/
theorem lookup_of_ev {a : Archs} {ev : Str → Except Fail (Node × List GenericsDef)}
    (hev : ∀ name v, a.lookup name = some v → ev name = .ok v) {name : Str} (hk : name ∈ keys a)
    {v : Node × List GenericsDef} (h : ev name = .ok v) : a.lookup name = some v := by
  obtain ⟨v', hv'⟩ := lookup_of_mem_keys a name hk
  have := hev _ _ hv'
  rw [h] at this
  rw [hv', ok_inj this]

theorem getArch_of_lookup {a : Archs} {k : Str} {v : Node × List GenericsDef} (h : a.lookup k = some v) :
    getArch a k = .ok v := by
  unfold getArch
  rw [h]

theorem actuals_substArgs {t : TypClause Str} {a : Archs}
    {ev : Str → Except Fail (Node × List GenericsDef)}
    (hev : ∀ name v, a.lookup name = some v → ev name = .ok v) :
    ∀ (gs : List GenericsDef) (as : List Str) (node : Node) (acts : List (Str × Node)),
      gs.length = as.length → (∀ x ∈ as, x ∈ keys a) → (∀ g ∈ gs, g.bound ∈ keys a) →
      (gs.zip as).mapM (Spec.actual ev t) = .ok acts → ∃ node', substArgs t a gs as node = .ok node'
  | [], as, node, _, _, _, _, _ => by
    unfold substArgs
    exact ⟨_, rfl⟩
  | g :: gs, [], node, _, hl, _, _, _ => by simp at hl
  | g :: gs, x :: as, node, acts, hl, hx, hg, h => by
    simp only [List.zip_cons_cons, List.mapM_cons] at h
    obtain ⟨act, hact, h⟩ := bind_ok h
    obtain ⟨acts', hacts', _⟩ := bind_ok h
    unfold Spec.actual at hact
    obtain ⟨c, hc, hact⟩ := bind_ok hact
    obtain ⟨i, hi, hact⟩ := bind_ok hact
    obtain ⟨deps, hevx, hdeps⟩ := plain_ok hc
    have hlx := lookup_of_ev hev (hx x (List.mem_cons_self ..)) hevx
    have hlb := lookup_of_ev hev (hg g (List.mem_cons_self ..)) hi
    have hconf : c.conformTo i.1 = true := by
      by_cases hcf : c.conformTo i.1 = true
      · exact hcf
      · rw [if_neg hcf] at hact
        cases hact
    unfold substArgs
    rw [bind_ok_eq (getArch_of_lookup hlx)]
    simp only []
    rw [if_neg (by simp [hdeps]), bind_ok_eq (getArch_of_lookup hlb)]
    cases i with
    | mk iface xi =>
      simp only [] at hconf ⊢
      rw [if_neg (by simp [hconf])]
      exact actuals_substArgs hev gs as _ acts' (by simpa using hl)
        (fun y hy => hx y (List.mem_cons_of_mem _ hy)) (fun y hy => hg y (List.mem_cons_of_mem _ hy)) hacts'

theorem evalType_transformSubmodule {key : TypClause GenericsDef} {m : ModuleDef} {a : Archs}
    {ev : Str → Except Fail (Node × List GenericsDef)} (decls : Str → List (FieldDef × TypClause Str))
    (hev : ∀ name v, a.lookup name = some v → ev name = .ok v) (hA : ArchOK a)
    (hreq : ∀ s ∈ requiredSymbols key m, s ∈ keys a) {fld : FieldDef} {t : TypClause Str}
    (hmem : (fld, t) ∈ m.submodules) (hz : fld.kard ≠ .cluster 0) {n : Node}
    (h : Spec.evalType ev decls key.args t = .ok n) :
    ∃ out, transformSubmodule fld key t a = .ok out := by
  unfold transformSubmodule
  rw [if_neg hz]
  unfold Spec.evalType at h
  by_cases hna : t.args.isEmpty = true
  · rw [if_pos hna] at h ⊢
    have hk : innerToOuter key.args t.ident ∈ keys a := by
      rcases innerToOuter_cases key.args t.ident with ⟨b, hb, he⟩ | ⟨hb, he⟩
      · rw [he]; exact hreq _ (mem_required_bound hb)
      · rw [he]; exact hreq _ (mem_required_ident hmem hb)
    have hdeps : ∃ node deps, a.lookup (innerToOuter key.args t.ident) = some (node, deps) ∧
        deps.isEmpty = true := by
      unfold innerToOuter at hk ⊢
      cases hf : key.args.find? (fun x => decide (x.binding = t.ident)) with
      | some b =>
        rw [hf] at h hk
        simp only [] at h hk ⊢
        obtain ⟨n0, hn0, _⟩ := bind_ok h
        obtain ⟨deps, he, hd⟩ := plain_ok hn0
        exact ⟨n0, deps, lookup_of_ev hev hk he, hd⟩
      | none =>
        rw [hf] at h hk
        simp only [] at h hk ⊢
        obtain ⟨deps, he, hd⟩ := plain_ok h
        exact ⟨n, deps, lookup_of_ev hev hk he, hd⟩
    obtain ⟨node, deps, hl, hd⟩ := hdeps
    rw [bind_ok_eq (getArch_of_lookup hl)]
    simp only []
    rw [if_neg (by simp [hd])]
    exact ⟨_, rfl⟩
  · rw [if_neg hna] at h ⊢
    by_cases hany : (key.args.any fun x => decide (x.binding = t.ident) || t.args.contains x.binding) = true
    · rw [if_pos hany] at h
      cases h
    · rw [if_neg hany] at h
      have hnone : key.args.find? (fun x => decide (x.binding = t.ident) || t.args.contains x.binding) = none := by
        apply List.find?_eq_none.2
        intro x hx hp
        exact hany (List.any_eq_true.2 ⟨x, hx, hp⟩)
      rw [hnone]
      simp only []
      have hno : ∀ b ∈ key.args, b.binding ≠ t.ident ∧ ∀ x ∈ t.args, b.binding ≠ x := by
        intro b hb
        have := List.find?_eq_none.1 hnone b hb
        simp only [Bool.or_eq_true, decide_eq_true_eq, List.contains_iff_mem, not_or] at this
        exact ⟨this.1, fun x hx hbx => this.2 (hbx ▸ hx)⟩
      obtain ⟨g, hg, h⟩ := bind_ok h
      have hkt : t.ident ∈ keys a := hreq _ (mem_required_ident hmem fun b hb => (hno b hb).1)
      have hlg := lookup_of_ev hev hkt hg
      rw [bind_ok_eq (getArch_of_lookup hlg)]
      cases g with
      | mk gn reqArgs =>
        simp only [] at h ⊢
        by_cases hlen : reqArgs.length ≠ t.args.length
        · rw [if_pos hlen] at h
          cases h
        · rw [if_neg hlen] at h ⊢
          obtain ⟨acts, hacts, _⟩ := bind_ok h
          obtain ⟨node', hnode'⟩ := actuals_substArgs hev reqArgs t.args gn acts (by simpa using hlen)
            (fun x hx => hreq _ (mem_required_arg hmem hx fun b hb => (hno b hb).2 x hx))
            (fun g' hg' => hA _ (lookup_mem a _ _ hlg) g' hg') hacts
          rw [bind_ok_eq hnode']
          exact ⟨_, rfl⟩

theorem evalTypes_transformSubmodules {key : TypClause GenericsDef} {m : ModuleDef} {a : Archs}
    {ev : Str → Except Fail (Node × List GenericsDef)} (decls : Str → List (FieldDef × TypClause Str))
    (hev : ∀ name v, a.lookup name = some v → ev name = .ok v) (hA : ArchOK a)
    (hreq : ∀ s ∈ requiredSymbols key m, s ∈ keys a) :
    ∀ (l : List (FieldDef × TypClause Str)) (own : List (FieldDef × Node)),
      (∀ s ∈ l, s ∈ m.submodules) → l.any (fun s => s.1.kard = .cluster 0) = false →
      l.mapM (fun (s : FieldDef × TypClause Str) => do
        let n ← Spec.evalType ev decls key.args s.2
        .ok (s.1, n)) = .ok own →
      ∃ out, transformSubmodules key a l = .ok out
  | [], _, _, _, _ => by
    unfold transformSubmodules
    exact ⟨_, rfl⟩
  | (f, t) :: r, own, hsub, hz, h => by
    simp only [List.mapM_cons] at h
    obtain ⟨o1, ho1, h⟩ := bind_ok h
    obtain ⟨os, hos, _⟩ := bind_ok h
    obtain ⟨n, hn, _⟩ := bind_ok ho1
    simp only [List.any_cons, Bool.or_eq_false_iff, decide_eq_false_iff_not] at hz
    obtain ⟨s, hs⟩ := evalType_transformSubmodule decls hev hA hreq (hsub _ (List.mem_cons_self ..)) hz.1 hn
    obtain ⟨rest, hrest⟩ := evalTypes_transformSubmodules decls hev hA hreq r os
      (fun x hx => hsub x (List.mem_cons_of_mem _ hx)) hz.2 hos
    unfold transformSubmodules
    have : mapErr (fun sp => { sp with submodule := some f.display }) (transformSubmodule f key t a) = .ok s := by
      rw [hs]; rfl
    rw [bind_ok_eq this, bind_ok_eq hrest]
    exact ⟨_, rfl⟩

/-! ### one module -/

theorem allDistinct_dupBinding : ∀ (l : List GenericsDef),
    Spec.allDistinct (l.map (·.binding)) = true → dupBinding l = none
  | [], _ => rfl
  | g :: r, h => by
    simp only [List.map_cons, Spec.allDistinct, Bool.and_eq_true, Bool.not_eq_true'] at h
    unfold dupBinding
    have : r.find? (fun b => decide (g.binding = b.binding)) = none := by
      apply List.find?_eq_none.2
      intro b hb hp
      have hm : g.binding ∈ r.map (·.binding) := by
        simp only [decide_eq_true_eq] at hp
        exact hp ▸ List.mem_map.2 ⟨b, hb, rfl⟩
      have hc : (r.map (·.binding)).contains g.binding = true := by simpa using hm
      rw [h.1] at hc
      cases hc
    rw [this]
    exact allDistinct_dupBinding r h.2

theorem bodyOf_transformModule {d : Def} (hs : Supported d) {key : TypClause GenericsDef} {m : ModuleDef}
    {a : Archs} {ev : Str → Except Fail (Node × List GenericsDef)}
    (hmem : (key, m) ∈ d.modules) (hlook : Spec.lookupModule d key.ident = .ok (key, m))
    (hev : ∀ name v, a.lookup name = some v → ev name = .ok v) (ht : TableOK d a) (hA : ArchOK a)
    (hreq : ∀ s ∈ requiredSymbols key m, s ∈ keys a)
    {v : Node × List GenericsDef} (h : Spec.bodyOf d ev key.ident = .ok v) :
    ∃ v', transformModule key m a d.links = .ok v' := by
  rw [bodyOf_of_lookup hlook] at h
  simp only [] at h
  by_cases h1 : (!Spec.allDistinct (key.args.map (·.binding))) = true
  · rw [if_pos h1] at h; cases h
  rw [if_neg h1] at h
  by_cases h2 : m.gates.any (fun g => g.kard = .cluster 0) = true
  · rw [if_pos h2] at h; cases h
  rw [if_neg h2] at h
  by_cases h3 : m.submodules.any (fun s => s.1.kard = .cluster 0) = true
  · rw [if_pos h3] at h; cases h
  rw [if_neg h3] at h
  obtain ⟨_, _, h⟩ := bind_ok h
  obtain ⟨own, hown, h⟩ := bind_ok h
  obtain ⟨P, hP, h⟩ := bind_ok h
  obtain ⟨css, hcss, _⟩ := bind_ok h
  unfold transformModule
  rw [allDistinct_dupBinding _ (by simpa using h1)]
  simp only []
  -- gates
  have hg : transformGates key.ident m.gates = .ok m.gates.eraseDups := by
    unfold transformGates
    have : m.gates.find? (fun v => decide (v.kard = .cluster 0)) = none := by
      apply List.find?_eq_none.2
      intro g hg hp
      exact h2 (List.any_eq_true.2 ⟨g, hg, hp⟩)
    rw [this]
  rw [bind_ok_eq hg]
  -- submodules
  obtain ⟨subs, hsubs⟩ := evalTypes_transformSubmodules (Spec.ownDecls d) hev hA hreq m.submodules own
    (fun s hs' => hs') (by simpa using h3) hown
  rw [bind_ok_eq hsubs]
  -- parent
  have hpar : ∃ inh, inheritFrom a m.gates.eraseDups subs m.inherit = .ok inh := by
    unfold inheritFrom
    cases hinh : m.inherit with
    | none => exact ⟨_, rfl⟩
    | some p =>
      simp only []
      obtain ⟨vp, hvp⟩ := lookup_of_mem_keys a _ (hreq _ (mem_required_inherit hinh))
      rw [bind_ok_eq (getArch_of_lookup hvp)]
      exact ⟨_, rfl⟩
  obtain ⟨inh, hinh⟩ := hpar
  rw [bind_ok_eq hinh]
  -- identify the model's intermediate values with the denotation's
  have hPsubs : ∃ P', Spec.parentOf ev m.inherit = .ok P' ∧
      inh = (extendSet m.gates.eraseDups P'.gates, subs ++ P'.subs, P'.conns) ∧
      ∀ s ∈ P'.subs, s.2.typ ∈ idents d := by
    unfold inheritFrom at hinh
    unfold Spec.parentOf
    cases hi : m.inherit with
    | none =>
      rw [hi] at hinh
      cases hinh
      exact ⟨_, rfl, by simp [extendSet, Node.gates, Node.subs, Node.conns],
        fun s hs' => by simp [Node.subs] at hs'⟩
    | some p =>
      rw [hi] at hinh
      simp only [] at hinh ⊢
      obtain ⟨arch, harch, hinh⟩ := bind_ok hinh
      cases hinh
      have hl := getArch_lookup harch
      rw [bind_ok_eq (hev _ _ hl)]
      refine ⟨_, rfl, rfl, ?_⟩
      obtain ⟨_, km', hkm', hname, _, hshape⟩ := ht _ _ hl
      have : km'.1.args = [] := hs.plainParent (key, m) hmem p hi km' hkm' hname
      rw [this] at hshape
      exact shape_plain _ _ hshape
  obtain ⟨P', hP', rfl, hP'subs⟩ := hPsubs
  rw [hP] at hP'
  have eP := ok_inj hP'
  subst eP
  obtain ⟨_, hsm, _⟩ := transformSubmodules_evalType hs hev ht P.subs hP'subs m.submodules subs hsubs
  rw [hown] at hsm
  have eo := ok_inj hsm
  subst eo
  -- connections
  obtain ⟨conns, hconns⟩ := expandConns_transformConnections _ _ _ m.connections 0 P.conns css hcss
  simp only []
  rw [bind_ok_eq hconns]
  exact ⟨_, rfl⟩

/-! ### the ordering loop cannot be stuck on denoting modules -/

theorem zip_mem_right {α β : Type} : ∀ (as : List α) (bs : List β), as.length = bs.length →
    ∀ b ∈ bs, ∃ a, (a, b) ∈ as.zip bs
  | [], [], _, b, hb => by cases hb
  | [], _ :: _, h, _, _ => by simp at h
  | _ :: _, [], h, _, _ => by simp at h
  | a :: as, b' :: bs, h, b, hb => by
    rcases List.mem_cons.1 hb with rfl | hb
    · exact ⟨a, by simp⟩
    · obtain ⟨a', ha'⟩ := zip_mem_right as bs (by simpa using h) b hb
      exact ⟨a', by simp [ha']⟩

/-- a defined ⟦name⟧ evaluated every symbol the module requires -/
theorem bodyOf_required {d : Def} {ev : Str → Except Fail (Node × List GenericsDef)}
    {key : TypClause GenericsDef} {m : ModuleDef} (hlook : Spec.lookupModule d key.ident = .ok (key, m))
    {v : Node × List GenericsDef} (h : Spec.bodyOf d ev key.ident = .ok v) :
    ∀ s ∈ requiredSymbols key m, ∃ v', ev s = .ok v' := by
  rw [bodyOf_of_lookup hlook] at h
  simp only [] at h
  by_cases h1 : (!Spec.allDistinct (key.args.map (·.binding))) = true
  · rw [if_pos h1] at h; cases h
  rw [if_neg h1] at h
  by_cases h2 : m.gates.any (fun g => g.kard = .cluster 0) = true
  · rw [if_pos h2] at h; cases h
  rw [if_neg h2] at h
  by_cases h3 : m.submodules.any (fun s => s.1.kard = .cluster 0) = true
  · rw [if_pos h3] at h; cases h
  rw [if_neg h3] at h
  obtain ⟨bs, hbs, h⟩ := bind_ok h
  obtain ⟨own, hown, h⟩ := bind_ok h
  obtain ⟨P, hP, _⟩ := bind_ok h
  intro s hsm
  unfold requiredSymbols at hsm
  simp only [List.mem_append, List.mem_filter, List.mem_map, List.mem_flatMap] at hsm
  rcases hsm with (⟨hsrc, hnb⟩ | ⟨b, hb, rfl⟩) | hpar
  · -- named by a submodule type
    have hnb' : ∀ b ∈ key.args, b.binding ≠ s := by
      intro b hb e
      have : (key.args.any fun a => decide (a.binding = s)) = true :=
        List.any_eq_true.2 ⟨b, hb, by simpa using e⟩
      rw [this] at hnb
      cases hnb
    have hsub : ∃ st ∈ m.submodules, (st.2.ident = s ∨ s ∈ st.2.args) := by
      rcases hsrc with ⟨st, hst, he⟩ | ⟨st, hst, he⟩
      · exact ⟨st, hst, Or.inl he⟩
      · exact ⟨st, hst, Or.inr he⟩
    obtain ⟨st, hst, hor⟩ := hsub
    obtain ⟨o, ho⟩ := mapM_all_ok _ _ hown st hst
    obtain ⟨n, hn, _⟩ := bind_ok ho
    unfold Spec.evalType at hn
    by_cases hna : st.2.args.isEmpty = true
    · rw [if_pos hna] at hn
      rcases hor with he | hin
      · have : key.args.find? (fun a => decide (a.binding = st.2.ident)) = none := by
          apply List.find?_eq_none.2
          intro b hb hp
          simp only [decide_eq_true_eq] at hp
          exact hnb' b hb (he ▸ hp)
        rw [this] at hn
        simp only [] at hn
        obtain ⟨deps, hev, _⟩ := plain_ok hn
        exact ⟨_, he ▸ hev⟩
      · have : st.2.args = [] := by
          cases hx : st.2.args with
          | nil => rfl
          | cons x xs => rw [hx] at hna; cases hna
        rw [this] at hin
        cases hin
    · rw [if_neg hna] at hn
      by_cases hany : (key.args.any fun x => decide (x.binding = st.2.ident) || st.2.args.contains x.binding) = true
      · rw [if_pos hany] at hn
        cases hn
      · rw [if_neg hany] at hn
        obtain ⟨g, hg, hn⟩ := bind_ok hn
        rcases hor with he | hin
        · exact ⟨g, he ▸ hg⟩
        · by_cases hlen : g.2.length ≠ st.2.args.length
          · rw [if_pos hlen] at hn
            cases hn
          · rw [if_neg hlen] at hn
            obtain ⟨acts, hacts, _⟩ := bind_ok hn
            obtain ⟨gp, hgp⟩ := zip_mem_right g.2 st.2.args (by simpa using hlen) s hin
            obtain ⟨act, hact⟩ := mapM_all_ok _ _ hacts (gp, s) hgp
            unfold Spec.actual at hact
            obtain ⟨c, hc, _⟩ := bind_ok hact
            obtain ⟨deps, hev, _⟩ := plain_ok hc
            exact ⟨_, hev⟩
  · exact mapM_all_ok _ _ hbs b hb
  · cases hi : m.inherit with
    | none => rw [hi] at hpar; simp at hpar
    | some p =>
      rw [hi] at hpar hP
      simp only [Option.toList_some, List.mem_singleton] at hpar
      subst hpar
      unfold Spec.parentOf at hP
      obtain ⟨r, hr, _⟩ := bind_ok hP
      exact ⟨r, hr⟩

theorem evalBody_unknown (d : Def) {s : Str} (hs : s ∉ idents d) : ∀ f v, Spec.evalBody d f s ≠ .ok v
  | 0, v => by
    unfold Spec.evalBody
    intro h
    cases h
  | f + 1, v => by
    intro h
    have : Spec.evalBody d (f + 1) s = Spec.bodyOf d (Spec.evalBody d f) s := rfl
    rw [this] at h
    unfold Spec.bodyOf Spec.lookupModule at h
    cases hf : d.modules.find? (fun km => km.1.ident = s) with
    | none => rw [hf] at h; cases h
    | some km =>
      have hm := List.mem_of_find?_eq_some hf
      have he : km.1.ident = s := by simpa using List.find?_some hf
      exact hs (List.mem_map.2 ⟨km, hm, he⟩)

/-- modules the ordering loop cannot place do not denote, at any fuel -/
theorem stuck_no_denotation {d : Def} (hs : Supported d) (stuck : List Entry)
    (hmem : ∀ e ∈ stuck, (e.ident, e.mdef) ∈ d.modules)
    (hreq : ∀ e ∈ stuck, ∃ s ∈ requiredSymbols e.ident e.mdef,
      s ∉ idents d ∨ s ∈ stuck.map (·.ident.ident)) :
    ∀ f, ∀ e ∈ stuck, ∀ v, Spec.evalBody d f e.ident.ident ≠ .ok v
  | 0, e, _, v => by
    unfold Spec.evalBody
    intro h
    cases h
  | f + 1, e, he, v => by
    intro h
    have : Spec.evalBody d (f + 1) e.ident.ident = Spec.bodyOf d (Spec.evalBody d f) e.ident.ident := rfl
    rw [this] at h
    have hlook := lookupModule_of_mem hs (hmem e he)
    obtain ⟨s, hsr, hor⟩ := hreq e he
    obtain ⟨v', hv'⟩ := bodyOf_required hlook h s hsr
    rcases hor with hun | hst
    · exact evalBody_unknown d hun f v' hv'
    · obtain ⟨e', he', hee⟩ := List.mem_map.1 hst
      exact stuck_no_denotation hs stuck hmem hreq f e' he' v' (hee ▸ hv')

/-! ### the work list, the theorem -/

theorem buildAll_complete (d : Def) (hs : Supported d) : ∀ (es : List Entry) (a : Archs),
    Ordered (keys a) es →
    (∀ e ∈ es, e.deps = requiredSymbols e.ident e.mdef ∧ (e.ident, e.mdef) ∈ d.modules ∧
      Spec.lookupModule d e.ident.ident = .ok (e.ident, e.mdef) ∧
      ∃ v, Spec.evalBody d (d.modules.length + 1) e.ident.ident = .ok v) →
    a.length + es.length ≤ d.modules.length →
    Good d a → TableOK d a → ArchOK a → ∃ a', buildAll d.links es a = .ok a'
  | [], a, _, _, _, _, _, _ => by
    unfold buildAll
    exact ⟨_, rfl⟩
  | e :: es, a, hord, hes, hlen, hg, ht, hA => by
    cases hord with
    | cons hdeps hrest =>
      obtain ⟨hd, hmem, hlook, v, hv⟩ := hes e (List.mem_cons_self ..)
      have hreq : ∀ s ∈ requiredSymbols e.ident e.mdef, s ∈ keys a := by rw [← hd]; exact hdeps
      have hle : a.length ≤ d.modules.length := by simp at hlen; omega
      have hev : ∀ name w, a.lookup name = some w → Spec.evalBody d d.modules.length name = .ok w :=
        fun name w hw => hg _ hle name w hw
      have hb : Spec.bodyOf d (Spec.evalBody d d.modules.length) e.ident.ident = .ok v := hv
      obtain ⟨arch, harch⟩ := bodyOf_transformModule hs hmem hlook hev ht hA hreq hb
      have hstep : buildAll d.links [e] a = .ok ((e.ident.ident, arch) :: a) := by
        unfold buildAll
        have : mapErr (fun sp => { sp with module := some e.ident.ident })
            (transformModule e.ident e.mdef a d.links) = .ok arch := by rw [harch]; rfl
        rw [bind_ok_eq this]
        unfold buildAll
        rfl
      obtain ⟨g1, g2, _, _, _⟩ := buildAll_good d hs [e] a _ hstep
        (Ordered.cons hdeps (Ordered.nil _))
        (fun e' he' => by
          rcases List.mem_cons.1 he' with rfl | he'
          · exact ⟨hd, hmem, hlook⟩
          · cases he') hg ht
      have hA' : ArchOK ((e.ident.ident, arch) :: a) := by
        intro x hx g hgm
        simp only [keys, List.map_cons, List.mem_cons]
        right
        rcases List.mem_cons.1 hx with rfl | hx
        · simp only [] at hgm
          rw [(transformModule_typ harch).2] at hgm
          exact hreq _ (mem_required_bound hgm)
        · exact hA x hx g hgm
      obtain ⟨a', ha'⟩ := buildAll_complete d hs es ((e.ident.ident, arch) :: a) hrest
        (fun e' he' => hes e' (List.mem_cons_of_mem _ he')) (by simp at hlen ⊢; omega) g1 g2 hA'
      refine ⟨a', ?_⟩
      unfold buildAll
      have : mapErr (fun sp => { sp with module := some e.ident.ident })
          (transformModule e.ident e.mdef a d.links) = .ok arch := by rw [harch]; rfl
      rw [bind_ok_eq this]
      exact ha'

/-- **completeness**: a supported description that denotes is accepted by `transform`, with the
    denoted tree -/
theorem denoteTree_transform (d : Def) (hsup : Spec.unsupported d = false) (n : Node)
    (h : Spec.denoteTree d = .ok n) : transform d = .ok n := by
  have hs := supported_of hsup
  -- every module denotes, and the entry is a module
  unfold Spec.denoteTree at h
  obtain ⟨bs, hbs, h⟩ := bind_ok h
  have hall := mapM_all_ok _ _ hbs
  cases hfind : d.modules.find? (fun km => km.1.ident = d.entry) with
  | none => rw [hfind] at h; cases h
  | some kmE =>
    rw [hfind] at h
    simp only [] at h
    obtain ⟨rE, hrE, h⟩ := bind_ok h
    cases h
    have hentry : d.entry ∈ idents d :=
      List.mem_map.2 ⟨kmE, List.mem_of_find?_eq_some hfind, by simpa using List.find?_some hfind⟩
    -- the ordering loop succeeds
    have hordok : ∃ ordered, orderLoop (entries d).length [] (entries d) [] = .ok ordered := by
      cases ho : orderLoop (entries d).length [] (entries d) [] with
      | ok o => exact ⟨o, rfl⟩
      | error f =>
        exfalso
        obtain ⟨stuck, _, hne, hsub, hreq⟩ := orderLoop_stuck (entries d) _ [] (entries d) [] f (Nat.le_refl _)
          (fun x hx => Or.inr hx) (fun x hx => hx) (fun s => by simp) ho
        have hmem : ∀ e ∈ stuck, (e.ident, e.mdef) ∈ d.modules ∧ e.deps = requiredSymbols e.ident e.mdef := by
          intro e he
          have := hsub e he
          simp only [entries, List.mem_map] at this
          obtain ⟨km, hkm, rfl⟩ := this
          exact ⟨hkm, rfl⟩
        have hreq' : ∀ e ∈ stuck, ∃ s ∈ requiredSymbols e.ident e.mdef,
            s ∉ idents d ∨ s ∈ stuck.map (·.ident.ident) := by
          intro e he
          obtain ⟨s, hs', hor⟩ := hreq e he
          refine ⟨s, (hmem e he).2 ▸ hs', ?_⟩
          rcases hor with hor | hor
          · left
            simpa [entries, idents, List.map_map, Function.comp] using hor
          · exact Or.inr hor
        cases hst : stuck with
        | nil => exact hne hst
        | cons e0 rest =>
          have he0 : e0 ∈ stuck := by rw [hst]; exact List.mem_cons_self ..
          obtain ⟨b, hb⟩ := hall (e0.ident, e0.mdef) (hmem e0 he0).1
          exact stuck_no_denotation hs stuck (fun e he => (hmem e he).1) hreq' _ e0 he0 b hb
    obtain ⟨ordered, hord⟩ := hordok
    obtain ⟨tail, ht, hOrd, hsub⟩ := (orderLoop_spec _ [] (entries d) [] (Nat.le_refl _)).2 ordered hord
    simp only [List.nil_append] at ht
    subst ht
    obtain ⟨hcov, hlen⟩ := orderLoop_complete _ _ _ _ _ hord
    have hes : ∀ e ∈ ordered, e.deps = requiredSymbols e.ident e.mdef ∧ (e.ident, e.mdef) ∈ d.modules ∧
        Spec.lookupModule d e.ident.ident = .ok (e.ident, e.mdef) ∧
        ∃ v, Spec.evalBody d (d.modules.length + 1) e.ident.ident = .ok v := by
      intro e he
      have := hsub e he
      simp only [entries, List.mem_map] at this
      obtain ⟨km, hkm, rfl⟩ := this
      exact ⟨rfl, hkm, lookupModule_of_mem hs hkm, hall km hkm⟩
    obtain ⟨archs, harchs⟩ := buildAll_complete d hs ordered [] hOrd hes
      (by simp [entries] at hlen ⊢; omega) (fun f _ name v hl => by cases hl)
      (fun name v hl => by cases hl) (fun e he => by cases he)
    -- the entry is stored
    obtain ⟨_, _, _, hkeys, _⟩ := buildAll_good d hs ordered [] archs harchs hOrd
      (fun e he => ⟨(hes e he).1, (hes e he).2.1, (hes e he).2.2.1⟩)
      (fun f _ name v hl => by cases hl) (fun name v hl => by cases hl)
    obtain ⟨kmX, hkmX, hkX⟩ := List.mem_map.1 hentry
    have heX : (⟨kmX.1, kmX.2, requiredSymbols kmX.1 kmX.2⟩ : Entry) ∈ ordered :=
      hcov _ (Or.inr (List.mem_map.2 ⟨kmX, hkmX, rfl⟩))
    obtain ⟨vE, hvE⟩ := lookup_of_mem_keys archs _ (hkeys _ heX)
    simp only [] at hvE
    rw [hkX] at hvE
    have htr : transform d = .ok vE.1 := by
      unfold transform elaborate
      rw [bind_ok_eq hord, bind_ok_eq harchs, hvE]
    have := transform_denoteTree d hsup vE.1 htr
    unfold Spec.denoteTree at this
    rw [bind_ok_eq hbs, hfind] at this
    simp only [] at this
    rw [bind_ok_eq hrE] at this
    rw [htr, ← ok_inj this]

end Ndl

/-
C20 helper lemmas: `Gate::dissolve_paths` (`Own.dissolve`) and the destructor step `Own.cutOnFree`
only remove handles, release exactly the handles they remove, always terminate (fuel
`connCount + 1` suffices on every wiring, rings included) and leave no connection in the gates they
were called on.
-/
import Desverif.Model.Own
namespace Own
variable {α : Type} [DecidableEq α]

theorem countP_partition {β : Type} (p q : β → Bool) (l : List β) :
    l.countP q = (l.filter p).countP q + (l.filter (fun x => !p x)).countP q := by
  induction l with
  | nil => simp
  | cons a t ih =>
    by_cases hp : p a <;> by_cases hq : q a <;>
      simp [hp, hq] <;> omega

theorem length_partition {β : Type} (p : β → Bool) (l : List β) :
    l.length = (l.filter p).length + (l.filter (fun x => !p x)).length := by
  induction l with
  | nil => simp
  | cons a t ih => by_cases hp : p a <;> simp [hp] <;> omega

theorem count_map_tgt (l : List (Edge α)) (x : α) :
    (l.map (·.tgt)).count x = l.countP (fun e => e.tgt = x) := by
  induction l with
  | nil => simp
  | cons a t ih =>
    by_cases h : a.tgt = x <;> simp [h, ih]

/-- `es'` is what is left of `es` after releasing the handles `rel` -/
structure Shrinks (es es' : List (Edge α)) (rel : List α) : Prop where
  sub : es'.Sublist es
  keep : ∀ e ∈ es, e.via = Via.field → e ∈ es'
  cnt : ∀ x, inDeg es x = inDeg es' x + rel.count x
  len : es.length = es'.length + rel.length

theorem Shrinks.refl (es : List (Edge α)) : Shrinks es es [] :=
  ⟨List.Sublist.refl _, fun _ h _ => h, fun _ => by simp, by simp⟩

theorem Shrinks.mem {es es' : List (Edge α)} {rel : List α} (h : Shrinks es es' rel) {e : Edge α}
    (he : e ∈ es') : e ∈ es := h.sub.subset he

/-- removing the edges that satisfy `p` (none of them an ordinary field) -/
theorem shrinks_filter (es : List (Edge α)) (p : Edge α → Bool)
    (hp : ∀ e, p e = true → e.via ≠ Via.field) :
    Shrinks es (es.filter (fun e => !p e)) ((es.filter p).map (·.tgt)) := by
  refine ⟨List.filter_sublist, ?_, ?_, ?_⟩
  · intro e he hf
    rw [List.mem_filter]
    refine ⟨he, ?_⟩
    cases hpe : p e with
    | false => rfl
    | true => exact absurd hf (hp e hpe)
  · intro x
    rw [count_map_tgt]
    unfold inDeg
    have := countP_partition p (fun e : Edge α => decide (e.tgt = x)) es
    omega
  · rw [List.length_map]
    have := length_partition p es
    omega

theorem inSlot_not_field {g : α} {j : Nat} (e : Edge α) (h : Edge.inSlot g j e = true) :
    e.via ≠ Via.field := by
  intro hf
  simp [Edge.inSlot, hf, Via.slot?] at h

theorem shrinks_dropSlot (es : List (Edge α)) (g : α) (j : Nat) :
    Shrinks es (dropSlot es g j) ((takeSlot es g j).map (·.tgt)) :=
  shrinks_filter es (Edge.inSlot g j) (fun e h => inSlot_not_field e h)

section loop
variable (rec : List (Edge α) → α → DRes α) (g : α)

theorem slotLoop_shrinks (hrec : ∀ es p r, rec es p = some r → Shrinks es r.1 r.2) :
    ∀ js es r, slotLoop rec g js es = some r → Shrinks es r.1 r.2 := by
  intro js
  induction js with
  | nil =>
    intro es r h
    simp [slotLoop] at h
    subst h
    exact Shrinks.refl es
  | cons j js ih =>
    intro es r h
    have h0 := shrinks_dropSlot es g j
    unfold slotLoop at h
    simp only at h
    split at h
    · split at h
      · exact absurd h (by simp)
      · rename_i es' r' hl
        have h1 := ih _ _ hl
        simp only [Option.some.injEq] at h
        subst h
        refine ⟨h1.sub.trans h0.sub, fun e he hf => h1.keep e (h0.keep e he hf) hf, ?_, ?_⟩
        · intro x
          have a := h0.cnt x
          have b := h1.cnt x
          simp only [List.count_append] at *
          omega
        · have a := h0.len
          have b := h1.len
          simp only [List.length_append] at *
          omega
    · rename_i p hp
      split at h
      · exact absurd h (by simp)
      · rename_i es2 r1 hr
        have h1 := hrec _ _ _ hr
        split at h
        · exact absurd h (by simp)
        · rename_i es' r' hl
          have h2 := ih _ _ hl
          simp only [Option.some.injEq] at h
          subst h
          refine ⟨h2.sub.trans (h1.sub.trans h0.sub),
            fun e he hf => h2.keep e (h1.keep e (h0.keep e he hf) hf) hf, ?_, ?_⟩
          · intro x
            have a := h0.cnt x
            have b := h1.cnt x
            have c := h2.cnt x
            simp only [List.count_append] at *
            omega
          · have a := h0.len
            have b := h1.len
            have c := h2.len
            simp only [List.length_append] at *
            omega

/-- after the loop, no edge of `g` lives in a slot that the loop visited -/
theorem slotLoop_clears (hrec : ∀ es p r, rec es p = some r → Shrinks es r.1 r.2) :
    ∀ js es r, slotLoop rec g js es = some r →
      ∀ e ∈ r.1, e.src = g → ∀ j, e.via.slot? = some j → j ∉ js := by
  intro js
  induction js with
  | nil => intro es r _ e _ _ j _; simp
  | cons j0 js ih =>
    intro es r h e he hsrc j hj
    have hdrop : ∀ e' ∈ dropSlot es g j0, e'.src = g → e'.via.slot? ≠ some j0 := by
      intro e' he' hs hv
      simp [dropSlot, List.mem_filter, Edge.inSlot, hs, hv] at he'
    unfold slotLoop at h
    simp only at h
    split at h
    · split at h
      · exact absurd h (by simp)
      · rename_i es' r' hl
        have hsh := slotLoop_shrinks rec g hrec _ _ _ hl
        simp only [Option.some.injEq] at h
        subst h
        have hin : e ∈ dropSlot es g j0 := hsh.sub.subset he
        have hne : j ≠ j0 := fun hc => hdrop e hin hsrc (hc ▸ hj)
        have := ih _ _ hl e he hsrc j hj
        simp [hne, this]
    · rename_i p hp
      split at h
      · exact absurd h (by simp)
      · rename_i es2 r1 hr
        have h1 := hrec _ _ _ hr
        split at h
        · exact absurd h (by simp)
        · rename_i es' r' hl
          have hsh := slotLoop_shrinks rec g hrec _ _ _ hl
          simp only [Option.some.injEq] at h
          subst h
          have hin : e ∈ dropSlot es g j0 := h1.sub.subset (hsh.sub.subset he)
          have hne : j ≠ j0 := fun hc => hdrop e hin hsrc (hc ▸ hj)
          have := ih _ _ hl e he hsrc j hj
          simp [hne, this]

end loop

theorem dissolve_shrinks : ∀ (f : Nat) (locked : List α) (es : List (Edge α)) (g : α) r,
    dissolve f locked es g = some r → Shrinks es r.1 r.2 := by
  intro f
  induction f with
  | zero => intro locked es g r h; simp [dissolve] at h
  | succ f ih =>
    intro locked es g r h
    unfold dissolve at h
    split at h
    · simp only [Option.some.injEq] at h
      subst h
      exact Shrinks.refl es
    · exact slotLoop_shrinks _ g (fun es p r hr => ih _ es p r hr) _ _ _ h

/-- a gate whose lock is free ends up without connections -/
theorem dissolve_clears (f : Nat) (locked : List α) (es : List (Edge α)) (g : α) r
    (hg : g ∉ locked) (h : dissolve f locked es g = some r) :
    ∀ e ∈ r.1, e.src = g → e.isConn = false := by
  cases f with
  | zero => simp [dissolve] at h
  | succ f =>
    unfold dissolve at h
    rw [if_neg hg] at h
    intro e he hsrc
    have hrec : ∀ es p r, dissolve f (g :: locked) es p = some r → Shrinks es r.1 r.2 :=
      fun es p r hr => dissolve_shrinks f _ es p r hr
    have hsh := slotLoop_shrinks _ g hrec _ _ _ h
    cases hs : e.via.slot? with
    | none => simp [Edge.isConn, Via.isConn, hs]
    | some j =>
      exfalso
      have hin : e ∈ es := hsh.sub.subset he
      have hj : j ∈ slotIds es g := by
        unfold slotIds
        rw [List.mem_filterMap]
        exact ⟨e, hin, by simp [hsrc, hs]⟩
      exact slotLoop_clears _ g hrec _ _ _ h e he hsrc j hs hj

/-! ### termination -/

theorem connCount_le_of_shrinks {es es' : List (Edge α)} {rel : List α} (h : Shrinks es es' rel) :
    connCount es' ≤ connCount es := h.sub.countP_le

theorem connCount_dropSlot_lt (es : List (Edge α)) (g : α) (j : Nat) (p : α)
    (hp : peerOf (takeSlot es g j) = some p) : connCount (dropSlot es g j) < connCount es := by
  unfold connCount dropSlot
  have hpart := countP_partition (Edge.inSlot g j) Edge.isConn es
  have hpos : 0 < (es.filter (Edge.inSlot g j)).countP Edge.isConn := by
    rw [List.countP_pos_iff]
    unfold peerOf takeSlot at hp
    obtain ⟨e, he, _⟩ := List.exists_of_findSome?_eq_some hp
    refine ⟨e, he, ?_⟩
    have := (List.mem_filter.mp he).2
    simp [Edge.inSlot] at this
    simp [Edge.isConn, Via.isConn, this.2]
  omega

section loop_some
variable (rec : List (Edge α) → α → DRes α) (g : α) (F : Nat)

theorem slotLoop_some (hrec : ∀ es p r, rec es p = some r → Shrinks es r.1 r.2)
    (hsome : ∀ es p, connCount es < F → (rec es p).isSome) :
    ∀ js es, connCount es ≤ F → (slotLoop rec g js es).isSome := by
  intro js
  induction js with
  | nil => intro es _; simp [slotLoop]
  | cons j js ih =>
    intro es hF
    have h0 := shrinks_dropSlot es g j
    have hle := connCount_le_of_shrinks h0
    unfold slotLoop
    simp only
    split
    · have := ih (dropSlot es g j) (by omega)
      split
      · rename_i hn; rw [hn] at this; simp at this
      · simp
    · rename_i p hp
      have hlt := connCount_dropSlot_lt es g j p hp
      have hs := hsome (dropSlot es g j) p (by omega)
      split
      · rename_i hn; rw [hn] at hs; simp at hs
      · rename_i es2 r1 hr
        have h1 := hrec _ _ _ hr
        have hle2 : connCount es2 ≤ connCount (dropSlot es g j) := connCount_le_of_shrinks h1
        have := ih es2 (by omega)
        split
        · rename_i hn; rw [hn] at this; simp at this
        · simp

end loop_some

/-- **fuel `connCount + 1` is enough** whatever the wiring (chains, rings, several links per gate) -/
theorem dissolve_some : ∀ (f : Nat) (locked : List α) (es : List (Edge α)) (g : α),
    connCount es < f → (dissolve f locked es g).isSome := by
  intro f
  induction f with
  | zero => intro _ _ _ h; omega
  | succ f ih =>
    intro locked es g h
    unfold dissolve
    split
    · simp
    · exact slotLoop_some _ g f (fun es p r hr => dissolve_shrinks f _ es p r hr)
        (fun es p hlt => ih _ es p hlt) _ es (by omega)

/-! ### `dissolveAll` and `cutOnFree` -/

theorem dissolveAll_spec : ∀ (gs : List α) (es : List (Edge α)),
    ∃ r, dissolveAll gs es = some r ∧ Shrinks es r.1 r.2 ∧
      ∀ g ∈ gs, ∀ e ∈ r.1, e.src = g → e.isConn = false := by
  intro gs
  induction gs with
  | nil => intro es; exact ⟨(es, []), rfl, Shrinks.refl es, by simp⟩
  | cons g gs ih =>
    intro es
    have hs := dissolve_some (dissolveFuel es) [] es g (by simp [dissolveFuel])
    obtain ⟨r1, hr1⟩ := Option.isSome_iff_exists.mp hs
    have sh1 := dissolve_shrinks _ _ _ _ _ hr1
    have cl1 := dissolve_clears _ _ _ _ _ (by simp) hr1
    obtain ⟨r2, hr2, sh2, cl2⟩ := ih r1.1
    refine ⟨(r2.1, r1.2 ++ r2.2), ?_, ?_, ?_⟩
    · unfold dissolveAll
      rw [hr1]
      simp only
      rw [hr2]
    · refine ⟨sh2.sub.trans sh1.sub, fun e he hf => sh2.keep e (sh1.keep e he hf) hf, ?_, ?_⟩
      · intro x
        have a := sh1.cnt x
        have b := sh2.cnt x
        simp only [List.count_append] at *
        omega
      · have a := sh1.len
        have b := sh2.len
        simp only [List.length_append] at *
        omega
    · intro g' hg' e he hsrc
      rcases List.mem_cons.mp hg' with rfl | hin
      · exact cl1 e (sh2.sub.subset he) hsrc
      · exact cl2 g' hin e he hsrc

theorem cutOnFree_spec (sem : Sem α) (es : List (Edge α)) (v : α) :
    ∃ r, cutOnFree sem es v = some r ∧ Shrinks es r.1 r.2 ∧
      (sem.isCtx v = true → ∀ g, (⟨v, g, Via.field⟩ : Edge α) ∈ es → sem.isGate g = true →
        ∀ e ∈ r.1, e.src = g → e.isConn = false) := by
  have h0 : Shrinks es (es.filter (fun e => e.via ≠ Via.entry v))
      ((es.filter (fun e => e.via = Via.entry v)).map (·.tgt)) := by
    have := shrinks_filter es (fun e => decide (e.via = Via.entry v))
      (fun e h => by simp at h; rw [h]; intro hc; cases hc)
    simpa using this
  unfold cutOnFree
  simp only
  cases hc : sem.isCtx v with
  | false =>
    simp only [Bool.false_eq_true, if_false]
    exact ⟨_, rfl, h0, by intro h; cases h⟩
  | true =>
    simp only [if_true]
    obtain ⟨r, hr, sh, cl⟩ := dissolveAll_spec
      (gatesOf sem (es.filter (fun e => e.via ≠ Via.entry v)) v)
      (es.filter (fun e => e.via ≠ Via.entry v))
    rw [hr]
    refine ⟨_, rfl, ?_, ?_⟩
    · refine ⟨sh.sub.trans h0.sub, fun e he hf => sh.keep e (h0.keep e he hf) hf, ?_, ?_⟩
      · intro x
        have a := h0.cnt x
        have b := sh.cnt x
        simp only [List.count_append] at *
        omega
      · have a := h0.len
        have b := sh.len
        simp only [List.length_append] at *
        omega
    · intro _ g hg hgate e he hsrc
      refine cl g ?_ e he hsrc
      unfold gatesOf
      rw [List.mem_map]
      refine ⟨⟨v, g, Via.field⟩, ?_, rfl⟩
      rw [List.mem_filter]
      exact ⟨h0.keep _ hg rfl, by simp [hgate]⟩

end Own

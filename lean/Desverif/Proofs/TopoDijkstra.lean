/-
`Topology::dijkstra` with a first-in first-out work-list is a breadth-first search.
Loop invariant `DInv`: the queue is sorted by distance and spans at most two consecutive levels;
every queue element carries a real walk of its distance and the first edge of that walk; every
out-neighbour of a visited node is visited or waiting in the queue at distance ≤ (any walk length to
the node) + 1.  From these: a node is visited with its minimum hop count, and the recorded entry is
the first edge of a minimum-hop path.
-/
import Desverif.Proofs.TopoGraph
namespace Topo

def NextOK (t : T) (s : Nat) (q : QE) : Prop :=
  match q.next with
  | none => q.idx = s ∧ q.distance = 0
  | some fe => fe.src = s ∧ fe.e ∈ t.edgesAt s ∧ ∃ d, q.distance = d + 1 ∧ t.Walk fe.e.dst q.idx d

/-- `fe` leaves `s` and is the first edge of a minimum-hop walk from `s` to `j` -/
def Good (t : T) (s j : Nat) (fe : FullEdge) : Prop :=
  fe.src = s ∧ fe.e ∈ t.edgesAt s ∧
    ∃ d, t.Walk fe.e.dst j d ∧ t.Walk s j (d + 1) ∧ ∀ m, t.Walk s j m → d + 1 ≤ m

structure DInv (t : T) (s : Nat) (V : List Nat) (Q : List QE) (M : List (Nat × FullEdge)) : Prop where
  base : s ∈ V ∨ ∃ q ∈ Q, q.distance = 0
  sorted : Q.Pairwise (fun a b => a.distance ≤ b.distance)
  spread : ∀ a ∈ Q, ∀ b ∈ Q, b.distance ≤ a.distance + 1
  qok : ∀ q ∈ Q, q.idx < t.nodes.length ∧ t.Walk s q.idx q.distance ∧ NextOK t s q
  frontier : ∀ v ∈ V, ∀ k, t.Walk s v k → ∀ x, t.Adj v x →
    x ∈ V ∨ ∃ q ∈ Q, q.idx = x ∧ q.distance ≤ k + 1
  vnodup : V.Nodup
  vlt : ∀ v ∈ V, v < t.nodes.length
  vreach : ∀ v ∈ V, t.Reach s v
  mgood : ∀ p ∈ M, p.1 ∈ V ∧ p.1 ≠ s ∧ Good t s p.1 p.2
  mall : ∀ v ∈ V, v ≠ s → ∃ fe, (v, fe) ∈ M
  mkeys : (M.map (·.1)).Nodup

/-- every walk from the source ends in a visited node or is at least as long as the distance of
    some waiting queue element -/
theorem DInv.cover {t : T} {s : Nat} {V : List Nat} {Q : List QE} {M : List (Nat × FullEdge)}
    (h : DInv t s V Q M) : ∀ {x m}, t.Walk s x m → x ∈ V ∨ ∃ q ∈ Q, q.distance ≤ m := by
  intro x m hw
  induction hw with
  | refl =>
    rcases h.base with hb | ⟨q, hq, hd⟩
    · exact Or.inl hb
    · exact Or.inr ⟨q, hq, by omega⟩
  | @step b c k hwb hadj ih =>
    rcases ih with hb | ⟨q, hq, hd⟩
    · rcases h.frontier b hb k hwb c hadj with hc | ⟨q, hq, _, hd⟩
      · exact Or.inl hc
      · exact Or.inr ⟨q, hq, hd⟩
    · exact Or.inr ⟨q, hq, by omega⟩

/-- the queue elements pushed when `cur` is visited -/
def pushes (t : T) (V' : List Nat) (cur : QE) : List QE :=
  (t.edgesAt cur.idx).filterMap fun e =>
    if V'.contains e.dst then none
    else some (QE.mk e.dst (cur.distance + 1) (some (cur.next.getD ⟨cur.idx, e⟩)))

def newMapping (M : List (Nat × FullEdge)) (cur : QE) : List (Nat × FullEdge) :=
  match cur.next with
  | some hop => M ++ [(cur.idx, hop)]
  | none => M

theorem mem_pushes {t : T} {V' : List Nat} {cur q : QE} (h : q ∈ pushes t V' cur) :
    ∃ e ∈ t.edgesAt cur.idx, e.dst ∉ V' ∧ q = QE.mk e.dst (cur.distance + 1) (some (cur.next.getD ⟨cur.idx, e⟩)) := by
  obtain ⟨e, he, hq⟩ := List.mem_filterMap.mp h
  have hq' : (if V'.contains e.dst = true then none
      else some (QE.mk e.dst (cur.distance + 1) (some (cur.next.getD ⟨cur.idx, e⟩)))) = some q := hq
  cases hc : V'.contains e.dst with
  | true => rw [hc] at hq'; simp at hq'
  | false =>
    rw [hc] at hq'
    simp only [Bool.false_eq_true, if_false] at hq'
    exact ⟨e, he, by simpa using hc, (Option.some.inj hq').symm⟩

theorem DInv.skip {t : T} {s : Nat} {V : List Nat} {cur : QE} {rest : List QE}
    {M : List (Nat × FullEdge)} (h : DInv t s V (cur :: rest) M) (hv : cur.idx ∈ V) :
    DInv t s V rest M := by
  have hcur := h.qok cur List.mem_cons_self
  refine ⟨?_, (List.pairwise_cons.mp h.sorted).2,
    fun a ha b hb => h.spread a (List.mem_cons_of_mem _ ha) b (List.mem_cons_of_mem _ hb),
    fun q hq => h.qok q (List.mem_cons_of_mem _ hq), ?_, h.vnodup, h.vlt, h.vreach, h.mgood, h.mall, h.mkeys⟩
  · rcases h.base with hb | ⟨q, hq, hd⟩
    · exact Or.inl hb
    · rcases List.mem_cons.mp hq with rfl | hq
      · left
        rw [hd] at hcur
        rw [← T.Walk.zero_eq hcur.2.1]; exact hv
      · exact Or.inr ⟨q, hq, hd⟩
  · intro v hvV k hw x hadj
    rcases h.frontier v hvV k hw x hadj with hx | ⟨q, hq, hqi, hd⟩
    · exact Or.inl hx
    · rcases List.mem_cons.mp hq with rfl | hq
      · left; rw [← hqi]; exact hv
      · exact Or.inr ⟨q, hq, hqi, hd⟩

theorem DInv.visit {t : T} (hwf : t.WF) {s : Nat} {V : List Nat} {cur : QE} {rest : List QE}
    {M : List (Nat × FullEdge)} (h : DInv t s V (cur :: rest) M) (hv : cur.idx ∉ V) :
    DInv t s (V ++ [cur.idx]) (rest ++ pushes t (V ++ [cur.idx]) cur) (newMapping M cur) := by
  obtain ⟨hclt, hcw, hcn⟩ := h.qok cur List.mem_cons_self
  have hfront : ∀ q ∈ cur :: rest, cur.distance ≤ q.distance := by
    intro q hq
    rcases List.mem_cons.mp hq with rfl | hq
    · exact Nat.le_refl _
    · exact (List.pairwise_cons.mp h.sorted).1 q hq
  -- the popped element carries the minimum hop count of its node
  have hmin : ∀ m, t.Walk s cur.idx m → cur.distance ≤ m := by
    intro m hw
    rcases h.cover hw with hx | ⟨q, hq, hd⟩
    · exact absurd hx hv
    · have := hfront q hq; omega
  have hpush : ∀ q ∈ pushes t (V ++ [cur.idx]) cur, q.distance = cur.distance + 1 := by
    intro q hq; obtain ⟨e, _, _, rfl⟩ := mem_pushes hq; rfl
  refine ⟨?_, ?_, ?_, ?_, ?_, ?_, ?_, ?_, ?_, ?_, ?_⟩
  · -- base
    left
    rcases h.base with hb | ⟨q, hq, hd⟩
    · exact List.mem_append_left _ hb
    · have h0 : cur.distance = 0 := by have := hfront q hq; omega
      rw [h0] at hcw
      rw [← T.Walk.zero_eq hcw]; simp
  · -- sorted
    rw [List.pairwise_append]
    refine ⟨(List.pairwise_cons.mp h.sorted).2, ?_, ?_⟩
    · apply List.Pairwise.imp_of_mem (R := fun _ _ => True)
      · intro a b ha hb _; rw [hpush a ha, hpush b hb]; exact Nat.le_refl _
      · exact List.pairwise_of_forall (fun _ _ => trivial)
    · intro a ha b hb
      rw [hpush b hb]
      exact h.spread cur List.mem_cons_self a (List.mem_cons_of_mem _ ha)
  · -- spread
    intro a ha b hb
    rcases List.mem_append.mp ha with ha | ha <;> rcases List.mem_append.mp hb with hb | hb
    · exact h.spread a (List.mem_cons_of_mem _ ha) b (List.mem_cons_of_mem _ hb)
    · rw [hpush b hb]; have := hfront a (List.mem_cons_of_mem _ ha); omega
    · rw [hpush a ha]
      have := h.spread cur List.mem_cons_self b (List.mem_cons_of_mem _ hb); omega
    · rw [hpush a ha, hpush b hb]; omega
  · -- queue elements are genuine
    intro q hq
    rcases List.mem_append.mp hq with hq | hq
    · exact h.qok q (List.mem_cons_of_mem _ hq)
    · obtain ⟨e, he, _, rfl⟩ := mem_pushes hq
      have hadj : t.Adj cur.idx e.dst := ⟨e, he, rfl⟩
      refine ⟨T.adj_lt hwf hadj, T.Walk.step hcw hadj, ?_⟩
      unfold NextOK at hcn ⊢
      cases hn : cur.next with
      | none =>
        rw [hn] at hcn
        simp only [Option.getD_none]
        exact ⟨hcn.1, hcn.1 ▸ he, 0, by rw [hcn.2], T.Walk.refl⟩
      | some fe =>
        rw [hn] at hcn
        simp only [Option.getD_some]
        obtain ⟨h1, h2, d, h3, h4⟩ := hcn
        exact ⟨h1, h2, d + 1, by rw [h3], T.Walk.step h4 hadj⟩
  · -- frontier
    intro v hvV k hw x hadj
    rcases List.mem_append.mp hvV with hvV | hvV
    · rcases h.frontier v hvV k hw x hadj with hx | ⟨q, hq, hqi, hd⟩
      · exact Or.inl (List.mem_append_left _ hx)
      · rcases List.mem_cons.mp hq with rfl | hq
        · left; rw [← hqi]; simp
        · exact Or.inr ⟨q, List.mem_append_left _ hq, hqi, hd⟩
    · simp at hvV; subst hvV
      obtain ⟨e, he, rfl⟩ := hadj
      by_cases hc : e.dst ∈ V ++ [cur.idx]
      · exact Or.inl hc
      · right
        refine ⟨QE.mk e.dst (cur.distance + 1) (some (cur.next.getD ⟨cur.idx, e⟩)), ?_, rfl, ?_⟩
        · apply List.mem_append_right
          apply List.mem_filterMap.mpr
          refine ⟨e, he, ?_⟩
          have : (V ++ [cur.idx]).contains e.dst = false := by simpa using hc
          show (if (V ++ [cur.idx]).contains e.dst = true then none else some _) = some _
          rw [this]; rfl
        · have := hmin k hw; simp only; omega
  · -- visited nodup
    rw [List.nodup_append]
    refine ⟨h.vnodup, by simp, ?_⟩
    intro a ha b hb; simp at hb; subst hb; intro e; subst e; exact hv ha
  · intro v hvV
    rcases List.mem_append.mp hvV with hvV | hvV
    · exact h.vlt v hvV
    · simp at hvV; subst hvV; exact hclt
  · intro v hvV
    rcases List.mem_append.mp hvV with hvV | hvV
    · exact h.vreach v hvV
    · simp at hvV; subst hvV; exact ⟨_, hcw⟩
  · -- mapping entries are good
    intro p hp
    unfold newMapping at hp
    cases hn : cur.next with
    | none =>
      rw [hn] at hp
      obtain ⟨a, b, c⟩ := h.mgood p hp
      exact ⟨List.mem_append_left _ a, b, c⟩
    | some fe =>
      rw [hn] at hp
      rcases List.mem_append.mp hp with hp | hp
      · obtain ⟨a, b, c⟩ := h.mgood p hp
        exact ⟨List.mem_append_left _ a, b, c⟩
      · simp at hp; subst hp
        unfold NextOK at hcn
        rw [hn] at hcn
        obtain ⟨h1, h2, d, h3, h4⟩ := hcn
        have hwalk : t.Walk s cur.idx (d + 1) := T.Walk.cons ⟨fe.e, h2, rfl⟩ h4
        refine ⟨by simp, ?_, h1, h2, d, h4, hwalk, fun m hm => by have := hmin m hm; omega⟩
        intro e
        have := hmin 0 (by simp only at e; rw [e]; exact T.Walk.refl)
        omega
  · -- every visited node other than the source has an entry
    intro v hvV hvs
    unfold newMapping
    rcases List.mem_append.mp hvV with hvV | hvV
    · obtain ⟨fe, hfe⟩ := h.mall v hvV hvs
      cases cur.next with
      | none => exact ⟨fe, hfe⟩
      | some hop => exact ⟨fe, List.mem_append_left _ hfe⟩
    · simp at hvV; subst hvV
      unfold NextOK at hcn
      cases hn : cur.next with
      | none => rw [hn] at hcn; exact absurd hcn.1 hvs
      | some hop => exact ⟨hop, by simp⟩
  · -- keys stay distinct
    unfold newMapping
    cases cur.next with
    | none => exact h.mkeys
    | some hop =>
      rw [List.map_append, List.nodup_append]
      refine ⟨h.mkeys, by simp, ?_⟩
      intro a ha b hb
      simp at hb; subst hb
      obtain ⟨p, hp, rfl⟩ := List.mem_map.mp ha
      intro e
      exact hv (e ▸ (h.mgood p hp).1)

/-! ### termination -/

/-- number of edges leaving nodes of `L` that are not yet visited -/
def usum (t : T) (L V : List Nat) : Nat :=
  ((L.filter fun y => !V.contains y).map fun y => (t.edgesAt y).length).sum

theorem usum_cons (t : T) (y : Nat) (ys V : List Nat) :
    usum t (y :: ys) V = (if (!V.contains y) = true then (t.edgesAt y).length else 0) + usum t ys V := by
  simp only [usum, List.filter_cons]
  split <;> simp

theorem usum_not_mem (t : T) (u : Nat) (L V : List Nat) (hu : u ∉ L) :
    usum t L (V ++ [u]) = usum t L V := by
  unfold usum
  rw [List.filter_congr]
  intro y hy
  have : y ≠ u := fun e => hu (e ▸ hy)
  simp [this]

theorem usum_visit (t : T) (u : Nat) : ∀ (L V : List Nat), L.Nodup → u ∈ L → u ∉ V →
    usum t L V = usum t L (V ++ [u]) + (t.edgesAt u).length := by
  intro L
  induction L with
  | nil => intro V _ h; simp at h
  | cons y ys ih =>
    intro V hnd hu huV
    obtain ⟨hy, hnd'⟩ := List.nodup_cons.mp hnd
    rw [usum_cons, usum_cons]
    by_cases hyu : y = u
    · subst hyu
      have h1 := usum_not_mem t y ys V hy
      have hc1 : (!V.contains y) = true := by simpa using huV
      have hc2 : ¬ ((!(V ++ [y]).contains y) = true) := by simp
      rw [if_pos hc1, if_neg hc2, h1]; omega
    · have huys : u ∈ ys := by
        rcases List.mem_cons.mp hu with h | h
        · exact absurd h.symm hyu
        · exact h
      have hc : (V ++ [u]).contains y = V.contains y := by simp [hyu]
      have := ih V hnd' huys huV
      rw [hc, this]; omega

theorem usum_nil (t : T) : usum t (List.range t.edges.length) [] = t.size := by
  simp only [usum, T.size]
  have : (List.range t.edges.length).filter (fun y => !([] : List Nat).contains y) = List.range t.edges.length := by
    simp
  rw [this]
  simp only [T.edgesAt]
  apply congrArg
  apply List.ext_getElem
  · simp
  · intro i h1 h2
    simp at h1
    simp [List.getD_eq_getElem?_getD, List.getElem?_eq_getElem h1]

theorem pushes_length (t : T) (V' : List Nat) (cur : QE) :
    (pushes t V' cur).length ≤ (t.edgesAt cur.idx).length := List.length_filterMap_le _ _

/-- the loop terminates within its fuel and ends in a state satisfying the invariant with an
    empty queue -/
theorem dijkstraLoop_spec (t : T) (hwf : t.WF) (s : Nat) : ∀ (fuel : Nat) (V : List Nat) (Q : List QE)
    (M : List (Nat × FullEdge)), DInv t s V Q M →
    Q.length + usum t (List.range t.nodes.length) V + 1 ≤ fuel →
    ∃ V' M', dijkstraLoop t .front fuel V Q M = some M' ∧ DInv t s V' [] M' := by
  intro fuel
  induction fuel with
  | zero => intro V Q M _ hf; omega
  | succ fuel ih =>
    intro V Q M hinv hf
    cases Q with
    | nil => exact ⟨V, M, by simp [dijkstraLoop, popQE], hinv⟩
    | cons cur rest =>
      by_cases hv : cur.idx ∈ V
      · have hc : V.contains cur.idx = true := by simpa using hv
        have := ih V rest M (hinv.skip hv) (by simp at hf; omega)
        obtain ⟨V', M', h1, h2⟩ := this
        exact ⟨V', M', by simp only [dijkstraLoop, popQE, hc, if_true]; exact h1, h2⟩
      · have hc : V.contains cur.idx = false := by simpa using hv
        have hinv' := hinv.visit hwf hv
        have hlt := (hinv.qok cur List.mem_cons_self).1
        have hu := usum_visit t cur.idx (List.range t.nodes.length) V List.nodup_range
          (List.mem_range.mpr hlt) hv
        have hp := pushes_length t (V ++ [cur.idx]) cur
        have := ih (V ++ [cur.idx]) (rest ++ pushes t (V ++ [cur.idx]) cur) (newMapping M cur) hinv'
          (by simp at hf ⊢; omega)
        obtain ⟨V', M', h1, h2⟩ := this
        refine ⟨V', M', ?_, h2⟩
        simp only [dijkstraLoop, popQE, hc, Bool.false_eq_true, if_false]
        exact h1

theorem dinv_init (t : T) (s : Nat) (hs : s < t.nodes.length) : DInv t s [] [⟨s, 0, none⟩] [] where
  base := Or.inr ⟨_, List.mem_cons_self, rfl⟩
  sorted := by simp
  spread := by intro a ha b hb; simp at ha hb; subst ha; subst hb; simp
  qok := by intro q hq; simp at hq; subst hq; exact ⟨hs, T.Walk.refl, rfl, rfl⟩
  frontier := by intro v hv; simp at hv
  vnodup := by simp
  vlt := by intro v hv; simp at hv
  vreach := by intro v hv; simp at hv
  mgood := by intro p hp; simp at hp
  mall := by intro v hv; simp at hv
  mkeys := by simp

end Topo

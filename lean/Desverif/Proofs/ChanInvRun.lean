/-
The invariant of the abstract server world is preserved by an unbusy dispatch and hence by
every script; transport to the model of the code through the refinement.
-/
import Desverif.Proofs.ChanInv
import Desverif.Proofs.ChanRefine
namespace ChanInv
open Chan (Msg Metrics DropB Eff Fate Err)
open ChanSrv (Srv bytes drain exitOf)
open ChanRun

/-- what an unbusy dispatch does to a world that satisfies the invariant -/
theorem unbusy_shape (mt : Metrics) {w w' : World Srv} (hI : SInv0 mt w)
    (h : step spec mt w .unbusy = .ok w') :
    ∃ f, w.chan.serving = some f ∧ w.pend = [f] ∧ kmin w.kq = some (.unbusy f) ∧
      w' = advance w f (drain mt f w.chan.queue).1 [] (w.kq.erase (.unbusy f))
        (drain mt f w.chan.queue).2.1 (drain mt f w.chan.queue).2.2 [] := by
  cases hs : w.chan.serving with
  | none =>
    have := (hI.idle hs).1
    simp [step, this, popMin, minTime] at h
  | some f =>
    obtain ⟨hp, hcf, _⟩ := hI.busy f hs
    simp only [step, hp, popMin_single] at h
    have : ¬ f < w.clock := by omega
    simp only [this, if_false] at h
    by_cases hk : kmin w.kq = some (.unbusy f)
    case neg => simp [hk] at h
    refine ⟨f, rfl, hp, hk, ?_⟩
    simp only [hk, ne_eq, not_true_eq_false, if_false, spec, ChanSrv.unbusy, Except.ok.injEq] at h
    exact h.symm

/-- an unbusy dispatch preserves the invariant -/
theorem unbusy_SInv0 (mt : Metrics) {w w' : World Srv} (hI : SInv0 mt w)
    (h : step spec mt w .unbusy = .ok w') : SInv0 mt w' := by
  obtain ⟨f, hs, hp, _, rfl⟩ := unbusy_shape mt hI h
  obtain ⟨hbusy, hidle, hhor, hsl, hperm, hfifo, hex, hno⟩ := hI
  obtain ⟨_, hcf, _⟩ := hbusy f hs
  obtain ⟨d1, d2, d3⟩ := drain_started mt f w.chan.queue
  have dsplit := drain_split mt f w.chan.queue
  have dex := drain_exits mt f w.chan.queue
  have dun := drain_unbusy mt f w.chan.queue
  obtain ⟨dh1, dh2⟩ := drain_horizon mt f w.chan.queue
  have dno := drain_noOverlap mt f w.chan.queue
  have hhor' : ∀ p ∈ w.started, p.1 + p.2.tx ≤ f := by
    intro p hp'
    have := hhor p hp'
    rw [hs] at this
    exact this
  simp only [advance, startedOf, d1, d2, d3, dex, dun, List.append_nil, List.nil_append]
  refine ⟨?_, ?_, ?_, ?_, ?_, ?_, ?_, ?_⟩
  · intro f' hf'
    have hf'' : (drain mt f w.chan.queue).1.serving = some f' := hf'
    obtain ⟨pre, m, e1, e2, e3⟩ := drain_busy mt f w.chan.queue f' hf''
    refine ⟨by simp [hf''], by show f ≤ f'; omega, w.started ++ pre.map (fun x => (f, x)), f, m, ?_, e2, e3⟩
    simp [e1]
  · intro hn
    have hn' : (drain mt f w.chan.queue).1.serving = none := hn
    exact ⟨by simp [hn'], drain_idle mt f w.chan.queue hn'⟩
  · intro p hp'
    simp only [List.mem_append, List.mem_map] at hp'
    show p.1 + p.2.tx ≤ (drain mt f w.chan.queue).1.serving.getD f
    rcases hp' with hp' | ⟨x, hx, rfl⟩
    · have := hhor' p hp'; omega
    · exact dh2 x hx
  · intro p hp'
    simp only [List.mem_append, List.mem_map] at hp'
    show p.1 ≤ f
    rcases hp' with hp' | ⟨x, hx, rfl⟩
    · have := hsl p hp'; omega
    · exact Nat.le_refl _
  · have e : (w.started ++ (drained mt f w.chan.queue).map fun m => (f, m)).map (·.2) ++
        (drain mt f w.chan.queue).1.queue = w.started.map (·.2) ++ w.chan.queue := by
      simp only [List.map_append, List.map_map, List.append_assoc]
      congr 1
      have : ((fun x : Nat × Msg => x.2) ∘ fun m => (f, m)) = id := rfl
      rw [this, List.map_id]
      exact dsplit
    rw [e]; exact hperm
  · have e : (w.started ++ (drained mt f w.chan.queue).map fun m => (f, m)).map (·.2) ++
        (drain mt f w.chan.queue).1.queue = w.started.map (·.2) ++ w.chan.queue := by
      simp only [List.map_append, List.map_map, List.append_assoc]
      congr 1
      have : ((fun x : Nat × Msg => x.2) ∘ fun m => (f, m)) = id := rfl
      rw [this, List.map_id]
      exact dsplit
    rw [e]; exact hfifo
  · simp only [hex, List.map_append, List.map_map]
    rfl
  · rw [List.pairwise_append]
    refine ⟨hno, dno, ?_⟩
    intro a ha b hb
    simp only [List.mem_map] at hb
    obtain ⟨x, _, rfl⟩ := hb
    exact hhor' a ha

/-- prefix-closure: a successful run passes through successful runs -/
theorem runFrom_append {σ : Type} (I : Impl σ) (mt : Metrics) (ops ops' : List Op) (w : World σ) :
    runFrom I mt w (ops ++ ops') =
      match runFrom I mt w ops with
      | .error e => .error e
      | .ok w1 => runFrom I mt w1 ops' := by
  induction ops generalizing w with
  | nil => simp [runFrom]
  | cons op ops ih =>
    simp only [List.cons_append, runFrom]
    cases step I mt w op with
    | error e => rfl
    | ok w1 => exact ih w1

end ChanInv

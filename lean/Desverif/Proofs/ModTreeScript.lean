/-
Arbitrary builder scripts: `sim.node(..)` calls of which some are rejected (duplicate / missing
parent) and some accepted, in any interleaving.  The builder answers exactly as the contract
`PreSpec.declare` says, rejected calls leave it unchanged, and the state it ends in is the state
built from the accepted declarations alone — so every theorem about `buildAll D` speaks about the
final state of every script.
-/
import Desverif.Proofs.ModTreeLookups
namespace ModTree
open ObjPath PreSpec

/-- the contract run over a script: accepted declarations so far, answers -/
def declareAll (D : List SDecl) : List SDecl → List SDecl × List Ans
  | [] => (D, [])
  | d :: ds =>
    let r := declare D d
    let rest := declareAll r.2 ds
    (rest.1, r.1 :: rest.2)

/-- the builder model run over a script: `sim.node(render d.segs, module with d.stages)` for each line -/
def runScript (b : Builder) : List SDecl → Builder × List (Option BErr)
  | [] => (b, [])
  | d :: ds =>
    let r := node b (render d.segs) d.stages
    let rest := runScript r.1 ds
    (rest.1, r.2 :: rest.2)

/-- the panic message class of a builder answer -/
def ansOf : Option BErr → Option Ans
  | none => some .ok
  | some .dup => some .dup
  | some .noParent => some .noParent
  | some _ => none

theorem has_iff (D : List SDecl) (p : List (List Nat)) : has D p = true ↔ p ∈ D.map (·.segs) := by
  simp [has]

theorem buildAll_snoc (D : List SDecl) (p : SDecl) :
    (buildAll (D ++ [p])).1 = (node (buildAll D).1 (render p.segs) p.stages).1 := by
  simp [buildAll, List.foldl_append, buildStep]

theorem script_step (D : List SDecl) (d : SDecl) (hv : Valid D) (hn : NamesValid D)
    (hd : AllValid d.segs) :
    ansOf (node (buildAll D).1 (render d.segs) d.stages).2 = some (declare D d).1 ∧
    (node (buildAll D).1 (render d.segs) d.stages).1 = (buildAll (declare D d).2).1 ∧
    Valid (declare D d).2 ∧ NamesValid (declare D d).2 ∧
    ((declare D d).1 ≠ .ok → (declare D d).2 = D ∧
        (node (buildAll D).1 (render d.segs) d.stages).1 = (buildAll D).1) := by
  have hb := (buildAll_ok D hv hn).2
  unfold declare
  by_cases hdup : has D d.segs = true
  · -- duplicate
    obtain ⟨d0, hd0, e⟩ := List.mem_map.mp ((has_iff D d.segs).mp hdup)
    have h := node_dup D _ hv hn hb d0 hd0 d.stages
    rw [e] at h
    simp only [hdup, if_true, h]
    exact ⟨(by first | rfl | trivial), (by first | rfl | trivial), hv, hn, fun _ => ⟨(by first | rfl | trivial), (by first | rfl | trivial)⟩⟩
  · have hnew : d.segs ∉ D.map (·.segs) := fun h => hdup ((has_iff D d.segs).mpr h)
    simp only [hdup, Bool.false_eq_true, if_false]
    have hacc : ∀ (hpar : ∀ q, par d.segs = some q → q ∈ D.map (·.segs)),
        ansOf (node (buildAll D).1 (render d.segs) d.stages).2 = some Ans.ok ∧
        (node (buildAll D).1 (render d.segs) d.stages).1 = (buildAll (D ++ [d])).1 ∧
        Valid (D ++ [d]) ∧ NamesValid (D ++ [d]) := by
      intro hpar
      have hv' : Valid (D ++ [d]) := (valid_snoc D d).mpr ⟨hv, hnew, hpar⟩
      have hn' : NamesValid (D ++ [d]) := by
        intro x hx
        rcases List.mem_append.mp hx with h | h
        · exact hn x h
        · simp at h; subst h; exact hd
      obtain ⟨b', hnode, _⟩ := node_accept D d _ hn' hv' hb
      refine ⟨by rw [hnode]; rfl, (buildAll_snoc D d).symm, hv', hn'⟩
    cases hp : par d.segs with
    | none =>
      obtain ⟨h1, h2, h3, h4⟩ := hacc (fun q hq => by rw [hp] at hq; cases hq)
      exact ⟨h1, h2, h3, h4, fun h => absurd rfl h⟩
    | some q =>
      by_cases hq : has D q = true
      · simp only [hq, if_true]
        obtain ⟨h1, h2, h3, h4⟩ := hacc (fun q' hq' => by
          rw [hp] at hq'; injection hq' with e; subst e; exact (has_iff D _).mp hq)
        exact ⟨h1, h2, h3, h4, fun h => absurd rfl h⟩
      · have hmiss : q ∉ D.map (·.segs) := fun h => hq ((has_iff D q).mpr h)
        simp only [hq, Bool.false_eq_true, if_false]
        have h := node_noParent D _ hv hn hb d.segs q hd d.stages hnew hp hmiss
        rw [h]
        exact ⟨(by first | rfl | trivial), (by first | rfl | trivial), hv, hn, fun _ => ⟨(by first | rfl | trivial), (by first | rfl | trivial)⟩⟩

/-- **Every script refines the contract.**  Started from the state built from the valid declarations
    `D`, the builder's answers to any further script (names well-formed) are the contract's answers,
    and it ends in the state built from the accepted declarations alone. -/
theorem script_refines (script : List SDecl) : ∀ (D : List SDecl), Valid D → NamesValid D →
    NamesValid script →
    (runScript (buildAll D).1 script).2.map ansOf = (declareAll D script).2.map some ∧
    (runScript (buildAll D).1 script).1 = (buildAll (declareAll D script).1).1 ∧
    Valid (declareAll D script).1 ∧ NamesValid (declareAll D script).1 := by
  induction script with
  | nil => intro D hv hn _; exact ⟨rfl, rfl, hv, hn⟩
  | cons d ds ih =>
    intro D hv hn hs
    obtain ⟨h1, h2, h3, h4, _⟩ := script_step D d hv hn (hs d (by simp))
    have := ih (declare D d).2 h3 h4 (fun x hx => hs x (by simp [hx]))
    simp only [runScript, declareAll, List.map_cons, h1, h2]
    exact ⟨by rw [this.1], this.2.1, this.2.2.1, this.2.2.2⟩

theorem buildAll_nil : (buildAll ([] : List SDecl)).1.mods = [] := rfl

end ModTree

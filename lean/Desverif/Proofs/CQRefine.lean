import Desverif.Proofs.CQScan
namespace CQ
open FES (evLt eraseId minEv)

def pending (s : State) : List Ev := s.zero ++ s.buckets.flatten

/-- Representation invariant of the calendar queue (holds after every public operation). -/
structure Inv (s : State) : Prop where
  hn : 0 < s.n
  ht : 0 < s.t
  hlen : s.buckets.length = s.n
  sorted : ∀ b ∈ s.buckets, b.Pairwise evLt
  idxOk : ∀ i b, s.buckets[i]? = some b → ∀ e ∈ b, idx s.n s.t e.time = i
  win : ∃ k, s.t0 = k * s.t ∧ s.head = k % s.n
  t1eq : s.t1 = s.t0 + s.t
  t0le : s.t0 ≤ s.tcur
  gecur : ∀ e ∈ s.buckets.flatten, s.tcur ≤ e.time
  zeroT : ∀ e ∈ s.zero, e.time = s.tcur
  idsLt : ∀ e ∈ pending s, e.id < s.eventId
  nodup : ((pending s).map (·.id)).Nodup
  lenEq : s.len = (pending s).length

theorem Inv.scanInv {s : State} (h : Inv s) : ScanInv s where
  hn := h.hn
  ht := h.ht
  hlen := h.hlen
  sorted := fun b hb => (h.sorted b hb).imp (fun hab => evLt_time_le hab)
  idxOk := h.idxOk
  win := h.win
  t1eq := h.t1eq
  ge0 := fun b hb e he =>
    Nat.le_trans h.t0le (h.gecur e (List.mem_flatten.mpr ⟨b, hb, he⟩))

theorem init_inv (n t : Nat) (hn : 0 < n) (ht : 0 < t) : Inv (init n t) where
  hn := hn
  ht := ht
  hlen := by simp [init]
  sorted := by intro b hb; simp [init] at hb; rw [hb.2]; exact List.Pairwise.nil
  idxOk := by
    intro i b hb e he
    have := List.mem_of_getElem? hb
    simp [init] at this; rw [this.2] at he; cases he
  win := ⟨0, by simp [init], by simp [init]⟩
  t1eq := by simp [init]
  t0le := by simp [init]
  gecur := by simp [init]
  zeroT := by simp [init]
  idsLt := by simp [init, pending]
  nodup := by simp [init, pending]
  lenEq := by simp [init, pending]

theorem eq_of_nodup_map_id {l : List Ev} (h : (l.map (·.id)).Nodup) {x y : Ev}
    (hx : x ∈ l) (hy : y ∈ l) (hxy : x.id = y.id) : x = y := by
  induction l with
  | nil => cases hx
  | cons a as ih =>
    rw [List.map_cons] at h
    have h' := List.nodup_cons.mp h
    rcases List.mem_cons.mp hx with rfl | hx' <;> rcases List.mem_cons.mp hy with rfl | hy'
    · rfl
    · exact absurd (hxy ▸ List.mem_map_of_mem (f := (·.id)) hy') h'.1
    · exact absurd (hxy ▸ List.mem_map_of_mem (f := (·.id)) hx') h'.1
    · exact ih h'.2 hx' hy'

theorem removeId_length {l l' : List Ev} {i : Nat} (h : removeId l i = some l') :
    l'.length + 1 = l.length := by
  induction l generalizing l' with
  | nil => simp [removeId] at h
  | cons y ys ih =>
    unfold removeId at h
    split at h
    · cases h; rfl
    · cases hr : removeId ys i with
      | none => simp [hr] at h
      | some r => simp [hr] at h; subst h; simp [ih hr]

theorem length_flatten_set {l : List (List Ev)} {i : Nat} {b b' : List Ev}
    (hb : l[i]? = some b) (hlen : b'.length + 1 = b.length) :
    (l.set i b').flatten.length + 1 = l.flatten.length := by
  induction l generalizing i with
  | nil => simp at hb
  | cons c cs ih =>
    cases i with
    | zero => simp at hb; subst hb; simp; omega
    | succ i =>
      have := ih (i := i) (by simpa using hb)
      simp only [List.set_cons_succ, List.flatten_cons, List.length_append]; omega

/-- removing one identified element from bucket `i` = erasing its id from the flattened view -/
theorem remove_from_bucket {bs : List (List Ev)} {i id : Nat} {b b' : List Ev}
    (hbi : bs[i]? = some b) (hr : removeId b id = some b')
    (hnd : (b.map (·.id)).Nodup)
    (hoth : ∀ j c, j ≠ i → bs[j]? = some c → ∀ y ∈ c, y.id ≠ id) :
    b' = eraseId b id ∧ (bs.set i b').flatten = eraseId bs.flatten id ∧
      (bs.set i b').flatten.length + 1 = bs.flatten.length := by
  obtain ⟨hb', _⟩ := removeId_some hr hnd
  refine ⟨hb', ?_, length_flatten_set hbi (removeId_length hr)⟩
  rw [hb']
  unfold eraseId
  apply flatten_set_filter _ hbi
  intro j c hj hc
  exact List.filter_eq_self.mpr (fun y hy => by simpa using hoth j c hj hc y hy)

theorem sublist_nodup_ids {l l' : List Ev} (hs : l'.Sublist l) (h : (l.map (·.id)).Nodup) :
    (l'.map (·.id)).Nodup := (hs.map _).nodup h

theorem mem_set_sub {bs : List (List Ev)} {i : Nat} {b b' c : List Ev}
    (hbi : bs[i]? = some b) (hc : c ∈ bs.set i b') : c ∈ bs ∨ c = b' := by
  obtain ⟨j, hj, rfl⟩ := List.getElem_of_mem hc
  have : (bs.set i b')[j]? = some (bs.set i b')[j] := List.getElem?_eq_getElem hj
  rw [List.getElem?_set] at this
  split at this
  · split at this
    · right; exact (Option.some.inj this).symm
    · cases this
  · left; exact List.mem_of_getElem? this

/-- Inv is preserved when one bucket loses the event with id `id` (cancel in a bucket, pop). -/
theorem inv_of_bucket_filter {m m' : State} (h : Inv m) {i id : Nat} {b : List Ev}
    (hn : m'.n = m.n) (ht : m'.t = m.t) (hz : m'.zero = m.zero)
    (hbi : m.buckets[i]? = some b)
    (hb : m'.buckets = m.buckets.set i (eraseId b id))
    (hwin : ∃ k, m'.t0 = k * m'.t ∧ m'.head = k % m'.n) (ht1 : m'.t1 = m'.t0 + m'.t)
    (ht0 : m'.t0 ≤ m'.tcur) (hge : ∀ e ∈ m'.buckets.flatten, m'.tcur ≤ e.time)
    (hzt : ∀ e ∈ m'.zero, e.time = m'.tcur) (hid : m'.eventId = m.eventId)
    (hlen : m'.len = m.len - 1)
    (hfl : m'.buckets.flatten = eraseId m.buckets.flatten id)
    (hcnt : m'.buckets.flatten.length + 1 = m.buckets.flatten.length) : Inv m' := by
  have hsubp : (pending m').Sublist (pending m) := by
    unfold pending; rw [hz, hfl]
    exact List.Sublist.append (List.Sublist.refl _) List.filter_sublist
  refine ⟨hn ▸ h.hn, ht ▸ h.ht, ?_, ?_, ?_, hwin, ht1, ht0, hge, hzt, ?_, ?_, ?_⟩
  · rw [hb, List.length_set, hn]; exact h.hlen
  · intro c hc
    rw [hb] at hc
    rcases mem_set_sub hbi hc with hc | rfl
    · exact h.sorted c hc
    · exact (h.sorted b (List.mem_of_getElem? hbi)).filter _
  · intro j c hc e he
    rw [hb, List.getElem?_set] at hc
    rw [hn, ht]
    split at hc
    · rename_i hij
      split at hc
      · cases hc
        subst hij
        exact h.idxOk i b hbi e (List.mem_filter.mp he).1
      · cases hc
    · exact h.idxOk j c hc e he
  · intro e he; rw [hid]; exact h.idsLt e (hsubp.subset he)
  · exact sublist_nodup_ids hsubp h.nodup
  · rw [hlen, h.lenEq]; unfold pending; rw [hz]; simp only [List.length_append]; omega

/-! ## Refinement relation between the calendar queue and the abstract event set -/

structure R (m : State) (s : FES.State) : Prop where
  inv : Inv m
  zero : m.zero = s.zero
  pend : m.buckets.flatten.Perm s.pend
  cur : m.tcur = s.cur
  nid : m.eventId = s.nextId

theorem init_R (n t : Nat) (hn : 0 < n) (ht : 0 < t) : R (init n t) FES.init :=
  ⟨init_inv n t hn ht, rfl, by simp [init, FES.init], rfl, rfl⟩

theorem R.len {m : State} {s : FES.State} (h : R m s) : m.len = FES.len s := by
  rw [h.inv.lenEq, FES.len, pending, h.zero, List.length_append, h.pend.length_eq]

/-! ### add -/

theorem add_past {m : State} {s : FES.State} (h : R m s) (time val : Nat) (hlt : time < m.tcur) :
    add m time val = .error .pastEvent ∧ FES.add s time val = .error .pastEvent := by
  constructor
  · simp [add, hlt]
  · simp [FES.add, ← h.cur, hlt]

theorem add_ok {m : State} {s : FES.State} (h : R m s) (time val : Nat) (hge : m.tcur ≤ time) :
    ∃ m' s', add m time val = .ok (m', m.eventId) ∧ FES.add s time val = .ok (s', m.eventId) ∧
      R m' s' := by
  have hi := h.inv
  have hnlt : ¬ time < m.tcur := by omega
  have hnlt' : ¬ time < s.cur := by rw [← h.cur]; exact hnlt
  -- common tail: facts that only depend on `pending m' ~ e :: pending m`
  have common : ∀ (m' : State) (e : Ev), e.id = m.eventId → (pending m').Perm (e :: pending m) →
      m'.eventId = m.eventId + 1 → m'.len = m.len + 1 →
      (∀ x ∈ pending m', x.id < m'.eventId) ∧ ((pending m').map (·.id)).Nodup ∧
        m'.len = (pending m').length := by
    intro m' e he hp hid hl
    refine ⟨?_, ?_, ?_⟩
    · intro x hx
      rcases List.mem_cons.mp (hp.mem_iff.mp hx) with rfl | hx'
      · omega
      · have := hi.idsLt x hx'; omega
    · rw [(hp.map (·.id)).nodup_iff, List.map_cons]
      refine List.nodup_cons.mpr ⟨?_, hi.nodup⟩
      intro hmem
      obtain ⟨x, hx, hxe⟩ := List.mem_map.mp hmem
      have := hi.idsLt x hx
      have hxe' : x.id = e.id := hxe
      omega
    · rw [hl, hi.lenEq, hp.length_eq]; simp
  by_cases heq : time = m.tcur
  · -- zero bucket
    let e : Ev := ⟨time, m.eventId, val⟩
    refine ⟨{ m with zero := m.zero ++ [e], eventId := m.eventId + 1, len := m.len + 1 },
            { s with zero := s.zero ++ [e], nextId := s.nextId + 1 }, ?_, ?_, ?_⟩
    · simp [add, hnlt, heq, e]
    · have : time = s.cur := by rw [← h.cur]; exact heq
      simp [FES.add, hnlt', this, e, h.nid]
    · have hp : (pending { m with zero := m.zero ++ [e], eventId := m.eventId + 1, len := m.len + 1 }).Perm
          (e :: pending m) := by
        unfold pending; simp only [List.append_assoc]
        exact (List.perm_middle (l₁ := m.zero) (a := e) (l₂ := m.buckets.flatten))
      obtain ⟨c1, c2, c3⟩ := common _ e rfl hp rfl rfl
      refine ⟨⟨hi.hn, hi.ht, hi.hlen, hi.sorted, hi.idxOk, hi.win, hi.t1eq, hi.t0le, hi.gecur, ?_,
                c1, c2, c3⟩, ?_, h.pend, h.cur, ?_⟩
      · intro x hx
        rcases List.mem_append.mp hx with hx | hx
        · exact hi.zeroT x hx
        · simp at hx; subst hx; exact heq
      · simp [h.zero]
      · simp [h.nid]
  · -- calendar bucket
    let e : Ev := ⟨time, m.eventId, val⟩
    let i := idx m.n m.t time
    have hilt : i < m.buckets.length := by rw [hi.hlen]; exact idx_lt _ _ _ hi.hn
    refine ⟨{ m with buckets := m.buckets.modify i (bucketInsert · e), eventId := m.eventId + 1,
                     len := m.len + 1 },
            { s with pend := s.pend ++ [e], nextId := s.nextId + 1 }, ?_, ?_, ?_⟩
    · simp [add, hnlt, heq, e, i]
    · have : ¬ time = s.cur := by rw [← h.cur]; exact heq
      simp [FES.add, hnlt', this, e, h.nid]
    · have hfl : (m.buckets.modify i (bucketInsert · e)).flatten.Perm (e :: m.buckets.flatten) :=
        flatten_modify_perm (fun b => bucketInsert_perm b e) hilt
      obtain ⟨c1, c2, c3⟩ := common { m with buckets := m.buckets.modify i (bucketInsert · e), eventId := m.eventId + 1, len := m.len + 1 } e rfl
        (by unfold pending; exact (List.Perm.append_left m.zero hfl).trans List.perm_middle) rfl rfl
      refine ⟨⟨hi.hn, hi.ht, ?_, ?_, ?_, hi.win, hi.t1eq, hi.t0le, ?_, hi.zeroT, c1, c2, c3⟩,
              h.zero, ?_, h.cur, ?_⟩
      · simp [List.length_modify, hi.hlen]
      · intro c hc
        rcases mem_modify_iff hc with hc | ⟨b, hb, rfl⟩
        · exact hi.sorted c hc
        · apply bucketInsert_sorted (hi.sorted b (List.mem_of_getElem? hb))
          intro x hx
          exact hi.idsLt x (List.mem_append_right _
            (List.mem_flatten.mpr ⟨b, List.mem_of_getElem? hb, hx⟩))
      · intro j c hc x hx
        simp only [List.getElem?_modify] at hc
        cases hbj : m.buckets[j]? with
        | none => simp [hbj] at hc
        | some a =>
          simp [hbj] at hc
          by_cases hij : i = j
          · simp [hij] at hc; subst hc
            rcases mem_bucketInsert.mp hx with rfl | hx'
            · exact hij
            · exact hi.idxOk j a hbj x hx'
          · simp [hij] at hc; subst hc
            exact hi.idxOk j a hbj x hx
      · intro x hx
        rcases List.mem_cons.mp (hfl.mem_iff.mp hx) with rfl | hx'
        · exact hge
        · exact hi.gecur x hx'
      · exact hfl.trans ((List.Perm.cons e h.pend).trans
          (List.perm_append_singleton e s.pend).symm)
      · simp [h.nid]

/-! ### cancel -/

/-- a handle is well formed for the state: if its event is still pending, the handle carries the
    timestamp the event was scheduled with (handles are only ever produced by `add`). -/
def HandleOk (m : State) (id time : Nat) : Prop := ∀ x ∈ pending m, x.id = id → x.time = time

theorem cancel_refines {m : State} {s : FES.State} (h : R m s) (id time : Nat)
    (hwf : HandleOk m id time) : R (cancel m id time) (FES.cancel s id) := by
  have hi := h.inv
  have mem_pend : ∀ x, x ∈ s.pend ↔ x ∈ m.buckets.flatten := fun x => (h.pend.mem_iff).symm
  -- helper: if nothing pending carries the id, the spec state is unchanged
  have spec_noop : (∀ x ∈ pending m, x.id ≠ id) → FES.cancel s id = s := by
    intro hno
    have hz : eraseId s.zero id = s.zero :=
      eraseId_eq_self (fun x hx => hno x (List.mem_append_left _ (h.zero ▸ hx)))
    have hp : eraseId s.pend id = s.pend :=
      eraseId_eq_self (fun x hx => hno x (List.mem_append_right _ ((mem_pend x).mp hx)))
    simp [FES.cancel, hz, hp]
  unfold cancel
  by_cases hlt : time < m.tcur
  · rw [if_pos hlt]
    rw [spec_noop]
    · exact h
    · intro x hx hxid
      have hxt := hwf x hx hxid
      rcases List.mem_append.mp hx with hx | hx
      · have := hi.zeroT x hx; omega
      · have := hi.gecur x hx; omega
  · rw [if_neg hlt]
    have hzsub : (m.zero.map (·.id)).Nodup :=
      sublist_nodup_ids (List.sublist_append_left _ _) hi.nodup
    -- does the zero bucket hold it?
    cases hz : (if time = m.tcur then removeId m.zero id else none) with
    | some z =>
      simp only
      have heq : time = m.tcur := by
        by_cases hh : time = m.tcur
        · exact hh
        · simp [hh] at hz
      rw [if_pos heq] at hz
      obtain ⟨hz', x, hxz, hxid⟩ := removeId_some hz hzsub
      -- id is not in any calendar bucket
      have hnotfl : ∀ y ∈ m.buckets.flatten, y.id ≠ id := by
        intro y hy hyid
        have : x = y := eq_of_nodup_map_id hi.nodup (List.mem_append_left _ hxz)
          (List.mem_append_right _ hy) (hxid.trans hyid.symm)
        subst this
        have hnd := hi.nodup
        unfold pending at hnd
        rw [List.map_append] at hnd
        exact (List.nodup_append.mp hnd).2.2 x.id (List.mem_map_of_mem hxz) x.id
          (List.mem_map_of_mem hy) rfl
      have hp : eraseId s.pend id = s.pend :=
        eraseId_eq_self (fun y hy => hnotfl y ((mem_pend y).mp hy))
      have hsubp : (pending { m with zero := z, len := m.len - 1 }).Sublist (pending m) := by
        unfold pending; rw [hz']
        exact List.Sublist.append List.filter_sublist (List.Sublist.refl _)
      have hzlen : z.length + 1 = m.zero.length := removeId_length hz
      refine ⟨⟨hi.hn, hi.ht, hi.hlen, hi.sorted, hi.idxOk, hi.win, hi.t1eq, hi.t0le, hi.gecur, ?_,
              ?_, ?_, ?_⟩, ?_, ?_, h.cur, h.nid⟩
      · intro y hy; rw [hz'] at hy; exact hi.zeroT y (List.mem_filter.mp hy).1
      · intro y hy; exact hi.idsLt y (hsubp.subset hy)
      · exact sublist_nodup_ids hsubp hi.nodup
      · show m.len - 1 = _
        rw [hi.lenEq]; unfold pending; simp only [List.length_append]; omega
      · show z = eraseId s.zero id
        rw [hz', h.zero]
      · show m.buckets.flatten.Perm (eraseId s.pend id)
        rw [hp]; exact h.pend
    | none =>
      simp only
      have hzno : ∀ y ∈ m.zero, y.id ≠ id := by
        intro y hy hyid
        have hyt := hwf y (List.mem_append_left _ hy) hyid
        have := hi.zeroT y hy
        rw [if_pos (by omega)] at hz
        exact (removeId_none.mp hz) y hy hyid
      have hzs : eraseId s.zero id = s.zero :=
        eraseId_eq_self (fun y hy => hzno y (h.zero ▸ hy))
      have hilt : idx m.n m.t time < m.buckets.length := by
        rw [hi.hlen]; exact idx_lt _ _ _ hi.hn
      have hbi : m.buckets[idx m.n m.t time]? = some m.buckets[idx m.n m.t time] :=
        List.getElem?_eq_getElem hilt
      rw [hbi]
      simp only
      generalize hbdef : m.buckets[idx m.n m.t time] = b at hbi
      have hbmem : b ∈ m.buckets := List.mem_of_getElem? hbi
      -- events carrying the id can only live in bucket `idx time`
      have hoth : ∀ j c, j ≠ idx m.n m.t time → m.buckets[j]? = some c → ∀ y ∈ c, y.id ≠ id := by
        intro j c hj hc y hy hyid
        have hyfl : y ∈ m.buckets.flatten := List.mem_flatten.mpr ⟨c, List.mem_of_getElem? hc, hy⟩
        have hyt := hwf y (List.mem_append_right _ hyfl) hyid
        have := hi.idxOk j c hc y hy
        rw [hyt] at this
        exact hj this.symm
      cases hr : removeId b id with
      | none =>
        simp only
        rw [spec_noop]
        · exact h
        · intro y hy hyid
          rcases List.mem_append.mp hy with hy | hy
          · exact hzno y hy hyid
          · obtain ⟨c, hc, hyc⟩ := List.mem_flatten.mp hy
            obtain ⟨j, hj, rfl⟩ := List.getElem_of_mem hc
            by_cases hji : j = idx m.n m.t time
            · subst hji
              have : m.buckets[idx m.n m.t time] = b := hbdef
              rw [this] at hyc
              exact (removeId_none.mp hr) y hyc hyid
            · exact hoth j _ hji (List.getElem?_eq_getElem hj) y hyc hyid
      | some b' =>
        simp only
        have hbnd : (b.map (·.id)).Nodup := by
          apply sublist_nodup_ids _ hi.nodup
          exact (List.sublist_flatten_of_mem hbmem).trans (List.sublist_append_right _ _)
        obtain ⟨hb', hfl, hcnt⟩ := remove_from_bucket hbi hr hbnd hoth
        have hfl' : (m.buckets.set (idx m.n m.t time) b').flatten.Perm (eraseId s.pend id) := by
          rw [hfl]; exact h.pend.filter _
        refine ⟨?_, ?_, hfl', h.cur, h.nid⟩
        · apply inv_of_bucket_filter hi
            (m' := { m with buckets := m.buckets.set (idx m.n m.t time) b', len := m.len - 1 })
            (i := idx m.n m.t time) (id := id) (b := b) rfl rfl rfl hbi
            (by show m.buckets.set _ b' = _; rw [hb']) hi.win hi.t1eq hi.t0le ?_ hi.zeroT rfl rfl
            hfl hcnt
          intro e he
          change e ∈ (m.buckets.set (idx m.n m.t time) b').flatten at he
          rw [hfl] at he
          exact hi.gecur e (List.mem_filter.mp he).1
        · show m.zero = eraseId s.zero id
          rw [hzs]; exact h.zero

/-! ### fetch -/

theorem fetch_empty {m : State} {s : FES.State} (h : R m s) (hl : m.len = 0) :
    fetch m = .error .empty ∧ FES.fetch s = .error .empty := by
  have hi := h.inv
  have hp : pending m = [] := List.eq_nil_of_length_eq_zero (hi.lenEq ▸ hl)
  unfold pending at hp
  have hz : m.zero = [] := (List.append_eq_nil_iff.mp hp).1
  have hf : m.buckets.flatten = [] := (List.append_eq_nil_iff.mp hp).2
  constructor
  · simp [fetch, hl]
  · have : s.pend = [] := by
      have := h.pend; rw [hf] at this; exact this.symm.eq_nil
    simp [FES.fetch, ← h.zero, hz, this, minEv]

theorem fetch_ok {m : State} {s : FES.State} (h : R m s) (hl : m.len ≠ 0) :
    ∃ e m' s', fetch m = .ok (e, m') ∧ FES.fetch s = .ok (e, s') ∧ R m' s' := by
  have hi := h.inv
  cases hz : m.zero with
  | cons e z =>
    refine ⟨e, { m with zero := z, len := m.len - 1 }, { s with zero := z }, ?_, ?_, ?_⟩
    · simp [fetch, hl, hz]
    · simp [FES.fetch, ← h.zero, hz]
    · have hsubp : (pending { m with zero := z, len := m.len - 1 }).Sublist (pending m) := by
        unfold pending; rw [hz]
        exact List.Sublist.append (List.sublist_cons_self e z) (List.Sublist.refl _)
      refine ⟨⟨hi.hn, hi.ht, hi.hlen, hi.sorted, hi.idxOk, hi.win, hi.t1eq, hi.t0le, hi.gecur, ?_,
              ?_, ?_, ?_⟩, rfl, h.pend, h.cur, h.nid⟩
      · intro y hy; exact hi.zeroT y (hz ▸ List.mem_cons_of_mem _ hy)
      · intro y hy; exact hi.idsLt y (hsubp.subset hy)
      · exact sublist_nodup_ids hsubp hi.nodup
      · show m.len - 1 = _
        rw [hi.lenEq]; unfold pending; rw [hz]; simp
  | nil =>
    have hfne : m.buckets.flatten ≠ [] := by
      intro hf
      have := hi.lenEq; unfold pending at this; rw [hz, hf] at this
      exact hl (by simpa using this)
    obtain ⟨mn, hmn, hmnt⟩ := minTimeL_mem hfne
    obtain ⟨bm, hbm, hmb⟩ := List.mem_flatten.mp hmn
    have hfuel : (mn.time - m.t0) / m.t + 1 ≤ fuelFor m := by
      unfold fuelFor; rw [hmnt]; omega
    obtain ⟨w, e, rest, hsb, hw, hwb, hle, hscan⟩ :=
      scan_ok (fuelFor m) m hi.scanInv mn ⟨bm, hbm, hmb⟩ hfuel
    obtain ⟨a1, a2, a3, a4, a5, a6, a7, a8⟩ := hsb
    have hmin := stop_is_min hw hwb hle
    have hbmem : (e :: rest) ∈ m.buckets := a4 ▸ List.mem_of_getElem? hwb
    have hefl : e ∈ m.buckets.flatten :=
      List.mem_flatten.mpr ⟨_, hbmem, List.mem_cons_self⟩
    have hsorted := hi.sorted _ hbmem
    -- `e` is the (time,id)-minimum of everything pending
    have hlex : ∀ x ∈ m.buckets.flatten, x ≠ e → evLt e x := by
      intro x hx hne
      obtain ⟨c, hc, hxc⟩ := List.mem_flatten.mp hx
      obtain ⟨h1, h2⟩ := hmin c (a4 ▸ hc) x hxc
      by_cases hteq : x.time = e.time
      · rcases List.mem_cons.mp (h2 hteq) with rfl | hxr
        · exact absurd rfl hne
        · exact (List.pairwise_cons.mp hsorted).1 x hxr
      · left; omega
    have hspec : minEv s.pend = some e :=
      minEv_eq (h.pend.mem_iff.mp hefl)
        (fun x hx hne => hlex x (h.pend.mem_iff.mpr hx) hne)
    have hwb' : m.buckets[w.head]? = some (e :: rest) := a4 ▸ hwb
    have hbnd : ((e :: rest).map (·.id)).Nodup := by
      apply sublist_nodup_ids _ hi.nodup
      exact (List.sublist_flatten_of_mem hbmem).trans (List.sublist_append_right _ _)
    have hoth : ∀ j c, j ≠ w.head → m.buckets[j]? = some c → ∀ y ∈ c, y.id ≠ e.id := by
      intro j c hj hc y hy hyid
      have hyfl : y ∈ m.buckets.flatten := List.mem_flatten.mpr ⟨c, List.mem_of_getElem? hc, hy⟩
      have : y = e := eq_of_nodup_map_id hi.nodup (List.mem_append_right _ hyfl)
        (List.mem_append_right _ hefl) hyid
      subst this
      have h1 := hi.idxOk j c hc y hy
      have h2 := hi.idxOk _ _ hwb' y List.mem_cons_self
      exact hj (h1.symm.trans h2)
    have hrm : removeId (e :: rest) e.id = some rest := by simp [removeId]
    obtain ⟨hb', hfl, hcnt⟩ := remove_from_bucket hwb' hrm hbnd hoth
    refine ⟨e, popAt w e rest, { s with pend := eraseId s.pend e.id, cur := e.time }, ?_, ?_, ?_⟩
    · simp [fetch, hl, hz, hscan]
    · simp [FES.fetch, ← h.zero, hz, hspec]
    · have hflp : (popAt w e rest).buckets.flatten = eraseId m.buckets.flatten e.id := by
        show (w.buckets.set w.head rest).flatten = _
        rw [a4]; exact hfl
      refine ⟨?_, ?_, ?_, rfl, ?_⟩
      · apply inv_of_bucket_filter hi (m' := popAt w e rest) (i := w.head) (id := e.id)
          (b := e :: rest) a1 a2 a3 hwb' (by show w.buckets.set w.head rest = _; rw [a4]; exact congrArg _ hb')
          (by show ∃ k, w.t0 = k * w.t ∧ w.head = k % w.n; exact hw.win) hw.t1eq ?_ ?_ ?_ a6
          (by show w.len - 1 = m.len - 1; rw [a7]) hflp
          (by show (w.buckets.set w.head rest).flatten.length + 1 = _; rw [a4]; exact hcnt)
        · show w.t0 ≤ e.time
          exact hw.ge0 _ (List.mem_of_getElem? hwb) e List.mem_cons_self
        · intro x hx
          show e.time ≤ x.time
          rw [hflp] at hx
          have hx' := (List.mem_filter.mp hx).1
          obtain ⟨c, hc, hxc⟩ := List.mem_flatten.mp hx'
          exact (hmin c (a4 ▸ hc) x hxc).1
        · intro x hx
          have : x ∈ m.zero := a3 ▸ hx
          rw [hz] at this; cases this
      · show w.zero = s.zero
        rw [a3]; exact h.zero
      · rw [hflp]; exact h.pend.filter _
      · show w.eventId = s.nextId
        rw [a6]; exact h.nid

/-! ### next_time (read-only peek) -/

theorem nextTime_refines {m : CQ.State} {s : FES.State} (h : R m s) :
    nextTime m = FES.nextTime s := by
  by_cases hl : m.len = 0
  · obtain ⟨_, h2⟩ := fetch_empty h hl
    unfold nextTime FES.nextTime
    simp only [hl, if_true]
    unfold FES.fetch at h2
    split at h2
    · cases h2
    · split at h2
      · rename_i hm; simp [hm]
      · cases h2
  · obtain ⟨e, m', s', h1, h2, _⟩ := fetch_ok h hl
    unfold nextTime FES.nextTime
    unfold fetch at h1
    simp only [hl, if_false] at h1 ⊢
    unfold FES.fetch at h2
    rw [← h.zero] at h2 ⊢
    cases hz : m.zero with
    | cons e0 z => rfl
    | nil =>
      rw [hz] at h1 h2
      simp only at h1 h2 ⊢
      rw [h1]
      cases hm : minEv s.pend with
      | none => rw [hm] at h2; cases h2
      | some e' =>
        rw [hm] at h2
        simp only [Except.ok.injEq, Prod.mk.injEq] at h2
        simp [h2.1]


end CQ

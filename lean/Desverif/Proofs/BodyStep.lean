/-
C16: every script step of the pointer-level model answers exactly what the value-level
specification answers and preserves the refinement relation (hence heap consistency).
-/
import Desverif.Proofs.BodyRefine
namespace MB
open MBSpec (ABody AMsg)

theorem Rel.init : Rel {} {} := ⟨.nil, HeapOk.empty, rfl, rfl⟩

theorem Rel.dropSlot {st : State} {s : MBSpec.State} (hr : Rel st s) (tag : String) :
    Rel (st.dropSlot tag) (s.dropSlot tag) := by
  unfold Rel at hr ⊢
  cases hl : lookup tag st.slots with
  | none =>
    have := lookup_none_rel hr.slots hl
    simpa [State.dropSlot, MBSpec.State.dropSlot, hl, this] using hr
  | some m =>
    obtain ⟨a, ha, hx⟩ := hr.extract hl
    simpa [State.dropSlot, MBSpec.State.dropSlot, hl, ha] using hx.dropHead

theorem Rel.put {h : Heap} {dst : String} {m : Msg} {a : AMsg} {l : List (String × Msg)}
    {l' : List (String × AMsg)} {c d : Nat} (hr : RelL h ((dst, m) :: l) ((dst, a) :: l') c d) :
    Rel (State.put { heap := h, slots := l } dst m)
      (MBSpec.State.put { slots := l', created := c, dropped := d } dst a) := by
  unfold Rel
  have htail : All2 (SlotRel h) l l' := by cases hr.slots with | cons _ ht => exact ht
  cases hl : lookup dst l with
  | none =>
    have := lookup_none_rel htail hl
    simpa [State.put, State.dropSlot, MBSpec.State.put, MBSpec.State.dropSlot, hl, this] using hr
  | some old =>
    obtain ⟨a0, ha0, hx⟩ := hr.extractUnder hl
    simpa [State.put, State.dropSlot, MBSpec.State.put, MBSpec.State.dropSlot, hl, ha0] using hx.dropHead

theorem RelL.pushEmpty {h : Heap} {l : List (String × Msg)} {l' : List (String × AMsg)} {c d : Nat}
    (hr : RelL h l l' c d) (t : String) (hdr : Header) :
    RelL h ((t, { header := hdr, content := none }) :: l) ((t, { header := hdr, content := none }) :: l') c d :=
  ⟨.cons ⟨rfl, rfl, by simp [ContentRel]⟩ hr.slots, by simpa [Msg.ptr] using hr.heap, hr.created, hr.dropped⟩

theorem cloneStep_refines {st : State} {s : MBSpec.State} (hr : Rel st s) (src dst : String)
    (refuse : Out) :
    (match lookup src st.slots with
      | none => (st, Out.noSlot)
      | some m =>
        match m.tryClone st.heap with
        | (h', some m') => (State.put { st with heap := h' } dst m', Out.cloned)
        | (h', none) => ({ st with heap := h' }, refuse)).2 = (MBSpec.cloneStep s src dst refuse).2 ∧
    Rel (match lookup src st.slots with
      | none => (st, Out.noSlot)
      | some m =>
        match m.tryClone st.heap with
        | (h', some m') => (State.put { st with heap := h' } dst m', Out.cloned)
        | (h', none) => ({ st with heap := h' }, refuse)).1 (MBSpec.cloneStep s src dst refuse).1 := by
  have hr' : RelL st.heap st.slots s.slots s.created s.dropped := hr
  cases hl : lookup src st.slots with
  | none =>
    have := lookup_none_rel hr'.slots hl
    simpa [MBSpec.cloneStep, this] using hr
  | some m =>
    obtain ⟨a, ha, hma⟩ := lookup_some_rel hr'.slots hl
    rcases hr'.cloneOf hma dst with ⟨hc, m', hcl, hx⟩ | ⟨ab, hc, hcb, h', m', hcl, hx⟩ | ⟨ab, hc, hcb, hcl⟩
    · simp only [MBSpec.cloneStep, ha, hc, hcl]
      exact ⟨trivial, Rel.put hx⟩
    · simp only [MBSpec.cloneStep, ha, hc, hcl, hcb, if_true]
      exact ⟨trivial, Rel.put hx⟩
    · simp only [MBSpec.cloneStep, ha, hc, hcl, hcb]
      exact ⟨by simp, by simpa using hr⟩

theorem step_refines {st : State} {s : MBSpec.State} (hr : Rel st s) (op : Op) :
    (step st op).2 = (MBSpec.step s op).2 ∧ Rel (step st op).1 (MBSpec.step s op).1 := by
  have hr' : RelL st.heap st.slots s.slots s.created s.dropped := hr
  cases op with
  | new tag id kind =>
    simp only [step, MBSpec.step]
    exact ⟨trivial, Rel.put (hr'.pushEmpty tag _)⟩
  | set tag c T v =>
    cases hl : lookup tag st.slots with
    | none =>
      have := lookup_none_rel hr'.slots hl
      simpa [step, MBSpec.step, hl, this] using hr
    | some m =>
      obtain ⟨a, ha, hx⟩ := hr'.extract hl
      simp only [step, MBSpec.step, hl, ha]
      exact ⟨trivial, hx.setHead c T v⟩
  | clone src dst => exact cloneStep_refines hr src dst .panic
  | tryClone src dst => exact cloneStep_refines hr src dst .notClonable
  | cast tag T =>
    cases hl : lookup tag st.slots with
    | none =>
      have := lookup_none_rel hr'.slots hl
      simpa [step, MBSpec.step, hl, this] using hr
    | some m =>
      obtain ⟨a, ha, hx⟩ := hr'.extract hl
      rcases hx.castHead T with ⟨ab, hc, hT, h', hcast, hrel⟩ | ⟨hne, hcast⟩
      · simp only [step, MBSpec.step, hl, ha, hc, hT, hcast, if_true]
        exact ⟨trivial, hrel⟩
      · simp only [step, MBSpec.step, hl, ha, hcast]
        cases hc : a.content with
        | none => exact ⟨rfl, hx⟩
        | some ab =>
          simp only [if_neg (hne ab hc)]
          exact ⟨trivial, hx⟩
  | content tag T =>
    cases hl : lookup tag st.slots with
    | none =>
      have := lookup_none_rel hr'.slots hl
      simpa [step, MBSpec.step, hl, this] using hr
    | some m =>
      obtain ⟨a, ha, hma⟩ := lookup_some_rel hr'.slots hl
      simp only [step, MBSpec.step, hl, ha, tryContent_rel hma T]
      cases hc : a.content with
      | none => exact ⟨rfl, hr⟩
      | some ab =>
        by_cases hT : ab.ty = T
        · simp only [hT, if_true]; exact ⟨trivial, hr⟩
        · simp only [hT, if_false]; exact ⟨trivial, hr⟩
  | canCast tag T =>
    cases hl : lookup tag st.slots with
    | none =>
      have := lookup_none_rel hr'.slots hl
      simpa [step, MBSpec.step, hl, this] using hr
    | some m =>
      obtain ⟨a, ha, hma⟩ := lookup_some_rel hr'.slots hl
      simp only [step, MBSpec.step, hl, ha, canCast_rel hma T]
      cases hc : a.content with
      | none => exact ⟨rfl, hr⟩
      | some ab => exact ⟨rfl, hr⟩
  | length tag =>
    cases hl : lookup tag st.slots with
    | none =>
      have := lookup_none_rel hr'.slots hl
      simpa [step, MBSpec.step, hl, this] using hr
    | some m =>
      obtain ⟨a, ha, hma⟩ := lookup_some_rel hr'.slots hl
      simp only [step, MBSpec.step, hl, ha, Msg.chargedBits, length_rel hma]
      exact ⟨trivial, hr⟩
  | drop tag =>
    cases hl : lookup tag st.slots with
    | none =>
      have := lookup_none_rel hr'.slots hl
      simpa [step, MBSpec.step, hl, this] using hr
    | some m =>
      obtain ⟨a, ha, _⟩ := lookup_some_rel hr'.slots hl
      simp only [step, MBSpec.step, hl, ha]
      exact ⟨trivial, hr.dropSlot tag⟩

theorem run_refines {st : State} {s : MBSpec.State} (hr : Rel st s) (ops : List Op) :
    (run st ops).2 = (MBSpec.run s ops).2 ∧ Rel (run st ops).1 (MBSpec.run s ops).1 := by
  induction ops generalizing st s with
  | nil => exact ⟨rfl, hr⟩
  | cons op ops ih =>
    obtain ⟨ho, hr1⟩ := step_refines hr op
    obtain ⟨hos, hr2⟩ := ih hr1
    simp only [run, MBSpec.run]
    exact ⟨by rw [ho, hos], hr2⟩

/-- dropping every remaining message -/
theorem dropAll_refines {h : Heap} {l : List (String × Msg)} {l' : List (String × AMsg)} {c d : Nat}
    (hr : RelL h l l' c d) : RelL (dropAll h l) [] [] c (d + MBSpec.heldBy l') := by
  induction l generalizing h l' d with
  | nil =>
    cases l' with
    | nil => simpa [dropAll, MBSpec.heldBy] using hr
    | cons _ _ => cases hr.slots
  | cons x l ih =>
    cases l' with
    | nil => cases hr.slots
    | cons y l' =>
      obtain ⟨t, m⟩ := x; obtain ⟨t', a⟩ := y
      have := ih hr.dropHead
      simp only [dropAll, MBSpec.heldBy]
      rw [← Nat.add_assoc]
      exact this

theorem finish_refines {st : State} {s : MBSpec.State} (hr : Rel st s) : Rel st.finish s.finish :=
  dropAll_refines (show RelL st.heap st.slots s.slots s.created s.dropped from hr)

end MB

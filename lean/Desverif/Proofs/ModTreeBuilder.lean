/-
`SimBuilder::node` (model `ModTree.node`) on declaration sequences: acceptance keeps the vector equal
to the specification pre-order; duplicates and orphans are rejected without touching the state.
-/
import Desverif.Proofs.ModTreeAdd
import Desverif.Proofs.ModTreeLifecycle
namespace ModTree
open ObjPath PreSpec

/-- the module vector shows the specification pre-order of `D` (paths and stage counts) -/
def BInv (D : List SDecl) (b : Builder) : Prop := b.mods.map view = (preorder D).map dview

theorem get_none_of_new (D : List SDecl) (b : Builder) (hv : Valid D) (hn : NamesValid D)
    (hb : BInv D b) (s : List (List Nat)) (hs : AllValid s) (hnew : s ∉ D.map (·.segs)) :
    get b.mods (reprOf s) = none := by
  unfold get
  apply List.find?_eq_none.mpr
  intro m hm
  obtain ⟨d, hd, e⟩ := mem_of_map_view hb hm
  have hdD : d ∈ D := (preorder_perm D hv).mem_iff.mp hd
  have hp : m.path = reprOf d.segs := congrArg Prod.fst e
  simp only [beq_iff_eq]
  intro h
  rw [hp] at h
  have := reprOf_injective _ _ (hn d hdD) hs h
  exact hnew (List.mem_map.mpr ⟨d, hdD, this⟩)

theorem get_some_of_old (D : List SDecl) (b : Builder) (hv : Valid D)
    (hb : BInv D b) (s : List (List Nat)) (hold : s ∈ D.map (·.segs)) :
    ∃ pm, get b.mods (reprOf s) = some pm ∧ pm.path = reprOf s := by
  obtain ⟨d, hdD, e⟩ := List.mem_map.mp hold
  have hd : d ∈ preorder D := (preorder_perm D hv).mem_iff.mpr hdD
  have : dview d ∈ b.mods.map view := by rw [hb]; exact List.mem_map.mpr ⟨d, hd, rfl⟩
  obtain ⟨m, hm, hmv⟩ := List.mem_map.mp this
  have hmp : m.path = reprOf s := by rw [← e]; exact congrArg Prod.fst hmv
  unfold get
  cases hf : b.mods.find? (fun m => m.path == reprOf s) with
  | none =>
    have := List.find?_eq_none.mp hf m hm
    simp [hmp] at this
  | some pm =>
    have := List.find?_some hf
    exact ⟨pm, rfl, by simpa using this⟩

/-- **Acceptance.** A valid next declaration is accepted and the invariant is kept. -/
theorem node_accept (D : List SDecl) (p : SDecl) (b : Builder)
    (hnames : NamesValid (D ++ [p])) (hv : Valid (D ++ [p])) (hb : BInv D b) :
    ∃ b', node b (render p.segs) p.stages = (b', none) ∧ BInv (D ++ [p]) b' := by
  obtain ⟨hvD, hnew, hparent⟩ := (valid_snoc D p).mp hv
  have hnD : NamesValid D := fun d hd => hnames d (by simp [hd])
  have hpv : AllValid p.segs := hnames p (by simp)
  have hget := get_none_of_new D b hvD hnD hb p.segs hpv hnew
  unfold node raw
  rw [fromStr_render p.segs hpv, hget, nonzeroParent_reprOf p.segs hpv]
  simp only [Option.isSome_none, Bool.false_eq_true, if_false]
  by_cases hlen : p.segs.length ≤ 1
  · -- standalone
    simp only [hlen, if_true]
    obtain ⟨ms', hadd, hsim, _⟩ := add_preorder_step D p b.mods
      ⟨b.nextId, reprOf p.segs, p.stages, none⟩ hnames hv hb rfl
    simp only [hadd]
    exact ⟨_, rfl, hsim⟩
  · -- child of an existing module
    simp only [hlen, if_false]
    have hq : par p.segs = some p.segs.dropLast := by simp [par, hlen]
    obtain ⟨pm, hpm, hpmp⟩ := get_some_of_old D b hvD hb _ (hparent _ hq)
    have hne : p.segs ≠ [] := by intro e; rw [e] at hlen; simp at hlen
    have hsn : p.segs = p.segs.dropLast ++ [p.segs.getLast hne] :=
      (List.dropLast_concat_getLast hne).symm
    have hnv : ValidName (p.segs.getLast hne) := hpv _ (List.getLast_mem hne)
    have hname : name (reprOf p.segs) = .ok (p.segs.getLast hne) := by
      conv => lhs; rw [hsn]
      exact name_reprOf_snoc _ _ hnv
    have happ : appended pm.path (p.segs.getLast hne) = .ok (reprOf p.segs) := by
      rw [hpmp]
      conv => rhs; rw [hsn]
      exact appended_reprOf _ _ hnv.1
    simp only [hpm, hname, happ]
    obtain ⟨ms', hadd, hsim, _⟩ := add_preorder_step D p b.mods
      ⟨b.nextId, reprOf p.segs, p.stages, some pm.id⟩ hnames hv hb rfl
    simp only [hadd]
    exact ⟨_, rfl, hsim⟩

/-- **Duplicates are rejected** ("node allready exists"), the builder is unchanged. -/
theorem node_dup (D : List SDecl) (b : Builder) (hv : Valid D) (hn : NamesValid D) (hb : BInv D b)
    (d : SDecl) (hd : d ∈ D) (stages : Nat) :
    node b (render d.segs) stages = (b, some .dup) := by
  obtain ⟨pm, hpm, _⟩ := get_some_of_old D b hv hb d.segs (List.mem_map.mpr ⟨d, hd, rfl⟩)
  unfold node raw
  rw [fromStr_render d.segs (hn d hd), hpm]
  simp

/-- **A node whose parent does not exist is rejected**, the builder is unchanged. -/
theorem node_noParent (D : List SDecl) (b : Builder) (hv : Valid D) (hn : NamesValid D)
    (hb : BInv D b) (s q : List (List Nat)) (hs : AllValid s) (stages : Nat)
    (hnew : s ∉ D.map (·.segs)) (hq : par s = some q) (hmiss : q ∉ D.map (·.segs)) :
    node b (render s) stages = (b, some .noParent) := by
  obtain ⟨hqe, hlen, _⟩ := par_some hq
  have hqv : AllValid q := by
    intro n hn'
    rw [hqe] at hn'
    exact hs n (List.dropLast_subset _ hn')
  unfold node raw
  rw [fromStr_render s hs, get_none_of_new D b hv hn hb s hs hnew, nonzeroParent_reprOf s hs]
  have : ¬ s.length ≤ 1 := by omega
  simp only [Option.isSome_none, Bool.false_eq_true, if_false, this]
  rw [← hqe, get_none_of_new D b hv hn hb q hqv hmiss]

/-! ### whole declaration sequences -/

/-- feed a declaration sequence to the builder; the flag records that every node was accepted -/
def buildStep (st : Builder × Bool) (d : SDecl) : Builder × Bool :=
  let r := node st.1 (render d.segs) d.stages
  (r.1, st.2 && r.2.isNone)

def buildAll (D : List SDecl) : Builder × Bool := D.foldl buildStep ({}, true)

theorem preorder_nil : preorder ([] : List SDecl) = [] := rfl

theorem buildAll_ok : ∀ D : List SDecl, Valid D → NamesValid D →
    (buildAll D).2 = true ∧ BInv D (buildAll D).1 := by
  intro D
  induction D using PreSpec.snoc_induction with
  | nil => intro _ _; exact ⟨rfl, by simp [BInv, buildAll, preorder_nil]⟩
  | snoc l p ih =>
    intro hv hn
    obtain ⟨hvl, _, _⟩ := (valid_snoc l p).mp hv
    obtain ⟨hok, hinv⟩ := ih hvl (fun d hd => hn d (by simp [hd]))
    obtain ⟨b', hnode, hinv'⟩ := node_accept l p (buildAll l).1 hn hv hinv
    have : buildAll (l ++ [p]) = buildStep (buildAll l) p := by
      simp [buildAll, List.foldl_append]
    rw [this]
    simp only [buildStep, hnode, hok]
    exact ⟨rfl, hinv'⟩

/-! ### lifecycle calls against the specification -/

theorem maxStage_eq (D : List SDecl) (ms : List Mod) (hv : Valid D)
    (h : ms.map view = (preorder D).map dview) : maxStage ms = PreSpec.maxStage D := by
  have h1 : maxStage ms = (ms.map view).foldl (fun a v => max a v.2) 1 := by
    simp [maxStage, List.foldl_map, view]
  have h2 : PreSpec.maxStage (preorder D) = ((preorder D).map dview).foldl (fun a v => max a v.2) 1 := by
    simp [PreSpec.maxStage, List.foldl_map, dview]
  have h3 : PreSpec.maxStage (preorder D) = PreSpec.maxStage D :=
    foldl_max_perm (fun d : SDecl => d.stages) (preorder_perm D hv) 1
  rw [h1, h, ← h2, h3]

theorem stageCalls_view (D : List SDecl) (ms : List Mod) (s : Nat)
    (h : ms.map view = (preorder D).map dview) :
    (stageCalls ms s).map (fun c => (view c.1, c.2))
      = (((preorder D).filter (fun d => s < d.stages)).map (fun d => (d, s))).map (fun c => (dview c.1, c.2)) := by
  generalize preorder D = L at h
  induction ms generalizing L with
  | nil =>
    cases L with
    | nil => rfl
    | cons _ _ => simp at h
  | cons m ms ih =>
    cases L with
    | nil => simp at h
    | cons d L =>
      simp only [List.map_cons, List.cons.injEq] at h
      have hst : m.stages = d.stages := congrArg Prod.snd h.1
      have := ih L h.2
      simp only [stageCalls, List.filter_cons, hst] at this ⊢
      split
      · simp only [List.map_cons, this, h.1]
      · exact this

/-- the model's start-up calls on a vector that shows the pre-order are the specification's calls -/
theorem startCalls_spec (D : List SDecl) (ms : List Mod) (hv : Valid D)
    (h : ms.map view = (preorder D).map dview) :
    (startCalls ms).map (fun c => (view c.1, c.2)) = (startSpec D).map (fun c => (dview c.1, c.2)) := by
  unfold startCalls startSpec
  rw [maxStage_eq D ms hv h]
  simp only [List.map_flatMap]
  apply PreSpec.flatMap_congr'
  intro s _
  exact stageCalls_view D ms s h

end ModTree

/-
Tear-down of the module tree (`ModTree.teardown`): under the structural facts `TInv` (every child
entry points from a module to a later module whose parent pointer points back) no drop ever
cascades, and the module states are dropped in vector order — parents before their children.
-/
import Desverif.Proofs.ModTreeLookups
import Desverif.Proofs.PreorderParentFirst
namespace ModTree
open ObjPath PreSpec

/-- does `y`'s parent pointer point at a module of `rest`? -/
def liveParent (rest : List Mod) (y : Mod) : Bool :=
  match y.parent with
  | some pid => (rest.map (·.id)).contains pid
  | none => false

structure TInv (b : Builder) : Prop where
  idnd : (b.mods.map (·.id)).Nodup
  rc0 : ∀ x ∈ b.mods, refCount b x.id = if liveParent b.mods x then 2 else 1
  pw : b.mods.Pairwise (fun x y => x.parent ≠ some y.id)
  noself : ∀ x ∈ b.mods, x.parent ≠ some x.id
  kidsOf : ∀ x ∈ b.mods, ∀ k ∈ b.kids, k.1 = x.id → ∃ c ∈ b.mods, c.id = k.2.2 ∧ c.parent = some x.id
  kidsEx : ∀ x ∈ b.mods, ∀ y ∈ b.mods, y.parent = some x.id → ∃ k ∈ b.kids, k.1 = x.id ∧ k.2.2 = y.id
  kidsDistinct : ∀ x ∈ b.mods, ((b.kids.filter (fun k => k.1 == x.id)).map (·.2.2)).Nodup

/-- releasing the clones held by one children map when none of them is the last clone -/
theorem inner_fold (kids : List (Nat × List Nat × Nat)) (f : Nat) :
    ∀ (E : List (Nat × List Nat × Nat)) (st : DropSt),
      (E.map (·.2.2)).Nodup → (∀ c ∈ E.map (·.2.2), st.rc c = 2) →
      (E.foldl (fun st k => release kids (f + 1) st k.2.2) st).out = st.out ∧
      ∀ z, (E.foldl (fun st k => release kids (f + 1) st k.2.2) st).rc z
            = if z ∈ E.map (·.2.2) then 1 else st.rc z := by
  intro E
  induction E with
  | nil => intro st _ _; simp
  | cons k E ih =>
    intro st hnd h2
    simp only [List.map_cons, List.nodup_cons] at hnd
    have hk : st.rc k.2.2 = 2 := h2 _ (by simp)
    have hrel : release kids (f + 1) st k.2.2
        = { st with rc := fun x => if x = k.2.2 then st.rc k.2.2 - 1 else st.rc x } := by
      simp [release, hk]
    simp only [List.foldl_cons, hrel]
    have := ih { st with rc := fun x => if x = k.2.2 then st.rc k.2.2 - 1 else st.rc x } hnd.2
      (by
        intro c hc
        have hne : c ≠ k.2.2 := fun e => hnd.1 (e ▸ hc)
        simp only [hne, if_false]
        exact h2 c (by simp [List.mem_map] at hc ⊢; exact Or.inr hc))
    refine ⟨this.1, ?_⟩
    intro z
    rw [this.2 z]
    simp only [List.map_cons, List.mem_cons]
    by_cases hz : z ∈ E.map (·.2.2)
    · simp [hz]
    · by_cases hzk : z = k.2.2
      · simp [hzk, hk]
      · simp [hz, hzk]

theorem eq_of_id {b : Builder} (h : (b.mods.map (·.id)).Nodup) {x y : Mod} (hx : x ∈ b.mods)
    (hy : y ∈ b.mods) (e : x.id = y.id) : x = y :=
  eq_of_map_eq (·.id) b.mods h x hx y hy e

theorem teardown_fold (b : Builder) (hT : TInv b) : ∀ (rest done : List Mod) (st : DropSt),
    b.mods = done ++ rest →
    (∀ y ∈ rest, st.rc y.id = if liveParent rest y then 2 else 1) →
    (rest.foldl (fun st m => release b.kids (b.mods.length + 1) st m.id) st).out
      = st.out ++ rest.map (·.id) := by
  intro rest
  induction rest with
  | nil => intro done st _ _; simp
  | cons x rest ih =>
    intro done st hmods hJ
    have hx : x ∈ b.mods := by rw [hmods]; simp
    have hrestmem : ∀ y ∈ rest, y ∈ b.mods := fun y hy => by rw [hmods]; simp [hy]
    have hdonemem : ∀ y ∈ done, y ∈ b.mods := fun y hy => by rw [hmods]; simp [hy]
    have hpw := hT.pw
    rw [hmods, List.pairwise_append] at hpw
    obtain ⟨_, hpwr, hcross⟩ := hpw
    rw [List.pairwise_cons] at hpwr
    have hidnd := hT.idnd
    rw [hmods, List.map_append, List.map_cons] at hidnd
    have hxnot : x.id ∉ rest.map (·.id) := by
      have := (List.nodup_append.mp hidnd).2.1
      exact (List.nodup_cons.mp this).1
    -- the parent of `x` is gone: this is the last clone
    have hlive : liveParent (x :: rest) x = false := by
      unfold liveParent
      cases hp : x.parent with
      | none => rfl
      | some pid =>
        simp only [List.map_cons, List.contains_cons, Bool.or_eq_false_iff, beq_eq_false_iff_ne, ne_eq]
        constructor
        · intro e; exact hT.noself x hx (by rw [hp, e])
        · simp only [List.contains_eq_mem, List.mem_map, decide_eq_false_iff_not]
          rintro ⟨y, hy, e⟩
          exact hpwr.1 y hy (by rw [hp, e])
    have hrc1 : st.rc x.id = 1 := by rw [hJ x (by simp), hlive]; rfl
    obtain ⟨n, hn⟩ : ∃ n, b.mods.length = n + 1 := by
      cases hm : b.mods with
      | nil => rw [hm] at hx; simp at hx
      | cons _ _ => exact ⟨_, rfl⟩
    -- the children of `x` all still hold their vector clone
    have hkids2 : ∀ c ∈ (b.kids.filter (fun k => k.1 == x.id)).map (·.2.2),
        (if c = x.id then 0 else st.rc c) = 2 := by
      intro c hc
      obtain ⟨k, hk, rfl⟩ := List.mem_map.mp hc
      simp only [List.mem_filter, beq_iff_eq] at hk
      obtain ⟨cm, hcm, hcid, hcp⟩ := hT.kidsOf x hx k hk.1 hk.2
      have hcmrest : cm ∈ rest := by
        rw [hmods] at hcm
        rcases List.mem_append.mp hcm with h | h
        · exact absurd hcp (hcross cm h x (by simp))
        · rcases List.mem_cons.mp h with rfl | h
          · exact absurd hcp (hT.noself _ hx)
          · exact h
      have hne : k.2.2 ≠ x.id := by
        intro e
        exact hxnot (List.mem_map.mpr ⟨cm, hcmrest, hcid.trans e⟩)
      rw [if_neg hne, ← hcid, hJ cm (by simp [hcmrest])]
      simp [liveParent, hcp]
    let st1 : DropSt := ⟨fun z => if z = x.id then 0 else st.rc z, st.out⟩
    let st2 : DropSt :=
      (b.kids.filter (fun k => k.1 == x.id)).foldl (fun st k => release b.kids (n + 1) st k.2.2) st1
    have hfold : st2.out = st1.out ∧ ∀ z, st2.rc z
        = if z ∈ (b.kids.filter (fun k => k.1 == x.id)).map (·.2.2) then 1 else st1.rc z :=
      inner_fold b.kids n (b.kids.filter (fun k => k.1 == x.id)) st1 (hT.kidsDistinct x hx) hkids2
    simp only [List.foldl_cons]
    have hrel : release b.kids (b.mods.length + 1) st x.id = ⟨st2.rc, st2.out ++ [x.id]⟩ := by
      rw [hn]
      simp only [release, hrc1, if_true]
      rfl
    rw [hrel]
    have hJ' : ∀ y ∈ rest, st2.rc y.id = if liveParent rest y then 2 else 1 := by
      intro y hy
      have hym := hrestmem y hy
      have hyx : y.id ≠ x.id := fun e => hxnot (List.mem_map.mpr ⟨y, hy, e⟩)
      rw [hfold.2 y.id]
      by_cases hpar : y.parent = some x.id
      · obtain ⟨k, hk, hk1, hk2⟩ := hT.kidsEx x hx y hym hpar
        have : y.id ∈ (b.kids.filter (fun k => k.1 == x.id)).map (·.2.2) :=
          List.mem_map.mpr ⟨k, by simp [List.mem_filter, hk, hk1], hk2⟩
        rw [if_pos this]
        have hl : liveParent rest y = false := by
          simp only [liveParent, hpar, List.contains_eq_mem, decide_eq_false_iff_not]
          exact hxnot
        rw [hl]; rfl
      · have : y.id ∉ (b.kids.filter (fun k => k.1 == x.id)).map (·.2.2) := by
          intro hmem
          obtain ⟨k, hk, e⟩ := List.mem_map.mp hmem
          simp only [List.mem_filter, beq_iff_eq] at hk
          obtain ⟨cm, hcm, hcid, hcp⟩ := hT.kidsOf x hx k hk.1 hk.2
          have : cm = y := eq_of_id hT.idnd hcm hym (hcid.trans e)
          rw [this] at hcp
          exact hpar hcp
        rw [if_neg this]
        show (if y.id = x.id then 0 else st.rc y.id) = _
        rw [if_neg hyx, hJ y (by simp [hy])]
        have hl : liveParent (x :: rest) y = liveParent rest y := by
          unfold liveParent
          cases hp : y.parent with
          | none => rfl
          | some pid =>
            have hne : pid ≠ x.id := fun e => hpar (by rw [hp, e])
            simp [hne]
        rw [hl]
    have := ih (done ++ [x]) ⟨st2.rc, st2.out ++ [x.id]⟩ (by rw [hmods]; simp) hJ'
    rw [this]
    show (st2.out ++ [x.id]) ++ _ = _
    rw [hfold.1]
    simp [st1]

/-- **No cascade, vector order.**  Under `TInv` the module states are dropped in the order of the
    module vector. -/
theorem teardown_of_tinv (b : Builder) (hT : TInv b) : teardown b = b.mods.map (·.id) := by
  unfold teardown
  have := teardown_fold b hT b.mods [] ⟨refCount b, []⟩ (by simp) (fun y hy => hT.rc0 y hy)
  simpa using this

end ModTree

/-
Event instants: the observations of an own event are stamped with its instant, and - external messages arriving at
strictly increasing instants - everything observed later is stamped with a later instant.  This discharges the
second condition of `Exec.GoodRun`.
-/
import Desverif.Proofs.ExecRefine
namespace Exec
open ExecSpec

/-- the history grows by records stamped with the (unchanged) current instant -/
def GrowsAt (s s' : St) : Prop := s'.now = s.now ∧ ∃ Δ, hist s' = hist s ++ Δ ∧ ∀ x ∈ Δ, x.1 = s.now

theorem ga_refl (s : St) : GrowsAt s s := ⟨rfl, [], by simp, fun x hx => by simp at hx⟩

theorem ga_trans {a b c : St} (h1 : GrowsAt a b) (h2 : GrowsAt b c) : GrowsAt a c := by
  obtain ⟨n1, Δ1, e1, p1⟩ := h1
  obtain ⟨n2, Δ2, e2, p2⟩ := h2
  refine ⟨n2.trans n1, Δ1 ++ Δ2, by rw [e2, e1, List.append_assoc], ?_⟩
  intro x hx
  rcases List.mem_append.1 hx with hx | hx
  · exact p1 x hx
  · rw [← n1]; exact p2 x hx

theorem ga_same {s s' : St} (h1 : s'.log = s.log) (h2 : s'.now = s.now) : GrowsAt s s' :=
  ⟨h2, [], by simp [hist_eq_of_log h1], fun x hx => by simp at hx⟩

theorem ga_of_le {i : Nat} {s s' : St} (h : LE i s s') : GrowsAt s s' := by
  obtain ⟨hn, _, Δ, hl, _, hp⟩ := h
  refine ⟨hn, _, hist_of_log s s' Δ hl, ?_⟩
  intro x hx
  simp only [List.mem_map, List.mem_reverse] at hx
  obtain ⟨y, hy, rfl⟩ := hx
  exact (hp y hy).1

theorem step_ga (P : Params) (q : Kind) (m : St) : GrowsAt m (step P q m) := by
  unfold step
  cases hp : pop P q m with
  | none => exact ga_refl m
  | some x =>
    obtain ⟨e, m0⟩ := x
    simp only
    have hpp := pop_pool P q m m0 e hp
    have h0 : GrowsAt m m0 := ga_same hpp.2.2.2.2.2.1 hpp.2.2.2.2.1
    have h1 : GrowsAt m0 (pollTask P e m0) := ga_of_le (le_pollTask P e m0)
    refine ga_trans (ga_trans h0 h1) ?_
    rcases noteSilent_eq m0 (pollTask P e m0) with h | h <;> rw [h] <;> exact ga_same rfl rfl

theorem runQ_ga (P : Params) (q : Kind) : ∀ (b : Nat) (m : St), GrowsAt m (runQ P q b m) := by
  intro b
  induction b with
  | zero => intro m; exact ga_refl m
  | succ b ih =>
    intro m
    cases hq : pop P q m with
    | none => rw [runQ_of_empty P q _ m hq]; exact ga_refl m
    | some x => rw [runQ_cons P q b m x hq]; exact ga_trans (step_ga P q m) (ih _)

theorem pass_ga (P : Params) (m : St) : GrowsAt m (pass P m) := by
  have h1 : GrowsAt m (afterTick P m) := by
    unfold afterTick; rw [runQn_eq]; simp only
    have := ga_trans (ga_same (s := m) (s' := tickStart m) rfl rfl) (runQ_ga P .loc P.L (tickStart m))
    split
    · exact this
    · exact ga_trans this (ga_same rfl rfl)
  have h2 : GrowsAt (afterTick P m) (afterRt P m) := by
    unfold afterRt; rw [runQn_eq]; simp only
    have := ga_trans (ga_same (s := afterTick P m) (s' := rtStart P m) rfl rfl)
      (runQ_ga P .rt P.E (rtStart P m))
    split
    · exact ga_trans this (ga_same rfl rfl)
    · exact this
  unfold pass
  have hf := flush_view (afterRt P m)
  exact ga_trans (ga_trans h1 h2) (ga_same hf.2.2.2.2.2.1 hf.2.2.2.2.1)

theorem drain_ga (P : Params) : ∀ (n : Nat) (m : St), GrowsAt m (drain P n m) := by
  intro n
  induction n with
  | zero => intro m; exact ga_refl m
  | succ n ih =>
    intro m
    simp only [drain]
    split
    · exact ga_refl m
    · exact ga_trans (ga_trans (ga_same (s := m) (s' := { m with lflag := false }) rfl rfl) (pass_ga P _)) (ih _)

theorem exec_ga (P : Params) (h : List Instr) (m : St) : GrowsAt m (exec P h m) := by
  unfold exec turn1 afterHandler
  simp only
  refine ga_trans (ga_trans ?_ (pass_ga P _)) (drain_ga P _ _)
  have := runH_view h { { m with lflag := false } with phase := .handler }
  exact ga_same this.1 this.2.2

/-- the records of an own event carry its instant -/
theorem handle_records (P : Params) (ev : Ev) (m : St) (hf : ev.foreign = false) :
    ∃ Δ, hist (handle P false ev m) = hist m ++ Δ ∧ ∀ x ∈ Δ, x.1 = ev.time := by
  have hav := activate_view ev.time m
  unfold handle
  simp only [hf, Bool.false_eq_true, if_false]
  by_cases hc : ev.consumed = true
  · simp only [hc, if_true]
    have hrv := runH_view ev.prog (activate ev.time m)
    obtain ⟨_, Δ, e, p⟩ := exec_ga P [] (runH ev.prog (activate ev.time m))
    refine ⟨Δ, by rw [e, hist_eq_of_log (hrv.1.trans hav.1)], ?_⟩
    intro x hx
    rw [p x hx, hrv.2.2, hav.2.2]
  · have hc' : ev.consumed = false := by simpa using hc
    simp only [hc', Bool.false_eq_true, if_false]
    obtain ⟨_, Δ, e, p⟩ := exec_ga P ev.prog (activate ev.time m)
    refine ⟨Δ, by rw [e, hist_eq_of_log hav.1], ?_⟩
    intro x hx
    rw [p x hx, hav.2.2]

theorem handle_foreign_hist (P : Params) (ev : Ev) (m : St) (hf : ev.foreign = true) :
    hist (handle P false ev m) = hist m := by
  unfold handle
  simp only [hf, if_true]
  exact hist_eq_of_log (runH_view ev.prog _).1

/-! ### an own event that finds nothing to do -/

theorem pass_idle_view (P : Params) (hL : 1 ≤ P.L) (s : St)
    (h1 : s.rq = []) (h2 : s.iq = []) (h3 : s.lq = []) (h4 : s.dq = []) :
    (pass P s).log = s.log ∧ (pass P s).timers = s.timers ∧ (pass P s).rq = [] ∧ (pass P s).iq = [] ∧
    (pass P s).lq = [] ∧ (pass P s).dq = [] ∧ (pass P s).lflag = s.lflag := by
  have hpl : pop P .loc (tickStart s) = none := (pop_none_loc P _).2 h3
  have ht : afterTick P s = tickStart s := by
    unfold afterTick
    rw [runQn_eq, runQ_of_empty P .loc _ _ hpl, polls_of_empty P .loc _ _ hpl]
    simp only
    split
    · rfl
    · omega
  have hpr : pop P .rt (rtStart P s) = none := by
    refine (pop_none_rt P _).2 ?_
    unfold rtStart
    rw [ht]
    exact ⟨h1, h2⟩
  have hr : (afterRt P s).log = s.log ∧ (afterRt P s).timers = s.timers ∧ (afterRt P s).rq = [] ∧
      (afterRt P s).iq = [] ∧ (afterRt P s).lq = [] ∧ (afterRt P s).dq = [] ∧ (afterRt P s).lflag = s.lflag := by
    unfold afterRt
    rw [runQn_eq, runQ_of_empty P .rt _ _ hpr, polls_of_empty P .rt _ _ hpr]
    simp only
    unfold rtStart
    rw [ht]
    split <;> exact ⟨rfl, rfl, h1, h2, h3, h4, rfl⟩
  unfold pass flush
  rw [hr.2.2.2.2.2.1]
  simp only [List.reverse_nil, List.foldl_nil]
  exact ⟨hr.1, hr.2.1, hr.2.2.1, hr.2.2.2.1, hr.2.2.2.2.1, trivial, hr.2.2.2.2.2.2⟩

/-- a timer wake-up event that finds the module quiet and no timer due changes nothing that matters -/
theorem handle_idle (P : Params) (hL : 1 ≤ P.L) (t : Nat) (m : St) (hq : Quiet m)
    (ht : ∀ tm ∈ m.timers, t < tm.deadline) :
    hist (handle P false { time := t } m) = hist m ∧ Quiet (handle P false { time := t } m) ∧
    (handle P false { time := t } m).timers = m.timers := by
  obtain ⟨q1, q2, q3, q4⟩ := hq
  have hdue : m.timers.filter (·.deadline ≤ t) = [] := by
    refine List.filter_eq_nil_iff.2 ?_
    intro tm htm
    have := ht tm htm
    simp only [decide_eq_true_eq]
    omega
  have hkeep : m.timers.filter (t < ·.deadline) = m.timers := by
    refine List.filter_eq_self.2 ?_
    intro tm htm
    simp only [decide_eq_true_eq]
    exact ht tm htm
  have hact : activate t m = { m with now := t, phase := .outside } := by
    unfold activate
    rw [hdue, hkeep]
    rfl
  have hexec : handle P false { time := t } m = exec P [] { m with now := t, phase := .outside } := by
    unfold handle
    simp only [Bool.false_eq_true, if_false, hact]
  rw [hexec]
  unfold exec turn1 afterHandler
  simp only [runH]
  have hv := pass_idle_view P hL
    { { { m with now := t, phase := Phase.outside } with lflag := false } with phase := .handler } q1 q2 q3 q4
  obtain ⟨v1, v2, v3, v4, v5, v6, v7⟩ := hv
  have hdr : ∀ n, drain P (n + 1)
      (pass P { { { m with now := t, phase := Phase.outside } with lflag := false } with phase := .handler }) =
      pass P { { { m with now := t, phase := Phase.outside } with lflag := false } with phase := .handler } := by
    intro n
    simp only [drain, v3, v4, v7, List.isEmpty_nil, Bool.not_false, Bool.and_self, if_true]
  rw [hdr]
  exact ⟨hist_eq_of_log v1, ⟨v3, v4, v5, v6⟩, v2⟩

/-! ### which event comes next -/

theorem nextEvent_cases (evs evs' : List Ev) (wk wk' : List Nat) (ev : Ev)
    (h : nextEvent evs wk = some (ev, evs', wk')) :
    (∃ r, evs = ev :: r ∧ evs' = r ∧ wk' = wk ∧ (∀ w ∈ wk, ev.time ≤ w)) ∨
    (∃ m, ev = { time := m } ∧ evs' = evs ∧ wk' = wk.erase m ∧ m ∈ wk ∧ (∀ w ∈ wk, m ≤ w) ∧
      (∀ e ∈ evs.head?, m < e.time)) := by
  unfold nextEvent at h
  cases hm : minL wk with
  | none =>
    have hw := minL_none wk hm
    subst hw
    cases evs with
    | nil => simp [hm] at h
    | cons e r =>
      simp [hm] at h
      obtain ⟨h1, h2, h3⟩ := h
      subst h1 h2 h3
      exact Or.inl ⟨_, rfl, rfl, rfl, fun w hw => by simp at hw⟩
  | some m =>
    have hs := minL_spec wk m hm
    cases evs with
    | nil =>
      simp [hm] at h
      obtain ⟨h1, h2, h3⟩ := h
      subst h1 h2 h3
      exact Or.inr ⟨m, rfl, rfl, rfl, hs.1, hs.2, fun e he => by simp at he⟩
    | cons e r =>
      simp only [hm] at h
      split at h
      · rename_i hlt
        simp only [Option.some.injEq, Prod.mk.injEq] at h
        obtain ⟨h1, h2, h3⟩ := h
        subst h1 h2 h3
        exact Or.inr ⟨m, rfl, rfl, rfl, hs.1, hs.2, fun e' he => by simp at he; subst he; exact hlt⟩
      · rename_i hlt
        simp only [Option.some.injEq, Prod.mk.injEq] at h
        obtain ⟨h1, h2, h3⟩ := h
        subst h1 h2 h3
        exact Or.inl ⟨_, rfl, rfl, rfl, fun w hw => by have := hs.2 w hw; omega⟩

theorem deactivate_new (s : St) (nw : Option Nat) (d : Nat) (h : (deactivate s nw).2 = some d) :
    ∃ tm ∈ s.timers, tm.deadline = d := by
  unfold deactivate at h
  cases hm : minL (s.timers.map (·.deadline)) with
  | none => simp [hm] at h
  | some d0 =>
    have hs := (minL_spec _ d0 hm).1
    obtain ⟨tm, htm, hd⟩ := List.mem_map.1 hs
    simp only [hm] at h
    cases nw with
    | none => simp at h; exact ⟨tm, htm, hd.trans h⟩
    | some w =>
      simp only at h
      split at h
      · simp at h; exact ⟨tm, htm, hd.trans h⟩
      · simp at h

/-! ### later observations carry later instants -/

def Sorted (evs : List Ev) : Prop := evs.Pairwise (fun a b => a.time < b.time)

/-- what holds between two events of a run (repaired code) -/
def RunInv (t : Nat) (evs : List Ev) (wk : List Nat) (nw : Option Nat) (m : St) : Prop :=
  Pend m ∧ OnTime m ∧ Sched m wk nw ∧ Sorted evs ∧ (∀ e ∈ evs, t ≤ e.time) ∧ (∀ w ∈ wk, t ≤ w)

/-- the invariant after one event of the run, at the event's instant -/
theorem runInv_step (P : Params) (hL : 1 ≤ P.L) (hE : 1 ≤ P.E) (hC : 1 ≤ P.C) (t : Nat) (evs evs' : List Ev)
    (wk wk' : List Nat) (nw : Option Nat) (m : St) (ev : Ev) (hi : RunInv t evs wk nw m)
    (hne : nextEvent evs wk = some (ev, evs', wk')) :
    t ≤ ev.time ∧
    (ev.foreign = true → RunInv ev.time evs' wk' nw (handle P false ev m)) ∧
    (ev.foreign = false →
      Quiet (handle P false ev m) ∧ (∀ tm ∈ (handle P false ev m).timers, ev.time < tm.deadline) ∧
      (∀ e ∈ evs', ev.time < e.time) ∧
      RunInv ev.time evs' (wk' ++ (deactivate (handle P false ev m) (resetWakeup ev.time nw)).2.toList)
        (deactivate (handle P false ev m) (resetWakeup ev.time nw)).1 (handle P false ev m)) := by
  obtain ⟨hp, ho, hs, hsorted, hevs, hwk⟩ := hi
  have hspec := nextEvent_spec evs evs' wk wk' ev hne
  -- where the event comes from
  have hcase := nextEvent_cases evs evs' wk wk' ev hne
  have hge : t ≤ ev.time := by
    rcases hcase with ⟨r, h1, _, _, _⟩ | ⟨m0, h1, _, _, hm, _, _⟩
    · exact hevs ev (by rw [h1]; exact List.mem_cons_self)
    · rw [h1]; exact hwk m0 hm
  have hsorted' : Sorted evs' := by
    rcases hcase with ⟨r, h1, h2, _, _⟩ | ⟨m0, _, h2, _, _, _, _⟩
    · rw [h2]; rw [h1] at hsorted; exact (List.pairwise_cons.1 hsorted).2
    · rw [h2]; exact hsorted
  have hevs_lt : ev.foreign = false ∨ True → ∀ e ∈ evs', ev.time < e.time ∨ (ev.foreign = true ∧ ev.time ≤ e.time) := by
    intro _ e he
    rcases hcase with ⟨r, h1, h2, _, _⟩ | ⟨m0, h1, h2, _, _, _, hhead⟩
    · rw [h2] at he; rw [h1] at hsorted
      exact Or.inl ((List.pairwise_cons.1 hsorted).1 e he)
    · rw [h2] at he
      left
      rw [h1]
      show m0 < e.time
      cases hevs' : evs with
      | nil => rw [hevs'] at he; simp at he
      | cons a r =>
        rw [hevs'] at he hsorted hhead
        have hm0 : m0 < a.time := hhead a (by simp)
        rcases List.mem_cons.1 he with he | he
        · rw [he]; exact hm0
        · have := (List.pairwise_cons.1 hsorted).1 e he; omega
  have hevs_le : ∀ e ∈ evs', ev.time ≤ e.time := by
    intro e he
    rcases hevs_lt (Or.inr trivial) e he with h | h
    · omega
    · exact h.2
  have hwk_ge : ∀ w ∈ wk', ev.time ≤ w := by
    intro w hw
    rcases hcase with ⟨r, _, _, h3, h4⟩ | ⟨m0, h1, _, h3, _, h5, _⟩
    · rw [h3] at hw; exact h4 w hw
    · rw [h3] at hw; rw [h1]; exact h5 w (List.mem_of_mem_erase hw)
  refine ⟨hge, ?_, ?_⟩
  · intro hf
    have hh := handle_foreign P false ev m hf hp ho
    refine ⟨hh.1, hh.2.1, ⟨fun tm htm => ?_, fun w0 h => ?_⟩, hsorted', hevs_le, hwk_ge⟩
    · rw [hh.2.2] at htm
      obtain ⟨w, hw, hle⟩ := hs.1 tm htm
      exact ⟨w, nextEvent_keeps evs evs' wk wk' ev hne hf w hw, hle⟩
    · exact nextEvent_keeps evs evs' wk wk' ev hne hf w0 (hs.2 w0 h)
  · intro hf
    have hns : ∀ tm ∈ m.timers, ev.time ≤ tm.deadline := by
      intro tm htm
      obtain ⟨w, hw, hle⟩ := hs.1 tm htm
      have := hspec.1 w hw
      omega
    have hh := handle_spec P hL hE hC ev m hf hp ho hns
    have hsched := deactivate_sched (handle P false ev m) ev.time wk wk' nw hs.2 hspec.2
    have hlt : ∀ e ∈ evs', ev.time < e.time := by
      intro e he
      rcases hevs_lt (Or.inl hf) e he with h | h
      · exact h
      · rw [hf] at h; cases h.1
    refine ⟨hh.1, hh.2.2, hlt, pend_of_quiet _ hh.1, hh.2.1, hsched, hsorted', hevs_le, ?_⟩
    intro w hw
    rcases List.mem_append.1 hw with hw | hw
    · exact hwk_ge w hw
    · cases hd : (deactivate (handle P false ev m) (resetWakeup ev.time nw)).2 with
      | none => rw [hd] at hw; simp at hw
      | some d =>
        rw [hd] at hw
        simp only [Option.toList, List.mem_singleton] at hw
        obtain ⟨tm, htm, hdl⟩ := deactivate_new _ _ d hd
        have := hh.2.2 tm htm
        omega

/-- everything observed from here on is stamped `t` or later -/
theorem future_ge (P : Params) (hL : 1 ≤ P.L) (hE : 1 ≤ P.E) (hC : 1 ≤ P.C) :
    ∀ (n t : Nat) (evs : List Ev) (wk : List Nat) (nw : Option Nat) (m : St) (fut : List (Nat × Nat)),
      RunInv t evs wk nw m → hist (runSim P false n evs wk nw m) = hist m ++ fut → ∀ x ∈ fut, t ≤ x.1 := by
  intro n
  induction n with
  | zero =>
    intro t evs wk nw m fut _ hh x hx
    simp only [runSim] at hh
    have : fut = [] := by have := congrArg List.length hh; simpa using this
    rw [this] at hx; simp at hx
  | succ n ih =>
    intro t evs wk nw m fut hi hh x hx
    simp only [runSim] at hh
    cases hne : nextEvent evs wk with
    | none =>
      simp only [hne] at hh
      have : fut = [] := by have := congrArg List.length hh; simpa using this
      rw [this] at hx; simp at hx
    | some y =>
      obtain ⟨ev, evs', wk'⟩ := y
      simp only [hne] at hh
      obtain ⟨hge, hfor, hown⟩ := runInv_step P hL hE hC t evs evs' wk wk' nw m ev hi hne
      by_cases hf : ev.foreign = true
      · simp only [hf, if_true] at hh
        rw [← handle_foreign_hist P ev m hf] at hh
        have := ih ev.time evs' wk' nw _ fut (hfor hf) hh x hx
        omega
      · have hf' : ev.foreign = false := by simpa using hf
        simp only [hf', Bool.false_eq_true, if_false] at hh
        obtain ⟨Δ, hΔ, hΔt⟩ := handle_records P ev m hf'
        obtain ⟨fut', hfut'⟩ := runSim_grows P n evs'
          (wk' ++ (deactivate (handle P false ev m) (resetWakeup ev.time nw)).2.toList)
          (deactivate (handle P false ev m) (resetWakeup ev.time nw)).1 (handle P false ev m)
        have hfut : fut = Δ ++ fut' := by
          rw [hfut', hΔ, List.append_assoc] at hh
          exact (List.append_cancel_left hh).symm
        rw [hfut] at hx
        rcases List.mem_append.1 hx with hx | hx
        · rw [hΔt x hx]; exact hge
        · have := ih ev.time _ _ _ _ fut' (hown hf').2.2.2 hfut' x hx
          omega

/-- after an own event at `t` (nothing runnable, timers and external messages strictly later) everything observed
from here on is stamped strictly later than `t` -/
theorem future_gt (P : Params) (hL : 1 ≤ P.L) (hE : 1 ≤ P.E) (hC : 1 ≤ P.C) :
    ∀ (n t : Nat) (evs : List Ev) (wk : List Nat) (nw : Option Nat) (m : St) (fut : List (Nat × Nat)),
      RunInv t evs wk nw m → Quiet m → (∀ tm ∈ m.timers, t < tm.deadline) → (∀ e ∈ evs, t < e.time) →
      hist (runSim P false n evs wk nw m) = hist m ++ fut → ∀ x ∈ fut, t < x.1 := by
  intro n
  induction n with
  | zero =>
    intro t evs wk nw m fut _ _ _ _ hh x hx
    simp only [runSim] at hh
    have : fut = [] := by have := congrArg List.length hh; simpa using this
    rw [this] at hx; simp at hx
  | succ n ih =>
    intro t evs wk nw m fut hi hq htm hev hh x hx
    simp only [runSim] at hh
    cases hne : nextEvent evs wk with
    | none =>
      simp only [hne] at hh
      have : fut = [] := by have := congrArg List.length hh; simpa using this
      rw [this] at hx; simp at hx
    | some y =>
      obtain ⟨ev, evs', wk'⟩ := y
      simp only [hne] at hh
      obtain ⟨hge, hfor, hown⟩ := runInv_step P hL hE hC t evs evs' wk wk' nw m ev hi hne
      by_cases hlt : t < ev.time
      · -- a strictly later event: its own records and everything after it are at least `ev.time`
        by_cases hf : ev.foreign = true
        · simp only [hf, if_true] at hh
          rw [← handle_foreign_hist P ev m hf] at hh
          have := future_ge P hL hE hC n ev.time evs' wk' nw _ fut (hfor hf) hh x hx
          omega
        · have hf' : ev.foreign = false := by simpa using hf
          simp only [hf', Bool.false_eq_true, if_false] at hh
          obtain ⟨Δ, hΔ, hΔt⟩ := handle_records P ev m hf'
          obtain ⟨fut', hfut'⟩ := runSim_grows P n evs'
            (wk' ++ (deactivate (handle P false ev m) (resetWakeup ev.time nw)).2.toList)
            (deactivate (handle P false ev m) (resetWakeup ev.time nw)).1 (handle P false ev m)
          have hfut : fut = Δ ++ fut' := by
            rw [hfut', hΔ, List.append_assoc] at hh
            exact (List.append_cancel_left hh).symm
          rw [hfut] at hx
          rcases List.mem_append.1 hx with hx | hx
          · rw [hΔt x hx]; exact hlt
          · have := future_ge P hL hE hC n ev.time _ _ _ _ fut' (hown hf').2.2.2 hfut' x hx
            omega
      · -- an event at `t` itself: it is a timer wake-up that finds nothing to do
        have heq : ev.time = t := by omega
        rcases nextEvent_cases evs evs' wk wk' ev hne with ⟨r, h1, _, _, _⟩ | ⟨m0, h1, h2, h3, _, _, _⟩
        · exfalso
          have := hev ev (by rw [h1]; exact List.mem_cons_self)
          omega
        · subst h1
          have heq' : m0 = t := heq
          subst heq'
          have hidle := handle_idle P hL m0 m hq htm
          have hf' : ({ time := m0 } : Ev).foreign = false := rfl
          simp only [Bool.false_eq_true, if_false] at hh
          rw [← hidle.1] at hh
          have hown' := hown hf'
          refine ih m0 evs' _ _ _ fut hown'.2.2.2 hidle.2.1 ?_ ?_ hh x hx
          · intro tm h
            rw [hidle.2.2] at h
            exact htm tm h
          · rw [h2]; exact hev

/-- the part of `GoodRun` that cannot be derived: every poll makes an observation -/
def NoSilent (P : Params) : Nat → List Ev → List Nat → Option Nat → St → Prop
  | 0, _, _, _, _ => True
  | n + 1, evs, wk, nw, m =>
    match nextEvent evs wk with
    | none => True
    | some (ev, evs', wk') =>
      (handle P false ev m).silent = m.silent ∧
      (if ev.foreign then NoSilent P n evs' wk' nw (handle P false ev m)
       else NoSilent P n evs' (wk' ++ (deactivate (handle P false ev m) (resetWakeup ev.time nw)).2.toList)
         (deactivate (handle P false ev m) (resetWakeup ev.time nw)).1 (handle P false ev m))

instance noSilentDecidable (P : Params) : ∀ (n : Nat) (evs : List Ev) (wk : List Nat) (nw : Option Nat) (m : St),
    Decidable (NoSilent P n evs wk nw m)
  | 0, _, _, _, _ => isTrue trivial
  | n + 1, evs, wk, nw, m => by
    unfold NoSilent
    cases nextEvent evs wk with
    | none => exact isTrue trivial
    | some x =>
      obtain ⟨ev, evs', wk'⟩ := x
      simp only
      have := noSilentDecidable P n
      cases ev.foreign <;> simp only [Bool.false_eq_true, if_false, if_true] <;> infer_instance

instance (evs : List Ev) : Decidable (Sorted evs) := by unfold Sorted; infer_instance

/-- with external messages at strictly increasing instants a run without observation-free polls is a `GoodRun` -/
theorem goodRun_of_sorted (P : Params) (hL : 1 ≤ P.L) (hE : 1 ≤ P.E) (hC : 1 ≤ P.C) :
    ∀ (n t : Nat) (evs : List Ev) (wk : List Nat) (nw : Option Nat) (m : St),
      RunInv t evs wk nw m → NoSilent P n evs wk nw m → GoodRun P n evs wk nw m := by
  intro n
  induction n with
  | zero => intro t evs wk nw m _ _; trivial
  | succ n ih =>
    intro t evs wk nw m hi hns
    simp only [NoSilent] at hns
    simp only [GoodRun]
    cases hne : nextEvent evs wk with
    | none => trivial
    | some y =>
      obtain ⟨ev, evs', wk'⟩ := y
      simp only [hne] at hns ⊢
      obtain ⟨hge, hfor, hown⟩ := runInv_step P hL hE hC t evs evs' wk wk' nw m ev hi hne
      refine ⟨hns.1, ?_⟩
      by_cases hf : ev.foreign = true
      · simp only [hf, if_true] at hns ⊢
        exact ih ev.time _ _ _ _ (hfor hf) hns.2
      · have hf' : ev.foreign = false := by simpa using hf
        simp only [hf', Bool.false_eq_true, if_false] at hns ⊢
        obtain ⟨hq, htm, hlt, hinv⟩ := hown hf'
        refine ⟨?_, ih ev.time _ _ _ _ hinv hns.2⟩
        obtain ⟨fut', hfut'⟩ := runSim_grows P n evs'
          (wk' ++ (deactivate (handle P false ev m) (resetWakeup ev.time nw)).2.toList)
          (deactivate (handle P false ev m) (resetWakeup ev.time nw)).1 (handle P false ev m)
        intro x hx
        rw [hfut', List.drop_left] at hx
        have := future_gt P hL hE hC n ev.time _ _ _ _ fut' hinv hq htm hlt hfut' x hx
        omega

end Exec

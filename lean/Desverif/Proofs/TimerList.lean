/-
Lemmas about the timer-queue primitives of `Model.Timer` (`add`, `removeEntry`, `resetEntry`,
`next`, `bump`) used by the invariant proofs in Proofs/TimerInv.lean.
-/
import Desverif.Model.Timer
namespace Timer

/-- slot deadlines are strictly increasing (what `binary_search_by` in `TimerQueue::add` relies on) -/
def Sorted (p : List Slot) : Prop := p.Pairwise (fun a b => a.time < b.time)

/-- entry `e` is registered in the slot with deadline `d` -/
def HasEntry (p : List Slot) (d : Nat) (e : Entry) : Prop := ∃ s ∈ p, s.time = d ∧ e ∈ s.entries

theorem mem_add (p : List Slot) (e : Entry) (d : Nat) :
    ∀ s' ∈ add p e d, s' ∈ p ∨
      (s'.time = d ∧ ∃ old, s'.entries = old ++ [e] ∧ (old = [] ∨ ∃ s ∈ p, s.time = d ∧ s.entries = old)) := by
  induction p with
  | nil =>
    intro s' h
    simp only [add, List.mem_singleton] at h
    subst h
    exact Or.inr ⟨rfl, [], rfl, Or.inl rfl⟩
  | cons a rest ih =>
    intro s' h
    simp only [add] at h
    split at h
    · rename_i heq
      rcases List.mem_cons.mp h with h | h
      · subst h
        exact Or.inr ⟨heq, a.entries, rfl, Or.inr ⟨a, List.mem_cons_self, heq, rfl⟩⟩
      · exact Or.inl (List.mem_cons_of_mem _ h)
    · split at h
      · rcases List.mem_cons.mp h with h | h
        · subst h
          exact Or.inr ⟨rfl, [], rfl, Or.inl rfl⟩
        · exact Or.inl h
      · rcases List.mem_cons.mp h with h | h
        · subst h; exact Or.inl List.mem_cons_self
        · rcases ih s' h with h | ⟨h1, old, h2, h3⟩
          · exact Or.inl (List.mem_cons_of_mem _ h)
          · refine Or.inr ⟨h1, old, h2, ?_⟩
            rcases h3 with h3 | ⟨s, hs, h4⟩
            · exact Or.inl h3
            · exact Or.inr ⟨s, List.mem_cons_of_mem _ hs, h4⟩

theorem add_time (p : List Slot) (e : Entry) (d : Nat) :
    ∀ s' ∈ add p e d, s'.time = d ∨ ∃ s ∈ p, s.time = s'.time := by
  intro s' h
  rcases mem_add p e d s' h with h | h
  · exact Or.inr ⟨s', h, rfl⟩
  · exact Or.inl h.1

theorem sorted_add (p : List Slot) (e : Entry) (d : Nat) (h : Sorted p) : Sorted (add p e d) := by
  induction p with
  | nil => simp [add, Sorted]
  | cons a rest ih =>
    simp only [add]
    have ha := List.pairwise_cons.mp h
    split
    · exact List.pairwise_cons.mpr ⟨ha.1, ha.2⟩
    · split
      · rename_i h1 h2
        refine List.pairwise_cons.mpr ⟨?_, h⟩
        intro b hb
        rcases List.mem_cons.mp hb with hb | hb
        · subst hb; exact h2
        · exact Nat.lt_trans h2 (ha.1 b hb)
      · rename_i h1 h2
        refine List.pairwise_cons.mpr ⟨?_, ih ha.2⟩
        intro b hb
        rcases add_time rest e d b hb with hb | ⟨s, hs, hb⟩
        · omega
        · rw [← hb]; exact ha.1 s hs

/-- forward: every slot survives `add`, keeping its entries -/
theorem add_keeps (p : List Slot) (e : Entry) (d : Nat) :
    ∀ s ∈ p, ∃ s' ∈ add p e d, s'.time = s.time ∧ ∀ x ∈ s.entries, x ∈ s'.entries := by
  induction p with
  | nil => intro s h; cases h
  | cons a rest ih =>
    intro s h
    simp only [add]
    split
    · rcases List.mem_cons.mp h with h | h
      · subst h
        exact ⟨_, List.mem_cons_self, rfl, fun x hx => List.mem_append_left _ hx⟩
      · exact ⟨s, List.mem_cons_of_mem _ h, rfl, fun x hx => hx⟩
    · split
      · exact ⟨s, List.mem_cons_of_mem _ h, rfl, fun x hx => hx⟩
      · rcases List.mem_cons.mp h with h | h
        · subst h; exact ⟨_, List.mem_cons_self, rfl, fun x hx => hx⟩
        · obtain ⟨s', h1, h2⟩ := ih s h
          exact ⟨s', List.mem_cons_of_mem _ h1, h2⟩

/-- the new entry is registered at `d` -/
theorem add_has (p : List Slot) (e : Entry) (d : Nat) :
    ∃ s' ∈ add p e d, s'.time = d ∧ e ∈ s'.entries := by
  induction p with
  | nil => exact ⟨_, List.mem_singleton.mpr rfl, rfl, List.mem_singleton.mpr rfl⟩
  | cons a rest ih =>
    simp only [add]
    split
    · rename_i h
      exact ⟨_, List.mem_cons_self, h, by simp⟩
    · split
      · exact ⟨_, List.mem_cons_self, rfl, by simp⟩
      · obtain ⟨s', h1, h2⟩ := ih
        exact ⟨s', List.mem_cons_of_mem _ h1, h2⟩

theorem eraseSid_nil_of_nil (sid : Nat) : eraseSid sid [] = [] := rfl

theorem mem_eraseSid {sid : Nat} {es : List Entry} {x : Entry} (h : x ∈ eraseSid sid es) : x ∈ es := by
  induction es with
  | nil => cases h
  | cons a r ih =>
    simp only [eraseSid] at h
    split at h
    · exact List.mem_cons_of_mem _ h
    · rcases List.mem_cons.mp h with h | h
      · subst h; exact List.mem_cons_self
      · exact List.mem_cons_of_mem _ (ih h)

theorem mem_eraseSid_of_ne {sid : Nat} {es : List Entry} {x : Entry} (hx : x ∈ es) (hne : x.sid ≠ sid) :
    x ∈ eraseSid sid es := by
  induction es with
  | nil => cases hx
  | cons a r ih =>
    simp only [eraseSid]
    split
    · rename_i h
      rcases List.mem_cons.mp hx with hx | hx
      · subst hx; exact absurd h hne
      · exact hx
    · rcases List.mem_cons.mp hx with hx | hx
      · subst hx; exact List.mem_cons_self
      · exact List.mem_cons_of_mem _ (ih hx)

/-- removing the entry that was just appended: something is left only if something was there -/
theorem eraseSid_append_ne_nil {sid : Nat} {old : List Entry} {e : Entry} (he : e.sid = sid)
    (h : eraseSid sid (old ++ [e]) ≠ []) : old ≠ [] := by
  intro ho
  subst ho
  simp [eraseSid, he] at h

theorem mem_removeEntry {p : List Slot} {h sid : Nat} {s' : Slot} (hs : s' ∈ removeEntry p h sid) :
    ∃ s ∈ p, s'.time = s.time ∧ (∀ x ∈ s'.entries, x ∈ s.entries) ∧
      s'.entries = if s.time = h then eraseSid sid s.entries else s.entries := by
  simp only [removeEntry, List.mem_map] at hs
  obtain ⟨s, hs, rfl⟩ := hs
  refine ⟨s, hs, ?_⟩
  split
  · exact ⟨rfl, fun x hx => mem_eraseSid hx, rfl⟩
  · exact ⟨rfl, fun x hx => hx, rfl⟩

theorem sorted_removeEntry {p : List Slot} (h sid : Nat) (hp : Sorted p) : Sorted (removeEntry p h sid) := by
  unfold Sorted removeEntry
  rw [List.pairwise_map]
  refine hp.imp ?_
  intro a b hab
  split <;> split <;> exact hab

theorem removeEntry_keeps {p : List Slot} {h sid : Nat} {s : Slot} (hs : s ∈ p) :
    ∃ s' ∈ removeEntry p h sid, s'.time = s.time ∧ ∀ x ∈ s.entries, x.sid ≠ sid → x ∈ s'.entries := by
  refine ⟨_, List.mem_map.mpr ⟨s, hs, rfl⟩, ?_⟩
  split
  · exact ⟨rfl, fun x hx hne => mem_eraseSid_of_ne hx hne⟩
  · exact ⟨rfl, fun x hx _ => hx⟩

theorem findEntry_sid {p : List Slot} {h sid : Nat} {e : Entry} (hf : findEntry p h sid = some e) : e.sid = sid := by
  unfold findEntry at hf
  split at hf
  · have := List.find?_some hf
    simpa using this
  · cases hf

/-! ### next -/
theorem next_none {p : List Slot} (h : next p = none) : ∀ s ∈ p, s.entries = [] := by
  intro s hs
  simp only [next, Option.map_eq_none_iff] at h
  have := List.find?_eq_none.mp h s hs
  simpa using this

theorem next_some {p : List Slot} {n : Nat} (hp : Sorted p) (h : next p = some n) :
    (∃ s ∈ p, s.time = n ∧ s.entries ≠ []) ∧ ∀ s ∈ p, s.entries ≠ [] → n ≤ s.time := by
  induction p with
  | nil => simp [next] at h
  | cons a rest ih =>
    have ha := List.pairwise_cons.mp hp
    simp only [next, List.find?_cons] at h
    split at h
    · rename_i hne
      simp only [Option.map_some, Option.some.injEq] at h
      have hne' : a.entries ≠ [] := by simpa using hne
      refine ⟨⟨a, List.mem_cons_self, h, hne'⟩, ?_⟩
      intro s hs _
      rcases List.mem_cons.mp hs with hs | hs
      · subst hs; omega
      · have := ha.1 s hs; omega
    · rename_i hemp
      have hemp' : a.entries = [] := by simpa using hemp
      obtain ⟨⟨s, hs, h1, h2⟩, h3⟩ := ih ha.2 h
      refine ⟨⟨s, List.mem_cons_of_mem _ hs, h1, h2⟩, ?_⟩
      intro s' hs' hne
      rcases List.mem_cons.mp hs' with hs' | hs'
      · subst hs'; exact absurd hemp' hne
      · exact h3 s' hs' hne

/-! ### bump -/
theorem mem_dropWhile_of_gt {p : List Slot} {now : Nat} {s : Slot} (hs : s ∈ p) (h : now < s.time) :
    s ∈ p.dropWhile (fun s => s.time ≤ now) := by
  induction p with
  | nil => cases hs
  | cons a rest ih =>
    simp only [List.dropWhile_cons]
    split
    · rename_i hc
      rcases List.mem_cons.mp hs with hs | hs
      · subst hs; simp at hc; omega
      · exact ih hs
    · exact hs

theorem dropWhile_gt {p : List Slot} {now : Nat} (hp : Sorted p) :
    ∀ s ∈ p.dropWhile (fun s => s.time ≤ now), now < s.time := by
  induction p with
  | nil => intro s hs; simp at hs
  | cons a rest ih =>
    have ha := List.pairwise_cons.mp hp
    intro s hs
    simp only [List.dropWhile_cons] at hs
    split at hs
    · exact ih ha.2 s hs
    · rename_i hc
      simp at hc
      rcases List.mem_cons.mp hs with hs | hs
      · subst hs; omega
      · have := ha.1 s hs; omega

theorem mem_takeWhile_of_le {p : List Slot} {now : Nat} {s : Slot} (hp : Sorted p) (hs : s ∈ p)
    (h : s.time ≤ now) : s ∈ p.takeWhile (fun s => s.time ≤ now) := by
  induction p with
  | nil => cases hs
  | cons a rest ih =>
    have ha := List.pairwise_cons.mp hp
    simp only [List.takeWhile_cons]
    rcases List.mem_cons.mp hs with hs | hs
    · subst hs
      simp [h]
    · have := ha.1 s hs
      have hc : a.time ≤ now := by omega
      simp only [hc, decide_true, if_true]
      exact List.mem_cons_of_mem _ (ih ha.2 hs)

theorem takeWhile_le {p : List Slot} {now : Nat} :
    ∀ s ∈ p.takeWhile (fun s => s.time ≤ now), s.time ≤ now := by
  induction p with
  | nil => intro s hs; simp at hs
  | cons a rest ih =>
    intro s hs
    simp only [List.takeWhile_cons] at hs
    split at hs
    · rename_i hc
      rcases List.mem_cons.mp hs with hs | hs
      · subst hs; simpa using hc
      · exact ih s hs
    · cases hs

theorem sorted_dropWhile {p : List Slot} (now : Nat) (hp : Sorted p) :
    Sorted (p.dropWhile (fun s => s.time ≤ now)) :=
  List.Pairwise.sublist (List.dropWhile_sublist _) hp
end Timer

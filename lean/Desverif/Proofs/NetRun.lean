/-
Several dispatched events in a row (`State.steps`), and the multi-event form of `step_inert`.
-/
import Desverif.Proofs.NetEvent
namespace Net

/-- `n` dispatched events (fewer if the future event set runs empty) -/
def State.steps : Nat → State → State
  | 0, s => s
  | n + 1, s =>
    match s.step with
    | none => s
    | some s' => s'.steps n

/-- none of the next `n` dispatched events is the restart of module `m` -/
def State.noRestart (m : Nat) : Nat → State → Prop
  | 0, _ => True
  | n + 1, s =>
    s.nextEvent ≠ some (.restart m) ∧
    match s.step with
    | none => True
    | some s' => s'.noRestart m n

instance State.decNoRestart (m : Nat) : ∀ (n : Nat) (s : State), Decidable (s.noRestart m n)
  | 0, _ => isTrue trivial
  | n + 1, s =>
    match hs : s.step with
    | none => decidable_of_iff (s.nextEvent ≠ some (.restart m)) (by simp [State.noRestart, hs])
    | some s' =>
      have := State.decNoRestart m n s'
      decidable_of_iff (s.nextEvent ≠ some (.restart m) ∧ s'.noRestart m n) (by simp [State.noRestart, hs])

theorem steps_quiet (n : Nat) : ∀ {s : State}, Quiet s → Quiet (s.steps n) := by
  induction n with
  | zero => intro s h; exact h
  | succ n ih =>
    intro s h
    unfold State.steps
    split
    · exact h
    · rename_i s' hs; exact ih (step_quiet h hs)

theorem steps_inert (n : Nat) : ∀ {s : State}, Quiet s → ∀ (m : Nat),
    (s.mods[m]?).map (·.active) = some false → s.noRestart m n →
    ∃ seg, (s.steps n).trace = s.trace ++ seg ∧ (∀ o ∈ seg, o.mod ≠ m) ∧
      ((s.steps n).mods[m]?).map (·.active) = some false := by
  induction n with
  | zero => intro s _ m hd _; exact ⟨[], by simp [State.steps], by simp, hd⟩
  | succ n ih =>
    intro s hq m hd hn
    unfold State.noRestart at hn
    unfold State.steps
    cases hs : s.step with
    | none => exact ⟨[], by simp, by simp, hd⟩
    | some s' =>
      simp only [hs] at hn
      obtain ⟨seg1, a1, b1, c1⟩ := step_inert hq hs m hd hn.1
      obtain ⟨seg2, a2, b2, c2⟩ := ih (step_quiet hq hs) m c1 hn.2
      refine ⟨seg1 ++ seg2, by simp only [a2, a1, List.append_assoc], ?_, c2⟩
      intro o ho
      rcases List.mem_append.mp ho with ho | ho
      · exact b1 o ho
      · exact b2 o ho

end Net

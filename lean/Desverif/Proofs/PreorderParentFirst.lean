/-
In the specification pre-order no declaration comes before its parent.
-/
import Desverif.Proofs.PreorderStep
namespace PreSpec
variable {α : Type} [DecidableEq α]
set_option linter.unusedSectionVars false

/-- `y` is not the parent of `x` -/
def NotParent (x y : Decl α) : Prop := par x.segs ≠ some y.segs

/-- reading the pre-order front to back, one never meets the parent of an earlier entry -/
theorem preorder_parent_first : ∀ D : List (Decl α), Valid D → (preorder D).Pairwise NotParent := by
  intro D
  induction D using snoc_induction with
  | nil => intro _; simp [preorder, roots]
  | snoc l p ih =>
    intro hv
    obtain ⟨hl, hnew, hparent⟩ := (valid_snoc l p).mp hv
    have good := valid_good l hl
    have hperm := preorder_perm l hl
    have hpw := ih hl
    obtain ⟨h1, h2⟩ := preorder_step l p hv hperm
    -- nobody declared so far has `p` as its parent
    have hnoparent : ∀ a ∈ preorder l, NotParent a p := by
      intro a ha e
      exact hnew (good.closed a (hperm.mem_iff.mp ha) _ e)
    cases hp : par p.segs with
    | none =>
      rw [h1 hp, List.pairwise_append]
      exact ⟨hpw, by simp, fun a ha b hb => by simp at hb; subst hb; exact hnoparent a ha⟩
    | some q =>
      obtain ⟨A, qd, S, B, e1, e2, e3, _, _⟩ := h2 q hp
      have hnd : ((preorder l).map (·.segs)).Nodup :=
        (List.Perm.nodup_iff (hperm.map _)).mpr good.nodup
      rw [e1] at hpw hnd hnoparent
      rw [e2]
      rw [List.pairwise_append] at hpw ⊢
      obtain ⟨hAS, hB, hcross⟩ := hpw
      refine ⟨hAS, ?_, ?_⟩
      · rw [List.pairwise_cons]
        refine ⟨?_, hB⟩
        intro b hb e
        -- `b` would sit at the parent path `q`, which is where `qd` sits
        unfold NotParent at *
        rw [hp] at e
        injection e with e
        rw [List.map_append, List.nodup_append] at hnd
        refine hnd.2.2 qd.segs ?_ b.segs (List.mem_map.mpr ⟨b, hb, rfl⟩) (by rw [e3, e])
        exact List.mem_map.mpr ⟨qd, by simp, rfl⟩
      · intro a ha b hb
        rcases List.mem_cons.mp hb with hbp | hb
        · rw [hbp]
          exact hnoparent a (List.mem_append.mpr (Or.inl ha))
        · exact hcross a ha b hb

end PreSpec

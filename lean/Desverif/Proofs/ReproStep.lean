/-
C04: everything a handler or a task does commutes with the renaming of ambient identifiers
(`stepSync`, `runHandler`, the `select!` machinery, `runTask`, `pollTask`).  The run under an arbitrary
injective ambient `a` is compared with the run under the canonical ambient (ids = allocation indices).
-/
import Desverif.Proofs.ReproRen
namespace Repro

variable (a : Ambient)

@[simp] theorem bump_ren (s : Sim) : (renSim a s).bump = renSim a s.bump := rfl

theorem mkMsg_ren (s : Sim) (mi kind ttl : Nat) : mkMsg (renSim a s) mi kind ttl = renMsg a (mkMsg s mi kind ttl) := by
  simp only [mkMsg, renMsg, renSim_mods, renSim_serial, List.getElem?_map]
  cases s.mods[mi]? <;> rfl

theorem requestShutdown_ren (s : Sim) (mi : Nat) (path who : String) (d : Option Nat) :
    requestShutdown (renSim a s) mi path who d = renSim a (requestShutdown s mi path who d) := by
  unfold requestShutdown
  simp only [renSim_mods, List.getElem?_map]
  cases s.mods[mi]? with
  | none => rfl
  | some m =>
    simp only [Option.map, renMod_inc, renSim_now, log_ren]
    by_cases hi : m.inc < maxInc
    · simp only [hi, if_true]
      exact updMod_ren a _ mi _ _ (fun m => by simp [renMod])
    · simp only [hi, if_false]

theorem emit_ren (s : Sim) (d : Bool) (ev : KEvent) (t : Nat) :
    (renSim a s).emit d (renEv a ev) t = renSim a (s.emit d ev t) := by
  cases d
  · exact push_ren a s ev t
  · exact schedule_ren a s ev t

theorem startTx_ren (s : Sim) (li : Nat) (src dst : String) (lat jit tx : Nat) (m : Msg) (di : Nat) (d : Bool) :
    startTx (renSim a s) li src dst lat jit tx (renMsg a m) di d = renSim a (startTx s li src dst lat jit tx m di d) := by
  unfold startTx
  have hser : (renMsg a m).serial = m.serial := rfl
  simp only [hser, log_ren, renSim_now, pop_ren_fst]
  have h2 : (if jit = 0 then renSim a (s.log "-" "xmit" src dst [m.serial])
        else (renSim a (s.log "-" "xmit" src dst [m.serial])).pop.2) =
      renSim a (if jit = 0 then s.log "-" "xmit" src dst [m.serial]
        else (s.log "-" "xmit" src dst [m.serial]).pop.2) := by
    by_cases hj : jit = 0 <;> simp [hj]
  rw [h2, show KEvent.exitConn di (renMsg a m) = renEv a (.exitConn di m) from rfl, emit_ren]
  by_cases ht : tx = 0
  · simp only [ht, if_true]
  · simp only [ht, if_false]
    rw [updChan_ren a _ li _ (fun c => { c with busy := true }) (fun c => by simp [renChan])]
    exact emit_ren a _ d (.unbusy li) _

theorem transmit_ren (net : Net) (s : Sim) (li : Nat) (m : Msg) (di : Nat) (d : Bool) :
    transmit net (renSim a s) li (renMsg a m) di d = renSim a (transmit net s li m di d) := by
  unfold transmit
  simp only [renSim_chans, List.getElem?_map]
  cases net.links[li]? with
  | none => rfl
  | some l =>
    cases hc : s.chans[li]? with
    | none => rfl
    | some c =>
      simp only [Option.map, renChan_busy, renSim_now]
      cases l.chan with
      | none => exact emit_ren a s d (.deliver di m) s.now
      | some p =>
        obtain ⟨lat, jit, tx⟩ := p
        simp only []
        by_cases hb : c.busy = true
        · simp only [hb, if_true]
          exact updChan_ren a s li _ _ (fun c => by simp [renChan])
        · simp only [hb]; exact startTx_ren a s li _ _ lat jit tx m di d

theorem sendVia_ren (net : Net) (s : Sim) (mi li : Nat) (m : Msg) (d : Bool) :
    sendVia net (renSim a s) mi li (renMsg a m) d = renSim a (sendVia net s mi li m d) := by
  unfold sendVia
  simp only [renSim_mods, List.getElem?_map, modIndex_ren]
  cases s.mods[mi]? with
  | none => rfl
  | some sender =>
    cases net.links[li]? with
    | none => rfl
    | some l =>
      simp only [Option.map, renMod_active]
      by_cases ha : sender.active = true
      · simp only [ha, if_true]
        cases modIndex s.mods l.dst with
        | none => rfl
        | some di => exact transmit_ren a net s li m di d
      · simp only [ha]; rfl

theorem signalSem_ren (m : ModRt) (name : String) : signalSem (renMod a m) name = renMod a (signalSem m name) := by
  unfold signalSem
  simp only [renMod_sems]
  cases m.sems.find? (fun x => x.1 = name) with
  | none => rfl
  | some x =>
    obtain ⟨n, k, ws⟩ := x
    cases ws with
    | nil => rfl
    | cons w r =>
      simp only [renMod_tasks, renMod_localq]
      rw [updAt_map (renTask a) (fun t => { t with wait := .waiting name true }) (fun t => { t with wait := .waiting name true })
        (fun t => by simp [renTask, renWait])]
      rfl

theorem stepSync_ren (net : Net) (s : Sim) (mi : Nat) (path : String) (ttl : Nat) (who : String) (st : Step) :
    stepSync net (renSim a s) mi path ttl who st = renSim a (stepSync net s mi path ttl who st) := by
  cases st with
  | draw => simp [stepSync]
  | draw32 => simp [stepSync]
  | send dst kind d =>
    simp only [stepSync]
    by_cases h0 : ttl = 0
    · simp [h0]
    · simp only [h0, if_false]
      cases linkIndex net.links path dst with
      | none => rfl
      | some li =>
        simp only [mkMsg_ren, bump_ren, log_ren, renSim_serial, renSim_now]
        by_cases hd : d = 0
        · simp only [hd, if_true]; exact sendVia_ren a net _ mi li _ false
        · simp only [hd, if_false]
          rw [← push_ren]; rfl
  | sched d kind =>
    simp only [stepSync]
    by_cases h0 : ttl = 0
    · simp [h0]
    · simp only [h0, if_false, bump_ren, log_ren, renSim_serial, renSim_now]
      rw [← push_ren]
      rfl
  | schedr kind =>
    simp only [stepSync, pop_ren_fst, pop_ren_snd, log_ren]
    by_cases h0 : ttl = 0
    · simp [h0]
    · simp only [h0, if_false, bump_ren, log_ren, renSim_serial, renSim_now]
      rw [← push_ren]
      rfl
  | spin l t e => rfl
  | spun l t e => rfl
  | spawn t => rfl
  | sleep d => rfl
  | sel ds => rfl
  | shut => exact requestShutdown_ren a s mi path who none
  | restart d => exact requestShutdown_ren a s mi path who (some d)
  | sig name =>
    simp only [stepSync, log_ren]
    exact updMod_ren a _ mi _ _ (fun m => signalSem_ren a m name)
  | wait name => rfl

theorem spawnTask_ren (m : ModRt) (tag : String) (ttl : Nat) (prog : List Step) :
    spawnTask (renMod a m) tag ttl prog = renMod a (spawnTask m tag ttl prog) := by
  simp [spawnTask, renMod, renTask, renWait]

theorem runHandler_ren (net : Net) (mi : Nat) (path : String) (ttl : Nat) (steps : List Step) :
    ∀ s : Sim, runHandler net (renSim a s) mi path ttl steps = renSim a (runHandler net s mi path ttl steps) := by
  induction steps with
  | nil => intro s; rfl
  | cons st r ih =>
    intro s
    cases st with
    | spawn tag =>
      simp only [runHandler]
      cases findTask net.tasks tag with
      | none => exact ih s
      | some prog =>
        simp only []
        rw [updMod_ren a s mi _ (fun m => spawnTask m tag ttl prog) (fun m => spawnTask_ren a m tag ttl prog)]
        exact ih _
    | draw => simp only [runHandler]; rw [stepSync_ren]; exact ih _
    | draw32 => simp only [runHandler]; rw [stepSync_ren]; exact ih _
    | send d k => simp only [runHandler]; rw [stepSync_ren]; exact ih _
    | sched d k => simp only [runHandler]; rw [stepSync_ren]; exact ih _
    | sleep d => simp only [runHandler]; rw [stepSync_ren]; exact ih _
    | sel ds => simp only [runHandler]; rw [stepSync_ren]; exact ih _
    | shut => simp only [runHandler]; rw [stepSync_ren]; exact ih _
    | restart d => simp only [runHandler]; rw [stepSync_ren]; exact ih _
    | sig n => simp only [runHandler]; rw [stepSync_ren]; exact ih _
    | wait n => simp only [runHandler]; rw [stepSync_ren]; exact ih _
    | schedr k => simp only [runHandler]; rw [stepSync_ren]; exact ih _
    | spin l t e => simp only [runHandler]; rw [stepSync_ren]; exact ih _
    | spun l t e => simp only [runHandler]; rw [stepSync_ren]; exact ih _

/-! ### `select!` -/

def renSel (st : SelSt) : SelSt :=
  { st with pending := st.pending.map (renSlot a), ss := st.ss.map (renSl a) }

theorem selBranch_ren (now ti : Nat) (st : SelSt) (b : Nat) :
    selBranch now ti (renSel a st) b = renSel a (selBranch now ti st b) := by
  unfold selBranch
  cases hw : st.winner with
  | some w => simp [renSel, hw]
  | none =>
    simp only [renSel, hw, List.getElem?_map]
    cases hb : st.ss[b]? with
    | none => simp [hw]
    | some sl =>
      simp only [Option.map, renSl_deadline, renSl_reg]
      by_cases h1 : now < sl.deadline
      · by_cases h2 : sl.reg = true
        · simp [h1, h2]
        · simp only [h1, h2, if_true]
          have := timerAdd_ren a st.pending ⟨sl.id, ti⟩ sl.deadline
          simp only [renEntry] at this
          simp [this, updAt_map (renSl a) (fun x => { x with reg := true }) (fun x => { x with reg := true }) (fun x => rfl)]
      · simp [h1]

theorem foldl_selBranch_ren (now ti : Nat) (order : List Nat) :
    ∀ st : SelSt, order.foldl (selBranch now ti) (renSel a st) = renSel a (order.foldl (selBranch now ti) st) := by
  induction order with
  | nil => intro st; rfl
  | cons b r ih => intro st; simp only [List.foldl_cons, selBranch_ren]; exact ih _

theorem dropSleeps_ren (h : a.Inj) (w : Nat) (ss : List Sl) :
    ∀ (p : List Timer.Slot) (i : Nat),
      dropSleeps (p.map (renSlot a)) w i (ss.map (renSl a)) = (dropSleeps p w i ss).map (renSlot a) := by
  induction ss with
  | nil => intro p i; rfl
  | cons sl r ih =>
    intro p i
    simp only [List.map_cons, dropSleeps, renSl_reg, renSl_deadline, renSl_id]
    by_cases hc : sl.reg = true ∧ i ≠ w
    · simp only [hc, and_self, if_true, ne_eq, not_false_eq_true]
      rw [removeEntry_ren a h]
      exact ih _ _
    · simp only [hc, if_false]
      exact ih _ _

theorem selPoll_ren (h : a.Inj) (s : Sim) (mi : Nat) (path tag : String) (ti : Nat) (ss : List Sl) :
    selPoll (renSim a s) mi path tag ti (ss.map (renSl a)) =
      (renSim a (selPoll s mi path tag ti ss).1, (selPoll s mi path tag ti ss).2.1.map (renSl a),
       (selPoll s mi path tag ti ss).2.2) := by
  unfold selPoll
  simp only [pop_ren_fst, pop_ren_snd, renSim_mods, List.getElem?_map, List.length_map, renSim_now]
  cases hm : s.pop.2.mods[mi]? with
  | none => simp
  | some m =>
    simp only [Option.map, renMod_pending]
    have hf := foldl_selBranch_ren a s.pop.2.now ti (selOrder ss.length (s.pop.1 % ss.length)) ⟨m.pending, ss, [], none⟩
    simp only [renSel] at hf
    rw [hf]
    generalize (selOrder ss.length (s.pop.1 % ss.length)).foldl (selBranch s.pop.2.now ti) ⟨m.pending, ss, [], none⟩ = st
    cases hw : st.winner with
    | none =>
      simp only [log_ren]
      rw [updMod_ren a _ mi _ (fun m => { m with pending := st.pending }) (fun m => by simp [renMod])]
    | some w =>
      simp only [log_ren]
      rw [dropSleeps_ren a h]
      rw [updMod_ren a _ mi _ (fun m => { m with pending := dropSleeps st.pending w 0 st.ss }) (fun m => by simp [renMod])]
      rfl

theorem mkSleeps_ren (now : Nat) (ds : List Nat) :
    ∀ next, mkSleeps a now next ds = (mkSleeps Ambient.canon now next ds).map (renSl a) := by
  induction ds with
  | nil => intro next; rfl
  | cons d r ih => intro next; simp [mkSleeps, ih, renSl, Ambient.canon]

/-! ### tasks -/

@[simp] theorem allocSleep_ren (s : Sim) (n : Nat) : (renSim a s).allocSleep n = renSim a (s.allocSleep n) := rfl

theorem regSleep_ren (m : ModRt) (ti : Nat) (r : List Step) (k dl : Nat) :
    regSleep (renMod a m) ti r (a.sleepId k) dl = renMod a (regSleep m ti r k dl) := by
  unfold regSleep
  rw [updTask_ren a m ti _ (fun t => { t with prog := r, wait := .sleeping ⟨k, dl, true⟩ })
    (fun t => by simp [renTask, renWait, renSl])]
  have hp := timerAdd_ren a m.pending ⟨k, ti⟩ dl
  simp only [renEntry] at hp
  simp [renMod, hp, ModRt.updTask]

theorem setSelecting_ren (m : ModRt) (ti : Nat) (r : List Step) (ss : List Sl) :
    setSelecting (renMod a m) ti r (ss.map (renSl a)) = renMod a (setSelecting m ti r ss) :=
  updTask_ren a m ti _ _ (fun t => by simp [renTask, renWait])

theorem finishTask_ren (m : ModRt) (ti : Nat) : finishTask (renMod a m) ti = renMod a (finishTask m ti) :=
  updTask_ren a m ti _ _ (fun t => by simp [renTask, renWait])

theorem semPermits_ren (m : ModRt) (name : String) : semPermits (renMod a m) name = semPermits m name := rfl

theorem takePermit_ren (m : ModRt) (name : String) : takePermit (renMod a m) name = renMod a (takePermit m name) := rfl

theorem enqueueWaiter_ren (m : ModRt) (ti : Nat) (r : List Step) (name : String) :
    enqueueWaiter (renMod a m) ti r name = renMod a (enqueueWaiter m ti r name) := by
  unfold enqueueWaiter
  simp only []
  rw [updTask_ren a m ti _ (fun t => { t with prog := r, wait := .waiting name false })
    (fun t => by simp [renTask, renWait])]
  simp only [renMod_sems]
  cases (m.updTask ti (fun t => { t with prog := r, wait := .waiting name false })).sems.find? (fun x => x.1 = name) <;> rfl

theorem yieldTask_ren (m : ModRt) (ti : Nat) (r : List Step) (l t e : Nat) :
    yieldTask (renMod a m) ti r l t e = renMod a (yieldTask m ti r l t e) := by
  unfold yieldTask
  rw [updTask_ren a m ti _ (fun x => { x with prog := .spun l t e :: r, wait := .run }) (fun x => by simp [renTask, renWait])]
  simp [renMod, ModRt.updTask]

theorem spinDraw_ren (s : Sim) (path tag : String) (l t e : Nat) :
    spinDraw (renSim a s) path tag l t e = renSim a (spinDraw s path tag l t e) := by
  unfold spinDraw
  by_cases h : (t - l) % e = 0 <;> simp [h]

theorem runTask_ren (h : a.Inj) (net : Net) (mi : Nat) (path tag : String) (ti ttl : Nat) (prog : List Step) :
    ∀ s : Sim, runTask net a mi path tag ti ttl (renSim a s) prog =
      renSim a (runTask net Ambient.canon mi path tag ti ttl s prog) := by
  induction prog with
  | nil =>
    intro s
    simp only [runTask]
    exact updMod_ren a s mi _ _ (fun m => finishTask_ren a m ti)
  | cons st r ih =>
    intro s
    cases st with
    | sleep d =>
      simp only [runTask, renSim_nextSleep, renSim_now, allocSleep_ren, log_ren]
      by_cases hd : d = 0
      · simp only [hd, if_true]
        exact ih _
      · simp only [hd, if_false]
        exact updMod_ren a _ mi _ _ (fun m => regSleep_ren a m ti r s.nextSleep (s.now + d))
    | sel ds =>
      simp only [runTask, renSim_nextSleep, renSim_now, allocSleep_ren]
      rw [mkSleeps_ren a, selPoll_ren a h]
      generalize selPoll (s.allocSleep ds.length) mi path tag ti (mkSleeps Ambient.canon s.now s.nextSleep ds) = res
      obtain ⟨s', ss', w⟩ := res
      cases w with
      | some w => exact ih _
      | none =>
        simp only []
        exact updMod_ren a s' mi _ _ (fun m => setSelecting_ren a m ti r ss')
    | spawn t => simp only [runTask]; exact ih _
    | draw => simp only [runTask]; rw [stepSync_ren]; exact ih _
    | draw32 => simp only [runTask]; rw [stepSync_ren]; exact ih _
    | send d k => simp only [runTask]; rw [stepSync_ren]; exact ih _
    | sched d k => simp only [runTask]; rw [stepSync_ren]; exact ih _
    | shut => simp only [runTask]; rw [stepSync_ren]; exact ih _
    | restart d => simp only [runTask]; rw [stepSync_ren]; exact ih _
    | sig n => simp only [runTask]; rw [stepSync_ren]; exact ih _
    | schedr k => simp only [runTask]; rw [stepSync_ren]; exact ih _
    | spin l t e =>
      simp only [runTask]
      cases l with
      | zero => exact ih _
      | succ k => exact updMod_ren a s mi _ _ (fun m => yieldTask_ren a m ti r k t e)
    | spun l t e =>
      simp only [runTask]
      cases l with
      | zero => simp only [spinDraw_ren]; exact ih _
      | succ k => simp only [spinDraw_ren]; exact updMod_ren a _ mi _ _ (fun m => yieldTask_ren a m ti r k t e)
    | wait name =>
      simp only [runTask, renSim_mods, List.getElem?_map]
      cases s.mods[mi]? with
      | none => rfl
      | some m =>
        simp only [Option.map, semPermits_ren]
        by_cases hp : semPermits m name = 0
        · simp only [hp, if_true]
          exact updMod_ren a s mi _ _ (fun m => enqueueWaiter_ren a m ti r name)
        · simp only [hp, if_false]
          rw [updMod_ren a s mi _ (fun m => takePermit m name) (fun m => takePermit_ren a m name), log_ren]
          exact ih _

theorem pollTask_ren (h : a.Inj) (net : Net) (s : Sim) (mi : Nat) (path : String) (ti : Nat) :
    pollTask net a (renSim a s) mi path ti = renSim a (pollTask net Ambient.canon s mi path ti) := by
  unfold pollTask
  simp only [renSim_mods, List.getElem?_map]
  cases hm : s.mods[mi]? with
  | none => rfl
  | some m =>
    simp only [Option.map, Option.bind, renMod_tasks, List.getElem?_map]
    cases ht : m.tasks[ti]? with
    | none => rfl
    | some t =>
      simp only [renTask_wait, renTask_tag, renTask_ttl, renTask_prog]
      cases hw : t.wait with
      | run => simp only [renWait]; exact runTask_ren a h net mi path t.tag ti t.ttl t.prog s
      | sleeping sl =>
        simp only [renWait, renSim_now, renSl_deadline]
        by_cases hd : s.now < sl.deadline
        · simp [hd]
        · simp only [hd, if_false, log_ren]
          exact runTask_ren a h net mi path t.tag ti t.ttl t.prog _
      | selecting ss =>
        simp only [renWait]
        rw [selPoll_ren a h]
        generalize selPoll s mi path t.tag ti ss = res
        obtain ⟨s', ss', w⟩ := res
        cases w with
        | some w => exact runTask_ren a h net mi path t.tag ti t.ttl t.prog s'
        | none =>
          simp only []
          exact updMod_ren a s' mi _ _ (fun m => setSelecting_ren a m ti t.prog ss')
      | waiting n g =>
        simp only [renWait]
        cases g
        · rfl
        · simp only [if_true, log_ren]
          exact runTask_ren a h net mi path t.tag ti t.ttl t.prog _

end Repro

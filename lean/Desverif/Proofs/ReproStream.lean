/-
C04: the random stream is only ever consumed from the front.  `Drops s s'` = the stream of `s'` is what is
left of the stream of `s` after dropping some number of leading elements.  The only function of the model that
reads or changes `stream` is `Sim.pop` (head / tail); every stage of the kernel is a composition of `pop`s and
stream-preserving steps, in dispatch order.
-/
import Desverif.Model.Repro
namespace Repro

/-- `s'` is reached from `s` by consuming `used` from the front of the random stream; the tokio seeds recorded on
    the way (`extra`) are among the consumed elements -/
def Drops (s s' : Sim) : Prop :=
  ∃ (used : List Nat) (extra : List (String × Nat)),
    s.stream = used ++ s'.stream ∧ s'.seeds = s.seeds ++ extra ∧ ∀ x ∈ extra, x.2 ∈ used

theorem Drops.refl (s : Sim) : Drops s s := ⟨[], [], by simp, by simp, by simp⟩

theorem Drops.of_eq {s s' : Sim} (h : s'.stream = s.stream) (h2 : s'.seeds = s.seeds) : Drops s s' :=
  ⟨[], [], by simp [h], by simp [h2], by simp⟩

theorem Drops.trans {s1 s2 s3 : Sim} (h1 : Drops s1 s2) (h2 : Drops s2 s3) : Drops s1 s3 := by
  obtain ⟨u1, e1, hs1, hd1, hm1⟩ := h1
  obtain ⟨u2, e2, hs2, hd2, hm2⟩ := h2
  refine ⟨u1 ++ u2, e1 ++ e2, by rw [hs1, hs2, List.append_assoc], by rw [hd2, hd1, List.append_assoc], ?_⟩
  intro x hx
  rcases List.mem_append.mp hx with hx | hx
  · exact List.mem_append.mpr (Or.inl (hm1 x hx))
  · exact List.mem_append.mpr (Or.inr (hm2 x hx))

theorem Drops.after_eq {s s' s'' : Sim} (h : Drops s' s'') (h1 : s'.stream = s.stream) (h2 : s'.seeds = s.seeds) :
    Drops s s'' := (Drops.of_eq h1 h2).trans h

/-- what is left is the stream without some number of leading elements -/
theorem Drops.drop {s s' : Sim} (h : Drops s s') : ∃ k, s'.stream = s.stream.drop k := by
  obtain ⟨u, _, hs, _, _⟩ := h
  exact ⟨u.length, by rw [hs]; simp⟩

theorem take1_drop1 (l : List Nat) : l = l.take 1 ++ l.drop 1 := by cases l <;> simp

theorem pop_stream (s : Sim) : s.pop.2.stream = s.stream.drop 1 := by
  unfold Sim.pop; cases s.stream <;> simp

theorem pop_value (s : Sim) : s.pop.1 = s.stream.headD 0 := by
  unfold Sim.pop; cases s.stream <;> simp

theorem pop_seeds (s : Sim) : s.pop.2.seeds = s.seeds := by
  unfold Sim.pop; cases s.stream <;> rfl

theorem Drops.pop (s : Sim) : Drops s s.pop.2 :=
  ⟨s.stream.take 1, [], by rw [pop_stream]; exact take1_drop1 _, by simp [pop_seeds], by simp⟩

/-- building a tokio runtime: its seed is the element the `pop` takes -/
theorem Drops.seed (s : Sim) (path : String) : Drops s ((s.pop.2).recordSeed path s) := by
  refine ⟨s.stream.take 1, s.stream.head?.toList.map (fun x => (path, x)), ?_, ?_, ?_⟩
  · show s.stream = _ ++ s.pop.2.stream
    rw [pop_stream]; exact take1_drop1 _
  · show s.pop.2.seeds ++ _ = _
    rw [pop_seeds]
  · intro x hx
    cases hst : s.stream with
    | nil => simp [hst] at hx
    | cons y r =>
      simp only [hst, List.head?_cons, Option.toList, List.map_cons, List.map_nil, List.mem_singleton] at hx
      simp [hx]

@[simp] theorem log_stream (s : Sim) (p w who peer : String) (args : List Nat) : (s.log p w who peer args).stream = s.stream := rfl
@[simp] theorem push_stream (s : Sim) (ev : KEvent) (t : Nat) : (s.push ev t).stream = s.stream := rfl
@[simp] theorem bump_stream (s : Sim) : s.bump.stream = s.stream := rfl
@[simp] theorem allocSleep_stream (s : Sim) (n : Nat) : (s.allocSleep n).stream = s.stream := rfl
@[simp] theorem updMod_stream (s : Sim) (mi : Nat) (f : ModRt → ModRt) : (s.updMod mi f).stream = s.stream := rfl
@[simp] theorem setFes_stream (s : Sim) (f : FES.State) : (s.setFes f).stream = s.stream := rfl
@[simp] theorem setFes_seeds (s : Sim) (f : FES.State) : (s.setFes f).seeds = s.seeds := rfl

@[simp] theorem schedule_stream (s : Sim) (ev : KEvent) (t : Nat) : (s.schedule ev t).stream = s.stream := by
  unfold Sim.schedule; cases FES.add s.fes t s.evs.length <;> rfl

@[simp] theorem schedule_seeds (s : Sim) (ev : KEvent) (t : Nat) : (s.schedule ev t).seeds = s.seeds := by
  unfold Sim.schedule; cases FES.add s.fes t s.evs.length <;> rfl

@[simp] theorem log_seeds (s : Sim) (p w who peer : String) (args : List Nat) : (s.log p w who peer args).seeds = s.seeds := rfl
@[simp] theorem updMod_seeds (s : Sim) (mi : Nat) (f : ModRt → ModRt) : (s.updMod mi f).seeds = s.seeds := rfl
@[simp] theorem addDropped_stream (s : Sim) (l : List (String × String)) : (s.addDropped l).stream = s.stream := rfl

theorem requestShutdown_drops (s : Sim) (mi : Nat) (path who : String) (d : Option Nat) :
    Drops s (requestShutdown s mi path who d) := by
  unfold requestShutdown
  cases s.mods[mi]? with
  | none => exact Drops.refl s
  | some m =>
    simp only []
    by_cases hi : m.inc < maxInc
    · simp only [hi, if_true]; exact Drops.of_eq rfl rfl
    · simp only [hi, if_false]; exact Drops.refl s

@[simp] theorem updChan_stream (s : Sim) (li : Nat) (f : ChanRt → ChanRt) : (s.updChan li f).stream = s.stream := rfl
@[simp] theorem updChan_seeds (s : Sim) (li : Nat) (f : ChanRt → ChanRt) : (s.updChan li f).seeds = s.seeds := rfl
@[simp] theorem push_seeds (s : Sim) (ev : KEvent) (t : Nat) : (s.push ev t).seeds = s.seeds := rfl

@[simp] theorem emit_stream (s : Sim) (d : Bool) (ev : KEvent) (t : Nat) : (s.emit d ev t).stream = s.stream := by
  cases d <;> simp [Sim.emit]

@[simp] theorem emit_seeds (s : Sim) (d : Bool) (ev : KEvent) (t : Nat) : (s.emit d ev t).seeds = s.seeds := by
  cases d <;> simp [Sim.emit]

theorem startTx_drops (s : Sim) (li : Nat) (src dst : String) (lat jit tx : Nat) (m : Msg) (di : Nat) (d : Bool) :
    Drops s (startTx s li src dst lat jit tx m di d) := by
  unfold startTx
  simp only []
  have h1 : Drops s (if jit = 0 then s.log "-" "xmit" src dst [m.serial] else (s.log "-" "xmit" src dst [m.serial]).pop.2) := by
    by_cases hj : jit = 0
    · simp only [hj, if_true]; exact Drops.of_eq rfl rfl
    · simp only [hj, if_false]
      exact Drops.after_eq (Drops.pop _) rfl rfl
  generalize (if jit = 0 then s.log "-" "xmit" src dst [m.serial] else (s.log "-" "xmit" src dst [m.serial]).pop.2) = s2 at h1
  by_cases ht : tx = 0
  · simp only [ht, if_true]; exact h1.trans (Drops.of_eq (by simp) (by simp))
  · simp only [ht, if_false]; exact h1.trans (Drops.of_eq (by simp) (by simp))

theorem transmit_drops (net : Net) (s : Sim) (li : Nat) (m : Msg) (di : Nat) (d : Bool) :
    Drops s (transmit net s li m di d) := by
  unfold transmit
  cases net.links[li]? with
  | none => exact Drops.refl s
  | some l =>
    cases s.chans[li]? with
    | none => exact Drops.refl s
    | some c =>
      simp only []
      cases l.chan with
      | none => exact Drops.of_eq (by simp) (by simp)
      | some p =>
        obtain ⟨lat, jit, tx⟩ := p
        simp only []
        by_cases hb : c.busy = true
        · simp only [hb, if_true]; exact Drops.of_eq rfl rfl
        · simp only [hb]; exact startTx_drops ..

theorem sendVia_drops (net : Net) (s : Sim) (mi li : Nat) (m : Msg) (d : Bool) :
    Drops s (sendVia net s mi li m d) := by
  unfold sendVia
  cases s.mods[mi]? with
  | none => exact Drops.refl s
  | some sender =>
    cases net.links[li]? with
    | none => exact Drops.refl s
    | some l =>
      simp only []
      by_cases ha : sender.active = true
      · simp only [ha, if_true]
        cases modIndex s.mods l.dst with
        | none => exact Drops.refl s
        | some di => exact transmit_drops ..
      · simp only [ha]; exact Drops.refl s

theorem drain_drops (net : Net) (li : Nat) (fuel : Nat) : ∀ s : Sim, Drops s (drain net li fuel s) := by
  induction fuel with
  | zero => intro s; exact Drops.refl s
  | succ n ih =>
    intro s
    simp only [drain]
    cases s.chans[li]? with
    | none => exact Drops.refl s
    | some c =>
      simp only []
      by_cases hb : c.busy = true
      · simp only [hb, if_true]; exact Drops.refl s
      · simp only [hb]
        cases c.queue with
        | nil => exact Drops.refl s
        | cons x r =>
          obtain ⟨m, di⟩ := x
          simp only []
          have hA : Drops s (s.updChan li (fun c => { c with queue := r })) := Drops.of_eq rfl rfl
          exact (hA.trans (transmit_drops ..)).trans (ih _)

theorem unbusy_drops (net : Net) (s : Sim) (li : Nat) : Drops s (unbusy net s li) := by
  unfold unbusy
  have hA : Drops s (s.updChan li (fun c => { c with busy := false })) := Drops.of_eq rfl rfl
  exact hA.trans (drain_drops ..)

theorem stepSync_drops (net : Net) (s : Sim) (mi : Nat) (path : String) (ttl : Nat) (who : String) (st : Step) :
    Drops s (stepSync net s mi path ttl who st) := by
  cases st with
  | draw => exact (Drops.pop s).trans (Drops.of_eq rfl rfl)
  | draw32 => exact (Drops.pop s).trans (Drops.of_eq rfl rfl)
  | send dst kind d =>
    simp only [stepSync]
    by_cases h0 : ttl = 0
    · simp only [h0, if_true]; exact Drops.refl s
    · simp only [h0, if_false]
      cases linkIndex net.links path dst with
      | none => exact Drops.refl s
      | some li =>
        simp only []
        have hA : Drops s (s.bump.log path "send" who dst [kind, ttl - 1, s.serial + 1, d]) := Drops.of_eq rfl rfl
        by_cases hd : d = 0
        · subst hd; simp only [if_true]; exact hA.trans (sendVia_drops ..)
        · simp only [hd, if_false]; exact Drops.of_eq rfl rfl
  | sched d kind =>
    simp only [stepSync]
    by_cases h0 : ttl = 0
    · simp only [h0, if_true]; exact Drops.refl s
    · simp only [h0, if_false]; exact Drops.of_eq rfl rfl
  | spawn t => exact Drops.refl s
  | sleep d => exact Drops.refl s
  | sel ds => exact Drops.refl s
  | shut => exact requestShutdown_drops ..
  | restart d => exact requestShutdown_drops ..
  | sig n => exact Drops.of_eq rfl rfl
  | wait n => exact Drops.refl s
  | schedr kind =>
    simp only [stepSync]
    have hA : Drops s ((s.pop.2).log path "draw" who "-" [s.pop.1]) := (Drops.pop s).trans (Drops.of_eq rfl rfl)
    by_cases h0 : ttl = 0
    · simp only [h0, if_true]; exact hA
    · simp only [h0, if_false]; exact hA.trans (Drops.of_eq rfl rfl)
  | spin l t e => exact Drops.refl s
  | spun l t e => exact Drops.refl s

theorem runHandler_drops (net : Net) (mi : Nat) (path : String) (ttl : Nat) (steps : List Step) :
    ∀ s : Sim, Drops s (runHandler net s mi path ttl steps) := by
  induction steps with
  | nil => intro s; exact Drops.refl s
  | cons st r ih =>
    intro s
    cases st with
    | spawn tag =>
      simp only [runHandler]
      cases findTask net.tasks tag with
      | none => exact ih s
      | some prog => exact Drops.after_eq (ih _) rfl rfl
    | draw => exact (stepSync_drops net s mi path ttl "H" _).trans (ih _)
    | draw32 => exact (stepSync_drops net s mi path ttl "H" _).trans (ih _)
    | send d k => exact (stepSync_drops net s mi path ttl "H" _).trans (ih _)
    | sched d k => exact (stepSync_drops net s mi path ttl "H" _).trans (ih _)
    | sleep d => exact (stepSync_drops net s mi path ttl "H" _).trans (ih _)
    | sel ds => exact (stepSync_drops net s mi path ttl "H" _).trans (ih _)
    | shut => exact (stepSync_drops net s mi path ttl "H" _).trans (ih _)
    | restart d => exact (stepSync_drops net s mi path ttl "H" _).trans (ih _)
    | sig n => exact (stepSync_drops net s mi path ttl "H" _).trans (ih _)
    | wait n => exact (stepSync_drops net s mi path ttl "H" _).trans (ih _)
    | schedr k => exact (stepSync_drops net s mi path ttl "H" _).trans (ih _)
    | spin l t e => exact (stepSync_drops net s mi path ttl "H" _).trans (ih _)
    | spun l t e => exact (stepSync_drops net s mi path ttl "H" _).trans (ih _)

theorem selPoll_drops (s : Sim) (mi : Nat) (path tag : String) (ti : Nat) (ss : List Sl) :
    Drops s (selPoll s mi path tag ti ss).1 := by
  unfold selPoll
  simp only []
  cases s.pop.2.mods[mi]? with
  | none => exact Drops.pop s
  | some m =>
    simp only []
    split
    · exact (Drops.pop s).trans (Drops.of_eq rfl rfl)
    · exact (Drops.pop s).trans (Drops.of_eq rfl rfl)

theorem spinDraw_drops (s : Sim) (path tag : String) (l t e : Nat) : Drops s (spinDraw s path tag l t e) := by
  unfold spinDraw
  by_cases h : (t - l) % e = 0
  · simp only [h, if_true]; exact (Drops.pop s).trans (Drops.of_eq rfl rfl)
  · simp only [h, if_false]; exact Drops.refl s

theorem runTask_drops (net : Net) (a : Ambient) (mi : Nat) (path tag : String) (ti ttl : Nat) (prog : List Step) :
    ∀ s : Sim, Drops s (runTask net a mi path tag ti ttl s prog) := by
  induction prog with
  | nil => intro s; exact Drops.of_eq rfl rfl
  | cons st r ih =>
    intro s
    cases st with
    | sleep d =>
      simp only [runTask]
      by_cases hd : d = 0
      · simp only [hd, if_true]; exact Drops.after_eq (ih _) rfl rfl
      · simp only [hd, if_false]; exact Drops.of_eq rfl rfl
    | sel ds =>
      simp only [runTask]
      have hp := selPoll_drops (s.allocSleep ds.length) mi path tag ti (mkSleeps a s.now s.nextSleep ds)
      generalize selPoll (s.allocSleep ds.length) mi path tag ti (mkSleeps a s.now s.nextSleep ds) = res at hp
      obtain ⟨s', ss', w⟩ := res
      have h0 : Drops s s' := (Drops.of_eq (s := s) (s' := s.allocSleep ds.length) rfl rfl).trans hp
      cases w with
      | some w => exact h0.trans (ih _)
      | none => exact h0.trans (Drops.of_eq rfl rfl)
    | spawn t => simp only [runTask]; exact ih _
    | draw => simp only [runTask]; exact (stepSync_drops net s mi path ttl tag _).trans (ih _)
    | draw32 => simp only [runTask]; exact (stepSync_drops net s mi path ttl tag _).trans (ih _)
    | send d k => simp only [runTask]; exact (stepSync_drops net s mi path ttl tag _).trans (ih _)
    | sched d k => simp only [runTask]; exact (stepSync_drops net s mi path ttl tag _).trans (ih _)
    | shut => simp only [runTask]; exact (stepSync_drops net s mi path ttl tag _).trans (ih _)
    | restart d => simp only [runTask]; exact (stepSync_drops net s mi path ttl tag _).trans (ih _)
    | sig n => simp only [runTask]; exact (stepSync_drops net s mi path ttl tag _).trans (ih _)
    | schedr k => simp only [runTask]; exact (stepSync_drops net s mi path ttl tag _).trans (ih _)
    | spin l t e =>
      simp only [runTask]
      cases l with
      | zero => exact ih _
      | succ k => exact Drops.of_eq rfl rfl
    | spun l t e =>
      simp only [runTask]
      cases l with
      | zero => exact (spinDraw_drops s path tag 0 t e).trans (ih _)
      | succ k => exact (spinDraw_drops s path tag (k + 1) t e).trans (Drops.of_eq rfl rfl)
    | wait name =>
      simp only [runTask]
      cases s.mods[mi]? with
      | none => exact Drops.refl s
      | some m =>
        simp only []
        by_cases hp : semPermits m name = 0
        · simp only [hp, if_true]; exact Drops.of_eq rfl rfl
        · simp only [hp, if_false]; exact Drops.after_eq (ih _) rfl rfl

theorem pollTask_drops (net : Net) (a : Ambient) (s : Sim) (mi : Nat) (path : String) (ti : Nat) :
    Drops s (pollTask net a s mi path ti) := by
  unfold pollTask
  cases (s.mods[mi]?).bind (·.tasks[ti]?) with
  | none => exact Drops.refl s
  | some t =>
    simp only []
    cases t.wait with
    | run => exact runTask_drops ..
    | sleeping sl =>
      simp only []
      by_cases hd : s.now < sl.deadline
      · simp only [hd, if_true]; exact Drops.refl s
      · simp only [hd, if_false]; exact Drops.after_eq (runTask_drops ..) rfl rfl
    | selecting ss =>
      simp only []
      have hp := selPoll_drops s mi path t.tag ti ss
      generalize selPoll s mi path t.tag ti ss = res at hp
      obtain ⟨s', ss', w⟩ := res
      cases w with
      | some w => exact hp.trans (runTask_drops ..)
      | none => exact hp.trans (Drops.of_eq rfl rfl)
    | waiting n g =>
      simp only []
      cases g
      · exact Drops.refl s
      · simp only [if_true]; exact Drops.after_eq (runTask_drops ..) rfl rfl

theorem schedLoop_drops (net : Net) (a : Ambient) (mi : Nat) (path : String) (fuel : Nat) :
    ∀ s : Sim, Drops s (schedLoop net a mi path fuel s) := by
  induction fuel with
  | zero => intro s; exact Drops.refl s
  | succ n ih =>
    intro s
    simp only [schedLoop]
    cases s.mods[mi]? with
    | none => exact Drops.refl s
    | some m =>
      simp only []
      cases nextTask (m.tick + 1) m.localq m.inject with
      | none =>
        simp only []
        cases m.deferq with
        | nil => exact Drops.of_eq rfl rfl
        | cons x r => exact Drops.after_eq (ih _) rfl rfl
      | some r =>
        obtain ⟨t, l, i⟩ := r
        simp only []
        have hA : Drops s (s.updMod mi (fun m => { m with tick := m.tick + 1, localq := l, inject := i })) := Drops.of_eq rfl rfl
        exact (hA.trans (pollTask_drops net a _ mi path t)).trans (ih _)

theorem flush_stream (s : Sim) : s.flush.stream = s.stream := by
  unfold Sim.flush
  have : ∀ (l : List (KEvent × Nat)) (s0 : Sim), (l.foldl (fun s p => s.schedule p.1 p.2) s0).stream = s0.stream := by
    intro l
    induction l with
    | nil => intro s0; rfl
    | cons p r ih => intro s0; simp only [List.foldl_cons]; rw [ih, schedule_stream]
  rw [this]

theorem flush_seeds (s : Sim) : s.flush.seeds = s.seeds := by
  unfold Sim.flush
  have : ∀ (l : List (KEvent × Nat)) (s0 : Sim), (l.foldl (fun s p => s.schedule p.1 p.2) s0).seeds = s0.seeds := by
    intro l
    induction l with
    | nil => intro s0; rfl
    | cons p r ih => intro s0; simp only [List.foldl_cons]; rw [ih, schedule_seeds]
  rw [this]

theorem deactivate_drops (b : Bool) (s : Sim) (mi : Nat) : Drops s (deactivate b s mi) := by
  unfold deactivate
  cases s.mods[mi]? with
  | none => exact Drops.refl _
  | some m =>
    simp only []
    cases wakeTime b m with
    | none => exact Drops.refl _
    | some t => exact Drops.of_eq (by simp) (by simp)

theorem resetStage_drops (net : Net) (a : Ambient) (s : Sim) (mi : Nat) (path : String) :
    Drops s (resetStage net a s mi path) := by
  unfold resetStage
  simp only []
  have h1 : Drops s (((s.pop.2).recordSeed path s).log path "reset" "H" "-" []) :=
    (Drops.seed s path).trans (Drops.of_eq rfl rfl)
  exact (h1.trans (schedLoop_drops ..)).trans (deactivate_drops ..)

theorem processShutdown_drops (net : Net) (a : Ambient) (s : Sim) (mi : Nat) :
    Drops s (processShutdown net a s mi) := by
  unfold processShutdown
  cases s.mods[mi]? with
  | none => exact Drops.refl s
  | some m =>
    simp only []
    cases m.shutdownReq with
    | none => exact Drops.refl s
    | some restart =>
      simp only []
      have h1 : Drops s ((s.addDropped (unfinishedTags m)).updMod mi (shutMod s.now)) := Drops.of_eq rfl rfl
      have h2 := h1.trans (resetStage_drops net a _ mi m.path)
      cases restart with
      | none => exact h2
      | some t => exact h2.trans (Drops.of_eq (by simp) (by simp))

theorem moduleEvent_drops (net : Net) (a : Ambient) (s : Sim) (mi : Nat) (cb : Callback) (flush : Bool) :
    Drops s (moduleEvent net a s mi cb flush) := by
  unfold moduleEvent
  cases s.mods[mi]? with
  | none => exact Drops.of_eq rfl rfl
  | some m0 =>
    simp only []
    have h0 : Drops s (wakeStage s mi cb) := by cases cb <;> exact Drops.of_eq rfl rfl
    generalize wakeStage s mi cb = s0 at h0
    have h3 : Drops s0 (execStage net a s0 mi m0 cb) := by
      unfold execStage
      cases cb.runs m0.active
      · exact Drops.refl _
      · simp only [if_true]
        have h1 : Drops s0 (seedStage s0 mi m0.path m0.seeded) := by
          unfold seedStage
          cases m0.seeded
          · simp only [Bool.false_eq_true, if_false]
            exact (Drops.seed s0 m0.path).trans (Drops.of_eq rfl rfl)
          · exact Drops.refl _
        generalize seedStage s0 mi m0.path m0.seeded = s1 at h1
        have h2 : Drops s1 (runCallback net s1 mi m0 cb) := by
          cases cb with
          | start => exact Drops.after_eq (runHandler_drops ..) rfl rfl
          | message msg => exact Drops.after_eq (runHandler_drops ..) rfl rfl
          | wakeup => exact Drops.refl _
          | end_ => exact Drops.after_eq (runHandler_drops ..) rfl rfl
          | restart => exact Drops.after_eq (runHandler_drops ..) rfl rfl
        exact (h1.trans h2).trans (schedLoop_drops ..)
    have h5 := (h0.trans h3).trans (deactivate_drops net.skipEmpty _ mi)
    cases flush
    · exact h5
    · simp only [if_true]
      exact (h5.trans (Drops.of_eq (flush_stream _) (flush_seeds _))).trans (processShutdown_drops ..)

theorem step_drops (net : Net) (a : Ambient) (s s' : Sim) (h : step net a s = some s') : Drops s s' := by
  unfold step at h
  cases hf : FES.fetch s.fes with
  | error e => simp [hf] at h
  | ok r =>
    obtain ⟨e, f⟩ := r
    simp only [hf, Option.some.injEq] at h
    subst h
    cases s.evs[e.val]? with
    | none => exact Drops.of_eq rfl rfl
    | some ev =>
      cases ev with
      | deliver mi m => exact Drops.after_eq (moduleEvent_drops ..) rfl rfl
      | wakeup mi => exact Drops.after_eq (moduleEvent_drops ..) rfl rfl
      | restart mi => exact Drops.after_eq (moduleEvent_drops ..) rfl rfl
      | exitConn mi m => exact Drops.of_eq (by simp [dispatch]) (by simp [dispatch])
      | leave mi li m => exact Drops.after_eq (sendVia_drops ..) rfl rfl
      | unbusy li => exact Drops.after_eq (unbusy_drops ..) rfl rfl

theorem loop_drops (net : Net) (a : Ambient) (fuel : Nat) :
    ∀ (s : Sim) (n : Nat), Drops s (loop net a fuel s n).1 := by
  induction fuel with
  | zero =>
    intro s n
    simp only [loop]
    by_cases h0 : FES.len s.fes = 0
    · simp only [h0, if_true]; exact Drops.refl s
    · simp only [h0, if_false]; exact Drops.of_eq rfl rfl
  | succ k ih =>
    intro s n
    simp only [loop]
    cases s.fault with
    | some f => exact Drops.refl s
    | none =>
      simp only []
      cases hs : step net a s with
      | none => exact Drops.refl s
      | some s' => exact (step_drops net a s s' hs).trans (ih _ _)

theorem foldEvents_drops (net : Net) (a : Ambient) (cb : Callback) (flush : Bool) (l : List Nat) :
    ∀ s : Sim, Drops s (l.foldl (fun s mi => moduleEvent net a s mi cb flush) s) := by
  induction l with
  | nil => intro s; exact Drops.refl s
  | cons mi r ih => intro s; exact (moduleEvent_drops ..).trans (ih _)

theorem finalSimFrom_Drops (net : Net) (a : Ambient) (fuel : Nat) (s0 : Sim) :
    Drops s0 (finalSimFrom net a fuel s0).1 := by
  have h1 : Drops s0 (simStart net a s0) := foldEvents_drops ..
  have h2 := loop_drops net a fuel (simStart net a s0) 0
  unfold finalSimFrom
  simp only []
  generalize loop net a fuel (simStart net a s0) 0 = r at h2
  cases r.1.fault with
  | some f => exact h1.trans h2
  | none =>
    have h3 : Drops r.1 (simEnd net a r.1) := foldEvents_drops ..
    exact (h1.trans h2).trans h3

theorem finalSim_Drops (net : Net) (a : Ambient) (stream : List Nat) (fuel : Nat) :
    Drops (init net a stream) (finalSim net a stream fuel).1 :=
  finalSimFrom_Drops net a fuel _

theorem finalSim_drops (net : Net) (a : Ambient) (stream : List Nat) (fuel : Nat) :
    ∃ k, (finalSim net a stream fuel).1.stream = stream.drop k :=
  (finalSim_Drops net a stream fuel).drop

/-- every tokio seed recorded during the run is an element of the simulation's random stream -/
theorem finalSim_seeds (net : Net) (a : Ambient) (stream : List Nat) (fuel : Nat) :
    ∀ x ∈ (finalSim net a stream fuel).1.seeds, x.2 ∈ stream := by
  obtain ⟨u, e, hs, hd, hm⟩ := finalSim_Drops net a stream fuel
  intro x hx
  have h0 : (init net a stream).seeds = [] := rfl
  have hst : (init net a stream).stream = stream := rfl
  rw [hd, h0, List.nil_append] at hx
  rw [← hst, hs]
  exact List.mem_append.mpr (Or.inl (hm x hx))

end Repro
